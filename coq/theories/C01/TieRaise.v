(* C01 - the RAISE paths of the whole call of `_string_matching` (PV.Gen.C01Src.sm_body, plain edit-distance configuration,
   environment SrcRun.ext01): the dimension check (RuntimeError when ref or hyp is not 2-dimensional), the batch-size check
   (RuntimeError when the batch sizes differ), and a zero-width tensor together with an eos (IndexError out of
   `_lens_from_eos`: torch.max over an empty dimension).  The model has no raise paths: these inputs are outside its
   well-formedness predicate; the theorems say what the source does there. *)
From Coq Require Import ZArith QArith List String Bool Arith Lia ZifyBool ZifyNat.
From PV Require Import MiniPy.Syntax MiniPy.Interp MiniPy.Lemmas MiniTorch.Ops MiniTorch.Lemmas MiniTorch.OpsC07 MiniTorch.LemmasC07
  MiniTorch.OpsC01 MiniTorch.LemmasC01.
From PV Require Import Gen.C01Src C01.SrcRun C01.TieLib C01.TieMath C01.TieLoop C01.TieBlocks C01.TieWhole C01.TieLens C01.TiePre
  C01.TieBody.
From PV Require C07.SrcRun C01.Obs C01.Model C01.Proofs.
Import ListNotations.
Local Open Scope string_scope.

#[local] Arguments dec01 : simpl never.
#[local] Arguments enc_b : simpl never.
#[local] Arguments enc_i : simpl never.
#[local] Arguments enc_x : simpl never.
#[local] Arguments tab2 : simpl never.
#[local] Arguments tab3 : simpl never.
#[local] Arguments qz : simpl never.
#[local] Arguments Z.add : simpl never.
#[local] Arguments Z.sub : simpl never.
#[local] Arguments Z.of_nat : simpl nomatch.
#[local] Arguments select0 : simpl never.
#[local] Arguments slice0 : simpl never.
#[local] Arguments set_slice0 : simpl never.
#[local] Arguments broadcast : simpl never.
#[local] Arguments where_f : simpl never.
#[local] Arguments min_dim : simpl never.
#[local] Arguments gather0 : simpl never.
#[local] Arguments unsqueeze : simpl never.
#[local] Arguments squeeze_dim : simpl never.
#[local] Arguments expand2 : simpl never.
#[local] Arguments triu_f : simpl never.
#[local] Arguments transpose2 : simpl never.
#[local] Arguments arange_f : simpl never.
#[local] Arguments full : simpl never.
#[local] Arguments fadd : simpl never.
#[local] Arguments fsub : simpl never.
#[local] Arguments fmul : simpl never.
#[local] Arguments fdiv : simpl never.
#[local] Arguments fmin : simpl never.
#[local] Arguments b2f : simpl never.
#[local] Arguments z2f : simpl never.

#[local] Arguments ext01 : simpl never.
#[local] Arguments zf : simpl never.
#[local] Arguments ofx : simpl never.
#[local] Arguments seq : simpl never.
#[local] Arguments Qeq_bool : simpl never.
#[local] Arguments Qcompare : simpl never.
#[local] Arguments Z.eqb : simpl nomatch.
#[local] Arguments any_b : simpl never.


Definition raises (n : string) (o : outcome ctl) : Prop := exists st', o = Exc n st'.

Lemma raises_seq_l : forall n a b st, raises n (exec ext01 a st) -> raises n (exec ext01 (SSeq a b) st).
Proof. intros n a b st [st1 He]. cbn [exec]. rewrite He. eexists. reflexivity. Qed.

Lemma raises_seq : forall (P : state -> Prop) n a b st,
  runs_to P (exec ext01 a st) -> (forall st1, P st1 -> raises n (exec ext01 b st1)) -> raises n (exec ext01 (SSeq a b) st).
Proof. intros P n a b st [st1 [He P1]] Hb. cbn [exec]. rewrite He. cbn [bind]. now apply Hb. Qed.

Lemma exec_seq_assign_exc : forall x e b st n st1, eval ext01 e st = Exc n st1 ->
  exec ext01 (SSeq (SAssign [TName x] e) b) st = Exc n st1.
Proof. intros x e b st n st1 H. cbn [exec]. rewrite H. reflexivity. Qed.

Lemma run_raises : forall n body vars0, raises n (exec ext01 body (mkState vars0 [])) ->
  exists st', Interp.run ext01 body vars0 = Exc n st'.
Proof. intros n body vars0 [st' He]. unfold Interp.run. rewrite He. eexists. reflexivity. Qed.

(* ---- (1) the dimension check ------------------------------------------------------------------------------------ *)
Lemma pre_raises_dim : forall st (x y : tn Z),
  lookup "return_mask" (vars st) = Some (VBool false) -> lookup "return_prf_dsts" (vars st) = Some (VBool false) ->
  lookup "exclude_last" (vars st) = Some (VBool false) ->
  lookup "ref" (vars st) = Some (enc_i x) -> lookup "hyp" (vars st) = Some (enc_i y) ->
  (List.length (shp x) <> 2 \/ List.length (shp y) <> 2)%nat ->
  raises runtime_error (exec ext01 sm_pre st).
Proof.
  intros st x y Lm Lp Le Lx Ly Hd. unfold sm_pre.
  assertstep. assertstep.
  destruct (Z.of_nat (List.length (shp x)) =? 2)%Z eqn:E1; destruct (Z.of_nat (List.length (shp y)) =? 2)%Z eqn:E2;
    try (exfalso; lia);
    (ifstep_t ltac:(repeat (progress (evn; rewrite ?E1, ?E2)); reflexivity); cbn [negb]; cbn [exec]; eexists; reflexivity).
Qed.

Theorem string_matching_raises_dim :
  forall (x y : tn Z) (eos : option Z) (incl bf : bool) (qi qd qs : Q) (w nm : bool) (pad : Z),
  (List.length (shp x) <> 2 \/ List.length (shp y) <> 2)%nat ->
  exists st', Interp.run ext01 sm_body (sm_vars x y eos incl bf qi qd qs w nm pad) = Exc runtime_error st'.
Proof.
  intros. apply run_raises. rewrite sm_body_split. apply raises_seq_l.
  apply (pre_raises_dim _ x y); try reflexivity. assumption.
Qed.

(* ---- (2) the batch-size check: ref (R x N) / hyp (H x N') in the layout asked for, N <> N' ------------------------ *)
Section Mismatch.
  Variables (s : positive) (c : C01.Model.cfg) (R N H N' : nat) (rf hf : nat -> nat -> Z) (w : bool).
  Hypothesis HNN : N <> N'.

  Definition params_mm : list (string * val) :=
    [("ref", enc_i (in_tensor (C01.Model.c_bf c) R N rf)); ("hyp", enc_i (in_tensor (C01.Model.c_bf c) H N' hf));
     ("eos", opt_int (C01.Model.c_eos c)); ("include_eos", VBool (C01.Model.c_incl c));
     ("batch_first", VBool (C01.Model.c_bf c));
     ("ins_cost", VQ (qz s (C01.Model.c_ins c))); ("del_cost", VQ (qz s (C01.Model.c_del c)));
     ("sub_cost", VQ (qz s (C01.Model.c_sub c)));
     ("warn", VBool w); ("norm", VBool (C01.Model.c_norm c)); ("return_mask", VBool false);
     ("return_prf_dsts", VBool false); ("exclude_last", VBool false); ("return_mistakes", VBool false);
     ("torch", torch_module)].

  Definition stageP1mm : list (string * val) :=
    [("ref", enc_i (in_tensor (C01.Model.c_bf c) R N rf)); ("hyp", enc_i (in_tensor (C01.Model.c_bf c) H N' hf));
     ("batch_first", VBool (C01.Model.c_bf c))].

  Lemma pre_a_run_mm : forall st, known st params_mm -> runs_to (fun st' => known st' stageP1mm) (exec ext01 pre_a st).
  Proof.
    intros st K. unfold params_mm in K. open_known K. unfold pre_a, sm_pre, stageP1mm. cbn [seq_take].
    assertstep. assertstep.
    ifstep_t ltac:(repeat (progress (evn; rewrite ?in_tensor_rank)); reflexivity).
    asg. seqnorm.
    match goal with
    | Hi : lookup "ins_cost" (vars ?st0) = _, Hd : lookup "del_cost" (vars ?st0) = _, Hs : lookup "sub_cost" (vars ?st0) = _
      |- context [exec ext01 (SSeq (SIf ?cc ?t ?f) ?b) ?st0] =>
        destruct (cost_cond s c st0 Hi Hd Hs) as [v [Hv Ht]]; rewrite (exec_seq_if cc t f b st0 v st0 Hv), Ht; clear Hv Ht v
    end.
    destruct (uniformb (C01.Model.c_ins c) (C01.Model.c_del c) (C01.Model.c_sub c)).
    - ifstep. asg. assign3. asg. seqnorm. apply runs_to_ok. close_known.
    - ifstep. seqnorm. apply runs_to_ok. close_known.
  Qed.

  Lemma pre_b_raises_mm : forall st, known st stageP1mm -> raises runtime_error (exec ext01 pre_b st).
  Proof.
    intros st K. unfold stageP1mm in K. open_known K. unfold pre_b, sm_pre. cbn [seq_take seq_drop].
    destruct (C01.Model.c_bf c); unfold in_tensor in *.
    - ifstep. assign ltac:(repeat (progress (evn; rewrite ?transpose2_mat)); reflexivity).
      assign ltac:(repeat (progress (evn; rewrite ?transpose2_mat)); reflexivity).
      assign3. asg. asg. asg. asg. asg. asg. asg. asg. asg. asg.
      ifstep_t ltac:(repeat (progress (evn; replace (Z.of_nat N =? Z.of_nat N')%Z with false by lia)); reflexivity).
      cbn [negb]. cbn [exec]. eexists. reflexivity.
    - ifstep.
      assign3. asg. asg. asg. asg. asg. asg. asg. asg. asg. asg.
      ifstep_t ltac:(repeat (progress (evn; replace (Z.of_nat N =? Z.of_nat N')%Z with false by lia)); reflexivity).
      cbn [negb]. cbn [exec]. eexists. reflexivity.
  Qed.

  Theorem string_matching_raises_batch : forall (pad : Z),
    exists st', Interp.run ext01 sm_body
                  (sm_vars (in_tensor (C01.Model.c_bf c) R N rf) (in_tensor (C01.Model.c_bf c) H N' hf)
                     (C01.Model.c_eos c) (C01.Model.c_incl c) (C01.Model.c_bf c)
                     (qz s (C01.Model.c_ins c)) (qz s (C01.Model.c_del c)) (qz s (C01.Model.c_sub c)) w (C01.Model.c_norm c) pad)
                = Exc runtime_error st'.
  Proof.
    intros pad. apply run_raises. rewrite sm_body_split. apply raises_seq_l. rewrite sm_pre_split.
    eapply raises_seq.
    - apply pre_a_run_mm. unfold params_mm, sm_vars, globals01, torch_module. cbn [known app vars]. repeat split; reflexivity.
    - intros st1 K1. apply raises_seq_l. apply pre_b_raises_mm. exact K1.
  Qed.
End Mismatch.

(* ---- (3) an eos together with a zero-width tensor: IndexError out of `_lens_from_eos` ------------------------------- *)
Section ZeroWidth.
  Variables (s : positive) (c : C01.Model.cfg) (R N H : nat) (rf hf : nat -> nat -> Z) (w : bool).

  Lemma pre_c_raises_zero : forall st e, C01.Model.c_eos c = Some e -> (R = 0 \/ H = 0)%nat ->
    known st (stageP2 s c R N H rf hf w) -> raises index_error (exec ext01 pre_c st).
  Proof.
    intros st e He Hz K. unfold stageP2 in K. rewrite He in K. cbn [opt_int] in K. open_known K.
    unfold pre_c, sm_pre. cbn [seq_drop].
    ifstep.
    destruct (Nat.eq_dec R 0) as [HR|HR].
    - subst R. destruct (lens_run_2_empty (fun x => x) N rf e) as [sr Hr].
      seqnorm.
      match goal with |- context [exec ext01 (SSeq (SAssign [TName ?x] ?ee) ?b) ?st0] =>
        assert (Hev : eval ext01 ee st0 = Exc index_error st0)
          by (ev; rewrite ext_lens; unfold C07.SrcRun.call_body; rewrite Hr; reflexivity);
        rewrite (exec_seq_assign_exc x ee b st0 _ _ Hev) end.
      eexists. reflexivity.
    - assert (HH : H = 0%nat) by lia. subst H.
      destruct (lens_run_2 (fun x => x) R N rf e HR) as [sr Hr].
      destruct (lens_run_2_empty (fun x => x) N hf e) as [sh Hh].
      assign ltac:(ev; rewrite ext_lens; unfold C07.SrcRun.call_body; rewrite Hr; reflexivity).
      seqnorm.
      match goal with |- context [exec ext01 (SSeq (SAssign [TName ?x] ?ee) ?b) ?st0] =>
        assert (Hev : eval ext01 ee st0 = Exc index_error st0)
          by (ev; rewrite ext_lens; unfold C07.SrcRun.call_body; rewrite Hh; reflexivity);
        rewrite (exec_seq_assign_exc x ee b st0 _ _ Hev) end.
      eexists. reflexivity.
  Qed.

  Theorem string_matching_raises_zero_width : forall (e pad : Z), C01.Model.c_eos c = Some e -> (R = 0 \/ H = 0)%nat ->
    exists st', Interp.run ext01 sm_body
                  (sm_vars (in_tensor (C01.Model.c_bf c) R N rf) (in_tensor (C01.Model.c_bf c) H N hf)
                     (C01.Model.c_eos c) (C01.Model.c_incl c) (C01.Model.c_bf c)
                     (qz s (C01.Model.c_ins c)) (qz s (C01.Model.c_del c)) (qz s (C01.Model.c_sub c)) w (C01.Model.c_norm c) pad)
                = Exc index_error st'.
  Proof.
    intros e pad He Hz. apply run_raises. rewrite sm_body_split. apply raises_seq_l. rewrite sm_pre_split.
    eapply raises_seq.
    - apply (pre_a_run s c R N H rf hf w). unfold params, sm_vars, globals01, torch_module. cbn [known app vars]. repeat split; reflexivity.
    - intros st1 K1. eapply raises_seq; [apply pre_b_run; exact K1|]. intros st2 K2.
      eapply pre_c_raises_zero; eassumption.
  Qed.
End ZeroWidth.
