(* C20 — declarative reading of the property, independent of how the code computes it.

   * [valid s i]: index i is in range for shape s (r-coordinates, see Model.v).
   * [masked_convex_combination]: what an attention output coordinate must be - the
     normalised sum of the kept values, weighted by positive weights.
   * [mha_spec]: multi-headed attention as the composition the documentation describes:
     project (with the bias that was requested), run the wrapped single-head attention once
     per head on that head's block of features, concatenate, project. *)
From Coq Require Import List Arith Bool ZArith QArith.
From PV Require Import C20.Model.
Import ListNotations.
Local Open Scope nat_scope.

Definition valid (s : shape) (i : index) : Prop := Forall2 lt i s.

Fixpoint psum (l : list Q) : Q := match l with [] => 0%Q | x :: t => (x + psum t)%Q end.

Definition masked_convex_combination (T : nat) (kept : nat -> bool) (wt x : nat -> Q) : Q :=
  (psum (map (fun t => if kept t then (wt t * x t)%Q else 0%Q) (seq 0 T))
   / psum (map (fun t => if kept t then wt t else 0%Q) (seq 0 T)))%Q.

(* the h-th block of d features of a projected tensor *)
Definition head_slice (h d : nat) (t : tensor Q) : tensor Q :=
  mkT (d :: tl (tshape t))
      (fun i => match i with j :: r => tat t ((h * d + j) :: r) | [] => 0%Q end).

Section MHASpec.
  Variable expf : Q -> Q.
  Variable sc : list Q -> list Q -> Q.
  Variable P : mha_params.
  Variables q k v : tensor Q.
  Variable m : option (tensor bool).
  Variable p : nat.

  Definition head (h : nat) : option (tensor Q) :=
    attend expf sc
           (head_slice h (d_q P) (linear (WQ P) (bQ P) q))
           (head_slice h (d_k P) (linear (WK P) (bK P) k))
           (head_slice h (d_v P) (linear (WV P) (bV P) v))
           m p (d_q P) (d_k P).

  (* concatenation of the heads along the last axis; bs = shape of the remaining axes *)
  Definition heads_cat (bs : shape) : tensor Q :=
    mkT (num_heads P * d_v P :: bs)
        (fun i => match i with
                  | c :: r => match head (c / d_v P) with
                              | Some o => tat o ((c mod d_v P) :: r)
                              | None => 0%Q
                              end
                  | [] => 0%Q
                  end).

  Definition mha_spec (bs : shape) : tensor Q := linear (WC P) (bC P) (heads_cat bs).
End MHASpec.

(* boolean reading of the range clause on an implementation output (used by the harness to
   judge an output without the model): every defined cell lies within [lo, hi] of the kept
   values at that coordinate, up to [tol] *)
Definition range_okb (tol : Q) (v : tensor Q) (m : option (tensor bool)) (p : nat)
           (oshape : shape) (out : list Q) : bool :=
  let T := nth p (tshape v) 0 in
  forallb2 (fun cj y =>
              match cj with
              | c :: j =>
                  let ks := filter (fun t => kept_at m (ins (p - 1) t j)) (seq 0 T) in
                  match ks with
                  | [] => true
                  | _ => existsb (fun t => Qle_bool (bget v (c :: ins (p - 1) t j) - tol) y) ks
                         && existsb (fun t => Qle_bool y (bget v (c :: ins (p - 1) t j) + tol)) ks
                  end
              | [] => true
              end) (renum oshape) out.
