(* C06 — The n-gram lookup model computes Katz back-off on any table.
   Property theorems only: each is closed by [exact <lemma of Proofs.v>] and followed by
   [Print Assumptions].  The harness re-checks this file on every run.

   Reading guide.  [b] are the four flat buffers, [sh] the shape constants (vocab size, sos,
   order N, max_ngram_nodes, max_direct_descendants), [t] the n-gram table as the caller wrote
   it (any order, any sparsity), [tmap sh t] the same table with an out-of-vocabulary start
   symbol renamed to V (what _build_trie does first).  [trie_okb b sh (tmap sh t)] is a
   boolean the harness evaluates on the implementation's ACTUAL buffers for every generated
   table.  [katz] (Spec.v) is the back-off recursion evaluated directly on the table;
   [spec_at]/[spec_full] tabulate it for a batch of left-padded histories. *)
From Coq Require Import List ZArith Bool Arith.
From PV Require Import C06.Model C06.Spec C06.Proofs.
Import ListNotations.
Local Open Scope Z_scope.

(* the validator is sound: buffers it accepts represent the table (TrieOK: every listed
   n-gram has a node carrying its two numbers, every other reachable node carries (-inf, 0)) *)
Theorem c06_validator_sound : forall b sh t, trie_okb b sh t = true -> TrieOK b sh t.
Proof. exact trie_okb_sound. Qed.
Print Assumptions c06_validator_sound.

(* "the lookup language model's next-token log-probabilities equal the back-off recursion
   evaluated directly on the table", for one batch element and one context window: the
   two-path descent on buffers that represent the table *)
Theorem c06_lookup_is_katz : forall b sh t w v hidx,
  TrieOK b sh t -> (length w = order sh - 1)%nat -> (1 <= length w)%nat ->
  0 <= last w 0 < nroots sh -> 0 <= v < vocab sh -> Z.of_nat (length w) <= hidx ->
  lookup1 b sh hidx w v = katz t w v.
Proof. exact lookup1_trie. Qed.
Print Assumptions c06_lookup_is_katz.

(* renaming the out-of-vocabulary start symbol does not change the recursion
   ("start symbol inside or outside the vocabulary") *)
Theorem c06_sos_renaming : forall sh t ctx v,
  tab_ok (vocab sh) (sos sh) t -> Forall (tok_ok (vocab sh) (sos sh)) ctx -> 0 <= v < vocab sh ->
  katz (tmap sh t) (mapwin sh ctx) v = katz t ctx v.
Proof. exact katz_tmap. Qed.
Print Assumptions c06_sos_renaming.

(* "one index at a time", on the whole batch, histories left-padded with the start symbol:
   calc_idx_log_probs with a scalar index i <= T *)
Theorem c06_one_index_is_katz : forall b sh t hist B i,
  trie_okb b sh (tmap sh t) = true -> tab_okb (vocab sh) (sos sh) t = true ->
  hist_ok sh hist B -> (i <= length hist)%nat ->
  lookup_batch b sh hist B (Scalar (Z.of_nat i)) =
  Some (spec_at t (order sh) (vocab sh) (sos sh) hist B (repeat i B)).
Proof. exact lookup_scalar_katz. Qed.
Print Assumptions c06_one_index_is_katz.

(* the same through __call__, including negative indices *)
Theorem c06_call_with_index_is_katz : forall b sh t hist B i,
  trie_okb b sh (tmap sh t) = true -> tab_okb (vocab sh) (sos sh) t = true ->
  hist_ok sh hist B -> - zlen hist - 1 <= i <= zlen hist ->
  forward b sh hist B (Some (Scalar i)) =
  Some (AtIdx (spec_at t (order sh) (vocab sh) (sos sh) hist B
                 (repeat (Z.to_nat ((i + zlen hist + 1) mod (zlen hist + 1))) B))).
Proof. exact forward_scalar_katz. Qed.
Print Assumptions c06_call_with_index_is_katz.

(* "whether all positions are computed at once, in chunks of any size": every chunk size
   gives the table of the recursion at all T+1 positions *)
Theorem c06_full_is_katz_any_chunk : forall b sh t hist B chunk,
  trie_okb b sh (tmap sh t) = true -> tab_okb (vocab sh) (sos sh) t = true ->
  hist_ok sh hist B -> (1 <= chunk)%nat ->
  chunked b sh hist B chunk = Some (spec_full t (order sh) (vocab sh) (sos sh) hist B).
Proof. exact chunked_katz. Qed.
Print Assumptions c06_full_is_katz_any_chunk.

Theorem c06_call_full_is_katz : forall b sh t hist B,
  trie_okb b sh (tmap sh t) = true -> tab_okb (vocab sh) (sos sh) t = true ->
  hist_ok sh hist B ->
  forward b sh hist B None = Some (Full (spec_full t (order sh) (vocab sh) (sos sh) hist B)).
Proof. exact forward_full_katz. Qed.
Print Assumptions c06_call_full_is_katz.

(* chunked = one index at a time, for ANY buffers of consistent lengths (no table needed):
   the strided all-positions evaluation is a pure re-indexing *)
Theorem c06_chunked_eq_pointwise : forall b sh hist B chunk,
  lens_ok b sh = true -> (1 <= order sh)%nat -> rect hist B -> (1 <= chunk)%nat ->
  chunked b sh hist B chunk =
  opt_all (map (fun i => lookup_batch b sh hist B (Scalar (Z.of_nat i))) (seq 0 (S (length hist)))).
Proof. exact chunked_pointwise. Qed.
Print Assumptions c06_chunked_eq_pointwise.
