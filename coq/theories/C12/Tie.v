(* C12 — source tie, the statements: the Python text of `_load_ref`, `_write_hyp` (and blocks of `_info_and_validate`,
   TieValidate.v) as regenerated into PV.Gen.C12Src on every run, interpreted by PV.MiniPy.Interp with the torch calls
   given the meaning of PV.MiniTorch.OpsC12, computes what PV.C12.Model computes - for all inputs - and, composed with
   the model's theorems, wraps / strips the start and end symbols as the property says.  The symbolic runs are in
   TieLoad.v and TieHyp.v, the list-level facts in TieModel.v.  No axioms. *)
From Coq Require Import ZArith List String Bool Arith Lia.
From PV Require Import MiniPy.Syntax MiniPy.Interp MiniTorch.OpsC12 MiniTorch.LemmasC12 Gen.C12Src.
From PV Require Import C12.SrcRun C12.TieLib C12.TieModel C12.TieLoad C12.TieHyp.
From PV Require C12.Model C12.Spec C12.Proofs C12.Proofs2.
Import ListNotations.
Local Open Scope string_scope.

(* ---- _load_ref ---------------------------------------------------------------------------------------------------- *)
Definition source_load_ref_is_model := load_ref_run.
Definition source_src_load_ref_is_model := src_load_ref_tie.

Lemma sym_row3 : forall dt s, row3 (s, Model.minus1 dt, Model.minus1 dt) = Model.sym_row dt 3 s.
Proof. reflexivity. Qed.

(* reading a 1-D transcript (empty included) through the interpreted source puts the symbols around it *)
Theorem source_load_ref_wraps_1d : forall c cu dt t, Model.c_tokens_only c = false ->
  sym_ok dt (Model.c_sos c) -> sym_ok dt (Model.c_eos c) ->
  exists st, run_load_ref c (T1 cu dt t)
             = Ok (enc12 (T1 cu dt (Spec.wrap (Model.c_sos c) (Model.c_eos c) t))) st.
Proof.
  intros c cu dt t Hto Hs He.
  pose proof (load_ref_run c (Model.mkRef cu dt (Model.R1 t)) I Hs He) as H.
  rewrite (Proofs2.load_ref_1d c cu dt t Hto) in H. exact H.
Qed.

(* ... a transcript with segments: rows (sym, -1, -1) *)
Theorem source_load_ref_wraps_2d : forall c cu dt rows, Model.c_tokens_only c = false -> dt <> Model.DU8 ->
  sym_ok dt (Model.c_sos c) -> sym_ok dt (Model.c_eos c) ->
  exists st, run_load_ref c (T2 cu dt 3 (map row3 rows))
             = Ok (enc12 (T2 cu dt 3 (map row3 (Spec.wrap (option_map Spec.sym_of (Model.c_sos c))
                                                          (option_map Spec.sym_of (Model.c_eos c)) rows)))) st.
Proof.
  intros c cu dt rows Hto Hd Hs He.
  pose proof (load_ref_run c (Model.mkRef cu dt (Model.R2 rows)) I Hs He) as H.
  rewrite (Proofs2.load_ref_2d c cu dt rows Hto Hd) in H. exact H.
Qed.

(* ... tokens_only: the token column, wrapped *)
Theorem source_load_ref_wraps_tokens_only : forall c cu dt rows, Model.c_tokens_only c = true ->
  sym_ok dt (Model.c_sos c) -> sym_ok dt (Model.c_eos c) ->
  exists st, run_load_ref c (T2 cu dt 3 (map row3 rows))
             = Ok (enc12 (T1 cu dt (Spec.wrap (Model.c_sos c) (Model.c_eos c) (map Model.tok_of rows)))) st.
Proof.
  intros c cu dt rows Hto Hs He.
  pose proof (load_ref_run c (Model.mkRef cu dt (Model.R2 rows)) I Hs He) as H.
  rewrite (Proofs2.load_ref_tokens_only c cu dt rows Hto) in H. exact H.
Qed.

(* ---- _write_hyp --------------------------------------------------------------------------------------------------- *)
Definition source_write_hyp_is_model := write_hyp_run.
Definition source_src_write_hyp_is_model := src_write_hyp_tie.

(* whatever 1-D hypothesis is passed: what the interpreted source stores is a contiguous piece of it without either symbol *)
Theorem source_write_hyp_strips : forall sos eos cu dt (l : list Z),
  exists st stored,
    run_write_hyp sos eos (T1 cu dt l) = Ok VNone st /\ events st = saved (T1 false Model.DI64 stored)
    /\ (exists pre post, l = (pre ++ stored ++ post)%list)
    /\ (forall s, sos = Some s -> Forall (fun x => x <> s) stored)
    /\ (forall e, eos = Some e -> Forall (fun x => x <> e) stored).
Proof.
  intros sos eos cu dt l.
  destruct (write_hyp_run sos eos cu dt (Model.R1 l) I) as [st [E1 E2]].
  exists st, (Model.strip_hyp (fun x => x) sos eos l). split; [exact E1|]. split; [exact E2|].
  split; [apply (Proofs2.strip_infix (fun x => x))|]. apply (Proofs2.strip_free (fun x : Z => x)).
Qed.

(* ---- the round trip, purely about the interpreted source: what `_load_ref` returns for a stored transcript free of the
        symbols, handed to `_write_hyp`, is stored as the bare transcript (as a CPU long tensor) ---- *)
Theorem source_roundtrip_1d : forall c cu dt t, Model.c_tokens_only c = false ->
  sym_ok dt (Model.c_sos c) -> sym_ok dt (Model.c_eos c) ->
  Proofs2.free_of (Model.c_sos c) t -> Proofs2.free_of (Model.c_eos c) t ->
  (forall s e, Model.c_sos c = Some s -> Model.c_eos c = Some e -> s <> e) ->
  exists loaded st1 st2,
    run_load_ref c (T1 cu dt t) = Ok (enc12 loaded) st1
    /\ run_write_hyp (Model.c_sos c) (Model.c_eos c) loaded = Ok VNone st2
    /\ events st2 = saved (T1 false Model.DI64 t).
Proof.
  intros c cu dt t Hto Hs He Fs Fe Hne.
  destruct (source_load_ref_wraps_1d c cu dt t Hto Hs He) as [st1 E1].
  destruct (write_hyp_run (Model.c_sos c) (Model.c_eos c) cu dt
              (Model.R1 (Spec.wrap (Model.c_sos c) (Model.c_eos c) t)) I) as [st2 [E2 E3]].
  rewrite (Proofs2.roundtrip_1d _ _ t Fs Fe Hne) in E3.
  exists (T1 cu dt (Spec.wrap (Model.c_sos c) (Model.c_eos c) t)), st1, st2. repeat split; assumption.
Qed.

Theorem source_roundtrip_2d : forall c cu dt rows, Model.c_tokens_only c = false -> dt <> Model.DU8 ->
  sym_ok dt (Model.c_sos c) -> sym_ok dt (Model.c_eos c) ->
  Proofs2.free_of (Model.c_sos c) (map Model.tok_of rows) -> Proofs2.free_of (Model.c_eos c) (map Model.tok_of rows) ->
  (forall s e, Model.c_sos c = Some s -> Model.c_eos c = Some e -> s <> e) ->
  exists loaded st1 st2,
    run_load_ref c (T2 cu dt 3 (map row3 rows)) = Ok (enc12 loaded) st1
    /\ run_write_hyp (Model.c_sos c) (Model.c_eos c) loaded = Ok VNone st2
    /\ events st2 = saved (T2 false Model.DI64 3 (map row3 rows)).
Proof.
  intros c cu dt rows Hto Hd Hs He Fs Fe Hne.
  destruct (source_load_ref_wraps_2d c cu dt rows Hto Hd Hs He) as [st1 E1].
  destruct (write_hyp_run (Model.c_sos c) (Model.c_eos c) cu dt
              (Model.R2 (Spec.wrap (option_map Spec.sym_of (Model.c_sos c)) (option_map Spec.sym_of (Model.c_eos c)) rows)) I)
    as [st2 [E2 E3]].
  rewrite (Proofs2.roundtrip_2d _ _ rows Fs Fe Hne) in E3.
  eexists _, st1, st2. repeat split; [exact E1|exact E2|exact E3].
Qed.

(* ---- blocks of `_info_and_validate` under the glue of SrcRunV.v (`_partial`: see SrcRunV.v for what is glue) ------------ *)
From PV Require Import C12.SrcRunV C12.TieVTac C12.TieVAli C12.TieVRef2 C12.TieValidate C12.TieValidateAll.

Definition source_validate_is_model := src_validate_is_model.
Definition source_step_is_model := step_tie.

(* strict validation through the interpreted blocks accepts exactly the well-formed directories (and leaves them as they are) *)
Theorem source_strict_accepts_iff_wellformed : forall c d,
  Proofs.plain_yield c -> Spec.syms_nonneg c -> Spec.tokens_nonneg d -> Forall utt_stored_ok d ->
  (src_validate c Model.FNone d = Some (d, None) <-> Spec.WellFormed d).
Proof.
  intros c d Hp Hs Ht Hd. rewrite (src_validate_is_model c Model.FNone d (proj2 Hp) Hd).
  rewrite <- (Proofs.strict_accepts_iff c d Hp Hs Ht). split; [intros H; now inversion H|intros ->; reflexivity].
Qed.

(* strict validation never writes, whatever the outcome *)
Theorem source_strict_never_writes : forall c d, Model.c_suppress_alis c = false -> Forall utt_stored_ok d ->
  exists r, src_validate c Model.FNone d = Some (d, r).
Proof.
  intros c d Hs Hd. rewrite (src_validate_is_model c Model.FNone d Hs Hd).
  pose proof (Proofs.strict_never_writes c d) as H. destruct (Model.validate c Model.FNone d) as [d' r]. cbn in H. subst. now exists r.
Qed.

(* with a tolerance: what the interpreted blocks leave on disk when they return is the documented repair, and it is valid *)
Theorem source_fix_result_is_repair : forall c fa d d',
  Proofs.plain_yield c -> Proofs.clean_writes c (Spec.tolerance fa) -> Forall utt_stored_ok d ->
  src_validate c fa d = Some (d', None) -> d' = Spec.repair (Spec.tolerance fa) d /\ Spec.WellFormed d'.
Proof.
  intros c fa d d' Hp Hc Hd H. rewrite (src_validate_is_model c fa d (proj2 Hp) Hd) in H. inversion H as [H1].
  apply (Proofs.validate_result c fa d d' Hp Hc H1).
Qed.
