(* C01 - the WHOLE body of `_string_matching` as one term (PV.Gen.C01Src.sm_body): it is the sequence of the blocks
   sm_pre; sm_row0; <flag block; loop; exits; gather>; sm_fin, where the loop differs from sm_loop only in the name of the
   tuple-unpacking temporary ($t3 for $t1: the translator numbers them per translated term).  The loop body is run
   again with the script of TieLoop; everything else is literally the blocks. *)
From Coq Require Import ZArith QArith List String Bool Arith Lia ZifyBool ZifyNat.
From PV Require Import MiniPy.Syntax MiniPy.Interp MiniPy.Lemmas MiniTorch.Ops MiniTorch.Lemmas MiniTorch.OpsC07 MiniTorch.LemmasC07
  MiniTorch.OpsC01 MiniTorch.LemmasC01.
From PV Require Import Gen.C01Src C01.SrcRun C01.TieLib C01.TieMath C01.TieLoop C01.TieBlocks C01.TieWhole.
From PV Require C01.Model C01.Proofs.
Import ListNotations.
Local Open Scope string_scope.

#[local] Arguments dec01 : simpl never.
#[local] Arguments enc_b : simpl never.
#[local] Arguments enc_i : simpl never.
#[local] Arguments enc_x : simpl never.
#[local] Arguments tab2 : simpl never.
#[local] Arguments tab3 : simpl never.
#[local] Arguments qz : simpl never.
#[local] Arguments Z.add : simpl never.
#[local] Arguments Z.sub : simpl never.
#[local] Arguments Z.of_nat : simpl never.
#[local] Arguments select0 : simpl never.
#[local] Arguments slice0 : simpl never.
#[local] Arguments set_slice0 : simpl never.
#[local] Arguments broadcast : simpl never.
#[local] Arguments where_f : simpl never.
#[local] Arguments min_dim : simpl never.
#[local] Arguments gather0 : simpl never.
#[local] Arguments unsqueeze : simpl never.
#[local] Arguments squeeze_dim : simpl never.
#[local] Arguments expand2 : simpl never.
#[local] Arguments triu_f : simpl never.
#[local] Arguments transpose2 : simpl never.
#[local] Arguments arange_f : simpl never.
#[local] Arguments full : simpl never.
#[local] Arguments fadd : simpl never.
#[local] Arguments fsub : simpl never.
#[local] Arguments fmul : simpl never.
#[local] Arguments fdiv : simpl never.
#[local] Arguments fmin : simpl never.
#[local] Arguments b2f : simpl never.
#[local] Arguments z2f : simpl never.

#[local] Arguments ext01 : simpl never.
#[local] Arguments zf : simpl never.
#[local] Arguments ofx : simpl never.
#[local] Arguments argmin_3 : simpl never.
#[local] Arguments seq : simpl never.
#[local] Arguments fmin_list : simpl never.
#[local] Arguments zrange : simpl never.

Definition loop3 : stmt := match seq_drop 19 sm_body with SSeq a _ => a | _ => SPass end.
Definition body3 : stmt := match loop3 with SFor _ _ b => b | _ => SPass end.
Lemma loop3_eq : loop3 = SFor "hyp_idx" loop_iter body3.
Proof. reflexivity. Qed.

Lemma sm_body_split : forall st,
  exec ext01 sm_body st =
  exec ext01 (SSeq sm_pre (SSeq sm_row0 (SSeq (SSeq main_flags (SSeq loop3 main_rest)) sm_fin))) st.
Proof. intros st. rewrite !exec_flatten. f_equal. Qed.

Section Body3.
  Variables (s : positive) (ci cd cs : Z) (R N H : nat) (rf hf : nat -> nat -> Z) (hl : nat -> nat).
  Variables (vrl vmult vnorm vwarn : val).
  Notation pre := (body_pre s ci cd cs R N H rf hf hl vrl vmult vnorm vwarn).

  Theorem body_run3 : forall st k lf, (1 <= k <= H)%nat -> pre lf st ->
    runs_to (pre (fun i n => nth i (step_col ci cd cs R H rf hf hl k lf n) 0%Z))
            (exec ext01 body3 (set_var "hyp_idx" (VInt (Z.of_nat k)) st)).
  Proof.
    intros st k lf Hk (Hexcl & Hmist & Hmask & Hprf & Hhl & Href & Hhyp & Hci & Hcs & Hdm & Hrl & Hmu & Hno & Hwa & Hrow).
    unfold body3, loop3, sm_body. cbn [seq_drop]. cbv iota. unfold step_col. body_script k Hk.
  Qed.

  Theorem loop_tie3 : forall st lf, pre lf st -> lookup "max_hyp_steps" (vars st) = Some (VInt (Z.of_nat H)) ->
    runs_to (pre (fun i n => nth i (iter_col ci cd cs R H rf hf hl H 0 lf n) 0%Z)) (exec ext01 loop3 st).
  Proof. rewrite loop3_eq. exact (loop_tie_gen s ci cd cs R N H rf hf hl vrl vmult vnorm vwarn body3 body_run3). Qed.
End Body3.
