(* C16 — tie lemmas, part 1 (symbolic execution): interpreting the regenerated source terms
   (PV.Gen.C16Src) emits exactly the file-system operations of SrcRun.update_ops_fd, for every
   parameter combination, cache, disk and oracle.  Part 2 (Tie.v) relates update_ops_fd to
   PV.C16.Model.update_ops.  See SrcRun.v for the environment [ext16] and the encodings. *)
From Coq Require Import ZArith QArith List String Bool Arith Ascii Lia DecimalString DecimalNat.
From PV Require Import MiniPy.Syntax MiniPy.Interp Gen.C16Src C16.Model C16.Proofs C16.SrcRun.
Import ListNotations.
Local Open Scope string_scope.
Local Open Scope nat_scope.

#[local] Arguments Z.of_nat : simpl never.
#[local] Arguments Z.to_nat : simpl never.
#[local] Arguments Z.add : simpl nomatch.
#[local] Arguments Z.sub : simpl nomatch.
#[local] Arguments Z.eqb : simpl nomatch.
#[local] Arguments Z.leb : simpl nomatch.
#[local] Arguments Z.ltb : simpl nomatch.
#[local] Arguments Nat.sub : simpl nomatch.
#[local] Arguments Nat.eqb : simpl nomatch.
#[local] Arguments inject_Z : simpl never.
#[local] Arguments Qcompare : simpl never.
#[local] Arguments dec : simpl never.
#[local] Arguments undec : simpl never.

(* ---- paths as strings --------------------------------------------------------------------- *)
Lemma undec_dec n : undec (dec n) = Some n.
Proof. unfold undec, dec. rewrite NilEmpty.usu. cbn. rewrite Unsigned.of_to. reflexivity. Qed.

Lemma path_of_pstr p : path_of_str (pstr p) = Some p.
Proof. destruct p as [[|] [e|]|c [|]]; cbn; rewrite ?undec_dec; reflexivity. Qed.

Lemma pstr_inj p q : pstr p = pstr q -> p = q.
Proof.
  intros H. assert (E : path_of_str (pstr p) = path_of_str (pstr q)) by (rewrite H; reflexivity).
  rewrite !path_of_pstr in E. inversion E. reflexivity.
Qed.

Lemma pstr_eqb p q : String.eqb (pstr p) (pstr q) = path_eqb p q.
Proof.
  destruct (path_eqb p q) eqn:E.
  - apply path_eqb_eq in E. subst. apply String.eqb_refl.
  - apply String.eqb_neq. intros H. apply pstr_inj in H. subst. rewrite path_eqb_refl in E. discriminate.
Qed.

#[local] Arguments pstr : simpl never.

Lemma vp_eqb p q : val_eqb (vp p) (vp q) = path_eqb p q.
Proof. cbn. apply pstr_eqb. Qed.

(* a path string is not a tagged library object: its rich comparisons are MiniPy's own (Interp's ECmp clause) *)
Lemma foreign_vp p : foreign (vp p) = false.
Proof. reflexivity. Qed.

Lemma path_eqb_sym p q : path_eqb p q = path_eqb q p.
Proof.
  destruct (path_eqb q p) eqn:E.
  - apply path_eqb_eq in E. subst. apply path_eqb_refl.
  - destruct (path_eqb p q) eqn:E2; [|reflexivity]. apply path_eqb_eq in E2. subst.
    rewrite path_eqb_refl in E. discriminate.
Qed.

Lemma mem_vps p l : Interp.mem (vp p) (vps l) = mem p l.
Proof.
  induction l as [|x l IH]; [reflexivity|].
  cbn [vps map Interp.mem mem existsb]. fold (vps l). rewrite vp_eqb, IH. reflexivity.
Qed.

Lemma vps_app a b : vps (a ++ b) = (vps a ++ vps b)%list.
Proof. apply map_app. Qed.

Lemma set_add_all_vps l : forall acc, set_add_all (vps acc) (vps l) = vps (padd_all acc l).
Proof.
  induction l as [|x l IH]; intros acc; [reflexivity|].
  cbn [vps map set_add_all padd_all]. fold (vps l). fold (vps acc). rewrite mem_vps.
  destruct (mem x acc).
  - apply IH.
  - change [vp x] with (vps [x]). rewrite <- vps_app. apply IH.
Qed.

Lemma set_inter_vps x y : set_inter (vps x) (vps y) = vps (filter (fun p => mem p y) x).
Proof.
  unfold set_inter. induction x as [|a x IH]; [reflexivity|].
  cbn [vps map filter]. fold (vps x). rewrite mem_vps. destruct (mem a y); cbn [vps map]; rewrite IH; reflexivity.
Qed.

Lemma set_diff_vps x y : set_diff (vps x) (vps y) = vps (filter (fun p => negb (mem p y)) x).
Proof.
  unfold set_diff. induction x as [|a x IH]; [reflexivity|].
  cbn [vps map filter]. fold (vps x). rewrite mem_vps. destruct (mem a y); cbn [negb vps map]; rewrite IH; reflexivity.
Qed.

Lemma vpaths_vps l : vpaths (vps l) = Some l.
Proof.
  induction l as [|x l IH]; [reflexivity|].
  cbn [vps map vpaths]. fold (vps l). rewrite IH. unfold vp, vpath. rewrite path_of_pstr. reflexivity.
Qed.

(* ---- numbers ---------------------------------------------------------------------------- *)
Lemma zeqb_nat a b : (Z.of_nat a =? Z.of_nat b)%Z = Nat.eqb a b.
Proof.
  destruct (Nat.eqb a b) eqn:E.
  - apply Nat.eqb_eq in E. subst. apply Z.eqb_refl.
  - apply Nat.eqb_neq in E. apply Z.eqb_neq. lia.
Qed.

Lemma zleb0_nat a : (0 <=? Z.of_nat a)%Z = true.
Proof. apply Z.leb_le. lia. Qed.

Lemma qcompare_inject x y : Qcompare (inject_Z x) (inject_Z y) = Z.compare x y.
Proof. unfold Qcompare, inject_Z. cbn [Qnum Qden]. rewrite !Z.mul_1_r. reflexivity. Qed.

Lemma q_int_inject z : q_int (inject_Z z) = Some z.
Proof. reflexivity. Qed.

(* ---- rows and the cache ------------------------------------------------------------------- *)
Lemma row_of_info_enc r : row_of_info (enc_row r) = Some r.
Proof.
  unfold enc_row, info_of, vnat, vmet. cbn. rewrite zleb0_nat, Nat2Z.id. destruct r; reflexivity.
Qed.

Lemma info_epoch_enc r : info_epoch (enc_row r) = Some (r_epoch r).
Proof. unfold enc_row, info_of, vnat. cbn. rewrite zleb0_nat, Nat2Z.id. reflexivity. Qed.

Lemma info_epoch_dummy : info_epoch dummy_info = Some 0.
Proof. reflexivity. Qed.

Lemma op_of_event_enc o : op_of_event (ev_of_op o) = Some o.
Proof.
  destruct o; cbn -[enc_row]; unfold vp, vpath; rewrite ?path_of_pstr; cbn -[enc_row];
    rewrite ?path_of_pstr, ?row_of_info_enc; reflexivity.
Qed.

Lemma ops_of_events_enc ops : ops_of_events (map ev_of_op ops) = Some ops.
Proof.
  induction ops as [|o ops IH]; [reflexivity|].
  cbn [map ops_of_events]. rewrite op_of_event_enc, IH. reflexivity.
Qed.

(* what get_info finds: an info whose "epoch" is the key *)
Definition info_for (c : cache) (e : nat) (i : val) : Prop :=
  dict_get ((VInt 0, dummy_info) :: enc_entries c) (vnat e) = Some i /\ info_epoch i = Some e.

Lemma entries_get c e : List.In e (map r_epoch c) ->
  exists r, dict_get (enc_entries c) (vnat e) = Some (enc_row r) /\ r_epoch r = e.
Proof.
  induction c as [|x c IH]; [intros []|]. intros [H|H].
  - subst e. exists x. cbn [enc_entries map dict_get]. unfold vnat at 1 2. cbn [val_eqb]. rewrite zeqb_nat, Nat.eqb_refl.
    split; reflexivity.
  - cbn [enc_entries map dict_get]. unfold vnat at 1 2. cbn [val_eqb]. rewrite zeqb_nat.
    destruct (Nat.eqb e (r_epoch x)) eqn:E.
    + exists x. split; [reflexivity|]. apply Nat.eqb_eq in E. auto.
    + apply IH, H.
Qed.

Lemma info_for_present c e : e = 0 \/ List.In e (map r_epoch c) -> exists i, info_for c e i.
Proof.
  intros H. unfold info_for. cbn [dict_get]. unfold vnat at 1. cbn [val_eqb].
  change 0%Z with (Z.of_nat 0). rewrite zeqb_nat.
  destruct (Nat.eqb e 0) eqn:E.
  - apply Nat.eqb_eq in E. subst. exists dummy_info. split; reflexivity.
  - destruct H as [H|H]; [subst; discriminate|].
    destruct (entries_get c e H) as [r [Hg He]]. exists (enc_row r). split; [exact Hg|].
    rewrite info_epoch_enc, He. reflexivity.
Qed.

Lemma entries_set r c :
  dict_set (enc_entries c) (vnat (r_epoch r)) (enc_row r) = enc_entries (cache_set r c).
Proof.
  induction c as [|x c IH]; [reflexivity|].
  cbn [enc_entries map dict_set cache_set]. unfold vnat at 1 2. cbn [val_eqb]. rewrite zeqb_nat.
  rewrite Nat.eqb_sym. destruct (Nat.eqb (r_epoch x) (r_epoch r)) eqn:E.
  - cbn [map]. apply Nat.eqb_eq in E. rewrite E. reflexivity.
  - cbn [map]. f_equal. apply IH.
Qed.

Lemma cache_set_epochs r c e : List.In e (map r_epoch c) -> List.In e (map r_epoch (cache_set r c)).
Proof.
  induction c as [|x c IH]; [intros []|]. cbn [cache_set].
  destruct (Nat.eqb (r_epoch x) (r_epoch r)) eqn:E; cbn [map List.In]; intros [H|H]; auto.
  apply Nat.eqb_eq in E. left. congruence.
Qed.

Lemma cache_set_has r c : List.In (r_epoch r) (map r_epoch (cache_set r c)).
Proof.
  induction c as [|x c IH]; [left; reflexivity|]. cbn [cache_set].
  destruct (Nat.eqb (r_epoch x) (r_epoch r)) eqn:E; cbn [map List.In]; auto.
Qed.

Lemma last_epoch_acc c : forall m, fold_left (fun m r => Nat.max m (r_epoch r)) c m = m \/
  List.In (fold_left (fun m r => Nat.max m (r_epoch r)) c m) (map r_epoch c).
Proof.
  induction c as [|x c IH]; intros m; [left; reflexivity|]. cbn [fold_left map List.In].
  destruct (IH (Nat.max m (r_epoch x))) as [H|H].
  - rewrite H. destruct (Nat.max_spec m (r_epoch x)) as [[_ E]|[_ E]]; rewrite E; auto.
  - auto.
Qed.

Lemma last_epoch_In c : last_epoch c = 0 \/ List.In (last_epoch c) (map r_epoch c).
Proof. apply last_epoch_acc. Qed.

(* ---- loops ---------------------------------------------------------------------------------- *)
Section Loops.
  Variable ext : string -> list val -> list (string * val) -> state -> Interp.outcome val.

  Lemma for_nil x body st : exec ext (SFor x (EConst (VList [])) body) st = Ok CNormal st.
  Proof. reflexivity. Qed.

  Lemma for_cons x i r body st :
    exec ext (SFor x (EConst (VList (i :: r))) body) st =
    bind (exec ext body (set_var x i st)) (fun c st' =>
      match c with CNormal => exec ext (SFor x (EConst (VList r)) body) st' | CReturn _ => Ok c st' end).
  Proof. reflexivity. Qed.

  Lemma for_eval x e body st l st1 : eval ext e st = Ok (VList l) st1 ->
    exec ext (SFor x e body) st = exec ext (SFor x (EConst (VList l)) body) st1.
  Proof. intros H. cbn [exec]. rewrite H. reflexivity. Qed.
End Loops.

(* ---- get_last_epoch ---------------------------------------------------------------------- *)
Lemma q_extreme_keys c : forall m,
  q_extreme true (vnat m) (map fst (enc_entries c)) =
  Some (vnat (fold_left (fun m r => Nat.max m (r_epoch r)) c m)).
Proof.
  induction c as [|x c IH]; intros m; [reflexivity|].
  cbn [enc_entries map fst q_extreme fold_left]. fold (enc_entries c).
  unfold vnat at 1 2. cbn [cmp_eval as_q q_cmp]. rewrite qcompare_inject.
  destruct (Z.compare_spec (Z.of_nat (r_epoch x)) (Z.of_nat m)) as [E|E|E].
  - replace (Nat.max m (r_epoch x)) with m by lia. apply IH.
  - replace (Nat.max m (r_epoch x)) with m by lia. apply IH.
  - replace (Nat.max m (r_epoch x)) with (r_epoch x) by lia. apply IH.
Qed.

Lemma last_epoch_tie P d cn ro P' c :
  Interp.run (ext_base P d cn ro) tsc_get_last_epoch [("self", self_of P' c)]
  = Ok (vnat (last_epoch c)) (mkState [("self", self_of P' c)] []).
Proof.
  unfold Interp.run, tsc_get_last_epoch, self_of, enc_cache. cbn.
  change (VInt 0) with (vnat 0). rewrite q_extreme_keys. reflexivity.
Qed.

(* ---- get_best_epoch ------------------------------------------------------------------------ *)
Definition best_body : stmt :=
  match tsc_get_best_epoch with
  | SSeq _ (SSeq _ (SSeq _ (SSeq _ (SSeq _ (SSeq (SFor _ _ body) _))))) => body
  | _ => SPass
  end.

Definition enc_min (m : option Z) : val := match m with None => VInf true | Some z => vmet z end.

Definition bst (self : val) (b : bool) (acc : nat * option Z) (info cur : val) : state :=
  mkState [("self", self); ("train_met", VBool b); ("ent", VStr (if b then "train_met" else "val_met"));
           ("fmt", VStr "{:.4e}"); ("min_epoch", vnat (fst acc)); ("min_met", enc_min (snd acc));
           ("info", info); ("cur", cur)] [].

Lemma best_body_step P d cn ro self b acc info cur r :
  exec (ext_base P d cn ro) best_body (set_var "info" (enc_row r) (bst self b acc info cur))
  = Ok CNormal (bst self b (best_step b acc r) (enc_row r) (vmet (met b r))).
Proof.
  unfold best_body, tsc_get_best_epoch, bst, best_step, enc_row, info_of, set_var.
  destruct acc as [me [mm|]], b; cbn; rewrite ?qcompare_inject; unfold Z.ltb;
    try destruct (_ ?= _)%Z; reflexivity.
Qed.

Lemma best_loop P d cn ro self b c : forall acc info cur,
  exists info' cur',
    exec (ext_base P d cn ro) (SFor "info" (EConst (VList (map enc_row c))) best_body) (bst self b acc info cur)
    = Ok CNormal (bst self b (fold_left (best_step b) c acc) info' cur').
Proof.
  induction c as [|r c IH]; intros acc info cur.
  - exists info, cur. reflexivity.
  - cbn [map fold_left]. rewrite for_cons, best_body_step. cbn [bind]. apply IH.
Qed.

Lemma map_snd_entries c : map snd (enc_entries c) = map enc_row c.
Proof. unfold enc_entries. rewrite map_map. reflexivity. Qed.

Lemma best_epoch_tie P d cn ro P' c b :
  exists st,
    Interp.run (ext_base P d cn ro) tsc_get_best_epoch [("self", self_of P' c); ("train_met", VBool b)]
    = Ok (vnat (best_epoch b c)) st.
Proof.
  unfold Interp.run.
  assert (H : exists st, exec (ext_base P d cn ro) tsc_get_best_epoch
                (mkState [("self", self_of P' c); ("train_met", VBool b)] [])
              = Ok (CReturn (vnat (best_epoch b c))) st).
  2:{ destruct H as [st H]. rewrite H. eauto. }
  unfold tsc_get_best_epoch.
  match goal with |- context [SFor "info" ?e ?bd] => change bd with best_body; remember (SFor "info" e best_body) as LS eqn:EL end.
  destruct (best_loop P d cn ro (self_of P' c) b c (0, None) dummy_info (VInf true)) as [info' [cur' HL]].
  unfold self_of, enc_cache in *.
  destruct b.
  all: cbn -[enc_entries]; subst LS.
  all: erewrite for_eval by (cbn -[enc_entries]; rewrite map_snd_entries; reflexivity).
  all: rewrite for_cons.
  all: remember (SFor "info" (EConst (VList (map enc_row c))) best_body) as LS2 eqn:EL2.
  all: cbn -[enc_entries].
  all: match type of HL with exec _ _ ?st0 = _ =>
         match goal with |- context [exec _ ?ls ?st] => is_var ls; change st with st0 end end.
  all: rewrite HL; cbn; unfold best_epoch; eexists; reflexivity.
Qed.

(* ---- what [ext16] answers (one lemma per kind of call) ----------------------------------------- *)
Section Ext.
  Variables (P : params) (d : disk) (cn : nat) (ro : list path).
  Let ext := ext16 P d cn ro.

  Lemma ext_last st P' c : lookup "self" (vars st) = Some (self_of P' c) ->
    ext "self.get_last_epoch" [] [] st = Ok (vnat (last_epoch c)) st.
  Proof.
    intros H. unfold ext, ext16. cbn -[tsc_get_last_epoch Interp.run self_of]. rewrite H.
    unfold call_method. rewrite last_epoch_tie. reflexivity.
  Qed.

  Lemma ext_best st P' c b : lookup "self" (vars st) = Some (self_of P' c) ->
    ext "self.get_best_epoch" [VBool b] [] st = Ok (vnat (best_epoch b c)) st.
  Proof.
    intros H. unfold ext, ext16. cbn -[tsc_get_best_epoch Interp.run self_of]. rewrite H.
    unfold call_method. destruct (best_epoch_tie P d cn ro P' c b) as [st' E]. rewrite E. reflexivity.
  Qed.

  Lemma ext_fstring args st : ext "$fstring" args [] st = Ok (VStr "") st.
  Proof. reflexivity. Qed.

  Lemma ext_mpath i e st : info_epoch i = Some e ->
    ext "self.get_model_path_with_info" [i] [] st = Ok (vp (pth P KM e)) st.
  Proof. intros H. unfold ext, ext16, ext_base, path_call. cbn. destruct i; try discriminate H. rewrite H. reflexivity. Qed.

  Lemma ext_opath i e st : info_epoch i = Some e ->
    ext "self.get_optimizer_path_with_info" [i] [] st = Ok (vp (pth P KO e)) st.
  Proof. intros H. unfold ext, ext16, ext_base, path_call. cbn. destruct i; try discriminate H. rewrite H. reflexivity. Qed.

  Lemma ext_get_info k i h st : self_attr st "cache_hist" = Some (VDict h) -> dict_get h k = Some i ->
    ext "self.get_info" [k] [] st = Ok i st.
  Proof. intros H1 H2. unfold ext, ext16, ext_base. cbn -[self_attr]. rewrite H1, H2. reflexivity. Qed.

  Lemma cur_disk_enc st ops : events st = map ev_of_op ops -> cur_disk d st = Some (apply_ops d ops).
  Proof. intros H. unfold cur_disk. rewrite H, ops_of_events_enc. reflexivity. Qed.

  Lemma ext_exists p st ops : events st = map ev_of_op ops ->
    ext "os.path.exists" [vp p] [] st = Ok (VBool (exists_b (files (apply_ops d ops)) p)) st.
  Proof.
    intros H. unfold ext, ext16, ext_base. cbn -[cur_disk]. rewrite (cur_disk_enc st ops H).
    rewrite path_of_pstr. reflexivity.
  Qed.

  Lemma ext_save_info e tr va v s h st :
    lookup "self" (vars st) = Some (VDict s) -> dict_get s (VStr "cache_hist") = Some (VDict h) ->
    ext "self.save_info_to_hist" [info_of (vnat e) tr va v] [] st
    = Ok VNone (emit_ops [Append (mkRow e tr va v)]
                  (set_var "self" (VDict (dict_set s (VStr "cache_hist")
                                            (VDict (dict_set h (vnat e) (info_of (vnat e) tr va v))))) st)).
  Proof.
    intros H1 H2. unfold ext, ext16, ext_base.
    pose proof (row_of_info_enc (mkRow e tr va v)) as HR. unfold enc_row in HR. cbn [r_epoch r_train r_val r_tag] in HR.
    unfold info_of in *. cbn -[row_of_info emit_ops]. rewrite H1, HR. cbn -[emit_ops]. rewrite H2. reflexivity.
  Qed.

  Lemma ext_save_model v i e st : info_epoch i = Some e ->
    ext "self.save_model_and_optimizer_with_info" [VInt v; VInt v; i] [] st
    = Ok VNone (emit_ops (save_ops P cn e v) st).
  Proof. intros H. unfold ext, ext16, ext_base. cbn -[emit_ops]. rewrite H. reflexivity. Qed.

  Lemma ext_clean_up l st ops : events st = map ev_of_op ops ->
    ext "self._clean_up_files" (vps l) [] st
    = Ok VNone (emit_ops (map Remove (order_by ro (filter (exists_b (files (apply_ops d ops))) l))) st).
  Proof.
    intros H. unfold ext, ext16, ext_base. cbn -[cur_disk emit_ops vpaths]. rewrite vpaths_vps, (cur_disk_enc st ops H).
    reflexivity.
  Qed.
End Ext.

Lemma info_epoch_of e tr va v : info_epoch (info_of (vnat e) tr va v) = Some e.
Proof. exact (info_epoch_enc (mkRow e tr va v)). Qed.

(* ---- update_for_epoch, block 1: epoch and last_best --------------------------------------------- *)
Definition vars1 (P : params) (c : cache) (tr va v : Z) : list (string * val) :=
  [("self", self_of P c); ("model", VInt v); ("optimizer", VInt v); ("train_met", vmet tr); ("val_met", vmet va);
   ("epoch", vnat (S (last_epoch c))); ("best_is_train", VBool (bt P));
   ("last_best", vnat (best_epoch (bt P) c))].

Lemma znat_succ n : (Z.of_nat n + 1)%Z = Z.of_nat (S n).
Proof. lia. Qed.

Lemma epoch_tie P d cn ro c tr va v :
  Interp.run (ext16 P d cn ro) ufe_epoch (vars0 P c tr va v) = Ok VNone (mkState (vars1 P c tr va v) []).
Proof.
  unfold Interp.run, ufe_epoch, vars0, vars1.
  cbn -[ext16 self_of].
  rewrite (ext_last P d cn ro _ P c) by reflexivity.
  cbn -[ext16 self_of]. rewrite znat_succ.
  rewrite (ext_best P d cn ro _ P c) by reflexivity.
  reflexivity.
Qed.

(* ---- update_for_epoch, block 2: the file operations ------------------------------------------------ *)
Lemma ops_of_events_cons o r : ops_of_events (ev_of_op o :: r) = option_map (cons o) (ops_of_events r).
Proof. cbn [ops_of_events]. rewrite op_of_event_enc. destruct (ops_of_events r); reflexivity. Qed.

Lemma znat_S_eqb0 n : (Z.of_nat (S n) =? 0)%Z = false.
Proof. apply Z.eqb_neq. lia. Qed.

Lemma entries_set_of e tr va v c :
  dict_set (enc_entries c) (vnat e) (info_of (vnat e) tr va v) = enc_entries (cache_set (mkRow e tr va v) c).
Proof. exact (entries_set (mkRow e tr va v) c). Qed.

Lemma entries_get_set r c : dict_get (enc_entries (cache_set r c)) (vnat (r_epoch r)) = Some (enc_row r).
Proof.
  induction c as [|x c IH].
  - cbn [cache_set enc_entries map dict_get]. unfold vnat. cbn [val_eqb]. rewrite Z.eqb_refl. reflexivity.
  - cbn [cache_set]. destruct (Nat.eqb (r_epoch x) (r_epoch r)) eqn:E.
    + cbn [enc_entries map dict_get]. unfold vnat. cbn [val_eqb]. rewrite Z.eqb_refl. reflexivity.
    + cbn [enc_entries map dict_get]. unfold vnat at 1 2. cbn [val_eqb]. rewrite zeqb_nat, Nat.eqb_sym, E. apply IH.
Qed.

Lemma entries_get_set_of e tr va v c :
  dict_get (enc_entries (cache_set (mkRow e tr va v) c)) (vnat e) = Some (info_of (vnat e) tr va v).
Proof. exact (entries_get_set (mkRow e tr va v) c). Qed.

Lemma row_of_info_of e tr va v : row_of_info (info_of (vnat e) tr va v) = Some (mkRow e tr va v).
Proof. exact (row_of_info_enc (mkRow e tr va v)). Qed.

Ltac ops_of t :=
  lazymatch t with
  | nil => constr:(@nil fsop)
  | ev_of_op ?o :: ?r => let r' := ops_of r in constr:(o :: r')
  | map ev_of_op ?l => constr:(l)
  | (?a ++ ?b)%list => let a' := ops_of a in let b' := ops_of b in constr:((a' ++ b')%list)
  end.

Lemma apply_ops_nil d : apply_ops d [] = d.
Proof. reflexivity. Qed.

Lemma znat_S_sub1 n : (Z.of_nat (S n) - 1)%Z = Z.of_nat n.
Proof. lia. Qed.

Lemma S_sub1 n : S n - 1 = n.
Proof. lia. Qed.

Definition nonempty (l : list path) : bool := match l with [] => false | _ => true end.

Lemma truthy_vps l : truthy (VSet (vps l)) = nonempty l.
Proof. destruct l; reflexivity. Qed.

Lemma vps_nonempty l : match vps l with [] => false | _ :: _ => true end = nonempty l.
Proof. destruct l; reflexivity. Qed.

Lemma mem_app p a b : mem p (a ++ b) = mem p a || mem p b.
Proof. apply existsb_app. Qed.

Lemma mem_padd_all p l : forall acc, mem p (padd_all acc l) = mem p acc || mem p l.
Proof.
  induction l as [|x l IH]; intros acc; cbn [padd_all]; [cbn; rewrite orb_false_r; reflexivity|].
  rewrite IH. cbn [mem existsb]. fold (mem p l). destruct (mem x acc) eqn:E.
  - destruct (path_eqb p x) eqn:E2; [|reflexivity].
    apply path_eqb_eq in E2. subst. rewrite E. reflexivity.
  - rewrite mem_app. cbn [mem existsb]. rewrite orb_false_r, orb_assoc. reflexivity.
Qed.

(* save_info_first, as the source computes it (set intersection), is the model's test *)
Lemma info_first_eq P e l :
  nonempty (filter (fun p => mem p (padd_all [] l)) (padd_all [] [pth P KM e; pth P KO e]))
  = mem (pth P KM e) l || mem (pth P KO e) l.
Proof.
  assert (H : forall p, mem p (padd_all [] l) = mem p l) by (intros p; rewrite mem_padd_all; reflexivity).
  unfold pth. cbn [padd_all mem existsb path_eqb kind_eqb andb orb app filter]. rewrite !H.
  destruct (mem (Ckpt KM _) l), (mem (Ckpt KO _) l); reflexivity.
Qed.

(* clean_up -= {model_pth, optim_pth} *)
Lemma cl_eq P e X :
  filter (fun p => negb (mem p (padd_all [] [pth P KM e; pth P KO e]))) X
  = filter (fun p => negb (path_eqb p (pth P KM e) || path_eqb p (pth P KO e))) X.
Proof.
  apply filter_ext. intros p. unfold pth. cbn [padd_all mem existsb path_eqb kind_eqb andb orb app].
  rewrite orb_false_r. reflexivity.
Qed.

Ltac red1_ := cbn -[ext16 info_of ev_of_op enc_entries exists_b apply_ops order_by save_ops pth vps vp
                    set_add_all set_inter set_diff padd_all mem filter nonempty].
(* the rewrites that keep the symbolic state in the vocabulary of the lemmas (guarded by a syntactic test: cheaper) *)
Ltac rw1 :=
  match goal with
  | |- context [(Z.of_nat (S _) =? 0)%Z] => rewrite znat_S_eqb0
  | |- context [apply_ops _ []] => rewrite apply_ops_nil
  | |- context [dict_set (enc_entries _) _ _] => rewrite entries_set_of
  | |- context [(Z.of_nat (S _) - 1)%Z] => rewrite znat_S_sub1
  | |- context [(Z.of_nat _ =? Z.of_nat _)%Z] => rewrite zeqb_nat
  | |- context [S _ - 1] => rewrite S_sub1
  | |- context [foreign (vp _)] => rewrite foreign_vp
  | |- context [val_eqb (vp _) (vp _)] => rewrite vp_eqb
  | |- context [truthy (VSet (vps _))] => rewrite truthy_vps
  | |- context [match vps _ with [] => false | _ :: _ => true end] => rewrite vps_nonempty
  | |- context [nonempty (filter _ (padd_all [] _))] => rewrite info_first_eq
  | |- context [(_ ++ [])%list] => rewrite app_nil_r
  end.
Ltac red_ := red1_; repeat (rw1; red1_).
Lemma ops_of_events_app a r : ops_of_events (map ev_of_op a ++ r) = option_map (app a) (ops_of_events r).
Proof.
  induction a as [|o a IH]; cbn [map app]; [destruct (ops_of_events r); reflexivity|].
  rewrite ops_of_events_cons, IH. destruct (ops_of_events r); reflexivity.
Qed.

Ltac fin_ :=
  repeat (progress rewrite ?op_of_event_enc, ?ops_of_events_app, ?ops_of_events_cons, ?ops_of_events_enc, ?row_of_info_of,
            ?entries_set_of, ?entries_get_set_of; red1_).

Ltac ops_at st :=
  let e := eval cbn -[ext16 info_of ev_of_op enc_entries exists_b apply_ops order_by save_ops pth vps vp
                      set_add_all set_inter set_diff padd_all mem filter nonempty] in (events st) in
  ops_of e.

Ltac unvps t :=
  lazymatch t with
  | nil => constr:(@nil path)
  | vp ?p :: ?r => let r' := unvps r in constr:(p :: r')
  | vps ?l => constr:(l)
  end.

Ltac setfix :=
  repeat match goal with
  | |- context [set_add_all ?a ?l] =>
      let a' := unvps a in let l' := unvps l in
      change (set_add_all a l) with (set_add_all (vps a') (vps l')); rewrite (set_add_all_vps l' a')
  | |- context [set_inter (vps ?x) (vps ?y)] => rewrite (set_inter_vps x y)
  | |- context [set_diff (vps ?x) (vps ?y)] => rewrite (set_diff_vps x y)
  end.

Section ExecLemmas.
  Variable ext : string -> list val -> list (string * val) -> state -> Interp.outcome val.
  Lemma exec_seq a b st :
    exec ext (SSeq a b) st =
    bind (exec ext a st) (fun c st1 => match c with CNormal => exec ext b st1 | CReturn _ => Ok c st1 end).
  Proof. reflexivity. Qed.
  Lemma exec_if c t f st :
    exec ext (SIf c t f) st = bind (eval ext c st) (fun cv st1 => if truthy cv then exec ext t st1 else exec ext f st1).
  Proof. reflexivity. Qed.
  Lemma exec_try b h st :
    exec ext (STry b h) st =
    match exec ext b st with Exc n st1 => exec ext h (set_var "$exc" (VStr n) st1) | o => o end.
  Proof. reflexivity. Qed.
End ExecLemmas.

(* a closed call of ext16: answer it with its lemma *)
Ltac xcall :=
  lazymatch goal with
  | |- context [ext16 ?P ?d ?cn ?ro "self.get_model_path_with_info" [info_of ?e ?tr ?va ?v] [] ?st] =>
      rewrite (ext_mpath P d cn ro _ _ st (info_epoch_of _ tr va v))
  | |- context [ext16 ?P ?d ?cn ?ro "self.get_optimizer_path_with_info" [info_of ?e ?tr ?va ?v] [] ?st] =>
      rewrite (ext_opath P d cn ro _ _ st (info_epoch_of _ tr va v))
  | |- context [ext16 ?P ?d ?cn ?ro "self.get_model_path_with_info" [?i] [] ?st] =>
      match goal with H : info_epoch i = Some ?e |- _ => rewrite (ext_mpath P d cn ro i e st H) end
  | |- context [ext16 ?P ?d ?cn ?ro "self.get_optimizer_path_with_info" [?i] [] ?st] =>
      match goal with H : info_epoch i = Some ?e |- _ => rewrite (ext_opath P d cn ro i e st H) end
  | |- context [ext16 ?P ?d ?cn ?ro "$fstring" ?a [] ?st] => rewrite (ext_fstring P d cn ro a st)
  | |- context [ext16 ?P ?d ?cn ?ro "os.path.exists" [vp ?p] [] ?st] =>
      let ops := ops_at st in rewrite (ext_exists P d cn ro p st ops) by reflexivity
  | |- context [ext16 ?P ?d ?cn ?ro "self.save_info_to_hist" [info_of (vnat ?e) ?tr ?va ?v] [] ?st] =>
      erewrite (ext_save_info P d cn ro e tr va v _ _ st) by reflexivity
  | |- context [ext16 ?P ?d ?cn ?ro "self.save_model_and_optimizer_with_info" [VInt ?v; VInt ?v; info_of ?e ?tr ?va ?w] [] ?st] =>
      rewrite (ext_save_model P d cn ro v _ _ st (info_epoch_of _ tr va w))
  | |- context [ext16 ?P ?d ?cn ?ro "self.get_best_epoch" [VBool ?b] [] ?st] =>
      lazymatch st with context [enc_entries ?c'] => rewrite (ext_best P d cn ro st P c' b) by reflexivity end
  | |- context [ext16 ?P ?d ?cn ?ro "self.get_info" [vnat ?e] [] ?st] =>
      match goal with H : dict_get _ (vnat e) = Some ?i |- _ =>
        rewrite (ext_get_info P d cn ro (vnat e) i _ st eq_refl H) end
  | |- context [ext16 _ _ _ _ "self.get_info" [VInt (Z.of_nat ?e)] [] _] =>
      change (VInt (Z.of_nat e)) with (vnat e);
      lazymatch goal with |- context [ext16 ?P ?d ?cn ?ro "self.get_info" [vnat e] [] ?st] =>
        match goal with H : dict_get _ (vnat e) = Some ?i |- _ =>
          rewrite (ext_get_info P d cn ro (vnat e) i _ st eq_refl H) end end
  | |- context [ext16 ?P ?d ?cn ?ro "self._clean_up_files" (vps ?l) [] ?st] =>
      let ops := ops_at st in rewrite (ext_clean_up P d cn ro l st ops) by reflexivity
  end.

(* a compound statement on a closed state: open one level, keep the rest of the program folded *)
Ltac xcompound :=
  lazymatch goal with
  | |- context [exec ?x (SSeq ?a ?b) ?st] =>
      rewrite (exec_seq x a b st); let R := fresh "R" in remember b as R
  | |- context [exec ?x (SIf ?c ?t ?f) ?st] =>
      rewrite (exec_if x c t f st); let T := fresh "T" in let F := fresh "F" in remember t as T; remember f as F
  | |- context [exec ?x (STry ?b ?h) ?st] =>
      rewrite (exec_try x b h st); let Hd := fresh "Hd" in remember h as Hd
  end.

Ltac split_if :=
  match goal with
  | |- context [if ?b then _ else _] =>
      lazymatch b with
      | context [if _ then _ else _] => fail
      | context [match _ with _ => _ end] => fail
      | negb ?x => first [ match goal with H : x = _ |- _ => rewrite H end | destruct x eqn:? ]
      | _ => first [ match goal with H : b = _ |- _ => rewrite H end | destruct b eqn:? ]
      end
  end.

Ltac use_hyps :=
  repeat match goal with
  | H : ?b = true |- context [?b] => rewrite H
  | H : ?b = false |- context [?b] => rewrite H
  end.

Ltac xunfold := match goal with |- context [exec ?x ?V ?st] => is_var V; subst V end.

Ltac xstep := first [xcompound | xcall | (progress red1_); red_; setfix | split_if | xunfold].

(* keep_last_and_best_only = False: every combination of formats *)
Lemma files_tie_keep_all ep_m ep_o bt d cn ro c tr va v :
  src_update_ops (mkParams false ep_m ep_o bt) d c tr va cn v ro
  = Some (update_ops_fd (mkParams false ep_m ep_o bt) d c tr va cn v ro).
Proof.
  remember (update_ops_fd _ d c tr va cn v ro) as RHS.
  unfold src_update_ops. rewrite epoch_tie. unfold vars1.
  cbn -[ext16 self_of info_of Interp.run ufe_files].
  unfold Interp.run, ufe_files, self_of, enc_cache.
  repeat xstep.
  all: fin_; subst RHS; unfold update_ops_fd; red1_; rewrite ?Nat.sub_0_r; use_hyps; reflexivity.
Qed.

Lemma files_tie_klb ep_m ep_o bt d cn ro c tr va v :
  src_update_ops (mkParams true ep_m ep_o bt) d c tr va cn v ro
  = Some (update_ops_fd (mkParams true ep_m ep_o bt) d c tr va cn v ro).
Proof.
  set (P := mkParams true ep_m ep_o bt).
  set (r := mkRow (S (last_epoch c)) tr va v).
  destruct (info_for_present (cache_set r c) (best_epoch bt (cache_set r c)) (best_epoch_In _ _)) as [ib [Hib Eib]].
  assert (Hl : last_epoch c = 0 \/ List.In (last_epoch c) (map r_epoch (cache_set r c))).
  { destruct (last_epoch_In c) as [H|H]; [left; exact H|right; apply cache_set_epochs, H]. }
  destruct (info_for_present (cache_set r c) (last_epoch c) Hl) as [il [Hil Eil]].
  assert (Hb : best_epoch bt c = 0 \/ List.In (best_epoch bt c) (map r_epoch (cache_set r c))).
  { destruct (best_epoch_In bt c) as [H|H]; [left; exact H|right; apply cache_set_epochs, H]. }
  destruct (info_for_present (cache_set r c) (best_epoch bt c) Hb) as [ilb [Hilb Eilb]].
  clear Hl Hb. subst P r.
  remember (update_ops_fd _ d c tr va cn v ro) as RHS.
  unfold src_update_ops. rewrite epoch_tie. unfold vars1.
  cbn -[ext16 self_of info_of Interp.run ufe_files].
  unfold Interp.run, ufe_files, self_of, enc_cache.
  repeat xstep.
  all: rewrite <- ?app_assoc; fin_; rewrite ?cl_eq; subst RHS; unfold update_ops_fd; red1_; rewrite ?Nat.sub_0_r; use_hyps; red1_.
  all: try reflexivity.
Qed.

(* ---- the tie, every parameter combination, every oracle ----------------------------------------- *)
Theorem src_update_fd P d c tr va cn v ro :
  src_update_ops P d c tr va cn v ro = Some (update_ops_fd P d c tr va cn v ro).
Proof. destruct P as [[|] em eo b]; [apply files_tie_klb|apply files_tie_keep_all]. Qed.

