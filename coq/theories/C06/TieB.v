(* C06, second tie — the tie lemmas assembled.
   (1) vector index: interpreted `_lookup_calc_idx_log_probs` / `calc_idx_log_probs` with one index per batch element
       = the model's rows (TieBVec.lookup_fn_vec through TieRunMain.lookup_run), = Katz back-off values.
   (2) all positions: interpreted `calc_full_log_probs_chunked` / `calc_full_log_probs` = Model.chunked / Model.forward
       (TieBRun.chunked_run), every position's row = the scalar-index lookup at that position, the same tensor for
       every chunk size >= 1, RuntimeError below 1, = Katz back-off values of every position. *)
From Coq Require Import List ZArith QArith Bool Arith Lia ZifyBool ZifyNat String.
From PV Require Import MiniPy.Syntax MiniPy.Interp MiniTorch.OpsC06 MiniTorch.LemmasC06 MiniTorch.OpsC06B Gen.C06Src Gen.C06BSrc.
From PV Require Import C06.SrcRun C06.SrcRunB C06.TieRun C06.TieRunMain.
From PV Require C06.Model C06.Spec C06.Proofs C06.TieSafe C06.TieSrc C06.TieTop C06.TieSafeProofs C06.Tie C06.TieBVec C06.TieBRun.
Import ListNotations.
Local Open Scope Z_scope.

#[local] Arguments enc6 : simpl never.
#[local] Arguments Interp.run : simpl never.

(* ================================================ (1) vector index ================================================ *)
Section Vector.
  Variable b : Model.bufs.
  Variable sh : Model.shape.
  Variable hist : list (list Z).
  Variable B : nat.
  Variable l : list nat.

  Hypothesis Hsafe : TieSafe.safe_okb b sh = true.
  Hypothesis HV : 1 <= Model.vocab sh.
  Hypothesis Hhist : Proofs.hist_ok sh hist B.
  Hypothesis HlB : List.length l = B.
  Hypothesis HB : (2 <= B)%nat.
  Hypothesis Hil : Forall (fun i => (i <= List.length hist)%nat) l.

  Let Vn := Z.to_nat (Model.vocab sh).
  Let rows := Proofs.batch_rows b sh hist B l.
  Let ixv := Model.Vec (map Z.of_nat l).

  Lemma vec_model : Model.lookup_batch b sh hist B ixv = Some rows.
  Proof.
    destruct (TieSafeProofs.safe_okb_sound b sh Hsafe) as (Hl & Ho & _).
    unfold ixv, rows. apply Proofs.lookup_batch_vec; assumption.
  Qed.

  Lemma vec_tensor_program :
    lookup_fn (hist_tensor hist B) (idx_tensor ixv) (ivec (Model.offsets b)) (ivec (Model.ids b))
      (fvec (Model.logps b)) (fvec (Model.logbs b)) (Model.sos sh) (Model.vocab sh) (Z.of_nat (Model.order sh))
      (Model.gnodes sh) (Z.of_nat (Model.maxdesc sh))
    = Some (rows_tensor B Vn rows).
  Proof.
    destruct (TieSafeProofs.safe_okb_sound b sh Hsafe) as (Hl & Ho & Hr & HS & Hsf).
    pose proof Hhist as [Hrect Htoks].
    apply TieBVec.lookup_fn_vec; try assumption; try apply (TieBRun.vocab_le_logps' b sh Hsafe).
    intros Ho2 bi v h Hb Hv Hh.
    assert (Hi : (TieBVec.ix l bi <= List.length hist)%nat) by (apply (TieBVec.ix_le sh hist B l HlB Hil bi Hb)).
    apply Hsf; try assumption.
    - rewrite Proofs.mapwin_length. unfold TieTop.ctx_of. apply Proofs.context_length.
    - apply Proofs.last_mapwin_range; [lia| |].
      + intros E. apply (f_equal (@List.length Z)) in E. unfold TieTop.ctx_of in E. rewrite Proofs.context_length in E. cbn in E. lia.
      + unfold TieTop.ctx_of. apply Proofs.context_toks. apply Forall_forall. intros x Hx.
        pose proof (Proofs.column_toks sh hist B bi Hhist Hb) as Hc. rewrite Forall_forall in Hc. apply Hc.
        eapply Proofs.In_firstn_in. exact Hx.
    - lia.
  Qed.

  (* the interpreted function returns the tensor of the model's rows, one index per batch element *)
  Theorem source_lookup_vec_is_model :
    Model.lookup_batch b sh hist B ixv = Some rows /\
    exists st, Interp.run ext06_ops lookup_body (lookup_vars b sh hist B ixv) = Ok (enc6 (rows_tensor B Vn rows)) st.
  Proof. split; [exact vec_model|]. apply lookup_run. exact vec_tensor_program. Qed.

  Theorem source_method_vec_is_model :
    exists st, Interp.run ext06 calc_idx_body (method_vars b sh hist B ixv)
               = Ok (VTuple [enc6 (rows_tensor B Vn rows); VDict []]) st.
  Proof. destruct source_lookup_vec_is_model as [_ [st0 R]]. apply (Tie.method_run _ _ _ _ _ _ st0 R). Qed.

  Theorem source_vec_refines_model :
    src_lookup_batch b sh hist B ixv = Some (Model.lookup_batch b sh hist B ixv).
  Proof.
    destruct source_method_vec_is_model as [st R]. unfold src_lookup_batch, run_method. rewrite R, vec_model.
    assert (H1 : List.length rows = B).
    { unfold rows, Proofs.batch_rows. rewrite map_length, combine_length, seq_length. lia. }
    assert (H2 : Forall (fun r => List.length r = Vn) rows).
    { pose proof (TieBRun.vocab_le_logps' b sh Hsafe) as Hvl. unfold Model.zlen in Hvl.
      apply Forall_forall. intros r Hr. unfold rows, Proofs.batch_rows in Hr. apply in_map_iff in Hr as (p & <- & _).
      unfold Proofs.elem_row. destruct (Nat.eqb (Model.order sh) 1).
      - rewrite firstn_length. unfold Vn. lia.
      - rewrite map_length. unfold Model.zrange. rewrite map_length, seq_length. reflexivity. }
    rewrite (Tie.rows_of_rows B Vn rows H1 H2). reflexivity.
  Qed.
End Vector.

(* composed with the model's theorem (c06_per_element_index_is_katz): purely about the interpreted source *)
Theorem source_vec_is_katz b sh t hist B l :
  Spec.trie_okb b sh (Spec.tmap sh t) = true -> Spec.tab_okb (Model.vocab sh) (Model.sos sh) t = true ->
  TieSafe.safe_okb b sh = true -> 1 <= Model.vocab sh -> Proofs.hist_ok sh hist B ->
  List.length l = B -> (2 <= B)%nat -> Forall (fun i => (i <= List.length hist)%nat) l ->
  exists st, Interp.run ext06 calc_idx_body (method_vars b sh hist B (Model.Vec (map Z.of_nat l)))
             = Ok (VTuple [enc6 (rows_tensor B (Z.to_nat (Model.vocab sh))
                                   (Spec.spec_at t (Model.order sh) (Model.vocab sh) (Model.sos sh) hist B l));
                           VDict []]) st.
Proof.
  intros Ht Htab Hs HV Hh HlB HB Hil.
  destruct (source_method_vec_is_model b sh hist B l Hs HV Hh HlB HB Hil) as [st R]. exists st. rewrite R.
  pose proof (Proofs.lookup_vec_katz b sh t hist B l Ht Htab Hh HlB HB Hil) as Hk.
  rewrite (vec_model b sh hist B l Hs HlB HB Hil) in Hk. injection Hk as ->. reflexivity.
Qed.

(* ================================================ (2) all positions ================================================ *)
Section Full.
  Variable b : Model.bufs.
  Variable sh : Model.shape.
  Variable hist : list (list Z).
  Variable B : nat.

  Hypothesis Hsafe : TieSafe.safe_okb b sh = true.
  Hypothesis HV : 1 <= Model.vocab sh.
  Hypothesis Hhist : Proofs.hist_ok sh hist B.

  Let T := List.length hist.
  Let Vn := Z.to_nat (Model.vocab sh).
  Let mats := map (Proofs.all_rows b sh hist B) (seq 0 (S T)).

  Lemma chunked_model chunk : (1 <= chunk)%nat -> Model.chunked b sh hist B chunk = Some mats.
  Proof.
    intros Hc. destruct (TieSafeProofs.safe_okb_sound b sh Hsafe) as (Hl & Ho & _). destruct Hhist as [Hrect _].
    apply Proofs.chunked_spec; assumption.
  Qed.

  (* the interpreted method returns the (T+1, B, V) tensor of what Model.chunked computes, for every chunk size >= 1 *)
  Theorem source_chunked_is_model chunk : (1 <= chunk)%nat ->
    Model.chunked b sh hist B chunk = Some mats /\
    exists st, Interp.run ext06B chunked_body (chunked_vars b sh hist B (Z.of_nat chunk))
               = Ok (enc6 (mats_tensor (T + 1) B Vn mats)) st.
  Proof.
    intros Hc. split; [apply chunked_model; exact Hc|].
    exact (TieBRun.chunked_run b sh hist B chunk Hsafe HV Hhist Hc).
  Qed.

  (* chunk-size independence of the interpreted source *)
  Theorem source_chunk_size_independent c1 c2 : (1 <= c1)%nat -> (1 <= c2)%nat ->
    exists v st1 st2,
      Interp.run ext06B chunked_body (chunked_vars b sh hist B (Z.of_nat c1)) = Ok v st1 /\
      Interp.run ext06B chunked_body (chunked_vars b sh hist B (Z.of_nat c2)) = Ok v st2.
  Proof.
    intros H1 H2. destruct (source_chunked_is_model c1 H1) as [_ [st1 R1]]. destruct (source_chunked_is_model c2 H2) as [_ [st2 R2]].
    eexists. exists st1, st2. split; [exact R1|exact R2].
  Qed.

  (* `calc_full_log_probs` = the chunked method with chunk size 1 = Model.forward without an index *)
  Theorem source_full_is_model :
    Model.forward b sh hist B None = Some (Model.Full mats) /\
    exists st, Interp.run ext06B_full full_body (full_vars b sh hist B) = Ok (enc6 (mats_tensor (T + 1) B Vn mats)) st.
  Proof.
    split.
    - unfold Model.forward. rewrite (chunked_model 1 ltac:(lia)). reflexivity.
    - destruct (source_chunked_is_model 1 ltac:(lia)) as [_ [st0 R]].
      remember (enc6 (mats_tensor (T + 1) B Vn mats)) as RES.
      unfold full_body, full_vars, globals06. unfold Interp.run at 1. cbn - [ext06B_full chunked_body].
      unfold ext06B_full. cbn - [call_in chunked_body ext06B]. unfold call_in, globals06.
      unfold chunked_vars, globals06 in R. cbn [app] in R. change (Z.of_nat 1) with 1 in R. rewrite R. cbn. eexists. reflexivity.
  Qed.

  (* every position's slice of the returned tensor is the tensor the interpreted `calc_idx_log_probs` returns for the
     scalar index t (first tie: Tie.source_method_scalar_is_model) *)
  Lemma D_length k : List.length (TieBRun.D b sh hist B k) = (k * (B * Vn))%nat.
  Proof.
    induction k as [|k IH]; [reflexivity|]. replace (S k) with (k + 1)%nat by lia.
    rewrite TieBRun.D_add, app_length, IH. cbn [seq map List.concat]. rewrite app_nil_r.
    rewrite (TieBRun.cells_of_length b sh hist B Hsafe HV). fold Vn. lia.
  Qed.

  Theorem source_chunked_rows_are_lookups t : (t <= T)%nat ->
    select0 (mats_tensor (T + 1) B Vn mats) (Z.of_nat t)
    = Some (rows_tensor B Vn (Proofs.batch_rows b sh hist B (repeat t B))) /\
    exists st, Interp.run ext06 calc_idx_body (method_vars b sh hist B (Model.Scalar (Z.of_nat t)))
               = Ok (VTuple [enc6 (rows_tensor B Vn (Proofs.batch_rows b sh hist B (repeat t B))); VDict []]) st.
  Proof.
    intros Ht. split; [|apply (Tie.source_method_scalar_is_model b sh hist B t Hsafe HV Hhist Ht)].
    unfold select0, mats_tensor. cbn [sh6 dt6]. replace (Z.of_nat t <? 0) with false by lia.
    replace ((0 <=? Z.of_nat t) && (Z.of_nat t <? Z.of_nat (T + 1))) with true by lia.
    cbn [prodn fold_right]. rewrite Nat2Z.id. unfold rows_tensor. f_equal. f_equal.
    change (map (fun v => CF (fl_of v)) (List.concat (List.concat mats))) with (TieBRun.D b sh hist B (S T)).
    replace (S T) with (t + (1 + (T - t)))%nat by lia.
    rewrite TieBRun.D_add. rewrite skipn_app, skipn_all2 by (rewrite D_length; lia).
    rewrite D_length. replace (t * (B * (Vn * 1)) - t * (B * Vn))%nat with 0%nat by lia. cbn [app skipn].
    rewrite seq_app, map_app, concat_app, TieBRun.cells_of_app. cbn [seq map List.concat]. rewrite app_nil_r.
    rewrite firstn_app, firstn_all2 by (rewrite (TieBRun.cells_of_length b sh hist B Hsafe HV); fold Vn; lia).
    rewrite (TieBRun.cells_of_length b sh hist B Hsafe HV). fold Vn.
    replace (B * (Vn * 1) - B * Vn)%nat with 0%nat by lia. rewrite firstn_O, app_nil_r. reflexivity.
  Qed.
End Full.

(* a chunk size below 1: RuntimeError from the interpreted source, None from the model *)
Definition runtime_error : string := "RuntimeError"%string.   (* for statements in files that do not import String *)
Theorem source_chunked_raises b sh hist B z : z < 1 ->
  exists st, Interp.run ext06B chunked_body (chunked_vars b sh hist B z) = Exc runtime_error st.
Proof. exact (TieBRun.chunked_run_raises b sh hist B z). Qed.

(* composed with the model's theorem (c06_full_is_katz_any_chunk): purely about the interpreted source *)
Theorem source_chunked_is_katz b sh t hist B chunk :
  Spec.trie_okb b sh (Spec.tmap sh t) = true -> Spec.tab_okb (Model.vocab sh) (Model.sos sh) t = true ->
  TieSafe.safe_okb b sh = true -> 1 <= Model.vocab sh -> Proofs.hist_ok sh hist B -> (1 <= chunk)%nat ->
  exists st, Interp.run ext06B chunked_body (chunked_vars b sh hist B (Z.of_nat chunk))
             = Ok (enc6 (mats_tensor (List.length hist + 1) B (Z.to_nat (Model.vocab sh))
                           (Spec.spec_full t (Model.order sh) (Model.vocab sh) (Model.sos sh) hist B))) st.
Proof.
  intros Ht Htab Hs HV Hh Hc.
  destruct (source_chunked_is_model b sh hist B Hs HV Hh chunk Hc) as [Hm [st R]]. exists st. rewrite R.
  pose proof (Proofs.chunked_katz b sh t hist B chunk Ht Htab Hh Hc) as Hk.
  assert (E : map (Proofs.all_rows b sh hist B) (seq 0 (S (List.length hist)))
              = Spec.spec_full t (Model.order sh) (Model.vocab sh) (Model.sos sh) hist B) by congruence.
  rewrite E. reflexivity.
Qed.

Theorem source_full_is_katz b sh t hist B :
  Spec.trie_okb b sh (Spec.tmap sh t) = true -> Spec.tab_okb (Model.vocab sh) (Model.sos sh) t = true ->
  TieSafe.safe_okb b sh = true -> 1 <= Model.vocab sh -> Proofs.hist_ok sh hist B ->
  exists st, Interp.run ext06B_full full_body (full_vars b sh hist B)
             = Ok (enc6 (mats_tensor (List.length hist + 1) B (Z.to_nat (Model.vocab sh))
                           (Spec.spec_full t (Model.order sh) (Model.vocab sh) (Model.sos sh) hist B))) st.
Proof.
  intros Ht Htab Hs HV Hh.
  destruct (source_full_is_model b sh hist B Hs HV Hh) as [Hm [st R]]. exists st. rewrite R.
  pose proof (Proofs.forward_full_katz b sh t hist B Ht Htab Hh) as Hk.
  assert (E : map (Proofs.all_rows b sh hist B) (seq 0 (S (List.length hist)))
              = Spec.spec_full t (Model.order sh) (Model.vocab sh) (Model.sos sh) hist B) by congruence.
  rewrite E. reflexivity.
Qed.

(* ================================ the harness-side executables are the model's checks ================================ *)
Lemma mats_of_data_concat (Bn Vn : nat) : forall (mats : list (list (list Model.val))),
  Forall (fun m => List.length m = Bn /\ Forall (fun r => List.length r = Vn) m) mats ->
  mats_of_data (List.length mats) Bn Vn (List.concat (List.concat mats)) = mats.
Proof.
  induction 1 as [|m mats [Hm1 Hm2] _ IH]; [reflexivity|].
  cbn [List.length mats_of_data List.concat]. rewrite concat_app.
  assert (Hl : List.length (List.concat m) = (Bn * Vn)%nat)
    by (rewrite (Proofs.concat_length_const Vn m Hm2), Hm1; reflexivity).
  rewrite firstn_app, firstn_all2 by lia. rewrite Hl, Nat.sub_diag, firstn_O, app_nil_r.
  rewrite skipn_app, skipn_all2 by lia. rewrite Hl, Nat.sub_diag, skipn_O. cbn [app]. rewrite IH.
  rewrite <- Hm1. rewrite (Tie.rows_of_data_concat Vn m Hm2). reflexivity.
Qed.

Lemma mats_of_mats (T1 Bn Vn : nat) (mats : list (list (list Model.val))) :
  List.length mats = T1 -> Forall (fun m => List.length m = Bn /\ Forall (fun r => List.length r = Vn) m) mats ->
  mats_of (enc6 (mats_tensor T1 Bn Vn mats)) = Some mats.
Proof.
  intros Hl Hf. unfold mats_of. rewrite dec6_enc6. unfold mats_tensor. cbn [sh6 dt6].
  rewrite map_map. rewrite (sequence_map_ext _ (fun v => v)) by (intros; apply Tie.val_of_fl_of). rewrite map_id.
  unfold wf6. cbn [sh6 dt6 prodn fold_right]. rewrite map_length.
  assert (Hc : List.length (List.concat (List.concat mats)) = (T1 * (Bn * Vn))%nat).
  { subst T1. clear - Hf. induction Hf as [|m mats [Hm1 Hm2] _ IH]; [reflexivity|]. cbn [List.concat List.length].
    rewrite concat_app, app_length, IH, (Proofs.concat_length_const Vn m Hm2), Hm1. lia. }
  rewrite Hc. replace (T1 * (Bn * Vn) =? T1 * (Bn * (Vn * 1)))%nat with true by lia.
  subst T1. rewrite mats_of_data_concat by exact Hf. reflexivity.
Qed.

Lemma all_rows_shapes b sh hist B k : TieSafe.safe_okb b sh = true -> 1 <= Model.vocab sh ->
  Forall (fun m => List.length m = B /\ Forall (fun r => List.length r = Z.to_nat (Model.vocab sh)) m)
         (map (Proofs.all_rows b sh hist B) (seq 0 k)).
Proof.
  intros Hs HV. apply Forall_forall. intros m Hm. apply in_map_iff in Hm as (i & <- & _).
  exact (TieBRun.rows_at_shape b sh hist B Hs HV i).
Qed.

(* for EVERY chunk size (0 included) *)
Theorem source_chunked_check_is_check b sh hist B chunk impl :
  TieSafe.safe_okb b sh = true -> 1 <= Model.vocab sh -> Proofs.hist_ok sh hist B ->
  src_chunked_check b sh hist B chunk impl = Model.omats_eqb (Model.chunked b sh hist B chunk) impl.
Proof.
  intros Hs HV Hh. unfold src_chunked_check, src_chunked, run_chunked. destruct chunk as [|c].
  - destruct (source_chunked_raises b sh hist B 0 ltac:(lia)) as [st R]. change (Z.of_nat 0) with 0. rewrite R. reflexivity.
  - destruct (source_chunked_is_model b sh hist B Hs HV Hh (S c) ltac:(lia)) as [Hm [st R]]. rewrite R, Hm.
    cbn [src_of_run]. rewrite mats_of_mats; [reflexivity| |apply all_rows_shapes; assumption].
    rewrite map_length, seq_length. lia.
Qed.

Theorem source_full_check_is_check b sh hist B impl :
  TieSafe.safe_okb b sh = true -> 1 <= Model.vocab sh -> Proofs.hist_ok sh hist B ->
  src_full_check b sh hist B impl = Model.out_eqb (Model.forward b sh hist B None) impl.
Proof.
  intros Hs HV Hh. unfold src_full_check, src_full, run_full.
  destruct (source_full_is_model b sh hist B Hs HV Hh) as [Hm [st R]]. rewrite R, Hm.
  cbn [src_of_run]. rewrite mats_of_mats; [reflexivity| |apply all_rows_shapes; assumption].
  rewrite map_length, seq_length. lia.
Qed.

(* ================================ bundles (one Print Assumptions each in Properties.v) ================================ *)
Definition vector_is_model_stmt b sh hist B l : Prop :=
  (Model.lookup_batch b sh hist B (Model.Vec (map Z.of_nat l)) = Some (Proofs.batch_rows b sh hist B l) /\
   exists st, Interp.run ext06_ops lookup_body (lookup_vars b sh hist B (Model.Vec (map Z.of_nat l)))
              = Ok (enc6 (rows_tensor B (Z.to_nat (Model.vocab sh)) (Proofs.batch_rows b sh hist B l))) st) /\
  (exists st, Interp.run ext06 calc_idx_body (method_vars b sh hist B (Model.Vec (map Z.of_nat l)))
              = Ok (VTuple [enc6 (rows_tensor B (Z.to_nat (Model.vocab sh)) (Proofs.batch_rows b sh hist B l)); VDict []]) st) /\
  src_lookup_batch b sh hist B (Model.Vec (map Z.of_nat l)) = Some (Model.lookup_batch b sh hist B (Model.Vec (map Z.of_nat l))).

Theorem source_vector_is_model b sh hist B l :
  TieSafe.safe_okb b sh = true -> 1 <= Model.vocab sh -> Proofs.hist_ok sh hist B ->
  List.length l = B -> (2 <= B)%nat -> Forall (fun i => (i <= List.length hist)%nat) l ->
  vector_is_model_stmt b sh hist B l.
Proof.
  intros Hs HV Hh HlB HB Hil. split; [|split].
  - exact (source_lookup_vec_is_model b sh hist B l Hs HV Hh HlB HB Hil).
  - exact (source_method_vec_is_model b sh hist B l Hs HV Hh HlB HB Hil).
  - exact (source_vec_refines_model b sh hist B l Hs HV Hh HlB HB Hil).
Qed.

Theorem source_chunked_and_full_is_model b sh hist B :
  TieSafe.safe_okb b sh = true -> 1 <= Model.vocab sh -> Proofs.hist_ok sh hist B ->
  let mats := map (Proofs.all_rows b sh hist B) (seq 0 (S (List.length hist))) in
  let res := enc6 (mats_tensor (List.length hist + 1) B (Z.to_nat (Model.vocab sh)) mats) in
  (forall chunk, (1 <= chunk)%nat ->
     Model.chunked b sh hist B chunk = Some mats /\
     exists st, Interp.run ext06B chunked_body (chunked_vars b sh hist B (Z.of_nat chunk)) = Ok res st) /\
  (Model.forward b sh hist B None = Some (Model.Full mats) /\
   exists st, Interp.run ext06B_full full_body (full_vars b sh hist B) = Ok res st).
Proof.
  intros Hs HV Hh. cbv zeta. split.
  - intros chunk Hc. exact (source_chunked_is_model b sh hist B Hs HV Hh chunk Hc).
  - exact (source_full_is_model b sh hist B Hs HV Hh).
Qed.

Theorem source_chunk_size_independent_and_raises b sh hist B :
  (TieSafe.safe_okb b sh = true -> 1 <= Model.vocab sh -> Proofs.hist_ok sh hist B ->
   forall c1 c2, (1 <= c1)%nat -> (1 <= c2)%nat ->
   exists v st1 st2,
     Interp.run ext06B chunked_body (chunked_vars b sh hist B (Z.of_nat c1)) = Ok v st1 /\
     Interp.run ext06B chunked_body (chunked_vars b sh hist B (Z.of_nat c2)) = Ok v st2) /\
  (forall z, z < 1 -> exists st, Interp.run ext06B chunked_body (chunked_vars b sh hist B z) = Exc runtime_error st).
Proof.
  split.
  - intros Hs HV Hh. exact (source_chunk_size_independent b sh hist B Hs HV Hh).
  - intros z Hz. exact (source_chunked_raises b sh hist B z Hz).
Qed.

Theorem source_chunked_and_full_is_katz b sh t hist B :
  Spec.trie_okb b sh (Spec.tmap sh t) = true -> Spec.tab_okb (Model.vocab sh) (Model.sos sh) t = true ->
  TieSafe.safe_okb b sh = true -> 1 <= Model.vocab sh -> Proofs.hist_ok sh hist B ->
  let res := enc6 (mats_tensor (List.length hist + 1) B (Z.to_nat (Model.vocab sh))
                     (Spec.spec_full t (Model.order sh) (Model.vocab sh) (Model.sos sh) hist B)) in
  (forall chunk, (1 <= chunk)%nat ->
     exists st, Interp.run ext06B chunked_body (chunked_vars b sh hist B (Z.of_nat chunk)) = Ok res st) /\
  (exists st, Interp.run ext06B_full full_body (full_vars b sh hist B) = Ok res st).
Proof.
  intros Ht Htab Hs HV Hh. cbv zeta. split.
  - intros chunk Hc. exact (source_chunked_is_katz b sh t hist B chunk Ht Htab Hs HV Hh Hc).
  - exact (source_full_is_katz b sh t hist B Ht Htab Hs HV Hh).
Qed.

Theorem source_checks_are_checks b sh hist B :
  TieSafe.safe_okb b sh = true -> 1 <= Model.vocab sh -> Proofs.hist_ok sh hist B ->
  (forall chunk impl, src_chunked_check b sh hist B chunk impl = Model.omats_eqb (Model.chunked b sh hist B chunk) impl) /\
  (forall impl, src_full_check b sh hist B impl = Model.out_eqb (Model.forward b sh hist B None) impl).
Proof.
  intros Hs HV Hh. split.
  - intros chunk impl. exact (source_chunked_check_is_check b sh hist B chunk impl Hs HV Hh).
  - intros impl. exact (source_full_check_is_check b sh hist B impl Hs HV Hh).
Qed.
