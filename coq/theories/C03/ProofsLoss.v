(* C03 — hard_optimal_completion_distillation_loss: at each (prefix, pair) the loss is the mean
   over the listed targets of -log p(t) (times the class weight when one is given), zero when
   nothing is listed ([step_loss_formula], [loss_entry_formula]); 'sum' adds all entries and
   'mean' divides each sequence's sum by its number of steps that have a target, then averages
   over the batch ([loss_reductions]).  Exact rationals; log-probabilities are data. *)
From Coq Require Import List ZArith QArith Bool Arith Lia Sorted.
From PV Require Import C01.Obs C01.Spec C01.Model C01.LevFacts C01.Proofs.
From PV Require Import C03.Spec C03.Model C03.ProofsSpec C03.ProofsMask C03.ProofsSelect C03.ProofsTop C03.ProofsMain.
Import ListNotations.
Local Open Scope Z_scope.

(* ---- sums of rationals ------------------------------------------------------------------------ *)
Lemma qsum_cons x l : qsum (x :: l) = (x + qsum l)%Q.
Proof. reflexivity. Qed.

Lemma qsum_app l1 l2 : (qsum (l1 ++ l2) == qsum l1 + qsum l2)%Q.
Proof.
  induction l1 as [|x l1 IH]; cbn [app].
  - change (qsum []) with 0%Q. ring.
  - rewrite !qsum_cons, IH. ring.
Qed.

Lemma qsum_zeros n : (qsum (repeat 0%Q n) == 0)%Q.
Proof.
  induction n as [|n IH]; cbn [repeat]; [reflexivity|].
  rewrite qsum_cons, IH. ring.
Qed.

(* -log p(t) * weight(t): what one listed token contributes *)
Definition nll (w : option (list Q)) (lp : list Q) (t : Z) : Q :=
  (- nth (Z.to_nat t) lp 0%Q * match w with Some wv => nth (Z.to_nat t) wv 0%Q | None => 1%Q end)%Q.

Lemma filter_app_pads ign (L : list Z) n : ~ In ign L ->
  filter (fun t => negb (t =? ign)) (L ++ repeat ign n) = L.
Proof.
  intros Hni. rewrite filter_app.
  assert (E1 : filter (fun t => negb (t =? ign)) L = L).
  { induction L as [|x L IH]; [reflexivity|]. cbn [filter].
    destruct (x =? ign) eqn:E; [apply Z.eqb_eq in E; exfalso; apply Hni; left; exact E|].
    cbn [negb]. f_equal. apply IH. intros H. apply Hni. right. exact H. }
  assert (E2 : filter (fun t => negb (t =? ign)) (repeat ign n) = []).
  { induction n as [|n IH]; [reflexivity|]. cbn [repeat filter]. rewrite Z.eqb_refl. exact IH. }
  rewrite E1, E2. apply app_nil_r.
Qed.

(* mechanism 3: cross entropy with ignore_index, averaged over the non-padding targets *)
Theorem step_loss_formula ign w lp (L : list Z) n : ~ In ign L ->
  (step_loss ign w lp (L ++ repeat ign n) == qmean (nll w lp) L)%Q.
Proof.
  intros Hni. unfold step_loss. rewrite filter_app_pads by exact Hni.
  rewrite map_app.
  assert (E1 : map (fun t => if t =? ign then 0%Q else ce ign w lp t) L = map (nll w lp) L).
  { apply map_ext_in. intros t Ht. unfold ce.
    destruct (t =? ign) eqn:E; [apply Z.eqb_eq in E; subst t; contradiction|reflexivity]. }
  assert (E2 : map (fun t => if t =? ign then 0%Q else ce ign w lp t) (repeat ign n) = repeat 0%Q n).
  { induction n as [|n' IHn]; [reflexivity|]. cbn [repeat map]. rewrite Z.eqb_refl, IHn. reflexivity. }
  rewrite E1, E2. destruct L as [|x L].
  - cbn [map app length qmean]. rewrite qsum_zeros. reflexivity.
  - unfold qmean. fold (qsum (map (nll w lp) (x :: L))).
    replace (Z.max (Z.of_nat (length (x :: L))) 1) with (Z.of_nat (length (x :: L)))
      by (cbn [length]; lia).
    rewrite qsum_app, qsum_zeros. unfold Qdiv. ring.
Qed.

Lemma has_target_pads ign (L : list Z) n : ~ In ign L ->
  has_target ign (L ++ repeat ign n) = negb (Nat.eqb (length L) 0).
Proof.
  intros Hni. unfold has_target. destruct L as [|x L]; cbn [app length Nat.eqb negb].
  - induction n as [|n IH]; [reflexivity|]. cbn [repeat existsb]. rewrite Z.eqb_refl. exact IH.
  - cbn [existsb]. destruct (x =? ign) eqn:E; [apply Z.eqb_eq in E; exfalso; apply Hni; left; exact E|reflexivity].
Qed.

(* ---- shapes ------------------------------------------------------------------------------------- *)
Lemma oc_length c N ref hyp :
  length (optimal_completion c N ref hyp) = if c_bf c then N else oc_rows c N hyp.
Proof.
  unfold optimal_completion, transpose01, unflatten. destruct (c_bf c); rewrite map_length, seq_length; reflexivity.
Qed.

Lemma oc_row_length c N ref hyp i :
  (i < if c_bf c then N else oc_rows c N hyp)%nat ->
  length (nth i (optimal_completion c N ref hyp) []) = if c_bf c then oc_rows c N hyp else N.
Proof.
  unfold optimal_completion, transpose01, unflatten. destruct (c_bf c); intros Hi;
    rewrite nth_map_seq by exact Hi; rewrite map_length, seq_length; reflexivity.
Qed.

(* log-probabilities laid out like hyp, plus the class axis *)
Definition wf_logp (bf : bool) (N T : nat) (logp : list (list (list Q))) : Prop :=
  if bf then length logp = N /\ (forall row, In row logp -> length row = T)
  else length logp = T /\ (forall row, In row logp -> length row = N).

Definition entryQ (bf : bool) (k n : nat) (g : list (list Q)) : Q :=
  if bf then nth k (nth n g []) 0%Q else nth n (nth k g []) 0%Q.

Definition entryL (bf : bool) (k n : nat) (g : list (list (list Q))) : list Q :=
  if bf then nth k (nth n g []) [] else nth n (nth k g []) [].

Definition with_excl (c : cfg) : cfg :=
  mkCfg (c_eos c) (c_incl c) (c_norm c) (c_bf c) (c_ins c) (c_del c) (c_sub c) (c_pad c) true.

(* the grid the loss computes before any reduction *)
Definition loss_grid (c : cfg) (w : option (list Q)) (N : nat) (ref hyp : list (list Z))
  (logp : list (list (list Q))) : list (list Q) :=
  map2 (fun lrow orow => map2 (step_loss (c_pad c) w) lrow orow) logp
       (optimal_completion (with_excl c) N ref hyp).

Lemma hard_ocd_loss_none c w N ref hyp logp :
  hard_ocd_loss c w RNone N ref hyp logp = LossGrid (loss_grid c w N ref hyp logp).
Proof. reflexivity. Qed.

Section Loss.
  Variable c : cfg.
  Variable w : option (list Q).
  Variables (N : nat) (ref hyp : list (list Z)) (logp : list (list (list Q))).
  Let bf := c_bf c.
  Let T := time_len bf hyp.
  Let c' := with_excl c.
  Let ign := c_pad c.
  Hypothesis HT : (1 <= T)%nat.
  Hypothesis HN : (1 <= N)%nat.
  Hypothesis Hwr : wf_tensor bf N ref.
  Hypothesis Hwh : wf_tensor bf N hyp.
  Hypothesis Hlp : wf_logp bf N T logp.

  Lemma rows_T : oc_rows c' N hyp = T.
  Proof.
    rewrite (oc_rows_time c' N ref hyp 0) by (assumption || lia).
    cbn [c_excl c_bf with_excl c']. fold bf. fold T. lia.
  Qed.

  (* entry (k, n) of the un-reduced loss: step_loss of that cell's log-probs and targets *)
  Lemma loss_grid_entry k n : (k < T)%nat -> (n < N)%nat ->
    entryQ bf k n (loss_grid c w N ref hyp logp)
    = step_loss ign w (entryL bf k n logp) (entry3 bf k n (optimal_completion c' N ref hyp)).
  Proof.
    intros Hk Hn. unfold loss_grid, entryQ, entryL, entry3. fold c'. fold ign.
    pose proof (oc_length c' N ref hyp) as HL. pose proof (oc_row_length c' N ref hyp) as HR.
    rewrite rows_T in HL, HR. unfold wf_logp in Hlp. cbn [c_bf with_excl c'] in HL, HR. fold bf in HL, HR, Hlp.
    destruct bf; destruct Hlp as [Hl1 Hl2].
    - rewrite (nth_map2 _ _ _ n [] [] []) by lia.
      rewrite (nth_map2 _ _ _ k [] [] 0%Q); [reflexivity| |].
      + rewrite (Hl2 (nth n logp [])) by (apply nth_In; lia). exact Hk.
      + rewrite HR by exact Hn. exact Hk.
    - rewrite (nth_map2 _ _ _ k [] [] []) by lia.
      rewrite (nth_map2 _ _ _ n [] [] 0%Q); [reflexivity| |].
      + rewrite (Hl2 (nth k logp [])) by (apply nth_In; lia). exact Hn.
      + rewrite HR by exact Hk. exact Hn.
  Qed.

  Lemma loss_grid_length : length (loss_grid c w N ref hyp logp) = if bf then N else T.
  Proof.
    unfold loss_grid. rewrite map2_length, oc_length. fold c'. rewrite rows_T.
    unfold wf_logp in Hlp. cbn [c_bf with_excl c']. fold bf. destruct bf; destruct Hlp as [-> _]; lia.
  Qed.

  Lemma loss_grid_row_length i : (i < if bf then N else T)%nat ->
    length (nth i (loss_grid c w N ref hyp logp) []) = if bf then T else N.
  Proof.
    intros Hi. unfold loss_grid. pose proof (oc_length c' N ref hyp) as HL.
    pose proof (oc_row_length c' N ref hyp i) as HR. rewrite rows_T in HL, HR.
    cbn [c_bf with_excl c'] in HL, HR. fold bf in HL, HR. fold c'.
    unfold wf_logp in Hlp. destruct bf; destruct Hlp as [Hl1 Hl2];
      rewrite (nth_map2 _ _ _ i [] [] []) by lia; rewrite map2_length, HR by exact Hi;
      rewrite (Hl2 (nth i logp [])) by (apply nth_In; lia); lia.
  Qed.


  (* ---- the reductions ----------------------------------------------------------------------- *)
  Notation G := (loss_grid c w N ref hyp logp).
  Notation OC := (optimal_completion c' N ref hyp).

  (* the losses of sequence n over time, and which of its steps have a target at all *)
  Definition seq_losses (n : nat) : list Q := map (fun k => entryQ bf k n G) (seq 0 T).
  Definition seq_has (n : nat) : list bool :=
    map (fun k => has_target ign (entry3 bf k n OC)) (seq 0 T).
  Definition seq_mean (n : nat) : Q :=
    (qsum (seq_losses n) / inject_Z (Z.max (Z.of_nat (count_true (seq_has n))) 1))%Q.

  Lemma map2_seq {A B D} (f : A -> B -> D) l1 l2 m d1 d2 : length l1 = m -> length l2 = m ->
    map2 f l1 l2 = map (fun i => f (nth i l1 d1) (nth i l2 d2)) (seq 0 m).
  Proof.
    intros H1 H2. rewrite <- (map_nth_seq l1 d1) at 1. rewrite <- (map_nth_seq l2 d2) at 1.
    rewrite H1, H2. apply map2_map_seq.
  Qed.

  Theorem loss_sum : hard_ocd_loss c w RSum N ref hyp logp = LossScalar (qsum (map qsum G)).
  Proof. reflexivity. Qed.

  Theorem loss_mean :
    hard_ocd_loss c w RMean N ref hyp logp
    = LossScalar (qsum (map seq_mean (seq 0 N)) / inject_Z (Z.of_nat N))%Q.
  Proof.
    pose proof loss_grid_length as HGL. pose proof loss_grid_row_length as HGR.
    pose proof (oc_length c' N ref hyp) as HOL. pose proof (oc_row_length c' N ref hyp) as HOR.
    rewrite rows_T in HOL, HOR. cbn [c_bf with_excl c'] in HOL, HOR. fold bf in HOL, HOR.
    set (F := fun (gs : list Q) (bs : list bool) =>
                (qsum gs / inject_Z (Z.max (Z.of_nat (count_true bs)) 1))%Q).
    assert (Hseqs : (if c_bf c then map2 F G (map (map (has_target ign)) OC)
                     else map2 F (transpose 0%Q N G) (transpose false N (map (map (has_target ign)) OC)))
                    = map seq_mean (seq 0 N)).
    { fold bf. unfold seq_mean, seq_losses, seq_has, entryQ, entry3. destruct bf.
      - rewrite (map2_seq F _ _ N [] []) by (rewrite ?map_length; assumption).
        apply map_ext_in. intros n Hn. apply in_seq in Hn. unfold F. f_equal; [f_equal|].
        + rewrite <- (HGR n) by lia. symmetry. apply map_nth_seq.
        + do 4 f_equal. rewrite (nth_map_lt _ _ n []) by lia.
          rewrite <- (map_nth_seq (nth n OC []) []) at 1.
          rewrite map_map, (HOR n) by lia. reflexivity.
      - unfold transpose. rewrite map2_map_seq. apply map_ext_in. intros n Hn. apply in_seq in Hn.
        unfold F, col. f_equal; [f_equal|].
        + rewrite <- (map_nth_seq G []) at 1. rewrite map_map, HGL. reflexivity.
        + do 4 f_equal. rewrite map_map. rewrite <- (map_nth_seq OC []) at 1. rewrite map_map, HOL.
          apply map_ext_in. intros k Hk. apply in_seq in Hk.
          apply (nth_map_lt _ _ n []). rewrite HOR by lia. lia. }
    match type of Hseqs with ?X = _ =>
      change (LossScalar (qsum X / inject_Z (Z.of_nat (length X)))%Q
              = LossScalar (qsum (map seq_mean (seq 0 N)) / inject_Z (Z.of_nat N))%Q)
    end.
    rewrite Hseqs, map_length, seq_length. reflexivity.
  Qed.

  Section Pair.
    Variable n : nat.
    Hypothesis Hn : (n < N)%nat.
    Let R := denote (c_eos c) (c_incl c) (seq_of bf n ref).
    Let Hy := denote (c_eos c) (c_incl c) (seq_of bf n hyp).
    (* ignore_index is not a counted reference token *)
    Hypothesis Hign : ~ In ign R.

    (* "the average negative log-probability the model assigns to those tokens ... and zero
       where there are none": for every prefix k that exists (k < |hyp|; the loss excludes
       the full hypothesis) *)
    Theorem loss_entry_formula k :
      0 < c_ins c -> 0 < c_del c -> 0 < c_sub c -> (k < length Hy)%nat ->
      exists L,
        NoDup L /\
        (forall t, In t L <-> preserving (c_ins c) (c_del c) (c_sub c) R (firstn k Hy) t) /\
        (entryQ bf k n (loss_grid c w N ref hyp logp) == qmean (nll w (entryL bf k n logp)) L)%Q.
    Proof.
      intros Hi Hd Hs Hk.
      assert (HkT : (k < T)%nat).
      { pose proof (hl_le_T c' N hyp n Hn Hwh) as H. cbn [c_bf c_eos c_incl with_excl c'] in H.
        fold bf in H. fold T in H. unfold Hy in Hk. rewrite length_denote in Hk. lia. }
      destruct (oc_row_correct c' N ref hyp n Hn Hwr Hwh k Hi Hd Hs) as [L [Hent [Hle [Hsorted Hin]]]].
      { right. cbn [c_excl c_bf c_eos c_incl with_excl c']. fold bf. fold Hy. lia. }
      cbn [c_bf c_eos c_incl c_ins c_del c_sub c_pad with_excl c'] in Hent, Hin. fold bf in Hent, Hin.
      fold R in Hin. fold Hy in Hin. fold ign in Hent.
      exists L. split; [apply strictly_sorted_nodup; exact Hsorted|]. split; [exact Hin|].
      rewrite loss_grid_entry by assumption. rewrite Hent.
      apply step_loss_formula. intros Hc. apply Hign.
      apply (preserving_in_ref _ _ _ Hi Hd Hs R (firstn k Hy)). apply Hin. exact Hc.
    Qed.

    (* past the end of the hypothesis the loss is zero *)
    Theorem loss_entry_past_end k : (1 <= k)%nat -> (k < T)%nat -> (length Hy <= k)%nat ->
      (entryQ bf k n (loss_grid c w N ref hyp logp) == 0)%Q.
    Proof.
      intros H1 HkT Hpast. rewrite loss_grid_entry by assumption.
      assert (Hp : entry3 bf k n (optimal_completion c' N ref hyp) = repeat ign (oc_width c' N ref hyp)).
      { apply (oc_past_end_is_padding c' N ref hyp n Hn Hwr Hwh k H1).
        - rewrite rows_T. exact HkT.
        - cbn [c_excl c_bf c_eos c_incl with_excl c']. fold bf. fold Hy. lia. }
      rewrite Hp. apply (step_loss_formula ign w _ [] _). intros [].
    Qed.
  End Pair.
End Loss.
