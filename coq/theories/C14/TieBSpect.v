(* C14, second tie - building blocks for spect_seq_to_batch (PV.Gen.C14BSrc.spect_seq_to_batch).  The whole-function
   tie is NOT proved (the function is executed by SrcRunB.src_check_spect_collate on every run); proved here, for a
   later session, are the two semantic cores it needs:
     sorted_desc_is_model   ext "$sorted" [keys; items] reverse=True (SrcRunB.sort_keyed_desc) on the encoded items
                            is the encoding of Model.sort_desc (stable, descending by feature length)
     pad_sequence_is_model  OpsC14B.pad_sequence on encoded sequences is the encoding of Model.pad_sequence, both
                            layouts (the transposition included), for any element encoding e with padding cell e pad
   Missing for the whole function: the interpretation of the body (4 has_alis/has_uttids combinations, the five
   comprehensions - see TieBCw.comp_loop_map / fold_comp -, W = 1 / W = 3 reference encodings) and pad_cell's width
   condition (all rows of width F resp. W). *)
From Coq Require Import ZArith List String Bool Arith Lia.
From PV Require Import C14.Model MiniPy.Syntax MiniPy.Interp MiniTorch.OpsC14B MiniTorch.LemmasC14B C14.SrcRunB.
Import ListNotations.
Local Open Scope list_scope.

(* ---- sorted(seq, key=lambda x: x[0].size(0), reverse=True) ------------------------------------------------------- *)
Section Sorted.
  Context {X : Type} (key : X -> nat) (enc : X -> val).

  Definition keyed (x : X) : Z * val := (Z.of_nat (key x), enc x).

  Lemma insert_desc_tie x (l : list X) :
    insert_keyed_desc (keyed x) (map keyed l) = map keyed (insert_desc key x l).
  Proof.
    induction l as [|y t IH]; [reflexivity|]. cbn [map insert_keyed_desc insert_desc]. unfold keyed at 1 2. cbn [fst].
    destruct (Z.leb_spec (Z.of_nat (key y)) (Z.of_nat (key x))), (Nat.leb_spec (key y) (key x)); try lia.
    - reflexivity.
    - rewrite IH. reflexivity.
  Qed.

  Lemma sorted_desc_is_model (l : list X) :
    sort_keyed_desc (combine (map (fun x => Z.of_nat (key x)) l) (map enc l)) = map enc (sort_desc key l).
  Proof.
    unfold sort_keyed_desc, sort_desc.
    assert (H : fold_right insert_keyed_desc [] (combine (map (fun x => Z.of_nat (key x)) l) (map enc l))
                = map keyed (fold_right (insert_desc key) [] l)).
    { induction l as [|x t IH]; [reflexivity|]. cbn [map combine fold_right]. rewrite IH. apply insert_desc_tie. }
    rewrite H, map_map. reflexivity.
  Qed.
End Sorted.

(* ---- pad_sequence ---------------------------------------------------------------------------------------------------- *)
Section Pad.
  Context {X : Type} (e : X -> val) (pad : X).
  (* [pk] packs one sequence: VList for matrices (e = enc_row), VTuple for 1-D sequences (e gives cells) *)
  Variable cells : bool.
  Let pk (l : list X) : val := pack cells (map e l).

  Lemma max_len_map (ls : list (list X)) : max_len (map (map e) ls) = maxlen ls.
  Proof.
    induction ls as [|l r IH]; [reflexivity|]. cbn [map max_len maxlen fold_right] in *. rewrite map_length.
    unfold max_len in IH. rewrite IH. reflexivity.
  Qed.

  Lemma padded_map T (ls : list (list X)) :
    map (fun l => l ++ repeat (e pad) (T - List.length l)) (map (map e) ls) = map (map e) (map (pad_to T pad) ls).
  Proof.
    rewrite !map_map. apply map_ext. intros l. unfold pad_to. rewrite map_app, map_repeat, map_length. reflexivity.
  Qed.

  (* given what the op needs to know about the sequences: they decode (all_items), their padding cell is e pad *)
  Lemma pad_sequence_is_model (ts : list val) (ls : list (list X)) pv bf t0 rest :
    ts = t0 :: rest -> (match t0 with VTuple _ => true | _ => false end) = cells ->
    all_items ts = Some (map (map e) ls) -> pad_cell pv (map (map e) ls) = Some (e pad) ->
    OpsC14B.pad_sequence ts pv bf = Some (VList (map pk (Model.pad_sequence bf pad ls))).
  Proof.
    intros Hts Hc Hall Hpc. subst ts. unfold OpsC14B.pad_sequence. rewrite Hall, Hpc, Hc.
    rewrite max_len_map, padded_map. unfold Model.pad_sequence. f_equal. f_equal.
    destruct bf.
    - rewrite !map_map. reflexivity.
    - unfold transpose_cells. rewrite !map_map. apply map_ext. intros t. unfold pk. f_equal.
      rewrite !map_map. apply map_ext. intros l. apply map_nth.
  Qed.
End Pad.
