(* C11 - lemmas: ctm write/read round trip up to the mandated ordering, any (wfn, chan) mapping. *)
From Coq Require Import List ZArith Bool Lia Permutation Sorted.
From PV Require Import C11.Model C11.Spec C11.ProofsSort.
Import ListNotations.
Local Open Scope Z_scope.

(* ---------- the vocabulary of the theorem ------------------------------------------------ *)





(* the mandated order inside an utterance: start, then duration, then token (ties in start are
   ordered by the rest of the written line) *)


Definition mkseg (wc : str * str) (tk : timed) : seg :=
  (fst wc, snd wc, t_start tk, t_end tk - t_start tk, t_tok tk).


(* ---------- small facts -------------------------------------------------------------------- *)

Lemma str_eqb_eq a : forall b, str_eqb a b = true <-> a = b.
Proof.
  induction a as [|x a IH]; destruct b as [|y b]; cbn [str_eqb]; try (split; intros H; (discriminate || reflexivity)).
  rewrite andb_true_iff, Z.eqb_eq, IH. split; [intros [? ?]; subst; reflexivity|intros H; inversion H; auto].
Qed.

Lemma str_eqb_refl a : str_eqb a a = true.
Proof. apply str_eqb_eq. reflexivity. Qed.

Lemma str_eqb_neq a b : a <> b -> str_eqb a b = false.
Proof. intros H. destruct (str_eqb a b) eqn:E; [apply str_eqb_eq in E; congruence|reflexivity]. Qed.

Lemma wc_eqb_eq a b : wc_eqb a b = true <-> a = b.
Proof.
  destruct a as [a1 a2], b as [b1 b2]. unfold wc_eqb; cbn [fst snd].
  rewrite andb_true_iff, !str_eqb_eq. split; [intros [? ?]; subst; reflexivity|intros H; inversion H; auto].
Qed.

Lemma good_wc : good wc_cmp.
Proof. apply good_pair; apply good_str. Qed.

Lemma good_seg : good seg_cmp.
Proof. repeat apply good_pair; try apply good_str; try apply good_Z. Qed.

Lemma good_tok3 : good tok3_cmp.
Proof.
  unfold tok3_cmp. apply good_inj.
  - repeat apply good_pair; try apply good_str; apply good_Z.
  - intros [[t1 s1] e1] [[t2 s2] e2]. unfold tok_key, t_start, t_end, t_tok; cbn [fst snd].
    intros H. inversion H. subst. f_equal. lia.
Qed.

Lemma map_res_ok {A B} (f : A -> res B) (g : A -> B) l :
  (forall x, In x l -> f x = Ok (g x)) -> map_res f l = Ok (map g l).
Proof.
  induction l as [|x l IH]; intros H; [reflexivity|]. cbn [map_res map].
  rewrite (H x (or_introl eq_refl)). rewrite IH; [reflexivity|]. intros y Hy. apply H. right. exact Hy.
Qed.

Lemma perm_flat_same {A B} (f g : A -> list B) l :
  (forall x, Permutation (f x) (g x)) -> Permutation (concat (map f l)) (concat (map g l)).
Proof.
  intros Hfg. induction l as [|z l IH]; cbn [map concat]; [constructor|]. apply Permutation_app; [apply Hfg|exact IH].
Qed.

Lemma Permutation_flat_map2 {A B} (f g : A -> list B) l1 l2 :
  Permutation l1 l2 -> (forall x, Permutation (f x) (g x)) ->
  Permutation (concat (map f l1)) (concat (map g l2)).
Proof.
  intros Hp Hfg. induction Hp as [|x l l' _ IH|x y l|l l' l'' _ IH1 _ IH2]; cbn [map concat].
  - constructor.
  - apply Permutation_app; [apply Hfg|exact IH].
  - rewrite !app_assoc. apply Permutation_app.
    + eapply Permutation_trans; [apply Permutation_app_comm|]. apply Permutation_app; apply Hfg.
    + apply perm_flat_same. exact Hfg.
  - eapply Permutation_trans; [exact IH1|]. eapply Permutation_trans; [|exact IH2].
    apply perm_flat_same. intros x. apply Permutation_sym. apply Hfg.
Qed.

Lemma sorted_weaken {A} (R S : A -> A -> Prop) l :
  (forall a b, R a b -> S a b) -> StronglySorted R l -> StronglySorted S l.
Proof.
  intros H. induction 1 as [|a l Hs IH Hf]; constructor; [exact IH|].
  rewrite Forall_forall in *. intros b Hb. apply H, Hf, Hb.
Qed.

Lemma sorted_map {A B} (g : A -> B) (R : B -> B -> Prop) l :
  StronglySorted (fun a b => R (g a) (g b)) l -> StronglySorted R (map g l).
Proof.
  induction 1 as [|a l Hs IH Hf]; cbn [map]; constructor; [exact IH|].
  rewrite Forall_forall in *. intros b Hb. apply in_map_iff in Hb. destruct Hb as [x [Hx Hin]]. subst. apply Hf, Hin.
Qed.

Lemma sorted_concat {A} (R : A -> A -> Prop) (ls : list (list A)) :
  Forall (StronglySorted R) ls ->
  StronglySorted (fun l1 l2 => forall a b, In a l1 -> In b l2 -> R a b) ls ->
  StronglySorted R (concat ls).
Proof.
  intros Hin Hout. induction Hout as [|l ls Hs IH Hf]; cbn [concat]; [constructor|].
  inversion Hin as [|? ? Hl Hls]; subst. specialize (IH Hls).
  induction Hl as [|a l Hsl IHl Hfl]; cbn [app]; [exact IH|].
  constructor.
  - apply IHl.
    + constructor; [|exact Hls]. exact Hsl.
    + rewrite Forall_forall in *. intros l2 Hl2 x y Hx Hy. apply (Hf l2 Hl2); [right; exact Hx|exact Hy].
  - rewrite Forall_forall in *. intros b Hb. apply in_app_or in Hb. destruct Hb as [Hb|Hb].
    + apply Hfl. exact Hb.
    + apply in_concat in Hb. destruct Hb as [l2 [Hl2 Hb]]. apply (Hf l2 Hl2); [left; reflexivity|exact Hb].
Qed.

Lemma fold_left_concat {A B} (f : A -> B -> A) (ls : list (list B)) : forall a,
  fold_left f (concat ls) a = fold_left (fun a l => fold_left f l a) ls a.
Proof.
  induction ls as [|l ls IH]; intros a; [reflexivity|]. cbn [concat fold_left]. rewrite fold_left_app. apply IH.
Qed.

(* ---------- the writer ------------------------------------------------------------------------ *)


Lemma segments_of_ok m key u tr :
  key_of m u = Some (key u) -> Forall valid_tok tr ->
  ctm_segments_of m (u, map (fun tk => (t_tok tk, Some (t_start tk, t_end tk))) tr)
  = Ok (map (mkseg (key u)) tr).
Proof.
  intros Hk Hv. unfold ctm_segments_of.
  assert (Hm : match m with
               | inl d => match assoc str_eqb u d with Some wc => Ok wc | None => Raise KeyError end
               | inr ch => Ok (u, ch)
               end = Ok (key u)).
  { unfold key_of in Hk. destruct m as [d|ch]; [rewrite Hk; reflexivity|inversion Hk; reflexivity]. }
  rewrite Hm. destruct (key u) as [wfn chan] eqn:Ek.
  rewrite map_res_ok with (g := fun tup : str * option (Z * Z) =>
     match snd tup with Some (s, e) => (wfn, chan, s, e - s, fst tup) | None => (wfn, chan, 0, 0, fst tup) end).
  - rewrite map_map. reflexivity.
  - intros x Hx. apply in_map_iff in Hx. destruct Hx as [tk [Hx Hin]]. subst x. cbn [fst snd].
    rewrite Forall_forall in Hv. specialize (Hv tk Hin). unfold valid_tok in Hv.
    destruct (t_start tk <? 0) eqn:E1; [apply Z.ltb_lt in E1; lia|].
    destruct (t_end tk <? 0) eqn:E2; [apply Z.ltb_lt in E2; lia|].
    destruct (t_end tk - t_start tk <? 0) eqn:E3; [apply Z.ltb_lt in E3; lia|]. reflexivity.
Qed.

Lemma write_ok m key ts :
  (forall u tr, In (u, tr) ts -> key_of m u = Some (key u) /\ Forall valid_tok tr) ->
  write_ctm_file (with_times ts) m
  = Ok (sort_by seg_leb (concat (map (fun ut => map (mkseg (key (fst ut))) (snd ut)) ts))).
Proof.
  intros H. unfold write_ctm_file, with_times.
  rewrite map_res_ok with (g := fun ut : str * list (str * option (Z * Z)) =>
     map (fun tup : str * option (Z * Z) =>
            match snd tup with
            | Some (s, e) => (fst (key (fst ut)), snd (key (fst ut)), s, e - s, fst tup)
            | None => (fst (key (fst ut)), snd (key (fst ut)), 0, 0, fst tup)
            end) (snd ut)).
  - rewrite map_map. do 3 f_equal. apply map_ext. intros [u tr]. cbn [fst snd]. rewrite map_map. reflexivity.
  - intros x Hx. apply in_map_iff in Hx. destruct Hx as [[u tr] [Hx Hin]]. subst x. cbn [fst snd].
    destruct (H u tr Hin) as [Hk Hv]. rewrite (segments_of_ok m key u tr Hk Hv).
    rewrite map_map. reflexivity.
Qed.

(* ---------- the written file, explicitly --------------------------------------------------- *)

Definition group (key : str -> str * str) (ut : str * list timed) : list seg :=
  map (mkseg (key (fst ut))) (sort_by tok3_leb (snd ut)).

Definition written (key : str -> str * str) (ts : list (str * list timed)) : list seg :=
  concat (map (group key) (sort_by (key_leb key) ts)).

Lemma seg_cmp_same wc a b : seg_cmp (mkseg wc a) (mkseg wc b) = tok3_cmp a b.
Proof.
  unfold seg_cmp, tok3_cmp, mkseg, tok_key, pair_cmp, lexc; cbn [fst snd].
  fold (pair_cmp str_cmp str_cmp (fst wc, snd wc) (fst wc, snd wc)).
  replace (wc_cmp (fst wc, snd wc) (fst wc, snd wc)) with Eq; [reflexivity|].
  symmetry. apply (g_eq _ good_wc). reflexivity.
Qed.

Lemma seg_cmp_lt wc1 wc2 a b : wc_cmp wc1 wc2 = Lt -> seg_cmp (mkseg wc1 a) (mkseg wc2 b) = Lt.
Proof.
  intros H. unfold seg_cmp, mkseg, pair_cmp, lexc; cbn [fst snd].
  destruct wc1, wc2. cbn [fst snd]. unfold wc_cmp, pair_cmp, lexc in H; cbn [fst snd] in H.
  unfold wc_cmp, pair_cmp, lexc; cbn [fst snd]. rewrite H. reflexivity.
Qed.

Section Written.
  Variable key : str -> str * str.
  Variable ts : list (str * list timed).
  Hypothesis Hnodup : NoDup (map fst ts).
  Hypothesis Hinj : forall u u', In u (map fst ts) -> In u' (map fst ts) -> key u = key u' -> u = u'.

  Let S := sort_by (key_leb key) ts.

  Lemma S_perm : Permutation ts S.
  Proof. apply sort_by_perm. Qed.

  Lemma key_le_total a b : key_leb key a b = true \/ key_leb key b a = true.
  Proof. apply (le_total wc_cmp good_wc). Qed.

  Lemma key_le_trans a b c : key_leb key a b = true -> key_leb key b c = true -> key_leb key a c = true.
  Proof. apply (le_trans wc_cmp good_wc). Qed.

  Lemma S_sorted : StronglySorted (fun a b => key_leb key a b = true) S.
  Proof. apply sort_by_is_sorted; [exact key_le_total|exact key_le_trans]. Qed.

  Lemma S_nodup : NoDup (map fst S).
  Proof. eapply Permutation_NoDup; [apply Permutation_map, S_perm|exact Hnodup]. Qed.

  Lemma S_strict : StronglySorted (fun a b => wc_cmp (key (fst a)) (key (fst b)) = Lt) S.
  Proof.
    pose proof S_sorted as Hs. pose proof S_nodup as Hn.
    assert (Hin : forall x, In x S -> In (fst x) (map fst ts)).
    { intros x Hx. apply in_map. apply (Permutation_in _ (Permutation_sym S_perm)). exact Hx. }
    induction Hs as [|a l Hs IH Hf]; [constructor|].
    cbn [map] in Hn. inversion Hn as [|? ? Hna Hnl]; subst.
    constructor.
    - apply IH; [exact Hnl|]. intros x Hx. apply Hin. right. exact Hx.
    - rewrite Forall_forall in *. intros b Hb. specialize (Hf b Hb).
      unfold key_leb, leb_of in Hf. destruct (wc_cmp (key (fst a)) (key (fst b))) eqn:E; [|reflexivity|discriminate].
      exfalso. apply (g_eq _ good_wc) in E. apply Hinj in E.
      + apply Hna. rewrite E. apply in_map. exact Hb.
      + apply Hin. left. reflexivity.
      + apply Hin. right. exact Hb.
  Qed.

  Lemma tok3_total a b : tok3_leb a b = true \/ tok3_leb b a = true.
  Proof. apply (le_total tok3_cmp good_tok3). Qed.
  Lemma tok3_trans a b c : tok3_leb a b = true -> tok3_leb b c = true -> tok3_leb a c = true.
  Proof. apply (le_trans tok3_cmp good_tok3). Qed.

  Lemma written_sorted : StronglySorted (fun a b => seg_leb a b = true) (written key ts).
  Proof.
    unfold written. fold S. apply sorted_concat.
    - rewrite Forall_forall. intros l Hl. apply in_map_iff in Hl. destruct Hl as [ut [Hl _]]. subst l.
      unfold group. apply sorted_map.
      eapply sorted_weaken; [|apply (sort_by_is_sorted tok3_leb tok3_total tok3_trans)].
      intros a b Hab. cbn beta. unfold seg_leb, leb_of. rewrite seg_cmp_same. exact Hab.
    - apply sorted_map. eapply sorted_weaken; [|exact S_strict].
      intros a b Hab x y Hx Hy. cbn beta in *.
      unfold group in Hx, Hy. apply in_map_iff in Hx. destruct Hx as [x' [Hx _]]. apply in_map_iff in Hy. destruct Hy as [y' [Hy _]].
      subst x y. unfold seg_leb, leb_of. rewrite (seg_cmp_lt _ _ _ _ Hab). reflexivity.
  Qed.

  Lemma written_perm :
    Permutation (concat (map (fun ut => map (mkseg (key (fst ut))) (snd ut)) ts)) (written key ts).
  Proof.
    unfold written. apply Permutation_flat_map2; [exact S_perm|].
    intros [u tr]. unfold group. cbn [fst snd]. apply Permutation_map. apply sort_by_perm.
  Qed.

  Lemma sort_segments :
    sort_by seg_leb (concat (map (fun ut => map (mkseg (key (fst ut))) (snd ut)) ts)) = written key ts.
  Proof.
    apply sort_by_unique.
    - apply (le_total seg_cmp good_seg).
    - apply (le_trans seg_cmp good_seg).
    - apply (le_antisym seg_cmp good_seg).
    - exact written_perm.
    - exact written_sorted.
  Qed.
End Written.

(* ---------- the reader ------------------------------------------------------------------------- *)

Lemma od_append_fresh {V} u (v : V) d : ~ In u (map fst d) -> od_append u v d = d ++ [(u, [v])].
Proof.
  induction d as [|[k vs] d IH]; intros H; [reflexivity|]. cbn [od_append app].
  rewrite str_eqb_neq by (intros E; apply H; left; symmetry; exact E).
  rewrite IH; [reflexivity|]. intros Hin. apply H. right. exact Hin.
Qed.

Lemma od_append_last {V} u (v : V) vs d : ~ In u (map fst d) ->
  od_append u v (d ++ [(u, vs)]) = d ++ [(u, vs ++ [v])].
Proof.
  induction d as [|[k ws] d IH]; intros H; cbn [od_append app].
  - rewrite str_eqb_refl. reflexivity.
  - rewrite str_eqb_neq by (intros E; apply H; left; symmetry; exact E).
    rewrite IH; [reflexivity|]. intros Hin. apply H. right. exact Hin.
Qed.

Lemma read_step_ok wc2utt wc u tk d :
  utt_of wc2utt wc = Some u -> valid_tok tk ->
  read_ctm_step wc2utt (Ok d) (mkseg wc tk) = Ok (od_append u tk d).
Proof.
  intros Hu Hv. unfold read_ctm_step, mkseg.
  assert (Hm : match wc2utt with
               | None => Ok (fst wc)
               | Some m => match assoc wc_eqb (fst wc, snd wc) m with Some u0 => Ok u0 | None => Raise KeyError end
               end = Ok u).
  { unfold utt_of in Hu. destruct wc2utt as [inv|].
    - destruct wc. cbn [fst snd]. rewrite Hu. reflexivity.
    - inversion Hu. reflexivity. }
  rewrite Hm. unfold valid_tok in Hv.
  destruct (t_start tk <? 0) eqn:E1; [apply Z.ltb_lt in E1; lia|].
  destruct (t_start tk + (t_end tk - t_start tk) <? t_start tk) eqn:E2; [apply Z.ltb_lt in E2; lia|].
  cbn [orb]. replace (t_start tk + (t_end tk - t_start tk)) with (t_end tk) by lia.
  destruct tk as [[t s] e]. reflexivity.
Qed.

Lemma read_group_aux wc2utt wc u : utt_of wc2utt wc = Some u ->
  forall toks pre d, Forall valid_tok toks -> ~ In u (map fst d) ->
  fold_left (read_ctm_step wc2utt) (map (mkseg wc) toks) (Ok (d ++ [(u, pre)])) = Ok (d ++ [(u, pre ++ toks)]).
Proof.
  intros Hu. induction toks as [|tk toks IH]; intros pre d Hv Hfresh.
  - cbn. rewrite app_nil_r. reflexivity.
  - inversion Hv as [|? ? Hv1 Hvs]; subst. cbn [map fold_left].
    rewrite (read_step_ok _ _ _ _ _ Hu Hv1). rewrite (od_append_last u tk pre d Hfresh).
    rewrite IH by assumption. rewrite <- app_assoc. reflexivity.
Qed.

Lemma read_group wc2utt wc u : utt_of wc2utt wc = Some u ->
  forall toks d, toks <> [] -> Forall valid_tok toks -> ~ In u (map fst d) ->
  fold_left (read_ctm_step wc2utt) (map (mkseg wc) toks) (Ok d) = Ok (d ++ [(u, toks)]).
Proof.
  intros Hu toks d Hne Hv Hfresh. destruct toks as [|tk toks]; [congruence|].
  inversion Hv as [|? ? Hv1 Hvs]; subst. cbn [map fold_left].
  rewrite (read_step_ok _ _ _ _ _ Hu Hv1). rewrite (od_append_fresh u tk d Hfresh).
  apply (read_group_aux _ _ _ Hu toks [tk] d Hvs Hfresh).
Qed.

Lemma read_groups wc2utt key (S : list (str * list timed)) :
  (forall ut, In ut S -> utt_of wc2utt (key (fst ut)) = Some (fst ut) /\ snd ut <> [] /\ Forall valid_tok (snd ut)) ->
  forall d, NoDup (map fst d ++ map fst S) ->
  fold_left (read_ctm_step wc2utt) (concat (map (group key) S)) (Ok d)
  = Ok (d ++ map (fun ut => (fst ut, sort_by tok3_leb (snd ut))) S).
Proof.
  induction S as [|[u tr] S IH]; intros H d Hn.
  - cbn. rewrite app_nil_r. reflexivity.
  - cbn [map concat]. rewrite fold_left_app.
    destruct (H (u, tr) (or_introl eq_refl)) as (Hu & Hne & Hv). cbn [fst snd] in *.
    change (group key (u, tr)) with (map (mkseg (key u)) (sort_by tok3_leb tr)).
    rewrite (read_group wc2utt (key u) u Hu).
    + rewrite IH.
      * rewrite <- app_assoc. reflexivity.
      * intros ut Hut. apply H. right. exact Hut.
      * rewrite map_app. cbn [map fst]. rewrite <- app_assoc. exact Hn.
    + intros E. apply (f_equal (@length _)) in E.
      rewrite <- (Permutation_length (sort_by_perm tok3_leb tr)) in E. destruct tr; [congruence|discriminate].
    + rewrite Forall_forall in *. intros x Hx. apply Hv. apply (Permutation_in _ (Permutation_sym (sort_by_perm tok3_leb tr))). exact Hx.
    + apply NoDup_remove_2 in Hn. intros Hin. apply Hn. apply in_or_app. left. exact Hin.
Qed.

Lemma tok3_le_start a b : tok3_leb a b = true -> timed_start_leb a b = true.
Proof.
  unfold tok3_leb, leb_of, tok3_cmp, pair_cmp, lexc, tok_key, timed_start_leb, t_start; cbn [fst snd].
  destruct (snd (fst a) ?= snd (fst b)) eqn:E; intros H.
  - apply Z.compare_eq in E. rewrite E. apply Z.leb_refl.
  - rewrite Z.compare_lt_iff in E. apply Z.leb_le. lia.
  - discriminate.
Qed.

Lemma resort_noop tr : sort_by timed_start_leb (sort_by tok3_leb tr) = sort_by tok3_leb tr.
Proof.
  apply sort_by_sorted. eapply sorted_weaken; [|apply (sort_by_is_sorted tok3_leb)].
  - intros a b. apply tok3_le_start.
  - apply (le_total tok3_cmp good_tok3).
  - apply (le_trans tok3_cmp good_tok3).
Qed.

(* ---------- the theorem ----------------------------------------------------------------------- *)


Lemma ok_injective m wc2utt key ts : ctm_ok m wc2utt key ts ->
  forall u u', In u (map fst ts) -> In u' (map fst ts) -> key u = key u' -> u = u'.
Proof.
  intros H u u' Hu Hu' E.
  apply in_map_iff in Hu. destruct Hu as [[u1 tr1] [E1 H1]]. apply in_map_iff in Hu'. destruct Hu' as [[u2 tr2] [E2 H2]].
  cbn [fst] in *. subst u1 u2.
  pose proof (ok_inv _ _ _ _ H u tr1 H1) as A. pose proof (ok_inv _ _ _ _ H u' tr2 H2) as B.
  rewrite E in A. rewrite A in B. inversion B. reflexivity.
Qed.

Lemma ctm_roundtrip m wc2utt key ts : ctm_ok m wc2utt key ts ->
  exists segs, write_ctm_file (with_times ts) m = Ok segs
               /\ segs = written key ts
               /\ read_ctm_file segs wc2utt = Ok (expected key ts).
Proof.
  intros H. exists (written key ts). split; [|split; [reflexivity|]].
  - rewrite (write_ok m key ts).
    + f_equal. apply sort_segments; [exact (ok_nodup _ _ _ _ H)|exact (ok_injective _ _ _ _ H)].
    + intros u tr Hin. split; [exact (ok_key _ _ _ _ H u tr Hin)|exact (ok_times _ _ _ _ H u tr Hin)].
  - unfold read_ctm_file, written.
    assert (Hperm := sort_by_perm (key_leb key) ts).
    rewrite (read_groups wc2utt key (sort_by (key_leb key) ts)).
    + cbn [app]. unfold expected. rewrite map_map. f_equal. apply map_ext. intros [u tr]. cbn [fst snd].
      rewrite resort_noop. reflexivity.
    + intros [u tr] Hin. apply (Permutation_in _ (Permutation_sym Hperm)) in Hin. cbn [fst snd].
      split; [exact (ok_inv _ _ _ _ H u tr Hin)|split; [exact (ok_nonempty _ _ _ _ H u tr Hin)|exact (ok_times _ _ _ _ H u tr Hin)]].
    + cbn [map app]. eapply Permutation_NoDup; [apply Permutation_map, Hperm|exact (ok_nodup _ _ _ _ H)].
Qed.

(* consequences in the spec's own words *)
Lemma expected_perm key ts : Permutation (map fst ts) (map fst (expected key ts)).
Proof.
  unfold expected. rewrite map_map. cbn [fst].
  change (map (fun x : str * list timed => fst x) (sort_by (key_leb key) ts)) with (map fst (sort_by (key_leb key) ts)).
  apply Permutation_map. apply sort_by_perm.
Qed.

Lemma expected_tokens key ts u tr : In (u, tr) ts ->
  exists tr', In (u, tr') (expected key ts) /\ Permutation tr tr'
              /\ StronglySorted (fun a b => t_start a <= t_start b) tr'.
Proof.
  intros Hin. exists (sort_by tok3_leb tr). split; [|split].
  - unfold expected. apply in_map_iff. exists (u, tr). split; [reflexivity|].
    apply (Permutation_in _ (sort_by_perm (key_leb key) ts)). exact Hin.
  - apply sort_by_perm.
  - eapply sorted_weaken; [|apply (sort_by_is_sorted tok3_leb (le_total tok3_cmp good_tok3) (le_trans tok3_cmp good_tok3))].
    intros a b Hab. apply tok3_le_start in Hab. unfold timed_start_leb in Hab. apply Z.leb_le in Hab. exact Hab.
Qed.

Lemma expected_order key ts :
  StronglySorted (fun a b => leb_of wc_cmp (key (fst a)) (key (fst b)) = true) (expected key ts).
Proof.
  unfold expected. apply sorted_map. cbn [fst].
  apply (sort_by_is_sorted (key_leb key)).
  - intros a b. apply (le_total wc_cmp good_wc).
  - intros a b c. apply (le_trans wc_cmp good_wc).
Qed.

(* "with any waveform/channel mapping": the inverse of an injective utt2wc dictionary works *)
Lemma inverse_mapping_works (d : list (str * (str * str))) :
  NoDup (map snd d) ->
  forall u wc, In (u, wc) d -> assoc wc_eqb wc (map (fun p => (snd p, fst p)) d) = Some u.
Proof.
  induction d as [|[u0 wc0] d IH]; intros Hn u wc Hin; [destruct Hin|].
  cbn [map fst snd assoc]. cbn [map snd] in Hn. inversion Hn as [|? ? Hna Hnd]; subst.
  destruct Hin as [Hin|Hin].
  - inversion Hin. subst. rewrite (proj2 (wc_eqb_eq wc wc) eq_refl). reflexivity.
  - destruct (wc_eqb wc wc0) eqn:E.
    + apply wc_eqb_eq in E. subst. exfalso. apply Hna. apply in_map_iff. exists (u, wc0). split; [reflexivity|exact Hin].
    + apply IH; assumption.
Qed.
