(* C16 — the translated source as an executable: environment [ext16], encoding of the model's
   parameters / cache / rows / paths as MiniPy values, one update call and whole runs.
   (definitions only; the lemmas are in Tie.v)

   PV.Gen.C16Src holds the MiniPy terms that harness/py2coq/translate.py regenerates from
   /repo/src/pydrobert/torch/training.py on every run:
     tsc_get_last_epoch, tsc_get_best_epoch   - the two methods, whole
     ufe_epoch   - update_for_epoch, the statements `if epoch is None: ...` and `last_best = ...`
     ufe_files   - update_for_epoch, its last statement `if self.state_dir is not None: ... else: ...`
                   (guards, save_info_first, try/except, clean-up set arithmetic, keep-all branch)
   The statements of update_for_epoch between the two blocks compute `info` (C15's subject); here
   `info` is data: the model's row {epoch, train_met, val_met, tag}.

   [ext16 P d cn ro] gives meaning to the calls that leave the translated subset.  What it ASSUMES
   (trusted, validated on every run by the harness comparing [src_check] with CPython's traces):
     float(fmt.format(x)) = x            metrics lie on the grid where "{:.4e}" is exact (as Model.v);
                                         a metric is represented by its grid index, VQ (inject_Z z)
     self.cache_hist.values()            the values of the dict, in insertion order
     self.get_info(e)                    self.cache_hist.get(e)   (None when absent)
     self.get_{model,optimizer}_path_with_info(info)
                                         the name scheme of Model.pth: a function of info["epoch"] that
                                         is constant when the format lacks {epoch}; model and optimizer
                                         names never collide; TypeError when info is None
     os.path.exists(p)                   Model.exists_b on the disk obtained by applying the events emitted
                                         so far (Model.apply_ops) to the disk [d] the call started on
     self.save_info_to_hist(info)        self.cache_hist[info["epoch"]] = info; event Append row
     self.save_model_and_optimizer_with_info(model, optimizer, info)
                                         events MkTmp/Fill (model), MkTmp/Fill (optimizer), Replace, Replace
                                         with the temporary names Tmp cn _ of update call number [cn];
                                         never raises (so the `except:` handler is dead code here)
     self._clean_up_files( *pths)        os.path.exists is asked for every path first, then Remove for the
                                         existing ones; the order in which CPython iterates the set
                                         `clean_up` is not modelled: the removal order is DATA ([ro], the
                                         order the harness observed), applied with Model.order_by
     "$fstring" (warning text)           an irrelevant string
   state_dir is set, rank <= 0 (not distributed), as in Model.v. *)
From Coq Require Import ZArith QArith List String Bool Arith Ascii DecimalString DecimalNat.
From PV Require Import MiniPy.Syntax MiniPy.Interp Gen.C16Src C16.Model.
Import ListNotations.
Local Open Scope string_scope.

(* ---- paths as strings ---------------------------------------------------------------- *)
Definition dec (n : nat) : string := NilEmpty.string_of_uint (Nat.to_uint n).
Definition undec (s : string) : option nat := option_map Nat.of_uint (NilEmpty.uint_of_string s).

(* "m" / "m-12" / "o" / "o-12" : checkpoints; "t3" / "u3": temporary files of call 3 *)
Definition pstr (p : path) : string :=
  match p with
  | Ckpt KM None => "m"
  | Ckpt KM (Some e) => "m-" ++ dec e
  | Ckpt KO None => "o"
  | Ckpt KO (Some e) => "o-" ++ dec e
  | Tmp c KM => "t" ++ dec c
  | Tmp c KO => "u" ++ dec c
  end.

Definition ckpt_of (k : kind) (rest : string) : option path :=
  match rest with
  | EmptyString => Some (Ckpt k None)
  | String c r => if Ascii.eqb c "-" then option_map (fun e => Ckpt k (Some e)) (undec r) else None
  end.

Definition path_of_str (s : string) : option path :=
  match s with
  | EmptyString => None
  | String c rest =>
      if Ascii.eqb c "m" then ckpt_of KM rest
      else if Ascii.eqb c "o" then ckpt_of KO rest
      else if Ascii.eqb c "t" then option_map (fun n => Tmp n KM) (undec rest)
      else if Ascii.eqb c "u" then option_map (fun n => Tmp n KO) (undec rest)
      else None
  end.

Definition vp (p : path) : val := VStr (pstr p).
Definition vps (l : list path) : list val := map vp l.

Definition vpath (v : val) : option path := match v with VStr s => path_of_str s | _ => None end.

Fixpoint vpaths (l : list val) : option (list path) :=
  match l with
  | [] => Some []
  | v :: r => match vpath v, vpaths r with Some p, Some ps => Some (p :: ps) | _, _ => None end
  end.

(* ---- rows, the cache --------------------------------------------------------------------- *)
Definition vnat (n : nat) : val := VInt (Z.of_nat n).
Definition vmet (z : Z) : val := VQ (inject_Z z).

(* the entries of `info` the file logic reads or writes (the C15 columns are not modelled) *)
Definition info_of (epoch : val) (tr va tag : Z) : val :=
  VDict [(VStr "epoch", epoch); (VStr "train_met", vmet tr); (VStr "val_met", vmet va); (VStr "tag", VInt tag)].

Definition enc_row (r : row) : val := info_of (vnat (r_epoch r)) (r_train r) (r_val r) (r_tag r).

(* update_cache's dummy entry for epoch 0 *)
Definition dummy_info : val :=
  VDict [(VStr "epoch", VInt 0); (VStr "train_met", VInf true); (VStr "val_met", VInf true); (VStr "tag", VNone)].

Definition enc_entries (c : cache) : list (val * val) := map (fun r => (vnat (r_epoch r), enc_row r)) c.
Definition enc_cache (c : cache) : val := VDict ((VInt 0, dummy_info) :: enc_entries c).

Definition q_int (q : Q) : option Z := match q with Qmake z xH => Some z | _ => None end.

Definition row_of_info (v : val) : option row :=
  match v with
  | VDict dd =>
      match dict_get dd (VStr "epoch"), dict_get dd (VStr "train_met"), dict_get dd (VStr "val_met"),
            dict_get dd (VStr "tag") with
      | Some (VInt e), Some (VQ tr), Some (VQ va), Some (VInt t) =>
          match q_int tr, q_int va with
          | Some tr', Some va' => if Z.leb 0 e then Some (mkRow (Z.to_nat e) tr' va' t) else None
          | _, _ => None
          end
      | _, _, _, _ => None
      end
  | _ => None
  end.

Definition info_epoch (v : val) : option nat :=
  match v with
  | VDict dd => match dict_get dd (VStr "epoch") with
                | Some (VInt z) => if Z.leb 0 z then Some (Z.to_nat z) else None
                | _ => None
                end
  | _ => None
  end.

(* ---- file-system operations as interpreter events ----------------------------------------- *)
Definition ev_of_op (o : fsop) : event :=
  match o with
  | MkTmp t => ("mktmp", [vp t])
  | Fill t v => ("fill", [vp t; VInt v])
  | Replace s t => ("replace", [vp s; vp t])
  | Append r => ("append", [enc_row r])
  | Remove p => ("remove", [vp p])
  end.

Definition op_of_event (e : event) : option fsop :=
  let '(n, a) := e in
  if is n "mktmp" then match a with [t] => option_map MkTmp (vpath t) | _ => None end
  else if is n "fill" then
    match a with [t; VInt v] => option_map (fun p => Fill p v) (vpath t) | _ => None end
  else if is n "replace" then
    match a with
    | [s; t] => match vpath s, vpath t with Some p, Some q => Some (Replace p q) | _, _ => None end
    | _ => None
    end
  else if is n "append" then match a with [i] => option_map Append (row_of_info i) | _ => None end
  else if is n "remove" then match a with [t] => option_map Remove (vpath t) | _ => None end
  else None.

Fixpoint ops_of_events (l : list event) : option (list fsop) :=
  match l with
  | [] => Some []
  | e :: r => match op_of_event e, ops_of_events r with Some o, Some os => Some (o :: os) | _, _ => None end
  end.

Definition emit_ops (ops : list fsop) (st : state) : state :=
  mkState (vars st) (events st ++ map ev_of_op ops).

(* the disk right now: the disk the update call started on + what this call has done so far *)
Definition cur_disk (d : disk) (st : state) : option disk :=
  option_map (apply_ops d) (ops_of_events (events st)).

(* ---- the object ----------------------------------------------------------------------- *)
Definition self_of (P : params) (c : cache) : val :=
  VDict [(VStr "state_dir", VStr "states"); (VStr "state_csv_path", VStr "hist.csv"); (VStr "_rank", VInt (-1));
         (VStr "params", VDict [(VStr "keep_last_and_best_only", VBool (klb P))]);
         (VStr "fmt_dict", VDict [(VStr "train_met", VStr "{:.4e}"); (VStr "val_met", VStr "{:.4e}")]);
         (VStr "cache_hist", enc_cache c)].

Definition self_attr (st : state) (a : string) : option val :=
  match lookup "self" (vars st) with
  | Some (VDict s) => dict_get s (VStr a)
  | _ => None
  end.

Definition cache_of_self (self : val) : option (list (val * val)) :=
  match self with
  | VDict s => match dict_get s (VStr "cache_hist") with Some (VDict h) => Some h | _ => None end
  | _ => None
  end.

(* ---- ext ------------------------------------------------------------------------------- *)
Definition path_call (P : params) (k : kind) (args : list val) (st : state) : Interp.outcome val :=
  match args with
  | [VNone] => Exc "TypeError" st           (* fmt.format( **None) *)
  | [info] => match info_epoch info with
              | Some e => Ok (vp (pth P k e)) st
              | None => Stuck "path of an info without epoch"
              end
  | _ => Stuck "get_*_path_with_info arity"
  end.

Definition ext_base (P : params) (d : disk) (cn : nat) (ro : list path)
  (f : string) (args : list val) (kw : list (string * val)) (st : state) : Interp.outcome val :=
  if is f "float" then
    match args with [VQ q] => Ok (VQ q) st | [VInf b] => Ok (VInf b) st | _ => Stuck "float" end
  else if is f "$method.format" then
    match args with [VStr _; x] => Ok x st | _ => Stuck "format" end
  else if is f "$fstring" then Ok (VStr "") st
  else if is f "self.cache_hist.values" then
    match args, self_attr st "cache_hist" with
    | [], Some (VDict h) => Ok (VList (map snd h)) st
    | _, _ => Stuck "cache_hist.values"
    end
  else if is f "self.get_info" then
    match args, self_attr st "cache_hist" with
    | [k], Some (VDict h) => Ok (match dict_get h k with Some i => i | None => VNone end) st
    | _, _ => Stuck "get_info"
    end
  else if is f "self.get_model_path_with_info" then path_call P KM args st
  else if is f "self.get_optimizer_path_with_info" then path_call P KO args st
  else if is f "os.path.exists" then
    match args with
    | [p] => match vpath p, cur_disk d st with
             | Some q, Some dk => Ok (VBool (exists_b (files dk) q)) st
             | _, _ => Stuck "os.path.exists"
             end
    | _ => Stuck "os.path.exists arity"
    end
  else if is f "self.save_info_to_hist" then
    match args, lookup "self" (vars st) with
    | [VDict i], Some (VDict s) =>
        match row_of_info (VDict i), dict_get i (VStr "epoch"), dict_get s (VStr "cache_hist") with
        | Some r, Some k, Some (VDict h) =>
            Ok VNone (emit_ops [Append r]
                        (set_var "self" (VDict (dict_set s (VStr "cache_hist") (VDict (dict_set h k (VDict i))))) st))
        | _, _, _ => Stuck "save_info_to_hist"
        end
    | _, _ => Stuck "save_info_to_hist arity"
    end
  else if is f "self.save_model_and_optimizer_with_info" then
    match args with
    | [VInt vm; VInt vo; info] =>
        match info_epoch info with
        | Some e =>
            Ok VNone (emit_ops [MkTmp (Tmp cn KM); Fill (Tmp cn KM) vm; MkTmp (Tmp cn KO); Fill (Tmp cn KO) vo;
                                Replace (Tmp cn KM) (pth P KM e); Replace (Tmp cn KO) (pth P KO e)] st)
        | None => Stuck "save_model_and_optimizer_with_info"
        end
    | _ => Stuck "save_model_and_optimizer_with_info arity"
    end
  else if is f "self._clean_up_files" then
    match vpaths args, cur_disk d st with
    | Some l, Some dk => Ok VNone (emit_ops (map Remove (order_by ro (filter (exists_b (files dk)) l))) st)
    | _, _ => Stuck "_clean_up_files"
    end
  else Stuck ("ext16: " ++ f).

(* a translated method of self, run on the caller's self (it neither assigns to self nor emits) *)
Definition call_method (ext : string -> list val -> list (string * val) -> state -> Interp.outcome val)
  (body : stmt) (vars0 : list (string * val)) (st : state) : Interp.outcome val :=
  match Interp.run ext body vars0 with
  | Ok v _ => Ok v st
  | Exc n _ => Exc n st
  | Stuck w => Stuck w
  end.

Definition ext16 (P : params) (d : disk) (cn : nat) (ro : list path)
  (f : string) (args : list val) (kw : list (string * val)) (st : state) : Interp.outcome val :=
  if is f "self.get_last_epoch" then
    match args, lookup "self" (vars st) with
    | [], Some self => call_method (ext_base P d cn ro) tsc_get_last_epoch [("self", self)] st
    | _, _ => Stuck "get_last_epoch"
    end
  else if is f "self.get_best_epoch" then
    match args, lookup "self" (vars st) with
    | [b], Some self =>
        call_method (ext_base P d cn ro) tsc_get_best_epoch [("self", self); ("train_met", b)] st
    | _, _ => Stuck "get_best_epoch"
    end
  else ext_base P d cn ro f args kw st.

(* ---- one call of update_for_epoch ------------------------------------------------------------ *)
Definition vars0 (P : params) (c : cache) (tr va v : Z) : list (string * val) :=
  [("self", self_of P c); ("model", VInt v); ("optimizer", VInt v); ("train_met", vmet tr); ("val_met", vmet va);
   ("epoch", VNone); ("best_is_train", VBool (bt P))].

(* the history row the controller holds for [epoch] after the call *)
Definition row_after (st : state) (epoch : val) : option row :=
  match lookup "self" (vars st) with
  | Some self => match cache_of_self self with
                 | Some h => match dict_get h epoch with Some i => row_of_info i | None => None end
                 | None => None
                 end
  | None => None
  end.

(* Same interface as Model.update_ops, but every step is the interpretation of the regenerated source
   terms.  Outer None: the interpreter got stuck, raised something else than ValueError, raised after a
   file operation, or produced events that are not file operations. *)
Definition src_update_ops (P : params) (d : disk) (c : cache) (tr va : Z) (cn : nat) (v : Z) (ro : list path)
  : option (option (list fsop * row)) :=
  let ext := ext16 P d cn ro in
  match Interp.run ext ufe_epoch (vars0 P c tr va v) with
  | Ok _ st1 =>
      match lookup "epoch" (vars st1) with
      | Some ep =>
          match Interp.run ext ufe_files (update "info" (info_of ep tr va v) (vars st1)) with
          | Ok _ st3 =>
              match ops_of_events (events st3), row_after st3 ep with
              | Some ops, Some r => Some (Some (ops, r))
              | _, _ => None
              end
          | Exc n st3 =>
              match events st3 with
              | [] => if String.eqb n "ValueError" then Some None else None
              | _ => None
              end
          | Stuck _ => None
          end
      | None => None
      end
  | _ => None
  end.

(* the clean-up set as the source builds it: first occurrences kept (MiniPy's insertion-ordered sets);
   Model.update_ops builds the same set with Model.dedup, which keeps last occurrences *)
Fixpoint padd_all (acc l : list path) : list path :=
  match l with [] => acc | x :: r => padd_all (if Model.mem x acc then acc else acc ++ [x]) r end.

(* Model.update_ops with that one difference (first occurrences instead of last ones): what the source
   computes for EVERY oracle [ro]; equal to Model.update_ops when [ro] ranks the clean-up set (Tie.v) *)
Local Open Scope nat_scope.
Local Open Scope list_scope.
Definition update_ops_fd (P : params) (d : disk) (c : cache) (tr va : Z)
  (cn : nat) (v : Z) (ro : list path) : option (list fsop * row) :=
  let e := S (last_epoch c) in
  let r := mkRow e tr va v in
  let last_best := best_epoch (bt P) c in
  let m := pth P KM e in
  let o := pth P KO e in
  let sv := save_ops P cn e v in
  if klb P then
    let cur_best := best_epoch (bt P) (cache_set r c) in
    if negb (Nat.eqb cur_best e) &&
       (path_eqb m (pth P KM cur_best) || path_eqb o (pth P KO cur_best))
    then None
    else if Nat.eqb cur_best (e - 1) then Some (sv ++ [Append r], r)
    else
      let lm := pth P KM (e - 1) in
      let lo := pth P KO (e - 1) in
      let lbm := pth P KM last_best in
      let lbo := pth P KO last_best in
      let info_first := Model.mem m [lm; lbm; lo; lbo] || Model.mem o [lm; lbm; lo; lbo] in
      let cl0 := padd_all [] ([lm; lo] ++ if Nat.eqb last_best cur_best then [] else [lbm; lbo]) in
      let cl := filter (fun p => negb (path_eqb p m || path_eqb p o)) cl0 in
      let pre := if info_first then [Append r] else [] in
      let post := if info_first then [] else [Append r] in
      let d1 := apply_ops d (pre ++ sv ++ post) in
      let cle := filter (exists_b (files d1)) cl in
      Some (pre ++ sv ++ post ++ map Remove (order_by ro cle), r)
  else
    let info_first := exists_b (files d) m || exists_b (files d) o in
    let pre := if info_first then [Append r] else [] in
    let post := if info_first then [] else [Append r] in
    Some (pre ++ sv ++ post, r).

(* every path of [l] is ranked by the removal-order oracle *)
Definition covers (ro l : list path) : bool := forallb (fun p => Model.mem p ro) l.

(* the paths the clean-up set is made of: last epoch's and last best epoch's files *)
Definition cl_paths (P : params) (c : cache) : list path :=
  [pth P KM (last_epoch c); pth P KO (last_epoch c);
   pth P KM (best_epoch (bt P) c); pth P KO (best_epoch (bt P) c)].

(* the two translated methods on a controller whose cache is [c] (also the names Properties.v uses:
   string literals do not parse there) *)
Definition run_epoch_block (P : params) (d : disk) (cn : nat) (ro : list path) (vars : list (string * val)) :=
  Interp.run (ext16 P d cn ro) ufe_epoch vars.
Definition run_best_epoch (P : params) (d : disk) (cn : nat) (ro : list path) (c : cache) (b : bool) :=
  Interp.run (ext_base P d cn ro) tsc_get_best_epoch [("self", self_of P c); ("train_met", VBool b)].
Definition run_last_epoch (P : params) (d : disk) (cn : nat) (ro : list path) (c : cache) :=
  Interp.run (ext_base P d cn ro) tsc_get_last_epoch [("self", self_of P c)].

Definition nat_result (o : Interp.outcome val) : option nat :=
  match o with
  | Ok (VInt z) _ => if Z.leb 0 z then Some (Z.to_nat z) else None
  | _ => None
  end.

(* Model.observe with get_last_epoch / get_best_epoch of the fresh controller interpreted from the source *)
Definition src_observe (P : params) (d : disk) (oc : Model.outcome) (lg : list logent) : option obs :=
  let c := read_cache (csv d) in
  match nat_result (run_last_epoch P d 0 [] c), nat_result (run_best_epoch P d 0 [] c (bt P)) with
  | Some l, Some b =>
      Some (mkObs oc (csv d) l b (map (fun e => (e, load P d e)) (seq 1 l)) (ckpts d) (ntmp d) lg)
  | _, _ => None
  end.

(* ---- whole runs (correspondence entry point) --------------------------------------------------
   Model.seg / start / run_schedule / run with the update function as a parameter; [None] = the
   update function got stuck. *)
Section Runs.
  Variable upd : disk -> cache -> Z -> Z -> nat -> Z -> list path -> option (option (list fsop * row)).
  Variable obsf : params -> disk -> Model.outcome -> list logent -> option obs.
  Variable P : params.
  Variable E : env.

  Fixpoint seg_with (rest : list (Z * Z)) (d : disk) (c : cache) (cn : nat) (budget : option nat)
    : option (disk * nat * Model.outcome * list logent) :=
    match rest with
    | [] => Some (d, cn, Done, [])
    | (tr, va) :: rest' =>
        match upd d c tr va cn (pv E cn) (ro E cn) with
        | None => None
        | Some None => Some (d, cn, Raised, [])
        | Some (Some (ops, r)) =>
            let crash_now := match budget with Some b => Nat.ltb b (List.length ops) | None => false end in
            if crash_now then
              let ops' := firstn (match budget with Some b => b | None => 0 end) ops in
              Some (apply_ops d ops', S cn, Crashed, [(map code_of ops', None)])
            else
              let d' := apply_ops d ops in
              let budget' := match budget with Some b => Some (b - List.length ops)%nat | None => None end in
              match seg_with rest' d' (cache_set r c) (S cn) budget' with
              | Some (d'', cn', oc, lg) => Some (d'', cn', oc, (map code_of ops, Some (ckpts d', ntmp d')) :: lg)
              | None => None
              end
        end
    end.

  Definition start_with (d : disk) (cn : nat) (budget : option nat) :=
    let c := read_cache (csv d) in
    seg_with (skipn (last_epoch c) (ms E)) d c cn budget.

  Fixpoint run_schedule_with (d : disk) (cn : nat) (crashes : list nat) : option (list obs) :=
    match crashes with
    | [] => match start_with d cn None with
            | Some (d', _, oc, lg) => option_map (fun o => [o]) (obsf P d' oc lg)
            | None => None
            end
    | b :: more =>
        match start_with d cn (Some b) with
        | Some (d', cn', oc, lg) =>
            match obsf P d' oc lg, oc with
            | Some o, Crashed => option_map (cons o) (run_schedule_with d' cn' more)
            | Some o, _ => Some [o]
            | None, _ => None
            end
        | None => None
        end
    end.
End Runs.

Definition src_run (P : params) (metrics : list (Z * Z)) (ros : list (list path)) (crashes : list nat)
  : option (list obs) :=
  run_schedule_with (src_update_ops P) src_observe P (mkEnv metrics pv_count (ro_of ros)) empty_disk 0 crashes.

Definition src_check (P : params) (metrics : list (Z * Z)) (ros : list (list path)) (crashes : list nat)
  (impl : list obs) : bool :=
  match src_run P metrics ros crashes with
  | Some o => list_eqb obs_eqb o impl
  | None => false
  end.

(* the interpreted source against the model on one run (used when the implementation is not at hand) *)
Definition src_agrees_model (P : params) (metrics : list (Z * Z)) (ros : list (list path)) (crashes : list nat) : bool :=
  src_check P metrics ros crashes (Model.run P metrics ros crashes).

