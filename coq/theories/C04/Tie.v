(* C04 — tie, part 2: the tensor program [TieRun.adv_tensor] (= the interpreted source of
   `beam_search_advance`, TieRun.run_is_adv) evaluated on the tensors that encode the model's beams
   computes exactly the tensors that encode Model.advance_fn's result, and raises RuntimeError exactly
   where the model returns None - for every batch size, beam width, vocabulary size, prefix height,
   every table of scores and every prefix/length assignment that is well-formed ([wf_adv]).
   torch.topk = the model's executable stable top-k (an oracle for torch's unspecified tie-break,
   validated by the harness on every run; the model theorems assume only Spec.topk_ok of it). *)
From Coq Require Import ZArith QArith List String Bool Arith Lia ZifyBool ZifyNat.
From PV Require Import MiniPy.Syntax MiniPy.Interp MiniTorch.Ops MiniTorch.Value MiniTorch.Lemmas
  MiniTorch.OpsC04 MiniTorch.LemmasC04 Gen.C04Src.
From PV Require Import C04.Model C04.Spec C04.Lists C04.Topk C04.SrcRun C04.TieRun.
Import ListNotations.
Local Open Scope nat_scope.

(* ---- well-formed arguments: N x Kp beams of height S, N x Kp x V scores ------------------------------ *)
Definition wf_adv (V S : nat) (has_lens : bool) (beams : list (list slot)) (logp : list (list (list score))) : Prop :=
  let N := List.length beams in
  let Kp := List.length (hd [] beams) in
  1 <= V /\ 1 <= N /\ 1 <= Kp /\
  Forall (fun row => List.length row = Kp) beams /\
  List.length logp = N /\
  Forall (fun e => List.length e = Kp /\ Forall (fun r => List.length r = V) e) logp /\
  Forall (Forall (fun sl => List.length (col sl) = S)) beams /\
  (has_lens = true -> S <> 0 -> Forall (Forall (fun sl => len sl <= S)) beams).

Section Adv.
Variables (V width S : nat) (has_lens : bool) (beams : list (list slot)) (logp : list (list (list score))).
Hypothesis Hwf : wf_adv V S has_lens beams logp.

Let N := List.length beams.
Let Kp := List.length (hd [] beams).
Let sl (n k : nat) : slot := nth k (nth n beams []) dslot.
Let lp (n k v : nat) : score := nth v (nth k (nth n logp []) []) None.
Let cs (n : nat) : list score := cands (nth n beams []) (nth n logp []).
Let Kn := Nat.min width (Kp * V).
Let ix (n j : nat) : nat := nth j (topk_stable Kn (cs n)) 0.
Let grow := grow_flag S beams.

Lemma wf_V : 1 <= V. Proof. apply Hwf. Qed.
Lemma wf_N : 1 <= N. Proof. apply Hwf. Qed.
Lemma wf_Kp : 1 <= Kp. Proof. apply Hwf. Qed.
Lemma wf_rows : Forall (fun row => List.length row = Kp) beams. Proof. apply Hwf. Qed.
Lemma wf_lp_len : List.length logp = N. Proof. apply Hwf. Qed.
Lemma wf_lp : Forall (fun e => List.length e = Kp /\ Forall (fun r => List.length r = V) e) logp. Proof. apply Hwf. Qed.
Lemma wf_col : Forall (Forall (fun sl => List.length (col sl) = S)) beams. Proof. apply Hwf. Qed.
Lemma wf_len : has_lens = true -> S <> 0 -> Forall (Forall (fun sl => len sl <= S)) beams. Proof. apply Hwf. Qed.

Lemma row_len n : n < N -> List.length (nth n beams []) = Kp.
Proof. intros Hn. pose proof wf_rows as H. eapply Forall_forall in H; [exact H|]. apply nth_In. exact Hn. Qed.

Lemma sl_in n k : n < N -> k < Kp -> List.In (sl n k) (nth n beams []).
Proof. intros Hn Hk. apply nth_In. now rewrite row_len. Qed.

Lemma col_len n k : n < N -> k < Kp -> List.length (col (sl n k)) = S.
Proof.
  intros Hn Hk. pose proof wf_col as H. eapply Forall_forall in H; [|apply (nth_In beams [] Hn)].
  eapply Forall_forall in H; [exact H|]. now apply sl_in.
Qed.

Lemma len_le n k : has_lens = true -> S <> 0 -> n < N -> k < Kp -> len (sl n k) <= S.
Proof.
  intros Hl HS Hn Hk. pose proof (wf_len Hl HS) as H. eapply Forall_forall in H; [|apply (nth_In beams [] Hn)].
  eapply Forall_forall in H; [exact H|]. now apply sl_in.
Qed.

Lemma lrow_len n : n < N -> List.length (nth n logp []) = Kp.
Proof.
  intros Hn. pose proof wf_lp as H. eapply Forall_forall in H; [apply H|]. apply nth_In. now rewrite wf_lp_len.
Qed.

Lemma lrow_len2 n k : n < N -> k < Kp -> List.length (nth k (nth n logp []) []) = V.
Proof.
  intros Hn Hk. pose proof wf_lp as H. eapply Forall_forall in H; [|apply nth_In; rewrite wf_lp_len; exact Hn].
  destruct H as [H1 H2]. eapply Forall_forall in H2; [exact H2|]. apply nth_In. now rewrite H1.
Qed.

(* ---- the argument tensors, tabulated ---------------------------------------------------------------------- *)
Lemma concat_beams : List.concat beams = tl2 N Kp sl.
Proof. apply (concat_regular beams Kp dslot). exact wf_rows. Qed.

Lemma enc_lpp_tab : enc_lpp N Kp beams = tabv2 N Kp (fun n k => esc (sc (sl n k))).
Proof. unfold enc_lpp, tabv2. f_equal. now rewrite concat_beams, map_tl2. Qed.

Lemma enc_lens_tab : enc_lens N Kp beams = tabv2 N Kp (fun n k => vnat (len (sl n k))).
Proof. unfold enc_lens, tabv2. f_equal. now rewrite concat_beams, map_tl2. Qed.

Lemma enc_y_tab : enc_y S N Kp beams = tabv3 S N Kp (fun s n k => VInt (nth s (col (sl n k)) 0%Z)).
Proof.
  unfold enc_y, tabv3. f_equal. rewrite tl3_unfold. apply flat_map_ext_in. intros s _.
  now rewrite concat_beams, map_tl2.
Qed.

Lemma enc_lpt_tab : enc_lpt N Kp V logp = tabv3 N Kp V (fun n k v => esc (lp n k v)).
Proof.
  unfold enc_lpt, tabv3. f_equal.
  assert (E1 : List.concat logp = tl2 N Kp (fun n k => nth k (nth n logp []) [])).
  { rewrite <- wf_lp_len. apply (concat_regular logp Kp []).
    eapply Forall_impl; [|exact wf_lp]. intros e He. apply He. }
  rewrite E1, (concat_tl2 (A := score) N Kp V _ None).
  - now rewrite map_tl3.
  - intros n k Hn Hk. now apply lrow_len2.
Qed.

(* ---- the candidate table and the selection -------------------------------------------------------------------- *)
Lemma cs_rows n : n < N ->
  forall r, List.In r (map (fun p : slot * list score => map (sadd (sc (fst p))) (snd p))
                        (combine (nth n beams []) (nth n logp []))) -> List.length r = V.
Proof.
  intros Hn r Hr. apply in_map_iff in Hr. destruct Hr as [[a b] [<- Hp]]. cbn [fst snd]. rewrite map_length.
  apply in_combine_r in Hp. destruct (In_nth _ _ [] Hp) as [k [Hk <-]]. rewrite lrow_len in Hk by assumption.
  now apply lrow_len2.
Qed.

Lemma cs_len n : n < N -> List.length (cs n) = Kp * V.
Proof.
  intros Hn. unfold cs, cands. rewrite (concat_uniform_length _ V) by (now apply cs_rows).
  rewrite map_length, combine_length, row_len, lrow_len by assumption. now rewrite Nat.min_id.
Qed.

Lemma sadd_None a : sadd a None = None. Proof. destruct a; reflexivity. Qed.

Lemma cs_nth n r : n < N -> r < Kp * V ->
  nth r (cs n) None = sadd (sc (sl n (r / V))) (lp n (r / V) (r mod V)).
Proof.
  intros Hn Hr. pose proof wf_V as HV. unfold cs, cands.
  assert (Hk : r / V < Kp) by (apply Nat.div_lt_upper_bound; lia).
  assert (Hv : r mod V < V) by (apply Nat.mod_upper_bound; lia).
  rewrite (nth_concat_uniform (A:=score) None V) by
    (try (now apply cs_rows); rewrite map_length, combine_length, row_len, lrow_len by assumption;
     rewrite Nat.min_id; exact Hr).
  rewrite (nth_map_lt _ _ [] (dslot, [])) by
    (rewrite combine_length, row_len, lrow_len by assumption; rewrite Nat.min_id; exact Hk).
  rewrite combine_nth by (now rewrite row_len, lrow_len). cbn [fst snd].
  rewrite (nth_map_lt (A:=score) (B:=score) _ _ None None) by (rewrite lrow_len2 by assumption; exact Hv).
  reflexivity.
Qed.

Lemma Kn_le_cs n : n < N -> Kn <= List.length (cs n).
Proof. intros Hn. rewrite cs_len by assumption. unfold Kn. lia. Qed.

Lemma ind_len n : n < N -> List.length (topk_stable Kn (cs n)) = Kn.
Proof. intros Hn. apply (topk_stable_ok Kn (cs n) (Kn_le_cs n Hn)). Qed.

Lemma ix_lt n j : n < N -> j < Kn -> ix n j < Kp * V.
Proof.
  intros Hn Hj. destruct (topk_stable_ok Kn (cs n) (Kn_le_cs n Hn)) as (Hl & _ & Hin & _).
  rewrite <- (cs_len n Hn). apply Hin. unfold ix. apply nth_In. now rewrite Hl.
Qed.

Lemma ix_src_lt n j : n < N -> j < Kn -> ix n j / V < Kp.
Proof. intros Hn Hj. pose proof wf_V. apply Nat.div_lt_upper_bound; [lia|]. pose proof (ix_lt n j Hn Hj). lia. Qed.

(* ---- the model's rows, slot by slot ---------------------------------------------------------------------------- *)
Definition filler : slot := mkSlot (repeat 0%Z (S + 1)) 0 None.

Definition oslot (n j : nat) : slot :=
  if j <? Kn
  then ext_slot S has_lens grow (sl n (ix n j / V)) (Z.of_nat (ix n j mod V)) (nth (ix n j) (cs n) None)
  else filler.

Definition osrc (n j : nat) : nat := if j <? Kn then ix n j / V else 0.

Definition model_rows : list (list slot * list nat) :=
  map (fun p => advance1 topk_stable V width S has_lens grow (fst p) (snd p)) (combine beams logp).

Lemma model_rows_len : List.length model_rows = N.
Proof. unfold model_rows. rewrite map_length, combine_length, wf_lp_len. apply Nat.min_id. Qed.

Lemma model_rows_nth n : n < N ->
  nth n model_rows ([], []) = advance1 topk_stable V width S has_lens grow (nth n beams []) (nth n logp []).
Proof.
  intros Hn. unfold model_rows.
  rewrite (nth_map_lt _ _ ([], []) ([], [])) by (rewrite combine_length, wf_lp_len, Nat.min_id; exact Hn).
  rewrite combine_nth by (now rewrite wf_lp_len). reflexivity.
Qed.

Lemma slot_of_model n j : n < N -> j < width -> slot_of model_rows n j = oslot n j.
Proof.
  intros Hn Hj. unfold slot_of, oslot. rewrite model_rows_nth by assumption. unfold advance1. cbn [fst].
  rewrite row_len by assumption. fold Kn. fold (cs n).
  destruct (Nat.ltb_spec j Kn) as [Hlt|Hge].
  - rewrite app_nth1 by (rewrite map_length, ind_len by assumption; exact Hlt).
    rewrite (nth_map_lt _ _ dslot 0) by (rewrite ind_len by assumption; exact Hlt). reflexivity.
  - rewrite app_nth2 by (rewrite map_length, ind_len by assumption; exact Hge).
    rewrite map_length, ind_len by assumption. apply repeat_nth. lia.
Qed.

Lemma src_of_model n j : n < N -> j < width -> src_of model_rows n j = osrc n j.
Proof.
  intros Hn Hj. unfold src_of, osrc. rewrite model_rows_nth by assumption. unfold advance1. cbn [snd].
  rewrite row_len by assumption. fold Kn. fold (cs n).
  destruct (Nat.ltb_spec j Kn) as [Hlt|Hge].
  - rewrite app_nth1 by (rewrite map_length, ind_len by assumption; exact Hlt).
    rewrite (nth_map_lt _ _ 0 0) by (rewrite ind_len by assumption; exact Hlt). reflexivity.
  - rewrite app_nth2 by (rewrite map_length, ind_len by assumption; exact Hge).
    rewrite map_length, ind_len by assumption. apply repeat_nth. lia.
Qed.

(* ---- scores as elements ------------------------------------------------------------------------------------------ *)
Lemma el_add_esc a b : el_add (esc a) (esc b) = Some (esc (sadd a b)).
Proof.
  destruct a as [x|], b as [y|]; try reflexivity. cbn [esc el_add sadd]. do 2 f_equal.
  rewrite <- (Qred_inject_Z (x + y)). now rewrite inject_Z_plus.
Qed.

Lemma score_of_esc s : score_of (esc s) = Some s.
Proof. destruct s; reflexivity. Qed.

Lemma is_float_esc s : is_float (esc s) = true.
Proof. destruct s; reflexivity. Qed.

Lemma Kz : Z.min (Z.of_nat width) (Z.of_nat Kp * Z.of_nat V) = Z.of_nat Kn.
Proof. unfold Kn. lia. Qed.

Lemma Kn_le_width : Kn <= width. Proof. unfold Kn. lia. Qed.

(* ---- the common prefix: candidates, topk, source index, token ---------------------------------------------------- *)
Definition t_lpn : vt := tabv2 N Kn (fun n j => esc (nth (ix n j) (cs n) None)).
Definition t_ind : vt := tabv2 N Kn (fun n j => vnat (ix n j)).
Definition t_src : vt := tabv2 N Kn (fun n j => vnat (ix n j / V)).
Definition t_tok : vt := tabv2 N Kn (fun n j => vnat (ix n j mod V)).
Definition t_yt : vt := tabv3 1 N Kn (fun _ n j => vnat (ix n j mod V)).

Lemma pre_unsq : unsqueeze (tabv2 N Kp (fun n k => esc (sc (sl n k)))) 2
  = Some (tabv3 N Kp 1 (fun n k _ => esc (sc (sl n k)))).
Proof. apply unsqueeze_tab2_2. Qed.

Lemma pre_add : add (tabv3 N Kp 1 (fun n k _ => esc (sc (sl n k)))) (tabv3 N Kp V (fun n k v => esc (lp n k v)))
  = Some (tabv3 N Kp V (fun n k v => esc (sadd (sc (sl n k)) (lp n k v)))).
Proof. apply add_tab3_last. intros. apply el_add_esc. Qed.

Lemma pre_flat : flatten (tabv3 N Kp V (fun n k v => esc (sadd (sc (sl n k)) (lp n k v)))) 1
  = Some (tabv2 N (Kp * V) (fun n r => esc (nth r (cs n) None))).
Proof.
  rewrite flatten_tab3 by apply wf_V. f_equal. apply tabv2_ext. intros n r Hn Hr. now rewrite cs_nth.
Qed.

Lemma pre_topk : topk (tabv2 N (Kp * V) (fun n r => esc (nth r (cs n) None))) (Z.of_nat Kn) 1 = Some (t_lpn, t_ind).
Proof.
  assert (Hrow : forall n, n < N -> map (fun r => nth r (cs n) None) (seq 0 (Kp * V)) = cs n).
  { intros n Hn. rewrite <- (cs_len n Hn). apply map_nth_seq. }
  rewrite (topk_tab2 N (Kp * V) _ (fun n r => nth r (cs n) None) Kn).
  - unfold t_lpn, t_ind. f_equal. f_equal; apply tabv2_ext; intros n j Hn Hj; now rewrite Hrow.
  - intros. apply score_of_esc.
  - unfold Kn. lia.
  - intros n j Hn Hj. rewrite Hrow by assumption. now apply ix_lt.
Qed.

Lemma pre_src : trunc_div t_ind (Z.of_nat V) = Some t_src.
Proof. apply trunc_div_tab2. apply wf_V. Qed.

Lemma pre_tok : remainder t_ind (Z.of_nat V) = Some t_tok.
Proof. apply remainder_tab2. apply wf_V. Qed.

Lemma pre_yt : unsqueeze t_tok 0 = Some t_yt.
Proof. apply unsqueeze_tab2_0. Qed.

(* ---- `if K < width:` padding ---------------------------------------------------------------------------------------- *)
Definition padY (Y : nat -> nat -> nat -> val) (s n j : nat) : val := if j <? Kn then Y s n j else VInt 0.
Definition padL (L : nat -> nat -> val) (n j : nat) : val := if j <? Kn then L n j else VInt 0.
Definition padP (n j : nat) : val := if j <? Kn then esc (nth (ix n j) (cs n) None) else VInf false.
Definition padS (n j : nat) : val := if j <? Kn then vnat (ix n j / V) else VInt 0.

Lemma pad_tab (H : nat) Y L :
  (forall s n j, s < H -> n < N -> j < Kn -> is_int (Y s n j) = true) ->
  (forall n j, n < N -> j < Kn -> is_int (L n j) = true) ->
  adv_pad S N (Z.of_nat width) (Z.of_nat Kn) (tabv3 H N Kn Y) (tabv2 N Kn L) t_lpn t_src =
  if (Kn <? width) && negb (H =? S + 1) then RRaise
  else ROk (tabv3 H N width (padY Y)) (tabv2 N width (padL L)) (tabv2 N width padP) (tabv2 N width padS).
Proof.
  intros HY HL. unfold adv_pad. pose proof Kn_le_width as Hle.
  replace (Z.of_nat Kn <? Z.of_nat width)%Z with (Kn <? width)
    by (destruct (Nat.ltb_spec Kn width), (Z.ltb_spec (Z.of_nat Kn) (Z.of_nat width)); try reflexivity; lia).
  destruct (Nat.ltb_spec Kn width) as [Hlt|Hge]; cbn [andb].
  - replace (Z.of_nat S + 1)%Z with (Z.of_nat (S + 1)) by lia.
    replace (Z.of_nat width - Z.of_nat Kn)%Z with (Z.of_nat (width - Kn)) by lia.
    unfold new_empty, new_zeros, new_full.
    rewrite kind_ok_int by (now apply all_int_tab3). rewrite full_3. cbn [bo].
    destruct (Nat.eqb_spec H (S + 1)) as [->|Hne]; cbn [negb].
    + rewrite cat_tab3_2. cbn [bc].
      assert (Hk : kind_ok t_lpn (VInf false) = true).
      { unfold kind_ok, t_lpn, tabv2. cbn [is_int is_float vdata andb orb].
        apply forallb_tl2. intros. apply is_float_esc. }
      rewrite Hk, full_2. cbn [bo]. unfold t_lpn at 1. rewrite cat_tab2_1. cbn [bc].
      rewrite kind_ok_int by (now apply all_int_tab2). rewrite full_2. cbn [bo].
      rewrite cat_tab2_1. cbn [bc]. unfold t_src. rewrite cat_tab2_1. cbn [bc].
      replace (Kn + (width - Kn)) with width by lia. reflexivity.
    + rewrite cat_tab3_2_raise by assumption. reflexivity.
  - assert (E : Kn = width) by lia. cbn [negb]. unfold t_lpn, t_src. f_equal.
    + rewrite <- E at 1. apply tabv3_ext. intros s n j _ _ Hj. unfold padY.
      now replace (j <? Kn) with true by (symmetry; apply Nat.ltb_lt; exact Hj).
    + rewrite <- E at 1. apply tabv2_ext. intros n j _ Hj. unfold padL.
      now replace (j <? Kn) with true by (symmetry; apply Nat.ltb_lt; exact Hj).
    + rewrite <- E at 1. apply tabv2_ext. intros n j _ Hj. unfold padP.
      now replace (j <? Kn) with true by (symmetry; apply Nat.ltb_lt; exact Hj).
    + rewrite <- E at 1. apply tabv2_ext. intros n j _ Hj. unfold padS.
      now replace (j <? Kn) with true by (symmetry; apply Nat.ltb_lt; exact Hj).
Qed.

(* ---- the result tensors of the model ------------------------------------------------------------------------------ *)
Definition out_H : nat :=
  match S with 0 => 1 | _ => if has_lens then (if grow then S + 1 else S) else S + 1 end.

Definition out_res : res :=
  ROk (tabv3 out_H N width (fun s n j => VInt (nth s (col (oslot n j)) 0%Z)))
      (tabv2 N width (fun n j => vnat (len (oslot n j))))
      (tabv2 N width (fun n j => esc (sc (oslot n j))))
      (tabv2 N width (fun n j => vnat (osrc n j))).

Lemma oslot_lt n j : j < Kn ->
  oslot n j = ext_slot S has_lens grow (sl n (ix n j / V)) (Z.of_nat (ix n j mod V)) (nth (ix n j) (cs n) None).
Proof. intros Hj. unfold oslot. now replace (j <? Kn) with true by (symmetry; apply Nat.ltb_lt; exact Hj). Qed.

Lemma oslot_ge n j : Kn <= j -> oslot n j = filler.
Proof. intros Hj. unfold oslot. now replace (j <? Kn) with false by (symmetry; apply Nat.ltb_ge; exact Hj). Qed.

Lemma sc_ext_slot g p v x : sc (ext_slot S has_lens g p v x) = x.
Proof. unfold ext_slot. destruct S; [reflexivity|]. destruct has_lens; reflexivity. Qed.

Lemma nth_repeat0 s m : nth s (repeat 0%Z m) 0%Z = 0%Z.
Proof. revert s. induction m as [|m IH]; intros [|s]; cbn; auto. Qed.

Lemma finish (H : nat) Y L :
  (forall s n j, s < H -> n < N -> j < Kn -> Y s n j = VInt (nth s (col (oslot n j)) 0%Z)) ->
  (forall n j, n < N -> j < Kn -> L n j = vnat (len (oslot n j))) ->
  H = out_H -> (Kn <? width) && negb (H =? S + 1) = false ->
  adv_pad S N (Z.of_nat width) (Z.of_nat Kn) (tabv3 H N Kn Y) (tabv2 N Kn L) t_lpn t_src = out_res.
Proof.
  intros HY HL HH Hc. rewrite pad_tab.
  - rewrite Hc. unfold out_res. rewrite <- HH. f_equal.
    + apply tabv3_ext. intros s n j Hs Hn Hj. unfold padY. destruct (Nat.ltb_spec j Kn) as [Hlt|Hge].
      * now apply HY.
      * rewrite oslot_ge by assumption. cbn [filler col]. now rewrite nth_repeat0.
    + apply tabv2_ext. intros n j Hn Hj. unfold padL. destruct (Nat.ltb_spec j Kn) as [Hlt|Hge].
      * now apply HL.
      * rewrite oslot_ge by assumption. reflexivity.
    + apply tabv2_ext. intros n j Hn Hj. unfold padP. destruct (Nat.ltb_spec j Kn) as [Hlt|Hge].
      * rewrite oslot_lt by assumption. now rewrite sc_ext_slot.
      * rewrite oslot_ge by assumption. reflexivity.
    + apply tabv2_ext. intros n j Hn Hj. unfold padS, osrc. destruct (Nat.ltb_spec j Kn); reflexivity.
  - intros s n j Hs Hn Hj. now rewrite HY.
  - intros n j Hn Hj. now rewrite HL.
Qed.

(* ---- Model.ext_slot, case by case ------------------------------------------------------------------------------------ *)
Lemma ext_slot_0 hl g p v x : ext_slot 0 hl g p v x = mkSlot [v] 1 x.
Proof. reflexivity. Qed.

Lemma ext_slot_nolens S0 g p v x : S0 <> 0 -> ext_slot S0 false g p v x = mkSlot (col p ++ [v]) (S0 + 1) x.
Proof. destruct S0; [congruence|reflexivity]. Qed.

Lemma ext_slot_lens S0 g p v x : S0 <> 0 ->
  ext_slot S0 true g p v x = mkSlot (set_nth (len p) v (if g then col p ++ [v] else col p)) (len p + 1) x.
Proof. destruct S0; [congruence|reflexivity]. Qed.

Lemma nth_set_nth {A} (x d : A) : forall l i s, i < List.length l ->
  nth s (set_nth i x l) d = if s =? i then x else nth s l d.
Proof.
  induction l as [|y l IH]; intros [|i] [|s] Hi; cbn in *; try lia; try reflexivity. apply IH. lia.
Qed.

Lemma existsb_map {A B} (f : A -> B) (p : B -> bool) l : existsb p (map f l) = existsb (fun x => p (f x)) l.
Proof. induction l as [|x l IH]; [reflexivity|]. cbn. now rewrite IH. Qed.

Lemma no_grow_lt n k : grow = false -> n < N -> k < Kp -> len (sl n k) < S.
Proof.
  intros Hg Hn Hk. unfold grow, grow_flag in Hg.
  assert (Hin : List.In (sl n k) (List.concat beams)).
  { apply in_concat. exists (nth n beams []). split; [now apply nth_In|now apply sl_in]. }
  destruct (Nat.leb_spec S (len (sl n k))) as [Hle|Hlt]; [|exact Hlt].
  exfalso. assert (existsb (fun s0 => S <=? len s0) (List.concat beams) = true); [|congruence].
  apply existsb_exists. exists (sl n k). split; [exact Hin|]. now apply Nat.leb_le.
Qed.

Lemma is_int_vnat x : is_int (vnat x) = true. Proof. reflexivity. Qed.

Lemma all_int_yt : all_int t_yt = true.
Proof. apply all_int_tab3. intros. apply is_int_vnat. Qed.

(* ---- t = 0: y_next = y_t, lengths 1 ------------------------------------------------------------------------------------- *)
Lemma case_S0 : S = 0 ->
  (if all_int t_yt
   then do ones <- ones_int [Z.of_nat N; Z.of_nat Kn];
        adv_pad S N (Z.of_nat width) (Z.of_nat Kn) t_yt ones t_lpn t_src
   else RUndef) = out_res.
Proof.
  intros HS. rewrite all_int_yt. unfold ones_int. rewrite full_2. cbn [bo]. unfold t_yt.
  apply finish.
  - intros s n j Hs Hn Hj. rewrite oslot_lt by assumption. rewrite HS, ext_slot_0. cbn [col].
    replace s with 0 by lia. reflexivity.
  - intros n j Hn Hj. rewrite oslot_lt by assumption. rewrite HS, ext_slot_0. reflexivity.
  - unfold out_H. now rewrite HS.
  - rewrite HS. cbn [Nat.add Nat.eqb negb]. apply andb_false_r.
Qed.

(* ---- t > 0: the prefixes gathered by source index --------------------------------------------------------------------- *)
Definition ycol (s n k : nat) : val := VInt (nth s (col (sl n k)) 0%Z).
Definition t_yn : vt := tabv3 S N Kn (fun s n j => ycol s n (ix n j / V)).

Lemma pre_gather :
  unsqueeze t_src 0 = Some (tabv3 1 N Kn (fun _ n j => vnat (ix n j / V))) /\
  expand (tabv3 1 N Kn (fun _ n j => vnat (ix n j / V))) [Z.of_nat S; Z.of_nat N; Z.of_nat Kn]
    = Some (tabv3 S N Kn (fun _ n j => vnat (ix n j / V))) /\
  gather (tabv3 S N Kp ycol) 2 (tabv3 S N Kn (fun _ n j => vnat (ix n j / V))) = Some t_yn.
Proof.
  split; [apply unsqueeze_tab2_0|]. split; [apply expand_tab3_0|].
  apply gather_tab3; [lia|lia|]. intros s n j _ Hn Hj. now apply ix_src_lt.
Qed.

Lemma case_nolens : S <> 0 -> has_lens = false ->
  (docat yn1 <- cat t_yn t_yt 0;
   do ynl <- new_full t_yt [Z.of_nat N; Z.of_nat Kn] (VInt (Z.of_nat S + 1));
   adv_pad S N (Z.of_nat width) (Z.of_nat Kn) yn1 ynl t_lpn t_src) = out_res.
Proof.
  intros HS Hl. unfold t_yn, t_yt. rewrite cat_tab3_0. cbn [bc]. fold t_yt.
  unfold new_full. rewrite kind_ok_int by apply all_int_yt. rewrite full_2. cbn [bo].
  apply finish.
  - intros s n j Hs Hn Hj. rewrite oslot_lt by assumption. rewrite Hl, ext_slot_nolens by assumption. cbn [col].
    pose proof (col_len n (ix n j / V) Hn (ix_src_lt n j Hn Hj)) as Hc.
    destruct (Nat.ltb_spec s S) as [Hlt|Hge].
    + rewrite app_nth1 by lia. reflexivity.
    + rewrite app_nth2 by lia. rewrite Hc. replace (s - S) with 0 by lia. reflexivity.
  - intros n j Hn Hj. rewrite oslot_lt by assumption. rewrite Hl, ext_slot_nolens by assumption. cbn [len].
    unfold vnat. f_equal. lia.
  - unfold out_H. rewrite Hl. destruct S; [congruence|reflexivity].
  - rewrite Nat.eqb_refl. apply andb_false_r.
Qed.

(* ---- t > 0 with y_prev_lens: grow decision, token scattered at the prefix length ---------------------------------- *)
Definition lenp (n j : nat) : nat := len (sl n (ix n j / V)).
Definition t_pre : vt := tabv2 N Kn (fun n j => vnat (lenp n j)).

Lemma pre_len :
  gather (enc_lens N Kp beams) 1 t_src = Some t_pre /\
  unsqueeze t_pre 0 = Some (tabv3 1 N Kn (fun _ n j => vnat (lenp n j))) /\
  add_scalar t_pre (VInt 1) = Some (tabv2 N Kn (fun n j => VInt (Z.of_nat (lenp n j) + 1))).
Proof.
  split; [|split].
  - rewrite enc_lens_tab. unfold t_src. rewrite gather_tab2; [reflexivity|lia|].
    intros n j Hn Hj. now apply ix_src_lt.
  - apply unsqueeze_tab2_0.
  - apply add_scalar_tab2. intros. reflexivity.
Qed.

Lemma beams_nonempty : map len (List.concat beams) <> [].
Proof.
  intros E. apply (f_equal (@List.length nat)) in E. rewrite map_length, concat_beams, tl2_length in E.
  pose proof wf_N. pose proof wf_Kp. cbn in E. nia.
Qed.

Lemma Kn_lt_width : (Kn <? width) = (Kp * V <? width).
Proof. unfold Kn. destruct (Nat.ltb_spec (Nat.min width (Kp * V)) width), (Nat.ltb_spec (Kp * V) width); try reflexivity; lia. Qed.

Definition lens_cont (yn' : vt) : res :=
  do pre <- gather (enc_lens N Kp beams) 1 t_src;
  do pu <- unsqueeze pre 0;
  do yn2 <- scatter yn' 0 pu t_yt;
  do ynl <- add_scalar pre (VInt 1);
  adv_pad S N (Z.of_nat width) (Z.of_nat Kn) yn2 ynl t_lpn t_src.

Lemma lens_cont_tab (H : nat) f :
  (forall n j, n < N -> j < Kn -> lenp n j < H) ->
  (forall s n j, s < H -> n < N -> j < Kn -> is_int (f s n j) = true) ->
  lens_cont (tabv3 H N Kn f) =
  adv_pad S N (Z.of_nat width) (Z.of_nat Kn)
    (tabv3 H N Kn (fun s n j => if s =? lenp n j then vnat (ix n j mod V) else f s n j))
    (tabv2 N Kn (fun n j => VInt (Z.of_nat (lenp n j) + 1))) t_lpn t_src.
Proof.
  intros Hlt Hint. unfold lens_cont. destruct pre_len as (E1 & E2 & E3).
  rewrite E1. cbn [bo]. rewrite E2. cbn [bo]. unfold t_yt. rewrite scatter_tab3 by exact Hlt. cbn [bo].
  rewrite E3. cbn [bo]. reflexivity.
Qed.

Lemma case_lens : S <> 0 -> has_lens = true ->
  (do mx <- tmax (enc_lens N Kp beams);
   do it <- item mx;
   match it with
   | VInt z => if (Z.of_nat S <=? z)%Z then docat yn1 <- cat t_yn t_yt 0; lens_cont yn1 else lens_cont t_yn
   | _ => RUndef
   end) = if (Kp * V <? width) && negb grow then RRaise else out_res.
Proof.
  intros HS Hl.
  assert (El : enc_lens N Kp beams = mkVT [N; Kp] (map vnat (map len (List.concat beams))))
    by (unfold enc_lens; now rewrite map_map).
  rewrite El at 1. destruct (tmax_lens [N; Kp] _ beams_nonempty) as [z [Ez Hz]]. rewrite Ez. cbn [bo].
  rewrite item_scalar. cbn [bo]. rewrite Hz, existsb_map. fold (grow_flag S beams). fold grow.
  destruct grow eqn:Hg; cbn [negb].
  - (* the tensor grows: height S + 1 *)
    rewrite andb_false_r. unfold t_yn, t_yt. rewrite cat_tab3_0. cbn [bc]. fold t_yt.
    rewrite lens_cont_tab.
    + apply finish.
      * intros s n j Hs Hn Hj. rewrite oslot_lt by assumption. rewrite Hl, ext_slot_lens by assumption. rewrite Hg. cbn [col].
        pose proof (ix_src_lt n j Hn Hj) as Hk. pose proof (col_len n _ Hn Hk) as Hc.
        pose proof (len_le n _ Hl HS Hn Hk) as Hle. fold (lenp n j) in Hle |- *.
        rewrite nth_set_nth by (rewrite app_length, Hc; cbn [List.length]; lia).
        destruct (Nat.eqb_spec s (lenp n j)); [reflexivity|].
        destruct (Nat.ltb_spec s S) as [Hlt|Hge].
        -- rewrite app_nth1 by lia. reflexivity.
        -- rewrite app_nth2 by lia. rewrite Hc. replace (s - S) with 0 by lia. reflexivity.
      * intros n j Hn Hj. rewrite oslot_lt by assumption. rewrite Hl, ext_slot_lens by assumption. cbn [len].
        unfold vnat, lenp. f_equal. lia.
      * unfold out_H. rewrite Hl, Hg. destruct S; [congruence|reflexivity].
      * rewrite Nat.eqb_refl. apply andb_false_r.
    + intros n j Hn Hj. pose proof (len_le n _ Hl HS Hn (ix_src_lt n j Hn Hj)). unfold lenp. lia.
    + intros s n j Hs Hn Hj. destruct (s <? S); reflexivity.
  - (* no growth: height S, every length < S *)
    rewrite andb_true_r. unfold t_yn. rewrite lens_cont_tab.
    + rewrite <- Kn_lt_width. destruct (Kn <? width) eqn:Hw.
      * rewrite pad_tab.
        -- rewrite Hw. replace (S =? S + 1) with false by (symmetry; apply Nat.eqb_neq; lia). reflexivity.
        -- intros s n j _ _ _. destruct (s =? lenp n j); reflexivity.
        -- intros. reflexivity.
      * apply finish.
        -- intros s n j Hs Hn Hj. rewrite oslot_lt by assumption. rewrite Hl, ext_slot_lens by assumption. rewrite Hg. cbn [col].
           pose proof (ix_src_lt n j Hn Hj) as Hk. pose proof (col_len n _ Hn Hk) as Hc.
           pose proof (no_grow_lt n _ Hg Hn Hk) as Hlt. fold (lenp n j) in Hlt |- *.
           rewrite nth_set_nth by lia. destruct (Nat.eqb_spec s (lenp n j)); reflexivity.
        -- intros n j Hn Hj. rewrite oslot_lt by assumption. rewrite Hl, ext_slot_lens by assumption. cbn [len].
           unfold vnat, lenp. f_equal. lia.
        -- unfold out_H. rewrite Hl, Hg. destruct S; [congruence|reflexivity].
        -- rewrite Hw. reflexivity.
    + intros n j Hn Hj. unfold lenp. apply no_grow_lt; [exact Hg|exact Hn|now apply ix_src_lt].
    + intros. reflexivity.
Qed.

(* ---- the tensor program on the encoded beams = the model ------------------------------------------------------------ *)
Definition lens_arg : option vt := if has_lens then Some (enc_lens N Kp beams) else None.

Lemma adv_tensor_model :
  adv_tensor (enc_lpt N Kp V logp) (Z.of_nat width) (enc_lpp N Kp beams) (enc_y S N Kp beams) lens_arg
  = match advance_fn topk_stable V width S has_lens beams logp with None => RRaise | Some _ => out_res end.
Proof.
  unfold adv_tensor, advance_fn. fold Kp. fold grow. cbv zeta.
  rewrite enc_lpt_tab, enc_lpp_tab, enc_y_tab.
  change (vshape (tabv3 N Kp V (fun n k v => esc (lp n k v)))) with [N; Kp; V].
  change (vshape (tabv3 S N Kp (fun s n k => VInt (nth s (col (sl n k)) 0%Z)))) with [S; N; Kp].
  change (vshape (tabv2 N Kp (fun n k => esc (sc (sl n k))))) with [N; Kp].
  cbv beta iota. unfold shape_is. cbn [list_eqb]. rewrite !Nat.eqb_refl. cbn [andb negb].
  destruct (Nat.eqb_spec width 0) as [Hw0|Hw0].
  { replace (Z.of_nat width <? 1)%Z with true by lia. reflexivity. }
  replace (Z.of_nat width <? 1)%Z with false by lia.
  assert (Hls : match lens_arg with Some l => negb (list_eqb Nat.eqb (vshape l) [N; Kp]) | None => false end = false).
  { unfold lens_arg. destruct has_lens; [|reflexivity]. cbn [enc_lens vshape list_eqb]. now rewrite !Nat.eqb_refl. }
  rewrite Hls. rewrite Kz.
  rewrite pre_unsq. cbn [bo]. rewrite pre_add. cbn [bo]. rewrite pre_flat. cbn [bo]. rewrite pre_topk. cbn [bo].
  rewrite pre_src. cbn [bo]. rewrite pre_tok. cbn [bo]. rewrite pre_yt. cbn [bo].
  assert (El : enc_lens N Kp beams = mkVT [N; Kp] (map vnat (map len (List.concat beams))))
    by (unfold enc_lens; now rewrite map_map).
  destruct (Nat.eqb_spec S 0) as [HS|HS].
  - (* t = 0 *)
    replace (Z.of_nat S =? 0)%Z with true by lia. cbn [negb andb]. rewrite andb_false_r. cbn [andb].
    unfold lens_arg. assert (Hl : has_lens = true \/ has_lens = false) by (destruct has_lens; auto).
    destruct Hl as [Hl|Hl]; rewrite Hl; cbn [andb].
    + rewrite El. destruct (any_ne0_lens [N; Kp] (map len (List.concat beams))) as [x [E1 E2]].
      rewrite E1. cbn [bo]. rewrite E2. cbn [bo]. rewrite existsb_map.
      destruct (existsb (fun x0 => negb (len x0 =? 0)) (List.concat beams)); [reflexivity|].
      now apply case_S0.
    + now apply case_S0.
  - (* t > 0 *)
    replace (Z.of_nat S =? 0)%Z with false by lia. cbn [negb andb].
    destruct pre_gather as (E1 & E2 & E3). rewrite E1. cbn [bo]. rewrite E2. cbn [bo].
    fold ycol. change (fun s n k => VInt (nth s (col (sl n k)) 0%Z)) with ycol. rewrite E3. cbn [bo].
    unfold lens_arg. assert (Hl : has_lens = true \/ has_lens = false) by (destruct has_lens; auto).
    destruct Hl as [Hl|Hl]; rewrite Hl; cbn [andb].
    + match goal with |- _ = match (if ?c then _ else _) with _ => _ end =>
        replace c with ((Kp * V <? width) && negb grow)%bool by (now rewrite ?andb_true_r) end.
      transitivity (if (Kp * V <? width) && negb grow then RRaise else out_res); [exact (case_lens HS Hl)|].
      destruct ((Kp * V <? width) && negb grow); reflexivity.
    + rewrite andb_false_r. now apply case_nolens.
Qed.

(* ---- shape and order of the model's rows (for the round trip and the composed corollary) ---------------------------- *)
Definition no_cat_error : Prop := (Kp * V <? width) && negb (S =? 0) && has_lens && negb grow = false.

Lemma oslot_height n j : n < N -> j < width -> no_cat_error -> List.length (col (oslot n j)) = out_H.
Proof.
  intros Hn Hj Hc. unfold no_cat_error in Hc. rewrite <- Kn_lt_width in Hc.
  destruct (Nat.ltb_spec j Kn) as [Hlt|Hge].
  - rewrite oslot_lt by assumption. pose proof (ix_src_lt n j Hn Hlt) as Hk. pose proof (col_len n _ Hn Hk) as Hcl.
    clear Hc. unfold out_H, ext_slot. destruct S as [|S']; [reflexivity|]. destruct has_lens.
    + cbn [col]. rewrite set_nth_length. destruct grow; [rewrite app_length, Hcl; cbn [List.length]; lia|exact Hcl].
    + cbn [col]. rewrite app_length, Hcl. cbn [List.length]. lia.
  - rewrite oslot_ge by assumption. cbn [filler col]. rewrite repeat_length. unfold out_H.
    assert (Hw : (Kn <? width) = true) by (apply Nat.ltb_lt; lia). rewrite Hw in Hc. cbn [andb] in Hc.
    destruct S as [|S']; [reflexivity|]. cbn [Nat.eqb negb andb] in Hc. destruct has_lens; [|reflexivity].
    cbn [andb] in Hc. destruct grow; [reflexivity|discriminate].
Qed.

Lemma model_row_lengths n : n < N ->
  List.length (fst (nth n model_rows ([], []))) = width /\ List.length (snd (nth n model_rows ([], []))) = width.
Proof.
  intros Hn. rewrite model_rows_nth by assumption. unfold advance1. cbn [fst snd].
  rewrite !app_length, !map_length, !repeat_length, row_len by assumption. fold Kn. fold (cs n).
  rewrite ind_len by assumption. pose proof Kn_le_width. lia.
Qed.

Lemma model_rows_shape : no_cat_error ->
  forall r, List.In r model_rows ->
    List.length (fst r) = width /\ List.length (snd r) = width /\
    Forall (fun s0 => List.length (col s0) = out_H) (fst r).
Proof.
  intros Hc r Hr. destruct (In_nth _ _ ([], []) Hr) as [n [Hn <-]]. rewrite model_rows_len in Hn.
  destruct (model_row_lengths n Hn) as [H1 H2]. split; [exact H1|]. split; [exact H2|].
  apply Forall_forall. intros s0 Hs. destruct (In_nth _ _ dslot Hs) as [j [Hj <-]]. rewrite H1 in Hj.
  change (nth j (fst (nth n model_rows ([], []))) dslot) with (slot_of model_rows n j).
  rewrite slot_of_model by assumption. now apply oslot_height.
Qed.

Lemma model_row_sorted n : n < N -> sorted_desc (map sc (fst (nth n model_rows ([], [])))).
Proof.
  intros Hn i j Hij Hj. rewrite map_length in Hj. destruct (model_row_lengths n Hn) as [H1 _]. rewrite H1 in Hj.
  change None with (sc dslot). rewrite !map_nth.
  change (nth j (fst (nth n model_rows ([], []))) dslot) with (slot_of model_rows n j).
  change (nth i (fst (nth n model_rows ([], []))) dslot) with (slot_of model_rows n i).
  rewrite !slot_of_model by (assumption || lia).
  destruct (Nat.ltb_spec j Kn) as [Hlt|Hge].
  - rewrite !oslot_lt by lia. rewrite !sc_ext_slot.
    destruct (topk_stable_ok Kn (cs n) (Kn_le_cs n Hn)) as (Hl & _ & _ & Hs & _).
    specialize (Hs i j Hij). rewrite map_length, Hl in Hs. specialize (Hs Hlt).
    rewrite !(nth_map_lt (A:=nat) (B:=score) _ _ None 0) in Hs by (rewrite Hl; lia). exact Hs.
  - rewrite (oslot_ge n j) by assumption. reflexivity.
Qed.

Lemma model_row_src n : n < N -> forall s0, List.In s0 (snd (nth n model_rows ([], []))) -> s0 < Kp.
Proof.
  intros Hn s0 Hs. destruct (In_nth _ _ 0 Hs) as [j [Hj <-]]. destruct (model_row_lengths n Hn) as [_ H2].
  rewrite H2 in Hj. change (nth j (snd (nth n model_rows ([], []))) 0) with (src_of model_rows n j).
  rewrite src_of_model by assumption. unfold osrc. destruct (Nat.ltb_spec j Kn); [now apply ix_src_lt|apply wf_Kp].
Qed.
End Adv.

(* ---- the tie ---------------------------------------------------------------------------------------------------------- *)
Lemma advance_vars_eq V width S has_lens beams logp :
  advance_vars V width S has_lens beams logp
  = vars0 (enc_lpt (List.length beams) (List.length (hd [] beams)) V logp) (Z.of_nat width)
      (enc_lpp (List.length beams) (List.length (hd [] beams)) beams)
      (enc_y S (List.length beams) (List.length (hd [] beams)) beams)
      (lens_arg has_lens beams).
Proof. unfold advance_vars, vars0, lens_arg. destruct has_lens; reflexivity. Qed.

Lemma advance_fn_rows V width S has_lens beams logp rows :
  advance_fn topk_stable V width S has_lens beams logp = Some rows -> rows = model_rows V width S has_lens beams logp.
Proof.
  unfold advance_fn, model_rows. intros H.
  destruct (width =? 0); [discriminate|].
  destruct ((S =? 0) && has_lens && existsb (fun sl => negb (len sl =? 0)) (List.concat beams)); [discriminate|].
  destruct ((List.length (hd [] beams) * V <? width) && negb (S =? 0) && has_lens && negb (grow_flag S beams));
    [discriminate|].
  now inversion H.
Qed.

(* the height of y_next *)
Definition out_height (S : nat) (has_lens : bool) (beams : list (list slot)) : nat := out_H S has_lens beams.

Lemma enc_rows_model V width S has_lens beams logp : wf_adv V S has_lens beams logp ->
  enc_rows (out_height S has_lens beams) width (model_rows V width S has_lens beams logp)
  = match out_res V width S has_lens beams logp with
    | ROk y l p s => VTuple [encv y; encv l; encv p; encv s]
    | _ => VNone
    end.
Proof.
  intros Hwf. unfold enc_rows, out_res, out_height. rewrite (model_rows_len V width S has_lens beams logp Hwf).
  set (rows := model_rows V width S has_lens beams logp).
  assert (E1 : forall H, tabv3 H (List.length beams) width (fun s n k => VInt (nth s (col (slot_of rows n k)) 0%Z))
               = tabv3 H (List.length beams) width (fun s n j => VInt (nth s (col (oslot V width S has_lens beams logp n j)) 0%Z))).
  { intros H. apply tabv3_ext. intros s n j _ Hn Hj. unfold rows. now rewrite (slot_of_model V width S has_lens beams logp Hwf). }
  assert (E2 : tabv2 (List.length beams) width (fun n k => vnat (len (slot_of rows n k)))
               = tabv2 (List.length beams) width (fun n j => vnat (len (oslot V width S has_lens beams logp n j)))).
  { apply tabv2_ext. intros n j Hn Hj. unfold rows. now rewrite (slot_of_model V width S has_lens beams logp Hwf). }
  assert (E3 : tabv2 (List.length beams) width (fun n k => esc (sc (slot_of rows n k)))
               = tabv2 (List.length beams) width (fun n j => esc (sc (oslot V width S has_lens beams logp n j)))).
  { apply tabv2_ext. intros n j Hn Hj. unfold rows. now rewrite (slot_of_model V width S has_lens beams logp Hwf). }
  assert (E4 : tabv2 (List.length beams) width (fun n k => vnat (src_of rows n k))
               = tabv2 (List.length beams) width (fun n j => vnat (osrc V width beams logp n j))).
  { apply tabv2_ext. intros n j Hn Hj. unfold rows. now rewrite (src_of_model V width S has_lens beams logp Hwf). }
  now rewrite E1, E2, E3, E4.
Qed.

(* For EVERY well-formed input: interpreting the translated source computes the tensors that encode
   Model.advance_fn's rows (next prefixes incl. the cells beyond the lengths, lengths, scores, source
   indices), and raises RuntimeError exactly where the model answers None. *)
Theorem advance_tie : forall V width S has_lens beams logp, wf_adv V S has_lens beams logp ->
  exists st,
    run_advance V width S has_lens beams logp =
    match advance_fn topk_stable V width S has_lens beams logp with
    | Some rows => Interp.Ok (enc_rows (out_height S has_lens beams) width rows) st
    | None => Interp.Exc runtime_error st
    end.
Proof.
  intros V width S has_lens beams logp Hwf. unfold run_advance. rewrite advance_vars_eq.
  pose proof (run_is_adv (enc_lpt (List.length beams) (List.length (hd [] beams)) V logp) (Z.of_nat width)
                (enc_lpp (List.length beams) (List.length (hd [] beams)) beams)
                (enc_y S (List.length beams) (List.length (hd [] beams)) beams)
                (lens_arg has_lens beams) _ _ _ _ _ _ eq_refl eq_refl) as Hsim.
  rewrite (adv_tensor_model V width S has_lens beams logp Hwf) in Hsim.
  destruct (advance_fn topk_stable V width S has_lens beams logp) as [rows|] eqn:E.
  - apply advance_fn_rows in E. subst rows. rewrite (enc_rows_model V width S has_lens beams logp Hwf).
    unfold out_res in *. unfold sim in Hsim.
    destruct (Interp.run ext04 bsa_body _) as [v st|nm st|w]; try contradiction. exists st. now rewrite Hsim.
  - unfold sim in Hsim. destruct (Interp.run ext04 bsa_body _) as [v st|nm st|w]; try contradiction.
    exists st. now rewrite Hsim.
Qed.

(* ---- the executable form used by the harness --------------------------------------------------------------------------- *)
Lemma map_opt_map {A B C} (h : B -> option C) (f : A -> B) l : map_opt h (map f l) = map_opt (fun x => h (f x)) l.
Proof. induction l as [|x l IH]; [reflexivity|]. cbn [map map_opt]. now rewrite IH. Qed.

Lemma map_opt_seq {A B} (h : A -> option B) (f : nat -> A) n (l : list B) d :
  List.length l = n -> (forall i, i < n -> h (f i) = Some (nth i l d)) -> map_opt h (map f (seq 0 n)) = Some l.
Proof.
  intros Hl H. rewrite map_opt_map. rewrite (map_opt_ext_in _ (fun i => nth i l d)).
  - subst n. now rewrite map_nth_seq.
  - intros i Hi. apply in_seq in Hi. apply H. lia.
Qed.

Lemma slot_eta sl : mkSlot (col sl) (len sl) (sc sl) = sl. Proof. destruct sl; reflexivity. Qed.

Lemma rows_of_enc_rows H W rows :
  (forall r, List.In r rows -> List.length (fst r) = W /\ List.length (snd r) = W /\
                               Forall (fun sl => List.length (col sl) = H) (fst r)) ->
  rows_of (enc_rows H W rows) = Some rows.
Proof.
  intros Hr. unfold rows_of, enc_rows. rewrite !decv_encv. set (N := List.length rows).
  cbn [tabv3 tabv2 vshape]. rewrite !Nat.eqb_refl. cbn [list_eqb andb]. rewrite !Nat.eqb_refl. cbn [andb].
  unfold sequence. apply (map_opt_seq _ _ N rows ([], [])); [reflexivity|].
  intros n Hn. unfold row_of.
  pose proof (Hr (nth n rows ([], [])) (nth_In _ _ Hn)) as (H1 & H2 & H3).
  fold (tabv3 H N W (fun s n k => VInt (nth s (col (slot_of rows n k)) 0%Z))).
  fold (tabv2 N W (fun n k => vnat (len (slot_of rows n k)))).
  fold (tabv2 N W (fun n k => esc (sc (slot_of rows n k)))).
  fold (tabv2 N W (fun n k => vnat (src_of rows n k))).
  unfold sequence. rewrite (map_opt_seq _ _ W (fst (nth n rows ([], []))) dslot); [|exact H1|].
  - rewrite (map_opt_seq _ _ W (snd (nth n rows ([], []))) 0); [|exact H2|].
    + now destruct (nth n rows ([], [])).
    + intros k Hk. rewrite g2_tab2 by assumption. apply nat_of_vnat.
  - intros k Hk. rewrite !g2_tab2 by assumption. rewrite nat_of_vnat, score_of_esc.
    assert (Hc : List.length (col (slot_of rows n k)) = H).
    { eapply Forall_forall in H3; [exact H3|]. apply nth_In. now rewrite H1. }
    rewrite (map_opt_seq _ _ H (col (slot_of rows n k)) 0%Z); [|exact Hc|].
    + unfold slot_of. now rewrite slot_eta.
    + intros s Hs. rewrite g3_tab3 by assumption. reflexivity.
Qed.

Lemma advance_fn_no_cat_error V width S has_lens beams logp rows :
  advance_fn topk_stable V width S has_lens beams logp = Some rows -> no_cat_error V width S has_lens beams.
Proof.
  unfold advance_fn, no_cat_error. intros H.
  destruct (width =? 0); [discriminate|].
  destruct ((S =? 0) && has_lens && existsb (fun sl => negb (len sl =? 0)) (List.concat beams)); [discriminate|].
  destruct ((List.length (hd [] beams) * V <? width) && negb (S =? 0) && has_lens && negb (grow_flag S beams));
    [discriminate|reflexivity].
Qed.

(* for ALL well-formed inputs the interpreted source, read back as rows, is the model *)
Theorem src_advance_tie : forall V width S has_lens beams logp, wf_adv V S has_lens beams logp ->
  src_advance V width S has_lens beams logp = Some (advance_fn topk_stable V width S has_lens beams logp).
Proof.
  intros V width S has_lens beams logp Hwf. unfold src_advance.
  destruct (advance_tie V width S has_lens beams logp Hwf) as [st E]. rewrite E.
  destruct (advance_fn topk_stable V width S has_lens beams logp) as [rows|] eqn:Ea; [|reflexivity].
  pose proof (advance_fn_no_cat_error _ _ _ _ _ _ _ Ea) as Hc. apply advance_fn_rows in Ea. subst rows.
  unfold out_height. rewrite rows_of_enc_rows; [reflexivity|].
  apply (model_rows_shape V width S has_lens beams logp Hwf Hc).
Qed.

Theorem src_advance_check_is_check : forall V width S has_lens beams logp impl, wf_adv V S has_lens beams logp ->
  src_advance_check V width S has_lens beams logp impl = check_advance V width S has_lens beams logp impl.
Proof.
  intros V width S has_lens beams logp impl Hwf. unfold src_advance_check, check_advance.
  rewrite (src_advance_tie V width S has_lens beams logp Hwf). unfold rows_match.
  destruct (advance_fn topk_stable V width S has_lens beams logp) as [rows|], impl as [[irows iS]|]; reflexivity.
Qed.

(* ---- composed with the model-side theorem about topk (Topk.topk_stable_ok): a statement purely about the
   interpreted source.  Whatever four tensors the interpreted source returns, read back as rows: every row has
   [width] slots whose scores are in best-first order (-inf, the unusable slots, last) and [width] source
   indices that all point into the old beam. *)
Theorem source_advance_sorted : forall V width S has_lens beams logp rows, wf_adv V S has_lens beams logp ->
  src_advance V width S has_lens beams logp = Some (Some rows) ->
  List.length rows = List.length beams /\
  forall r, List.In r rows ->
    List.length (fst r) = width /\ List.length (snd r) = width /\
    sorted_desc (map sc (fst r)) /\ forall s, List.In s (snd r) -> s < List.length (hd [] beams).
Proof.
  intros V width S has_lens beams logp rows Hwf E. rewrite (src_advance_tie V width S has_lens beams logp Hwf) in E.
  inversion E as [Ea]. apply advance_fn_rows in Ea. subst rows. clear E.
  split; [apply (model_rows_len V width S has_lens beams logp Hwf)|].
  intros r Hr. destruct (In_nth _ _ ([], []) Hr) as [n [Hn <-]].
  rewrite (model_rows_len V width S has_lens beams logp Hwf) in Hn.
  destruct (model_row_lengths V width S has_lens beams logp Hwf n Hn) as [H1 H2].
  split; [exact H1|]. split; [exact H2|]. split.
  - apply (model_row_sorted V width S has_lens beams logp Hwf n Hn).
  - apply (model_row_src V width S has_lens beams logp Hwf n Hn).
Qed.

(* `if log_probs_t.dim() != 3: raise RuntimeError`: any tensor arguments, log_probs_t not 3-dimensional *)
Theorem advance_lpt_not_3d : forall lpt w lpp y lens, List.length (vshape lpt) <> 3 ->
  Interp.run ext04 bsa_body (vars0 lpt w lpp y lens) = Interp.Exc runtime_error (mkState (vars0 lpt w lpp y lens) []).
Proof. exact run_lpt_not_3d. Qed.

(* non-vacuity: two batch elements, beams of 2 prefixes of height 2 with ragged lengths (the tensor must grow),
   vocabulary 2, width 3 (pruning: 3 of 4 candidates), one -inf prefix *)
Definition ex_beams : list (list slot) :=
  [[mkSlot [1; 0]%Z 2 (Some (-64)%Z); mkSlot [0; 1]%Z 1 (Some (-128)%Z)];
   [mkSlot [0; 0]%Z 0 None; mkSlot [1; 1]%Z 2 (Some 0%Z)]].
Definition ex_logp : list (list (list score)) :=
  [[[Some (-3)%Z; Some (-1)%Z]; [Some (-2)%Z; None]]; [[Some (-5)%Z; Some (-6)%Z]; [Some (-7)%Z; Some (-4)%Z]]].

Lemma ex_wf : wf_adv 2 2 true ex_beams ex_logp.
Proof. unfold wf_adv. cbn. repeat split; try lia; repeat constructor; cbn; lia. Qed.

Lemma ex_nonvacuous_src :
  wf_adv 2 2 true ex_beams ex_logp /\
  src_advance 2 3 2 true ex_beams ex_logp = Some (advance_fn topk_stable 2 3 2 true ex_beams ex_logp) /\
  option_map (map (fun r => map canon_adv (combine (fst r) (snd r)))) (advance_fn topk_stable 2 3 2 true ex_beams ex_logp)
  = Some [[Some ([1; 0; 1]%Z, 3, (-65)%Z, 0); Some ([1; 0; 0]%Z, 3, (-67)%Z, 0); Some ([0; 0]%Z, 2, (-130)%Z, 1)];
          [Some ([1; 1; 1]%Z, 3, (-4)%Z, 1); Some ([1; 1; 0]%Z, 3, (-7)%Z, 1); None]].
Proof. split; [exact ex_wf|]. split; vm_compute; reflexivity. Qed.
