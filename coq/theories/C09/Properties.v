(* C09 — Variable-length padding and chunking equal per-sequence pad-and-slice.
   Property theorems only: each is closed by [exact <lemma>] and followed by [Print Assumptions].
   The harness re-checks this file on every run.

   Vocabulary (definitions in Model.v / Spec.v / the proof files):
     pad1 md v l r s        the standard constant / reflect / replicate rule on ONE sequence s  (Spec)
     chunk1 md v s st en    slice [st, en) of s after padding it as far as the slice reaches     (Spec)
     compact1 v s m         cells of s selected by m, in order, then v; and their count          (Spec)
     legalb md l r len      pads legal for the mode: reflect l, r < len; replicate len >= 1      (Spec)
     inputs_ok / chunk_inputs_ok   non-empty batch, every row has T cells, lens <= T, every row legal
     mselect / mscatter / scatter2 / select2   flat masked_select / masked_scatter               (Model)
     place m dst src        what masked_scatter writes into one row (total version)              (Proofs) *)
From Coq Require Import List Arith Bool ZArith QArith Lia.
From PV Require Import C09.Model C09.Spec C09.Proofs C09.Buffers C09.ProofsPad C09.ChunkRow
     C09.ProofsChunk C09.ProofsTop.
Import ListNotations.
Local Close Scope Q_scope.
Local Open Scope nat_scope.

(* ---- the central lemma (DESIGN 2.1): if, in every row, the source holds exactly as many cells as
   the row's mask selects, ONE flat masked_scatter of the concatenated buffers over the whole batch
   neither raises nor lets a row read its neighbour's cells: it is the row-wise placement *)
Theorem c09_scatter_rows : forall (A R : Type) (rows : list R) (W : nat)
    (mk : R -> list bool) (dst buf : R -> list A),
  (forall r, In r rows -> length (mk r) = W /\ length (dst r) = W /\ count_true (mk r) = length (buf r)) ->
  scatter2 (length rows) W (map mk rows) (map dst rows) (concat (map buf rows))
  = Ok (map (fun r => place (mk r) (dst r) (buf r)) rows).
Proof. exact (@scatter2_rows). Qed.
Print Assumptions c09_scatter_rows.

(* ... and one flat masked_select over the batch is the concatenation of the row-wise selections *)
Theorem c09_select_rows : forall (A R : Type) (rows : list R) (mk : R -> list bool) (c : R -> list A),
  (forall r, In r rows -> length (mk r) = length (c r)) ->
  select2 (map mk rows) (map c rows) = concat (map (fun r => mselect (mk r) (c r)) rows).
Proof. exact (@mselect_rows). Qed.
Print Assumptions c09_select_rows.

(* ---- _get_padding_buffers: the two flat buffers are, row after row, the left and right parts of the
   standard reflect / replicate rule applied to that row's sequence alone *)
Theorem c09_padding_buffers_correct : forall (A R : Type) (cellsf : R -> list A) (lenf plf prf : R -> nat)
    (T : nat) (d v : A) (md : mode) (rows : list R),
  rows <> [] -> rows_ok cellsf lenf plf prf T md rows -> md = Reflect \/ md = Replicate ->
  get_padding_buffers cellsf lenf plf prf T d md rows
  = Ok (concat (map (fun r => lpart md v (plf r) (seqf cellsf lenf r)) rows),
        concat (map (fun r => rpart md v (prf r) (seqf cellsf lenf r)) rows)).
Proof. exact (@padding_buffers_correct). Qed.
Print Assumptions c09_padding_buffers_correct.

(* ---- "each output row's valid part equals what is obtained by taking that sequence alone, padding it
   with the standard constant, reflect or replicate rule" - pad_variable; moreover the rest of the row
   is the fill value and T' is the longest padded length *)
Theorem c09_pad_variable_correct : forall (A : Type) (T : nat) (d fill : A) (md : mode)
    (x : list (list A)) (lens pl pr : list nat),
  inputs_ok T md x lens pl pr ->
  exists Tp out,
    pad_variable T d fill md x lens pl pr = Ok out /\ length out = length x /\
    (forall n, n < length x ->
       let new := nth n lens 0 + (nth n pl 0 + nth n pr 0) in
       new <= Tp /\
       nth n out [] = pad1 md fill (nth n pl 0) (nth n pr 0) (firstn (nth n lens 0) (nth n x []))
                        ++ repeat fill (Tp - new)) /\
    (exists n, n < length x /\ nth n lens 0 + (nth n pl 0 + nth n pr 0) = Tp).
Proof. exact (@pad_variable_correct). Qed.
Print Assumptions c09_pad_variable_correct.

(* legality guards, error branch: a reflect pad >= length is NotImplementedError, a replicate row of
   length 0 is RuntimeError (constant has no illegal amount) *)
Theorem c09_pad_variable_illegal_raises : forall (A : Type) (T : nat) (d fill : A) (md : mode)
    (x : list (list A)) (lens pl pr : list nat) (n : nat),
  length lens = length x -> length pl = length x -> length pr = length x ->
  n < length x -> legalb md (nth n pl 0) (nth n pr 0) (nth n lens 0) = false ->
  (md = Reflect -> pad_variable T d fill md x lens pl pr = ErrNotImpl) /\
  (md = Replicate -> pad_variable T d fill md x lens pl pr = ErrRuntime) /\
  md <> Constant.
Proof. exact (@pad_variable_illegal). Qed.
Print Assumptions c09_pad_variable_illegal_raises.

Theorem c09_pad_variable_bad_shape : forall (A : Type) (T : nat) (d fill : A) (md : mode)
    (x : list (list A)) (lens pl pr : list nat),
  length lens <> length x \/ length pl <> length x \/ length pr <> length x ->
  pad_variable T d fill md x lens pl pr = ErrValue.
Proof. exact (@pad_variable_bad_shape). Qed.
Print Assumptions c09_pad_variable_bad_shape.

(* ---- "... and slicing it, and the reported output lengths are exactly the requested ones (empty
   slices giving length zero)" - chunk_by_slices, for negative starts, ends beyond the length, slices
   lying wholly in the left or right padding (the reflect special case), empty and inverted slices;
   T = 0 included (see c09_chunk_T0_example for the input that used to report length 0). *)
Theorem c09_chunk_by_slices_correct : forall (A : Type) (T : nat) (d fill : A) (md : mode)
    (x : list (list A)) (slices : list (Z * Z)) (lens : option (list nat)),
  chunk_inputs_ok T md x slices lens ->
  exists Tp out olens,
    chunk_by_slices T d fill md x slices lens = Ok (out, olens) /\
    length out = length x /\ length olens = length x /\
    forall n, n < length x ->
      let r := crow_at T x slices lens n in
      nth n olens 0 = chunk_len1 (c_start r) (c_end r) /\
      firstn (nth n olens 0) (nth n out [])
      = chunk1 md fill (firstn (c_len r) (c_cells r)) (c_start r) (c_end r) /\
      length (nth n out []) = Tp /\ nth n olens 0 <= Tp.
Proof. exact (@chunk_by_slices_correct). Qed.
Print Assumptions c09_chunk_by_slices_correct.

Theorem c09_chunk_lens_exact : forall (A : Type) (T : nat) (d fill : A) (md : mode)
    (x : list (list A)) (slices : list (Z * Z)) (lens : option (list nat)) out olens,
  chunk_inputs_ok T md x slices lens ->
  chunk_by_slices T d fill md x slices lens = Ok (out, olens) ->
  forall n, n < length x ->
    let st := fst (nth n slices (0, 0)%Z) in
    let en := snd (nth n slices (0, 0)%Z) in
    Z.of_nat (nth n olens 0) = Z.max (en - st) 0 /\ ((en <= st)%Z -> nth n olens 0 = 0).
Proof. exact (@chunk_lens_exact). Qed.
Print Assumptions c09_chunk_lens_exact.

Theorem c09_chunk_by_slices_illegal_raises : forall (A : Type) (T : nat) (d fill : A) (md : mode)
    (x : list (list A)) (slices : list (Z * Z)) (lens : option (list nat)) (n : nat),
  match lens with Some l => length l = length x | None => True end ->
  n < length x ->
  (let r := crow_at T x slices lens n in
   legalb md (chunk_l (c_start r) (c_end r)) (chunk_r (c_len r) (c_start r) (c_end r)) (c_len r) = false) ->
  (md = Reflect -> chunk_by_slices T d fill md x slices lens = ErrNotImpl) /\
  (md = Replicate -> chunk_by_slices T d fill md x slices lens = ErrRuntime) /\
  md <> Constant.
Proof. exact (@chunk_by_slices_illegal). Qed.
Print Assumptions c09_chunk_by_slices_illegal_raises.

(* ---- "Compacting by a boolean mask yields, per row, the selected elements in order followed by the
   padding value, with the count as length" - both layouts; for batch_first = false the statement is
   about the transposed views (bf_view), and transpose_cell relates cells *)
Theorem c09_pad_masked_sequence_correct : forall (A : Type) (N T : nat) (d fill : A) (bf : bool)
    (x : list (list A)) (mask : list (list bool)),
  let xv := bf_view N d bf x in
  let mv := bf_view N false bf mask in
  length xv = N -> length mv = N ->
  (forall n, n < N -> length (nth n xv []) = T /\ length (nth n mv []) = T) ->
  exists o lens,
    pad_masked_sequence N T d fill bf x mask = Ok (if bf then o else transpose T d o, lens) /\
    length o = N /\ length lens = N /\
    forall n, n < N -> (nth n o [], nth n lens 0) = compact1 fill (nth n xv []) (nth n mv []).
Proof. exact (@pad_masked_sequence_correct). Qed.
Print Assumptions c09_pad_masked_sequence_correct.

Theorem c09_transpose_cell : forall (A : Type) (T : nat) (d : A) (o : list (list A)) (t n : nat),
  t < T -> n < length o -> nth n (nth t (transpose T d o) []) d = nth t (nth n o []) d.
Proof. exact (@transpose_cell). Qed.
Print Assumptions c09_transpose_cell.

(* ---- "The random-shift layer adds on each side a non-negative whole number of elements not
   exceeding the configured proportion of the sequence length, embeds the original sequence
   unchanged in between" - for ANY uniform variates in [0,1) (exact arithmetic; float rounding is
   not modelled), and it does not raise when the mode's requirement on lengths / proportions holds *)
Theorem c09_random_shift_bounds_and_embedding : forall (A : Type) (T : nat) (d fill : A) (md : mode)
    (p0 p1 : Q) (x : list (list A)) (lens : list nat) (u0 u1 : list Q),
  x <> [] -> length lens = length x -> length u0 = length x -> length u1 = length x ->
  (forall n, n < length x -> length (nth n x []) = T /\ nth n lens 0 <= T) ->
  (0 <= p0)%Q -> (0 <= p1)%Q -> unit_interval u0 -> unit_interval u1 ->
  shift_mode_ok md p0 p1 lens ->
  exists pl pr Tp out olens,
    random_shift T d fill md p0 p1 true x lens u0 u1 = Ok (out, olens) /\
    length out = length x /\ length olens = length x /\
    forall n, n < length x ->
      let len := nth n lens 0 in
      let l := nth n pl 0 in
      let r := nth n pr 0 in
      (qlen l <= p0 * qlen len)%Q /\ (qlen r <= p1 * qlen len)%Q /\
      nth n olens 0 = len + (l + r) /\
      firstn len (skipn l (nth n out [])) = firstn len (nth n x []) /\
      nth n out [] = pad1 md fill l r (firstn len (nth n x [])) ++ repeat fill (Tp - (len + (l + r))).
Proof. exact (@random_shift_bounds_and_embedding). Qed.
Print Assumptions c09_random_shift_bounds_and_embedding.

(* with a proportion <= 1 the drawn amount stays strictly below the length: reflect never raises *)
Theorem c09_shift_amount_lt : forall (p : Q) (len : nat) (u : Q),
  (0 <= p)%Q -> (p <= 1)%Q -> (0 <= u)%Q -> (u < 1)%Q -> 1 <= len -> shift_amount p len u < len.
Proof. exact shift_amount_lt. Qed.
Print Assumptions c09_shift_amount_lt.

(* "... and is the identity in evaluation mode" *)
Theorem c09_random_shift_eval_identity : forall (A : Type) (T : nat) (d fill : A) (md : mode)
    (p0 p1 : Q) (x : list (list A)) (lens : list nat) (u0 u1 : list Q),
  length lens = length x ->
  random_shift T d fill md p0 p1 false x lens u0 u1 = Ok (x, lens).
Proof. exact (@random_shift_eval_identity). Qed.
Print Assumptions c09_random_shift_eval_identity.

(* ---- non-vacuity: concrete ragged batches meet the hypotheses ---- *)
Example c09_pad_nonvacuous :
  inputs_ok 3 Reflect [[1; 2; 3]; [4; 5; 6]] [3; 2] [2; 0] [1; 1] /\
  pad_variable 3 0 9 Reflect [[1; 2; 3]; [4; 5; 6]] [3; 2] [2; 0] [1; 1]
  = Ok [[3; 2; 1; 2; 3; 2]; [4; 5; 4; 9; 9; 9]].
Proof.
  split; [|vm_compute; reflexivity]. unfold inputs_ok. repeat (split; [first [discriminate | reflexivity]|]).
  intros [|[|n]] H; [vm_compute; auto with arith ..|]. exfalso. cbn [length] in H. lia.
Qed.

(* reflect; row 0: a slice lying wholly in the right padding (the special case), row 1: negative start *)
Example c09_chunk_nonvacuous :
  chunk_inputs_ok 4 Reflect [[1; 2; 3; 4]; [5; 6; 7; 8]] [(5, 7)%Z; (-2, 3)%Z] (Some [4; 3]) /\
  exists out,
    chunk_by_slices 4 0 9 Reflect [[1; 2; 3; 4]; [5; 6; 7; 8]] [(5, 7)%Z; (-2, 3)%Z] (Some [4; 3])
    = Ok (out, [2; 5]) /\
    firstn 2 (nth 0 out []) = [2; 1] /\ firstn 5 (nth 1 out []) = [7; 6; 5; 6; 7].
Proof.
  split.
  - unfold chunk_inputs_ok. repeat (split; [first [discriminate | reflexivity]|]).
    intros [|[|n]] H; [vm_compute; auto with arith ..|]. exfalso. cbn [length] in H. lia.
  - eexists. split; [vm_compute; reflexivity|]. split; reflexivity.
Qed.

(* regression (fix fbf5037): an empty time dimension no longer forces every reported length to 0 *)
Example c09_chunk_T0_example :
  chunk_inputs_ok 0 Constant ([[]; []] : list (list nat)) [(0, 3)%Z; (2, 1)%Z] (Some [0; 0]) /\
  chunk_by_slices 0 0 7 Constant [[]; []] [(0, 3)%Z; (2, 1)%Z] (Some [0; 0]) = Ok ([[7; 7; 7]; [7; 7; 7]], [3; 0]).
Proof.
  split; [|vm_compute; reflexivity]. unfold chunk_inputs_ok. repeat (split; [first [discriminate | reflexivity]|]).
  intros [|[|n]] H; [vm_compute; auto with arith ..|]. exfalso. cbn [length] in H. lia.
Qed.

Example c09_shift_nonvacuous :
  shift_mode_ok Reflect (1 # 2) 1 [4; 2] /\ unit_interval [3 # 4; 1 # 2]%Q /\
  random_shift 4 0 9 Reflect (1 # 2) 1 true [[1; 2; 3; 4]; [5; 6; 7; 8]] [4; 2] [3 # 4; 1 # 2]%Q [1 # 2; 3 # 4]%Q
  = Ok ([[2; 1; 2; 3; 4; 3; 2]; [5; 6; 5; 9; 9; 9; 9]], [7; 3]).
Proof.
  split; [|split; [|vm_compute; reflexivity]].
  - cbn [shift_mode_ok]. split; [|split; discriminate].
    intros [|[|n]] H; [vm_compute; auto with arith ..|]. exfalso. cbn [length] in H. lia.
  - intros [|[|n]] H; [split; [discriminate|reflexivity] ..|]. exfalso. cbn [length] in H. lia.
Qed.

(* ================================================================================================== *)
(* SOURCE TIE (TENSOR code): the Python text of `_get_padding_buffers` and `pad_variable`                *)
(* (src/pydrobert/torch/_pad.py), translated by harness/py2coq to the MiniPy terms                       *)
(* PV.Gen.C09Src.gpb_body / pad_variable_body (regenerated from the working tree on every run) and       *)
(* interpreted by PV.MiniPy.Interp with every torch call given the meaning defined in                    *)
(* PV.MiniTorch.OpsC09 (SrcRun.ext09g; SrcRun.ext09 adds the call of _get_padding_buffers, which          *)
(* interprets the other body), computes the model's functions - for ALL inputs:                          *)
(*   x = N rows of T cells of F >= 1 payload values (arbitrary MiniPy values: the code only moves them), *)
(*   lens <= T, any pad amounts, every mode, any fill value.                                             *)
(* Trusted: translator, Interp, OpsC09, ext09, the encodings of SrcRun.v (eager semantics; TorchScript,  *)
(* dtypes, devices, strides are not modelled) - exercised against torch on the cases of every run        *)
(* (source_tie in harness/props/c09.py, SrcRun.src_pad_variable_check).  notes/C09_tie_report.md.        *)
(* ================================================================================================== *)
From PV Require MiniPy.Syntax MiniPy.Interp MiniTorch.OpsC09 Gen.C09Src C09.SrcRun C09.TieModel C09.Tie.

(* _get_padding_buffers, every mode: the interpreted source returns the pair of payload tensors whose data are the
   model's two flat buffers of cells, concatenated (1-dimensional tensors; in constant mode x itself, twice), and
   raises NotImplementedError / RuntimeError / ValueError exactly where the model reports them (reflect pad >= len,
   replicate len < 1, empty batch, unknown mode) *)
Theorem c09_source_padding_buffers_is_model : forall (T F : nat) (md : mode) (x : list (list (list Syntax.val)))
    (lens pl pr : list nat) (d : list Syntax.val),
  Tie.wf_x T F x -> (forall n, n < length x -> nth n lens 0 <= T) ->
  length lens = length x -> length pl = length x -> length pr = length x ->
  exists st,
    Interp.run SrcRun.ext09g C09Src.gpb_body
      (SrcRun.gpb_vars (OpsC09.enc_p (SrcRun.x_tensor T F x)) (OpsC09.enc_i (SrcRun.vec_tensor lens))
         (OpsC09.enc_i (SrcRun.vec_tensor pl)) (OpsC09.enc_i (SrcRun.vec_tensor pr)) (SrcRun.mode_val md))
    = match get_padding_buffers p_cells p_len p_l p_r T d md (zip_prows x lens pl pr) with
      | Ok bufs => Interp.Ok (Tie.gpb_value md (length x) T F bufs) st
      | e => Interp.Exc (Tie.exc_of e) st
      end.
Proof. exact Tie.padding_buffers_tie. Qed.
Print Assumptions c09_source_padding_buffers_is_model.

(* pad_variable, every mode, the shape checks included (lens / pad of the wrong length: ValueError): the interpreted
   source returns the (N, T', F) tensor of the model's rows - every cell, also after the valid part - and raises
   exactly where the model reports an error (masked_scatter with too short a source included) *)
Theorem c09_source_pad_variable_is_model : forall (T F : nat) (value : Syntax.val) (md : mode)
    (x : list (list (list Syntax.val))) (lens pl pr : list nat) (d : list Syntax.val),
  0 < F -> Tie.wf_x T F x -> (forall n, n < length x -> nth n lens 0 <= T) -> length pr = length pl ->
  exists st,
    Interp.run SrcRun.ext09 C09Src.pad_variable_body
      (SrcRun.pv_vars (OpsC09.enc_p (SrcRun.x_tensor T F x)) (OpsC09.enc_i (SrcRun.vec_tensor lens))
         (OpsC09.enc_i (SrcRun.pad_tensor pl pr)) (SrcRun.mode_val md) value)
    = match pad_variable T d (repeat value F) md x lens pl pr with
      | Ok out => Interp.Ok (OpsC09.enc_p (SrcRun.rows_tensor (Tie.pad_width x lens pl pr) F out)) st
      | e => Interp.Exc (Tie.exc_of e) st
      end.
Proof. exact Tie.pad_variable_tie. Qed.
Print Assumptions c09_source_pad_variable_is_model.

(* composed with c09_pad_variable_correct - a statement purely about the interpreted source: on a legal non-empty
   batch it returns an (N, T', F) tensor whose row n is
       left padding ++ x[n, :lens[n]] ++ right padding ++ fill value up to T'
   where the paddings are those of the standard constant / reflect / replicate rule applied to that sequence alone
   (Buffers.lpart / rpart: the two sides of Spec.pad1) *)
Theorem c09_source_pad_variable_rows : forall (T F : nat) (value : Syntax.val) (md : mode)
    (x : list (list (list Syntax.val))) (lens pl pr : list nat),
  0 < F -> Tie.wf_x T F x -> inputs_ok T md x lens pl pr ->
  exists Tp out st,
    Interp.run SrcRun.ext09 C09Src.pad_variable_body
      (SrcRun.pv_vars (OpsC09.enc_p (SrcRun.x_tensor T F x)) (OpsC09.enc_i (SrcRun.vec_tensor lens))
         (OpsC09.enc_i (SrcRun.pad_tensor pl pr)) (SrcRun.mode_val md) value)
    = Interp.Ok (OpsC09.enc_p (SrcRun.rows_tensor Tp F out)) st
    /\ length out = length x
    /\ forall n, n < length x ->
         let s := firstn (nth n lens 0) (nth n x []) in
         let fill := repeat value F in
         let new := nth n lens 0 + (nth n pl 0 + nth n pr 0) in
         new <= Tp /\
         nth n out [] = lpart md fill (nth n pl 0) s ++ s ++ rpart md fill (nth n pr 0) s ++ repeat fill (Tp - new).
Proof. exact Tie.source_pad_variable_rows. Qed.
Print Assumptions c09_source_pad_variable_rows.

(* the executable form the harness evaluates on the pad_variable cases of every run: reading back what the interpreted
   source returns gives the model's result (rows of cells / the kind of error) ... *)
Theorem c09_source_pad_variable_refines_model : forall (T F : nat) (value : Syntax.val) (md : mode)
    (x : list (list (list Syntax.val))) (lens pl pr : list nat) (d : list Syntax.val),
  0 < F -> Tie.wf_x T F x -> (forall n, n < length x -> nth n lens 0 <= T) -> length pr = length pl ->
  SrcRun.src_pad_variable T F value md x lens pl pr = Some (pad_variable T d (repeat value F) md x lens pl pr).
Proof. exact Tie.src_pad_variable_tie. Qed.
Print Assumptions c09_source_pad_variable_refines_model.

(* ... so the check on the interpreted source is the model-side comparison, with the model taken on the payload values
   (integer z = the MiniPy value VInt z); that this equals Model.check_pad on the Z carrier is NOT proved (it would need
   the model's naturality in the cell type) *)
Theorem c09_source_pad_check_is_check : forall (T F : nat) (v : Z) (md : mode) (x : list (list zcell))
    (lens pl pr : list nat) (code : nat) (impl : option (list (list zcell))),
  0 < F -> Tie.wf_x T F (SrcRun.zcells x) -> (forall n, n < length x -> nth n lens 0 <= T) -> length pr = length pl ->
  SrcRun.src_pad_variable_check T F v md x lens pl pr code impl
  = res_eqb SrcRun.vtensor_eqb (pad_variable T [] (repeat (Syntax.VInt v) F) md (SrcRun.zcells x) lens pl pr) code
      (option_map SrcRun.zcells impl).
Proof. exact Tie.src_pad_variable_check_is_check. Qed.
Print Assumptions c09_source_pad_check_is_check.

(* non-vacuity: the interpreted source on the batch of c09_pad_nonvacuous (F = 1), one replicate and one failing call *)
Example c09_source_pad_nonvacuous :
  Tie.wf_x 3 1 (SrcRun.zcells [[[1]; [2]; [3]]; [[4]; [5]; [6]]]%Z) /\
  SrcRun.src_pad_variable_check 3 1 9 Reflect [[[1]; [2]; [3]]; [[4]; [5]; [6]]]%Z [3; 2] [2; 0] [1; 1] 0
    (Some [[[3]; [2]; [1]; [2]; [3]; [2]]; [[4]; [5]; [4]; [9]; [9]; [9]]]%Z) = true /\
  SrcRun.src_pad_variable_check 3 1 9 Replicate [[[1]; [2]; [3]]; [[4]; [5]; [6]]]%Z [3; 2] [2; 0] [1; 4] 0
    (Some [[[1]; [1]; [1]; [2]; [3]; [3]]; [[4]; [5]; [5]; [5]; [5]; [5]]]%Z) = true /\
  SrcRun.src_pad_variable_check 3 1 9 Reflect [[[1]; [2]; [3]]; [[4]; [5]; [6]]]%Z [3; 2] [2; 0] [1; 4] 3 None = true.
Proof.
  split; [|vm_compute; auto]. repeat constructor.
Qed.

(* ================================================================================================== *)
(* SECOND SOURCE TIE (TENSOR code): the Python text of `pad_masked_sequence` (src/pydrobert/torch/_pad.py), *)
(* translated by harness/py2coq to the MiniPy term PV.Gen.C09BSrc.masked_body (regenerated from the working  *)
(* tree on every run) and interpreted by PV.MiniPy.Interp with every torch call given the meaning defined in *)
(* PV.MiniTorch.OpsC09 / OpsC09B (SrcRunB.ext09b), computes Model.pad_masked_sequence - for ALL inputs:       *)
(*   x = rows of cells of F >= 1 payload values (arbitrary MiniPy values: the code only moves them), any     *)
(*   boolean mask of matching shape, either setting of batch_first, any fill value.                          *)
(* `chunk_by_slices` (C09BSrc.chunk_body) is translated whole and EXECUTED against torch on the cases of     *)
(* every run (SrcRunB.src_chunk_check) but its tie lemma is NOT proved (notes/C09_tie_report.md, "Second tie"). *)
(* Trusted: translator, Interp (its ENeg clause now asks ext "$neg" for a non-number), OpsC09, OpsC09B,      *)
(* ext09b, the encodings of SrcRunB.v (eager semantics; TorchScript, dtypes, devices, strides not modelled) - *)
(* exercised against torch on every run (source_tieB in harness/props/c09_tie.py).                           *)
(* ================================================================================================== *)
From PV Require MiniTorch.OpsC09B Gen.C09BSrc C09.SrcRunB C09.TieBModel C09.TieB.

(* batch_first = True: x is N rows of T cells, mask N rows of T booleans.  The interpreted source returns the pair
   (the (N, T, F) tensor of the model's rows - every cell -, the integer vector of the model's counts); it raises
   RuntimeError exactly if the model's one flat masked_scatter would (it never does: c09_source_masked_rows_bf) *)
Theorem c09_source_masked_is_model_bf : forall (N T F : nat) (value : Syntax.val)
    (x : list (list (list Syntax.val))) (mask : list (list bool)) (d : list Syntax.val),
  0 < F -> Tie.wf_x T F x -> TieB.wf_mask T mask -> length mask = length x ->
  exists st,
    Interp.run SrcRunB.ext09b C09BSrc.masked_body
      (SrcRunB.masked_vars (OpsC09.enc_p (SrcRun.x_tensor T F x)) (OpsC09.enc_b (SrcRunB.mask_tensor T mask)) true value)
    = match pad_masked_sequence N T d (repeat value F) true x mask with
      | Ok (out, lens) =>
          Interp.Ok (Syntax.VTuple [OpsC09.enc_p (SrcRun.rows_tensor T F out); OpsC09.enc_i (SrcRun.vec_tensor lens)]) st
      | e => Interp.Exc (Tie.exc_of e) st
      end.
Proof. exact TieB.masked_tie_bf_explicit. Qed.
Print Assumptions c09_source_masked_is_model_bf.

(* batch_first = False: x is T rows of N cells (the (T, N, F) tensor), mask T rows of N booleans; the source transposes
   both, compacts, and transposes the result back - exactly the model's three steps *)
Theorem c09_source_masked_is_model_nbf : forall (N T F : nat) (value : Syntax.val)
    (x : list (list (list Syntax.val))) (mask : list (list bool)) (d : list Syntax.val),
  0 < F -> Tie.wf_x N F x -> TieB.wf_mask N mask -> length x = T -> length mask = T ->
  exists st,
    Interp.run SrcRunB.ext09b C09BSrc.masked_body
      (SrcRunB.masked_vars (OpsC09.enc_p (SrcRun.x_tensor N F x)) (OpsC09.enc_b (SrcRunB.mask_tensor N mask)) false value)
    = match pad_masked_sequence N T d (repeat value F) false x mask with
      | Ok (out, lens) =>
          Interp.Ok (Syntax.VTuple [OpsC09.enc_p (SrcRun.rows_tensor N F out); OpsC09.enc_i (SrcRun.vec_tensor lens)]) st
      | e => Interp.Exc (Tie.exc_of e) st
      end.
Proof. exact TieB.masked_tie_nbf_explicit. Qed.
Print Assumptions c09_source_masked_is_model_nbf.

(* composed with c09_pad_masked_sequence_correct - statements purely about the interpreted source: it never raises and
   row n of the returned tensor is the cells of x[n] that mask[n] selects, in order, followed by the fill cell up to T;
   the second component is the vector of the counts (Spec.compact1) *)
Theorem c09_source_masked_rows_bf : forall (T F : nat) (value : Syntax.val)
    (x : list (list (list Syntax.val))) (mask : list (list bool)),
  0 < F -> Tie.wf_x T F x -> TieB.wf_mask T mask -> length mask = length x ->
  exists out lens st,
    Interp.run SrcRunB.ext09b C09BSrc.masked_body
      (SrcRunB.masked_vars (OpsC09.enc_p (SrcRun.x_tensor T F x)) (OpsC09.enc_b (SrcRunB.mask_tensor T mask)) true value)
    = Interp.Ok (Syntax.VTuple [OpsC09.enc_p (SrcRun.rows_tensor T F out); OpsC09.enc_i (SrcRun.vec_tensor lens)]) st
    /\ length out = length x /\ length lens = length x
    /\ forall n, n < length x ->
         (nth n out [], nth n lens 0) = compact1 (repeat value F) (nth n x []) (nth n mask []).
Proof. exact TieB.source_masked_rows_bf. Qed.
Print Assumptions c09_source_masked_rows_bf.

(* the same for batch_first = False: the returned (T, N, F) tensor is the transpose of the (N, T) view o whose row n is
   the compaction of column n of x by column n of mask *)
Theorem c09_source_masked_rows_nbf : forall (N T F : nat) (value : Syntax.val)
    (x : list (list (list Syntax.val))) (mask : list (list bool)),
  0 < F -> Tie.wf_x N F x -> TieB.wf_mask N mask -> length x = T -> length mask = T ->
  exists o lens st,
    Interp.run SrcRunB.ext09b C09BSrc.masked_body
      (SrcRunB.masked_vars (OpsC09.enc_p (SrcRun.x_tensor N F x)) (OpsC09.enc_b (SrcRunB.mask_tensor N mask)) false value)
    = Interp.Ok (Syntax.VTuple [OpsC09.enc_p (SrcRun.rows_tensor N F (transpose T [] o)); OpsC09.enc_i (SrcRun.vec_tensor lens)]) st
    /\ length o = N /\ length lens = N
    /\ forall n, n < N ->
         (nth n o [], nth n lens 0)
         = compact1 (repeat value F) (nth n (transpose N [] x) []) (nth n (transpose N false mask) []).
Proof. exact TieB.source_masked_rows_nbf. Qed.
Print Assumptions c09_source_masked_rows_nbf.

(* the executable form the harness evaluates on the masked cases of every run (batch-first layout): reading back what the
   interpreted source returns gives the model's result *)
Theorem c09_source_masked_refines_model : forall (N T F : nat) (value : Syntax.val)
    (x : list (list (list Syntax.val))) (mask : list (list bool)) (d : list Syntax.val),
  0 < F -> Tie.wf_x T F x -> TieB.wf_mask T mask -> length mask = length x ->
  SrcRunB.src_masked T F value true x mask
  = Some (match pad_masked_sequence N T d (repeat value F) true x mask with
          | Ok (out, lens) => Ok (out, map Z.of_nat lens)
          | ErrValue => ErrValue | ErrRuntime => ErrRuntime | ErrNotImpl => ErrNotImpl
          end).
Proof. exact TieB.src_masked_tie_bf. Qed.
Print Assumptions c09_source_masked_refines_model.

(* non-vacuity: the interpreted sources on concrete batches (F = 1): pad_masked_sequence in both layouts, and
   chunk_by_slices (executed only, see above) on the reflect batch of c09_chunk_nonvacuous and on an empty batch *)
Example c09_source_b_nonvacuous :
  Tie.wf_x 3 1 (SrcRun.zcells [[[1]; [2]; [3]]; [[4]; [5]; [6]]]%Z) /\ TieB.wf_mask 3 [[true; false; true]; [false; false; true]] /\
  SrcRunB.src_masked_check 2 3 1 9 true [[[1]; [2]; [3]]; [[4]; [5]; [6]]]%Z [[true; false; true]; [false; false; true]] 0
    (Some ([[[1]; [3]; [9]]; [[6]; [9]; [9]]]%Z, [2; 1])) = true /\
  SrcRunB.src_masked_check 2 3 1 9 false [[[1]; [4]]; [[2]; [5]]; [[3]; [6]]]%Z [[true; false]; [false; false]; [true; true]] 0
    (Some ([[[1]; [6]]; [[3]; [9]]; [[9]; [9]]]%Z, [2; 1])) = true /\
  SrcRunB.src_chunk_check 4 1 9 Reflect [[[1]; [2]; [3]; [4]]; [[5]; [6]; [7]; [8]]]%Z [(5, 7)%Z; (-2, 3)%Z] (Some [4; 3]) 0
    (Some ([[[2]; [1]; [1]; [9]; [9]]; [[7]; [6]; [5]; [6]; [7]]]%Z, [2; 5])) = true /\
  SrcRunB.src_chunk_check 4 1 9 Replicate [] [] None 0 (Some ([], [])) = true.
Proof.
  split; [repeat constructor|]. split; [repeat constructor|]. vm_compute. auto.
Qed.

(* chunk_by_slices (C09BSrc.chunk_body, translated whole): its two EARLY EXITS, for all inputs, as the model has them.
   The main path (padding buffers, masks, the masked scatters, the reflect special case) is executed against torch on
   every run but is NOT proved. *)
(* the empty batch: the (0, T, F) tensor and the empty length vector, whatever slices, lens, mode and value are *)
Theorem c09_source_chunk_empty_batch : forall (T F : nat) (value : Syntax.val) (md : mode) (slices : list (Z * Z))
    (lens : option (list nat)) (d fill : list Syntax.val),
  exists st,
    Interp.run SrcRunB.ext09b C09BSrc.chunk_body
      (SrcRunB.chunk_vars (OpsC09.enc_p (SrcRun.x_tensor T F [])) (OpsC09.enc_i (SrcRunB.slices_tensor slices))
         (SrcRunB.lens_val lens) (SrcRun.mode_val md) value)
    = Interp.Ok (Syntax.VTuple [OpsC09.enc_p (SrcRun.rows_tensor T F []); OpsC09.enc_i (SrcRun.vec_tensor [])]) st
    /\ chunk_by_slices T d fill md [] slices lens = Ok ([], []).
Proof. exact TieB.chunk_tie_empty. Qed.
Print Assumptions c09_source_chunk_empty_batch.

(* a non-empty batch with a lens vector whose length is not N: RuntimeError, where the model reports ErrRuntime *)
Theorem c09_source_chunk_bad_lens_raises : forall (T F : nat) (value : Syntax.val) (md : mode)
    (x : list (list (list Syntax.val))) (slices : list (Z * Z)) (l : list nat) (d fill : list Syntax.val),
  Tie.wf_x T F x -> x <> [] -> length l <> length x ->
  exists st,
    Interp.run SrcRunB.ext09b C09BSrc.chunk_body
      (SrcRunB.chunk_vars (OpsC09.enc_p (SrcRun.x_tensor T F x)) (OpsC09.enc_i (SrcRunB.slices_tensor slices))
         (SrcRunB.lens_val (Some l)) (SrcRun.mode_val md) value)
    = Interp.Exc SrcRun.runtime_error st
    /\ chunk_by_slices T d fill md x slices (Some l) = ErrRuntime.
Proof. exact TieB.chunk_tie_bad_lens. Qed.
Print Assumptions c09_source_chunk_bad_lens_raises.
