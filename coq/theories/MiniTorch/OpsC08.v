(* MiniTorch, unit C08 - the meaning given to the torch operations that occur in the translated
   `spec_augment_draw_parameters` (src/pydrobert/torch/_img.py), and the encoding of its tensors as
   MiniPy values.  DEFINITIONS ONLY; the algebra is in LemmasC08.v.

   Tensors are (shape, row-major flat data) of at most TWO dimensions over three element types:
     Q     (torch.float32: the exact rational a float IS)        tagged "$tensor"
     Z     (torch.long; unbounded, no wrap-around)               tagged "$tensor.long"
     bool  (torch.bool)                                          tagged "$tensor.bool"
   inf / NaN, devices, strides are not modelled.  Every operation returns [None] outside the domain
   stated with it; the unit's [ext] turns [None] into [Stuck] (fail-closed).

   FLOATING POINT.  Unlike the other MiniTorch units this one does NOT treat float32 arithmetic as exact:
   the C08 model (PV.C08.Model, section Draw) is parametrised by an arithmetic [a : arith] whose [r32 a]
   is applied after every float32 operation ([exact]: identity; [ieee]: round to nearest even, 24 bits).
   The operations below take the same [a] and say the same thing:
     * the result of every float32 element operation x (+) y is [r32 a (x (+) y)];
     * a Python number s (int or float) that meets a float32 tensor is first converted to float32,
       [r32 a s] ("the scalar is converted to the dtype of the tensor"), also as a clamp bound;
     * long -> float32 conversions are [r32 a (z2q z)] in `.float()`, `torch.full(.., dtype=torch.float)`
       and in `long tensor + Python float`;  in `float tensor - long tensor` (the one place: the mask widths
       t in `lengths.unsqueeze(1) - t`) the integer operand is taken as exactly representable, as
       Model.tm_t0 does (true for |t| <= 2^24);
     * floor, clamp (min / max), `.long()` (truncation towards zero), comparisons are exact;
     * `torch.arange(n, dtype=float32)` holds the integers 0..n-1 exactly (n <= 2^24).
   Python-level float arithmetic (`1 - eps`, `F / 2 - eps`, `max_ + omeps` on two Python numbers) never
   reaches this file: MiniPy computes it exactly over Q (DESIGN.md section 3), i.e. the tie is with the
   model instance whose [r64] is the identity.
   No overflow, no subnormals (as in Model.ieee).

   Each definition quotes the sentence of the torch documentation (2.x) it models.  This file is
   TRUSTED by the C08 tie; it is exercised on every run by the harness-side [src_draw_check] with
   [a = ieee], bit for bit against torch on the run's draw cases. *)
From Coq Require Import List ZArith QArith Qround Bool Arith String.
From PV Require Import MiniPy.Syntax MiniTorch.Ops.
From PV Require C08.Model.
Import ListNotations.
Local Open Scope nat_scope.

Record tn (X : Type) := mkTn { shp : list nat; dat : list X }.
Arguments mkTn {X}. Arguments shp {X}. Arguments dat {X}.

(* number of elements *)
Definition numel (sh : list nat) : nat := fold_right Nat.mul 1 sh.

(* the n x m table (f i j), row-major, and row-major access with [m] columns *)
Definition tabl {X} (n m : nat) (f : nat -> nat -> X) : list X :=
  flat_map (fun i => map (f i) (seq 0 m)) (seq 0 n).
Definition get2 {X} (d : X) (m : nat) (l : list X) (i j : nat) : X := nth (i * m + j) l d.

(* canonical forms: the vector (f 0 .. f (n-1)) and the n x m matrix (f i j) *)
Definition T1 {X} (n : nat) (f : nat -> X) : tn X := mkTn [n] (map f (seq 0 n)).
Definition T2 {X} (n m : nat) (f : nat -> nat -> X) : tn X := mkTn [n; m] (tabl n m f).

(* element-wise map: shape unchanged *)
Definition tmap {X Y} (f : X -> Y) (x : tn X) : tn Y := mkTn (shp x) (map f (dat x)).

Fixpoint nats_eqb (a b : list nat) : bool :=
  match a, b with
  | [], [] => true
  | x :: a', y :: b' => (x =? y) && nats_eqb a' b'
  | _, _ => false
  end.

(* Broadcasting semantics ("Two tensors are broadcastable if ... when iterating over the dimension
   sizes, starting at the trailing dimension, the dimension sizes must either be equal, one of them is
   1, or one of them does not exist"; along a dimension of size 1 the single element is repeated; a
   missing leading dimension counts as size 1) for operands of AT MOST TWO dimensions, for an element
   operation [f] between two element types ([Ops.bdim], [Ops.bidx] are the size / index rules of
   MiniTorch.Ops.broadcast2). *)
Definition as2 (sh : list nat) : option (nat * nat) :=
  match sh with
  | [] => Some (1, 1)
  | [m] => Some (1, m)
  | [n; m] => Some (n, m)
  | _ => None
  end.

Definition bc2 {X Y W} (dx : X) (dy : Y) (f : X -> Y -> W) (a : tn X) (b : tn Y) : option (tn W) :=
  match as2 (shp a), as2 (shp b) with
  | Some (na, ma), Some (nb, mb) =>
      match bdim na nb, bdim ma mb with
      | Some n, Some m =>
          Some (mkTn (skipn (2 - Nat.max (List.length (shp a)) (List.length (shp b))) [n; m])
                  (tabl n m (fun i j => f (get2 dx ma (dat a) (bidx na i) (bidx ma j))
                                          (get2 dy mb (dat b) (bidx nb i) (bidx mb j)))))
      | _, _ => None
      end
  | _, _ => None
  end.

(* Tensor.unsqueeze(dim): "Returns a new tensor with a dimension of size one inserted at the specified
   position. ... A dim value within the range [-input.dim() - 1, input.dim() + 1) can be used."  The
   row-major data are unchanged.  (Same definition as MiniTorch.Ops.unsqueeze, any element type.) *)
Definition unsqueeze {X} (x : tn X) (d : Z) : option (tn X) :=
  match wrap_dim (S (List.length (shp x))) d with
  | Some k => Some (mkTn (firstn k (shp x) ++ 1 :: skipn k (shp x)) (dat x))
  | None => None
  end.

Section Arith.
  Variable a : Model.arith.
  Notation r32 := (Model.r32 a).
  Local Open Scope Q_scope.

  (* a Python number converted to the tensor's dtype float32 *)
  Definition sc (s : Q) : Q := r32 s.

  (* Tensor.float() on a long tensor: "self.float() is equivalent to self.to(torch.float32)" *)
  Definition float_of_long (x : tn Z) : tn Q := tmap (fun z => r32 (Model.z2q z)) x.

  (* torch.full(size, fill_value, dtype=torch.float): "Creates a tensor of size size filled with
     fill_value", for a 1-D size (n,) and an integer fill value *)
  Definition full1 (n : nat) (v : Z) : tn Q := T1 n (fun _ => r32 (Model.z2q v)).

  (* float32 tensor (+) Python number: torch.add / sub / mul / true_divide(input, other) with a Number
     `other`: out_i = input_i (+) other, the number converted to float32, the result rounded *)
  Definition add_s (x : tn Q) (s : Q) : tn Q := tmap (fun q => r32 (q + sc s)) x.
  Definition sub_s (x : tn Q) (s : Q) : tn Q := tmap (fun q => r32 (q - sc s)) x.
  Definition mul_s (x : tn Q) (s : Q) : tn Q := tmap (fun q => r32 (q * sc s)) x.
  (* None: division by zero (inf / NaN not modelled) *)
  Definition div_s (x : tn Q) (s : Q) : option (tn Q) :=
    if Qeq_bool (sc s) 0 then None else Some (tmap (fun q => r32 (q / sc s)) x).

  (* float32 tensor (+) float32 tensor, with broadcasting: out_i = input_i (+) other_i, rounded *)
  Definition add_t (x y : tn Q) : option (tn Q) := bc2 0 0 (fun p q => r32 (p + q)) x y.
  Definition sub_t (x y : tn Q) : option (tn Q) := bc2 0 0 (fun p q => r32 (p - q)) x y.
  Definition mul_t (x y : tn Q) : option (tn Q) := bc2 0 0 (fun p q => r32 (p * q)) x y.

  (* float32 tensor - long tensor, with broadcasting (type promotion: the result is float32).  The
     integer operand is taken as exactly representable in float32 - see the header. *)
  Definition sub_fl (x : tn Q) (t : tn Z) : option (tn Q) :=
    bc2 0 0%Z (fun p z => r32 (p - Model.z2q z)) x t.

  (* long tensor + Python float: type promotion gives the default dtype float32; both operands are
     converted, the sum is rounded *)
  Definition add_ls (t : tn Z) (s : Q) : tn Q := tmap (fun z => r32 (r32 (Model.z2q z) + sc s)) t.

  (* Tensor.clamp(min, max) / torch.clamp(input, min=None, max=None): "Clamps all elements in input into
     the range [min, max]. ... y_i = min(max(x_i, min_i), max_i). If min is None, there is no lower
     bound."  Bounds are Python numbers, converted to float32; min / max are exact. *)
  Definition clamp (x : tn Q) (lo hi : option Q) : tn Q :=
    tmap (fun q => let q1 := match lo with Some l => Model.qmax q (sc l) | None => q end in
                   match hi with Some h => Model.qmin q1 (sc h) | None => q1 end) x.

  (* Tensor.floor(): "Returns a new tensor with the floor of the elements of input, the largest integer
     less than or equal to each element."  Exact (the floor of a float is a float). *)
  Definition floor (x : tn Q) : tn Q := tmap (fun q => Model.z2q (Qfloor q)) x.

  (* Tensor.long() on a float tensor: conversion to int64 truncates towards zero *)
  Definition long_of_float (x : tn Q) : tn Z := tmap Model.qtrunc x.

  (* a <= b on float tensors = torch.le(input, other): "Computes input <= other element-wise", with
     broadcasting; the result is a boolean tensor *)
  Definition le_t (x y : tn Q) : option (tn bool) := bc2 0 0 Qle_bool x y.

  (* torch.arange(end, dtype=float32): "values from the interval [start, end) taken with common
     difference step beginning from start" (start 0, step 1); exact for end <= 2^24 *)
  Definition arange_f (n : nat) : tn Q := T1 n (fun i => Model.z2q (Z.of_nat i)).
End Arith.

(* Tensor.masked_fill(mask, value) on a long tensor: "Fills elements of self tensor with value where
   mask is True."  Only for a mask of exactly self's shape (None otherwise). *)
Definition masked_fill_l (x : tn Z) (m : tn bool) (v : Z) : option (tn Z) :=
  if nats_eqb (shp x) (shp m) then bc2 0%Z false (fun z (b : bool) => if b then v else z) x m else None.

(* Python int - long tensor (torch.rsub): out_i = other - input_i, exact (no int64 wrap-around) *)
Definition rsub_l (k : Z) (t : tn Z) : tn Z := tmap (fun z => (k - z)%Z) t.

(* torch.empty(0): a 1-D float tensor without elements *)
Definition empty0 : tn Q := mkTn [0] [].

(* torch.rand(size): "Returns a tensor filled with random numbers from a uniform distribution on the
   interval [0, 1)" - an ORACLE: the k-th call of a run returns the variates [rnd k 0], [rnd k 1], ... in
   row-major order (the C08 model takes the variates as data in the same way; the harness serves them
   through a patched torch.rand in this order).  Nothing is assumed about the values here. *)
Definition rand (rnd : nat -> nat -> Q) (k : nat) (sh : list nat) : tn Q :=
  mkTn sh (map (rnd k) (seq 0 (numel sh))).

(* ---- tensors as MiniPy values ----------------------------------------------------------------- *)
Local Open Scope string_scope.
Definition tag_float : string := "$tensor".
Definition tag_long : string := "$tensor.long".
Definition tag_bool : string := "$tensor.bool".

Definition enc_shape (sh : list nat) : val := VList (map (fun n => VInt (Z.of_nat n)) sh).
Definition enc_f (t : tn Q) : val := VTuple [VStr tag_float; enc_shape (shp t); VList (map VQ (dat t))].
Definition enc_l (t : tn Z) : val := VTuple [VStr tag_long; enc_shape (shp t); VList (map VInt (dat t))].
Definition enc_b (t : tn bool) : val := VTuple [VStr tag_bool; enc_shape (shp t); VList (map VBool (dat t))].

Fixpoint dec_nats (l : list val) : option (list nat) :=
  match l with
  | [] => Some []
  | VInt z :: r => if Z.leb 0 z then option_map (cons (Z.to_nat z)) (dec_nats r) else None
  | _ => None
  end.

Fixpoint dec_list {X} (f : val -> option X) (l : list val) : option (list X) :=
  match l with
  | [] => Some []
  | v :: r => match f v, dec_list f r with Some x, Some xs => Some (x :: xs) | _, _ => None end
  end.

Definition val_q (v : val) : option Q := match v with VQ q => Some q | _ => None end.
Definition val_z (v : val) : option Z := match v with VInt z => Some z | _ => None end.
Definition val_b (v : val) : option bool := match v with VBool b => Some b | _ => None end.

Inductive anyt := TF (t : tn Q) | TL (t : tn Z) | TB (t : tn bool).

Definition dec_any (v : val) : option anyt :=
  match v with
  | VTuple [VStr tag; VList sh; VList d] =>
      match dec_nats sh with
      | Some s =>
          if String.eqb tag tag_float then option_map (fun l => TF (mkTn s l)) (dec_list val_q d)
          else if String.eqb tag tag_long then option_map (fun l => TL (mkTn s l)) (dec_list val_z d)
          else if String.eqb tag tag_bool then option_map (fun l => TB (mkTn s l)) (dec_list val_b d)
          else None
      | None => None
      end
  | _ => None
  end.

(* `feats`: a floating-point tensor of which the function looks at the shape, the device and
   torch.finfo(dtype).eps only; its cells are not part of the value *)
Definition tag_feats : string := "$tensor.feats".
Definition enc_feats (sh : list nat) (eps : Q) : val := VTuple [VStr tag_feats; enc_shape sh; VQ eps].
Definition dec_feats (v : val) : option (list nat * Q) :=
  match v with
  | VTuple [VStr tag; VList sh; VQ eps] =>
      if String.eqb tag tag_feats then option_map (fun s => (s, eps)) (dec_nats sh) else None
  | _ => None
  end.
