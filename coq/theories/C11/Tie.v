(* C11 source tie - the lemmas the property theorems (the c11_source theorems) are closed with, and the compositions with the model's
   theorems: statements purely about the interpreted source. *)
From Coq Require Import ZArith QArith List String Bool Lia.
From PV Require Import C11.Model C11.Spec MiniPy.Syntax MiniPy.Interp Gen.C11Src C11.SrcRun.
From PV Require C11.ProofsCtm C11.ProofsTok C11.TieCtmRead C11.TieCtmWrite C11.TieTokBack C11.TieTokTry C11.TieTok.
Import ListNotations.
Local Open Scope string_scope.

(* the variable that holds the open file in write_ctm *)
Definition file_var : string := "ctm".

(* read_ctm (open-file branch) = Model.read_ctm_file, raise paths included *)
Definition read_ctm_tie := C11.TieCtmRead.read_ctm_tie.

(* write_ctm (open-file branch) = Model.write_ctm_file, raise paths included *)
Definition write_ctm_tie := C11.TieCtmWrite.write_ctm_tie.

(* token_to_transcript = Model.token_to_transcript, item by item (times equal as rationals) *)
Definition to_transcript_tie := C11.TieTokBack.to_transcript_tie.

(* write then read, both interpreted from the source text: the lines the interpreted write_ctm leaves in the file are
   read back by the interpreted read_ctm as the expected transcripts (C11.Spec.expected: utterances by (wfn, chan),
   tokens by (start, duration, token)) *)
Theorem source_ctm_roundtrip m wc2utt key ts : ctm_ok m wc2utt key ts ->
  exists stw lines,
    run_write_ctm (VList (map enc_wutt (with_times ts))) (enc_utt2wc m) = Ok VNone stw /\
    lookup "ctm" (vars stw) = Some (VList lines) /\
    exists str, run_read_ctm lines (enc_wc2utt wc2utt) = Ok (VList (map enc_utt (expected key ts))) str.
Proof.
  intros Hok. destruct (C11.ProofsCtm.ctm_roundtrip m wc2utt key ts Hok) as [segs [Hw [_ Hr]]].
  pose proof (write_ctm_tie (with_times ts) m) as Tw. rewrite Hw in Tw. destruct Tw as [stw [Hrun Hfile]].
  pose proof (read_ctm_tie segs wc2utt) as Tr. rewrite Hr in Tr. destruct Tr as [str Hrd].
  exists stw, (map enc_seg_line segs). split; [exact Hrun|]. split; [exact Hfile|]. exists str. exact Hrd.
Qed.

(* transcript_to_token = Model.transcript_to_token (rows of the returned tensor; TypeError when an id is a str) *)
Definition to_token_tie := C11.TieTok.to_token_tie.

Lemma fs_ok_pos d : (0 < d)%Q -> C11.TieTokTry.fs_ok (Some d).
Proof.
  intros H. unfold C11.TieTokTry.fs_ok. destruct (Qeq_bool d 0) eqn:E; [|reflexivity].
  apply Qeq_bool_iff in E. rewrite E in H. exfalso. exact (Qlt_irrefl 0 H).
Qed.

Lemma fs_ok_back fs : C11.TieTokTry.fs_ok fs -> C11.TieTokBack.fs_ok fs.
Proof. exact (fun H => H). Qed.

Lemma enc_rows_ref rows : C11.TieTok.enc_rows false rows = enc_ref 3 rows.
Proof.
  unfold C11.TieTok.enc_rows, C11.TieTok.tens, enc_ref, enc_lt. cbn [repeat]. rewrite app_nil_r, map_map.
  reflexivity.
Qed.

Lemma norm3 rows : map (C11.TieTokBack.norm_row 3) rows = rows.
Proof. induction rows as [|r rows IH]; [reflexivity|]. cbn [map]. rewrite IH. reflexivity. Qed.

Lemma Forall2_comp {A B C} (R1 : A -> B -> Prop) (R2 : B -> C -> Prop) l1 : forall l2 l3,
  Forall2 R1 l1 l2 -> Forall2 R2 l2 l3 -> Forall2 (fun a c => exists b, R1 a b /\ R2 b c) l1 l3.
Proof.
  induction l1 as [|a l1 IH]; intros l2 l3 H1 H2; inversion H1; subst; inversion H2; subst; constructor.
  - eexists; split; eassumption.
  - eapply IH; eassumption.
Qed.

(* transcript -> token tensor -> transcript, both interpreted from the source text, with a vocabulary (token2id injective,
   id2token its inverse) and a frame shift d > 0: the interpreted transcript_to_token returns a (R, 3) tensor, and the
   interpreted token_to_transcript of that tensor returns, item by item, the same tokens with times within one frame shift
   (C11.Spec.item_close) - composition of the two ties with c11_tokens_roundtrip *)
Theorem source_tokens_roundtrip t2i d unk tr :
  (0 < d)%Q -> NoDup (map snd t2i) ->
  Forall (fun a => (exists i, assoc tk_eqb (item_tok a) t2i = Some i) /\ item_times_ok a) tr ->
  exists rows stt,
    run_to_token (VList (map enc_item tr)) (enc_t2i (Some t2i)) (enc_fs (Some d)) (enc_unk unk) false
      = Ok (enc_ref 3 rows) stt /\
    exists ws stb,
      run_to_transcript (enc_ref 3 rows) (enc_i2t (Some (swap_pairs t2i))) (enc_fs (Some d)) = Ok (VList ws) stb /\
      Forall2 (fun a v => exists b, item_close d a b /\ C11.TieTokBack.item_rel b v) tr ws.
Proof.
  intros Hd Hnd Hall.
  destruct (C11.ProofsTok.tokens_roundtrip_vocab t2i d unk tr Hd Hnd Hall) as [rows [Hto Hclose]].
  pose proof (to_token_tie tr (Some t2i) (Some d) unk false (fs_ok_pos d Hd)) as Tt. rewrite Hto in Tt.
  destruct Tt as [stt Hrun]. rewrite enc_rows_ref in Hrun.
  destruct (to_transcript_tie 3 rows (Some (swap_pairs t2i)) (Some d) (fs_ok_back _ (fs_ok_pos d Hd))
              (or_intror (or_intror eq_refl))) as (ws & stb & Hback & Hrel).
  rewrite norm3 in Hrel.
  exists rows, stt. split; [exact Hrun|]. exists ws, stb. split; [exact Hback|].
  exact (Forall2_comp _ _ _ _ _ Hclose Hrel).
Qed.
