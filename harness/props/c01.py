"""C01 — edit distance = weighted Levenshtein distance, per pair and per prefix.

Correspondence between /repo's edit_distance / prefix_edit_distances (functional and module
forms) and PV.C01.Model, evaluated inside Coq with vm_compute.  Regime E: costs k/4 (the
model works on the integers k, scale = 4), so every un-normalised output is compared exactly;
a normalised output (one IEEE division) is bracketed by 2^-23 relative inside Coq and, on the
implementation side, recomputed bit-exactly from the un-normalised output.
"""
import itertools
import json
import warnings
from fractions import Fraction

import torch

torch.set_num_threads(1)  # tiny tensors: threads only add contention on a shared machine

from vlib import cb, cl, clz, cn, co, cq, cz, coq_eval_bools, coq_eval_print, exc_kind, load_corpus, shrink

IMPORTS = "From PV Require Import C01.Obs C01.Spec C01.Model.\n"
SCALE = 4
THEOREMS = ["c01_lev_is_min_edit_cost", "c01_del_fold_is_sweep", "c01_row_invariant", "c01_edit_distance_correct",
            "c01_edit_distance_norm", "c01_prefix_edit_distances_correct", "c01_uniform_cost_shortcut",
            "c01_post_eos_irrelevant", "c01_batch_pointwise"]


# ------------------------------------------------------------------------------------------
# cases
# ------------------------------------------------------------------------------------------
# case = dict(api="ed"|"prefix", module=bool, ref=[N seqs of length R], hyp=[N seqs of length H],
#             eos=int|None, include_eos, norm, batch_first, exclude_last, costs=[ki,kd,ks] (quarters),
#             padding=int, warn=bool)


def _dims(case):
    N = len(case["ref"])
    R = len(case["ref"][0]) if N else 0
    H = len(case["hyp"][0]) if N else 0
    return N, R, H


def _tensor(seqs, width, batch_first):
    t = torch.tensor(seqs, dtype=torch.long).reshape(len(seqs), width)
    return t if batch_first else t.t().contiguous()


def _call(case, ref, hyp, norm=None):
    """ref, hyp: tensors already in the case's layout.  Returns a float tensor."""
    import pydrobert.torch.functional as F
    import pydrobert.torch.modules as M

    ci, cd, cs = (k / SCALE for k in case["costs"])
    norm = case["norm"] if norm is None else norm
    with warnings.catch_warnings():
        warnings.simplefilter("ignore")
        if case["api"] == "ed":
            if case["module"]:
                return M.EditDistance(case["eos"], case["include_eos"], norm, case["batch_first"], ci, cd, cs,
                                      case["warn"])(ref, hyp)
            if case.get("kw"):
                return F.edit_distance(hyp=hyp, ref=ref, warn=case["warn"], sub_cost=cs, del_cost=cd, ins_cost=ci,
                                       batch_first=case["batch_first"], norm=norm, include_eos=case["include_eos"],
                                       eos=case["eos"])
            return F.edit_distance(ref, hyp, case["eos"], case["include_eos"], norm, case["batch_first"], ci, cd, cs,
                                   case["warn"])
        if case["module"]:
            return M.PrefixEditDistances(case["eos"], case["include_eos"], norm, case["batch_first"], ci, cd, cs,
                                         case["padding"], case["exclude_last"], case["warn"])(ref, hyp)
        if case.get("kw"):
            return F.prefix_edit_distances(hyp=hyp, ref=ref, warn=case["warn"], exclude_last=case["exclude_last"],
                                           padding=case["padding"], sub_cost=cs, del_cost=cd, ins_cost=ci,
                                           batch_first=case["batch_first"], norm=norm,
                                           include_eos=case["include_eos"], eos=case["eos"])
        return F.prefix_edit_distances(ref, hyp, case["eos"], case["include_eos"], norm, case["batch_first"], ci, cd,
                                       cs, case["padding"], case["exclude_last"], case["warn"])


def _canon(t):
    """float tensor -> nested lists of exact rationals as 'p/q' strings, or 'nonfinite'."""
    if not bool(torch.isfinite(t).all()):
        return "nonfinite"

    def f(x):
        fr = Fraction(float(x))
        return f"{fr.numerator}/{fr.denominator}"

    if t.dim() == 1:
        return [f(x) for x in t.tolist()]
    return [[f(x) for x in row] for row in t.tolist()]


def run_impl(case, norm=None):
    N, R, H = _dims(case)
    try:
        out = _call(case, _tensor(case["ref"], R, case["batch_first"]), _tensor(case["hyp"], H, case["batch_first"]),
                    norm)
        return {"shape": list(out.shape), "dtype": str(out.dtype), "val": _canon(out)}
    except Exception as e:  # no exception is a legal outcome inside the input space
        return {"exc": exc_kind(e), "msg": str(e)[:200]}


# ---- Coq terms --------------------------------------------------------------------------------


def _q(s):
    return cq(Fraction(s))


def _mat(seqs, width, batch_first):
    """the matrix exactly as handed to the implementation, as a list of rows"""
    if batch_first:
        return cl([clz(s) for s in seqs])
    return cl([clz([s[i] for s in seqs]) for i in range(width)])


def _cfg(case):
    ki, kd, ks = case["costs"]
    eos = co(None if case["eos"] is None else cz(case["eos"]))
    return (f"(mkCfg {eos} {cb(case['include_eos'])} {cb(case['norm'])} {cb(case['batch_first'])} "
            f"{cz(ki)} {cz(kd)} {cz(ks)} {cz(case['padding'])} {cb(case['exclude_last'])})")


def _shape_ok(case, out):
    N, R, H = _dims(case)
    if case["api"] == "ed":
        return out["shape"] == [N]
    T = H + (0 if case["exclude_last"] else 1)
    return out["shape"] == ([N, T] if case["batch_first"] else [T, N])


def model_term(case, out):
    if "exc" in out or out["val"] == "nonfinite" or not _shape_ok(case, out) or out["dtype"] != "torch.float32":
        return "false"
    N, R, H = _dims(case)
    ref, hyp = _mat(case["ref"], R, case["batch_first"]), _mat(case["hyp"], H, case["batch_first"])
    if case["api"] == "ed":
        obs = cl([_q(x) for x in out["val"]])
        return f"check_ed {_cfg(case)} {cz(SCALE)} {cn(N)} {ref} {hyp} {obs}"
    obs = cl([cl([_q(x) for x in row]) for row in out["val"]])
    return f"check_prefix {_cfg(case)} {cz(SCALE)} {cn(N)} {ref} {hyp} {obs}"


def spec_term(case, out):
    """Judge the implementation's output by Spec.v alone (lev on the denoted sequences), pair by pair."""
    if "exc" in out or out["val"] == "nonfinite" or not _shape_ok(case, out):
        return "false"
    N, R, H = _dims(case)
    ki, kd, ks = case["costs"]
    eos = co(None if case["eos"] is None else cz(case["eos"]))
    common = f"{eos} {cb(case['include_eos'])} {cb(case['norm'])} {cz(ki)} {cz(kd)} {cz(ks)}"
    parts = []
    for n in range(N):
        r, h = clz(case["ref"][n]), clz(case["hyp"][n])
        if case["api"] == "ed":
            parts.append(f"spec_ed_okb {common} {cz(SCALE)} {r} {h} {_q(out['val'][n])}")
        else:
            colv = out["val"][n] if case["batch_first"] else [row[n] for row in out["val"]]
            parts.append(f"spec_prefix_okb {common} {cb(case['exclude_last'])} {cz(case['padding'])} {cz(SCALE)} "
                         f"{r} {h} {cl([_q(x) for x in colv])}")
    return "(" + " && ".join(parts or ["true"]) + ")"


def model_show(case):
    N, R, H = _dims(case)
    ref, hyp = _mat(case["ref"], R, case["batch_first"]), _mat(case["hyp"], H, case["batch_first"])
    fn = "edit_distance" if case["api"] == "ed" else "prefix_edit_distances"
    return f"{fn} {_cfg(case)} {cn(N)} {ref} {hyp}"


# ---- python-side helpers (used for the non-triviality rule and the metamorphic relations only) ----


def _cut(seq, eos, include_eos):
    if eos is None or eos not in seq:
        return list(seq)
    i = seq.index(eos)
    return list(seq[: i + (1 if include_eos else 0)])


def nontrivial(case):
    for r, h in zip(case["ref"], case["hyp"]):
        a, b = _cut(r, case["eos"], case["include_eos"]), _cut(h, case["eos"], case["include_eos"])
        if a and b and a != b:
            return True
    return False


def in_space(case):
    N, R, H = _dims(case)
    if N < 1:
        return False
    if R == 0 or H == 0:  # zero-width tensors: only without eos (with eos _lens_from_eos raises)
        if case["eos"] is not None:
            return False
        if H == 0 and case["api"] == "prefix" and case["exclude_last"]:
            return False
    return all(k > 0 for k in case["costs"])


# ------------------------------------------------------------------------------------------
# metamorphic relations stated by the property, on the implementation
# ------------------------------------------------------------------------------------------


def _col_of(case, out, n):
    if case["api"] == "ed":
        return [out["val"][n]]
    return out["val"][n] if case["batch_first"] else [row[n] for row in out["val"]]


def metamorphic(case, out, rng):
    """Returns a list of (what, variant_case, variant_out) failures."""
    fails = []
    if "exc" in out or out["val"] == "nonfinite":
        return fails
    N, R, H = _dims(case)
    # (1) a pair's result does not depend on the other pairs
    if N > 1:
        n = rng.randrange(N)
        c1 = dict(case, ref=[case["ref"][n]], hyp=[case["hyp"][n]])
        o1 = run_impl(c1)
        if "exc" in o1 or o1["val"] == "nonfinite" or _col_of(c1, o1, 0) != _col_of(case, out, n):
            fails.append((f"pair {n} alone differs from pair {n} inside the batch", c1, o1))
    # (2) ... nor on tokens after its end-of-sequence
    if case["eos"] is not None:
        def refill(seq):
            if case["eos"] not in seq:
                return list(seq)
            i = seq.index(case["eos"])
            return list(seq[: i + 1]) + [rng.choice([case["eos"], 0, 1, 5, -3]) for _ in seq[i + 1:]]
        c2 = dict(case, ref=[refill(s) for s in case["ref"]], hyp=[refill(s) for s in case["hyp"]])
        if c2["ref"] != case["ref"] or c2["hyp"] != case["hyp"]:
            o2 = run_impl(c2)
            if o2 != out:
                fails.append(("changing tokens after the first eos changes the result", c2, o2))
    # (3) normalisation is one float division of the un-normalised result by the reference length
    if case["norm"]:
        ou = run_impl(case, norm=False)
        if "exc" not in ou and ou["val"] != "nonfinite":
            for n in range(N):
                rl = len(_cut(case["ref"][n], case["eos"], case["include_eos"]))
                hl = len(_cut(case["hyp"][n], case["eos"], case["include_eos"]))
                got, un = _col_of(case, out, n), _col_of(case, ou, n)
                for k, (g, u) in enumerate(zip(got, un)):
                    if case["api"] == "prefix" and k >= hl + (0 if case["exclude_last"] else 1):
                        exp = Fraction(case["padding"])
                    elif rl == 0:
                        exp = Fraction(1 if (hl if case["api"] == "ed" else k) > 0 else 0)
                    else:
                        exp = Fraction(float(torch.tensor(float(Fraction(u)), dtype=torch.float32)
                                             / torch.tensor(float(rl), dtype=torch.float32)))
                    if Fraction(g) != exp:
                        fails.append((f"normalised value of pair {n} position {k} is not distance / reference length",
                                      case, out))
                        break
    # (4) the other layout gives the transposed result
    cT = dict(case, batch_first=not case["batch_first"])
    oT = run_impl(cT)
    if "exc" in oT or oT["val"] == "nonfinite" or any(_col_of(cT, oT, n) != _col_of(case, out, n) for n in range(N)):
        fails.append(("the two batch layouts disagree", cT, oT))
    # (5) functional and module forms agree
    cM = dict(case, module=not case["module"])
    oM = run_impl(cM)
    if oM != out:
        fails.append(("functional and module forms disagree", cM, oM))
    return fails


# ------------------------------------------------------------------------------------------
# generators
# ------------------------------------------------------------------------------------------
COST_GRID = [2, 4, 6]  # 1/2, 1, 3/2
PADS = [-100, -1, 0, 7]


def _exh_pairs(R, H):
    """every column over {0,1,eos=2}: all eos placements and all fillers"""
    return list(itertools.product(itertools.product([0, 1, 2], repeat=R), itertools.product([0, 1, 2], repeat=H)))


def gen_exhaustive(chk):
    cases = []
    thorough = chk.tier == "thorough"
    flags = list(itertools.product([False, True], repeat=4))  # include_eos, norm, batch_first, exclude_last
    costs = list(itertools.product(COST_GRID, repeat=3))
    k = 0
    for R, H in itertools.product([1, 2, 3], repeat=2):
        pairs = _exh_pairs(R, H)
        chunk = 27 if thorough else 9
        batches = [pairs[i:i + chunk] for i in range(0, len(pairs), chunk)]
        for bi, b in enumerate(batches):
            if thorough:
                combos = [(f, c) for f in flags for c in costs]
                # every pair meets every flag setting and every cost triple; the two APIs alternate over the
                # combos (and swap on the next batch) so each (flags, costs) is seen by both APIs for each (R,H)
            else:
                combos = [(flags[(k + j * 7) % 16], costs[(k * 5 + j * 11) % 27]) for j in range(2)]
            for j, (f, c) in enumerate(combos):
                k += 1
                api = "prefix" if (k + bi) % 2 else "ed"
                if api == "ed" and f[3]:
                    api = "prefix"  # exclude_last only exists there
                cases.append(dict(api=api, module=(k % 5 == 0), ref=[list(p[0]) for p in b], hyp=[list(p[1]) for p in b],
                                  eos=2, include_eos=f[0], norm=f[1], batch_first=f[2], exclude_last=f[3],
                                  costs=list(c), padding=PADS[k % 4], warn=(k % 7 == 0),
                                  stream="exhaustive" if thorough else "exhaustive-slice"))
    if thorough:
        chk.extra["exhaustive"] = True
        chk.extra["exhaustive_scope"] = ("alphabet {0,1} + eos, tensor widths R,H in 1..3, every column in {0,1,eos}^R x "
                                         "{0,1,eos}^H (all eos placements and fillers), cost triples {1/2,1,3/2}^3, "
                                         "include_eos/norm/batch_first/exclude_last in all 16 settings")
    return cases


def _rand_seq(rng, width, alphabet, eos, p_noeos=0.25):
    """structured: true length, then eos, then garbage (which may contain eos again)"""
    if eos is None or rng.random() < p_noeos or width == 0:
        return [rng.choice(alphabet) for _ in range(width)]
    L = rng.randint(0, width - 1)
    body = [rng.choice(alphabet) for _ in range(L)]
    fill = [rng.choice(alphabet + [eos, eos]) for _ in range(width - L - 1)]
    return body + [eos] + fill


def _mutate(rng, seq, alphabet, eos, width):
    """hypothesis = reference after a few random edits (keeps distances small and ties frequent)"""
    body = _cut(seq, eos, False)
    out = []
    for t in body:
        u = rng.random()
        if u < 0.15:
            continue
        if u < 0.3:
            out.append(rng.choice(alphabet))
        elif u < 0.4:
            out += [t, rng.choice(alphabet)]
        else:
            out.append(t)
    out = out[:width]
    if eos is not None and len(out) < width and rng.random() < 0.8:
        out.append(eos)
    while len(out) < width:
        out.append(rng.choice(alphabet + ([eos] if eos is not None else [])))
    return out


def gen_random(chk, n):
    rng = chk.rng
    cases = []
    for _ in range(n):
        V = rng.randint(1, 4)
        alphabet = list(range(V))
        eos_kind = rng.choice(["none", "outside", "outside", "inside", "negative", "negative"])
        eos = {"none": None, "outside": V + rng.randint(0, 2), "inside": rng.randrange(V), "negative": -rng.randint(1, 3)}[eos_kind]
        if eos_kind == "inside":
            alphabet = [a for a in alphabet if a != eos] or [eos + 1]
        N = rng.randint(1, 5)
        R, H = rng.randint(1, 8), rng.randint(1, 8)
        if rng.random() < 0.25:
            R = rng.randint(1, 2)
        if rng.random() < 0.25:
            H = rng.randint(1, 2)
        ref = [_rand_seq(rng, R, alphabet, eos) for _ in range(N)]
        hyp = [(_mutate(rng, r, alphabet, eos, H) if rng.random() < 0.6 else _rand_seq(rng, H, alphabet, eos)) for r in ref]
        u = rng.random()
        if u < 0.3:
            k = rng.randint(1, 12)
            costs = [k, k, k]
        elif u < 0.45:
            costs = [rng.choice([2, 4]) for _ in range(3)]
        else:
            costs = [rng.randint(1, 12) for _ in range(3)]
        api = rng.choice(["ed", "prefix", "prefix"])
        cases.append(dict(api=api, module=rng.random() < 0.3, ref=ref, hyp=hyp, eos=eos,
                          include_eos=rng.random() < 0.5, norm=rng.random() < 0.4, batch_first=rng.random() < 0.5,
                          exclude_last=(api == "prefix" and rng.random() < 0.5), costs=costs,
                          padding=rng.choice(PADS + [rng.randint(-9, 9)]), warn=rng.random() < 0.2,
                          kw=rng.random() < 0.5, stream="random", eos_kind=eos_kind))
    return cases


def gen_zero_width(chk, n):
    """zero-width tensors are inside the input space only without eos"""
    rng = chk.rng
    cases = []
    for _ in range(n):
        N = rng.randint(1, 3)
        R, H = rng.choice([(0, rng.randint(0, 3)), (rng.randint(1, 3), 0)])
        api = rng.choice(["ed", "prefix"])
        cases.append(dict(api=api, module=False, ref=[[rng.randrange(2) for _ in range(R)] for _ in range(N)],
                          hyp=[[rng.randrange(2) for _ in range(H)] for _ in range(N)], eos=None,
                          include_eos=rng.random() < 0.5, norm=rng.random() < 0.3, batch_first=rng.random() < 0.5,
                          exclude_last=(api == "prefix" and H > 0 and rng.random() < 0.5),
                          costs=[rng.randint(1, 8) for _ in range(3)], padding=-100, warn=False, stream="zero-width"))
    return cases


def gen_cases(chk):
    cases = gen_exhaustive(chk)
    for c in load_corpus("C01"):
        c = dict(c.get("case", c))
        c["stream"] = "corpus"
        cases.append(c)
    thorough = chk.tier == "thorough"
    cases += gen_random(chk, 20000 if thorough else 1800)
    cases += gen_zero_width(chk, 400 if thorough else 60)
    return [c for c in cases if in_space(c)]


# ------------------------------------------------------------------------------------------
# shrinking, judging
# ------------------------------------------------------------------------------------------


def _strip(case):
    return {k: v for k, v in case.items() if k not in ("stream", "eos_kind")}


def _fails(chk, case):
    if not in_space(case):
        return False
    out = run_impl(case)
    return not coq_eval_bools(chk.workdir, IMPORTS, [model_term(case, out)], tag="shr")[0]


def _cands(case):
    N, R, H = _dims(case)
    for n in range(N):
        if N > 1:
            yield dict(case, ref=case["ref"][:n] + case["ref"][n + 1:], hyp=case["hyp"][:n] + case["hyp"][n + 1:])
    if R > 1:
        yield dict(case, ref=[s[:-1] for s in case["ref"]])
        yield dict(case, ref=[s[1:] for s in case["ref"]])
    if H > 1:
        yield dict(case, hyp=[s[:-1] for s in case["hyp"]])
        yield dict(case, hyp=[s[1:] for s in case["hyp"]])
    for key in ("norm", "batch_first", "exclude_last", "include_eos", "module", "warn", "kw"):
        if case.get(key):
            yield dict(case, **{key: False})
    if case["costs"] != [4, 4, 4]:
        yield dict(case, costs=[4, 4, 4])
        for i in range(3):
            if case["costs"][i] != 4:
                c = list(case["costs"])
                c[i] = 4
                yield dict(case, costs=c)
    if case["padding"] != -100:
        yield dict(case, padding=-100)
    for which in ("ref", "hyp"):
        for n, s in enumerate(case[which]):
            for i, t in enumerate(s):
                if t != 0 and t != case["eos"]:
                    s2 = list(s)
                    s2[i] = 0
                    yield dict(case, **{which: case[which][:n] + [s2] + case[which][n + 1:]})


def judge(chk, case, out):
    spec_ok = coq_eval_bools(chk.workdir, IMPORTS, [spec_term(case, out)], tag="spec")[0]
    rec = {"case": case, "impl": out,
           "model": coq_eval_print(chk.workdir, IMPORTS, model_show(case)),
           "scale": "model values are in quarter cost units: Cost v = v/4, Ratio n d = (n/4)/d, Lit z = z",
           "spec_accepts_impl": spec_ok,
           "correspondence": "corr:C01:edit_distance/prefix_edit_distances/EditDistance/PrefixEditDistances",
           "theorems_at_stake": THEOREMS}
    if spec_ok:
        rec["what"] = ("implementation differs from the model but every value equals the weighted Levenshtein distance "
                       "of the spec (lev on the sequences cut at eos)")
    elif "exc" in out:
        rec["what"] = f"implementation raised {out['exc']} on an input inside the property's input space"
    else:
        rec["what"] = ("reported edit distance / prefix table differs from the minimum edit cost (Spec.lev on the "
                       "sequences cut at the first eos), the padding rule or the output shape")
    return rec, spec_ok


def run(chk, cases=None):
    chk.rule = ("case = one call of edit_distance / prefix_edit_distances (functional or module form) on a batch; ref/hyp "
                "are stored as N sequences of the tensor widths R/H (padding and post-eos garbage included) and handed "
                "over in the case's layout with costs k/4; every output entry is matched inside Coq against "
                "PV.C01.Model.{edit_distance,prefix_edit_distances} on integer costs k (Cost: exact; Ratio: 2^-23 "
                "bracket of the one float division; Lit: exact). non-trivial = some pair whose two sequences, cut at "
                "the first eos, are both non-empty and differ")
    chk.assumptions += ["costs are on the dyadic grid k/4 (k<=12), lengths <= 8: every float32 operation before the final "
                        "division is exact (regime E)",
                        "zero-width tensors are in the input space only without eos (with eos _lens_from_eos raises)",
                        "the batch dimension of the model is a map over columns; independence of the vectorised code across "
                        "the batch is covered by the correspondence and the single-column metamorphic relation"]
    replaying = cases is not None
    cases = cases if cases is not None else gen_cases(chk)
    outs, terms, streams = [], [], []
    for c in cases:
        stream = c.pop("stream", "random")
        eos_kind = c.pop("eos_kind", None)
        streams.append(stream)
        out = run_impl(c)
        outs.append(out)
        terms.append(model_term(c, out))
        chk.note_case(c, nontrivial(c), stream)
        N, R, H = _dims(c)
        chk.count("api=" + c["api"] + ("/module" if c["module"] else ""))
        chk.count("flags=" + "".join(ch if c[k] else "-" for ch, k in
                                     (("E", "include_eos"), ("N", "norm"), ("B", "batch_first"), ("X", "exclude_last"))))
        chk.count("costs=" + ("uniform" if len(set(c["costs"])) == 1 else "nonuniform"))
        chk.count("eos=" + (eos_kind or ("none" if c["eos"] is None else "given")))
        chk.count("N=%d" % N)
        chk.count("R=%d" % R)
        chk.count("H=%d" % H)
        chk.count("outcome=" + ("exc:" + out["exc"] if "exc" in out else "ok"))
        chk.count("pairs", N)
        chk.count("empty_ref_pairs", sum(1 for r in c["ref"] if not _cut(r, c["eos"], c["include_eos"])))
        chk.count("empty_hyp_pairs", sum(1 for h in c["hyp"] if not _cut(h, c["eos"], c["include_eos"])))
        chk.count("no_eos_seqs", sum(1 for s in c["ref"] + c["hyp"] if c["eos"] is not None and c["eos"] not in s))
    res = coq_eval_bools(chk.workdir, IMPORTS, terms)
    bad = [i for i, ok in enumerate(res) if not ok]
    chk.extra["model_disagreements"] = len(bad)

    # metamorphic relations on the implementation (all cases when replaying, a seeded subset otherwise)
    mrng = __import__("random").Random(chk.seed + 1)
    meta_n = 0
    meta_fail = []
    for i, c in enumerate(cases):
        if replaying or chk.tier != "thorough" and streams[i] in ("random", "corpus") or i % (3 if streams[i] != "exhaustive" else 12) == 0:
            meta_n += 1
            for what, vc, vo in metamorphic(c, outs[i], mrng):
                meta_fail.append((i, what, vc, vo))
    chk.extra["metamorphic_cases"] = meta_n
    chk.extra["metamorphic_failures"] = len(meta_fail)

    found_concrete = False
    for i in bad[:4]:
        case = shrink(cases[i], lambda c: _fails(chk, c), _cands, budget=60)
        out = run_impl(case)
        rec, spec_ok = judge(chk, case, out)
        if not spec_ok:
            found_concrete = True
            chk.report(rec)
    if bad and not found_concrete:
        sres = coq_eval_bools(chk.workdir, IMPORTS, [spec_term(cases[i], outs[i]) for i in bad], tag="specall")
        hit = [bad[j] for j, ok in enumerate(sres) if not ok]
        if hit:
            rec, _ = judge(chk, cases[hit[0]], outs[hit[0]])
            chk.report(rec)
            found_concrete = True
    for i, what, vc, vo in meta_fail[:3]:
        found_concrete = True
        chk.report({"case": cases[i], "impl": outs[i], "variant_case": _strip(vc), "variant_impl": vo,
                    "what": "metamorphic relation of the property fails on the implementation: " + what,
                    "correspondence": "corr:C01:metamorphic", "theorems_at_stake": THEOREMS})
    if bad and not found_concrete:
        rec, _ = judge(chk, cases[bad[0]], outs[bad[0]])
        chk.report(rec, no_failing_input=True)


def replay(chk, path):
    rec = json.loads(open(path).read())
    todo = [_strip(dict(rec["case"]))]
    if "variant_case" in rec:
        todo.append(_strip(dict(rec["variant_case"])))
    run(chk, todo)
