(* MiniTorch, unit C18B — algebra of the operations of OpsC18B.v (no new definitions of semantics). *)
From Coq Require Import List ZArith QArith Bool Arith Lia String ZifyBool ZifyNat.
From PV Require MiniTorch.Ops.
From PV Require Import MiniTorch.OpsC18B.
From PV Require Import C18.Model C18.Spec C18.QLemmas C18.Tensor C18.ProofsMvn.
Import ListNotations.
Local Open Scope nat_scope.

#[local] Ltac Zify.zify_post_hook ::= Z.div_mod_to_equations.

(* ---- dimensions ------------------------------------------------------------------------------------------------ *)
Lemma wrap_norm : forall D d, Ops.wrap_dim D d = norm_dim D d.
Proof.
  intros D d. unfold Ops.wrap_dim, norm_dim.
  destruct (Z.leb_spec (- Z.of_nat D) d), (Z.ltb_spec d (Z.of_nat D)); cbn [andb];
    destruct (Z.ltb_spec d (- Z.of_nat D)), (Z.leb_spec (Z.of_nat D) d); cbn [orb]; try lia; try reflexivity.
  f_equal. f_equal. destruct (Z.ltb_spec d 0).
  - now rewrite Z.mod_small by lia.
  - replace (d + Z.of_nat D)%Z with (d + 1 * Z.of_nat D)%Z by lia. now rewrite Z_mod_plus_full, Z.mod_small by lia.
Qed.

Lemma norm_dim_pos : forall D dim d, norm_dim D dim = Some d -> (0 < D)%nat.
Proof. intros D dim d H. pose proof (norm_dim_lt _ _ _ H). lia. Qed.

Lemma norm_dim_0 : forall D, (0 < D)%nat -> norm_dim D 0 = Some 0%nat.
Proof. intros D H. rewrite <- wrap_norm. unfold Ops.wrap_dim. replace (- Z.of_nat D <=? 0)%Z with true by lia.
  replace (0 <? Z.of_nat D)%Z with true by lia. reflexivity. Qed.

Lemma size_ok : forall x dim d, norm_dim (List.length (shape x)) dim = Some d ->
  OpsC18B.size x dim = ROk (nth d (shape x) 0).
Proof. intros x dim d H. unfold OpsC18B.size, ndim. now rewrite wrap_norm, H. Qed.

Lemma size_err : forall x dim, norm_dim (List.length (shape x)) dim = None ->
  OpsC18B.size x dim = RRaise index_error.
Proof. intros x dim H. unfold OpsC18B.size, ndim. now rewrite wrap_norm, H. Qed.

Lemma transpose0_ok : forall x dim d, norm_dim (List.length (shape x)) dim = Some d ->
  OpsC18B.transpose x 0 dim = ROk (Model.transpose x 0 d).
Proof.
  intros x dim d H. pose proof (norm_dim_pos _ _ _ H) as HD. unfold OpsC18B.transpose, ndim.
  destruct (List.length (shape x)) as [|n] eqn:E; [lia|].
  rewrite !wrap_norm, H, norm_dim_0 by lia. reflexivity.
Qed.

Lemma transpose0_err : forall x dim, (0 < List.length (shape x))%nat -> norm_dim (List.length (shape x)) dim = None ->
  OpsC18B.transpose x 0 dim = RRaise index_error.
Proof.
  intros x dim HD H. unfold OpsC18B.transpose, ndim.
  destruct (List.length (shape x)) as [|n] eqn:E; [lia|].
  rewrite !wrap_norm, H, norm_dim_0 by lia. reflexivity.
Qed.

Lemma unsqueeze_last : forall t, OpsC18B.unsqueeze t (-1) = ROk (mkT (shape t ++ [1]) (data t)).
Proof.
  intros t. unfold OpsC18B.unsqueeze, ndim, Ops.wrap_dim.
  replace (- Z.of_nat (S (List.length (shape t))) <=? -1)%Z with true by lia.
  replace (-1 <? Z.of_nat (S (List.length (shape t))))%Z with true by lia. cbn [andb].
  replace (-1 <? 0)%Z with true by reflexivity.
  replace (Z.to_nat (-1 + Z.of_nat (S (List.length (shape t))))) with (List.length (shape t)) by lia.
  now rewrite firstn_all, skipn_all.
Qed.

(* x.transpose(0, dim).unsqueeze(-1).flatten(1): (X, M) with the data of the transposed tensor *)
Lemma flatten_rows : forall h tl dat,
  OpsC18B.flatten (mkT ((h :: tl) ++ [1]) dat) 1 (-1) = ROk (mkT [h; prodn tl] dat).
Proof.
  intros h tl dat. unfold OpsC18B.flatten, ndim. cbn [shape data app List.length].
  set (n := List.length (tl ++ [1])).
  assert (Hn : n = S (List.length tl)) by (unfold n; rewrite app_length; cbn; lia).
  unfold Ops.wrap_dim.
  replace (- Z.of_nat (S n) <=? 1)%Z with true by lia. replace (1 <? Z.of_nat (S n))%Z with true by lia.
  replace (- Z.of_nat (S n) <=? -1)%Z with true by lia. replace (-1 <? Z.of_nat (S n))%Z with true by lia.
  cbn [andb]. replace (1 <? 0)%Z with false by reflexivity. replace (-1 <? 0)%Z with true by reflexivity.
  replace (Z.to_nat 1) with 1 by reflexivity.
  replace (Z.to_nat (-1 + Z.of_nat (S n))) with n by lia.
  replace (1 <=? n) with true by lia.
  cbn [firstn skipn app]. replace (n - 1 + 1) with n by lia.
  unfold n at 1 2. rewrite firstn_all, skipn_all. f_equal. f_equal. f_equal.
  rewrite prodn_app. cbn. now rewrite Nat.mul_1_r.
Qed.

Lemma flatten_rows_0d : forall dat, OpsC18B.flatten (mkT [1] dat) 1 (-1) = RRaise index_error.
Proof. reflexivity. Qed.

(* ---- the rows of the matrix ------------------------------------------------------------------------------------ *)
Lemma rows_of_rows : forall x d, (d < List.length (shape x))%nat ->
  rows_of x d = rows (nth d (shape x) 0) (rows_width x d) (data (Model.transpose x 0 d)).
Proof.
  intros x d Hd. unfold rows_of, rows, rows_width. cbv zeta. rewrite shape_transpose.
  replace (hd 0 (swapl (shape x) 0 d)) with (nth d (shape x) 0) by (now rewrite (swapl_hd _ _ Hd)). reflexivity.
Qed.

Lemma chunk_map : forall (f : Q -> Q) m i l, chunk m i (map f l) = map f (chunk m i l).
Proof. intros. unfold chunk. now rewrite skipn_map, firstn_map. Qed.

Lemma rows_map : forall (f : Q -> Q) n m l, rows n m (map f l) = map (map f) (rows n m l).
Proof. intros. unfold rows. rewrite map_map. apply map_ext. intros i. apply chunk_map. Qed.

Lemma length_rows : forall n m l, List.length (rows n m l) = n.
Proof. intros. unfold rows. now rewrite map_length, seq_length. Qed.

(* ---- in-place operations on vectors ------------------------------------------------------------------------------ *)
Lemma iop2_vec : forall f a b,
  iop2 f (mkT [List.length a] a) (mkT [List.length b] b) =
  if (List.length a =? List.length b) then ROk (mkT [List.length a] (zipw f a b))
  else match b with
       | [v] => ROk (mkT [List.length a] (map (fun u => f u v) a))
       | _ => RRaise runtime_error
       end.
Proof.
  intros f a b. unfold iop2. cbn [shape data nats_eqb]. rewrite andb_true_r.
  destruct (List.length a =? List.length b); [reflexivity|].
  unfold one_elt. cbn [data shape]. destruct b as [|v [|w b]]; reflexivity.
Qed.

Lemma iadd_vec : forall a b,
  OpsC18B.iadd (mkT [List.length a] a) (mkT [List.length b] b) =
  match Model.iadd a b with
  | Ok l => ROk (mkT [List.length l] l)
  | Err _ => RRaise runtime_error
  end.
Proof.
  intros a b. unfold OpsC18B.iadd, Model.iadd. rewrite iop2_vec.
  destruct (Nat.eqb_spec (List.length a) (List.length b)) as [E|E].
  - now rewrite length_zipw.
  - destruct b as [|v [|w b]]; try reflexivity. now rewrite map_length.
Qed.

Lemma iop2_vec_one : forall f a c,
  iop2 f (mkT [List.length a] a) (mkT [1] [c]) = ROk (mkT [List.length a] (map (fun u => f u c) a)).
Proof.
  intros f a c. change (mkT [1] [c]) with (mkT [List.length [c]] [c]). rewrite iop2_vec. cbn [List.length].
  destruct (Nat.eqb_spec (List.length a) 1) as [E|E]; [|reflexivity].
  destruct a as [|u [|w a]]; try discriminate. reflexivity.
Qed.

(* ---- broadcasting -------------------------------------------------------------------------------------------------- *)
Lemma bdim_same : forall n, Ops.bdim n n = Some n.
Proof. intros n. unfold Ops.bdim. now rewrite Nat.eqb_refl. Qed.

Lemma bdim_1_r : forall n, Ops.bdim n 1 = Some n.
Proof. intros n. unfold Ops.bdim. destruct (Nat.eqb_spec n 1); reflexivity. Qed.

Lemma bidx_lt : forall n i, i < n -> Ops.bidx n i = i.
Proof. intros n i H. unfold Ops.bidx. destruct (Nat.eqb_spec n 1); lia. Qed.

Lemma indices1 : forall n, indices [n] = map (fun i => [i]) (seq 0 n).
Proof.
  intros n. cbn [indices map]. induction (seq 0 n) as [|i l IH]; cbn [flat_map map app]; [reflexivity|now rewrite IH].
Qed.

Lemma zipw_seq_nth : forall (f : Q -> Q -> Q) a b n, List.length a = n -> List.length b = n ->
  map (fun i => f (nth i a 0%Q) (nth i b 0%Q)) (seq 0 n) = zipw f a b.
Proof.
  intros f a. induction a as [|x a IH]; intros [|y b] n Ha Hb; cbn [List.length] in *; subst; try discriminate; [reflexivity|].
  cbn [seq map zipw nth]. f_equal. rewrite <- seq_shift, map_map. cbn [nth]. apply IH; [reflexivity|lia].
Qed.

Lemma map_seq_nth : forall (g : Q -> Q) a, map (fun i => g (nth i a 0%Q)) (seq 0 (List.length a)) = map g a.
Proof.
  intros g a. induction a as [|x a IH]; [reflexivity|]. cbn [List.length seq map nth]. f_equal.
  rewrite <- seq_shift, map_map. cbn [nth]. exact IH.
Qed.

Lemma get_vec : forall n a i, get (mkT [n] a) [i] = nth i a 0%Q.
Proof. intros. unfold get. cbn [shape data ravel prodn fold_right]. f_equal. lia. Qed.

Lemma ew2_vec : forall f a b n, List.length a = n -> List.length b = n ->
  ew2 f (mkT [n] a) (mkT [n] b) = ROk (mkT [n] (zipw f a b)).
Proof.
  intros f a b n Ha Hb. unfold ew2, scalar0, ndim. cbn [shape data List.length Nat.eqb bshape].
  rewrite bdim_same. unfold tabulate. rewrite indices1, map_map. do 2 f_equal.
  rewrite <- (zipw_seq_nth f a b n Ha Hb). apply map_ext_in. intros i Hi. apply in_seq in Hi.
  cbn [zipw]. rewrite bidx_lt by lia. now rewrite !get_vec.
Qed.

Lemma ew2_vec_one : forall f a c n, List.length a = n ->
  ew2 f (mkT [n] a) (mkT [1] [c]) = ROk (mkT [n] (map (fun u => f u c) a)).
Proof.
  intros f a c n Ha. unfold ew2, scalar0, ndim. cbn [shape data List.length Nat.eqb bshape].
  rewrite bdim_1_r. unfold tabulate. rewrite indices1, map_map. do 2 f_equal.
  subst n. rewrite <- (map_seq_nth (fun u => f u c) a). apply map_ext_in. intros i Hi. apply in_seq in Hi.
  cbn [zipw]. rewrite bidx_lt by lia. rewrite !get_vec. reflexivity.
Qed.

(* the shape [1, .., 1, X, 1, .., 1] (D sizes, X at position d) of `mean.view(shape)` *)
Fixpoint ones_but (D d X : nat) : list nat :=
  match D with
  | O => []
  | S D' => match d with
            | O => X :: repeat 1 D'
            | S d' => 1 :: ones_but D' d' X
            end
  end.

Lemma length_ones_but : forall D d X, List.length (ones_but D d X) = D.
Proof.
  induction D as [|D IH]; intros [|d] X; cbn [ones_but List.length]; try reflexivity;
    [now rewrite repeat_length|now rewrite IH].
Qed.

Lemma prodn_ones : forall k, prodn (repeat 1 k) = 1.
Proof. induction k as [|k IH]; [reflexivity|]. cbn [repeat]. rewrite prodn_cons, IH. reflexivity. Qed.

Lemma prodn_ones_but : forall D d X, d < D -> prodn (ones_but D d X) = X.
Proof.
  induction D as [|D IH]; intros [|d] X H; try lia; cbn [ones_but]; rewrite prodn_cons.
  - rewrite prodn_ones. lia.
  - rewrite IH by lia. lia.
Qed.

Lemma bshape_ones : forall sh, bshape sh (repeat 1 (List.length sh)) = Some sh.
Proof. induction sh as [|s sh IH]; [reflexivity|]. cbn [List.length repeat bshape]. now rewrite bdim_1_r, IH. Qed.

Lemma bshape_ones_but : forall sh d, d < List.length sh ->
  bshape sh (ones_but (List.length sh) d (nth d sh 0)) = Some sh.
Proof.
  induction sh as [|s sh IH]; intros [|d] H; cbn [List.length] in *; try lia; cbn [ones_but nth bshape].
  - now rewrite bdim_same, bshape_ones.
  - rewrite bdim_1_r, IH by lia. reflexivity.
Qed.

Lemma zipw_bidx_valid : forall sh idx, valid sh idx -> zipw Ops.bidx sh idx = idx.
Proof.
  intros sh idx H. induction H as [|i s idx sh Hi H IH]; [reflexivity|].
  cbn [zipw]. now rewrite bidx_lt, IH.
Qed.

Lemma ravel_ones : forall k r, ravel (repeat 1 k) (zipw Ops.bidx (repeat 1 k) r) = 0.
Proof.
  induction k as [|k IH]; intros [|i r]; try reflexivity.
  cbn [repeat zipw ravel]. rewrite IH. reflexivity.
Qed.

Lemma ravel_ones_but : forall D d X idx, List.length idx = D -> d < D -> nth d idx 0 < X ->
  ravel (ones_but D d X) (zipw Ops.bidx (ones_but D d X) idx) = nth d idx 0.
Proof.
  induction D as [|D IH]; intros [|d] X [|i r] HL Hd Hi; cbn [List.length] in *; try lia;
    cbn [ones_but zipw ravel nth] in *.
  - rewrite ravel_ones, prodn_ones, bidx_lt by lia. lia.
  - rewrite IH by lia. reflexivity.
Qed.

(* x - mean.view(shape), x / std.view(shape)...: the vector v laid along dimension d *)
Lemma ew2_bcast : forall f x d v,
  d < List.length (shape x) ->
  ew2 f x (mkT (ones_but (List.length (shape x)) d (nth d (shape x) 0)) v) = ROk (bcast x d v f).
Proof.
  intros f x d v Hd. unfold ew2, scalar0, ndim. cbn [shape data].
  destruct (ones_but (List.length (shape x)) d (nth d (shape x) 0)) as [|o os] eqn:E.
  { pose proof (length_ones_but (List.length (shape x)) d (nth d (shape x) 0)) as HL. rewrite E in HL. cbn in HL. lia. }
  rewrite <- E. rewrite length_ones_but, Nat.eqb_refl, bshape_ones_but by assumption.
  unfold bcast, tabulate. do 2 f_equal. apply map_ext_in. intros idx Hin. apply in_indices in Hin.
  rewrite (zipw_bidx_valid _ _ Hin). f_equal.
  unfold get at 1. cbn [shape data]. f_equal. apply ravel_ones_but.
  - apply (valid_length _ _ Hin).
  - assumption.
  - apply (valid_nth _ _ _ Hin Hd).
Qed.

(* mean.view(shape) for a vector *)
Lemma forallb_nonneg : forall l, forallb (fun z => (-1 <=? z)%Z) (map Z.of_nat l) = true.
Proof.
  induction l as [|n l IH]; [reflexivity|]. cbn [map forallb]. rewrite IH.
  replace (-1 <=? Z.of_nat n)%Z with true by lia. reflexivity.
Qed.

Lemma filter_m1_nonneg : forall l, filter (fun z => (z =? -1)%Z) (map Z.of_nat l) = [].
Proof.
  induction l as [|n l IH]; [reflexivity|]. cbn [map filter].
  replace (Z.of_nat n =? -1)%Z with false by lia. exact IH.
Qed.

Lemma zprod_of_nat : forall l, zprod (map Z.of_nat l) = Z.of_nat (prodn l).
Proof.
  induction l as [|n l IH]; [reflexivity|]. cbn [map]. unfold zprod in *. cbn [fold_right].
  rewrite IH, prodn_cons. lia.
Qed.

Lemma to_of_nat_list : forall l, map Z.to_nat (map Z.of_nat l) = l.
Proof. induction l as [|n l IH]; [reflexivity|]. cbn [map]. now rewrite IH, Nat2Z.id. Qed.

Lemma view_nat : forall x sh,
  OpsC18B.view x (map Z.of_nat sh) =
  if (prodn sh =? List.length (data x)) then ROk (mkT sh (data x)) else RRaise runtime_error.
Proof.
  intros x sh. unfold OpsC18B.view. rewrite forallb_nonneg, filter_m1_nonneg, zprod_of_nat, to_of_nat_list.
  destruct (Nat.eqb_spec (prodn sh) (List.length (data x))) as [E|E].
  - replace (Z.of_nat (prodn sh) =? Z.of_nat (List.length (data x)))%Z with true by lia. reflexivity.
  - replace (Z.of_nat (prodn sh) =? Z.of_nat (List.length (data x)))%Z with false by lia. reflexivity.
Qed.
