#!/bin/sh
# developer tool: run quick checks for several seeds on the unchanged tree; report any alarm
# usage: seed_sweep.sh "C02 C03 ..."|all seed...     (location-relative: usable from a vp run snapshot)
cd "$(dirname "$0")/.."
PROPS=$1; shift
[ "$PROPS" = all ] && PROPS=$(python3 -c "import json;print(' '.join(c['property_id'] for c in json.load(open('MANIFEST.json'))['checks']))")
L=${TMPDIR:-/tmp}/sweep_$$; mkdir -p $L
for seed in "$@"; do
  for p in $PROPS; do
    VERIF_SEED=$seed /venv/bin/python harness/vcheck.py $p --tier quick > $L/${p}_$seed.log 2>&1; rc=$?
    grep '^VIOLATION\|HARNESS ERROR' $L/${p}_$seed.log | head -3
    echo "seed=$seed $p rc=$rc $(grep -c '^VIOLATION' $L/${p}_$seed.log) $(tail -1 $L/${p}_$seed.log | cut -c1-120)"
  done
done
