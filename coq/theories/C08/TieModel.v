(* C08 tie - the per-element formulas [s_*] of TieBlocks.v (what the MiniTorch operations compute) are the
   functions of PV.C08.Model at the arithmetic [pyq a] (float32 rounding [r32 a], Python doubles exact):
     * masks (integers): EQUAL, for every arithmetic [a], no hypothesis;
     * warps (rationals): equal as rationals ([==]) for every [a] satisfying [rounding_laws] (used: [r32 a]
       respects [==] and is exact on 0 and 2 - the source multiplies / divides by the Python int 2, which
       torch converts to float32, where the model writes the literal). *)
From Coq Require Import List ZArith QArith Qround Qabs Bool Lia Lqa Morphisms Setoid.
From PV Require Import C08.Model C08.Spec C08.ProofsDraw C08.ProofsRound.
From PV Require Import MiniPy.Syntax MiniTorch.OpsC08 C08.SrcRun C08.TieBlocks C08.TieBlocks2.
From PV Require MiniTorch.Lemmas.
Import ListNotations.
Local Open Scope Q_scope.

Lemma Qle_bool_z2q x y : Qle_bool (z2q x) (z2q y) = (x <=? y)%Z.
Proof. unfold Qle_bool, z2q, inject_Z. cbn [Qnum Qden]. now rewrite !Z.mul_1_r. Qed.

(* ---- masks: equal ------------------------------------------------------------------------------------- *)
Definition om_of (eps : Q) : Q := Qred (inject_Z 1 - eps).

Lemma time_masks_src a eps c len (rt rt0 : nat -> Q) :
  time_masks (pyq a) eps c len (map rt (seq 0 (c_nt c))) (map rt0 (seq 0 (c_nt c)))
  = map (fun m => let t := s_t a (om_of eps) (s_cap a (c_pt c) (c_Mt c) (lenq a len))
                               (s_cap a (c_npt c) (Z.of_nat (c_nt c)) (lenq a len)) m (rt m) in
                  (s_t0 a (om_of eps) (lenq a len) t (rt0 m), t)) (seq 0 (c_nt c)).
Proof.
  unfold time_masks. apply map_ext_in. intros m Hm. apply in_seq in Hm.
  rewrite !(MiniTorch.Lemmas.nth_map_seq _ (c_nt c) m 0) by lia.
  unfold tm_t, tm_t0, s_t, s_t0, s_cap, cap, lenq, omeps, om_of, sc. cbn [r32 r64 pyq].
  rewrite Qle_bool_z2q. reflexivity.
Qed.

Lemma freq_masks_src a eps c F (rf rf0 : nat -> Q) :
  freq_masks (pyq a) eps c F (map rf (seq 0 (c_nf c))) (map rf0 (seq 0 (c_nf c)))
  = map (fun m => let f := s_f a (Qred (inject_Z (Z.min (c_Mf c) F) + om_of eps)) (rf m) in
                  (s_f0 a (om_of eps) F f (rf0 m), f)) (seq 0 (c_nf c)).
Proof.
  unfold freq_masks. apply map_ext_in. intros m Hm. apply in_seq in Hm.
  rewrite !(MiniTorch.Lemmas.nth_map_seq _ (c_nf c) m 0) by lia.
  reflexivity.
Qed.

(* ---- warps: equal as rationals, under the rounding laws ------------------------------------------------- *)
Lemma qmin_comp x x' y y' : x == x' -> y == y' -> qmin x y == qmin x' y'.
Proof.
  intros Hx Hy. unfold qmin.
  destruct (Qle_bool x y) eqn:E1; destruct (Qle_bool x' y') eqn:E2; try assumption.
  - apply Qle_bool_iff in E1. assert (N : ~ x' <= y') by (intros N; apply Qle_bool_iff in N; congruence).
    exfalso. apply N. rewrite <- Hx, <- Hy. exact E1.
  - apply Qle_bool_iff in E2. assert (N : ~ x <= y) by (intros N; apply Qle_bool_iff in N; congruence).
    exfalso. apply N. rewrite Hx, Hy. exact E2.
Qed.

Lemma qmax_comp x x' y y' : x == x' -> y == y' -> qmax x y == qmax x' y'.
Proof.
  intros Hx Hy. unfold qmax.
  destruct (Qle_bool x y) eqn:E1; destruct (Qle_bool x' y') eqn:E2; try assumption.
  - apply Qle_bool_iff in E1. assert (N : ~ x' <= y') by (intros N; apply Qle_bool_iff in N; congruence).
    exfalso. apply N. rewrite <- Hx, <- Hy. exact E1.
  - apply Qle_bool_iff in E2. assert (N : ~ x <= y) by (intros N; apply Qle_bool_iff in N; congruence).
    exfalso. apply N. rewrite Hx, Hy. exact E2.
Qed.

Section Warps.
  Variable a : arith.
  Hypothesis laws : rounding_laws a.

  #[local] Instance r32_proper : Proper (Qeq ==> Qeq) (r32 a).
  Proof. intros x y H. apply (r32_comp a laws). exact H. Qed.
  #[local] Instance qmin_proper : Proper (Qeq ==> Qeq ==> Qeq) qmin.
  Proof. intros x x' Hx y y' Hy. now apply qmin_comp. Qed.
  #[local] Instance qmax_proper : Proper (Qeq ==> Qeq ==> Qeq) qmax.
  Proof. intros x x' Hx y y' Hy. now apply qmax_comp. Qed.

  Lemma sc_two : sc a (inject_Z 2) == 2.
  Proof. unfold sc. change (inject_Z 2) with (z2q 2). apply (rl32_int a laws). unfold two24. cbn. lia. Qed.
  Lemma sc_zero : sc a (inject_Z 0) == 0.
  Proof. unfold sc. change (inject_Z 0) with (z2q 0). apply (rl32_int a laws). unfold two24. cbn. lia. Qed.

  Lemma sc_two_nz : Qeq_bool (sc a (inject_Z 2)) 0 = false.
  Proof.
    destruct (Qeq_bool (sc a (inject_Z 2)) 0) eqn:E; [|reflexivity].
    apply Qeq_bool_iff in E. rewrite sc_two in E. discriminate E.
  Qed.

  (* time warp *)
  Lemma s_W_model eps Wt len : s_W a eps Wt (lenq a len) == tw_W (pyq a) eps Wt len.
  Proof.
    unfold s_W, tw_W, lenq. cbn [r32 pyq]. rewrite sc_two, sc_zero. unfold sc. reflexivity.
  Qed.

  Lemma s_w0_model W W' len u : W == W' -> s_w0 a W (lenq a len) u == tw_w0 (pyq a) W' len u.
  Proof.
    intros H. unfold s_w0, tw_w0, lenq. cbn [r32 pyq]. rewrite sc_two, H.
    rewrite (Qmult_comm W' 2). reflexivity.
  Qed.

  Lemma s_w_model W W' u : W == W' -> s_w a W u == tw_w (pyq a) W' u.
  Proof.
    intros H. unfold s_w, tw_w. cbn [r32 pyq]. rewrite sc_two, H. rewrite (Qmult_comm W' 2). reflexivity.
  Qed.

  (* frequency warp: the Python number V and the numbers derived from it *)
  Lemma V_val_model eps Wf F : fw_s2 (V_val eps Wf F) == fw_V (pyq a) eps Wf F.
  Proof.
    unfold fw_V, V_val. cbn [r64 pyq]. change (Qred (Qred (z2q F / 2) - eps)) with (fw_x1 eps F).
    set (x := fw_x1 eps F). change (inject_Z 0) with 0.
    unfold qmin, qmax.
    destruct (Qcompare 0 x) eqn:E1;
      [apply Qeq_alt in E1|apply Qlt_alt in E1|apply Qgt_alt in E1];
      (destruct (Qcompare Wf _) eqn:E2;
        [apply Qeq_alt in E2|apply Qlt_alt in E2|apply Qgt_alt in E2]);
      cbn [fw_s2]; change (inject_Z 0) with 0;
      repeat match goal with
             | |- context [Qle_bool ?p ?q] =>
                 lazymatch p with context [Qle_bool _ _] => fail | _ => idtac end;
                 let E := fresh "B" in
                 destruct (Qle_bool p q) eqn:E;
                 [apply Qle_bool_iff in E
                 |assert (q < p) by (apply Qnot_le_lt; let N := fresh in intros N; apply Qle_bool_iff in N; congruence); clear E]
             end; lra.
  Qed.

  Lemma inject_Z_sub x y : inject_Z (x - y) == inject_Z x - inject_Z y.
  Proof. unfold Qeq, Qminus, Qplus, Qopp, inject_Z. cbn [Qnum Qden]. lia. Qed.

  Lemma fw_s3_eq Vv : (exists z, Vv = VInt z) \/ (exists q, Vv = VQ q) -> fw_s3 Vv == 2 * fw_s2 Vv.
  Proof.
    intros [[z ->]|[q ->]]; cbn [fw_s3 fw_s2].
    - rewrite inject_Z_mult. reflexivity.
    - rewrite Qred_correct. reflexivity.
  Qed.

  Lemma fw_s1_eq F Vv : (exists z, Vv = VInt z) \/ (exists q, Vv = VQ q) -> fw_s1 F Vv == z2q F - 2 * fw_s2 Vv.
  Proof.
    intros [[z ->]|[q ->]]; cbn [fw_s1 fw_s2].
    - rewrite inject_Z_sub, inject_Z_mult. reflexivity.
    - rewrite !Qred_correct. reflexivity.
  Qed.

  Lemma s_v0_model eps Wf F u :
    let Vv := V_val eps Wf F in
    s_v0 a (fw_s1 F Vv) (fw_s2 Vv) u == fw_v0 (pyq a) (fw_V (pyq a) eps Wf F) F u.
  Proof.
    intros Vv. unfold s_v0, fw_v0, sc. cbn [r32 r64 pyq].
    rewrite (fw_s1_eq F Vv (V_val_shape eps Wf F)). unfold Vv. rewrite (V_val_model eps Wf F).
    rewrite !Qred_correct. reflexivity.
  Qed.

  Lemma s_v_model eps Wf F u :
    let Vv := V_val eps Wf F in
    s_v a (fw_s3 Vv) (fw_s2 Vv) u == fw_v (pyq a) (fw_V (pyq a) eps Wf F) u.
  Proof.
    intros Vv. unfold s_v, fw_v, sc. cbn [r32 r64 pyq].
    rewrite (fw_s3_eq Vv (V_val_shape eps Wf F)). unfold Vv. rewrite (V_val_model eps Wf F).
    rewrite !Qred_correct. reflexivity.
  Qed.
End Warps.

(* ---- transporting the model theorems to the arithmetic [pyq a] --------------------------------------------- *)
Lemma pyq_laws a : rounding_laws a -> rounding_laws (pyq a).
Proof.
  intros L. constructor; cbn [r32 r64 pyq].
  - exact (rl32_mono a L).
  - exact (rl32_int a L).
  - exact (rl32_strict a L).
  - intros x y H. rewrite !Qred_correct. exact H.
  - intros z _. apply Qred_correct.
Qed.

(* over Q ([exact]): Python doubles in lowest terms do not change any mask *)
Lemma time_masks_pyq_exact eps c len us us0 :
  time_masks (pyq exact) eps c len us us0 = time_masks exact eps c len us us0.
Proof.
  unfold time_masks. apply map_ext. intros m.
  assert (E : forall mx nm u, tm_t (pyq exact) eps mx nm m u = tm_t exact eps mx nm m u).
  { intros mx nm u. unfold tm_t, omeps. cbn [r32 r64 pyq exact]. destruct (nm <=? Z.of_nat m)%Z; [reflexivity|].
    apply qtrunc_comp. rewrite Qred_correct. reflexivity. }
  change (cap (pyq exact)) with (cap exact). rewrite E. f_equal.
  unfold tm_t0, omeps, lenq. cbn [r32 r64 pyq exact]. apply qtrunc_comp. rewrite Qred_correct. reflexivity.
Qed.

Lemma freq_masks_pyq_exact eps c F us us0 :
  freq_masks (pyq exact) eps c F us us0 = freq_masks exact eps c F us us0.
Proof.
  unfold freq_masks. apply map_ext. intros m.
  assert (E : forall u, fm_f (pyq exact) eps (Z.min (c_Mf c) F) u = fm_f exact eps (Z.min (c_Mf c) F) u).
  { intros u. unfold fm_f. cbn [r32 r64 pyq exact]. apply qtrunc_comp. rewrite !Qred_correct. reflexivity. }
  rewrite E. f_equal.
  unfold fm_f0, omeps. cbn [r32 r64 pyq exact]. apply qtrunc_comp. rewrite Qred_correct. reflexivity.
Qed.
