(* C19 - declarative reading of the property, independent of how the estimators work.

   "the average over the whole sample space of the value returned by the estimator - and of its
    gradient - equals the exact expectation and its exact gradient":

     space_average q N G  =  sum over all N-tuples t of outcomes of  (prod_n q(t_n)) * G(t)     (a dual)
     exact p f            =  (sum_b p(b) f(b),  sum_b dp(b) f(b) + p(b) df(b))                   (a dual)

   [unbiased_okb] evaluates this on IMPLEMENTATION outputs (one dual per sample tuple) with a tolerance;
   it is what the harness uses to judge an implementation that differs from the model. *)
From Coq Require Import List ZArith QArith Qabs Bool.
From PV Require Import C19.Model.
Import ListNotations.
Local Open Scope Q_scope.

(* probability of drawing the tuple t i.i.d. from the table qd *)
Definition weight (qd : ptable) (t : list nat) : Q := Qprod (map (pr qd) t).

Definition space_average (qd : ptable) (N : nat) (G : list nat -> dual) : dual :=
  dsum (map (fun t => dscale (weight qd t) (G t)) (tuples (length qd) N)).

Definition exact (pd : ptable) (f : list dual) : dual := expect_dual pd f.

(* equality of duals up to Qeq *)
Definition deq (a b : dual) : Prop := fst a == fst b /\ snd a == snd b.

(* a table is a differentiable family of probability distributions with full support *)
Definition is_dist (pd : ptable) : Prop :=
  Qsum (map fst pd) == 1 /\ Qsum (map snd pd) == 0 /\ Forall (fun e => 0 < fst e) pd.

(* a table is a differentiable positive density (not necessarily normalised) *)
Definition is_density (pd : ptable) : Prop := Forall (fun e => 0 < fst e) pd.

Definition unbiased (pd qd : ptable) (f : list dual) (N : nat) (G : list nat -> dual) : Prop :=
  deq (space_average qd N G) (exact pd f).

(* the same on a list of implementation outputs in tuple order, with tolerance *)
Definition space_average_list (qd : ptable) (N : nat) (outs : list dual) : dual :=
  dsum (map2 (fun t o => dscale (weight qd t) o) (tuples (length qd) N) outs).

Definition unbiased_okb (tol : Q) (N : nat) (pd qd : ptable) (f : list dual) (outs : list dual) : bool :=
  Nat.eqb (length outs) (length (tuples (length qd) N)) &&
  dclose tol (space_average_list qd N outs) (exact pd f).
