(* MiniPy — big-step interpreter (the semantics given to the translated Python).

   Value semantics: every container is an immutable tree and an assignment through a
   path (self.a = v, d[k] = v, x.append(v)) rebuilds the spine.  This coincides with
   Python's reference semantics as long as no mutable object is reachable through two
   paths and mutated through one of them; the translator refuses bare-name aliasing of
   containers (x = y) and the tie lemmas are additionally validated by running this
   interpreter (vm_compute) and CPython on the same inputs in the correspondence.

   [ext] gives meaning to the calls the subset does not define itself (methods of
   `self`, `torch.distributed.*`, `argcheck.*`, `os.path.exists`, ...): it is supplied
   per translated unit by the Tie file, as a Gallina function, never as an axiom.

   No proofs in this file. *)
From Coq Require Import ZArith QArith Qround List String Ascii Bool.
From PV Require Import MiniPy.Syntax.
Import ListNotations.
Local Open Scope string_scope.

Definition event : Type := (string * list val)%type.

Record state := mkState { vars : list (string * val); events : list event }.

Inductive outcome (A : Type) :=
| Ok (a : A) (st : state)
| Exc (name : string) (st : state)      (* a Python exception propagates *)
| Stuck (why : string).                 (* outside the modelled subset *)
Arguments Ok {A}. Arguments Exc {A}. Arguments Stuck {A}.

Definition bind {A B} (o : outcome A) (f : A -> state -> outcome B) : outcome B :=
  match o with Ok a st => f a st | Exc n st => Exc n st | Stuck w => Stuck w end.

(* ---- values: equality, truthiness, numbers ---------------------------------- *)
Definition as_q (v : val) : option Q :=
  match v with
  | VInt z => Some (inject_Z z)
  | VBool b => Some (inject_Z (if b then 1 else 0))
  | VQ q => Some q
  | _ => None
  end.

Definition as_z (v : val) : option Z :=
  match v with VInt z => Some z | VBool b => Some (if b then 1 else 0)%Z | _ => None end.

Fixpoint val_eqb (a b : val) {struct a} : bool :=
  let fix leq (x y : list val) {struct x} : bool :=
    match x, y with
    | [], [] => true
    | u :: x', w :: y' => val_eqb u w && leq x' y'
    | _, _ => false
    end in
  let fix deq (x y : list (val * val)) {struct x} : bool :=
    match x, y with
    | [], [] => true
    | (k1, v1) :: x', (k2, v2) :: y' => val_eqb k1 k2 && val_eqb v1 v2 && deq x' y'
    | _, _ => false
    end in
  match a, b with
  | VNone, VNone => true
  | VStr s, VStr t => String.eqb s t
  | VList x, VList y => leq x y
  | VTuple x, VTuple y => leq x y
  | VSet x, VSet y => leq x y          (* insertion order: only used on canonical sets *)
  | VDict x, VDict y => deq x y
  | VInt x, VInt y => Z.eqb x y
  | VBool x, VBool y => Bool.eqb x y
  | VInf x, VInf y => Bool.eqb x y
  | _, _ => match as_q a, as_q b with
            | Some p, Some q => Qeq_bool p q
            | _, _ => false
            end
  end.

Definition truthy (v : val) : bool :=
  match v with
  | VNone => false
  | VBool b => b
  | VInt z => negb (Z.eqb z 0)
  | VQ q => negb (Qeq_bool q 0)
  | VInf _ => true
  | VStr s => negb (String.eqb s "")
  | VList l | VTuple l | VSet l => match l with [] => false | _ => true end
  | VDict d => match d with [] => false | _ => true end
  end.

Fixpoint mem (v : val) (l : list val) : bool :=
  match l with [] => false | x :: r => val_eqb v x || mem v r end.

Fixpoint dedup (l : list val) : list val :=
  match l with [] => [] | x :: r => if mem x r then dedup r else x :: dedup r end.

(* set literal / union keep first occurrences, in order *)
Fixpoint set_add_all (acc l : list val) : list val :=
  match l with [] => acc | x :: r => set_add_all (if mem x acc then acc else acc ++ [x]) r end.

Fixpoint dict_get (d : list (val * val)) (k : val) : option val :=
  match d with
  | [] => None
  | (k', v) :: r => if val_eqb k k' then Some v else dict_get r k
  end.

Fixpoint dict_set (d : list (val * val)) (k v : val) : list (val * val) :=
  match d with
  | [] => [(k, v)]
  | (k', v') :: r => if val_eqb k k' then (k', v) :: r else (k', v') :: dict_set r k v
  end.

Fixpoint dict_del (d : list (val * val)) (k : val) : list (val * val) :=
  match d with
  | [] => []
  | (k', v') :: r => if val_eqb k k' then r else (k', v') :: dict_del r k
  end.

(* l[i] = v on a list (i in range) *)
Fixpoint list_set (l : list val) (i : nat) (v : val) : list val :=
  match l, i with
  | [], _ => []
  | _ :: r, O => v :: r
  | x :: r, S i' => x :: list_set r i' v
  end.

Fixpoint lookup (x : string) (l : list (string * val)) : option val :=
  match l with
  | [] => None
  | (y, v) :: r => if String.eqb x y then Some v else lookup x r
  end.

Fixpoint update (x : string) (v : val) (l : list (string * val)) : list (string * val) :=
  match l with
  | [] => [(x, v)]
  | (y, w) :: r => if String.eqb x y then (y, v) :: r else (y, w) :: update x v r
  end.

Definition set_var (x : string) (v : val) (st : state) : state :=
  mkState (update x v (vars st)) (events st).

Definition emit (e : event) (st : state) : state := mkState (vars st) (events st ++ [e]).

(* ---- operators ------------------------------------------------------------------ *)
Definition num_bin (fz : Z -> Z -> Z) (fq : Q -> Q -> Q) (a b : val) : option val :=
  match a, b with
  | VQ _, _ | _, VQ _ =>
      match as_q a, as_q b with Some p, Some q => Some (VQ (Qred (fq p q))) | _, _ => None end
  | _, _ => match as_z a, as_z b with Some x, Some y => Some (VInt (fz x y)) | _, _ => None end
  end.

(* IEEE results involving an infinity that are not NaN; None = NaN or not numeric (Stuck) *)
Definition inf_bin (op : binop) (a b : val) : option val :=
  match op, a, b with
  | Add, VInf p, VInf q => if Bool.eqb p q then Some (VInf p) else None
  | Add, VInf p, _ => match as_q b with Some _ => Some (VInf p) | None => None end
  | Add, _, VInf p => match as_q a with Some _ => Some (VInf p) | None => None end
  | Sub, VInf p, VInf q => if Bool.eqb p q then None else Some (VInf p)
  | Sub, VInf p, _ => match as_q b with Some _ => Some (VInf p) | None => None end
  | Sub, _, VInf p => match as_q a with Some _ => Some (VInf (negb p)) | None => None end
  | _, _, _ => None
  end.

Definition is_inf (v : val) : bool := match v with VInf _ => true | _ => false end.

Definition set_inter (x y : list val) := filter (fun v => mem v y) x.
Definition set_diff (x y : list val) := filter (fun v => negb (mem v y)) x.

Definition binop_eval (op : binop) (a b : val) (st : state) : outcome val :=
  if (is_inf a || is_inf b)%bool then
    match inf_bin op a b with Some v => Ok v st | None => Stuck "arithmetic on an infinity" end
  else
  match op, a, b with
  | Add, VStr s, VStr t => Ok (VStr (s ++ t)) st
  | Add, VList x, VList y => Ok (VList (x ++ y)) st
  | Add, _, _ => match num_bin Z.add Qplus a b with Some v => Ok v st | None => Stuck "add" end
  | Sub, VSet x, VSet y => Ok (VSet (set_diff x y)) st
  | Sub, _, _ => match num_bin Z.sub Qminus a b with Some v => Ok v st | None => Stuck "sub" end
  | Mul, _, _ => match num_bin Z.mul Qmult a b with Some v => Ok v st | None => Stuck "mul" end
  | FloorDiv, _, _ =>
      match as_z a, as_z b, a, b with
      | _, _, VQ _, _ | _, _, _, VQ _ => Stuck "floordiv on floats"
      | Some x, Some y, _, _ => if Z.eqb y 0 then Exc "ZeroDivisionError" st else Ok (VInt (Z.div x y)) st
      | _, _, _, _ => Stuck "floordiv"
      end
  | Mod, _, _ =>
      match as_z a, as_z b, a, b with
      | _, _, VQ _, _ | _, _, _, VQ _ => Stuck "mod on floats"
      | Some x, Some y, _, _ => if Z.eqb y 0 then Exc "ZeroDivisionError" st else Ok (VInt (Z.modulo x y)) st
      | _, _, _, _ => Stuck "mod"
      end
  | Pow, VInt x, VInt y => if Z.leb 0 y then Ok (VInt (Z.pow x y)) st else Stuck "pow with negative exponent"
  | Pow, _, _ => Stuck "pow"
  | BitAnd, VSet x, VSet y => Ok (VSet (set_inter x y)) st
  | BitAnd, VInt x, VInt y => Ok (VInt (Z.land x y)) st
  | BitAnd, _, _ => Stuck "and"
  | BitOr, VSet x, VSet y => Ok (VSet (set_add_all x y)) st
  | BitOr, VInt x, VInt y => Ok (VInt (Z.lor x y)) st
  | BitOr, _, _ => Stuck "or"
  | Div, _, _ =>      (* true division of Python numbers: always a float (exact rational here); x / 0 raises *)
      match as_q a, as_q b with
      | Some p, Some q => if Qeq_bool q 0 then Exc "ZeroDivisionError" st else Ok (VQ (Qred (p / q))) st
      | _, _ => Stuck "truediv"
      end
  end.

Definition q_cmp (op : cmpop) (p q : Q) : bool :=
  match op with
  | Lt => match Qcompare p q with Datatypes.Lt => true | _ => false end
  | LtE => match Qcompare p q with Datatypes.Gt => false | _ => true end
  | Gt => match Qcompare p q with Datatypes.Gt => true | _ => false end
  | GtE => match Qcompare p q with Datatypes.Lt => false | _ => true end
  | _ => false
  end.

Definition container_items (v : val) : option (list val) :=
  match v with
  | VList l | VTuple l | VSet l => Some l
  | VDict d => Some (map fst d)
  | _ => None
  end.

Definition cmp_eval (op : cmpop) (a b : val) : option bool :=
  match op with
  | Eq => Some (val_eqb a b)
  | NotEq => Some (negb (val_eqb a b))
  | Lt | LtE | Gt | GtE =>
      match a, b with
      | VInf p, VInf q =>
          Some (match op with
                | Lt => (negb p && q)%bool | LtE => (negb p || q)%bool
                | Gt => (p && negb q)%bool | _ => (p || negb q)%bool
                end)
      | VInf p, _ => match as_q b with
                     | Some _ => Some (match op with Lt | LtE => negb p | _ => p end)
                     | None => None
                     end
      | _, VInf p => match as_q a with
                     | Some _ => Some (match op with Lt | LtE => p | _ => negb p end)
                     | None => None
                     end
      | _, _ => match as_q a, as_q b with Some p, Some q => Some (q_cmp op p q) | _, _ => None end
      end
  | In => option_map (mem a) (container_items b)
  | NotIn => option_map (fun l => negb (mem a l)) (container_items b)
  | Is => match a, b with
          | VNone, _ | _, VNone => Some (val_eqb a b)
          | VBool x, VBool y => Some (Bool.eqb x y)
          | _, _ => None
          end
  | IsNot => match a, b with
             | VNone, _ | _, VNone => Some (negb (val_eqb a b))
             | VBool x, VBool y => Some (negb (Bool.eqb x y))
             | _, _ => None
             end
  end.

(* ---- builtins ------------------------------------------------------------------- *)
Fixpoint stride (w k : nat) (l : list val) : list val :=
  match l with
  | [] => []
  | x :: t => match k with
              | O => x :: stride w (w - 1) t
              | S k' => stride w k' t
              end
  end.

Fixpoint q_extreme (gt : bool) (best : val) (l : list val) : option val :=
  match l with
  | [] => Some best
  | x :: r =>
      match cmp_eval (if gt then Gt else Lt) x best with
      | Some better => q_extreme gt (if better then x else best) r
      | None => None
      end
  end.

Definition zrange (lo hi : Z) : list val :=
  map (fun i => VInt (lo + Z.of_nat i)) (seq 0 (Z.to_nat (hi - lo))).

(* Some result = the call is a builtin of the subset; None = ask [ext] *)
Definition is (f g : string) : bool := String.eqb f g.

Definition extreme_of (gt : bool) (args : list val) (st : state) : outcome val :=
  match args with
  | [a; b] => match q_extreme gt a [b] with Some v => Ok v st | None => Stuck "max/min" end
  | [v] => match container_items v with
           | Some (x :: r) => match q_extreme gt x r with Some m => Ok m st | None => Stuck "max/min" end
           | Some [] => Exc "ValueError" st
           | None => Stuck "max/min"
           end
  | a :: b :: c :: r =>      (* max(a, b, c, ...): the first extreme argument, as for two *)
      match q_extreme gt a (b :: c :: r) with Some v => Ok v st | None => Stuck "max/min" end
  | _ => Stuck "max/min arity"
  end.

Definition builtin (f : string) (args : list val) (st : state) : option (outcome val) :=
  if is f "len" then
    match args with
    | [v] => match container_items v, v with
             | Some l, _ => Some (Ok (VInt (Z.of_nat (List.length l))) st)
             | None, VStr s => Some (Ok (VInt (Z.of_nat (String.length s))) st)
             | None, _ => None     (* len of an opaque object: ext *)
             end
    | _ => None
    end
  else if is f "max" then Some (extreme_of true args st)
  else if is f "min" then Some (extreme_of false args st)
  else if is f "bool" then match args with [v] => Some (Ok (VBool (truthy v)) st) | _ => None end
  else if is f "dict" then
    match args with
    | [VDict d] => Some (Ok (VDict d) st)
    | [] => Some (Ok (VDict []) st)
    | _ => None
    end
  else if is f "list" then
    match args with
    | [v] => Some (match container_items v with Some l => Ok (VList l) st | None => Stuck "list" end)
    | [] => Some (Ok (VList []) st)
    | _ => None
    end
  else if is f "tuple" then
    match args with
    | [v] => Some (match container_items v with Some l => Ok (VTuple l) st | None => Stuck "tuple" end)
    | _ => None
    end
  else if is f "set" then
    match args with
    | [v] => Some (match container_items v with Some l => Ok (VSet (set_add_all [] l)) st | None => Stuck "set" end)
    | [] => Some (Ok (VSet []) st)
    | _ => None
    end
  else if is f "iter" then match args with [VList l] => Some (Ok (VList l) st) | _ => None end
  else if is f "range" then
    match args with
    | [VInt n] => Some (Ok (VList (zrange 0 n)) st)
    | [VInt a; VInt b] => Some (Ok (VList (zrange a b)) st)
    | _ => None
    end
  else if is f "slice" then
    match args with
    | [a; b; c] => Some (Ok (VTuple [VStr "$slice"; a; b; c]) st)
    | _ => None
    end
  else if is f "$ellipsis" then
    match args with [] => Some (Ok (VTuple [VStr "$ellipsis"]) st) | _ => None end
  else if is f "islice" then
    match args with
    | [VList l; VInt a; VInt b; VInt c] =>
        Some (if (Z.leb 0 a && Z.leb 0 b && Z.ltb 0 c)%bool
              then Ok (VList (stride (Z.to_nat c) 0 (skipn (Z.to_nat a) (firstn (Z.to_nat b) l)))) st
              else Exc "ValueError" st)
    | _ => None
    end
  else None.

(* methods of container values; mutating ones return the new container as well *)
Definition method (o : val) (m : string) (args : list val) : option (val * option val) :=
  match o with
  | VDict d =>
      if is m "get" then
        match args with
        | [k] => Some (match dict_get d k with Some v => v | None => VNone end, None)
        | [k; dflt] => Some (match dict_get d k with Some v => v | None => dflt end, None)
        | _ => None
        end
      else if is m "items" then
        match args with [] => Some (VList (map (fun kv => VTuple [fst kv; snd kv]) d), None) | _ => None end
      else if is m "keys" then match args with [] => Some (VList (map fst d), None) | _ => None end
      else if is m "values" then match args with [] => Some (VList (map snd d), None) | _ => None end
      else if is m "copy" then match args with [] => Some (VDict d, None) | _ => None end
      else if is m "setdefault" then
        match args with
        | [k; dflt] => Some (match dict_get d k with
                             | Some v => (v, None)
                             | None => (dflt, Some (VDict (dict_set d k dflt)))
                             end)
        | _ => None
        end
      else if is m "pop" then
        match args with
        | [k] => match dict_get d k with Some v => Some (v, Some (VDict (dict_del d k))) | None => None end
        | _ => None
        end
      else None
  | VList l =>
      if is m "append" then match args with [v] => Some (VNone, Some (VList (l ++ [v]))) | _ => None end
      else None
  | VSet l =>
      if is m "add" then
        match args with [v] => Some (VNone, Some (VSet (if mem v l then l else l ++ [v]))) | _ => None end
      else None
  | _ => None
  end.

(* stable insertion sort of (key, item) pairs by numeric key.  [e] stood BEFORE every element of the sorted tail [l] in the
   original order: it is put in front of the first y whose key is not smaller than its own, so items with equal keys keep
   their original order (Python's sorted is stable).  (Until the C11 tie this read "in front of the first y with key e < key y",
   which REVERSED runs of equal keys; no unit tied before sorts items with equal keys.) *)
Fixpoint insert_keyed (e : val * val) (l : list (val * val)) : option (list (val * val)) :=
  match l with
  | [] => Some [e]
  | y :: t =>
      match cmp_eval Lt (fst y) (fst e) with
      | Some true => option_map (cons y) (insert_keyed e t)
      | Some false => Some (e :: y :: t)
      | None => None
      end
  end.

Fixpoint sort_keyed_aux (l : list (val * val)) : option (list (val * val)) :=
  match l with
  | [] => Some []
  | e :: t => match sort_keyed_aux t with Some s => insert_keyed e s | None => None end
  end.

Definition sort_keyed (l : list (val * val)) : option (list val) :=
  option_map (map snd) (sort_keyed_aux l).

Definition binop_name (op : binop) : string :=
  match op with
  | Add => "add" | Sub => "sub" | Mul => "mul" | FloorDiv => "floordiv" | Mod => "mod" | Pow => "pow"
  | BitAnd => "and" | BitOr => "or" | Div => "truediv"
  end.

(* Values that stand for objects of a library (a tensor is [VTuple (VStr "$tensor" :: _)], see MiniTorch.Value):
   a tuple whose first component is a string starting with "$".  Python dispatches the RICH comparisons
   (== != < <= > >=) of such an object to its own __eq__/__lt__/... (a tensor answers element-wise, with a
   tensor), so the unit's [ext] is asked: ext "compare" [VStr opname; a; b].  `is`, `is not`, `in` are not
   overloadable through the operands' comparison methods and keep the rules of [cmp_eval]. *)
Definition foreign (v : val) : bool :=
  match v with
  | VTuple (VStr (String c _) :: _) => Ascii.eqb c "$"%char
  | _ => false
  end.

(* `x[i]` with an INTEGER key on a library object (tagged tuple (tag, component, component, ...) with at least two
   components after the tag, e.g. a tensor = (tag, shape, data)): Python dispatches it to the object's own
   __getitem__ (a tensor answers with its i-th row), so the unit's [ext] is asked ("$getitem") instead of reading
   the i-th component of the encoding.  The length is looked at before the tag, so that the test is decided for
   every pair / singleton without inspecting its components. *)
Definition foreign_item (o k : val) : bool :=
  match k, o with
  | VInt _, VTuple (t :: _ :: _ :: _) => foreign (VTuple [t])
  | _, _ => false
  end.

Definition rich (op : cmpop) : bool :=
  match op with Eq | NotEq | Lt | LtE | Gt | GtE => true | _ => false end.

Definition cmpop_name (op : cmpop) : string :=
  match op with
  | Eq => "eq" | NotEq => "ne" | Lt => "lt" | LtE => "le" | Gt => "gt" | GtE => "ge"
  | In => "in" | NotIn => "notin" | Is => "is" | IsNot => "isnot"
  end.

(* ---- typed handlers, comprehensions (helpers of STryExc / EListComp) ------------------------ *)
(* names starting with "$" are control signals of the interpreter itself ("$continue"), never Python exceptions *)
Definition internal_exc (n : string) : bool :=
  match n with String c _ => Ascii.eqb c "$"%char | EmptyString => false end.

(* does a handler `except (names):` catch the exception called n ?  Exception classes are names: a handler catches the
   class it names; "Exception" / "BaseException" catch every Python exception.  (No other subclass relation is known:
   the translator only accepts handler classes for which this is what Python does with the exceptions the subset raises.) *)
Definition exc_matches (n : string) (names : list string) : bool :=
  (negb (internal_exc n) &&
   existsb (fun h => String.eqb h n || String.eqb h "Exception" || String.eqb h "BaseException") names)%bool.

Fixpoint set_vars (names : list string) (vs : list val) (st : state) : state :=
  match names, vs with
  | n :: ns, v :: r => set_vars ns r (set_var n v st)
  | _, _ => st
  end.

(* bind the loop variable of a comprehension to an item; `for a, b in ..` also unpacks it *)
Definition bind_item (x : string) (names : list string) (i : val) (st : state) : outcome unit :=
  let st1 := set_var x i st in
  match names with
  | [] => Ok tt st1
  | _ :: _ =>
      if foreign i then Stuck "unpacking a library object"
      else match i with
           | VList l | VTuple l =>
               if Nat.eqb (List.length l) (List.length names) then Ok tt (set_vars names l st1)
               else Exc "ValueError" st1       (* too many / not enough values to unpack *)
           | _ => Stuck "unpacking"
           end
  end.

Fixpoint remove_var (x : string) (l : list (string * val)) : list (string * val) :=
  match l with
  | [] => []
  | (y, w) :: r => if String.eqb x y then r else (y, w) :: remove_var x r
  end.

(* give x the binding it had in [old] (none: unbind it) *)
Definition restore_var (old : list (string * val)) (st : state) (x : string) : state :=
  match lookup x old with
  | Some v => set_var x v st
  | None => mkState (remove_var x (vars st)) (events st)
  end.

Definition restore_vars (names : list string) (old : list (string * val)) (st : state) : state :=
  fold_left (restore_var old) names st.

(* ---- consumers of a generator expression (helpers of EGenCall) --------------------------------- *)
(* what f does with the next item y of the generator: all(..) returns False at the first falsy item, any(..) True at the
   first truthy one; otherwise the next item is asked for.  (Other consumers are not rendered as EGenCall.) *)
Inductive gen_ctl := GStop (v : val) | GNext | GStuck (w : string).

Definition gen_step (f : string) (y : val) : gen_ctl :=
  if String.eqb f "all" then (if truthy y then GNext else GStop (VBool false))
  else if String.eqb f "any" then (if truthy y then GStop (VBool true) else GNext)
  else GStuck ("generator expression consumed by " ++ f).

(* the generator is exhausted *)
Definition gen_finish (f : string) (st : state) : outcome val :=
  if String.eqb f "all" then Ok (VBool true) st
  else if String.eqb f "any" then Ok (VBool false) st
  else Stuck ("generator expression consumed by " ++ f).

(* ---- the interpreter ---------------------------------------------------------- *)
Section Interp.
  (* calls the subset does not define: name, positional and keyword arguments, state *)
  Variable ext : string -> list val -> list (string * val) -> state -> outcome val.

  Definition subscript (o k : val) (st : state) : outcome val :=
    match o, k with
    | VDict d, _ => match dict_get d k with Some v => Ok v st | None => Exc "KeyError" st end
    | VList l, VInt i =>
        let n := Z.of_nat (List.length l) in
        let j := if Z.ltb i 0 then (i + n)%Z else i in
        if (Z.leb 0 j && Z.ltb j n)%bool then Ok (nth (Z.to_nat j) l VNone) st else Exc "IndexError" st
    | VTuple l, VInt i =>
        if foreign_item o k then Stuck "item of a library object"   (* tensor[i]: not a component of the encoding; [ext] is asked *)
        else
        let n := Z.of_nat (List.length l) in
        let j := if Z.ltb i 0 then (i + n)%Z else i in
        if (Z.leb 0 j && Z.ltb j n)%bool then Ok (nth (Z.to_nat j) l VNone) st else Exc "IndexError" st
    | VNone, _ => Exc "TypeError" st       (* None[k]: 'NoneType' object is not subscriptable *)
    | _, _ => Stuck "subscript"
    end.

  Definition attribute (o : val) (a : string) (st : state) : outcome val :=
    match o with
    | VDict d => match dict_get d (VStr a) with Some v => Ok v st | None => Exc "AttributeError" st end
    | _ => ext ("$attr." ++ a) [o] [] st   (* attribute of a value that is not an object of the subset
                                              (tensor.device, tensor.dtype): ask [ext]; a unit's [ext] that does
                                              not know the name answers Stuck, as before *)
    end.

  Fixpoint eval (e : expr) (st : state) {struct e} : outcome val :=
    let fix evals (l : list expr) (st : state) {struct l} : outcome (list val) :=
      match l with
      | [] => Ok [] st
      | EStar x :: r =>                  (* f( *x, ...): evaluate x, splice its items into the argument list *)
          bind (eval x st) (fun v st1 =>
            match container_items v with
            | Some items => bind (evals r st1) (fun vs st2 => Ok (items ++ vs)%list st2)
            | None => Stuck "star of a non-container"
            end)
      | x :: r => bind (eval x st) (fun v st1 => bind (evals r st1) (fun vs st2 => Ok (v :: vs) st2))
      end in
    let fix evalkw (l : list (string * expr)) (st : state) {struct l} : outcome (list (string * val)) :=
      match l with
      | [] => Ok [] st
      | (n, x) :: r => bind (eval x st) (fun v st1 => bind (evalkw r st1) (fun vs st2 => Ok ((n, v) :: vs) st2))
      end in
    let fix evalkv (l : list (expr * expr)) (acc : list (val * val)) (st : state) {struct l}
        : outcome (list (val * val)) :=
      match l with
      | [] => Ok acc st
      | (k, x) :: r => bind (eval k st) (fun kv st0 => bind (eval x st0) (fun v st1 =>
                        evalkv r (dict_set acc kv v) st1))
      end in
    match e with
    | EConst v => Ok v st
    | EName x => match lookup x (vars st) with Some v => Ok v st | None => Stuck ("unbound " ++ x) end
    | EAttr o a => bind (eval o st) (fun ov st1 => attribute ov a st1)
    | ESub o k => bind (eval o st) (fun ov st1 => bind (eval k st1) (fun kv st2 =>
                    match subscript ov kv st2 with
                    | Stuck _ => ext "$getitem" [ov; kv] [] st2   (* x[k] outside the subset: a tensor, a slice / tuple index *)
                    | o => o
                    end))
    | EBin op a b => bind (eval a st) (fun av st1 => bind (eval b st1) (fun bv st2 =>
                       match binop_eval op av bv st2 with
                       | Stuck _ => ext "operator" [VStr (binop_name op); av; bv] [] st2
                       | o => o
                       end))
    | ENeg a => bind (eval a st) (fun av st1 =>
                  match av with
                  | VInt z => Ok (VInt (- z)) st1
                  | VQ q => Ok (VQ (Qopp q)) st1
                  | VInf p => Ok (VInf (negb p)) st1      (* -float("inf") *)
                  | _ => ext "$neg" [av] [] st1   (* -x on a value without a negation in the subset (a tensor): by definition
                                                     the call x.__neg__(), so the unit's [ext] is asked (like "$invert");
                                                     a unit's [ext] that does not know the name answers Stuck, as before *)
                  end)
    | ECmp op a b => bind (eval a st) (fun av st1 => bind (eval b st1) (fun bv st2 =>
                       if (rich op && (foreign av || foreign bv))%bool
                       then ext "compare" [VStr (cmpop_name op); av; bv] [] st2   (* tensor == x, tensor != x, ... *)
                       else
                       match cmp_eval op av bv with
                       | Some r => Ok (VBool r) st2
                       | None => ext "compare" [VStr (cmpop_name op); av; bv] [] st2   (* operands outside the subset's numbers /
                                                                                       containers (tensor < tensor): ask [ext] *)
                       end))
    | EAnd a b => bind (eval a st) (fun av st1 => if truthy av then eval b st1 else Ok av st1)
    | EOr a b => bind (eval a st) (fun av st1 => if truthy av then Ok av st1 else eval b st1)
    | ENot a => bind (eval a st) (fun av st1 => Ok (VBool (negb (truthy av))) st1)
    | EIfExp c a b => bind (eval c st) (fun cv st1 => if truthy cv then eval a st1 else eval b st1)
    | ECall f args kw =>
        bind (evals args st) (fun vs st1 => bind (evalkw kw st1) (fun kvs st2 =>
          match kvs, builtin f vs st2 with
          | [], Some o => o
          | _, _ => ext f vs kvs st2
          end))
    | EMeth o m args kw =>
        bind (eval o st) (fun ov st1 => bind (evals args st1) (fun vs st2 =>
          match kw, method ov m vs with
          | [], Some (r, None) => Ok r st2
          | [], None => ext ("$method." ++ m) (ov :: vs) [] st2   (* not a container method (fmt.format(x)): ask [ext] *)
          | _ :: _, None =>                      (* the same with keyword arguments (t.clamp_(min=0)): evaluated after the
                                                    positional ones, handed to [ext] as they are *)
              bind (evalkw kw st2) (fun kvs st3 => ext ("$method." ++ m) (ov :: vs) kvs st3)
          | _, _ => Stuck ("method " ++ m)     (* mutating methods only as statements, see exec *)
          end))
    | ESetLit items => bind (evals items st) (fun vs st1 => Ok (VSet (set_add_all [] vs)) st1)
    | EListLit items => bind (evals items st) (fun vs st1 => Ok (VList vs) st1)
    | ETupleLit items => bind (evals items st) (fun vs st1 => Ok (VTuple vs) st1)
    | EDictLit items => bind (evalkv items [] st) (fun d st1 => Ok (VDict d) st1)
    | EStar _ => Stuck "starred expression outside an argument list"
    | ESorted it x key =>
        (* stable insertion sort on the keys; a key is the value of [key] with [x] bound to the item *)
        bind (eval it st) (fun v st1 =>
          match container_items v with
          | None => Stuck "sorted of a non-container"
          | Some items =>
              bind ((fix keys (l : list val) (st : state) {struct l} : outcome (list (val * val)) :=
                       match l with
                       | [] => Ok [] st
                       | i :: r =>
                           bind (eval key (set_var x i st)) (fun k st' =>
                             bind (keys r st') (fun ks st'' => Ok ((k, i) :: ks) st''))
                       end) items st1) (fun kis st2 =>
                match sort_keyed kis with
                | Some sorted => Ok (VList sorted) st2
                | None => ext "$sorted" [VList (map fst kis); VList (map snd kis)] [] st2
                    (* keys that are not numbers of the subset (tuples, str): the unit's [ext] is asked for the
                       stably sorted items, given the keys and the items in their original order *)
                end)
          end)
    | EListComp elt x names it cond =>
        bind (eval it st) (fun v st1 =>
          match (if foreign v then None else container_items v) with
          | None => Stuck "comprehension over a non-container"
          | Some items =>
              bind ((fix go (l : list val) (st : state) {struct l} : outcome (list val) :=
                       match l with
                       | [] => Ok [] st
                       | i :: r =>
                           bind (bind_item x names i st) (fun _ st' =>
                             bind (eval cond st') (fun c st2 =>
                               if truthy c
                               then bind (eval elt st2) (fun y st3 => bind (go r st3) (fun ys st4 => Ok (y :: ys) st4))
                               else go r st2))
                       end) items st1) (fun ys st2 => Ok (VList ys) (restore_vars (x :: names) (vars st1) st2))
          end)
    | EGenCall f elt x names it cond =>
        (* the iterable is evaluated at once; the items are produced one by one and handed to f's step; the names bound
           by the generator are local to it *)
        bind (eval it st) (fun v st1 =>
          match (if foreign v then None else container_items v) with
          | None => Stuck "generator over a non-container"
          | Some items =>
              bind ((fix go (l : list val) (st : state) {struct l} : outcome val :=
                       match l with
                       | [] => gen_finish f st
                       | i :: r =>
                           bind (bind_item x names i st) (fun _ st' =>
                             bind (eval cond st') (fun c st2 =>
                               if truthy c
                               then bind (eval elt st2) (fun y st3 =>
                                      match gen_step f y with
                                      | GStop w => Ok w st3
                                      | GNext => go r st3
                                      | GStuck w => Stuck w
                                      end)
                               else go r st2))
                       end) items st1) (fun w st2 => Ok w (restore_vars (x :: names) (vars st1) st2))
          end)
    end.

  (* write [v] at the place an expression denotes, rebuilding the spine up to the variable *)
  Fixpoint store (place : expr) (v : val) (st : state) {struct place} : outcome unit :=
    match place with
    | EName x => Ok tt (set_var x v st)
    | EAttr o a =>
        bind (eval o st) (fun ov st1 =>
          match ov with
          | VDict d => store o (VDict (dict_set d (VStr a) v)) st1
          | _ => Stuck "attribute store on a non-object"
          end)
    | ESub o k =>
        bind (eval o st) (fun ov st1 => bind (eval k st1) (fun kv st2 =>
          match ov with
          | VDict d => store o (VDict (dict_set d kv v)) st2
          | VList l =>                     (* l[i] = v, i an in-range (possibly negative) index *)
              match kv with
              | VInt i =>
                  let n := Z.of_nat (List.length l) in
                  let j := if Z.ltb i 0 then (i + n)%Z else i in
                  if (Z.leb 0 j && Z.ltb j n)%bool then store o (VList (list_set l (Z.to_nat j) v)) st2
                  else Exc "IndexError" st2
              | _ => bind (ext "$setitem" [ov; kv; v] [] st2) (fun nv st3 => store o nv st3)
              end
          | _ => bind (ext "$setitem" [ov; kv; v] [] st2) (fun nv st3 => store o nv st3)
          end))
    | _ => Stuck "store target"
    end.

  Definition place_of (t : target) : expr :=
    match t with TName x => EName x | TAttr o a => EAttr o a | TSub o k => ESub o k end.

  Fixpoint assign_all (ts : list target) (v : val) (st : state) : outcome unit :=
    match ts with
    | [] => Ok tt st
    | t :: r => bind (store (place_of t) v st) (fun _ st1 => assign_all r v st1)
    end.

  Inductive ctl := CNormal | CReturn (v : val).

  Definition iter_items (v : val) : option (list val) := container_items v.

  Fixpoint exec (s : stmt) (st : state) {struct s} : outcome ctl :=
    match s with
    | SPass => Ok CNormal st
    | SSeq a b => bind (exec a st) (fun c st1 => match c with CNormal => exec b st1 | CReturn v => Ok c st1 end)
    | SAssign ts e => bind (eval e st) (fun v st1 => bind (assign_all ts v st1) (fun _ st2 => Ok CNormal st2))
    | SAug t op e =>
        bind (eval (place_of t) st) (fun old st1 => bind (eval e st1) (fun v st2 =>
          bind (match binop_eval op old v st2 with
                | Stuck _ => ext "operator" [VStr (binop_name op); old; v] [] st2
                | o => o
                end) (fun nv st3 =>
            bind (store (place_of t) nv st3) (fun _ st4 => Ok CNormal st4))))
    | SIf c t f => bind (eval c st) (fun cv st1 => if truthy cv then exec t st1 else exec f st1)
    | SFor x e body =>
        bind (eval e st) (fun v st1 =>
          match iter_items v with
          | None => Stuck "for over a non-container"
          | Some items =>
              (fix loop (l : list val) (st : state) {struct l} : outcome ctl :=
                 match l with
                 | [] => Ok CNormal st
                 | i :: r =>
                     bind (exec body (set_var x i st)) (fun c st' =>
                       match c with CNormal => loop r st' | CReturn _ => Ok c st' end)
                 end) items st1
          end)
    | SRaise exc => Exc exc st
    | SReRaise => match lookup "$exc" (vars st) with
                  | Some (VStr n) => Exc n st
                  | _ => Stuck "bare raise outside a handler"
                  end
    | SReturn e => bind (eval e st) (fun v st1 => Ok (CReturn v) st1)
    | SAssert e => bind (eval e st) (fun v st1 => if truthy v then Ok CNormal st1 else Exc "AssertionError" st1)
    | SExpr e =>
        match e with
        | EMeth o m args [] =>
            (* possibly mutating method used as a statement: x.append(v), d.setdefault(...), s.add(v) *)
            bind (eval o st) (fun ov st1 =>
              bind ((fix evals (l : list expr) (st : state) {struct l} : outcome (list val) :=
                       match l with
                       | [] => Ok [] st
                       | x :: r => bind (eval x st) (fun v st1 => bind (evals r st1) (fun vs st2 => Ok (v :: vs) st2))
                       end) args st1) (fun vs st2 =>
                match method ov m vs with
                | Some (_, None) => Ok CNormal st2
                | Some (_, Some nv) => bind (store o nv st2) (fun _ st3 => Ok CNormal st3)
                | None =>
                    (* not a container method (f.write(x), t.add_(1)): the unit's [ext] is asked for the UPDATED RECEIVER
                       ("$method!." ++ m, receiver first), which is written back through the place [o] - the same
                       protocol as for the mutating container methods above; a receiver that is not a place is Stuck *)
                    bind (ext ("$method!." ++ m) (ov :: vs) [] st2) (fun nv st3 =>
                      bind (store o nv st3) (fun _ st4 => Ok CNormal st4))
                end))
        | _ => bind (eval e st) (fun _ st1 => Ok CNormal st1)
        end
    | STry body handler =>
        match exec body st with
        | Exc n st1 => exec handler (set_var "$exc" (VStr n) st1)
        | o => o
        end
    | SYield e => bind (eval e st) (fun v st1 => Ok CNormal (emit ("yield", [v]) st1))
    | SDel t =>
        match t with
        | TSub o k =>
            bind (eval o st) (fun ov st1 => bind (eval k st1) (fun kv st2 =>
              match ov with
              | VDict d => match dict_get d kv with
                           | Some _ => bind (store o (VDict (dict_del d kv)) st2) (fun _ st3 => Ok CNormal st3)
                           | None => Exc "KeyError" st2
                           end
              | _ => Stuck "del"
              end))
        | _ => Stuck "del target"
        end
    | STryExc body handlers =>
        match exec body st with
        | Exc n st1 =>
            (fix pick (hs : list (list string * stmt)) {struct hs} : outcome ctl :=
               match hs with
               | [] => Exc n st1
               | (names, h) :: r =>
                   if exc_matches n names then exec h (set_var "$exc" (VStr n) st1) else pick r
               end) handlers
        | o => o
        end
    | SWith e x body =>
        (* with e as x: body.  mgr = e; x = mgr.__enter__(); body; mgr.__exit__(exception or None) - a truthy answer
           swallows the exception.  [ext] plays the two methods; it is also given the value x holds when the block is
           left (for a file, __enter__ returns the manager itself: under value semantics that is where its writes are). *)
        bind (eval e st) (fun m st1 =>
          bind (ext "$enter" [m] [] st1) (fun v st2 =>
            let cur st3 := match lookup x (vars st3) with Some w => w | None => VNone end in
            match exec body (set_var x v st2) with
            | Ok c st3 => bind (ext "$exit" [m; cur st3; VNone] [] st3) (fun _ st4 => Ok c st4)
            | Exc n st3 =>
                if internal_exc n then Stuck "control signal through a with block"
                else bind (ext "$exit" [m; cur st3; VStr n] [] st3) (fun r st4 =>
                       if truthy r then Ok CNormal st4 else Exc n st4)
            | Stuck w => Stuck w
            end))
    | SContinue => Exc "$continue" st       (* caught by the enclosing SForC; no handler of STryExc matches it *)
    | SForC x e body =>
        bind (eval e st) (fun v st1 =>
          match iter_items v with
          | None => Stuck "for over a non-container"
          | Some items =>
              (fix loop (l : list val) (st : state) {struct l} : outcome ctl :=
                 match l with
                 | [] => Ok CNormal st
                 | i :: r =>
                     match exec body (set_var x i st) with
                     | Ok CNormal st' => loop r st'
                     | Ok (CReturn w) st' => Ok (CReturn w) st'
                     | Exc n st' => if String.eqb n "$continue" then loop r st' else Exc n st'
                     | Stuck w => Stuck w
                     end
                 end) items st1
          end)
    end.

  (* run a function body: initial variables -> (return value or None, final state) *)
  Definition run (body : stmt) (vars0 : list (string * val)) : outcome val :=
    match exec body (mkState vars0 []) with
    | Ok CNormal st => Ok VNone st
    | Ok (CReturn v) st => Ok v st
    | Exc n st => Exc n st
    | Stuck w => Stuck w
    end.
End Interp.
