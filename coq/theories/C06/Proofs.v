(* C06 — lemmas: (A) value algebra, (B) child search under distinct ids, (C) soundness of the
   buffer validator, (D) the two-path descent computes the recursion, (E) renaming of the
   start symbol. *)
From Coq Require Import List ZArith Bool Arith Lia ZifyBool ZifyNat.
From PV Require Import C06.Model C06.Spec.
Import ListNotations.
Local Open Scope Z_scope.

(* ---------- (A) values ------------------------------------------------------------------ *)

Lemma vadd_comm a b : vadd a b = vadd b a.
Proof. destruct a, b; cbn; try reflexivity. f_equal; lia. Qed.

Lemma vadd_assoc a b c : vadd (vadd a b) c = vadd a (vadd b c).
Proof. destruct a, b, c; cbn; try reflexivity. f_equal; lia. Qed.

Lemma vadd_0_r a : vadd a (Fin 0) = a.
Proof. destruct a; cbn; try reflexivity. f_equal; lia. Qed.

Lemma val_eqb_eq a b : val_eqb a b = true -> a = b.
Proof. destruct a, b; cbn; intros H; try discriminate; try reflexivity. f_equal; lia. Qed.

Lemma val_eqb_refl a : val_eqb a a = true.
Proof. destruct a; cbn; try reflexivity. lia. Qed.

Lemma list_eqb_eq a : forall b, list_eqb a b = true <-> a = b.
Proof.
  induction a as [|x a IH]; intros [|y b]; cbn; split; intros H; try discriminate; try reflexivity.
  - apply andb_true_iff in H as [H1 H2]. apply IH in H2. f_equal; [lia|assumption].
  - injection H as -> ->. apply andb_true_iff; split; [lia|apply IH; reflexivity].
Qed.

Lemma vals_eqb_eq a : forall b, vals_eqb a b = true -> a = b.
Proof.
  induction a as [|x a IH]; intros [|y b]; cbn; intros H; try discriminate; try reflexivity.
  apply andb_true_iff in H as [H1 H2]. f_equal; [apply val_eqb_eq|apply IH]; assumption.
Qed.

Lemma rows_eqb_eq a : forall b, rows_eqb a b = true -> a = b.
Proof.
  induction a as [|x a IH]; intros [|y b]; cbn; intros H; try discriminate; try reflexivity.
  apply andb_true_iff in H as [H1 H2]. f_equal; [apply vals_eqb_eq|apply IH]; assumption.
Qed.

Lemma tfind_some t g x : tfind t g = Some x -> exists e, In e t /\ fst e = g /\ snd e = x.
Proof.
  induction t as [|e t IH]; cbn; [discriminate|].
  destruct (list_eqb (fst e) g) eqn:E.
  - intros [= <-]. exists e. apply list_eqb_eq in E. auto.
  - intros H. destruct (IH H) as (e' & Hin & Hk & Hv). exists e'. auto.
Qed.

(* ---------- (B) the child search when the candidate ids are pairwise distinct ------------ *)

Lemma nodupb_NoDup l : nodupb l = true -> NoDup l.
Proof.
  induction l as [|x l IH]; cbn; intros H; [constructor|].
  apply andb_true_iff in H as [H1 H2]. constructor; [|apply IH; assumption].
  intros Hin. apply negb_true_iff in H1.
  assert (existsb (Z.eqb x) l = true); [|congruence].
  apply existsb_exists. exists x. split; [assumption|lia].
Qed.

Lemma filter_unique (f : Z -> Z) (l : list Z) (t : Z) : NoDup (map f l) ->
  filter (fun x => f x =? t) l = [] \/
  exists p, filter (fun x => f x =? t) l = [p] /\ In p l /\ f p = t.
Proof.
  induction l as [|x l IH]; cbn [map filter]; intros Hnd; [left; reflexivity|].
  inversion Hnd as [|? ? Hnin Hnd']; subst.
  destruct (f x =? t) eqn:E.
  - right. exists x. split; [|split; [left; reflexivity|lia]].
    f_equal. destruct (IH Hnd') as [H0|(p & Hp & Hin & Hfp)]; [assumption|].
    exfalso. apply Hnin. apply in_map_iff. exists p. split; [lia|assumption].
  - destruct (IH Hnd') as [H0|(p & Hp & Hin & Hfp)]; [left; assumption|].
    right. exists p. split; [assumption|split; [right; assumption|assumption]].
Qed.

Lemma filter_unique_in (f : Z -> Z) (l : list Z) (p : Z) : NoDup (map f l) -> In p l ->
  filter (fun x => f x =? f p) l = [p].
Proof.
  intros Hnd Hin. destruct (filter_unique f l (f p) Hnd) as [H0|(q & Hq & Hinq & Hfq)].
  - exfalso. assert (Hp : In p (filter (fun x => f x =? f p) l)).
    { apply filter_In. split; [assumption|lia]. }
    rewrite H0 in Hp. destruct Hp.
  - rewrite Hq. f_equal.
    assert (Hp : In p (filter (fun x => f x =? f p) l)).
    { apply filter_In. split; [assumption|lia]. }
    rewrite Hq in Hp. destruct Hp as [->|[]]. reflexivity.
Qed.

Lemma ext_false b sh d tok : ext b sh (d, false) tok = (d, false).
Proof. unfold ext. cbn [fst snd]. rewrite andb_false_r. reflexivity. Qed.

Lemma ext_true_inv b sh st tok j : ext b sh st tok = (j, true) -> snd st = true.
Proof.
  unfold ext. intros H. injection H as _ H. apply andb_true_iff in H. tauto.
Qed.

Lemma ext_found b sh d tok j : NoDup (map (idat b sh) (cands b sh d)) ->
  ext b sh (d, true) tok = (j, true) -> In j (cands b sh d) /\ idat b sh j = tok.
Proof.
  intros Hnd. unfold ext. cbn [fst snd].
  destruct (filter_unique (idat b sh) (cands b sh d) tok Hnd) as [H0|(p & Hp & Hin & Hfp)].
  - rewrite H0. cbn. discriminate.
  - rewrite Hp. cbn. intros [= <-].
    replace (p + 0) with p by lia. split; assumption.
Qed.

Lemma ext_in b sh d pos : NoDup (map (idat b sh) (cands b sh d)) -> In pos (cands b sh d) ->
  ext b sh (d, true) (idat b sh pos) = (pos, true).
Proof.
  intros Hnd Hin. unfold ext. cbn [fst snd].
  rewrite (filter_unique_in (idat b sh) _ pos Hnd Hin). cbn. f_equal. lia.
Qed.

Lemma node_at_snoc b sh x rest tok :
  node_at b sh x (rest ++ [tok]) =
  match node_at b sh x rest with
  | Some j => let st := ext b sh (j, true) tok in if snd st then Some (fst st) else None
  | None => None
  end.
Proof.
  unfold node_at. rewrite fold_left_app. cbn [fold_left].
  destruct (fold_left (ext b sh) rest (x, true)) as [d f]. cbn [fst snd].
  destruct f; [reflexivity|]. rewrite ext_false. reflexivity.
Qed.

(* ---------- (C) the validator is sound ----------------------------------------------------- *)

Section Sound.
  Variables (b : bufs) (sh : shape) (t : tab).
  Hypothesis Hchk : forall d nd, (d < order sh)%nat -> In nd (level b sh d) ->
                                 node_check b sh t d nd = true.

  Lemma check_nodup d nd : (d < order sh - 1)%nat -> In nd (level b sh d) ->
    NoDup (map (idat b sh) (cands b sh (snd nd))).
  Proof.
    intros Hd Hin. assert (Hc := Hchk d nd ltac:(lia) Hin). unfold node_check in Hc.
    assert (E : Nat.ltb d (order sh - 1) = true) by (apply Nat.ltb_lt; assumption).
    rewrite E in Hc. apply nodupb_NoDup.
    destruct (nodupb (map (idat b sh) (cands b sh (snd nd)))); [reflexivity|].
    rewrite andb_false_l, andb_false_r, andb_false_l in Hc. discriminate.
  Qed.

  Lemma level_node_at : forall d rk j, (d < order sh)%nat -> In (rk, j) (level b sh d) ->
    exists x rest, rk = x :: rest /\ 0 <= x < nroots sh /\ length rest = d /\
                   node_at b sh x rest = Some j.
  Proof.
    induction d as [|d IH]; intros rk j Hd Hin.
    - cbn [level] in Hin. apply in_map_iff in Hin as (x & [= <- <-] & Hx).
      unfold zrange in Hx. apply in_map_iff in Hx as (k & <- & Hk). apply in_seq in Hk.
      exists (Z.of_nat k), []. repeat split; try lia.
    - cbn [level] in Hin. apply in_flat_map in Hin as ([rk0 j0] & Hin0 & Hkid).
      unfold kids in Hkid. cbn [fst snd] in Hkid.
      apply in_map_iff in Hkid as (pos & [= <- <-] & Hpos).
      destruct (IH rk0 j0 ltac:(lia) Hin0) as (x & rest & -> & Hx & Hlen & Hnode).
      exists x, (rest ++ [idat b sh pos]). split; [reflexivity|]. split; [assumption|].
      split; [rewrite app_length; cbn; lia|].
      rewrite node_at_snoc, Hnode.
      assert (Hnd := check_nodup d (x :: rest, j0) ltac:(lia) Hin0). cbn [snd] in Hnd.
      rewrite (ext_in b sh j0 pos Hnd Hpos). reflexivity.
  Qed.

  Lemma node_at_level : forall rest x j, 0 <= x < nroots sh -> (length rest < order sh)%nat ->
    node_at b sh x rest = Some j -> In (x :: rest, j) (level b sh (length rest)).
  Proof.
    induction rest as [|tok rest IH] using rev_ind; intros x j Hx Hlen Hnode.
    - unfold node_at in Hnode. cbn in Hnode. injection Hnode as <-. cbn [length level].
      apply in_map_iff. exists x. split; [reflexivity|].
      unfold zrange. apply in_map_iff. exists (Z.to_nat x). split; [lia|]. apply in_seq. lia.
    - rewrite app_length in Hlen |- *. cbn [length] in Hlen |- *.
      replace (length rest + 1)%nat with (S (length rest)) by lia. cbn [level].
      rewrite node_at_snoc in Hnode.
      destruct (node_at b sh x rest) as [j0|] eqn:E0; [|discriminate].
      specialize (IH x j0 Hx ltac:(lia) E0).
      assert (Hnd := check_nodup (length rest) (x :: rest, j0) ltac:(lia) IH). cbn [snd] in Hnd.
      destruct (ext b sh (j0, true) tok) as [j' f] eqn:Eext. cbn [fst snd] in Hnode.
      destruct f; [|discriminate]. injection Hnode as ->.
      destruct (ext_found b sh j0 tok j Hnd Eext) as [Hin Hid].
      apply in_flat_map. exists (x :: rest, j0). split; [assumption|].
      unfold kids. cbn [fst snd]. apply in_map_iff. exists j. rewrite Hid. auto.
  Qed.
End Sound.

Lemma trie_okb_sound b sh t : trie_okb b sh t = true -> TrieOK b sh t.
Proof.
  unfold trie_okb. intros H.
  apply andb_true_iff in H as [H Hcov]. apply andb_true_iff in H as [H Hlv].
  apply andb_true_iff in H as [H Hroots]. apply Z.leb_le in Hroots.
  apply andb_true_iff in H as [Hlens Hord]. apply Nat.leb_le in Hord.
  assert (Hchk : forall d nd, (d < order sh)%nat -> In nd (level b sh d) ->
                              node_check b sh t d nd = true).
  { intros d nd Hd Hin. rewrite forallb_forall in Hlv.
    specialize (Hlv d ltac:(apply in_seq; lia)). rewrite forallb_forall in Hlv. auto. }
  split; [assumption|]. split; [assumption|]. split; [assumption|].
  intros x rest Hx Hlen. unfold node_ok.
  destruct (tfind t (rev (x :: rest))) as [[p bo]|] eqn:Ef.
  - destruct (tfind_some _ _ _ Ef) as (e & Hine & Hk & Hv).
    rewrite forallb_forall in Hcov. specialize (Hcov e Hine).
    apply existsb_exists in Hcov as ([rk j] & Hnd & Heq). cbn [fst] in Heq.
    apply list_eqb_eq in Heq.
    pose proof (f_equal (@rev Z) Hk) as Hk'. rewrite rev_involutive in Hk'.
    assert (Hrk : rk = x :: rest) by (etransitivity; [exact Heq|exact Hk']). clear Heq. subst rk.
    unfold all_nodes in Hnd. apply in_flat_map in Hnd as (d & Hd & Hnd). apply in_seq in Hd.
    destruct (level_node_at b sh t Hchk d _ _ ltac:(lia) Hnd) as (x' & rest' & Hxr & _ & Hl & Hnode).
    injection Hxr as <- <-.
    exists j. split; [assumption|].
    assert (Hc := Hchk d _ ltac:(lia) Hnd). unfold node_check in Hc. cbn [fst snd] in Hc.
    rewrite Ef in Hc.
    apply andb_true_iff in Hc as [Hc Hval]. apply andb_true_iff in Hc as [Hj Hstr].
    apply andb_true_iff in Hval as [Hp Hb]. split; [apply val_eqb_eq; assumption|].
    intros Hinner. assert (E : Nat.ltb d (order sh - 1) = true) by (apply Nat.ltb_lt; lia).
    rewrite E in Hb, Hstr. split; [apply val_eqb_eq; assumption|].
    apply andb_true_iff in Hstr as [_ Hlt]. lia.
  - intros j Hnode.
    assert (Hnd := node_at_level b sh t Hchk rest x j Hx Hlen Hnode).
    assert (Hc := Hchk _ _ Hlen Hnd). unfold node_check in Hc. cbn [fst snd] in Hc.
    rewrite Ef in Hc.
    apply andb_true_iff in Hc as [Hc Hval]. apply andb_true_iff in Hc as [Hj Hstr].
    apply andb_true_iff in Hval as [Hp Hb]. split; [apply val_eqb_eq; assumption|].
    intros Hinner.
    assert (E : Nat.ltb (length rest) (order sh - 1) = true) by (apply Nat.ltb_lt; lia).
    rewrite E in Hb, Hstr. split; [apply val_eqb_eq; assumption|].
    apply andb_true_iff in Hstr as [_ Hlt]. lia.
Qed.

(* ---------- (D) the two-path descent computes the recursion ------------------------------- *)

Lemma node_at_fold b sh x rest :
  node_at b sh x rest =
  (if snd (fold_left (ext b sh) rest (x, true))
   then Some (fst (fold_left (ext b sh) rest (x, true))) else None).
Proof. reflexivity. Qed.

Section Descent.
  Variables (b : bufs) (sh : shape) (t : tab).
  Hypothesis Hok : TrieOK b sh t.

  (* what the n path reads at the node of  rev (v :: rest) *)
  Lemma npath_value v rest st : 0 <= v < nroots sh -> (length rest < order sh)%nat ->
    st = fold_left (ext b sh) rest (v, true) ->
    match tfind t (rev (v :: rest)) with
    | Some (Fin p, _) =>
        vfinite (zget (logps b) (fst st) NaN) && snd st = true /\
        zget (logps b) (fst st) NaN = Fin p
    | _ => vfinite (zget (logps b) (fst st) NaN) && snd st = false
    end.
  Proof.
    intros Hv Hlen ->. destruct Hok as (_ & _ & _ & Hnodes).
    specialize (Hnodes v rest Hv Hlen). unfold node_ok in Hnodes. rewrite node_at_fold in Hnodes.
    destruct (fold_left (ext b sh) rest (v, true)) as [d f]. cbn [fst snd] in *.
    destruct (tfind t (rev (v :: rest))) as [[p bo]|].
    - destruct Hnodes as (j & Hj & Hp & _). destruct f; [|discriminate]. injection Hj as ->.
      rewrite Hp. destruct p; cbn; auto.
    - destruct f; [|apply andb_false_r].
      destruct (Hnodes d eq_refl) as [Hp _]. rewrite Hp. reflexivity.
  Qed.

  (* what the p path reads at the node of the context  rev (x :: rest) *)
  Lemma ppath_value x rest st : 0 <= x < nroots sh -> (length rest < order sh - 1)%nat ->
    st = fold_left (ext b sh) rest (x, true) ->
    (if snd st then zget (logbs b) (Z.min (fst st) (osize b - 1)) NaN else Fin 0) =
    backoff t (rev (x :: rest)).
  Proof.
    intros Hx Hlen ->. destruct Hok as (_ & _ & _ & Hnodes).
    specialize (Hnodes x rest Hx ltac:(lia)). unfold node_ok in Hnodes.
    rewrite node_at_fold in Hnodes. unfold backoff.
    destruct (fold_left (ext b sh) rest (x, true)) as [d f]. cbn [fst snd] in *.
    destruct (tfind t (rev (x :: rest))) as [[p bo]|].
    - destruct Hnodes as (j & Hj & _ & Hb). destruct f; [|discriminate]. injection Hj as ->.
      destruct (Hb Hlen) as [Hb1 Hb2]. rewrite Z.min_l by lia. assumption.
    - destruct f; [|reflexivity].
      destruct (Hnodes d eq_refl) as [_ Hb]. destruct (Hb Hlen) as [Hb1 Hb2].
      rewrite Z.min_l by lia. assumption.
  Qed.

  Lemma descend_katz v h1 hidx : 0 <= v < vocab sh -> 0 <= h1 < nroots sh ->
    forall r pre s n,
      r <> [] ->
      hd 0 (pre ++ r) = h1 ->
      (length pre + length r = order sh - 1)%nat ->
      Z.of_nat (length pre + length r) <= hidx ->
      n = Z.of_nat (length pre) + 1 ->
      dn s = fold_left (ext b sh) pre (v, true) ->
      dp s = fold_left (ext b sh) (tl (pre ++ [hd 0 r])) (h1, true) ->
      vadd (lastp s) (lastb s) = vadd (katz t (rev pre) v) (backoff t (rev (pre ++ [hd 0 r]))) ->
      lastp (descend b sh hidx n r s) = katz t (rev (pre ++ r)) v.
  Proof.
    intros Hv Hh1.
    assert (Hv' : 0 <= v < nroots sh).
    { unfold nroots, shiftz. destruct (shiftb _ _); lia. }
    induction r as [|tn r' IH]; intros pre s n Hne Hhd Hlen Hidx Hn Hdn Hdp Hval; [congruence|].
    cbn [descend]. cbn [hd] in Hdp, Hval.
    (* facts about this iteration, common to both cases *)
    assert (Hkatz : katz t (rev (pre ++ [tn])) v =
                    match tfind t (rev (v :: pre ++ [tn])) with
                    | Some (Fin p, _) => Fin p
                    | _ => vadd (backoff t (rev (pre ++ [tn]))) (katz t (rev pre) v)
                    end).
    { rewrite rev_app_distr. cbn [rev app]. cbn [katz].
      replace ((tn :: rev pre) ++ [v]) with (rev (v :: pre ++ [tn]))
        by (cbn [rev]; rewrite rev_app_distr; reflexivity).
      reflexivity. }
    assert (Hnv := npath_value v (pre ++ [tn]) (ext b sh (dn s) tn) Hv'
                     ltac:(rewrite app_length; cbn [length] in *; lia)
                     ltac:(rewrite fold_left_app, <- Hdn; reflexivity)).
    assert (Hle : (n <=? hidx) = true) by (cbn [length] in Hidx; lia).
    set (c := vfinite (zget (logps b) (fst (ext b sh (dn s) tn)) NaN) && snd (ext b sh (dn s) tn)) in *.
    destruct r' as [|tp r''].
    - (* last iteration *)
      cbn [descend]. unfold step. cbn [lastp]. rewrite Hle. fold c.
      rewrite Hkatz.
      destruct (tfind t (rev (v :: pre ++ [tn]))) as [[[p| |] bo]|].
      + destruct Hnv as [-> ->]. reflexivity.
      + rewrite Hnv, vadd_0_r, Hval. apply vadd_comm.
      + rewrite Hnv, vadd_0_r, Hval. apply vadd_comm.
      + rewrite Hnv, vadd_0_r, Hval. apply vadd_comm.
    - (* an inner iteration *)
      cbn [hd] in IH.
      assert (Htl : tl (pre ++ [tn; tp]) = tl (pre ++ [tn]) ++ [tp]).
      { destruct pre; cbn [app tl]; [reflexivity|rewrite <- app_assoc; reflexivity]. }
      assert (Hh : h1 :: tl (pre ++ [tn; tp]) = pre ++ [tn; tp]).
      { destruct pre; cbn in Hhd |- *; rewrite Hhd; reflexivity. }
      assert (Hcb := ppath_value h1 (tl (pre ++ [tn; tp])) (ext b sh (dp s) tp) Hh1
                       ltac:(rewrite Htl, app_length; destruct pre; cbn [length tl app] in *;
                             rewrite ?app_length; cbn [length]; lia)
                       ltac:(rewrite Htl, fold_left_app, <- Hdp; reflexivity)).
      rewrite Hh in Hcb.
      replace (pre ++ tn :: tp :: r'') with ((pre ++ [tn]) ++ tp :: r'')
        by (rewrite <- app_assoc; reflexivity).
      apply IH.
      + discriminate.
      + rewrite <- app_assoc. exact Hhd.
      + rewrite app_length. cbn [length] in *. lia.
      + rewrite app_length. cbn [length] in *. lia.
      + rewrite app_length. cbn [length]. lia.
      + unfold step. cbn [dn]. rewrite fold_left_app, <- Hdn. reflexivity.
      + unfold step. cbn [dp hd].
        replace ((pre ++ [tn]) ++ [tp]) with (pre ++ [tn; tp]) by (rewrite <- app_assoc; reflexivity).
        rewrite Htl, fold_left_app, <- Hdp. reflexivity.
      + unfold step. cbn [lastp lastb hd]. rewrite Hle. fold c.
        replace ((pre ++ [tn]) ++ [tp]) with (pre ++ [tn; tp]) by (rewrite <- app_assoc; reflexivity).
        rewrite Hcb, Hkatz.
        destruct (tfind t (rev (v :: pre ++ [tn]))) as [[[p| |] bo]|].
        * destruct Hnv as [-> ->]. reflexivity.
        * rewrite Hnv, vadd_0_r. rewrite (vadd_comm (backoff t (rev (pre ++ [tn])))), <- Hval.
          rewrite !vadd_assoc. f_equal. apply vadd_comm.
        * rewrite Hnv, vadd_0_r. rewrite (vadd_comm (backoff t (rev (pre ++ [tn])))), <- Hval.
          rewrite !vadd_assoc. f_equal. apply vadd_comm.
        * rewrite Hnv, vadd_0_r. rewrite (vadd_comm (backoff t (rev (pre ++ [tn])))), <- Hval.
          rewrite !vadd_assoc. f_equal. apply vadd_comm.
  Qed.
End Descent.

Lemma lookup1_trie b sh t w v hidx : TrieOK b sh t ->
  (length w = order sh - 1)%nat -> (1 <= length w)%nat ->
  0 <= last w 0 < nroots sh -> 0 <= v < vocab sh -> Z.of_nat (length w) <= hidx ->
  lookup1 b sh hidx w v = katz t w v.
Proof.
  intros Hok Hlen Hpos Hlast Hv Hidx. unfold lookup1.
  assert (Hhd : hd 0 (rev w) = last w 0).
  { clear. induction w as [|x w IH] using rev_ind; [reflexivity|].
    rewrite rev_app_distr, last_last. reflexivity. }
  rewrite Hhd. set (h1 := last w 0) in *.
  assert (Hv' : 0 <= v < nroots sh).
  { unfold nroots, shiftz. destruct (shiftb _ _); lia. }
  replace (katz t w v) with (katz t (rev ([] ++ rev w)) v)
    by (cbn [app]; rewrite rev_involutive; reflexivity).
  destruct Hok as (Hl & Ho & Hr & Hnodes).
  apply (descend_katz b sh t (conj Hl (conj Ho (conj Hr Hnodes))) v h1 hidx Hv Hlast (rev w) [] _ 1).
  - intros E. apply (f_equal (@length Z)) in E. rewrite rev_length in E. cbn in E. lia.
  - exact Hhd.
  - rewrite rev_length. cbn [length]. lia.
  - rewrite rev_length. cbn [length]. lia.
  - reflexivity.
  - reflexivity.
  - reflexivity.
  - cbn [lastp lastb app rev]. rewrite Hhd. fold h1. cbn [katz].
    f_equal.
    + specialize (Hnodes v [] Hv' ltac:(cbn; lia)). unfold node_ok in Hnodes.
      cbn [rev app] in Hnodes. unfold node_at in Hnodes. cbn [fold_left fst snd] in Hnodes.
      destruct (tfind t [v]) as [[p bo]|].
      * destruct Hnodes as (j & [= <-] & Hp & _). assumption.
      * apply (Hnodes v eq_refl).
    + specialize (Hnodes h1 [] Hlast ltac:(cbn; lia)). unfold node_ok in Hnodes.
      cbn [rev app] in Hnodes. unfold node_at in Hnodes. cbn [fold_left fst snd length] in Hnodes.
      unfold backoff. destruct (tfind t [h1]) as [[p bo]|].
      * destruct Hnodes as (j & [= <-] & _ & Hb). apply Hb. lia.
      * apply (Hnodes h1 eq_refl). lia.
Qed.

(* ---------- (E) renaming the out-of-vocabulary start symbol ---------------------------------- *)

Definition tok_ok (V s x : Z) : Prop := 0 <= x < V \/ x = s.

Lemma tok_okb_ok V s x : tok_okb V s x = true <-> tok_ok V s x.
Proof. unfold tok_okb, tok_ok. lia. Qed.

Definition rename (sh : shape) (x : Z) : Z := if x =? sos sh then vocab sh else x.

Lemma mapwin_unfold sh w :
  mapwin sh w = if shiftb (vocab sh) (sos sh) then map (rename sh) w else w.
Proof. reflexivity. Qed.

Lemma rename_inj sh x y : shiftb (vocab sh) (sos sh) = true ->
  tok_ok (vocab sh) (sos sh) x -> tok_ok (vocab sh) (sos sh) y ->
  rename sh x = rename sh y -> x = y.
Proof.
  unfold shiftb, tok_ok, rename. intros Hs Hx Hy.
  destruct (x =? sos sh) eqn:Ex, (y =? sos sh) eqn:Ey; lia.
Qed.

Lemma mapwin_eqb sh k : forall g,
  Forall (tok_ok (vocab sh) (sos sh)) k -> Forall (tok_ok (vocab sh) (sos sh)) g ->
  list_eqb (mapwin sh k) (mapwin sh g) = list_eqb k g.
Proof.
  rewrite mapwin_unfold. destruct (shiftb (vocab sh) (sos sh)) eqn:Es.
  2:{ intros g _ _. rewrite mapwin_unfold, Es. reflexivity. }
  induction k as [|x k IH]; intros [|y g] Hk Hg; rewrite mapwin_unfold, Es; cbn [map list_eqb];
    try reflexivity.
  inversion Hk; inversion Hg; subst.
  specialize (IH g ltac:(assumption) ltac:(assumption)). rewrite mapwin_unfold, Es in IH. rewrite IH.
  f_equal. destruct (x =? y) eqn:E.
  - assert (x = y) by lia. subst. lia.
  - destruct (rename sh x =? rename sh y) eqn:E2; [|reflexivity].
    assert (x = y); [|lia]. apply (rename_inj sh); try assumption. lia.
Qed.

Definition tab_ok (V s : Z) (t : tab) : Prop := Forall (fun e => Forall (tok_ok V s) (fst e)) t.

Lemma toks_okb_ok V s l : toks_okb V s l = true -> Forall (tok_ok V s) l.
Proof.
  unfold toks_okb. rewrite forallb_forall, Forall_forall. intros H x Hx.
  apply tok_okb_ok, H, Hx.
Qed.

Lemma tab_okb_ok V s t : tab_okb V s t = true -> tab_ok V s t.
Proof.
  unfold tab_okb, tab_ok. rewrite forallb_forall, Forall_forall. intros H e He.
  apply toks_okb_ok, H, He.
Qed.

Lemma tfind_tmap sh t g : tab_ok (vocab sh) (sos sh) t -> Forall (tok_ok (vocab sh) (sos sh)) g ->
  tfind (tmap sh t) (mapwin sh g) = tfind t g.
Proof.
  intros Ht Hg. induction t as [|e t IH]; [reflexivity|].
  inversion Ht; subst. cbn [tmap map tfind fst snd].
  rewrite mapwin_eqb by assumption. fold (tmap sh t). rewrite IH by assumption. reflexivity.
Qed.

Lemma mapwin_app sh a c : mapwin sh (a ++ c) = mapwin sh a ++ mapwin sh c.
Proof. rewrite !mapwin_unfold. destruct (shiftb _ _); [apply map_app|reflexivity]. Qed.

Lemma mapwin_vocab sh v : 0 <= v < vocab sh -> mapwin sh [v] = [v].
Proof.
  intros Hv. rewrite mapwin_unfold. destruct (shiftb (vocab sh) (sos sh)) eqn:Es; [|reflexivity].
  cbn [map]. unfold rename. unfold shiftb in Es. f_equal.
  destruct (v =? sos sh) eqn:E; lia.
Qed.

Lemma mapwin_cons sh x l : mapwin sh (x :: l) = mapwin sh [x] ++ mapwin sh l.
Proof. apply (mapwin_app sh [x] l). Qed.

Lemma katz_tmap sh t ctx v : tab_ok (vocab sh) (sos sh) t ->
  Forall (tok_ok (vocab sh) (sos sh)) ctx -> 0 <= v < vocab sh ->
  katz (tmap sh t) (mapwin sh ctx) v = katz t ctx v.
Proof.
  intros Ht Hctx Hv.
  assert (Hvok : Forall (tok_ok (vocab sh) (sos sh)) [v]) by (constructor; [left; assumption|constructor]).
  induction ctx as [|x ctx IH].
  - replace (mapwin sh []) with (@nil Z) by (rewrite mapwin_unfold; destruct (shiftb _ _); reflexivity).
    cbn [katz]. rewrite <- (mapwin_vocab sh v Hv) at 1. rewrite tfind_tmap by assumption. reflexivity.
  - inversion Hctx; subst.
    assert (Hx : exists y l, mapwin sh (x :: ctx) = y :: l /\ l = mapwin sh ctx).
    { rewrite !mapwin_unfold. destruct (shiftb _ _); cbn [map]; eauto. }
    destruct Hx as (y & l & Hyl & ->).
    assert (Hk : katz (tmap sh t) (mapwin sh (x :: ctx)) v =
                 match tfind (tmap sh t) (mapwin sh (x :: ctx) ++ [v]) with
                 | Some (Fin p, _) => Fin p
                 | _ => vadd (backoff (tmap sh t) (mapwin sh (x :: ctx)))
                             (katz (tmap sh t) (mapwin sh ctx) v)
                 end).
    { rewrite Hyl. reflexivity. }
    rewrite Hk. rewrite <- (mapwin_vocab sh v Hv) at 1. rewrite <- mapwin_app.
    rewrite tfind_tmap by (try assumption; apply Forall_app; split; assumption).
    unfold backoff. rewrite tfind_tmap by assumption. rewrite IH by assumption. reflexivity.
Qed.

(* ---------- (F) the batch layer: every element is treated on its own ------------------------- *)

(* the padded index only matters through "hidx >= n", which always holds *)
Lemma descend_hidx b sh h h' : forall r n s,
  n + Z.of_nat (length r) - 1 <= h -> n + Z.of_nat (length r) - 1 <= h' ->
  descend b sh h n r s = descend b sh h' n r s.
Proof.
  induction r as [|tn r IH]; intros n s Hh Hh'; [reflexivity|].
  cbn [descend length] in *.
  assert (E : forall tp il, step b sh h n tn tp il s = step b sh h' n tn tp il s).
  { intros. unfold step. replace (n <=? h) with true by lia. replace (n <=? h') with true by lia.
    reflexivity. }
  rewrite E. apply IH; lia.
Qed.

Lemma lookup1_hidx b sh h h' w v : Z.of_nat (length w) <= h -> Z.of_nat (length w) <= h' ->
  lookup1 b sh h w v = lookup1 b sh h' w v.
Proof.
  intros Hh Hh'. unfold lookup1. f_equal. apply descend_hidx; rewrite rev_length; lia.
Qed.

(* the canonical per-element computation: position i of one column *)
Definition elem_row (b : bufs) (sh : shape) (col : list Z) (i : nat) : list val :=
  if Nat.eqb (order sh) 1 then firstn (Z.to_nat (vocab sh)) (logps b)
  else map (lookup1 b sh (Z.of_nat (order sh) - 1)
                    (mapwin sh (context (order sh) (sos sh) (firstn i col))))
           (zrange (vocab sh)).

Definition batch_rows (b : bufs) (sh : shape) (hist : list (list Z)) (B : nat) (idxs : list nat)
  : list (list val) :=
  map (fun p => elem_row b sh (column hist (fst p)) (snd p)) (combine (seq 0 B) idxs).

Lemma column_firstn rows bi n : column (firstn n rows) bi = firstn n (column rows bi).
Proof. unfold column. symmetry. apply firstn_map. Qed.

Lemma column_skipn rows bi n : column (skipn n rows) bi = skipn n (column rows bi).
Proof. unfold column. symmetry. apply skipn_map. Qed.

Lemma column_app r1 r2 bi : column (r1 ++ r2) bi = column r1 bi ++ column r2 bi.
Proof. unfold column. apply map_app. Qed.

Lemma column_length rows bi : length (column rows bi) = length rows.
Proof. unfold column. apply map_length. Qed.

Lemma nth_repeat_lt (s : Z) B bi : (bi < B)%nat -> nth bi (repeat s B) 0 = s.
Proof.
  revert bi. induction B as [|B IH]; intros bi H; [lia|]. destruct bi; [reflexivity|].
  cbn. apply IH. lia.
Qed.

Lemma firstn_app_len {A} (l1 l2 : list A) k n : length l1 = k ->
  firstn (k + n) (l1 ++ l2) = l1 ++ firstn n l2.
Proof. intros <-. apply firstn_app_2. Qed.

Lemma column_repeat s B k bi : (bi < B)%nat -> column (repeat (repeat s B) k) bi = repeat s k.
Proof.
  intros Hbi. unfold column. induction k as [|k IH]; [reflexivity|]. cbn [repeat map]. rewrite IH.
  f_equal. apply nth_repeat_lt. assumption.
Qed.

Lemma context_short N s (c : list Z) : (length c <= N - 1)%nat ->
  context N s c = repeat s (N - 1 - length c) ++ c.
Proof.
  intros H. unfold context, lastn. rewrite app_length, repeat_length.
  replace (N - 1 + length c - (N - 1))%nat with (length c) by lia.
  replace (N - 1)%nat with (length c + (N - 1 - length c))%nat at 1 by lia.
  rewrite repeat_app, <- app_assoc, skipn_app, repeat_length, Nat.sub_diag.
  rewrite skipn_all2 by (rewrite repeat_length; lia). reflexivity.
Qed.

Lemma context_long N s (c : list Z) : (N - 1 <= length c)%nat ->
  context N s c = skipn (length c - (N - 1)) c.
Proof.
  intros H. unfold context, lastn. rewrite app_length, repeat_length.
  replace (N - 1 + length c - (N - 1))%nat with (length c) by lia.
  rewrite skipn_app, repeat_length.
  rewrite skipn_all2 by (rewrite repeat_length; lia). reflexivity.
Qed.

Lemma context_length N s (c : list Z) : length (context N s c) = (N - 1)%nat.
Proof.
  destruct (Nat.le_gt_cases (length c) (N - 1)).
  - rewrite context_short by assumption. rewrite app_length, repeat_length. lia.
  - rewrite context_long by lia. rewrite skipn_length. lia.
Qed.

Lemma mapwin_length sh w : length (mapwin sh w) = length w.
Proof. rewrite mapwin_unfold. destruct (shiftb _ _); [apply map_length|reflexivity]. Qed.

Lemma map_combine_repeat {A C D} (f : A -> C) (g : C * Z -> D) (h : Z) (l : list A) :
  map g (combine (map f l) (repeat h (length l))) = map (fun x => g (f x, h)) l.
Proof. induction l as [|x l IH]; [reflexivity|]. cbn. rewrite IH. reflexivity. Qed.

Lemma map_combine_repeat_r {A D} (g : A * nat -> D) (i : nat) (l : list A) :
  map g (combine l (repeat i (length l))) = map (fun x => g (x, i)) l.
Proof. induction l as [|x l IH]; [reflexivity|]. cbn. rewrite IH. reflexivity. Qed.

Lemma map_combine_seq_repeat {C D} (f : nat -> C) (g : C * Z -> D) (h : Z) (B : nat) :
  map g (combine (map f (seq 0 B)) (repeat h B)) = map (fun x => g (f x, h)) (seq 0 B).
Proof. pose proof (map_combine_repeat f g h (seq 0 B)) as H. rewrite seq_length in H. exact H. Qed.

Lemma batch_rows_repeat b sh hist B i :
  batch_rows b sh hist B (repeat i B) =
  map (fun bi => elem_row b sh (column hist bi) i) (seq 0 B).
Proof.
  unfold batch_rows. pose proof (map_combine_repeat_r
    (fun p => elem_row b sh (column hist (fst p)) (snd p)) i (seq 0 B)) as H.
  rewrite seq_length in H. exact H.
Qed.

Lemma lookup_batch_scalar b sh hist B i : lens_ok b sh = true -> (1 <= order sh)%nat ->
  (i <= length hist)%nat ->
  lookup_batch b sh hist B (Scalar (Z.of_nat i)) = Some (batch_rows b sh hist B (repeat i B)).
Proof.
  intros Hl Ho Hi. rewrite batch_rows_repeat. unfold lookup_batch. rewrite Hl. cbn [negb].
  unfold elem_row. destruct (Nat.eqb (order sh) 1) eqn:E1.
  { f_equal. clear. generalize 0%nat. induction B as [|B IH]; intros k; [reflexivity|].
    cbn [repeat seq map]. f_equal. apply IH. }
  apply Nat.eqb_neq in E1. cbn [fold_right].
  set (N := Z.of_nat (order sh)).
  destruct (0 <? N - 1 - Z.of_nat i) eqn:Epad.
  - (* short history: padded *)
    cbn [map].
    replace (Z.of_nat i + (N - 1 - Z.of_nat i) - (N - 1)) with 0 by lia.
    cbn [Z.to_nat skipn].
    replace (Z.to_nat (Z.of_nat i + (N - 1 - Z.of_nat i))) with (Z.to_nat (N - 1 - Z.of_nat i) + i)%nat by lia.
    rewrite firstn_app_len by (apply repeat_length).
    set (k := Z.to_nat (N - 1 - Z.of_nat i)).
    assert (Hlen : length (repeat (repeat (sos sh) B) k ++ firstn i hist) = (order sh - 1)%nat).
    { rewrite app_length, repeat_length, firstn_length. subst k N. lia. }
    rewrite Hlen, Nat.eqb_refl. f_equal.
    rewrite map_combine_seq_repeat. cbn [fst snd].
    apply map_ext_in. intros bi Hbi. apply in_seq in Hbi.
    apply map_ext. intros v.
    rewrite column_app, column_repeat, column_firstn by lia.
    rewrite context_short by (rewrite firstn_length, column_length; lia).
    rewrite firstn_length, column_length.
    replace (order sh - 1 - Nat.min i (length hist))%nat with k by (subst k N; lia).
    apply lookup1_hidx; rewrite mapwin_length, app_length, repeat_length, firstn_length, column_length;
      subst k N; lia.
  - (* long enough *)
    cbn [map].
    set (rows := skipn (Z.to_nat (Z.of_nat i - (N - 1))) (firstn (Z.to_nat (Z.of_nat i)) hist)).
    assert (Hlen : length rows = (order sh - 1)%nat).
    { subst rows. rewrite skipn_length, firstn_length. subst N. lia. }
    rewrite Hlen, Nat.eqb_refl. f_equal.
    rewrite map_combine_seq_repeat. cbn [fst snd].
    apply map_ext_in. intros bi Hbi. apply map_ext. intros v.
    subst rows. rewrite column_skipn, column_firstn.
    rewrite context_long by (rewrite firstn_length, column_length; subst N; lia).
    rewrite firstn_length, column_length.
    replace (Z.to_nat (Z.of_nat i)) with i by lia.
    replace (Z.to_nat (Z.of_nat i - (N - 1))) with (Nat.min i (length hist) - (order sh - 1))%nat
      by (subst N; lia).
    apply lookup1_hidx; rewrite mapwin_length, skipn_length, firstn_length, column_length;
      subst N; lia.
Qed.

(* ---------- (G) all positions at once, in chunks of any size ------------------------------------ *)

Definition rect (hist : list (list Z)) (B : nat) : Prop := Forall (fun row => length row = B) hist.

Lemma nth_concat_rect hist B : rect hist B -> forall a bi, (bi < B)%nat -> (a < length hist)%nat ->
  nth (a * B + bi) (concat hist) 0 = nth bi (nth a hist []) 0.
Proof.
  induction 1 as [|row hist Hrow Hrect IH]; intros a bi Hbi Ha; [cbn in Ha; lia|].
  cbn [concat]. destruct a as [|a].
  - cbn [Nat.mul Nat.add nth]. apply app_nth1. lia.
  - cbn [nth length] in *. rewrite app_nth2 by nia.
    replace (S a * B + bi - length row)%nat with (a * B + bi)%nat by nia.
    apply IH; lia.
Qed.

Lemma nth_map_seq {A} (f : nat -> A) n j d : (j < n)%nat -> nth j (map f (seq 0 n)) d = f j.
Proof.
  intros H. rewrite (nth_indep _ d (f 0%nat)) by (rewrite map_length, seq_length; assumption).
  rewrite map_nth, seq_nth by assumption. reflexivity.
Qed.

Lemma nth_skipn' {A} (d : A) : forall a (X : list A) i, nth (a + i) X d = nth i (skipn a X) d.
Proof.
  induction a as [|a IH]; intros X i; [reflexivity|].
  destruct X as [|x X]; [destruct i; reflexivity|]. cbn [Nat.add nth skipn]. apply IH.
Qed.

Lemma map_nth_seq0 {A} (d : A) : forall (X : list A) n, (n <= length X)%nat ->
  map (fun i => nth i X d) (seq 0 n) = firstn n X.
Proof.
  induction X as [|x X IH]; intros n H.
  - cbn in H. assert (n = 0)%nat by lia. subst. reflexivity.
  - destruct n as [|n]; [reflexivity|]. cbn [seq map firstn nth]. f_equal.
    rewrite <- seq_shift, map_map. cbn [nth]. apply IH. cbn in H. lia.
Qed.

Lemma map_nth_seq {A} (X : list A) d a n : (a + n <= length X)%nat ->
  map (fun i => nth (a + i) X d) (seq 0 n) = firstn n (skipn a X).
Proof.
  intros H. rewrite <- map_nth_seq0 with (d := d) by (rewrite skipn_length; lia).
  apply map_ext. intros i. apply nth_skipn'.
Qed.

Lemma context_window N s (X : list Z) q : let Nm1 := Nat.min (length X) (N - 1) in
  (Nm1 <= q)%nat -> (q <= length X)%nat ->
  context N s (firstn Nm1 (skipn (q - Nm1) X)) = context N s (firstn q X).
Proof.
  intros Nm1 H1 H2. subst Nm1. destruct (Nat.le_gt_cases (N - 1) (length X)) as [Hc|Hc].
  - rewrite Nat.min_r in * by assumption.
    rewrite !context_long by (rewrite ?firstn_length, ?skipn_length; lia).
    rewrite !firstn_length, skipn_length.
    replace (Nat.min (N - 1) (length X - (q - (N - 1))) - (N - 1))%nat with 0%nat by lia.
    cbn [skipn]. rewrite firstn_skipn_comm. f_equal; [lia|]. f_equal. lia.
  - rewrite Nat.min_l in * by lia. assert (q = length X) by lia. subst q.
    rewrite Nat.sub_diag. cbn [skipn]. reflexivity.
Qed.

Lemma elem_row_firstn b sh X i k : (i <= k)%nat ->
  elem_row b sh (firstn k X) i = elem_row b sh X i.
Proof.
  intros H. unfold elem_row. destruct (Nat.eqb (order sh) 1); [reflexivity|].
  rewrite firstn_firstn, Nat.min_l by assumption. reflexivity.
Qed.

Lemma nth_column hist bi : forall k, nth k (column hist bi) 0 = nth bi (nth k hist []) 0.
Proof.
  unfold column. induction hist as [|row hist IH]; intros [|k]; cbn [map nth];
    try (destruct bi; reflexivity); try reflexivity. apply IH.
Qed.

Lemma strided_elem b sh hist B Trest t r bi :
  let T := length hist in let Nm1 := Nat.min T (order sh - 1) in
  rect hist B -> (Nm1 <= t)%nat -> (t + Trest <= T + 1)%nat -> (r < Trest)%nat -> (bi < B)%nat ->
  elem_row b sh (column (strided (concat hist) B Nm1 Trest t) (r * B + bi)) Nm1 =
  elem_row b sh (column hist bi) (t + r).
Proof.
  intros T Nm1 Hrect Ht HT Hr Hbi.
  assert (Hcol : column (strided (concat hist) B Nm1 Trest t) (r * B + bi) =
                 firstn Nm1 (skipn (t + r - Nm1) (column hist bi))).
  { unfold column at 1. unfold strided. rewrite map_map.
    rewrite <- map_nth_seq with (d := 0) by (rewrite column_length; fold T; lia).
    apply map_ext_in. intros i Hi. apply in_seq in Hi.
    rewrite nth_map_seq by nia.
    replace (B * (t - Nm1) + i * B + (r * B + bi))%nat with ((t + r - Nm1 + i) * B + bi)%nat by nia.
    rewrite (nth_concat_rect hist B Hrect) by (fold T; lia).
    symmetry. apply nth_column. }
  unfold elem_row. destruct (Nat.eqb (order sh) 1); [reflexivity|].
  rewrite Hcol. rewrite firstn_firstn, Nat.min_id.
  pose proof (context_window (order sh) (sos sh) (column hist bi) (t + r)) as Hw.
  rewrite column_length in Hw. fold T in Hw. cbv zeta in Hw. fold Nm1 in Hw.
  rewrite Hw by lia. reflexivity.
Qed.

Lemma chunks_map_seq {A} (F : nat -> A) B : forall k a,
  chunks B k (map F (seq a (k * B))) =
  map (fun r => map (fun bi => F (a + r * B + bi)%nat) (seq 0 B)) (seq 0 k).
Proof.
  induction k as [|k IH]; intros a; [reflexivity|].
  cbn [chunks Nat.mul]. rewrite seq_app, map_app.
  rewrite firstn_app, firstn_all2 by (rewrite map_length, seq_length; lia).
  rewrite map_length, seq_length, Nat.sub_diag. cbn [firstn]. rewrite app_nil_r.
  rewrite skipn_app, skipn_all2 by (rewrite map_length, seq_length; lia).
  rewrite map_length, seq_length, Nat.sub_diag. cbn [skipn app].
  rewrite IH. cbn [seq map]. f_equal.
  - rewrite <- (Nat.add_0_r a) at 1. generalize 0%nat at 1 3. generalize B as n.
    induction n as [|n IHn]; intros c; [reflexivity|]. cbn [seq map]. f_equal.
    + f_equal. lia.
    + replace (S (a + c)) with (a + S c)%nat by lia. apply IHn.
  - rewrite <- seq_shift, map_map. apply map_ext. intros r. apply map_ext. intros bi. f_equal. lia.
Qed.

Lemma opt_all_map {A C} (f : A -> option C) (g : A -> C) l :
  (forall x, In x l -> f x = Some (g x)) -> opt_all (map f l) = Some (map g l).
Proof.
  induction l as [|x l IH]; intros H; [reflexivity|]. cbn [map opt_all].
  rewrite (H x (or_introl eq_refl)), IH by (intros; apply H; right; assumption). reflexivity.
Qed.

Definition all_rows (b : bufs) (sh : shape) (hist : list (list Z)) (B : nat) (i : nat)
  : list (list val) := batch_rows b sh hist B (repeat i B).

Lemma strided_length flat B Nm1 Trest t : length (strided flat B Nm1 Trest t) = Nm1.
Proof. unfold strided. rewrite map_length, seq_length. reflexivity. Qed.

Lemma map_seq_add {A} (f : nat -> A) t : forall k c,
  map (fun r => f (t + r)%nat) (seq c k) = map f (seq (t + c) k).
Proof.
  induction k as [|k IH]; intros c; [reflexivity|]. cbn [seq map]. f_equal.
  replace (S (t + c)) with (t + S c)%nat by lia. apply IH.
Qed.

Lemma chunk_loop_spec b sh hist B chunk :
  let T := length hist in let Nm1 := Nat.min T (order sh - 1) in
  lens_ok b sh = true -> (1 <= order sh)%nat -> rect hist B -> (1 <= chunk)%nat ->
  forall fuel t, (Nm1 <= t)%nat -> (T + 1 - t <= fuel)%nat ->
  chunk_loop b sh (concat hist) B T Nm1 chunk fuel t =
  Some (map (all_rows b sh hist B) (seq t (T + 1 - t))).
Proof.
  intros T Nm1 Hl Ho Hrect Hc.
  induction fuel as [|fuel IH]; intros t Ht Hf.
  - replace (T + 1 - t)%nat with 0%nat by lia. reflexivity.
  - cbn [chunk_loop]. destruct (Nat.leb (T + 1) t) eqn:E.
    + apply Nat.leb_le in E. replace (T + 1 - t)%nat with 0%nat by lia. reflexivity.
    + apply Nat.leb_gt in E. set (Trest := Nat.min chunk (T + 1 - t)).
      pose proof (lookup_batch_scalar b sh (strided (concat hist) B Nm1 Trest t) (Trest * B) Nm1 Hl Ho) as Hs.
      rewrite strided_length in Hs. rewrite (Hs (le_n _)).
      rewrite IH by lia. f_equal.
      rewrite batch_rows_repeat.
      rewrite (chunks_map_seq (fun j => elem_row b sh (column (strided (concat hist) B Nm1 Trest t) j) Nm1) B Trest 0).
      replace (T + 1 - t)%nat with (Trest + (T + 1 - (t + chunk)))%nat by (subst Trest; lia).
      rewrite seq_app, map_app. f_equal.
      * assert (Hgen : forall r, In r (seq 0 Trest) ->
                  map (fun bi => elem_row b sh (column (strided (concat hist) B Nm1 Trest t) (0 + r * B + bi)) Nm1) (seq 0 B)
                  = all_rows b sh hist B (t + r)).
        { intros r Hr. apply in_seq in Hr. unfold all_rows. rewrite batch_rows_repeat.
          apply map_ext_in. intros bi Hbi. apply in_seq in Hbi. cbn [Nat.add].
          apply (strided_elem b sh hist B Trest t r bi); try assumption; subst Trest; lia. }
        rewrite (map_ext_in _ _ _ Hgen). rewrite (map_seq_add (all_rows b sh hist B) t Trest 0).
        rewrite Nat.add_0_r. reflexivity.
      * destruct (Nat.le_gt_cases chunk (T + 1 - t)) as [Hle|Hgt].
        -- subst Trest. rewrite Nat.min_l by assumption. reflexivity.
        -- replace (T + 1 - (t + chunk))%nat with 0%nat by lia. reflexivity.
Qed.

Lemma chunked_spec b sh hist B chunk :
  lens_ok b sh = true -> (1 <= order sh)%nat -> rect hist B -> (1 <= chunk)%nat ->
  chunked b sh hist B chunk = Some (map (all_rows b sh hist B) (seq 0 (S (length hist)))).
Proof.
  intros Hl Ho Hrect Hc. unfold chunked.
  replace (Nat.ltb chunk 1) with false by (symmetry; apply Nat.ltb_ge; assumption).
  set (T := length hist). set (Nm1 := Nat.min T (order sh - 1)).
  rewrite (opt_all_map _ (all_rows b sh hist B)).
  2:{ intros i Hi. apply in_seq in Hi.
      rewrite lookup_batch_scalar by (try assumption; rewrite firstn_length; fold T; lia).
      f_equal. unfold all_rows. rewrite !batch_rows_repeat. apply map_ext. intros bi.
      rewrite column_firstn. apply elem_row_firstn. lia. }
  pose proof (chunk_loop_spec b sh hist B chunk Hl Ho Hrect Hc (S T) Nm1) as Hloop.
  cbv zeta in Hloop. fold T in Hloop. fold Nm1 in Hloop.
  rewrite Hloop by lia. f_equal. rewrite <- map_app. f_equal.
  replace (S T) with (Nm1 + (T + 1 - Nm1))%nat by (subst Nm1; lia).
  rewrite seq_app. reflexivity.
Qed.

(* ---------- (H) putting it together: buffers that pass the validator give the recursion ------- *)

Lemma firstn_map_nth {A} (l : list A) d n : (n <= length l)%nat ->
  firstn n l = map (fun k => nth k l d) (seq 0 n).
Proof. intros H. symmetry. apply map_nth_seq0. assumption. Qed.

Lemma In_skipn_in {A} (x : A) n l : In x (skipn n l) -> In x l.
Proof. intros H. rewrite <- (firstn_skipn n l). apply in_or_app. right. assumption. Qed.

Lemma In_firstn_in {A} (x : A) n l : In x (firstn n l) -> In x l.
Proof. intros H. rewrite <- (firstn_skipn n l). apply in_or_app. left. assumption. Qed.

Lemma context_toks N V s c : Forall (tok_ok V s) c -> Forall (tok_ok V s) (context N s c).
Proof.
  intros H. destruct (Nat.le_gt_cases (length c) (N - 1)).
  - rewrite context_short by assumption. apply Forall_app. split; [|assumption].
    apply Forall_forall. intros x Hx. apply repeat_spec in Hx. right. assumption.
  - rewrite context_long by lia. apply Forall_forall. intros x Hx.
    rewrite Forall_forall in H. apply H. eapply In_skipn_in. exact Hx.
Qed.

Lemma rename_range sh x : 0 <= vocab sh -> tok_ok (vocab sh) (sos sh) x ->
  0 <= (if shiftb (vocab sh) (sos sh) then rename sh x else x) < nroots sh.
Proof.
  unfold tok_ok, nroots, shiftz, rename. intros HV H.
  destruct (shiftb (vocab sh) (sos sh)) eqn:E; unfold shiftb in E.
  - destruct (x =? sos sh) eqn:Ex; lia.
  - lia.
Qed.

Lemma last_mapwin_range sh w : 0 <= vocab sh -> w <> [] -> Forall (tok_ok (vocab sh) (sos sh)) w ->
  0 <= last (mapwin sh w) 0 < nroots sh.
Proof.
  intros HV Hne Hw. rewrite mapwin_unfold.
  assert (Hl : tok_ok (vocab sh) (sos sh) (last w 0)).
  { rewrite Forall_forall in Hw. apply Hw. destruct w as [|x w]; [congruence|].
    clear. revert x. induction w as [|y w IH]; intros x; [left; reflexivity|].
    right. apply IH. }
  pose proof (rename_range sh (last w 0) HV Hl) as Hr.
  destruct (shiftb (vocab sh) (sos sh)); [|assumption].
  replace (last (map (rename sh) w) 0) with (rename sh (last w 0)); [assumption|].
  clear - Hne. induction w as [|x w IH]; [congruence|]. destruct w as [|y w]; [reflexivity|].
  cbn [map last] in *. apply IH. discriminate.
Qed.

Lemma elem_row_katz b sh t col i : TrieOK b sh (tmap sh t) ->
  tab_ok (vocab sh) (sos sh) t -> Forall (tok_ok (vocab sh) (sos sh)) col ->
  elem_row b sh col i = katz_row t (order sh) (vocab sh) (sos sh) col i.
Proof.
  intros Hok Ht Hcol. unfold elem_row, katz_row.
  assert (Hctx : Forall (tok_ok (vocab sh) (sos sh)) (context (order sh) (sos sh) (firstn i col))).
  { apply context_toks. apply Forall_forall. intros x Hx. rewrite Forall_forall in Hcol.
    apply Hcol. eapply In_firstn_in. exact Hx. }
  destruct (Nat.eqb (order sh) 1) eqn:E1.
  - apply Nat.eqb_eq in E1. destruct Hok as (_ & _ & Hr & Hnodes).
    assert (Hc : context (order sh) (sos sh) (firstn i col) = []).
    { apply length_zero_iff_nil. rewrite context_length. lia. }
    rewrite Hc. rewrite (firstn_map_nth _ NaN) by (unfold nroots, shiftz, zlen in Hr; destruct (shiftb _ _); lia).
    unfold zrange. rewrite map_map. apply map_ext_in. intros k Hk. apply in_seq in Hk.
    assert (Hv : 0 <= Z.of_nat k < vocab sh) by lia.
    assert (Hv' : 0 <= Z.of_nat k < nroots sh) by (unfold nroots, shiftz; destruct (shiftb _ _); lia).
    specialize (Hnodes (Z.of_nat k) [] Hv' ltac:(cbn; lia)). unfold node_ok in Hnodes.
    cbn [rev app] in Hnodes. unfold node_at in Hnodes. cbn [fold_left fst snd] in Hnodes.
    rewrite <- (mapwin_vocab sh _ Hv) in Hnodes.
    assert (Hkk : Forall (tok_ok (vocab sh) (sos sh)) [Z.of_nat k]).
    { constructor; [left; assumption|constructor]. }
    rewrite (tfind_tmap sh t _ Ht Hkk) in Hnodes.
    cbn [katz].
    assert (Hz : zget (logps b) (Z.of_nat k) NaN = nth k (logps b) NaN).
    { unfold zget. replace (Z.of_nat k <? 0) with false by lia. rewrite Nat2Z.id. reflexivity. }
    rewrite <- Hz.
    destruct (tfind t [Z.of_nat k]) as [[p bo]|].
    + destruct Hnodes as (j & [= <-] & Hp & _). assumption.
    + apply (Hnodes (Z.of_nat k) eq_refl).
  - apply Nat.eqb_neq in E1. assert (Ho : (1 <= order sh)%nat) by (destruct Hok as (_ & Ho & _); exact Ho).
    apply map_ext_in. intros v Hv. unfold zrange in Hv. apply in_map_iff in Hv as (k & <- & Hk).
    apply in_seq in Hk.
    set (w := context (order sh) (sos sh) (firstn i col)) in *.
    assert (Hlen : length w = (order sh - 1)%nat) by apply context_length.
    rewrite (lookup1_trie b sh (tmap sh t) (mapwin sh w) (Z.of_nat k) _ Hok);
      rewrite ?mapwin_length; try lia.
    + apply katz_tmap; try assumption. lia.
    + apply last_mapwin_range; [lia| |assumption]. intros E. rewrite E in Hlen. cbn in Hlen. lia.
Qed.

Definition hist_ok (sh : shape) (hist : list (list Z)) (B : nat) : Prop :=
  rect hist B /\ Forall (Forall (tok_ok (vocab sh) (sos sh))) hist.

Lemma column_toks sh hist B bi : hist_ok sh hist B -> (bi < B)%nat ->
  Forall (tok_ok (vocab sh) (sos sh)) (column hist bi).
Proof.
  intros [Hr Ht] Hbi. unfold column. apply Forall_forall. intros x Hx.
  apply in_map_iff in Hx as (row & <- & Hrow).
  unfold rect in Hr. rewrite Forall_forall in Hr, Ht.
  specialize (Hr row Hrow). specialize (Ht row Hrow). rewrite Forall_forall in Ht.
  apply Ht. apply nth_In. lia.
Qed.

Lemma batch_rows_spec b sh t hist B idxs : TrieOK b sh (tmap sh t) ->
  tab_ok (vocab sh) (sos sh) t -> hist_ok sh hist B ->
  batch_rows b sh hist B idxs = spec_at t (order sh) (vocab sh) (sos sh) hist B idxs.
Proof.
  intros Hok Ht Hh. unfold batch_rows, spec_at. apply map_ext_in. intros [bi i] Hin.
  apply in_combine_l in Hin. apply in_seq in Hin. cbn [fst snd].
  apply elem_row_katz; try assumption. apply (column_toks sh hist B); [assumption|lia].
Qed.

Lemma lookup_scalar_katz b sh t hist B i : trie_okb b sh (tmap sh t) = true ->
  tab_okb (vocab sh) (sos sh) t = true -> hist_ok sh hist B -> (i <= length hist)%nat ->
  lookup_batch b sh hist B (Scalar (Z.of_nat i)) =
  Some (spec_at t (order sh) (vocab sh) (sos sh) hist B (repeat i B)).
Proof.
  intros Hv Ht Hh Hi. apply trie_okb_sound in Hv. apply tab_okb_ok in Ht.
  destruct Hv as (Hl & Ho & Hrest).
  rewrite lookup_batch_scalar by assumption. f_equal.
  apply batch_rows_spec; try assumption. exact (conj Hl (conj Ho Hrest)).
Qed.

Lemma chunked_katz b sh t hist B chunk : trie_okb b sh (tmap sh t) = true ->
  tab_okb (vocab sh) (sos sh) t = true -> hist_ok sh hist B -> (1 <= chunk)%nat ->
  chunked b sh hist B chunk = Some (spec_full t (order sh) (vocab sh) (sos sh) hist B).
Proof.
  intros Hv Ht Hh Hc. apply trie_okb_sound in Hv. apply tab_okb_ok in Ht.
  destruct Hv as (Hl & Ho & Hrest).
  rewrite chunked_spec by (try assumption; apply Hh). f_equal. unfold spec_full.
  apply map_ext. intros i. unfold all_rows.
  apply batch_rows_spec; try assumption. exact (conj Hl (conj Ho Hrest)).
Qed.

Lemma chunked_pointwise b sh hist B chunk :
  lens_ok b sh = true -> (1 <= order sh)%nat -> rect hist B -> (1 <= chunk)%nat ->
  chunked b sh hist B chunk =
  opt_all (map (fun i => lookup_batch b sh hist B (Scalar (Z.of_nat i))) (seq 0 (S (length hist)))).
Proof.
  intros Hl Ho Hr Hc. rewrite chunked_spec by assumption. symmetry.
  apply opt_all_map. intros i Hi. apply in_seq in Hi.
  rewrite lookup_batch_scalar by (try assumption; lia). reflexivity.
Qed.

Lemma forward_full_katz b sh t hist B : trie_okb b sh (tmap sh t) = true ->
  tab_okb (vocab sh) (sos sh) t = true -> hist_ok sh hist B ->
  forward b sh hist B None = Some (Full (spec_full t (order sh) (vocab sh) (sos sh) hist B)).
Proof.
  intros Hv Ht Hh. unfold forward. rewrite (chunked_katz b sh t) by (try assumption; lia). reflexivity.
Qed.

Lemma forward_scalar_katz b sh t hist B i : trie_okb b sh (tmap sh t) = true ->
  tab_okb (vocab sh) (sos sh) t = true -> hist_ok sh hist B ->
  - zlen hist - 1 <= i <= zlen hist ->
  forward b sh hist B (Some (Scalar i)) =
  Some (AtIdx (spec_at t (order sh) (vocab sh) (sos sh) hist B
                 (repeat (Z.to_nat ((i + zlen hist + 1) mod (zlen hist + 1))) B))).
Proof.
  intros Hv Ht Hh Hi. unfold forward, norm_idx.
  replace ((i <? - zlen hist - 1) || (zlen hist <? i)) with false by lia.
  set (j := (i + zlen hist + 1) mod (zlen hist + 1)).
  assert (Hj : 0 <= j < zlen hist + 1) by (subst j; apply Z.mod_pos_bound; unfold zlen; lia).
  rewrite <- (Z2Nat.id j) at 1 by lia.
  rewrite (lookup_scalar_katz b sh t) by (try assumption; unfold zlen in Hj; lia). reflexivity.
Qed.

(* ---------- (I) a different index per batch element ---------------------------------------------- *)

Lemma skipn_repeat {A} (s : A) : forall k a, skipn a (repeat s k) = repeat s (k - a).
Proof.
  induction k as [|k IH]; intros a; [destruct a; reflexivity|].
  destruct a as [|a]; [reflexivity|]. cbn [repeat skipn Nat.sub]. apply IH.
Qed.

Lemma window_padded (s : Z) k i n X : (i <= length X)%nat -> (n - 1 <= i + k)%nat -> (k <= n - 1)%nat ->
  firstn (n - 1) (skipn (i + k - (n - 1)) (repeat s k ++ X)) = context n s (firstn i X).
Proof.
  intros Hi Hn Hk. destruct (Nat.le_gt_cases i (n - 1)) as [Hc|Hc].
  - rewrite skipn_app, skipn_repeat, repeat_length.
    replace (i + k - (n - 1) - k)%nat with 0%nat by lia. cbn [skipn].
    replace (k - (i + k - (n - 1)))%nat with (n - 1 - i)%nat by lia.
    rewrite context_short by (rewrite firstn_length; lia). rewrite firstn_length, Nat.min_l by assumption.
    replace (n - 1)%nat with ((n - 1 - i) + i)%nat at 1 by lia.
    apply firstn_app_len. apply repeat_length.
  - rewrite skipn_app, skipn_repeat, repeat_length.
    replace (k - (i + k - (n - 1)))%nat with 0%nat by lia. cbn [repeat app].
    replace (i + k - (n - 1) - k)%nat with (i - (n - 1))%nat by lia.
    rewrite context_long by (rewrite firstn_length; lia). rewrite firstn_length, Nat.min_l by assumption.
    rewrite firstn_skipn_comm. f_equal. f_equal. lia.
Qed.

Lemma filter_range_gen a c : forall L s,
  filter (fun r => Nat.leb a r && Nat.ltb r c) (seq s L) =
  seq (Nat.max a s) (Nat.min c (s + L) - Nat.max a s).
Proof.
  induction L as [|L IH]; intros s.
  - cbn [seq filter]. replace (Nat.min c (s + 0) - Nat.max a s)%nat with 0%nat by lia. reflexivity.
  - cbn [seq filter]. rewrite IH.
    destruct (Nat.leb a s) eqn:A; [apply Nat.leb_le in A|apply Nat.leb_gt in A].
    + destruct (Nat.ltb s c) eqn:A2; [apply Nat.ltb_lt in A2|apply Nat.ltb_ge in A2]; cbn [andb].
      * replace (Nat.max a s) with s by lia.
        replace (Nat.min c (s + S L) - s)%nat with (S (Nat.min c (S s + L) - Nat.max a (S s)))%nat by lia.
        cbn [seq]. f_equal. f_equal. lia.
      * replace (Nat.min c (S s + L) - Nat.max a (S s))%nat with 0%nat by lia.
        replace (Nat.min c (s + S L) - Nat.max a s)%nat with 0%nat by lia. reflexivity.
    + cbn [andb]. f_equal; lia.
Qed.

Lemma filter_range L a c : (a <= c)%nat -> (c <= L)%nat ->
  filter (fun r => Nat.leb a r && Nat.ltb r c) (seq 0 L) = seq a (c - a).
Proof. intros H1 H2. rewrite filter_range_gen. f_equal; lia. Qed.

Lemma chunks_concat {A} n : forall (ls : list (list A)),
  Forall (fun x => length x = n) ls -> chunks n (length ls) (concat ls) = ls.
Proof.
  induction 1 as [|x ls Hx Hls IH]; [reflexivity|]. cbn [length chunks concat].
  rewrite firstn_app, firstn_all2 by lia. rewrite Hx, Nat.sub_diag. cbn [firstn]. rewrite app_nil_r.
  rewrite skipn_app, skipn_all2 by lia. rewrite Hx, Nat.sub_diag. cbn [skipn app].
  rewrite IH. reflexivity.
Qed.

Lemma concat_length_const {A} n : forall (ls : list (list A)),
  Forall (fun x => length x = n) ls -> length (concat ls) = (length ls * n)%nat.
Proof.
  induction 1 as [|x ls Hx Hls IH]; [reflexivity|]. cbn [concat length]. rewrite app_length, IH, Hx. lia.
Qed.

Lemma combine_map_both {A C D} (F : A -> C) (G : A -> D) (l : list A) :
  combine (map F l) (map G l) = map (fun c => (F c, G c)) l.
Proof. induction l as [|x l IH]; [reflexivity|]. cbn. rewrite IH. reflexivity. Qed.

Lemma map_snd_combine {A C} : forall (l1 : list A) (l2 : list C), length l1 = length l2 ->
  map snd (combine l1 l2) = l2.
Proof.
  induction l1 as [|x l1 IH]; intros [|y l2] H; cbn in *; try lia; try reflexivity.
  f_equal. apply IH. lia.
Qed.

Lemma fold_min_le h0 hr x : In x (h0 :: hr) -> fold_right Z.min h0 hr <= x.
Proof.
  induction hr as [|h hr IH]; cbn [fold_right]; intros [->|H]; try lia.
  - destruct H.
  - pose proof (IH (or_introl eq_refl)). lia.
  - destruct H as [->|H]; [lia|]. pose proof (IH (or_intror H)). lia.
Qed.

Lemma fold_min_in h0 hr : In (fold_right Z.min h0 hr) (h0 :: hr).
Proof.
  induction hr as [|h hr IH]; cbn [fold_right]; [left; reflexivity|].
  destruct (Z.min_spec h (fold_right Z.min h0 hr)) as [[_ ->]|[_ ->]].
  - right. left. reflexivity.
  - destruct IH as [E|E]; [left; assumption|right; right; assumption].
Qed.

Lemma lookup_batch_vec b sh hist B l : lens_ok b sh = true -> (1 <= order sh)%nat ->
  length l = B -> (2 <= B)%nat -> Forall (fun i => (i <= length hist)%nat) l ->
  lookup_batch b sh hist B (Vec (map Z.of_nat l)) = Some (batch_rows b sh hist B l).
Proof.
  intros Hl Ho HlB HB Hil. unfold lookup_batch. rewrite Hl. cbn [negb].
  destruct l as [|i0 [|i1 l2]]; cbn [length] in HlB; try lia.
  set (l := i0 :: i1 :: l2) in *.
  change (map Z.of_nat l) with (Z.of_nat i0 :: map Z.of_nat (i1 :: l2)).
  cbv iota beta.
  destruct (Nat.eqb (order sh) 1) eqn:E1.
  { f_equal. unfold batch_rows, elem_row. rewrite E1.
    assert (Hlen : length (combine (seq 0 B) l) = B) by (rewrite combine_length, seq_length; subst l; cbn [length]; lia).
    revert Hlen. generalize (combine (seq 0 B) l). clear. intros c <-.
    induction c as [|x c IH]; [reflexivity|]. cbn. f_equal. apply IH. }
  apply Nat.eqb_neq in E1.
  set (n := order sh) in *. set (N := Z.of_nat n).
  set (hl := Z.of_nat i0 :: map Z.of_nat (i1 :: l2)).
  assert (Ehl : hl = map Z.of_nat l) by reflexivity.
  set (m := fold_right Z.min (Z.of_nat i0) (map Z.of_nat (i1 :: l2))).
  assert (Hm_le : forall i, In i l -> m <= Z.of_nat i).
  { intros i Hi. apply fold_min_le. change (In (Z.of_nat i) (map Z.of_nat l)). apply in_map. assumption. }
  assert (Hm_in : exists im, In im l /\ m = Z.of_nat im).
  { pose proof (fold_min_in (Z.of_nat i0) (map Z.of_nat (i1 :: l2))) as H.
    change (In m (map Z.of_nat l)) in H. apply in_map_iff in H as (im & E & Hin). eauto. }
  set (k := if 0 <? N - 1 - m then Z.to_nat (N - 1 - m) else 0%nat).
  assert (Hk : (k <= n - 1)%nat /\ forall i, In i l -> (n - 1 <= i + k)%nat).
  { destruct Hm_in as (im & Him & Em). subst k. destruct (0 <? N - 1 - m) eqn:Ep.
    - split; [subst N; lia|]. intros i Hi. specialize (Hm_le i Hi). subst N. lia.
    - split; [lia|]. intros i Hi. specialize (Hm_le i Hi). subst N. lia. }
  destruct Hk as [Hk1 Hk2].
  (* both branches of the padding test, uniformly *)
  assert (Ehist : (if 0 <? N - 1 - m then repeat (repeat (sos sh) B) (Z.to_nat (N - 1 - m)) ++ hist else hist)
                  = repeat (repeat (sos sh) B) k ++ hist).
  { subst k. destruct (0 <? N - 1 - m); reflexivity. }
  assert (Ehl' : (if 0 <? N - 1 - m then map (fun h => h + (N - 1 - m)) hl else hl)
                 = map (fun i => Z.of_nat (i + k)) l).
  { rewrite Ehl. subst k. destruct (0 <? N - 1 - m) eqn:Ep.
    - rewrite map_map. apply map_ext. intros i. lia.
    - rewrite <- (map_id (map Z.of_nat l)) at 1. rewrite map_map. apply map_ext. intros i. lia. }
  fold m. fold hl. rewrite Ehist, Ehl'.
  set (hist' := repeat (repeat (sos sh) B) k ++ hist).
  set (g := fun i : nat => Z.of_nat (i + k)).
  cbv zeta.
  change (map g l) with (g i0 :: g i1 :: map g l2).
  cbv iota beta.
  change (g i0 :: g i1 :: map g l2) with (map g l).
  rewrite map_length.
  replace (Nat.eqb (length l) B) with true by (symmetry; apply Nat.eqb_eq; subst l; cbn [length]; lia).
  cbn [negb].
  set (C := combine (seq 0 B) l).
  assert (HC2 : map snd C = l) by (apply map_snd_combine; rewrite seq_length; subst l; cbn [length]; lia).
  assert (HCl : length C = B) by (subst C; rewrite combine_length, seq_length; subst l; cbn [length]; lia).
  assert (EC : combine (seq 0 B) (map g l) = map (fun c => (fst c, g (snd c))) C).
  { subst C. clear. generalize (seq 0 B). induction l as [|x l IH]; intros [|y s]; cbn; try reflexivity.
    f_equal. apply IH. }
  rewrite EC, map_map. cbn [fst snd].
  set (sel := fun c : nat * nat =>
       map (fun r => nth (fst c) (nth r hist' []) 0)
           (filter (fun r => (g (snd c) - N <? Z.of_nat r) && (Z.of_nat r <? g (snd c))) (seq 0 (length hist')))).
  assert (Hsel : forall c, In c C -> sel c = context n (sos sh) (firstn (snd c) (column hist (fst c)))).
  { intros [bi i] Hc. pose proof (in_combine_l _ _ _ _ Hc) as Hbi. apply in_seq in Hbi.
    pose proof (in_combine_r _ _ _ _ Hc) as Hi. cbn [fst snd].
    rewrite Forall_forall in Hil. specialize (Hil i Hi). specialize (Hk2 i Hi).
    subst sel. cbn [fst snd].
    assert (HL : length hist' = (k + length hist)%nat) by (subst hist'; rewrite app_length, repeat_length; reflexivity).
    rewrite (filter_ext _ (fun r => Nat.leb (i + k - (n - 1)) r && Nat.ltb r (i + k))).
    2:{ intros r. subst g N. cbv beta.
        destruct (Nat.leb (i + k - (n - 1)) r) eqn:A, (Nat.ltb r (i + k)) eqn:A2;
          try apply Nat.leb_le in A; try apply Nat.leb_gt in A;
          try apply Nat.ltb_lt in A2; try apply Nat.ltb_ge in A2; lia. }
    rewrite filter_range by lia.
    replace (i + k - (i + k - (n - 1)))%nat with (n - 1)%nat by lia.
    rewrite (map_ext _ (fun r => nth r (column hist' bi) 0)) by (intros r; symmetry; apply nth_column).
    rewrite <- (Nat.add_0_r (i + k - (n - 1))) at 1.
    rewrite <- (map_seq_add (fun r => nth r (column hist' bi) 0) (i + k - (n - 1)) (n - 1) 0).
    rewrite map_nth_seq by (rewrite column_length; lia).
    subst hist'. rewrite column_app, column_repeat by lia.
    apply window_padded; rewrite ?column_length; lia. }
  set (ws := map sel C).
  assert (Hws : Forall (fun x => length x = (n - 1)%nat) ws).
  { subst ws. apply Forall_forall. intros x Hx. apply in_map_iff in Hx as (c & <- & Hc).
    rewrite (Hsel c Hc). apply context_length. }
  change (map (fun x => sel x) C) with ws.
  assert (Hwl : length ws = B) by (subst ws; rewrite map_length; assumption).
  rewrite (concat_length_const (n - 1) ws Hws), Hwl, Nat.eqb_refl.
  rewrite <- Hwl at 1. rewrite (chunks_concat (n - 1) ws Hws).
  f_equal. unfold batch_rows. fold C.
  assert (Hgl : map g l = map (fun c => g (snd c)) C).
  { rewrite <- (map_map snd g C), HC2. reflexivity. }
  rewrite Hgl.
  subst ws. rewrite combine_map_both, map_map. cbn [fst snd].
  apply map_ext_in. intros [cb ci] Hc. rewrite (Hsel _ Hc). cbn [fst snd].
  unfold elem_row. replace (Nat.eqb (order sh) 1) with false by (symmetry; apply Nat.eqb_neq; assumption).
  apply map_ext. intros v. fold n.
  pose proof (in_combine_r _ _ _ _ Hc) as Hi. specialize (Hk2 ci Hi).
  apply lookup1_hidx; rewrite mapwin_length, context_length; subst g N; cbv beta; lia.
Qed.

Lemma lookup_vec_katz b sh t hist B l : trie_okb b sh (tmap sh t) = true ->
  tab_okb (vocab sh) (sos sh) t = true -> hist_ok sh hist B ->
  length l = B -> (2 <= B)%nat -> Forall (fun i => (i <= length hist)%nat) l ->
  lookup_batch b sh hist B (Vec (map Z.of_nat l)) =
  Some (spec_at t (order sh) (vocab sh) (sos sh) hist B l).
Proof.
  intros Hv Ht Hh HlB HB Hil. apply trie_okb_sound in Hv. apply tab_okb_ok in Ht.
  destruct Hv as (Hl & Ho & Hrest).
  rewrite lookup_batch_vec by assumption. f_equal.
  apply batch_rows_spec; try assumption. exact (conj Hl (conj Ho Hrest)).
Qed.

Definition wrap_idx (T i : Z) : nat := Z.to_nat ((i + T + 1) mod (T + 1)).

Lemma forward_vec_katz b sh t hist B zs : trie_okb b sh (tmap sh t) = true ->
  tab_okb (vocab sh) (sos sh) t = true -> hist_ok sh hist B ->
  length zs = B -> (2 <= B)%nat -> Forall (fun i => - zlen hist - 1 <= i <= zlen hist) zs ->
  forward b sh hist B (Some (Vec zs)) =
  Some (AtIdx (spec_at t (order sh) (vocab sh) (sos sh) hist B (map (wrap_idx (zlen hist)) zs))).
Proof.
  intros Hv Ht Hh HlB HB Hz. unfold forward, norm_idx.
  destruct zs as [|z0 [|z1 zs]]; cbn [length] in HlB; try lia.
  set (l := z0 :: z1 :: zs) in *.
  replace (Nat.eqb (length l) B) with true by (symmetry; apply Nat.eqb_eq; subst l; cbn [length]; lia).
  cbn [negb].
  assert (Hbad : existsb (fun i => (i <? - zlen hist - 1) || (zlen hist <? i)) l = false).
  { apply not_true_is_false. intros E. apply existsb_exists in E as (x & Hx & Hb).
    rewrite Forall_forall in Hz. specialize (Hz x Hx). lia. }
  rewrite Hbad.
  assert (Hmap : map (fun i => (i + zlen hist + 1) mod (zlen hist + 1)) l
                 = map Z.of_nat (map (wrap_idx (zlen hist)) l)).
  { rewrite map_map. apply map_ext_in. intros x Hx. unfold wrap_idx.
    rewrite Z2Nat.id; [reflexivity|]. apply Z.mod_pos_bound. unfold zlen. lia. }
  rewrite Hmap. rewrite (lookup_vec_katz b sh t); try assumption; try reflexivity.
  - rewrite map_length. subst l. cbn [length]. lia.
  - apply Forall_forall. intros i Hi. apply in_map_iff in Hi as (x & <- & Hx). unfold wrap_idx.
    pose proof (Z.mod_pos_bound (x + zlen hist + 1) (zlen hist + 1) ltac:(unfold zlen; lia)).
    unfold zlen in *. lia.
Qed.

(* ---------- (J) completing the table with (-inf, 0) entries does not change the recursion ---------- *)

Lemma tfind_app t1 t2 g :
  tfind (t1 ++ t2) g = match tfind t1 g with Some x => Some x | None => tfind t2 g end.
Proof.
  induction t1 as [|e t1 IH]; [reflexivity|]. cbn [app tfind].
  destruct (list_eqb (fst e) g); [reflexivity|apply IH].
Qed.

Lemma katz_add_absent t k ctx v : tfind t k = None ->
  katz (t ++ [(k, (NInf, Fin 0))]) ctx v = katz t ctx v.
Proof.
  intros Hk.
  assert (Hf : forall g, tfind (t ++ [(k, (NInf, Fin 0))]) g =
                         match tfind t g with
                         | Some x => Some x
                         | None => if list_eqb k g then Some (NInf, Fin 0) else None
                         end).
  { intros g. rewrite tfind_app. cbn [tfind fst snd]. reflexivity. }
  assert (Hb : forall c, backoff (t ++ [(k, (NInf, Fin 0))]) c = backoff t c).
  { intros c. unfold backoff. rewrite Hf. destruct (tfind t c) as [[p bo]|]; [reflexivity|].
    destruct (list_eqb k c); reflexivity. }
  induction ctx as [|x ctx IH].
  - cbn [katz]. rewrite Hf. destruct (tfind t [v]) as [[p bo]|]; [reflexivity|].
    destruct (list_eqb k [v]); reflexivity.
  - cbn [katz]. rewrite Hf, Hb, IH.
    destruct (tfind t ((x :: ctx) ++ [v])) as [[p bo]|]; [reflexivity|].
    destruct (list_eqb k ((x :: ctx) ++ [v])); reflexivity.
Qed.

Lemma add_missing_tfind lo ks :
  exists extra, add_missing lo ks = lo ++ extra /\
                Forall (fun e => snd e = (NInf, Fin 0)) extra.
Proof.
  unfold add_missing. revert lo. induction ks as [|k ks IH]; intros lo.
  - exists []. rewrite app_nil_r. split; [reflexivity|constructor].
  - cbn [fold_left]. destruct (dhas lo k).
    + apply IH.
    + destruct (IH (lo ++ [(k, (NInf, Fin 0))])) as (extra & E & Hex).
      exists ((k, (NInf, Fin 0)) :: extra). rewrite E, <- app_assoc. split; [reflexivity|].
      constructor; [reflexivity|assumption].
Qed.

Lemma katz_add_neutral t extra ctx v : Forall (fun e => snd e = (NInf, Fin 0)) extra ->
  katz (t ++ extra) ctx v = katz t ctx v.
Proof.
  intros H. revert t. induction H as [|[k x] extra Hx Hex IH]; intros t.
  - rewrite app_nil_r. reflexivity.
  - cbn [snd] in Hx. subst x.
    replace (t ++ (k, (NInf, Fin 0)) :: extra) with ((t ++ [(k, (NInf, Fin 0))]) ++ extra)
      by (rewrite <- app_assoc; reflexivity).
    rewrite IH. destruct (tfind t k) as [y|] eqn:E.
    + (* the key is already listed: the appended copy is never reached *)
      clear IH. assert (Hf : forall g, tfind (t ++ [(k, (NInf, Fin 0))]) g = tfind t g).
      { intros g. rewrite tfind_app. destruct (tfind t g) eqn:Eg; [reflexivity|].
        cbn [tfind fst snd]. destruct (list_eqb k g) eqn:Ek; [|reflexivity].
        apply list_eqb_eq in Ek. subst. congruence. }
      induction ctx as [|c ctx IHc]; cbn [katz]; unfold backoff; rewrite ?Hf; [reflexivity|].
      rewrite IHc. reflexivity.
    + apply katz_add_absent. assumption.
Qed.

(* the closure step of _build_trie appends only (-inf, 0) entries ([add_missing_tfind]), and
   such entries are invisible to the recursion ([katz_add_neutral]) *)
Lemma katz_add_missing lo ks ctx v : katz (add_missing lo ks) ctx v = katz lo ctx v.
Proof.
  destruct (add_missing_tfind lo ks) as (extra & -> & Hex). apply katz_add_neutral. assumption.
Qed.

(* ---------- (K) reload ------------------------------------------------------------------------------ *)

Lemma reload_same b sh hist B ix :
  infer_shape (vocab sh) (sos sh) b = Some (order sh, gnodes sh, Z.of_nat (maxdesc sh)) ->
  forall N G S_, infer_shape (vocab sh) (sos sh) b = Some (N, G, S_) ->
  forward b (mkShape (vocab sh) (sos sh) N G (Z.to_nat S_)) hist B ix = forward b sh hist B ix.
Proof.
  intros H N G S_ H'. rewrite H in H'. injection H' as <- <- <-. rewrite Nat2Z.id.
  destruct sh; reflexivity.
Qed.
