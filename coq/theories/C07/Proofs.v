(* C07 - lemmas; split over several files of this directory:
   Lib (lists), ProofsSlp (tensor path), ProofsPacked (packed path), ProofsWalk (random walk and
   the wrapper's log_prob), ProofsSupport (enumerated support, normalisation, samples),
   ProofsGreedy (greedy CTC). *)
From PV Require Export C07.Lib C07.ProofsSlp C07.ProofsPacked C07.ProofsWalk C07.ProofsSupport C07.ProofsGreedy.
