(* C11 - what the property says, independent of how the code works.
   (1) which transcripts are "expressible in the format" (hypotheses of the theorems),
   (2) boolean readings of the round-trip clauses on IMPLEMENTATION outputs, used by the harness to
       judge an output that differs from the model. *)
From Coq Require Import List ZArith Bool QArith Qabs.
From PV Require Import C11.Model.
Import ListNotations.
Local Open Scope Z_scope.

(* ---------------------------------------------------------------------------------- trn *)

(* a character that is neither white space nor "{" ... *)
Definition plain_top (c : char) : bool := negb (is_space c) && negb (c =? c_lbrace).
(* ... and inside an alternate also neither "/" nor "}" *)
Definition plain_in (c : char) : bool :=
  plain_top c && negb (c =? c_slash) && negb (c =? c_rbrace).

Definition tok_okb (inside : bool) (t : str) : bool :=
  match t with [] => false | _ :: _ => forallb (if inside then plain_in else plain_top) t end.

Definition is_nil {A} (l : list A) : bool := match l with [] => true | _ => false end.

(* an alternate has at least one branch and its last branch is not empty (sclite's "{ }" is an
   error); other branches may be empty ("{ / a }"); nesting is unbounded *)
Fixpoint elem_okb (inside : bool) (x : elem) : bool :=
  match x with
  | Tok t => tok_okb inside t
  | Alt brs =>
      negb (is_nil brs) && negb (is_nil (last brs [])) &&
      forallb (fun b => forallb (elem_okb true) b) brs
  end.

(* an utterance id may contain anything (spaces, ")", braces ...) but "(" and line breaks *)
Definition utt_okb (u : str) : bool :=
  forallb (fun c => negb (c =? c_lpar) && negb (c =? c_nl) && negb (c =? 13)) u.

Definition trn_okb (ts : list (str * list elem)) : bool :=
  forallb (fun ut => utt_okb (fst ut) && forallb (elem_okb false) (snd ut)) ts.

(* boolean reading of "writing then reading returns the same utterances and tokens" *)
Definition trn_roundtrip_okb (ts : list (str * list elem)) (read_back : res (list (str * list elem)))
  : bool :=
  implb (trn_okb ts) (res_eqb (list_eqb utt_eqb) (Ok ts) read_back).

(* ---------------------------------------------------------------------------------- ctm *)

Fixpoint remove_first {A} (eqb : A -> A -> bool) (x : A) (l : list A) : option (list A) :=
  match l with
  | [] => None
  | y :: t => if eqb x y then Some t
              else match remove_first eqb x t with Some r => Some (y :: r) | None => None end
  end.

Fixpoint permb {A} (eqb : A -> A -> bool) (a b : list A) : bool :=
  match a with
  | [] => is_nil b
  | x :: a' => match remove_first eqb x b with Some b' => permb eqb a' b' | None => false end
  end.

Fixpoint sortedb {A} (leb : A -> A -> bool) (l : list A) : bool :=
  match l with
  | [] => true
  | x :: t => match t with [] => true | y :: _ => leb x y && sortedb leb t end
  end.

Definition wc_ltb (a b : str * str) : bool := match wc_cmp a b with Lt => true | _ => false end.

(* [key u] = the (waveform, channel) the utterance is filed under.  The read-back list must hold
   the same utterances, ordered by key, each with the same multiset of (token, start, end),
   ordered by start time - "up to their mandated ordering". *)
Definition ctm_roundtrip_okb (key : str -> str * str) (ts out : list (str * list timed)) : bool :=
  permb str_eqb (map fst ts) (map fst out)
  && sortedb (fun a b => wc_ltb (key (fst a)) (key (fst b))) out
  && forallb (fun ut =>
       match assoc str_eqb (fst ut) out with
       | Some toks => permb timed_eqb (snd ut) toks && sortedb timed_start_leb toks
       | None => false
       end) ts.

(* --------------------------------------------------------------------------------- TextGrid *)

Definition half_unit (p : nat) : Q := 1 # (2 * Z.to_pos (pow10 p)).

Definition close_to (p : nat) (x y : Q) : bool :=
  if Qlt_le_dec (half_unit p) (Qabs (x - y)) then false else true.

(* same tokens in the same order, times within half a unit of the last printed digit; only a
   point tier the caller asked for ([forced_point]) may drop the end time (it keeps the start) *)
Definition tg_roundtrip_okb (p : nat) (forced_point : bool) (tr out : list entry) : bool :=
  list_eqb (fun a b =>
              str_eqb (e_tok a) (e_tok b) && close_to p (e_start a) (e_start b)
              && (if forced_point then Qeq_bool (e_end b) (e_start b) else close_to p (e_end a) (e_end b)))
           tr out.

(* filling never inserts an empty interval: entries of zero length that carry the fill token are
   at most as many as the transcript's own entries with that token *)
Definition no_empty_gapsb (ft : str) (tr out : list entry) : bool :=
  (length (filter (fun x => str_eqb (e_tok x) ft && Qeq_bool (e_start x) (e_end x)) out)
   <=? length (filter (fun x => str_eqb (e_tok x) ft) tr))%nat.

(* "unlabelled gaps filled on request": the result tiles [xmin, xmax] *)
Fixpoint contiguous (t : Q) (xmax : Q) (l : list entry) : Prop :=
  match l with
  | [] => (t == xmax)%Q
  | x :: r => (e_start x == t)%Q /\ contiguous (e_end x) xmax r
  end.

Fixpoint contiguousb (t : Q) (xmax : Q) (l : list entry) : bool :=
  match l with
  | [] => Qeq_bool t xmax
  | x :: r => Qeq_bool (e_start x) t && contiguousb (e_end x) xmax r
  end.

(* [sub] is obtained from [l] by deleting some entries that all carry the token [ft] *)
Inductive filled_from (ft : str) : list entry -> list entry -> Prop :=
| ff_nil : filled_from ft [] []
| ff_keep x l l' : filled_from ft l l' -> filled_from ft (x :: l) (x :: l')
| ff_gap (s e : Q) l l' : (s < e)%Q -> filled_from ft l l' -> filled_from ft l ((ft, s, e) :: l').

(* ------------------------------------------------------------------------------- frames *)

(* times recovered "to within one frame shift" (d in milliseconds, times in seconds) *)
Definition within_shift (d : Q) (orig back : Q) : Prop := (Qabs (back - orig) < d / 1000)%Q.

Definition within_shiftb (d : Q) (orig back : Q) : bool :=
  if Qlt_le_dec (Qabs (back - orig)) (d / 1000) then true else false.

Definition tokens_roundtrip_okb (d : Q) (tr back : list item) : bool :=
  list_eqb (fun a b =>
              match a, b with
              | Plain x, Plain y => tk_eqb x y
              | Timed x s e, Timed y s' e' => tk_eqb x y && within_shiftb d s s' && within_shiftb d e e'
              | _, _ => false
              end) tr back.

(* ====================================================================================== *)
(* vocabulary of the theorems                                                              *)
(* ====================================================================================== *)

(* ---- ctm ---- *)

Definition t_tok (tk : timed) : str := fst (fst tk).

Definition t_start (tk : timed) : Z := snd (fst tk).

Definition t_end (tk : timed) : Z := snd tk.

(* the argument write_ctm gets: every token carries its times *)
Definition with_times (ts : list (str * list timed)) : list (str * list (str * option (Z * Z))) :=
  map (fun ut => (fst ut, map (fun tk => (t_tok tk, Some (t_start tk, t_end tk))) (snd ut))) ts.

(* utt2wc[utt] *)
Definition key_of (m : utt2wc_t) (u : str) : option (str * str) :=
  match m with inl d => assoc str_eqb u d | inr ch => Some (u, ch) end.

(* what read_ctm maps (wfn, chan) back to *)
Definition utt_of (wc2utt : option (list ((str * str) * str))) (wc : str * str) : option str :=
  match wc2utt with None => Some (fst wc) | Some inv => assoc wc_eqb wc inv end.

Definition tok_key (tk : timed) : Z * Z * str := (t_start tk, t_end tk - t_start tk, t_tok tk).

Definition tok3_cmp (a b : timed) : comparison :=
  pair_cmp (pair_cmp Z.compare Z.compare) str_cmp (tok_key a) (tok_key b).

Definition tok3_leb := leb_of tok3_cmp.

(* the mandated order of utterances: by (waveform, channel) *)
Definition key_leb (key : str -> str * str) (a b : str * list timed) : bool :=
  leb_of wc_cmp (key (fst a)) (key (fst b)).

Definition expected (key : str -> str * str) (ts : list (str * list timed)) : list (str * list timed) :=
  map (fun ut => (fst ut, sort_by tok3_leb (snd ut))) (sort_by (key_leb key) ts).

Definition valid_tok (tk : timed) : Prop := 0 <= t_start tk <= t_end tk.

Record ctm_ok (m : utt2wc_t) (wc2utt : option (list ((str * str) * str))) (key : str -> str * str)
  (ts : list (str * list timed)) : Prop := mkCtmOk
  { ok_nodup : NoDup (map fst ts);                                   (* distinct utterance ids *)
    ok_key : forall u tr, In (u, tr) ts -> key_of m u = Some (key u);  (* utt2wc covers them *)
    ok_inv : forall u tr, In (u, tr) ts -> utt_of wc2utt (key u) = Some u;  (* wc2utt inverts it *)
    ok_nonempty : forall u tr, In (u, tr) ts -> tr <> [];
    ok_times : forall u tr, In (u, tr) ts -> Forall valid_tok tr }.

(* ---- printed decimals ---- *)

(* the value that comes back: the printed decimal *)
Definition rq (p : nat) (x : Q) : Q := Qmake (fmt_num p x) (Z.to_pos (pow10 p)).

(* ---- TextGrid ---- *)

Definition tier_min (tr : list entry) : Q :=
  match tr with [] => 0%Q | x0 :: rest => fold_left (fun m x => qmin m (e_start x)) rest (e_start x0) end.

Definition tier_max (tr : list entry) : Q :=
  match tr with [] => 0%Q | x0 :: rest => fold_left (fun m x => qmax m (e_end x)) rest (e_end x0) end.

Definition is_point (tr : list entry) (pt : option bool) (p : nat) : bool :=
  match pt with
  | Some b => b
  | None => forallb (fun x => str_eqb (fmt_time p (e_start x)) (fmt_time p (e_end x))) tr
  end.

Definition rt (p : nat) (point : bool) (x : entry) : entry :=
  (e_tok x, rq p (e_start x), if point then rq p (e_start x) else rq p (e_end x)).

Definition entry_nonneg (x : entry) : Prop := (0 <= e_start x)%Q /\ (0 <= e_end x)%Q.

Definition no_nl (t : str) : Prop := ~ In c_nl t.

Definition tier_id_ok (tid : tier_id_t) (name : str) : Prop :=
  tid = inr 0 \/ tid = inr (-1) \/ tid = inl name.

(* entries in time order, not overlapping, inside [t, xmax] *)
Fixpoint chain_ok (t xmax : Q) (l : list entry) : Prop :=
  match l with
  | [] => (t <= xmax)%Q
  | x :: r => (t <= e_start x)%Q /\ (e_start x <= e_end x)%Q /\ chain_ok (e_end x) xmax r
  end.

(* ---- tokens ---- *)

Definition back (d : Q) (f : Z) : Q := (inject_Z f * d / 1000)%Q.

Definition swap_pairs {A B} (l : list (A * B)) : list (B * A) := map (fun p => (snd p, fst p)) l.

Definition item_close (d : Q) (a b : item) : Prop :=
  match a, b with
  | Plain x, Plain y => x = y
  | Timed x s e, Timed y s' e' => x = y /\ within_shift d s s' /\ within_shift d e e'
  | _, _ => False
  end.

Definition item_tok (a : item) : tk := match a with Plain t => t | Timed t _ _ => t end.

Definition item_times_ok (a : item) : Prop :=
  match a with Plain _ => True | Timed _ s e => (0 <= s)%Q /\ (s <= e)%Q end.
