(* C06 — declarative reading of the property.

   (a) [katz]: the back-off recursion evaluated directly on the table, independent of how
       the code stores or searches anything.
   (b) [TrieOK]: what it means for four flat buffers to represent a table (stated through
       the model's own child search [ext], so that it says exactly what the descent needs),
       and [trie_okb], a boolean validator the harness applies to the implementation's
       ACTUAL buffers (translation validation of _build_trie); soundness is proved in
       Proofs.v.
   (c) [rows_okb]: implementation output = katz, used to judge disagreements. *)
From Coq Require Import List ZArith Bool Arith.
From PV Require Import C06.Model.
Import ListNotations.
Local Open Scope Z_scope.

(* ---------- (a) the table and the recursion ------------------------------------------ *)

(* an n-gram is the list of its tokens, earliest first; a table maps n-grams of any order
   to (log-probability, back-off weight); the weight of a highest-order entry is unused *)
Definition ngram := list Z.
Definition tab := list (ngram * (val * val)).

Fixpoint tfind (t : tab) (g : ngram) : option (val * val) :=
  match t with
  | [] => None
  | e :: t' => if list_eqb (fst e) g then Some (snd e) else tfind t' g
  end.

(* "the context's back-off weight (zero if absent)" *)
Definition backoff (t : tab) (ctx : list Z) : val :=
  match tfind t ctx with Some (_, b) => b | None => Fin 0 end.

(* "the listed value if the n-gram is present and finite, otherwise the context's back-off
   weight plus the value for the context shortened by its oldest token"; with no context
   left an unlisted token has log-probability -inf *)
Fixpoint katz (t : tab) (ctx : list Z) (v : Z) : val :=
  match ctx with
  | [] => match tfind t [v] with Some (p, _) => p | None => NInf end
  | _ :: ctx' =>
      match tfind t (ctx ++ [v]) with
      | Some (Fin p, _) => Fin p
      | _ => vadd (backoff t ctx) (katz t ctx' v)
      end
  end.

Definition lastn {A} (n : nat) (l : list A) : list A := skipn (length l - n) l.

(* "histories being left-padded with the start symbol": the N-1 most recent tokens *)
Definition context (N : nat) (s : Z) (hist : list Z) : list Z :=
  lastn (N - 1) (repeat s (N - 1) ++ hist).

(* next-token log-probabilities after the first [i] tokens of [col] *)
Definition katz_row (t : tab) (N : nat) (V s : Z) (col : list Z) (i : nat) : list val :=
  map (katz t (context N s (firstn i col))) (zrange V).

(* ---------- (b) buffers representing a table ------------------------------------------ *)

(* the node reached from unigram node x by following the tokens of [rest] (newest first) *)
Definition node_at (b : bufs) (sh : shape) (x : Z) (rest : list Z) : option Z :=
  let st := fold_left (ext b sh) rest (x, true) in
  if snd st then Some (fst st) else None.

Definition nroots (sh : shape) : Z := vocab sh + shiftz (vocab sh) (sos sh).

(* reversed key (x :: rest) is the n-gram rev (x :: rest) *)
Definition node_ok (b : bufs) (sh : shape) (t : tab) (x : Z) (rest : list Z) : Prop :=
  let inner := (length rest < order sh - 1)%nat in
  match tfind t (rev (x :: rest)) with
  | Some (p, bo) =>
      exists j, node_at b sh x rest = Some j /\ zget (logps b) j NaN = p /\
                (inner -> zget (logbs b) j NaN = bo /\ j < osize b)
  | None =>
      forall j, node_at b sh x rest = Some j ->
                zget (logps b) j NaN = NInf /\
                (inner -> zget (logbs b) j NaN = Fin 0 /\ j < osize b)
  end.

(* [t] is the table with the start symbol already renamed to V when it is out of
   vocabulary (tmap below) *)
Definition TrieOK (b : bufs) (sh : shape) (t : tab) : Prop :=
  lens_ok b sh = true /\ (1 <= order sh)%nat /\ nroots sh <= zlen (logps b) /\
  forall x rest, 0 <= x < nroots sh -> (length rest < order sh)%nat -> node_ok b sh t x rest.

Definition tmap (sh : shape) (t : tab) : tab := map (fun e => (mapwin sh (fst e), snd e)) t.

(* -- the validator: enumerate the nodes the descent can reach, level by level -- *)

Definition kids (b : bufs) (sh : shape) (nd : list Z * Z) : list (list Z * Z) :=
  map (fun pos => (fst nd ++ [idat b sh pos], pos)) (cands b sh (snd nd)).

Fixpoint level (b : bufs) (sh : shape) (d : nat) : list (list Z * Z) :=
  match d with
  | O => map (fun x => ([x], x)) (zrange (nroots sh))
  | S d' => flat_map (kids b sh) (level b sh d')
  end.

Fixpoint nodupb (l : list Z) : bool :=
  match l with [] => true | x :: t => negb (existsb (Z.eqb x) t) && nodupb t end.

Definition node_check (b : bufs) (sh : shape) (t : tab) (d : nat) (nd : list Z * Z) : bool :=
  let j := snd nd in
  let inner := Nat.ltb d (order sh - 1) in
  let structure :=
    if inner then nodupb (map (idat b sh) (cands b sh j)) && (j <? osize b) else true in
  let values :=
    match tfind t (rev (fst nd)) with
    | Some (p, bo) =>
        val_eqb (zget (logps b) j NaN) p && (if inner then val_eqb (zget (logbs b) j NaN) bo else true)
    | None =>
        val_eqb (zget (logps b) j NaN) NInf &&
        (if inner then val_eqb (zget (logbs b) j NaN) (Fin 0) else true)
    end in
  (0 <=? j) && structure && values.

Definition all_nodes (b : bufs) (sh : shape) : list (list Z * Z) :=
  flat_map (level b sh) (seq 0 (order sh)).

Definition trie_okb (b : bufs) (sh : shape) (t : tab) : bool :=
  lens_ok b sh && Nat.leb 1 (order sh) && (nroots sh <=? zlen (logps b))
  && forallb (fun d => forallb (node_check b sh t d) (level b sh d)) (seq 0 (order sh))
  && forallb (fun e => existsb (fun nd => list_eqb (fst nd) (rev (fst e))) (all_nodes b sh)) t.

(* ---------- hypotheses on tables and histories ---------------------------------------- *)

(* every token is a vocabulary id or the start symbol *)
Definition toks_okb (V s : Z) (l : list Z) : bool := forallb (tok_okb V s) l.
Definition tab_okb (V s : Z) (t : tab) : bool := forallb (fun e => toks_okb V s (fst e)) t.

(* ---------- (c) judging an implementation output against the recursion ------------------ *)

(* out = B rows for position idxs[bi] of column bi *)
Definition spec_at (t : tab) (N : nat) (V s : Z) (hist : list (list Z)) (B : nat)
  (idxs : list nat) : list (list val) :=
  map (fun p => katz_row t N V s (column hist (fst p)) (snd p)) (combine (seq 0 B) idxs).

Definition spec_full (t : tab) (N : nat) (V s : Z) (hist : list (list Z)) (B : nat)
  : list (list (list val)) :=
  map (fun i => spec_at t N V s hist B (repeat i B)) (seq 0 (S (length hist))).

(* ---------- (d) ARPA files ------------------------------------------------------------------------ *)

(* one listed entry: log-probability, the n-gram (token ids), and, if a back-off weight is
   written after the words, that field's accidental id under token2id and its value *)
Record aentry := mkEntry { ae_logp : Z; ae_key : list Z; ae_bo : option (option Z * Z) }.

(* [wf x] = the float value of word x when the word itself happens to look like a number *)
Definition entry_line (wf : Z -> option Z) (e : aentry) : aline :=
  LEntry (ae_logp e)
         (map (fun x => Field (Some x) (wf x)) (ae_key e)
          ++ match ae_bo e with Some (oi, bo) => [Field oi (Some bo)] | None => [] end).

(* what the listed entry means: the back-off weight defaults to 0 and is not stored for the
   highest order *)
Definition entry_value (N n : nat) (e : aentry) : list Z * (val * val) :=
  (ae_key e,
   (Fin (ae_logp e),
    if Nat.eqb n N then Fin 0
    else Fin (match ae_bo e with Some (_, bo) => bo | None => 0 end))).

Definition section_ok (N n : nat) (es : list aentry) : Prop :=
  Forall (fun e => length (ae_key e) = n /\ (n = N -> ae_bo e = None)) es /\
  NoDup (map ae_key es).

Definition nth_sec (secs : list (list aentry)) (n : nat) : list aentry := nth (n - 1) secs [].

(* the non-blank lines of a well-formed file: anything without a \data\ line, \data\, the
   counts, the sections in increasing order, \end\, anything *)
Definition arpa_lines (wf : Z -> option Z) (pre post : list aline) (secs : list (list aentry))
  : list aline :=
  let N := length secs in
  pre ++ LData :: map (fun n => LCount n (length (nth_sec secs n))) (seq 1 N)
      ++ flat_map (fun n => LHeader n :: map (entry_line wf) (nth_sec secs n)) (seq 1 N)
      ++ LEnd :: post.

Definition arpa_dicts (secs : list (list aentry)) : list dict :=
  let N := length secs in
  map (fun n => map (entry_value N n) (nth_sec secs n)) (seq 1 N).

Definition nonblank (l : aline) : bool := match l with LBlank => false | _ => true end.

(* ---------- example data used by the non-vacuity Examples of Properties.v ------------------------ *)

Definition ex_tab : tab :=
  [([0], (Fin (-8), Fin (-4))); ([1], (Fin (-16), Fin (-2)));
   ([0; 1], (Fin (-4), Fin (-1))); ([1; 1], (Fin (-6), Fin 0));
   ([2; 0; 1], (Fin (-2), Fin 0)); ([0; 1; 1], (Fin (-12), Fin 0)); ([1; 2; 0], (Fin (-24), Fin 0))].
Definition ex_sh : shape := mkShape 3 5 3 3 2.
Definition ex_bufs : bufs :=
  mkBufs [5; 5; 6; 5; 4; 4; 4; 4; 4] [2; 0; 1; 0; 1; 2; 0]
         [Fin (-8); Fin (-16); NInf; NInf; NaN; NInf; Fin (-4); Fin (-6); NaN; Fin (-24); Fin (-2); Fin (-12)]
         [Fin (-4); Fin (-2); Fin 0; Fin 0; NaN; Fin 0; Fin (-1); Fin 0; NaN].

