(* C07, second source tie - as-coded helpers the new ties are stated against.  ADDITIONS to C07.Model only
   (Model.v is not edited); every definition that overlaps an existing model function is proved equal to it
   in TieBModel.v.

   ctc_greedy_search over an ARBITRARY score carrier.  Model.ctc_greedy fixes the carrier Z (the grid the
   correspondence uses); the source works on floating point numbers, which the tie models as exact rationals
   or -inf (MiniTorch.OpsC07.xq).  [ctc_greedy_g] is Model.ctc_greedy with the carrier, its strict order
   [ltb], the two reductions and their units as parameters, line for line; at (Z, <?, +, *, 0, 1, one) it IS
   Model.ctc_greedy (TieBModel.ctc_greedy_g_Z, by reflexivity).  The paths and lengths only depend on the
   frame-wise argmax: that part is [greedy_core].

   No proofs in this file. *)
From Coq Require Import List ZArith Bool Arith.
From PV Require Import C07.Model.
Import ListNotations.

(* keep mask / in_lens mask / masked_select / masked_scatter_ compaction: everything after the argmax *)
Definition greedy_core (blank' T : nat) (in_mask : list (list bool)) (am : list (list nat))
  : list (list nat) * list nat :=
  let keep0 := map (keep_from blank' None) am in
  let keep := map2 (map2 andb) keep0 in_mask in
  let out_lens := map (fun k => sumn (map b2n k)) keep in
  let data := concat (map2 select keep am) in
  let out_mask := map (fun l => map (fun t => t <? l) (seq 0 T)) out_lens in
  (mscatter_rows out_mask data am, out_lens).

Definition greedy_in_mask {X} (T : nat) (in_lens : option (list Z)) (lp : list X) : list (list bool) :=
  match in_lens with
  | None => map (fun _ => repeat true T) lp
  | Some ls => map (fun l => map (fun t => (Z.of_nat t <? l)%Z) (seq 0 T)) ls
  end.

Section GreedyG.
  Context {A : Type} (ltb : A -> A -> bool) (add mul : A -> A -> A) (zero one fill1 : A).

  (* (max_, argmax) = row.max(): first maximal entry *)
  Fixpoint argmax_from_g (best : A) (bi : nat) (i : nat) (l : list A) : A * nat :=
    match l with
    | [] => (best, bi)
    | x :: t => if ltb best x then argmax_from_g x i (S i) t else argmax_from_g best bi (S i) t
    end.
  Definition argmax_first_g (row : list A) : A * nat :=
    match row with [] => (zero, 0) | x :: t => argmax_from_g x 0 1 t end.

  Record greedy_out_g := mkGG { gg_score : list A; gg_paths : list (list nat); gg_lens : list nat }.

  (* lp is batch-first N x T x V; [fill1] is what frames beyond in_lens are filled with when is_probs
     (the code's 1.0), [one] the unit of the product.  None = RuntimeError (blank index out of range). *)
  Definition ctc_greedy_g (is_probs : bool) (V : Z) (blank : Z) (T : nat)
    (in_lens : option (list Z)) (lp : list (list (list A))) : option greedy_out_g :=
    if (blank <? - V)%Z || (V - 1 <? blank)%Z then None else
    let blank' := Z.to_nat ((blank + V) mod V) in
    let mx := map (map argmax_first_g) lp in
    let max_ := map (map fst) mx in
    let am := map (map snd) mx in
    let in_mask := greedy_in_mask T in_lens lp in
    let fill := if is_probs then fill1 else zero in
    let max_' := map2 (map2 (fun (i : bool) v => if i then v else fill)) in_mask max_ in
    let score := map (if is_probs then fold_right mul one else fold_right add zero) max_' in
    let '(paths, out_lens) := greedy_core blank' T in_mask am in
    Some (mkGG score paths out_lens).
End GreedyG.
