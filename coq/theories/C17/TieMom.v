(* C17 - tie between the Python text of the two length-moment workers of command_line.py
   (_print_torch_ali_data_dir_length_moments, _print_torch_ref_data_dir_length_moments) and
   PV.C17.Model.ali_moments / ref_moments: for every file system, stored tensor and exclude list the interpreted
   worker returns exactly the model's (sum, sum of squares, count) - and, for the ref worker, a message exactly
   when the model says there is one - without any effect. *)
From Coq Require Import ZArith QArith List String Bool Arith Lia ZifyBool ZifyNat.
From PV Require Import C11.Model C17.Model.
From PV Require Import MiniPy.Syntax MiniPy.Interp MiniTorch.OpsC17 MiniTorch.ValueC17 MiniTorch.LemmasC17 Gen.C17Src
  C17.SrcRun C17.TieLib C17.TieAli.
Import ListNotations.
Local Open Scope string_scope.

(* ---- lists ---- *)
Lemma map2_map_map : forall A B C D (g : B -> C -> D) (f1 : A -> B) (f2 : A -> C) l,
  map2 g (map f1 l) (map f2 l) = map (fun x => g (f1 x) (f2 x)) l.
Proof. induction l as [|x l IH]; cbn; [reflexivity|now rewrite IH]. Qed.

Lemma select_map_map : forall A B (f : A -> B) (p : A -> bool) l, select (map f l) (map p l) = map f (filter p l).
Proof. induction l as [|x l IH]; cbn; [reflexivity|]. destruct (p x); cbn; now rewrite IH. Qed.

Lemma forallb_ne : forall z e, forallb (fun b : bool => b) (map (zcmp KNe z) e) = negb (existsb (Z.eqb z) e).
Proof. induction e as [|x e IH]; cbn; [reflexivity|]. now rewrite IH, negb_orb. Qed.

Lemma filter_true_all : forall A (l : list A), filter (fun _ => true) l = l.
Proof. induction l as [|x l IH]; cbn; [reflexivity|now rewrite IH]. Qed.

Lemma sum_b2z : forall l : list bool,
  (0 <= fold_right Z.add 0 (map (fun b : bool => if b then 1 else 0) l))%Z
  /\ negb (fold_right Z.add 0 (map (fun b : bool => if b then 1 else 0) l) =? 0)%Z = existsb (fun b => b) l.
Proof.
  induction l as [|b l [IH1 IH2]]; cbn [map fold_right existsb]; [split; [lia|reflexivity]|].
  destruct b; cbn [orb]; [split; lia|split; [lia|exact IH2]].
Qed.

(* the mask `(counts.unsqueeze(1) != exclude_ids).all(1)` keeps the runs whose value is not excluded *)
Lemma select_not_excluded : forall (rs : list (Z * Z)) e,
  select (map snd rs)
    (map (forallb (fun b : bool => b)) (map (fun r : list Z => map (zcmp KNe (hd 0%Z r)) e) (map (fun z : Z => [z]) (map fst rs))))
  = map snd (filter (fun vc : Z * Z => negb (existsb (Z.eqb (fst vc)) e)) rs).
Proof.
  intros rs e. rewrite !map_map. rewrite <- select_map_map. f_equal. apply map_ext. intros [v c]. cbn [hd fst].
  apply forallb_ne.
Qed.

Lemma sum_ind : forall A (P : A -> bool) l,
  negb (fold_right Z.add 0 (map (fun x => if P x then 1 else 0) l) =? 0)%Z = existsb P l.
Proof.
  intros A P l. rewrite <- (map_map P (fun b : bool => if b then 1%Z else 0%Z)).
  rewrite (proj2 (sum_b2z (map P l))). induction l as [|x l IH]; cbn; [reflexivity|now rewrite IH].
Qed.

Lemma existsb_ext' : forall A (f g : A -> bool) l, (forall x, f x = g x) -> existsb f l = existsb g l.
Proof. intros A f g l H. induction l as [|x l IH]; cbn; [reflexivity|now rewrite H, IH]. Qed.

Lemma hd_slice_to1 : forall x : list Z, hd 0%Z (slice_list None (Some 1%Z) x) = nth 0 x 0%Z.
Proof. intros [|a x]; [reflexivity|now rewrite slice_to1]. Qed.

Lemma keep_eq : forall x e,
  forallb (fun b : bool => b) (map (zcmp KNe (hd 0%Z (slice_list None (Some 1%Z) x))) e)
  = negb (existsb (Z.eqb (row_tok x)) e).
Proof. intros. rewrite hd_slice_to1. apply forallb_ne. Qed.

Lemma filter_keep : forall rows e,
  filter (fun x : list Z => (0 <=? nth 1 x 0)%Z && (nth 1 x 0 <=? nth 2 x 0)%Z
            && forallb (fun b : bool => b) (map (zcmp KNe (hd 0%Z (slice_list None (Some 1%Z) x))) e)) rows
  = filter (fun r : list Z => (0 <=? row_start r)%Z && (row_start r <=? row_end r)%Z
              && negb (existsb (Z.eqb (row_tok r)) e)) rows.
Proof. intros. apply filter_ext. intros x. now rewrite keep_eq. Qed.

Lemma existsb_keep : forall rows e,
  existsb (fun x : list Z => negb ((0 <=? nth 1 x 0)%Z && (nth 1 x 0 <=? nth 2 x 0)%Z)
             && forallb (fun b : bool => b) (map (zcmp KNe (hd 0%Z (slice_list None (Some 1%Z) x))) e)) rows
  = existsb (fun r : list Z => negb ((0 <=? row_start r)%Z && (row_start r <=? row_end r)%Z)
               && negb (existsb (Z.eqb (row_tok r)) e)) rows.
Proof. intros. apply existsb_ext'. intros x. now rewrite keep_eq. Qed.

#[local] Arguments enc17 : simpl never.
#[local] Arguments dec17 : simpl never.
#[local] Arguments unique_consecutive_counts : simpl never.
#[local] Arguments get_slice1 : simpl never.
#[local] Arguments get_block : simpl never.
#[local] Arguments get_col : simpl never.
#[local] Arguments get_cell : simpl never.
#[local] Arguments masked : simpl never.
#[local] Arguments compare : simpl never.
#[local] Arguments sub : simpl never.
#[local] Arguments logical_and : simpl never.
#[local] Arguments invert : simpl never.
#[local] Arguments ones_like : simpl never.
#[local] Arguments long : simpl never.
#[local] Arguments square : simpl never.
#[local] Arguments unsqueeze1 : simpl never.
#[local] Arguments OpsC17.sum : simpl never.
#[local] Arguments all_dim1 : simpl never.
#[local] Arguments nonzero : simpl never.
#[local] Arguments flatten : simpl never.
#[local] Arguments tolist : simpl never.
#[local] Arguments any : simpl never.
#[local] Arguments ndim : simpl never.
#[local] Arguments size : simpl never.
#[local] Arguments shape : simpl never.
#[local] Arguments numel : simpl never.
#[local] Arguments then_ : simpl never.
#[local] Arguments path : simpl never.
#[local] Arguments slice_list : simpl never.
#[local] Arguments runs : simpl never.
#[local] Arguments Z.of_nat : simpl never.
#[local] Arguments select : simpl never.
#[local] Arguments map2 : simpl never.
#[local] Arguments true_positions : simpl never.

(* `t is not None` on a tensor, in the shape [cbn] gives it *)
Lemma is_not_none_enc17_cbn : forall t : lten,
  ltac:(let x := eval cbn in (cmp_eval IsNot (enc17 t) VNone) in exact (x = Some true)).
Proof. intros [| | |]; reflexivity. Qed.

Ltac mstep :=
  cbn; change (Pos.to_nat 1) with 1%nat; change (Pos.to_nat 2) with 2%nat; change (Pos.to_nat 3) with 3%nat; cbv iota;
  change (Z.of_nat 3) with 3%Z; change (Z.of_nat 2) with 2%Z; change (Z.of_nat 1) with 1%Z; change (Z.of_nat 0) with 0%Z;
  rewrite ?method_enc17, ?foreign_enc17, ?subscript_enc17, ?subscript_enc17_t, ?attribute_enc17, ?binop_sub_enc17, ?binop_and_enc17,
    ?dec17_enc17, ?on1_enc, ?on2_enc, ?on1v_enc, ?operand_enc17, ?getitem_mask, ?is_none_enc17, ?is_not_none_enc17_cbn,
    ?ucc_L1, ?ndim_L1, ?ndim_L2, ?size_L2_0, ?size_L2_1, ?size_L1_0, ?shape_L1, ?shape_L2, ?numel_L1,
    ?get_block_L2, ?compare_L2_Z, ?compare_L1_L1, ?compare_L1_Z, ?compare_Z_L1, ?compare_L21_L1,
    ?any_B1, ?any_B2, ?all_dim1_B2, ?sub_L1, ?and_B1, ?invert_B1, ?ones_like_B1, ?long_B1, ?square_L1, ?unsqueeze1_L1,
    ?sum_L1, ?nonzero_B1, ?flatten_L2, ?tolist_L1, ?masked_L1, ?get_col_3_0, ?get_col_3_1, ?get_col_3_2.
Ltac mstmt := open_seq; repeat (progress mstep).

Theorem ali_moments_tie : forall fs fn excl v,
  dict_get fs fn = Some (enc_tensor (Vec v)) ->
  exists st, run_ali_moments fs fn excl = Ok (mom_value (ali_moments excl (Vec v))) st /\ events st = [].
Proof.
  intros fs fn excl v H. unfold run_ali_moments.
  destruct excl as [e|]; cbn [excl_arg]; eexists; (split; [apply run_of_exec_ret|]).
  - unfold ali_moments_body, ali_moments_vars. cbn [excl_arg].
    mstmt. rewrite H. cbn [bind]. close_stmt. unfold enc_tensor, lten_of. mstmt. close_stmt.
    open_seq. open_if. repeat (progress mstep). subst_body. mstmt. close_stmt. repeat (progress mstep).
    rewrite if_len_eq by (now rewrite !map_length). repeat (progress mstep). close_stmt.
    mstmt. close_stmt. repeat (progress mstep).
    rewrite select_not_excluded, runs_rle. reflexivity.
  - reflexivity.
  - unfold ali_moments_body, ali_moments_vars. cbn [excl_arg].
    mstmt. rewrite H. cbn [bind]. close_stmt. unfold enc_tensor, lten_of. mstmt. close_stmt.
    open_seq. open_if. repeat (progress mstep). subst_body. repeat (progress mstep). close_stmt.
    mstmt. close_stmt. repeat (progress mstep).
    rewrite runs_rle. unfold excluded. cbn [negb]. rewrite filter_true_all. reflexivity.
  - reflexivity.
Qed.

Ltac rstep := repeat (progress (mstep; rewrite ?slice_all, ?map_map, ?map2_map_map, ?slice_len_to1_3, ?sum_ind;
                                 rewrite ?if_len_eq by (rewrite ?map_length; reflexivity))).
Ltac rstmt := open_seq; rstep.

Definition ref_file (d p u s : string) : val := path (VStr d) (VStr ((p ++ u) ++ s)).

(* the k-th tail of a right-nested sequence *)
Fixpoint drop_seq (k : nat) (s : stmt) : stmt :=
  match k, s with S k', SSeq _ b => drop_seq k' b | _, _ => s end.

Definition validf (x : list Z) : bool := ((0 <=? nth 1 x 0) && (nth 1 x 0 <=? nth 2 x 0))%Z.
Definition lenf (x : list Z) : Z := (nth 2 x 0 - nth 1 x 0)%Z.

(* the state after `not_excluded = ...` (statement 6), whatever the mask [K] is *)
Definition ref_mid_vars (u d p s : string) (ev : val) (rows : list (list Z)) (K : list Z -> bool) : list (string * val) :=
  [("utt_id", VStr u); ("dir_", VStr d); ("prefix", VStr p); ("suffix", VStr s); ("exclude_ids", ev);
   ("torch", torch_module); ("ref", enc17 (L2 3 rows)); ("eprefix", msg);
   ("lens", enc17 (L1 (map lenf rows))); ("valid", enc17 (B1 (map validf rows)));
   ("not_excluded", enc17 (B1 (map K rows)))].

Definition ref_result (rows : list (list Z)) (K : list Z -> bool) : val :=
  let kept := map lenf (filter (fun x => validf x && K x) rows) in
  VTuple [VInt (fold_right Z.add 0%Z kept); VInt (fold_right Z.add 0%Z (map (fun z => (z * z)%Z) kept));
          VInt (Z.of_nat (List.length kept));
          if existsb (fun x => negb (validf x) && K x) rows then msg else VNone].

Lemma ref_tail : forall fs u d p s ev rows K,
  exists st, exec (ext17 fs) (drop_seq 6 ref_moments_body) (mkState (ref_mid_vars u d p s ev rows K) [])
             = Ok (CReturn (ref_result rows K)) st /\ events st = [].
Proof.
  intros. unfold ref_moments_body, ref_mid_vars. cbn [drop_seq].
  remember (ref_result rows K) as RES.
  rstmt. close_stmt.
  open_seq. open_if. rstep.
  match goal with |- context [if existsb ?P rows then _ else _] => destruct (existsb P rows) eqn:B end; subst_body.
  - rstmt. close_stmt. rstep. close_stmt. rstmt. close_stmt. rstmt. close_stmt. rstep.
    eexists. split; [|shelve]. subst RES. unfold ref_result. rewrite select_map_map.
    unfold validf in *. rewrite B. reflexivity. Unshelve. reflexivity.
  - rstep. close_stmt. rstmt. close_stmt. rstmt. close_stmt. rstep.
    eexists. split; [|shelve]. subst RES. unfold ref_result. rewrite select_map_map.
    unfold validf in *. rewrite B. reflexivity. Unshelve. reflexivity.
Qed.

Definition keep_excl (e : list Z) (x : list Z) : bool :=
  forallb (fun b : bool => b) (map (zcmp KNe (hd 0%Z (slice_list None (Some 1%Z) x))) e).

Lemma ref_head : forall fs u d p s excl rows,
  dict_get fs (ref_file d p u s) = Some (enc_tensor (Mat 3 rows)) ->
  exec (ext17 fs) ref_moments_body (mkState (ref_moments_vars (VStr u) (VStr d) (VStr p) (VStr s) excl) [])
  = exec (ext17 fs) (drop_seq 6 ref_moments_body)
      (mkState (ref_mid_vars u d p s (excl_arg excl) rows
                  (match excl with Some e => keep_excl e | None => fun _ => true end)) []).
Proof.
  intros fs u d p s excl rows H.
  remember (exec (ext17 fs) (drop_seq 6 ref_moments_body)
      (mkState (ref_mid_vars u d p s (excl_arg excl) rows
                  (match excl with Some e => keep_excl e | None => fun _ => true end)) [])) as RHS.
  unfold ref_moments_body, ref_moments_vars.
  rstmt. fold (ref_file d p u s). rewrite H. cbn [bind]. close_stmt. unfold enc_tensor, lten_of.
  rstmt. close_stmt.
  open_seq. open_if. rstep. subst_body. rstep. close_stmt.
  rstmt. close_stmt.
  rstmt. close_stmt.
  destruct excl as [e|]; cbn [excl_arg] in *.
  - open_seq. open_if. rstep. subst_body. rstep. close_stmt. subst RHS. reflexivity.
  - open_seq. open_if. rstep. subst_body. rstep. close_stmt. subst RHS. reflexivity.
Qed.

Lemma ref_result_model : forall rows excl,
  ref_result rows (match excl with Some e => keep_excl e | None => fun _ => true end)
  = ref_moments_value (ref_moments excl (Mat 3 rows)).
Proof.
  intros rows excl. unfold ref_result, ref_moments_value, ref_moments, excluded, validf, lenf.
  destruct excl as [e|].
  - unfold keep_excl. rewrite filter_keep, existsb_keep. reflexivity.
  - reflexivity.
Qed.

Lemma ref_moments_rows : forall fs u d p s excl rows,
  dict_get fs (ref_file d p u s) = Some (enc_tensor (Mat 3 rows)) ->
  exists st, run_ref_moments fs u d p s excl = Ok (ref_moments_value (ref_moments excl (Mat 3 rows))) st
             /\ events st = [].
Proof.
  intros fs u d p s excl rows H. unfold run_ref_moments.
  destruct (ref_tail fs u d p s (excl_arg excl) rows
              (match excl with Some e => keep_excl e | None => fun _ => true end)) as [st [X1 X2]].
  exists st. split; [|exact X2]. apply run_of_exec_ret. rewrite (ref_head _ _ _ _ _ _ _ H), X1, ref_result_model.
  reflexivity.
Qed.

(* anything that is not (R, 3): (0, 0, 0) and a message *)
Lemma ref_moments_other : forall fs u d p s excl t,
  dict_get fs (ref_file d p u s) = Some (enc_tensor t) ->
  match t with Mat 3 _ => False | _ => True end ->
  exists st, run_ref_moments fs u d p s excl = Ok (ref_moments_value (ref_moments excl t)) st /\ events st = [].
Proof.
  intros fs u d p s excl t H N. unfold run_ref_moments.
  assert (X : exists st, exec (ext17 fs) ref_moments_body
                (mkState (ref_moments_vars (VStr u) (VStr d) (VStr p) (VStr s) excl) [])
              = Ok (CReturn (ref_moments_value (ref_moments excl t))) st /\ events st = []).
  2:{ destruct X as [st [X1 X2]]. exists st. split; [apply run_of_exec_ret; exact X1|exact X2]. }
  assert (RM : ref_moments excl t = ((0, 0, 0)%Z, true)).
  { destruct t as [v|w rows]; [reflexivity|]. destruct w as [|[|[|[|w]]]]; try reflexivity. contradiction. }
  rewrite RM. clear RM.
  unfold ref_moments_body, ref_moments_vars.
  rstmt. fold (ref_file d p u s). rewrite H. cbn [bind]. close_stmt. unfold enc_tensor.
  rstmt. close_stmt.
  destruct t as [v|w rows]; cbn [lten_of].
  - open_seq. open_if. rstep. subst_body. rstmt. close_stmt. rstep. eexists. split; reflexivity.
  - assert (Hw : (Z.of_nat w =? 3)%Z = false).
    { destruct w as [|[|[|[|w]]]]; try reflexivity; [contradiction|lia]. }
    open_seq. open_if. rstep. rewrite Hw. rstep. subst_body. rstmt. close_stmt. rstep.
    eexists. split; reflexivity.
Qed.

Theorem ref_moments_tie : forall fs u d p s excl t,
  dict_get fs (ref_file d p u s) = Some (enc_tensor t) ->
  exists st, run_ref_moments fs u d p s excl = Ok (ref_moments_value (ref_moments excl t)) st /\ events st = [].
Proof.
  intros fs u d p s excl t H.
  destruct t as [v|w rows]; [apply ref_moments_other; [exact H|exact I]|].
  destruct (Nat.eq_dec w 3) as [->|Hw].
  - apply ref_moments_rows; exact H.
  - apply ref_moments_other; [exact H|]. destruct w as [|[|[|[|w]]]]; try exact I. contradiction.
Qed.
