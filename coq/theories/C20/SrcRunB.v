(* C20, second tie - the translated sources of `MultiHeadedAttention.forward`, `MultiHeadedAttention.check_input`,
   `ConcatSoftAttention.score` and `_concat_soft_attention` (_attn.py) as executables: the environments, the
   encodings of the module objects, and the correspondence entry points [src_mha_check] (interface of
   Model.check_mha) and [src_concat_check] (interface of Model.check_single).  Definitions only; the lemmas
   are in TieB*.v.

   PV.Gen.C20BSrc.{mha_forward, mha_check_input, concat_score, csa} are regenerated from /repo on every run
   (whole bodies); `GlobalSoftAttention.forward` / `check_input` and the dot / general score bodies are those of
   the first tie (PV.Gen.C20Src), interpreted as there.  Eager CPython text only: `@script`, `@torch.jit.unused`,
   `__call__ = proxy(forward)`, Module.__call__ (hooks) are not modelled; `torch.jit.is_scripting()` is False.

   What reaches the environments, in addition to SrcRun.ext20_ops (which [extB_ops] falls back to):
     torch.jit.is_scripting()            False
     unflatten(x, -1, [H, d])            OpsC20B.unflatten_last (the compat function's `x.view(full_shape)`)
     x.flatten(-2)  x.squeeze(-1)        OpsC07.flatten_from / squeeze_dim           (views: data unchanged)
     x.size(-1)                          OpsC20B.size_dim
     mask.unsqueeze(-1)                  OpsC07.unsqueeze on a boolean tensor
     x.expand(sizes)                     OpsC20B.expand_to
     torch.cat([a, b], -1)               OpsC20B.cat_last
     torch.tanh(x)                       OpsC20B.tanh_t with the ORACLE [tanhf]
   and, in [ext_mha] (the body of MultiHeadedAttention.forward):
     self.check_input(q, k, v, m)        the translated MultiHeadedAttention.check_input on fresh variables
     self.WQ(x) .. self.WC(x)            torch.nn.Linear.forward = F.linear(x, self.W?.weight, self.W?.bias)
                                         ("Applies a linear transformation to the incoming data: y = xA^T + b");
                                         a Linear is the dictionary of its parameters weight and bias (or None)
     self.single_head_attention(q, k, v, m)
                                         the translated GlobalSoftAttention.forward on fresh variables with
                                         self := self.single_head_attention; the score body that runs is Python's
                                         dispatch on the class of that object = the parameter [cls]
   in [ext_concat] (forward of a ConcatSoftAttention): self.check_input, self.score = the translated
   ConcatSoftAttention.score, whose call `_concat_soft_attention(..)` runs the translated module-level function. *)
From Coq Require Import ZArith QArith List String Bool.
From PV Require Import MiniPy.Syntax MiniPy.Interp MiniTorch.Ops MiniTorch.OpsC07 MiniTorch.OpsC20 MiniTorch.OpsC20B.
From PV Require Import Gen.C20Src Gen.C20BSrc C20.SrcRun.
From PV Require C20.Model C20.ModelB.
Import ListNotations.
Local Open Scope string_scope.

Inductive score_classB := DotB | GeneralB | ConcatB.

(* the call of another Python function under environment [ext]: fresh variables, the caller's state is untouched *)
Definition call_with (ext : string -> list val -> list (string * val) -> state -> outcome val)
           (body : stmt) (vars0 : list (string * val)) (st : state) : outcome val :=
  match Interp.run ext body vars0 with
  | Ok v _ => Ok v st
  | Exc n _ => Exc n st
  | Stuck w => Stuck w
  end.

Definition forward_vars_v (self q k v m : val) : list (string * val) :=
  ("self", self) :: ("query", q) :: ("key", k) :: ("value", v) :: ("mask", m) :: globals20.

Section ExtB.
  Variables expf tanhf : Q -> Q.

  Definition extB_ops (f : string) (args : list val) (kw : list (string * val)) (st : state) : outcome val :=
    if is f "torch.jit.is_scripting" then
      match args, kw with [], [] => Ok (VBool false) st | _, _ => Stuck "is_scripting" end
    else if negb (no_kw kw) then ext20_ops expf f args kw st
    else if is f "unflatten" then
      match args with
      | [x; VInt d; VList sizes] =>
          if (d =? -1)%Z
          then match dec_q x, dec_nats sizes with
               | Some t, Some sz => ret_q "unflatten" (unflatten_last t sz) st
               | _, _ => Stuck "unflatten: arguments"
               end
          else Stuck "unflatten: dim"
      | _ => Stuck "unflatten"
      end
    else if is f "$method.flatten" then
      match args with
      | [x; VInt d] => match dec_q x with Some t => ret_q "flatten" (flatten_from t d) st | None => Stuck "flatten" end
      | _ => Stuck "flatten"
      end
    else if is f "$method.squeeze" then
      match args with
      | [x; VInt d] => match dec_q x with Some t => ret_q "squeeze" (squeeze_dim t d) st | None => Stuck "squeeze" end
      | _ => Stuck "squeeze"
      end
    else if is f "$method.size" then
      match args with
      | [x; VInt d] => match any_shape20 x with
                       | Some s => match size_dim s d with Some n => Ok (VInt (Z.of_nat n)) st | None => oob "size" end
                       | None => Stuck "size"
                       end
      | _ => Stuck "size"
      end
    else if is f "$method.unsqueeze" then
      match args with
      | [t; VInt d] => match dec_b t with
                       | Some x => match unsqueeze x d with Some r => Ok (enc_b r) st | None => oob "unsqueeze" end
                       | None => ext20_ops expf f args kw st
                       end
      | _ => Stuck "unsqueeze"
      end
    else if is f "$method.expand" then
      match args with
      | [x; VList sizes] => match dec_q x, dec_nats sizes with
                            | Some t, Some sz => ret_q "expand" (expand_to t sz) st
                            | _, _ => Stuck "expand: arguments"
                            end
      | _ => Stuck "expand"
      end
    else if is f "torch.cat" then
      match args with
      | [VList [a; b]; VInt d] =>
          if (d =? -1)%Z
          then match dec_q a, dec_q b with
               | Some x, Some y => ret_q "cat" (cat_last x y) st
               | _, _ => Stuck "cat: arguments"
               end
          else Stuck "cat: dim"
      | _ => Stuck "cat"
      end
    else if is f "torch.tanh" then
      match args with
      | [x] => match dec_q x with Some t => Ok (enc_q (tanh_t tanhf t)) st | None => Stuck "tanh" end
      | _ => Stuck "tanh"
      end
    else ext20_ops expf f args kw st.

  (* a call of the module-level function _concat_soft_attention *)
  Definition ext_fn (f : string) (args : list val) (kw : list (string * val)) (st : state) : outcome val :=
    if is f "_concat_soft_attention" then
      match args, kw with
      | [q; k; w; b; v; d], [] =>
          call_with extB_ops csa
                    (("query", q) :: ("key", k) :: ("weight", w) :: ("bias", b) :: ("v", v) :: ("dim", d) :: globals20) st
      | _, _ => Stuck "_concat_soft_attention: arguments"
      end
    else extB_ops f args kw st.

  (* the body of GlobalSoftAttention.forward run on a ConcatSoftAttention *)
  Definition ext_concat (f : string) (args : list val) (kw : list (string * val)) (st : state) : outcome val :=
    if is f "self.check_input" then
      match args, kw, lookup "self" (vars st) with
      | [q; k; v; m], [], Some self => call_with extB_ops gsa_check_input (forward_vars_v self q k v m) st
      | _, _, _ => Stuck "self.check_input: arguments"
      end
    else if is f "self.score" then
      match args, kw, lookup "self" (vars st) with
      | [q; k], [], Some self =>
          call_with ext_fn concat_score (("self", self) :: ("query", q) :: ("key", k) :: globals20) st
      | _, _, _ => Stuck "self.score: arguments"
      end
    else extB_ops f args kw st.

  (* module(query, key, value, mask) of a single-head attention of class [cls]: the dot-product and generalised
     classes exactly as in the first tie (SrcRun.ext20) *)
  Definition single_forward (cls : score_classB) (self q k v m : val) : outcome val :=
    match cls with
    | DotB => Interp.run (ext20 expf DotCls) gsa_forward (forward_vars_v self q k v m)
    | GeneralB => Interp.run (ext20 expf GeneralCls) gsa_forward (forward_vars_v self q k v m)
    | ConcatB => Interp.run ext_concat gsa_forward (forward_vars_v self q k v m)
    end.

  (* torch.nn.Linear.forward *)
  Definition linear_layer (layer x : val) (st : state) : outcome val :=
    match layer with
    | VDict d => match dict_get d (VStr "weight"), dict_get d (VStr "bias") with
                 | Some w, Some b => ext20_ops expf "torch.nn.functional.linear" [x; w; b] [] st
                 | _, _ => Stuck "Linear: parameters"
                 end
    | _ => Stuck "Linear: not a module"
    end.

  Definition self_attr (a : string) (st : state) : option val :=
    match lookup "self" (vars st) with
    | Some (VDict d) => dict_get d (VStr a)
    | _ => None
    end.

  Variable cls : score_classB.

  (* the body of MultiHeadedAttention.forward *)
  Definition ext_mha (f : string) (args : list val) (kw : list (string * val)) (st : state) : outcome val :=
    if is f "self.check_input" then
      match args, kw, lookup "self" (vars st) with
      | [q; k; v; m], [], Some self => call_with extB_ops mha_check_input (forward_vars_v self q k v m) st
      | _, _, _ => Stuck "self.check_input: arguments"
      end
    else if (is f "self.WQ" || is f "self.WK" || is f "self.WV" || is f "self.WC")%bool then
      match args, kw, self_attr (substring 5 2 f) st with
      | [x], [], Some layer => linear_layer layer x st
      | _, _, _ => Stuck "self.W?: arguments"
      end
    else if is f "self.single_head_attention" then
      match args, kw, self_attr "single_head_attention" st with
      | [q; k; v; m], [], Some sha =>
          match single_forward cls sha q k v m with
          | Ok r _ => Ok r st
          | Exc n _ => Exc n st
          | Stuck w => Stuck w
          end
      | _, _, _ => Stuck "self.single_head_attention: arguments"
      end
    else extB_ops f args kw st.
End ExtB.

(* ---- encodings ---------------------------------------------------------------------------------- *)
Definition bias_opt (b : option (list Q)) : val := match b with None => VNone | Some bl => enc_q (vec_tensor bl) end.

(* a ConcatSoftAttention: weight (hidden x (query_size + key_size)), bias (hidden) or None, v (hidden) *)
Definition self_concat (dim : Z) (qs ks : nat) (W : list (list Q)) (b : option (list Q)) (v : list Q) : val :=
  VDict [(VStr "dim", VInt dim); (VStr "query_size", VInt (Z.of_nat qs)); (VStr "key_size", VInt (Z.of_nat ks));
         (VStr "weight", enc_q (rows_tensor (qs + ks) W)); (VStr "bias", bias_opt b); (VStr "v", enc_q (vec_tensor v))].

Definition self_single (dim : Z) (qs ks : nat) (fl : Model.flavour) : val :=
  match fl with
  | Model.Dot sc => self_dot dim qs ks sc
  | Model.General W b => self_general dim qs ks W b
  | Model.Concat W b v => self_concat dim qs ks W b v
  end.

Definition cls_of (fl : Model.flavour) : score_classB :=
  match fl with Model.Dot _ => DotB | Model.General _ _ => GeneralB | Model.Concat _ _ _ => ConcatB end.

(* a torch.nn.Linear(cols, rows): its parameters *)
Definition linear_val (cols : nat) (W : list (list Q)) (b : option (list Q)) : val :=
  VDict [(VStr "weight", enc_q (rows_tensor cols W)); (VStr "bias", bias_opt b)].

(* a MultiHeadedAttention wrapping the single-head module [sha] *)
Definition self_mha (dim : Z) (qs ks vs : nat) (P : Model.mha_params) (sha : val) : val :=
  VDict [(VStr "dim", VInt dim); (VStr "query_size", VInt (Z.of_nat qs)); (VStr "key_size", VInt (Z.of_nat ks));
         (VStr "value_size", VInt (Z.of_nat vs));
         (VStr "num_heads", VInt (Z.of_nat (Model.num_heads P)));
         (VStr "d_q", VInt (Z.of_nat (Model.d_q P))); (VStr "d_k", VInt (Z.of_nat (Model.d_k P)));
         (VStr "d_v", VInt (Z.of_nat (Model.d_v P)));
         (VStr "WQ", linear_val qs (Model.WQ P) (Model.bQ P));
         (VStr "WK", linear_val ks (Model.WK P) (Model.bK P));
         (VStr "WV", linear_val vs (Model.WV P) (Model.bV P));
         (VStr "WC", linear_val (Model.num_heads P * Model.d_v P) (Model.WC P) (Model.bC P));
         (VStr "single_head_attention", sha)].

Definition run_mha (expf tanhf : Q -> Q) (cls : score_classB) (self : val) (q k v : tn Q) (m : option (tn bool))
  : outcome val :=
  Interp.run (ext_mha expf tanhf cls) mha_forward (forward_vars self q k v m).

Definition run_single (expf tanhf : Q -> Q) (cls : score_classB) (self : val) (q k v : tn Q) (m : option (tn bool))
  : outcome val :=
  single_forward expf tanhf cls self (enc_q q) (enc_q k) (enc_q v) (mask_val m).

(* ---- executable entry points for the correspondence --------------------------------------------------
   outer None: stuck / not a finite float tensor; Some None: the source raised; Some (Some t): the returned tensor *)
Definition outcome_tensor (o : outcome val) : option (option (tn Q)) :=
  match o with
  | Ok r _ => option_map Some (dec_q r)
  | Exc _ _ => Some None
  | Stuck _ => None
  end.

Definition src_mha (expf tanhf : Q -> Q) (fl : Model.flavour) (P : Model.mha_params) (qs ks vs : nat) (dim : Z)
           (q k v : Model.tensor Q) (m : option (Model.tensor bool)) : option (option (tn Q)) :=
  outcome_tensor (run_mha expf tanhf (cls_of fl)
                          (self_mha dim qs ks vs P (self_single dim (Model.d_q P) (Model.d_k P) fl))
                          (flat q) (flat k) (flat v) (option_map flat m)).

(* same interface as Model.check_mha; the returned tensor is compared with the implementation's output exactly as
   the model's is (same shape; the cells all of whose heads have a kept position within [tol]) *)
Definition src_mha_check (etbl ttbl : list (Q * Q)) (fl : Model.flavour) (P : Model.mha_params)
           (qs ks vs : nat) (dim : Z) (mpos : nat)
           (q k v : Model.tensor Q) (m : option (Model.tensor bool))
           (impl : option (Model.shape * list Q)) (tol : Q) : bool :=
  match src_mha (Model.lookup etbl) (Model.lookup ttbl) fl P qs ks vs dim q k v m, impl with
  | Some None, None => true
  | Some (Some out), Some (ishape, idata) =>
      match Model.axis_pos dim (List.length (Model.tshape k)) with
      | Some p =>
          let qh := Model.q_heads P q in let kh := Model.k_heads P k in let mh := Model.mask_heads m mpos in
          match Model.bshape (tl (Model.tshape (Model.unsq (S p) qh))) (tl (Model.tshape kh)) with
          | Some es =>
              Model.cmp_out tol (rd 0%Q out)
                (fun ci => forallb (fun h => Model.defined_at mh (S p) es (0%nat :: h :: tl ci))
                                   (seq 0 (Model.num_heads P)))
                ishape idata
          | None => false
          end
      | None => false
      end
  | _, _ => false
  end.

Definition src_single (expf tanhf : Q -> Q) (fl : Model.flavour) (qs ks : nat) (dim : Z)
           (q k v : Model.tensor Q) (m : option (Model.tensor bool)) : option (option (tn Q)) :=
  outcome_tensor (run_single expf tanhf (cls_of fl) (self_single dim qs ks fl)
                             (flat q) (flat k) (flat v) (option_map flat m)).

(* same interface as Model.check_single, every flavour (the harness uses it for ConcatSoftAttention) *)
Definition src_concat_check (etbl ttbl : list (Q * Q)) (fl : Model.flavour) (qs ks : nat) (dim : Z)
           (q k v : Model.tensor Q) (m : option (Model.tensor bool))
           (impl : option (Model.shape * list Q)) (tol : Q) : bool :=
  match src_single (Model.lookup etbl) (Model.lookup ttbl) fl qs ks dim q k v m, impl with
  | Some None, None => true
  | Some (Some out), Some (ishape, idata) =>
      match Model.axis_pos dim (List.length (Model.tshape k)) with
      | Some p =>
          match Model.bshape (tl (Model.tshape (Model.unsq p q))) (tl (Model.tshape k)) with
          | Some es => Model.cmp_out tol (rd 0%Q out) (Model.defined_at m p es) ishape idata
          | None => false
          end
      | None => false
      end
  | _, _ => false
  end.
