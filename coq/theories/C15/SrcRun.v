(* C15 — the translated source as an executable: environment [ext15], encoding of the model's
   parameters / history rows / cache / optimizer as MiniPy values, and whole runs in which every
   control decision is taken by interpreting the regenerated source terms (PV.Gen.C15Src).
   Definitions only; the lemmas are in Tie.v.

   PV.Gen.C15Src holds the MiniPy terms that harness/py2coq/translate.py regenerates from
   /repo/src/pydrobert/torch/training.py on every run: blocks of
   TrainingStateController.update_for_epoch (statement markers, see harness/py2coq/units/C15Src.json)
       ufe_epoch       if epoch is None: epoch = self.get_last_epoch() + 1
       ufe_cont        if not self.params.num_epochs: cont = True / else: cont = epoch < num_epochs
       ufe_info        info = dict(self.get_info(epoch - 1, None))
       ufe_lr_default  if info["lr"] is None: info["lr"] = optimizer.defaults["lr"]
       ufe_es          es_epoch = ... / es_info = ... / the early-stopping countdown statement
       ufe_es_cont     if self.params.early_stopping_threshold and not info["es_patience_cd"]: cont = False
       ufe_rlr         rlr_epoch = ... / rlr_info = ... / the learning-rate countdown statement (with the
                       write into every optimizer.param_groups[i]["lr"])
       ufe_record      info["epoch"] = epoch; info["val_met"] = val_met; info["train_met"] = train_met
       ufe_control     = ufe_es; ufe_es_cont; ufe_rlr; ufe_record as one block
   and the whole functions continue_training and get_last_epoch.

   NOT translated (the model's own functions are used for them in [src_update]): the distributed
   reduction preamble, get_best_epoch and everything after info["train_met"] = train_met (files: C16),
   and the two kwargs statements (isinstance on user types): Model.check_kwargs / Model.collect.

   What [ext15] assumes (trusted, exercised by the harness on every run through [src_check]):
     self.get_info(e, *default)   is  self.cache_hist.get(e, *default)  (the method's one-line body; it has a
                                  starred argument, so it is given here through MiniPy's own dict.get)
     self.get_last_epoch()        is the translated get_last_epoch run on the caller's self
     10 ** x for the float x = reduce_lr_log10_epsilon is the model's [rlr_eps]: the parameter is kept as
                                  the symbolic value "log10 of rlr_eps" ([vlog10])
     dict(None)                   raises TypeError
   Encoding: metrics and thresholds are the model's integers (one common dyadic unit; subtraction, max(.,0)
   and < commute with the scaling), +inf of the dummy epoch 0 is [VInf true]; rates are exact rationals [VQ];
   cache_hist is the dict {0: row0, 1: row1, ...}; the optimizer is a list of parameter groups {"lr": rate}
   plus defaults {"lr": dflt}. *)
From Coq Require Import ZArith QArith List String Bool DecimalString.
From PV Require Import C15.Model.
From PV Require Import MiniPy.Syntax MiniPy.Interp Gen.C15Src.
Import ListNotations.
Local Open Scope string_scope.
Local Open Scope Z_scope.

(* ---- values ------------------------------------------------------------------------------ *)
Definition vmet (m : option Z) : val := match m with Some z => VInt z | None => VInf true end.
Definition vrate (l : option Q) : val := match l with Some q => VQ q | None => VNone end.
Definition vnum (n : option Z) : val := match n with Some z => VInt z | None => VNone end.
(* the float log10(q), symbolic: only 10 ** . is ever applied to it *)
Definition vlog10 (q : Q) : val := VTuple [VStr "log10"; VQ q].

Definition enc_params (p : params) : val :=
  VDict [(VStr "num_epochs", vnum (p_num p));
         (VStr "early_stopping_threshold", VInt (es_thr p));
         (VStr "early_stopping_patience", VInt (es_pat p));
         (VStr "early_stopping_burnin", VInt (es_burn p));
         (VStr "reduce_lr_threshold", VInt (rlr_thr p));
         (VStr "reduce_lr_factor", VQ (rlr_fac p));
         (VStr "reduce_lr_patience", VInt (rlr_pat p));
         (VStr "reduce_lr_cooldown", VInt (rlr_cool p));
         (VStr "reduce_lr_log10_epsilon", vlog10 (rlr_eps p));
         (VStr "reduce_lr_burnin", VInt (rlr_burn p))].

(* user entry n is the keyword "u<n>" (as in the harness) *)
Definition uname (n : nat) : val := VStr ("u" ++ NilZero.string_of_uint (Nat.to_uint n)).
Definition enc_uval (v : uval) : val :=
  match v with Model.VInt z => VInt z | Model.VStr s => VStr s end.
Definition enc_user (u : list (nat * uval)) : list (val * val) :=
  map (fun nv => (uname (fst nv), enc_uval (snd nv))) u.

(* a history row with its user part given separately *)
Definition enc_row_u (r : row) (u : list (val * val)) : val :=
  VDict ([(VStr "epoch", VInt (r_epoch r)); (VStr "es_resume_cd", VInt (r_esres r));
          (VStr "es_patience_cd", VInt (r_espcd r)); (VStr "rlr_resume_cd", VInt (r_rlrres r));
          (VStr "rlr_patience_cd", VInt (r_rlrpcd r)); (VStr "lr", vrate (r_lr r));
          (VStr "train_met", vmet (r_train r)); (VStr "val_met", vmet (r_val r))] ++ u)%list.
Definition enc_row (r : row) : val := enc_row_u r (enc_user (r_user r)).

Fixpoint enc_cache_from (i : Z) (c : list row) : list (val * val) :=
  match c with
  | [] => []
  | r :: t => (VInt i, enc_row r) :: enc_cache_from (i + 1) t
  end.
Definition enc_cache (c : list row) : list (val * val) := enc_cache_from 0 c.

Definition enc_self (p : params) (c : list row) : val :=
  VDict [(VStr "params", enc_params p); (VStr "cache_hist", VDict (enc_cache c))].

Definition enc_group (o : Q) : val := VDict [(VStr "lr", VQ o)].
Definition enc_opt (os : list Q) (dflt : Q) : val :=
  VDict [(VStr "param_groups", VList (map enc_group os)); (VStr "defaults", VDict [(VStr "lr", VQ dflt)])].

(* ---- the environment ----------------------------------------------------------------------- *)
Definition ext_none (f : string) (args : list val) (kw : list (string * val)) (st : state) : outcome val :=
  Stuck ("no ext: " ++ f).

Definition ext15 (f : string) (args : list val) (kw : list (string * val)) (st : state) : outcome val :=
  if is f "self.get_info" then
    match kw, lookup "self" (vars st) with
    | [], Some (VDict s) =>
        match dict_get s (VStr "cache_hist") with
        | Some (VDict d) =>
            match method (VDict d) "get" args with
            | Some (r, None) => Ok r st
            | _ => Stuck "get_info"
            end
        | _ => Stuck "get_info: cache_hist"
        end
    | _, _ => Stuck "get_info: self"
    end
  else if is f "self.get_last_epoch" then
    match args, kw, lookup "self" (vars st) with
    | [], [], Some self =>
        match Interp.run ext_none tsc_get_last_epoch [("self", self)] with
        | Ok v _ => Ok v st              (* the callee does not assign to self *)
        | Exc n _ => Exc n st
        | Stuck w => Stuck w
        end
    | _, _, _ => Stuck "get_last_epoch"
    end
  else if is f "operator" then
    match args, kw with
    | [VStr o; VInt 10; VTuple [VStr t; VQ q]], [] =>
        if (is o "pow" && is t "log10")%bool then Ok (VQ q) st else Stuck "operator"
    | _, _ => Stuck "operator"
    end
  else if is f "dict" then
    match args, kw with
    | [VNone], [] => Exc "TypeError" st
    | _, _ => Stuck "dict"
    end
  else Stuck ("ext15: " ++ f).

(* ---- variable environments of the blocks ------------------------------------------------------ *)
(* entry of update_for_epoch (epoch=None), after the distributed preamble *)
Definition vars_entry (self optim : val) (train va : Z) : list (string * val) :=
  [("self", self); ("optimizer", optim); ("train_met", VInt train); ("val_met", VInt va); ("epoch", VNone)].

(* the statements up to info = dict(...) (get_best_epoch, whose value only names files, left out) *)
Definition ufe_head : stmt := SSeq ufe_epoch (SSeq ufe_cont ufe_info).

(* entry of the control part: after the kwargs statements *)
Definition vars_ctl (self optim info : val) (epoch va train : Z) (cont : bool) : list (string * val) :=
  [("self", self); ("optimizer", optim); ("info", info); ("epoch", VInt epoch); ("val_met", VInt va);
   ("train_met", VInt train); ("cont", VBool cont)].

Definition ufe_tail : stmt := SSeq ufe_lr_default ufe_control.

(* ---- decoding ------------------------------------------------------------------------------------- *)
Definition dget (d : list (val * val)) (k : string) : option val := dict_get d (VStr k).
Definition dec_int (v : option val) : option Z := match v with Some (VInt z) => Some z | _ => None end.

Definition dec_row (d : list (val * val)) (user : list (nat * uval)) : option row :=
  match dec_int (dget d "epoch"), dec_int (dget d "es_resume_cd"), dec_int (dget d "es_patience_cd"),
        dec_int (dget d "rlr_resume_cd"), dec_int (dget d "rlr_patience_cd"),
        dget d "lr", dec_int (dget d "train_met"), dec_int (dget d "val_met") with
  | Some e, Some a, Some b, Some c, Some d', Some (VQ l), Some tr, Some va =>
      if val_eqb (VDict (skipn 8 d)) (VDict (enc_user user))
      then Some (mkRow e a b c d' (Some l) (Some tr) (Some va) user) else None
  | _, _, _, _, _, _, _, _ => None
  end.

Definition q_same (a b : Q) : bool := (Qnum a =? Qnum b) && Pos.eqb (Qden a) (Qden b).

Fixpoint dec_groups (l : list val) : option (list Q) :=
  match l with
  | [] => Some []
  | VDict [(VStr k, VQ q)] :: r => if is k "lr" then option_map (cons q) (dec_groups r) else None
  | _ => None
  end.

(* the common rate of all parameter groups *)
Definition dec_opt (v : val) : option Q :=
  match v with
  | VDict d =>
      match dget d "param_groups" with
      | Some (VList gs) =>
          match dec_groups gs with
          | Some (q :: r) => if forallb (q_same q) r then Some q else None
          | _ => None
          end
      | _ => None
      end
  | _ => None
  end.

Definition err_of (n : string) : option err :=
  if is n "TypeError" then Some ETypeError else if is n "ValueError" then Some EValueError else None.

(* ---- update_for_epoch with every control decision taken by the translated source ---------------- *)
(* number of parameter groups the runs use (the harness builds two) *)
Definition groups (o : Q) : list Q := [o; o].

(* outer None: the interpreter got stuck, or produced something that is not an update outcome *)
Definition src_update (rnd : Q -> Q) (p : params) (decl : list (nat * ukind)) (dflt : Q)
  (st : Model.state) (train va : Z) (kw : list (nat * uval)) : option (err + (bool * Model.state)) :=
  let self := enc_self p (cache st) in
  let optim := enc_opt (groups (opt st)) dflt in
  match Interp.run ext15 ufe_head (vars_entry self optim train va) with
  | Exc n _ => option_map inl (err_of n)
  | Ok VNone s1 =>
      match lookup "epoch" (vars s1), lookup "cont" (vars s1), lookup "info" (vars s1) with
      | Some (VInt epoch), Some (VBool cont0), Some (VDict prev) =>
          (* kwargs statements: the model's own functions *)
          match check_kwargs decl kw with
          | Some e => Some (inl e)
          | None =>
              match collect decl kw with
              | None => Some (inl ETypeError)
              | Some user =>
                  let info := VDict (firstn 8 prev ++ enc_user user)%list in
                  match Interp.run ext15 ufe_tail (vars_ctl self optim info epoch va train cont0) with
                  | Exc n _ => option_map inl (err_of n)
                  | Ok VNone s2 =>
                      match lookup "cont" (vars s2), lookup "info" (vars s2), lookup "optimizer" (vars s2) with
                      | Some (VBool cont), Some (VDict d), Some optim' =>
                          match dec_row d user, dec_opt optim' with
                          | Some info', Some o' =>
                              let lr' := match r_lr info' with Some l => l | None => 0%Q end in
                              let line := mkCrow (r_epoch info') (r_esres info') (r_espcd info') (r_rlrres info')
                                                 (r_rlrpcd info') (rnd lr') train va
                                                 (map (fun nv => print_uval (snd nv)) user) in
                              Some (inr (cont, Model.mkState (cache st ++ [info'])%list (csv st ++ [line])%list o'
                                                              ((r_epoch info', o') :: ckpt st)))
                          | _, _ => None
                          end
                      | _, _, _ => None
                      end
                  | _ => None
                  end
              end
          end
      | _, _, _ => None
      end
  | _ => None
  end.

(* continue_training() *)
Definition src_continue (p : params) (st : Model.state) : option bool :=
  match Interp.run ext15 tsc_continue_training [("self", enc_self p (cache st)); ("epoch", VNone)] with
  | Ok (VBool b) _ => Some b
  | _ => None
  end.

(* Model.run with update_for_epoch / continue_training replaced by the interpreted source *)
Fixpoint src_run (rnd rd : Q -> Q) (p : params) (decl : list (nat * ukind)) (dflt : Q)
  (st : Model.state) (steps : list step_in) : option (list obs * Model.state) :=
  match steps with
  | [] => Some ([], st)
  | s :: t =>
      let st1 := if s_restart s then restart rd p decl dflt st else inr st in
      match st1 with
      | inl e => option_map (fun r => (OErr e :: fst r, snd r)) (src_run rnd rd p decl dflt st t)
      | inr st1 =>
          match src_update rnd p decl dflt st1 (s_train s) (s_val s) (s_kw s) with
          | None => None
          | Some (inl e) => option_map (fun r => (OErr e :: fst r, snd r)) (src_run rnd rd p decl dflt st1 t)
          | Some (inr (cont, st2)) =>
              let info := match hget (cache st2) (last_epoch (cache st2)) with
                          | Some r => r | None => row0 p end in
              match src_continue p st2 with
              | None => None
              | Some ct =>
                  option_map (fun r => (OOk cont ct (opt st2) info :: fst r, snd r))
                             (src_run rnd rd p decl dflt st2 t)
              end
          end
      end
  end.

(* correspondence entry point: the implementation's per-epoch observations against the interpreted source *)
Definition src_check (tol : Q) (rnd rd : Q -> Q) (p : params) (decl : list (nat * ukind)) (dflt : Q)
  (steps : list step_in) (impl_obs : list obs) : bool :=
  match src_run rnd rd p decl dflt (init_state p dflt) steps with
  | Some (os, _) => leqb (obs_eqb tol) os impl_obs
  | None => false
  end.

(* hypotheses of the tie: TrainingStateParams bounds num_epochs to >= 1 (Python reads 0 as "unset",
   the model as a budget of 0), and the cache always holds the dummy epoch 0 *)
Definition num_ok (p : params) : Prop := p_num p <> Some 0.

(* names for Properties.v (string literals do not parse there) *)
Definition self_epoch_vars (self : val) : list (string * val) := [("self", self); ("epoch", VNone)].
Definition self_vars (self : val) : list (string * val) := [("self", self)].
Definition var_in (x : string) (st : state) : option val := lookup x (vars st).
Definition v_info := "info".
Definition v_cont := "cont".
Definition v_optimizer := "optimizer".
Definition v_epoch := "epoch".
Definition exc_type_error := "TypeError".

(* ---- what the blocks must produce, read off the model (used by the tie lemmas) ----------------------- *)
Definition head_expected (p : params) (c : list row) (o : outcome val) : Prop :=
  let epoch := last_epoch c + 1 in
  let cont0 := match p_num p with None => true | Some n => epoch <? n end in
  match hget c (epoch - 1), o with
  | None, Exc n _ => n = "TypeError"
  | Some prev, Ok VNone st =>
      var_in "epoch" st = Some (VInt epoch) /\ var_in "cont" st = Some (VBool cont0) /\
      var_in "info" st = Some (enc_row prev)
  | _, _ => False
  end.

(* row updates *)
Definition set_lr (r : row) (l : Q) : row :=
  mkRow (r_epoch r) (r_esres r) (r_espcd r) (r_rlrres r) (r_rlrpcd r) (Some l) (r_train r) (r_val r) (r_user r).
Definition set_es (r : row) (a b : Z) : row :=
  mkRow (r_epoch r) a b (r_rlrres r) (r_rlrpcd r) (r_lr r) (r_train r) (r_val r) (r_user r).
Definition set_rlr (r : row) (a b : Z) (l : Q) : row :=
  mkRow (r_epoch r) (r_esres r) (r_espcd r) a b (Some l) (r_train r) (r_val r) (r_user r).
Definition set_rec (r : row) (epoch train va : Z) : row :=
  mkRow epoch (r_esres r) (r_espcd r) (r_rlrres r) (r_rlrpcd r) (r_lr r) (Some train) (Some va) (r_user r).

(* the row a cache lookup binds a variable to (None for a missing epoch) *)
Definition vrow (o : option row) : val := match o with Some r => enc_row r | None => VNone end.

(* state of the control part after the early-stopping statements *)
Definition vars_es (self optim info : val) (epoch va train : Z) (cont : bool) (es_epoch es_info : val)
  : list (string * val) :=
  (vars_ctl self optim info epoch va train cont ++ [("es_epoch", es_epoch); ("es_info", es_info)])%list.

Definition st_of (vs : list (string * val)) : state := mkState vs [].

(* early-stopping countdown statements *)
Definition es_expected (p : params) (c : list row) (os : list Q) (dflt : Q) (r : row) (u : list (val * val))
  (epoch va train : Z) (cont : bool) (o : outcome ctl) : Prop :=
  let e := epoch - es_pat p + r_espcd r - 1 in
  match es_step p c r epoch va with
  | None => exists st, o = Exc "TypeError" st
  | Some (a, b) =>
      o = Ok CNormal (st_of (vars_es (enc_self p c) (enc_opt os dflt) (enc_row_u (set_es r a b) u)
                                     epoch va train cont (VInt e) (vrow (hget c e))))
  end.

(* the early-stopping part of the decision *)
Definition es_cont (p : params) (espcd : Z) (cont : bool) : bool :=
  if nonzero (es_thr p) && negb (nonzero espcd) then false else cont.

(* what the learning-rate statements do to one parameter group's rate *)
Definition rlr_o (p : params) (c : list row) (r : row) (epoch va : Z) (lr o : Q) : Q :=
  match rlr_step p c r epoch va lr o with Some (_, _, _, o') => o' | None => o end.

(* learning-rate countdown statements (info["lr"] holds the rate lr) *)
Definition rlr_expected (p : params) (c : list row) (os : list Q) (dflt : Q) (r : row) (u : list (val * val))
  (epoch va : Z) (cont : bool) (lr : Q) (o : outcome ctl) : Prop :=
  match rlr_step p c r epoch va lr lr with
  | None => exists st, o = Exc "TypeError" st
  | Some (a, b, lr', _) =>
      exists st, o = Ok CNormal st /\
        var_in "info" st = Some (enc_row_u (set_rlr r a b lr') u) /\
        var_in "cont" st = Some (VBool cont) /\
        var_in "optimizer" st = Some (enc_opt (map (rlr_o p c r epoch va lr) os) dflt)
  end.

(* ... followed by info["epoch"] = epoch; info["val_met"] = val_met; info["train_met"] = train_met *)
Definition rlr_rec_expected (p : params) (c : list row) (os : list Q) (dflt : Q) (r : row) (u : list (val * val))
  (epoch va train : Z) (cont : bool) (lr : Q) (o : outcome ctl) : Prop :=
  match rlr_step p c r epoch va lr lr with
  | None => exists st, o = Exc "TypeError" st
  | Some (a, b, lr', _) =>
      exists st, o = Ok CNormal st /\
        var_in "info" st = Some (enc_row_u (set_rec (set_rlr r a b lr') epoch train va) u) /\
        var_in "cont" st = Some (VBool cont) /\
        var_in "optimizer" st = Some (enc_opt (map (rlr_o p c r epoch va lr) os) dflt)
  end.

(* the whole control part: ufe_control run after the early-stopping/learning-rate inputs are in place *)
Definition ctl_expected (p : params) (c : list row) (os : list Q) (dflt : Q) (r : row) (u : list (val * val))
  (epoch va train : Z) (cont : bool) (lr : Q) (o : outcome ctl) : Prop :=
  match es_step p c r epoch va with
  | None => exists st, o = Exc "TypeError" st
  | Some (a, b) =>
      match rlr_step p c r epoch va lr lr with
      | None => exists st, o = Exc "TypeError" st
      | Some (a', b', lr', _) =>
          exists st, o = Ok CNormal st /\
            var_in "info" st
            = Some (enc_row_u (mkRow epoch a b a' b' (Some lr') (Some train) (Some va) (r_user r)) u) /\
            var_in "cont" st = Some (VBool (es_cont p b cont)) /\
            var_in "optimizer" st = Some (enc_opt (map (rlr_o p c r epoch va lr) os) dflt)
      end
  end.

(* if info["lr"] is None: ...; then the control part, as a function body *)
Definition tail_expected (p : params) (c : list row) (os : list Q) (dflt : Q) (prev : row) (u : list (val * val))
  (epoch va train : Z) (cont : bool) (o : outcome val) : Prop :=
  let lr := match r_lr prev with Some l => l | None => dflt end in
  match es_step p c prev epoch va with
  | None => exists st, o = Exc "TypeError" st
  | Some (a, b) =>
      match rlr_step p c prev epoch va lr lr with
      | None => exists st, o = Exc "TypeError" st
      | Some (a', b', lr', _) =>
          exists st, o = Ok VNone st /\
            var_in "info" st
            = Some (enc_row_u (mkRow epoch a b a' b' (Some lr') (Some train) (Some va) (r_user prev)) u) /\
            var_in "cont" st = Some (VBool (es_cont p b cont)) /\
            var_in "optimizer" st = Some (enc_opt (map (rlr_o p c prev epoch va lr) os) dflt)
      end
  end.
