(* C09 — tie between the Python text of `_get_padding_buffers` / `pad_variable` (src/pydrobert/torch/_pad.py) and
   PV.C09.Model, checked by the kernel.  PV.Gen.C09Src.gpb_body / pad_variable_body are the MiniPy terms that
   harness/py2coq/translate.py regenerates from /repo on every run; PV.MiniPy.Interp is their semantics; the torch calls
   mean what PV.MiniTorch.OpsC09 says (through SrcRun.ext09g / ext09).  The theorems: for EVERY batch x of N rows of T
   cells of F payload values (F >= 1, any values), every lens <= T, every pad amounts, every mode and fill value,
   interpreting the source returns exactly the model's result - the (N, T', F) tensor of the model's rows, the two flat
   buffers - and raises ValueError / RuntimeError / NotImplementedError exactly where the model reports them.
   TieGpb.v / TiePad.v: symbolic run on tabulated tensors;  TieModel.v: the resulting list functions are the model's.
   If the source is edited so that this stops being true, these files stop compiling and the C09 check reports the
   broken obligation. *)
From Coq Require Import ZArith List Bool Arith Lia ZifyBool ZifyNat.
From Coq Require String.
From PV Require Import MiniPy.Syntax MiniPy.Interp MiniTorch.Ops MiniTorch.OpsC09 MiniTorch.LemmasC09 Gen.C09Src.
From PV Require Import C09.SrcRun C09.TieSrc C09.TieGpb C09.TiePad C09.TieModel.
From PV Require Import C09.Model C09.Spec C09.Proofs C09.Buffers C09.ProofsPad.
Import ListNotations.
Local Open Scope nat_scope.

(* ---- well-shaped inputs, tabulated ------------------------------------------------------------------------ *)
(* x has rows of T cells of F values *)
Definition wf_x (T F : nat) (x : list (list (list val))) : Prop :=
  Forall (fun row => List.length row = T /\ Forall (fun c => List.length c = F) row) x.

Definition xfun (x : list (list (list val))) (i j l : nat) : val := nth l (nth j (nth i x []) []) VNone.
Definition nfun (l : list nat) (i : nat) : nat := nth i l 0.

Lemma tab1_of_list {Y} (l : list Y) d : l = tab1 (List.length l) (fun i => nth i l d).
Proof.
  apply (nth_ext _ _ d d); [now rewrite tab1_length|]. intros i Hi. now rewrite nth_tab1.
Qed.

Lemma wf_row T F x i : wf_x T F x -> i < List.length x -> nth i x [] = tab1 T (fun j => tab1 F (xfun x i j)).
Proof.
  intros H Hi. unfold wf_x in H. rewrite Forall_forall in H. destruct (H (nth i x [])) as [HT HF]; [now apply nth_In|].
  rewrite (tab1_of_list (nth i x []) []) at 1. rewrite HT. apply tab1_ext. intros j Hj.
  rewrite Forall_forall in HF. assert (HC : List.length (nth j (nth i x []) []) = F) by (apply HF; apply nth_In; lia).
  rewrite (tab1_of_list (nth j (nth i x []) []) VNone) at 1. now rewrite HC.
Qed.

Lemma x_tensor_tab T F x : wf_x T F x -> x_tensor T F x = xT (List.length x) T F (xfun x).
Proof.
  intros H. unfold x_tensor, xT. f_equal. rewrite (tab1_of_list x []) at 1. rewrite map_tab1. unfold tab3.
  rewrite flat_map_concat_map. unfold tab1 at 1. f_equal. apply map_ext_in. intros i Hi. apply in_seq in Hi.
  rewrite (wf_row T F x i H) by lia. unfold tab2. rewrite flat_map_concat_map. reflexivity.
Qed.

Lemma vec_tensor_tab l : vec_tensor l = lensT (List.length l) (nfun l).
Proof. unfold vec_tensor, lensT. f_equal. rewrite (tab1_of_list l 0) at 1. now rewrite map_tab1. Qed.

Lemma pad_tensor_tab pl pr :
  List.length pr = List.length pl -> pad_tensor pl pr = padT (List.length pl) (nfun pl) (nfun pr).
Proof.
  intros H. unfold pad_tensor, padT. f_equal. rewrite tab2_2. cbn [Nat.eqb]. f_equal.
  - rewrite (tab1_of_list pl 0) at 1. now rewrite map_tab1.
  - rewrite (tab1_of_list pr 0) at 1. now rewrite map_tab1, H.
Qed.

Lemma zip_prows_tab T F x lens pl pr :
  wf_x T F x -> zip_prows x lens pl pr = rowsM (List.length x) T F (xfun x) (nfun lens) (nfun pl) (nfun pr).
Proof.
  intros H. unfold zip_prows, rowsM. apply map_ext_in. intros i Hi. apply in_seq in Hi. unfold mk, cellsR, cell, nfun.
  now rewrite (wf_row T F x i H) by lia.
Qed.

Definition exc_of {X} (r : res X) : String.string :=
  match r with ErrValue => value_error | ErrNotImpl => not_implemented_error | _ => runtime_error end.

(* ---- _get_padding_buffers --------------------------------------------------------------------------------- *)
(* the value the model's pair of flat buffers stands for: two payload tensors whose data are the concatenated cells -
   1-dimensional, as masked_select returns them; in constant mode x itself, twice (the code never looks at them) *)
Definition gpb_value (md : mode) (N T F : nat) (bufs : list (list val) * list (list val)) : val :=
  VTuple [enc_p (bufT N T F md (concat (fst bufs))); enc_p (bufT N T F md (concat (snd bufs)))].

Theorem padding_buffers_tie T F md x lens pl pr d :
  wf_x T F x -> (forall n, n < List.length x -> nth n lens 0 <= T) ->
  List.length lens = List.length x -> List.length pl = List.length x -> List.length pr = List.length x ->
  exists st,
    run_gpb (x_tensor T F x) (vec_tensor lens) (vec_tensor pl) (vec_tensor pr) md
    = match get_padding_buffers p_cells p_len p_l p_r T d md (zip_prows x lens pl pr) with
      | Ok bufs => Interp.Ok (gpb_value md (List.length x) T F bufs) st
      | e => Interp.Exc (exc_of e) st
      end.
Proof.
  intros Hx HT Hl Hp Hq. unfold run_gpb.
  rewrite (x_tensor_tab T F x Hx), !vec_tensor_tab, Hl, Hp, Hq, (zip_prows_tab T F x lens pl pr Hx).
  set (N := List.length x) in *.
  destruct (gpb_any N T F (xfun x) (nfun lens) (nfun pl) (nfun pr) md HT) as [st E]. exists st.
  unfold gvars in E. rewrite E.
  pose proof (src_gpb_model N T F (xfun x) (nfun lens) (nfun pl) (nfun pr) HT d md) as G.
  destruct (get_padding_buffers p_cells p_len p_l p_r T d md (rowsM N T F (xfun x) (nfun lens) (nfun pl) (nfun pr)))
    as [[l r]| | |]; cbn [gpb_rel] in G; [|rewrite G; reflexivity ..].
  destruct G as (-> & _ & _). reflexivity.
Qed.

(* ---- pad_variable ------------------------------------------------------------------------------------------ *)
(* T' = the longest padded length *)
Definition pad_width (x : list (list (list val))) (lens pl pr : list nat) : nat :=
  list_max (map p_new (zip_prows x lens pl pr)).

Theorem pad_variable_tie T F value md x lens pl pr d :
  0 < F -> wf_x T F x -> (forall n, n < List.length x -> nth n lens 0 <= T) -> List.length pr = List.length pl ->
  exists st,
    run_pad (x_tensor T F x) (vec_tensor lens) (pad_tensor pl pr) md value
    = match pad_variable T d (repeat value F) md x lens pl pr with
      | Ok out => Interp.Ok (enc_p (rows_tensor (pad_width x lens pl pr) F out)) st
      | e => Interp.Exc (exc_of e) st
      end.
Proof.
  intros HF Hx HT Hpq. unfold run_pad, pad_width.
  rewrite (x_tensor_tab T F x Hx), vec_tensor_tab, (pad_tensor_tab pl pr Hpq), (zip_prows_tab T F x lens pl pr Hx).
  set (N := List.length x) in *.
  destruct (pad_run N (List.length lens) (List.length pl) T F (xfun x) (nfun lens) (nfun pl) (nfun pr) value md HT) as [st E].
  exists st. rewrite E. unfold pad_variable. fold N. rewrite Hpq.
  replace ((List.length lens =? N) && (List.length pl =? N) && (List.length pl =? N))
    with ((List.length lens =? N) && (List.length pl =? N)) by (destruct (List.length lens =? N), (List.length pl =? N); reflexivity).
  destruct ((List.length lens =? N) && (List.length pl =? N)); [|reflexivity].
  rewrite (zip_prows_tab T F x lens pl pr Hx). fold N.
  pose proof (src_pad_model N T F (xfun x) (nfun lens) (nfun pl) (nfun pr) HT d value md HF) as G.
  destruct (pad_variable_rows T d (repeat value F) md (rowsM N T F (xfun x) (nfun lens) (nfun pl) (nfun pr)))
    as [out| | |]; cbn [pad_rel] in G; [|rewrite G; reflexivity ..].
  destruct G as (-> & Hlen & _). cbn [out_pad]. unfold rows_tensor. rewrite Hlen, tp_rows. reflexivity.
Qed.

(* the model's rows are whole: T' cells of F values each *)
Lemma pad_variable_out_wf T F value md x lens pl pr d out :
  0 < F -> wf_x T F x -> (forall n, n < List.length x -> nth n lens 0 <= T) ->
  pad_variable T d (repeat value F) md x lens pl pr = Ok out -> wf_x (pad_width x lens pl pr) F out.
Proof.
  intros HF Hx HT. unfold pad_variable, pad_width.
  destruct ((List.length lens =? List.length x) && (List.length pl =? List.length x) && (List.length pr =? List.length x));
    [|discriminate].
  rewrite (zip_prows_tab T F x lens pl pr Hx). intros E.
  pose proof (src_pad_model (List.length x) T F (xfun x) (nfun lens) (nfun pl) (nfun pr) HT d value md HF) as G.
  rewrite E in G. destruct G as (_ & _ & Hwf). rewrite tp_rows. exact Hwf.
Qed.

(* ---- the executable form the harness evaluates (SrcRun.src_pad_variable / src_pad_variable_check) ------------- *)
Lemma concat_length_const {Y} k (l : list (list Y)) :
  Forall (fun c => List.length c = k) l -> List.length (concat l) = List.length l * k.
Proof. induction l as [|a l IH]; intros H; [reflexivity|]. inversion H; subst. cbn. rewrite app_length, IH by assumption. lia. Qed.

Lemma chunks_concat {Y} k (l : list (list Y)) :
  Forall (fun c => List.length c = k) l -> chunks (List.length l) k (concat l) = l.
Proof.
  induction l as [|a l IH]; intros H; [reflexivity|]. inversion H; subst. cbn [List.length chunks concat].
  rewrite firstn_app_exact, skipn_app_exact by reflexivity. now rewrite IH.
Qed.

Lemma cells_of_rows W F out : wf_x W F out -> cells_of (rows_tensor W F out) = Some out.
Proof.
  intros H. unfold cells_of, rows_tensor. cbn [shp dat]. f_equal. unfold wf_x in H. rewrite Forall_forall in H.
  rewrite <- (map_length (@concat val) out).
  rewrite chunks_concat.
  - rewrite map_map. rewrite <- (map_id out) at 2. apply map_ext_in. intros row Hr. destruct (H row Hr) as [HW HF].
    rewrite <- HW. now apply chunks_concat.
  - apply Forall_forall. intros c Hc. apply in_map_iff in Hc as (row & <- & Hr). destruct (H row Hr) as [HW HF].
    rewrite (concat_length_const F row HF). now rewrite HW.
Qed.

Theorem src_pad_variable_tie T F value md x lens pl pr d :
  0 < F -> wf_x T F x -> (forall n, n < List.length x -> nth n lens 0 <= T) -> List.length pr = List.length pl ->
  src_pad_variable T F value md x lens pl pr = Some (pad_variable T d (repeat value F) md x lens pl pr).
Proof.
  intros HF Hx HT Hpq. unfold src_pad_variable.
  destruct (pad_variable_tie T F value md x lens pl pr d HF Hx HT Hpq) as [st ->].
  destruct (pad_variable T d (repeat value F) md x lens pl pr) as [out| | |] eqn:E; try reflexivity.
  rewrite dec_any_enc_p. rewrite (cells_of_rows _ F out (pad_variable_out_wf T F value md x lens pl pr d out HF Hx HT E)).
  reflexivity.
Qed.

(* integer payload, as the harness passes it: the check on the interpreted source IS the model-side check, the model
   taken on the payload values (each integer z as the MiniPy value VInt z) *)
Theorem src_pad_variable_check_is_check T F v md x lens pl pr code impl :
  0 < F -> wf_x T F (zcells x) -> (forall n, n < List.length x -> nth n lens 0 <= T) -> List.length pr = List.length pl ->
  src_pad_variable_check T F v md x lens pl pr code impl
  = res_eqb vtensor_eqb (pad_variable T [] (repeat (VInt v) F) md (zcells x) lens pl pr) code (option_map zcells impl).
Proof.
  intros HF Hx HT Hpq. unfold src_pad_variable_check.
  rewrite (src_pad_variable_tie T F (VInt v) md (zcells x) lens pl pr [] HF Hx); [reflexivity| |assumption].
  intros n Hn. apply HT. unfold zcells in Hn. now rewrite map_length in Hn.
Qed.

(* ---- composed with the model theorem: a statement purely about the interpreted source ------------------------
   For a legal non-empty batch, the source returns an (N, T', F) tensor whose row n is
       left padding ++ x[n, :lens[n]] ++ right padding ++ fill ...
   with the paddings of the standard constant / reflect / replicate rule applied to that sequence alone. *)
Theorem source_pad_variable_rows T F value md x lens pl pr :
  0 < F -> wf_x T F x -> inputs_ok T md x lens pl pr ->
  exists Tp out st,
    run_pad (x_tensor T F x) (vec_tensor lens) (pad_tensor pl pr) md value
    = Interp.Ok (enc_p (rows_tensor Tp F out)) st
    /\ List.length out = List.length x
    /\ forall n, n < List.length x ->
         let s := firstn (nth n lens 0) (nth n x []) in
         let fill := repeat value F in
         let new := nth n lens 0 + (nth n pl 0 + nth n pr 0) in
         new <= Tp /\
         nth n out [] = lpart md fill (nth n pl 0) s ++ s ++ rpart md fill (nth n pr 0) s ++ repeat fill (Tp - new).
Proof.
  intros HF Hx Hok.
  destruct (pad_variable_correct T [] (repeat value F) md x lens pl pr Hok) as (Tp & out & E & Hlen & Hrows & Hmax).
  assert (HT : forall n, n < List.length x -> nth n lens 0 <= T).
  { intros n Hn. destruct Hok as (_ & _ & _ & _ & H). now destruct (H n Hn) as (_ & ? & _). }
  assert (Hpq : List.length pr = List.length pl) by (destruct Hok as (_ & _ & -> & -> & _); reflexivity).
  destruct (pad_variable_tie T F value md x lens pl pr [] HF Hx HT Hpq) as [st Erun]. rewrite E in Erun.
  assert (Hmd : md <> OtherMode).
  { intros ->. destruct Hok as (Hne & _ & _ & _ & H). destruct x as [|r0 x]; [congruence|].
    destruct (H 0) as (_ & _ & Hl); [cbn; lia|]. discriminate. }
  assert (ETp : pad_width x lens pl pr = Tp).
  { unfold pad_width. destruct Hmax as (n & Hn & Hn').
    apply Nat.le_antisymm.
    - apply list_max_le. apply Forall_forall. intros v Hv. apply in_map_iff in Hv as (r & <- & Hr).
      unfold zip_prows in Hr. apply in_map_iff in Hr as (k & <- & Hk). apply in_seq in Hk.
      destruct (Hrows k) as [Hle _]; [lia|]. exact Hle.
    - rewrite <- Hn'. assert (H : list_max (map p_new (zip_prows x lens pl pr)) <= list_max (map p_new (zip_prows x lens pl pr))) by lia.
      apply list_max_le in H. rewrite Forall_forall in H. apply (H (p_new (mkProw (nth n x []) (nth n lens 0) (nth n pl 0) (nth n pr 0)))).
      apply in_map. unfold zip_prows. apply in_map_iff. exists n. split; [reflexivity|]. apply in_seq. lia. }
  exists Tp, out, st. rewrite ETp in Erun. split; [exact Erun|]. split; [exact Hlen|].
  intros n Hn. destruct (Hrows n Hn) as [Hle Hrow]. split; [exact Hle|]. cbv zeta. rewrite Hrow.
  rewrite (pad1_parts md _ _ _ _ Hmd). now rewrite <- !app_assoc.
Qed.
