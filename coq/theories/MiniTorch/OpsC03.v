(* MiniTorch, unit C03Src — the meaning given to the torch operations that occur in the translated
   `_string_matching` (_string.py) on the path return_mask = True (what `optimal_completion` calls) and in
   the post-processing of `optimal_completion`, IN ADDITION to those of OpsC01.v / OpsC07.v (imported
   read-only).  DEFINITIONS ONLY; the algebra is in LemmasC03.v.

   Tensors are PV.MiniTorch.OpsC07.tn: (shape, row-major flat data) over bool / Z (torch.long, unbounded) /
   OpsC01.fx (exact rational, +inf, -inf, NaN).  IEEE rounding, signed zeros, dtypes' ranges, devices,
   strides and the aliasing of views are NOT modelled.  Every operation returns [None] outside the domain
   stated with it; the unit's [ext] turns [None] into [Stuck] (fail-closed).

   Each definition quotes the sentence of the torch documentation (2.x) it models.  This file is TRUSTED by
   the C03 tie; it is exercised on every run by the harness-side [C03.SrcRun.src_mask_check] /
   [src_oc_check] (torch vs the interpreted source on the same inputs). *)
From Coq Require Import List ZArith QArith Bool Arith String.
From PV Require Import MiniPy.Syntax MiniTorch.Ops MiniTorch.OpsC07 MiniTorch.OpsC01.
Import ListNotations.
Local Open Scope nat_scope.

(* ---- comparisons of float elements ---------------------------------------------------------------- *)
(* torch.gt: "Computes input > other element-wise."  IEEE: every comparison with a NaN is false;
   +inf > x for every x but +inf (and NaN); x > -inf for every x but -inf (and NaN) *)
Definition fx_gtb (a b : fx) : bool :=
  match a with
  | FNaN => false
  | FPInf => match b with FPInf | FNaN => false | _ => true end
  | FNInf => false
  | Fq p => match b with
            | Fq q => negb (Qle_bool p q)
            | FNInf => true
            | _ => false
            end
  end.

(* torch.eq: "Computes element-wise equality".  IEEE: NaN is different from everything, itself included;
   an infinity equals itself; finite values are compared as numbers *)
Definition fx_eqb (a b : fx) : bool :=
  match a, b with
  | Fq p, Fq q => Qeq_bool p q
  | FPInf, FPInf | FNInf, FNInf => true
  | _, _ => false
  end.

(* `x > y` with x a float tensor and y a long tensor = torch.gt with broadcasting ("The second argument can
   be a number or a tensor whose shape is broadcastable with the first argument"); type promotion converts
   the integers to the float type (assumed exact) *)
Definition gt_xi (a : tn fx) (b : tn Z) : option (tn bool) :=
  broadcast (fun x z => fx_gtb x (z2f z)) FNaN 0%Z a b.

(* `x == y` on two float tensors = torch.eq with broadcasting *)
Definition eq_xx (a b : tn fx) : option (tn bool) := broadcast fx_eqb FNaN FNaN a b.

(* `x == y` / `x != y` / `x < y` on two long tensors, with broadcasting: OpsC01.cmp_i *)

(* `a & b` on boolean tensors = torch.bitwise_and: "Computes the bitwise AND of input and other. ... For
   bool tensors, it computes the logical AND", with broadcasting (OpsC07.band is the equal-shape case) *)
Definition and_bb (a b : tn bool) : option (tn bool) := broadcast andb false false a b.

(* ---- construction ------------------------------------------------------------------------------------ *)
(* torch.zeros(size, dtype=torch.bool): "Returns a tensor filled with the scalar value 0, with the shape
   defined by the variable argument size"; 0 of torch.bool is False.  = OpsC01.full size false *)

(* torch.stack(tensors, dim=0): "Concatenates a sequence of tensors along a new dimension.  All tensors need
   to be of the same size." - the new dimension is the first one, entry k is the k-th tensor.
   None: an empty sequence ("stack expects a non-empty TensorList") or different shapes (torch raises) *)
Definition stack0 {X} (l : list (tn X)) : option (tn X) :=
  match l with
  | [] => None
  | t :: r =>
      if forallb (fun u => nats_eqb (shp u) (shp t)) r
      then Some (mkTn (List.length l :: shp t) (List.concat (map dat l)))
      else None
  end.

(* ---- indexing ------------------------------------------------------------------------------------------ *)
(* x[i] = v with an integer i: row i of the first dimension is overwritten by v (negative i counts from the
   end).  Modelled for v of exactly the shape of x[i] (no broadcasting of v).
   Some None: index out of range (IndexError: "index i is out of bounds for dimension 0 with size n").
   None: 0-d x, or another shape of v *)
Definition set_row0 {X} (x : tn X) (i : Z) (v : tn X) : option (option (tn X)) :=
  match shp x with
  | n :: rest =>
      let j := if (i <? 0)%Z then (i + Z.of_nat n)%Z else i in
      if ((0 <=? j) && (j <? Z.of_nat n))%Z
      then let w := numel rest in
           if nats_eqb (shp v) rest && (List.length (dat v) =? w)
           then Some (Some (mkTn (shp x) (firstn (Z.to_nat j * w) (dat x) ++ dat v ++ skipn ((Z.to_nat j + 1) * w) (dat x))))
           else None
      else Some None
  | [] => None
  end.

(* ---- reduction with keepdim ------------------------------------------------------------------------------ *)
(* Tensor.min(dim, keepdim=True): "If keepdim is True, the output tensors are of the same size as input except
   in the dimension dim where they are of size 1.  Otherwise, dim is squeezed" - OpsC01.min_dim with the
   reduced dimension kept as a dimension of size 1 (the data are the same).
   None: dim outside [-rank, rank).  Some None: the reduced dimension has size 0 (IndexError) *)
Definition keep_dim (sh : list nat) (k : nat) : list nat := firstn k sh ++ 1 :: skipn (S k) sh.

Definition min_dim_keep (x : tn fx) (d : Z) : option (option (tn fx * tn Z)) :=
  match wrap_dim (rank x) d, min_dim x d with
  | Some k, Some (Some (v, i)) =>
      Some (Some (mkTn (keep_dim (shp x) k) (dat v), mkTn (keep_dim (shp x) k) (dat i)))
  | _, Some None => Some None
  | _, _ => None
  end.
