(* C16 — tie lemmas, part 2: interpreting the regenerated source terms (PV.Gen.C16Src) emits exactly
   the file-system operations PV.C16.Model.update_ops prescribes.  TieExec.v proves, by symbolic
   execution of the MiniPy terms, [src_update_fd]: the source = SrcRun.update_ops_fd for every input;
   here update_ops_fd is related to Model.update_ops. *)
From Coq Require Import ZArith List String Bool Arith Lia.
From PV Require Import MiniPy.Syntax MiniPy.Interp Gen.C16Src C16.Model C16.Proofs C16.SrcRun C16.TieExec.
Import ListNotations.
Local Open Scope nat_scope.

(* ---- first occurrences vs last occurrences in the clean-up set ---------------------------------- *)
Lemma mem_filter g p l : mem p (filter g l) = mem p l && g p.
Proof.
  induction l as [|x l IH]; [reflexivity|]. cbn [filter].
  destruct (g x) eqn:G; cbn [mem existsb]; fold (mem p l); fold (mem p (filter g l)); rewrite IH.
  - destruct (path_eqb p x) eqn:E; [|reflexivity]. apply path_eqb_eq in E. subst. rewrite G. reflexivity.
  - destruct (path_eqb p x) eqn:E; [|reflexivity]. apply path_eqb_eq in E. subst. rewrite G.
    cbn. rewrite andb_false_r. reflexivity.
Qed.

Lemma mem_dedup p l : mem p (dedup l) = mem p l.
Proof.
  apply Bool.eq_iff_eq_true. rewrite !mem_In. apply dedup_In.
Qed.

Lemma filter_none {A} (f : A -> bool) l : (forall x, List.In x l -> f x = false) -> filter f l = [].
Proof.
  induction l as [|x l IH]; intros H; [reflexivity|]. cbn [filter].
  rewrite (H x (or_introl eq_refl)). apply IH. intros y Hy. apply H. right. exact Hy.
Qed.

Lemma order_by_ext ro l1 l2 :
  (forall p, mem p l1 = mem p l2) -> (forall p, mem p l1 = true -> mem p ro = true) ->
  order_by ro l1 = order_by ro l2.
Proof.
  intros Hm Hc. unfold order_by. f_equal.
  - apply filter_ext. exact Hm.
  - rewrite !filter_none; [reflexivity| |].
    + intros x Hx. apply mem_In in Hx. rewrite <- Hm in Hx. rewrite (Hc x Hx). reflexivity.
    + intros x Hx. apply mem_In in Hx. rewrite (Hc x Hx). reflexivity.
Qed.

Lemma covers_mem ro l p : covers ro l = true -> mem p l = true -> mem p ro = true.
Proof.
  unfold covers. intros H Hp. apply mem_In in Hp. rewrite forallb_forall in H. apply H, Hp.
Qed.

Lemma fd_eq_model P d c tr va cn v ro : covers ro (cl_paths P c) = true ->
  update_ops_fd P d c tr va cn v ro = update_ops P d c tr va cn v ro.
Proof.
  intros Hc. unfold update_ops_fd, update_ops. cbv zeta. rewrite !S_sub1.
  destruct (klb P); [|reflexivity].
  match goal with |- (if ?g then _ else _) = _ => destruct g; [reflexivity|] end.
  destruct (Nat.eqb _ (last_epoch c)); [reflexivity|].
  match goal with
  | |- Some (_ ++ _ ++ _ ++ map Remove (order_by ro ?l1), _) = Some (_ ++ _ ++ _ ++ map Remove (order_by ro ?l2), _) =>
      rewrite (order_by_ext ro l1 l2); [reflexivity| |]
  end.
  - intros p. rewrite !mem_filter, mem_padd_all, mem_dedup. reflexivity.
  - intros p. rewrite !mem_filter, mem_padd_all. cbn [mem existsb orb]. intros H.
    apply andb_prop in H. destruct H as [H _]. apply andb_prop in H. destruct H as [H _].
    apply (covers_mem ro (cl_paths P c) p Hc). unfold cl_paths.
    destruct (Nat.eqb (best_epoch (bt P) c) _); cbn [app mem existsb] in *;
      repeat match goal with H : (_ || _) = true |- _ => apply orb_prop in H; destruct H as [H|H] end;
      try discriminate; rewrite H; rewrite ?orb_true_r; reflexivity.
Qed.

(* the oracle ranks the paths of the clean-up set: the source IS the model *)
Theorem src_update_tie P d c tr va cn v ro : covers ro (cl_paths P c) = true ->
  src_update_ops P d c tr va cn v ro = Some (update_ops P d c tr va cn v ro).
Proof. intros H. rewrite src_update_fd, (fd_eq_model _ _ _ _ _ _ _ _ H). reflexivity. Qed.

(* both formats of the same kind (both with {epoch}, or both without): the source IS the model, any oracle *)
Lemma padd_dedup_same P a b : ep_m P = ep_o P ->
  padd_all [] [pth P KM a; pth P KO a; pth P KM b; pth P KO b]
  = dedup [pth P KM a; pth P KO a; pth P KM b; pth P KO b].
Proof.
  intros E. unfold pth, has_ep. rewrite E. destruct (ep_o P).
  - destruct (Nat.eqb a b) eqn:Eab.
    + apply Nat.eqb_eq in Eab. subst. repeat (progress (cbn; rewrite ?Nat.eqb_refl)). reflexivity.
    + repeat (progress (cbn; rewrite ?(Nat.eqb_sym b a), ?Eab)). reflexivity.
  - reflexivity.
Qed.

Lemma fd_eq_model_same P d c tr va cn v ro : ep_m P = ep_o P ->
  update_ops_fd P d c tr va cn v ro = update_ops P d c tr va cn v ro.
Proof.
  intros E. unfold update_ops_fd, update_ops. cbv zeta. rewrite !S_sub1.
  destruct (klb P); [|reflexivity].
  match goal with |- (if ?g then _ else _) = _ => destruct g; [reflexivity|] end.
  destruct (Nat.eqb _ (last_epoch c)); [reflexivity|].
  destruct (Nat.eqb (best_epoch (bt P) c) _).
  - reflexivity.
  - cbn [app]. rewrite (padd_dedup_same P _ _ E). reflexivity.
Qed.

Theorem src_update_tie_same_fmt P d c tr va cn v ro : ep_m P = ep_o P ->
  src_update_ops P d c tr va cn v ro = Some (update_ops P d c tr va cn v ro).
Proof. intros H. rewrite src_update_fd, (fd_eq_model_same _ _ _ _ _ _ _ _ H). reflexivity. Qed.

(* whole runs: with the model's update function the parameterised run IS Model.run (so SrcRun.src_run differs
   from Model.run only by the update function, which the theorems above relate) *)
Lemma seg_with_model P E rest : forall d c cn budget,
  seg_with (fun d c tr va cn v ro => Some (update_ops P d c tr va cn v ro)) E rest d c cn budget
  = Some (seg P E rest d c cn budget).
Proof.
  induction rest as [|[tr va] rest IH]; intros d c cn budget; [reflexivity|].
  cbn [seg_with seg]. destruct (update_ops P d c tr va cn (pv E cn) (ro E cn)) as [[ops r]|]; [|reflexivity].
  match goal with |- (if ?b then _ else _) = _ => destruct b; [reflexivity|] end.
  rewrite IH. destruct (seg P E rest _ _ _ _) as [[[d'' cn'] oc] lg]. reflexivity.
Qed.


Lemma seg_with_ext upd1 upd2 E rest :
  (forall d c tr va cn v ro, upd1 d c tr va cn v ro = upd2 d c tr va cn v ro) ->
  forall d c cn budget, seg_with upd1 E rest d c cn budget = seg_with upd2 E rest d c cn budget.
Proof.
  intros H. induction rest as [|[tr va] rest IH]; intros d c cn budget; [reflexivity|].
  cbn [seg_with]. rewrite H. destruct (upd2 d c tr va cn (pv E cn) (ro E cn)) as [[[ops r]|]|]; try reflexivity.
  match goal with |- (if ?b then _ else _) = _ => destruct b; [reflexivity|] end.
  rewrite IH. reflexivity.
Qed.

Lemma run_schedule_with_ext upd1 upd2 obs1 obs2 P E crashes :
  (forall d c tr va cn v ro, upd1 d c tr va cn v ro = upd2 d c tr va cn v ro) ->
  (forall d oc lg, obs1 P d oc lg = obs2 P d oc lg) ->
  forall d cn, run_schedule_with upd1 obs1 P E d cn crashes = run_schedule_with upd2 obs2 P E d cn crashes.
Proof.
  intros H Ho. induction crashes as [|b more IH]; intros d cn; cbn [run_schedule_with]; unfold start_with;
    rewrite (seg_with_ext upd1 upd2 E _ H).
  - destruct (seg_with upd2 E _ d _ cn None) as [[[[d' cn'] oc] lg]|]; [|reflexivity]. rewrite Ho. reflexivity.
  - destruct (seg_with upd2 E _ d _ cn (Some b)) as [[[[d' cn'] oc] lg]|]; [|reflexivity].
    rewrite Ho. destruct (obs2 P d' oc lg); [|reflexivity]. destruct oc; try reflexivity. rewrite IH. reflexivity.
Qed.

Lemma run_schedule_with_model P E crashes : forall d cn,
  run_schedule_with (fun d c tr va cn v ro => Some (update_ops P d c tr va cn v ro))
                    (fun P d oc lg => Some (observe P d oc lg)) P E d cn crashes
  = Some (run_schedule P E d cn crashes).
Proof.
  induction crashes as [|b more IH]; intros d cn; cbn [run_schedule_with run_schedule]; unfold start_with, start;
    rewrite seg_with_model.
  - destruct (seg P E _ d _ cn None) as [[[d' cn'] oc] lg]. reflexivity.
  - destruct (seg P E _ d _ cn (Some b)) as [[[d' cn'] oc] lg]. destruct oc; try reflexivity.
    rewrite IH. reflexivity.
Qed.

(* what a fresh controller reports as last / best epoch, interpreted from the source, is the model's *)
Lemma src_observe_tie P d oc lg : src_observe P d oc lg = Some (observe P d oc lg).
Proof.
  unfold src_observe, observe, run_last_epoch, run_best_epoch.
  rewrite last_epoch_tie. destruct (best_epoch_tie P d 0 [] P (read_cache (csv d)) (bt P)) as [st E]. rewrite E.
  unfold nat_result, vnat. rewrite !zleb0_nat, !Nat2Z.id. reflexivity.
Qed.

(* whole runs, formats of the same kind: running the translated source in place of Model.update_ops and of
   get_last_epoch / get_best_epoch gives Model.run, for every metric history, oracle and crash schedule *)
Theorem src_run_tie_same_fmt P metrics ros crashes : ep_m P = ep_o P ->
  src_run P metrics ros crashes = Some (Model.run P metrics ros crashes).
Proof.
  intros H. unfold src_run, Model.run.
  rewrite (run_schedule_with_ext (src_update_ops P) (fun d c tr va cn v ro => Some (update_ops P d c tr va cn v ro))
             src_observe (fun P d oc lg => Some (observe P d oc lg))).
  - apply run_schedule_with_model.
  - intros. apply src_update_tie_same_fmt, H.
  - intros. apply src_observe_tie.
Qed.

(* ---- statements in the vocabulary Properties.v can write (no string literals there) ------------- *)
Lemma best_epoch_src P d cn ro c b :
  exists st, run_best_epoch P d cn ro c b = Ok (vnat (best_epoch b c)) st.
Proof. apply best_epoch_tie. Qed.

Lemma last_epoch_src P d cn ro c :
  exists st, run_last_epoch P d cn ro c = Ok (vnat (last_epoch c)) st.
Proof. eexists. apply last_epoch_tie. Qed.

Lemma epoch_block_src P d cn ro c tr va v :
  exists st, run_epoch_block P d cn ro (vars0 P c tr va v) = Ok VNone st /\
             vars st = vars1 P c tr va v /\ events st = [].
Proof. eexists. split; [apply epoch_tie|split; reflexivity]. Qed.

(* composed with the model theorem "every update appends exactly one row: its own": a statement
   about the translated source alone *)
Lemma source_update_appends P d c tr va cn v ro ops r :
  src_update_ops P d c tr va cn v ro = Some (Some (ops, r)) ->
  r = mkRow (S (last_epoch c)) tr va v /\ flat_map appended ops = [r].
Proof.
  rewrite src_update_fd. intros H. inversion H as [H1]. clear H.
  assert (E : forall l, flat_map appended (map Remove l) = []) by (induction l; auto).
  unfold update_ops_fd in H1. cbv zeta in H1.
  destruct (klb P).
  - destruct (negb _ && _); [discriminate|].
    destruct (Nat.eqb _ (S (last_epoch c) - 1)); inversion H1; subst; (split; [reflexivity|]);
      unfold save_ops; repeat match goal with |- context [if ?b then _ else _] => destruct b end;
      cbn; rewrite ?E; reflexivity.
  - inversion H1; subst. split; [reflexivity|].
    unfold save_ops; repeat match goal with |- context [if ?b then _ else _] => destruct b end; reflexivity.
Qed.

(* non-vacuity: a concrete update with a clean-up whose oracle ranks the clean-up set *)
Definition nv_P : params := mkParams true true true false.
Definition nv_cache : cache := [mkRow 1 5 5 1; mkRow 2 4 4 2].
Definition nv_disk : disk :=
  mkDisk [(Ckpt KM (Some 1), 1%Z); (Ckpt KO (Some 1), 1%Z); (Ckpt KM (Some 2), 2%Z); (Ckpt KO (Some 2), 2%Z)] nv_cache.
Definition nv_ro : list path := [Ckpt KO (Some 2); Ckpt KM (Some 2)].

Lemma source_nonvacuous :
  covers nv_ro (cl_paths nv_P nv_cache) = true /\
  exists ops r, src_update_ops nv_P nv_disk nv_cache 3 3 2 3 nv_ro = Some (Some (ops, r)) /\
                map code_of ops = [TMk; TFill; TMk; TFill; TRep (Ckpt KM (Some 3)); TRep (Ckpt KO (Some 3)); TApp;
                                   TRem (Ckpt KO (Some 2)); TRem (Ckpt KM (Some 2))].
Proof. split; [reflexivity|]. eexists. eexists. split; vm_compute; reflexivity. Qed.
