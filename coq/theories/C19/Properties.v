(* C19 - Estimators are unbiased where promised; relaxed distributions are consistent.
   Property theorems only: each is closed by [exact <lemma>] and followed by [Print Assumptions].
   Model: Model.v (estimators), Relaxed.v (relaxed distributions, one set of formulas with a fixed-point
   and a real-number instance), Combinatorics.v.  Spec: Spec.v.  The harness re-checks this file on every run. *)
From Coq Require Import List ZArith QArith Reals Lra Bool.
From PV Require Import C19.Model C19.Relaxed C19.Combinatorics C19.Spec.
From PV Require Import C19.Proofs C19.ProofsComb C19.RProofs.
Import ListNotations.

(* ========================================================================================== *)
(* "the average over the whole sample space of the value returned by the direct, importance-sampling and
    enumeration estimators - and of its gradient with respect to the distribution's parameters - equals the
    exact expectation and its exact gradient, with or without a control variate and for any number of Monte
    Carlo samples"                                                                                        *)
(* ========================================================================================== *)

(* DirectEstimator: any table pd of positive probabilities summing to one with derivatives summing to zero,
   any f and control variate (with their own derivatives), any float value [ell] of the log-probabilities,
   any N > 0; with a control variate its mean must be passed as the exact expectation (value and derivative) *)
Theorem c19_direct_unbiased : forall pd f cv ell use_cv cvm N,
  (0 < N)%nat -> is_dist pd ->
  (use_cv = true -> deq cvm (exact pd cv)) ->
  unbiased pd pd f N (direct_at use_cv cvm pd f cv ell).
Proof. exact direct_unbiased. Qed.
Print Assumptions c19_direct_unbiased.

(* ImportanceSamplingEstimator (not self-normalised): samples from qd, any positive density pd (not
   necessarily normalised); the proposal's derivative does not enter: its gradient is blocked *)
Theorem c19_importance_unbiased : forall pd qd f N,
  (0 < N)%nat -> length pd = length qd ->
  (Qsum (map fst qd) == 1)%Q -> Forall (fun e => (0 < fst e)%Q) qd -> is_density pd ->
  unbiased pd qd f N (importance_at false pd qd f).
Proof. exact importance_unbiased. Qed.
Print Assumptions c19_importance_unbiased.

(* EnumerateEstimator returns the exact expectation and gradient *)
Theorem c19_enumerate_exact : forall pd f,
  length f = length pd -> is_density pd -> deq (enumerate_est pd f) (exact pd f).
Proof. exact enumerate_exact. Qed.
Print Assumptions c19_enumerate_exact.

(* the lemma behind "for any number of Monte Carlo samples": the space average of the mean over the N
   positions of any per-sample statistic h is its single-sample expectation *)
Theorem c19_mean_of_iid_draws : forall qd, (Qsum (map fst qd) == 1)%Q ->
  forall (h : nat -> Q) N, (0 < N)%nat ->
  (Esp qd N (fun t => / Qn (length t) * Qsum (map h t)) ==
   Qsum (map (fun i => pr qd i * h i) (seq 0 (length qd))))%Q.
Proof. exact Esp_mean_positions. Qed.
Print Assumptions c19_mean_of_iid_draws.

(* independent variables: the joint table built by the model is a distribution whenever the factors are *)
Theorem c19_joint_is_dist : forall vs, Forall is_dist vs -> is_dist (joint vs).
Proof. exact joint_is_dist. Qed.
Print Assumptions c19_joint_is_dist.

(* ========================================================================================== *)
(* "the relaxation-based estimators have the same exact mean in value"                         *)
(* ========================================================================================== *)

(* StraightThroughEstimator: the value is the sample mean of f at the thresholded samples, hence unbiased
   whenever the thresholded sample follows pd (for LogisticBernoulli: c19_logistic_threshold_iff) *)
Theorem c19_straight_through_value_unbiased : forall pd f N,
  (0 < N)%nat -> (Qsum (map fst pd) == 1)%Q ->
  (fst (space_average pd N (fun t => straight_through (map (fn f) t))) == fst (exact pd f))%Q.
Proof. exact straight_through_value_unbiased. Qed.
Print Assumptions c19_straight_through_value_unbiased.

(* RelaxEstimator: the value is the sample mean of f(b) - cv(zcond) + cv(z); the score-function surrogate
   (deriv - deriv.detach()) contributes nothing to the value *)
Theorem c19_relax_value : forall ds, ds <> [] ->
  (fst (relax ds) ==
   / Qn (length ds) * Qsum (map (fun d => fst (r_f d) - fst (r_cvzc d) + fst (r_cvz d)) ds))%Q.
Proof. exact relax_value. Qed.
Print Assumptions c19_relax_value.

(* ... and the two control-variate terms cancel in the mean as soon as the relaxed law factors as
   threshold probability times conditional law (discrete form; the continuous factorisation is
   c19_logistic_density_factorises / c19_gumbel_density_factorises below) *)
Theorem c19_relax_mean_exact : forall (m n : nat) (r : nat -> Q) (Hth : nat -> nat) (kap : nat -> nat -> Q)
  (f c : nat -> Q),
  (forall z, (z < m)%nat -> (Hth z < n)%nat) ->
  (forall b zc, (b < n)%nat -> (zc < m)%nat ->
     (Pth m r Hth b * kap b zc == if Nat.eqb (Hth zc) b then r zc else 0)%Q) ->
  (Qsum (map (fun z => Qsum (map (fun zc => r z * kap (Hth z) zc * (f (Hth z) - c zc + c z)) (seq 0 m))) (seq 0 m))
   == Qsum (map (fun b => Pth m r Hth b * f b) (seq 0 n)))%Q.
Proof. exact relax_mean_exact. Qed.
Print Assumptions c19_relax_mean_exact.

(* ========================================================================================== *)
(* "the Metropolis-Hastings estimator, whether it draws its starting point or is handed one, accepts every
    proposal and returns the plain post-burn-in average when proposal and target coincide"     *)
(* ========================================================================================== *)
Theorem c19_mh_accepts_all_when_equal : forall w c f init props us burn,
  (0 < c)%Q -> (forall i, (w i == c)%Q) ->
  Forall (fun u => (0 <= u)%Q /\ (u < 1)%Q) us -> (length props <= length us)%nat ->
  imh_chain w init (Some (w init)) props us = props /\
  imh_element w f init props us burn = (Qsum (map f (skipn burn props)) / Qn (length props - burn))%Q.
Proof. exact mh_accepts_all_when_equal. Qed.
Print Assumptions c19_mh_accepts_all_when_equal.

(* drawing the starting point: the first draw is used as soon as it lies in the target's support (always,
   when proposal and target coincide); being handed one skips this step, the chain above is the same *)
Theorem c19_mh_initial_draw : forall insupp d0 rest tries,
  all_in insupp d0 = true -> find_initial insupp (d0 :: rest) tries = Some (d0, 1%nat).
Proof. exact find_initial_first. Qed.
Print Assumptions c19_mh_initial_draw.

(* ========================================================================================== *)
(* "For the relaxed Bernoulli and categorical distributions, thresholding a conditional relaxed sample always
    returns the conditioning value, and the relaxed density factors as threshold probability times
    conditional density"   (real-number instance of the formulas of Relaxed.v)                 *)
(* ========================================================================================== *)
Theorem c19_logistic_threshold_of_csample : forall p v b eps,
  (0 < p < 1)%R -> (0 < v < 1)%R -> (0 <= eps)%R ->
  lb_threshold Rarith (lb_csample Rarith p v b eps) = b.
Proof. exact logistic_threshold_of_csample. Qed.
Print Assumptions c19_logistic_threshold_of_csample.

Theorem c19_gumbel_threshold_of_csample : forall ps vs k eps,
  length ps = length vs -> (k < length vs)%nat ->
  Forall (fun p => (0 < p)%R) ps -> Forall (fun v => (0 < v < 1)%R) vs -> (0 <= eps)%R ->
  g_threshold Rarith (g_csample Rarith ps vs (one_hot k (length vs)) eps) = one_hot k (length vs).
Proof. exact gumbel_threshold_of_csample. Qed.
Print Assumptions c19_gumbel_threshold_of_csample.

Theorem c19_logistic_density_factorises : forall l z,
  exists c, lb_clog_prob Rarith l z (lb_threshold Rarith z) = Some c /\
            lb_log_prob Rarith l z = (lb_tlog_prob Rarith l (lb_threshold Rarith z) + c)%R.
Proof. exact logistic_density_factorises. Qed.
Print Assumptions c19_logistic_density_factorises.

(* off the thresholded value the conditional density is 0 (log-density -inf) *)
Theorem c19_logistic_clog_prob_off_value : forall l z b,
  b <> lb_threshold Rarith z -> lb_clog_prob Rarith l z b = None.
Proof. exact logistic_clog_prob_off_value. Qed.
Print Assumptions c19_logistic_clog_prob_off_value.

(* categorical: needs the normalisation sum_j exp(logits_j) = 1 that the constructor establishes *)
Theorem c19_gumbel_density_factorises : forall ls zs,
  length zs = length ls -> zs <> [] -> Rsum (map exp ls) = 1%R ->
  exists c, g_clog_prob Rarith ls zs (g_threshold Rarith zs) = Some c /\
            g_log_prob Rarith ls zs = (g_tlog_prob Rarith ls (g_threshold Rarith zs) + c)%R.
Proof. exact gumbel_density_factorises. Qed.
Print Assumptions c19_gumbel_density_factorises.

(* the threshold law of the relaxed Bernoulli sample: 1 exactly on u in [1-p, 1), an event of measure p *)
Theorem c19_logistic_threshold_iff : forall p u, (0 < p < 1)%R -> (0 < u < 1)%R ->
  (lb_threshold Rarith (lb_rsample Rarith (ln (p / (1 - p))) u) = true <-> (1 - p <= u)%R).
Proof. exact logistic_threshold_iff. Qed.
Print Assumptions c19_logistic_threshold_iff.

(* the conditional sample is the relaxed sample at an affine image of the uniform: the conditional law is
   the relaxed law restricted to the threshold region *)
Theorem c19_logistic_csample_is_rsample : forall p v,
  (0 < p < 1)%R -> (0 < v < 1)%R ->
  lb_csample Rarith p v true 0%R = lb_rsample Rarith (ln (p / (1 - p))) (1 - p + p * v)%R /\
  lb_csample Rarith p v false 0%R = lb_rsample Rarith (ln (p / (1 - p))) ((1 - p) * (1 - v))%R.
Proof. exact logistic_csample_is_rsample. Qed.
Print Assumptions c19_logistic_csample_is_rsample.

(* ========================================================================================== *)
(* "Every distribution's samples lie in its support, and its probabilities over its enumerated support sum
    to one (in particular fixed-cardinality sampling always returns the requested number of ones inside the
    permitted positions)"                                                                      *)
(* ========================================================================================== *)
(* for every script of Bernoulli uniforms in [0,1) *)
Theorem c19_srswor_cardinality_and_positions : forall total given out us bits,
  (0 <= given)%Z -> Forall unit_u us ->
  srswor total given out us = Some bits -> srswor_ok total given out bits.
Proof. exact srswor_cardinality_and_positions. Qed.
Print Assumptions c19_srswor_cardinality_and_positions.

Theorem c19_srswor_error_iff : forall total given out us,
  srswor total given out us = None <-> (total < given \/ Z.of_nat out < total)%Z.
Proof. exact srswor_error_iff. Qed.
Print Assumptions c19_srswor_error_iff.

(* the constraint object of the distribution (support.check) accepts exactly those vectors *)
Theorem c19_card_check_iff : forall total given value, (0 <= total)%Z ->
  card_check given (Some total) value = true <-> srswor_ok total given (length value) value.
Proof. exact card_check_iff. Qed.
Print Assumptions c19_card_check_iff.

(* every legal vector is emitted with probability 1 / C(total, given) *)
Theorem c19_srswor_uniform : forall bits tau ell,
  (0 <= ell <= tau)%Z -> (tau <= Z.of_nat (length bits))%Z -> srswor_ok tau ell (length bits) bits ->
  (srswor_prob ell (Z.max tau 1) bits * inject_Z (choose (Z.to_nat tau) (Z.to_nat ell)) == 1)%Q.
Proof. exact srswor_uniform. Qed.
Print Assumptions c19_srswor_uniform.

(* binomial_coefficient: both branches compute Pascal's triangle (each for every length, not only on its
   side of the length_ > 20 switch), and the batch function raises exactly on negative input *)
Theorem c19_binomial_is_pascal : forall lens cnts,
  Forall (fun v => (0 <= v)%Z) lens -> Forall (fun v => (0 <= v)%Z) cnts ->
  binomial_coefficient lens cnts =
  Some (map (fun lc => choose (Z.to_nat (fst lc)) (Z.to_nat (snd lc))) (combine lens cnts)).
Proof. exact binomial_is_pascal. Qed.
Print Assumptions c19_binomial_is_pascal.

Theorem c19_binom_fact_branch_is_pascal : forall length_ len cnt,
  (0 <= len <= length_)%Z -> (0 <= cnt)%Z ->
  binom_fact_branch length_ len cnt = choose (Z.to_nat len) (Z.to_nat cnt).
Proof. exact binom_fact_branch_is_pascal. Qed.
Print Assumptions c19_binom_fact_branch_is_pascal.

Theorem c19_binom_table_branch_is_pascal : forall length_ count_ len cnt,
  (0 <= len <= length_)%Z -> (0 <= cnt <= count_)%Z ->
  binom_table_branch length_ count_ len cnt = choose (Z.to_nat len) (Z.to_nat cnt).
Proof. exact binom_table_branch_is_pascal. Qed.
Print Assumptions c19_binom_table_branch_is_pascal.

Theorem c19_binomial_error_iff : forall lens cnts,
  binomial_coefficient lens cnts = None <->
  (Exists (fun v => (v < 0)%Z) lens \/ Exists (fun v => (v < 0)%Z) cnts).
Proof. exact binomial_error_iff. Qed.
Print Assumptions c19_binomial_error_iff.

(* Pascal's triangle is n! / (k! (n-k)!) *)
Theorem c19_binomial_pascal_eq_factorial : forall k n, (k <= n)%nat ->
  (choose n k * zfact k * zfact (n - k) = zfact n)%Z.
Proof. exact choose_fact. Qed.
Print Assumptions c19_binomial_pascal_eq_factorial.

(* enumerate_vocab_sequences: every sequence over the vocabulary exactly once *)
Theorem c19_enumerate_vocab_complete : forall len V, (0 <= len)%Z -> (0 < V)%Z ->
  exists rows, enumerate_vocab_sequences len V = Some rows /\
    NoDup rows /\ (forall r, In r rows <-> in_vocab V (Z.to_nat len) r) /\
    Z.of_nat (length rows) = (V ^ len)%Z.
Proof. exact enumerate_vocab_complete. Qed.
Print Assumptions c19_enumerate_vocab_complete.

Theorem c19_enumerate_vocab_error_iff : forall len V,
  enumerate_vocab_sequences len V = None <-> (len < 0 \/ V <= 0)%Z.
Proof. exact enumerate_vocab_error_iff. Qed.
Print Assumptions c19_enumerate_vocab_error_iff.

(* enumerate_binary_sequences_with_cardinality: every bit vector with the requested sum exactly once, and
   there are C(length, count) of them *)
Theorem c19_enumerate_card_complete : forall len cnt, (0 <= len)%Z -> (0 <= cnt)%Z ->
  exists rows, enumerate_card_int len cnt = Some rows /\
    NoDup rows /\ (forall r, In r rows <-> in_card len cnt r) /\
    Z.of_nat (length rows) = choose (Z.to_nat len) (Z.to_nat cnt).
Proof. exact enumerate_card_complete. Qed.
Print Assumptions c19_enumerate_card_complete.

(* SimpleRandomSamplingWithoutReplacement: |enumerate_support| * exp(log_prob) = 1, and every enumerated row
   is a legal sample *)
Theorem c19_support_sums_to_one : forall total given out, (0 <= given <= total)%Z ->
  exists rows, srswor_support total given out = Some rows /\
    (Qn (length rows) * srswor_prob_value total given == 1)%Q.
Proof. exact support_sums_to_one. Qed.
Print Assumptions c19_support_sums_to_one.

Theorem c19_support_rows_ok : forall total given out rows r,
  (0 <= given)%Z -> (0 <= total <= Z.of_nat out)%Z ->
  srswor_support total given out = Some rows -> In r rows -> srswor_ok total given out r.
Proof. exact support_rows_ok. Qed.
Print Assumptions c19_support_rows_ok.

(* ========================================================================================== *)
(* non-vacuity: concrete non-trivial inputs meet the hypotheses                                 *)
(* ========================================================================================== *)
Example c19_estimators_nonvacuous :
  let pd := mkjoint [[(1#4); (3#4)]; [(1#2); (1#2)]] [[(-1#1); (1#1)]; [0; 0]]%Q in
  let cv := [(1, 0); (2, 1#2); (0, 0); (3, -1#1)]%Q in
  is_dist pd /\ length pd = 4%nat /\ deq (exact pd cv) (exact pd cv) /\
  (fst (exact pd cv) == 3#2)%Q /\
  (fst (direct_at true (exact pd cv) pd [(1,0);(0,1);(2,0);(5,0)]%Q cv [0;0;0;0]%Q [1;3]%nat) == 3#2)%Q.
Proof.
  cbv zeta. split; [|split; [reflexivity|split; [split; reflexivity|split; vm_compute; reflexivity]]].
  apply joint_is_dist. repeat constructor; vm_compute; reflexivity.
Qed.

Example c19_mh_nonvacuous :
  imh_chain (fun _ => 1#1)%Q 0 (Some (1#1)%Q) [2;0;1]%nat [(0#1); (1#2); (63#64)]%Q = [2;0;1]%nat /\
  Forall (fun u => (0 <= u)%Q /\ (u < 1)%Q) [(0#1); (1#2); (63#64)]%Q.
Proof. split; [reflexivity|]. repeat constructor; vm_compute; congruence. Qed.

Example c19_combinatorics_nonvacuous :
  srswor 4 2 5 [(1#2); (1#2); (1#2); (1#2); (1#2)]%Q = Some [0; 1; 0; 1; 0]%Z /\
  Forall unit_u [(1#2); (1#2); (1#2); (1#2); (1#2)]%Q /\
  srswor_okb 4 2 5 [0; 1; 0; 1; 0]%Z = true /\
  (srswor_prob 2 4 [0; 1; 0; 1; 0]%Z == 1 # 6)%Q /\ choose 4 2 = 6%Z /\
  binomial_coefficient [25; 5]%Z [2; 3]%Z = Some [300; 10]%Z /\
  enumerate_card_int 3 1 = Some [[1;0;0]; [0;1;0]; [0;0;1]]%Z.
Proof.
  repeat split; try (vm_compute; reflexivity).
  repeat constructor; vm_compute; congruence.
Qed.

Example c19_relaxed_nonvacuous :
  (Rsum (map exp [ln (1/4); ln (3/4)]) = 1)%R /\ [0; 1]%R <> [] /\
  Forall (fun v => (0 < v < 1)%R) [(1/2); (1/3)]%R.
Proof.
  split; [|split; [discriminate|repeat constructor; lra]].
  unfold Rsum; cbn [map fold_right]. rewrite !exp_ln by lra. lra.
Qed.

(* ========================================================================================== *)
(* SOURCE TIE (notes/C19_tie_report.md): the Python text of _combinatorics.py, translated on every run by    *)
(* harness/py2coq (PV.Gen.C19Src), interpreted by PV.MiniPy.Interp with the torch calls given the meaning of  *)
(* PV.MiniTorch.OpsC19 (SrcRun.ext19: exact rationals, torch.bernoulli an ORACLE, torch.empty's content a    *)
(* parameter).  TorchScript (@script), dtypes, devices, rounding are not modelled.                            *)
(* ========================================================================================== *)
From PV Require MiniPy.Interp MiniTorch.Ops MiniTorch.Value MiniTorch.OpsC19 Gen.C19Src C19.SrcRun C19.TieSrswor C19.Tie.

(* simple_random_sampling_without_replacement(total_count, given_count, out_size) - the WHOLE body - on count tensors of
   ANY shape [sh] (entries [totals], [givens]; at least one element), out_size given (>= 0) or None, for EVERY content
   [junk] of the memory torch.empty returns and EVERY oracle [orc] behind torch.bernoulli (a function of the call index,
   the whole tensor of probabilities and the position; 0/1-valued and of p's shape by construction) that draws 1 where
   p = 1 and 0 where p = 0 ([oracle_ok]); given counts non-negative.  Either some given count exceeds its total or
   out_size is below the largest total and the run raises RuntimeError, or it returns the tensor of shape sh + (out_size,)
   whose n-th row is Model.srswor total[n] given[n] out_size on a script of uniforms in [0, 1). *)
Theorem c19_source_srswor_is_model : forall orc junk sh totals givens out,
  OpsC19.oracle_ok orc -> length totals = OpsC19.numel sh -> length givens = OpsC19.numel sh -> totals <> [] ->
  Forall (fun g => (0 <= g)%Z) givens -> Tie.out_ok out ->
  let O := Z.to_nat (Tie.oeffz out totals) in
  if Tie.guard totals givens out
  then exists st, SrcRun.run_srswor orc junk (SrcRun.ztens sh totals) (SrcRun.ztens sh givens) out
                  = Interp.Exc SrcRun.runtime_error st
  else exists st rows,
         SrcRun.run_srswor orc junk (SrcRun.ztens sh totals) (SrcRun.ztens sh givens) out
         = Interp.Ok (Value.enc (SrcRun.ztens (sh ++ [O]) (concat rows))) st /\
         length rows = OpsC19.numel sh /\
         forall n, (n < OpsC19.numel sh)%nat ->
           exists us, Forall unit_u us /\ srswor (nth n totals 0%Z) (nth n givens 0%Z) O us = Some (nth n rows []).
Proof. exact Tie.srswor_tie. Qed.
Print Assumptions c19_source_srswor_is_model.

(* the same with a ONE-ELEMENT given_count (0-dim, or every size 1 and no more dimensions than total_count) that
   torch.broadcast_tensors expands to the batch *)
Theorem c19_source_srswor_scalar_given_is_model : forall orc junk sh totals gsh g out,
  OpsC19.oracle_ok orc -> length totals = OpsC19.numel sh -> totals <> [] -> (0 <= g)%Z -> Tie.out_ok out ->
  OpsC19.shape_eqb sh gsh = false ->
  OpsC19.one_elt (SrcRun.ztens sh totals) (SrcRun.ztens gsh [g]) = false ->
  OpsC19.one_elt (SrcRun.ztens gsh [g]) (SrcRun.ztens sh totals) = true ->
  Tie.srswor_conclusion (SrcRun.run_srswor orc junk (SrcRun.ztens sh totals) (SrcRun.ztens gsh [g]) out)
    sh totals (repeat g (OpsC19.numel sh)) out.
Proof. exact Tie.srswor_tie_scalar_given. Qed.
Print Assumptions c19_source_srswor_scalar_given_is_model.

(* the interpreted source raises RuntimeError exactly when the model returns None for some batch element *)
Theorem c19_source_srswor_raises_iff : forall orc junk sh totals givens out,
  OpsC19.oracle_ok orc -> length totals = OpsC19.numel sh -> length givens = OpsC19.numel sh -> totals <> [] ->
  Forall (fun g => (0 <= g)%Z) givens -> Tie.out_ok out ->
  ((exists st, SrcRun.run_srswor orc junk (SrcRun.ztens sh totals) (SrcRun.ztens sh givens) out
               = Interp.Exc SrcRun.runtime_error st) <->
   exists n, (n < OpsC19.numel sh)%nat /\
             forall us, srswor (nth n totals 0%Z) (nth n givens 0%Z) (Z.to_nat (Tie.oeffz out totals)) us = None).
Proof. exact Tie.srswor_source_raises_iff. Qed.
Print Assumptions c19_source_srswor_raises_iff.

(* a total_count without elements: Tensor.max() raises before anything else happens *)
Theorem c19_source_srswor_empty_batch_raises : forall orc junk s1 s2 d2 out,
  exists st, Interp.run (SrcRun.ext19 orc junk) C19Src.srswor_body
               (SrcRun.srswor_vars (Ops.mkTens s1 []) (Ops.mkTens s2 d2) out) = Interp.Exc SrcRun.runtime_error st.
Proof. exact TieSrswor.srswor_run_empty. Qed.
Print Assumptions c19_source_srswor_empty_batch_raises.

(* COMPOSED with c19_srswor_cardinality_and_positions - purely about the interpreted source: whenever it returns, for
   every oracle and every uninitialised memory, every returned row has exactly given[n] ones, all of them within the
   first total[n] positions (and out_size entries, each 0 or 1) *)
Theorem c19_source_srswor_cardinality_and_positions : forall orc junk sh totals givens out v st,
  OpsC19.oracle_ok orc -> length totals = OpsC19.numel sh -> length givens = OpsC19.numel sh -> totals <> [] ->
  Forall (fun g => (0 <= g)%Z) givens -> Tie.out_ok out ->
  SrcRun.run_srswor orc junk (SrcRun.ztens sh totals) (SrcRun.ztens sh givens) out = Interp.Ok v st ->
  exists rows, v = Value.enc (SrcRun.ztens (sh ++ [Z.to_nat (Tie.oeffz out totals)]) (concat rows)) /\
    length rows = OpsC19.numel sh /\
    forall n, (n < OpsC19.numel sh)%nat ->
      srswor_ok (nth n totals 0%Z) (nth n givens 0%Z) (Z.to_nat (Tie.oeffz out totals)) (nth n rows []).
Proof. exact Tie.srswor_source_cardinality_and_positions. Qed.
Print Assumptions c19_source_srswor_cardinality_and_positions.

Example c19_source_nonvacuous :
  let us := [[1#2; 1#2]; [1#2; 1#2]; [1#2; 1#2]; [1#2; 1#2]; [1#2; 1#2]]%Q in
  SrcRun.agrees (SrcRun.run_srswor (SrcRun.orc_of_script us) SrcRun.junk_check (SrcRun.ztens [2%nat] [4; 3]%Z)
                   (SrcRun.ztens [2%nat] [2; 1]%Z) (Some 5%Z))
                (Some ([2%nat; 5%nat], [0; 1; 0; 1; 0; 0; 0; 1; 0; 0]%Z)) = true /\
  SrcRun.agrees (SrcRun.run_srswor (SrcRun.orc_of_script us) SrcRun.junk_check (SrcRun.ztens [2%nat] [4; 3]%Z)
                   (SrcRun.ztens [] [2]%Z) None)
                (Some ([2%nat; 4%nat], [0; 1; 0; 1; 1; 0; 1; 0]%Z)) = true /\
  SrcRun.agrees (SrcRun.run_srswor (SrcRun.orc_of_script us) SrcRun.junk_check (SrcRun.ztens [2%nat] [4; 3]%Z)
                   (SrcRun.ztens [2%nat] [2; 4]%Z) None) None = true.
Proof. vm_compute. repeat split. Qed.

(* ---- binomial_coefficient(length, count) - the WHOLE body, both branches --------------------------------------------- *)
From PV Require C19.TieBinom C19.TieBinomModel.

(* for every shape [sh], every pair of integer tensors of that shape (entries [lens], [cnts]; at least one element; ANY
   integers) and every content of the memory torch.empty returns: the interpreted source raises RuntimeError exactly when
   the model returns None (a negative entry), and otherwise returns the tensor of the model's values - through the
   factorial branch (arange, x[0] = 1, cumprod, x[length], trunc_divide, the in-place masked_fill_) when max(length) <= 20
   and through the Pascal table (empty, binom[..., 0] = 0, binom[0] = 1, the cumsum loop, flatten()[length + count *
   (length_ + 1)]) otherwise *)
Theorem c19_source_binom_is_model : forall junk sh lens cnts, length lens = length cnts -> lens <> [] ->
  match binomial_coefficient lens cnts with
  | None => exists st, SrcRun.run_binom junk (SrcRun.ztens sh lens) (SrcRun.ztens sh cnts) = Interp.Exc SrcRun.runtime_error st
  | Some res => exists st, SrcRun.run_binom junk (SrcRun.ztens sh lens) (SrcRun.ztens sh cnts)
                           = Interp.Ok (Value.enc (SrcRun.ztens sh res)) st
  end.
Proof. exact TieBinomModel.binom_tie. Qed.
Print Assumptions c19_source_binom_is_model.

(* COMPOSED with c19_binomial_is_pascal - purely about the interpreted source: on non-negative input it returns
   Pascal's triangle, entry by entry (whichever branch runs) *)
Theorem c19_source_binom_is_pascal : forall junk sh lens cnts, length lens = length cnts -> lens <> [] ->
  Forall (fun v => (0 <= v)%Z) lens -> Forall (fun v => (0 <= v)%Z) cnts ->
  exists st, SrcRun.run_binom junk (SrcRun.ztens sh lens) (SrcRun.ztens sh cnts)
             = Interp.Ok (Value.enc (SrcRun.ztens sh
                            (map (fun lc => choose (Z.to_nat (fst lc)) (Z.to_nat (snd lc))) (combine lens cnts)))) st.
Proof. exact TieBinomModel.binom_source_is_pascal. Qed.
Print Assumptions c19_source_binom_is_pascal.

(* COMPOSED further with c19_binomial_pascal_eq_factorial: every returned entry with count <= length is
   length! / (count! (length - count)!) *)
Theorem c19_source_binom_is_factorial_quotient : forall junk sh lens cnts, length lens = length cnts -> lens <> [] ->
  Forall (fun v => (0 <= v)%Z) lens -> Forall (fun v => (0 <= v)%Z) cnts ->
  exists st res, SrcRun.run_binom junk (SrcRun.ztens sh lens) (SrcRun.ztens sh cnts)
                 = Interp.Ok (Value.enc (SrcRun.ztens sh res)) st /\ length res = length lens /\
    forall i, (i < length lens)%nat -> (nth i cnts 0 <= nth i lens 0)%Z ->
      (nth i res 0 * zfact (Z.to_nat (nth i cnts 0)) * zfact (Z.to_nat (nth i lens 0) - Z.to_nat (nth i cnts 0))
       = zfact (Z.to_nat (nth i lens 0)))%Z.
Proof. exact TieBinomModel.binom_source_is_factorial_quotient. Qed.
Print Assumptions c19_source_binom_is_factorial_quotient.

Example c19_source_binom_nonvacuous :
  SrcRun.agrees (SrcRun.run_binom SrcRun.junk_check (SrcRun.ztens [2%nat] [25; 5]%Z) (SrcRun.ztens [2%nat] [2; 3]%Z))
                (Some ([2%nat], [300; 10]%Z)) = true /\
  SrcRun.agrees (SrcRun.run_binom SrcRun.junk_check (SrcRun.ztens [3%nat] [5; 4; 0]%Z) (SrcRun.ztens [3%nat] [2; 5; 0]%Z))
                (Some ([3%nat], [10; 0; 1]%Z)) = true /\
  SrcRun.agrees (SrcRun.run_binom SrcRun.junk_check (SrcRun.ztens [1%nat] [5]%Z) (SrcRun.ztens [1%nat] [-1]%Z)) None = true.
Proof. vm_compute. repeat split. Qed.

(* ---- IndependentMetropolisHastingsEstimator.__call__ (_mc.py): the accept / reject bookkeeping, as MARKED BLOCKS ----------- *)
(* (`with torch.no_grad()` and `while accept.dim() < cur_sample.dim()` are outside MiniPy: the blocks around them - mh_accept =
   `cur_sample = self.proposal.sample([1])` .. `cur_ratio = accept * cur_ratio + (~accept) * last_ratio`, mh_update =
   `cur_sample = torch.where(accept, cur_sample, last_sample)` .. `last_sample, last_ratio = cur_sample, cur_ratio` - are
   translated (PV.Gen.C19McSrc) and interpreted with SrcRunMc.ext19mc: a sample = one outcome index per batch element (no
   event dimensions, so the `while` does not execute), density / proposal through their ratio table w, logarithms exact
   (OpsC19 log-domain values: log of a positive rational, -inf, nan), is_log = False.) *)
From PV Require C19McSrc C19.SrcRunMc C19.TieMc C19.TieMcStep.

(* ONE iteration = the model's step, for EVERY batch size B, ratio / function tables, proposal, uniforms >= 0 and burn-in:
   from a state whose last_sample holds the outcomes [lasts] and whose last_ratio represents the model's ratio states
   [lastws] (nan for None, the log of a positive rational for Some), executing mh_accept and then mh_update leaves last_sample =
   Model's next outcomes (imh_chain's [nxt]) and last_ratio representing Model's next ratio states ([nw]: including the nan
   that rejecting a zero-density proposal leaves behind), one more proposal drawn *)
Theorem c19_source_mh_step_is_model : forall (w f : nat -> nat -> Q) props us Nz burn Bs nk B N,
  length us = N -> Forall (fun r => length r = B) us -> Forall (Forall (fun u => (0 <= u)%Q)) us ->
  forall lasts lastws LR, length lasts = B -> length LR = B ->
  (forall j, (j < B)%nat -> TieMc.rel_lv (nth j lastws None) (nth j LR OpsC19.LNaN)) ->
  forall evs n, length (nth (length evs) props []) = B -> (n < N)%nat ->
  forall vv cs cr ac fb t1, TieMcStep.v_ok burn B n vv ->
  exists st1 LR' v' cs' cr' ac' fb' t1' evs',
    Interp.exec (SrcRunMc.ext19mc w f props us) C19McSrc.mh_accept
      (TieMc.st_mh (SrcRunMc.self_val Nz burn Bs) nk B N (map OpsC19.lv_log (concat us)) (TieMc.inj_idx lasts) LR vv
         (Syntax.VInt (Z.of_nat n)) cs cr ac fb t1 evs) = Interp.Ok Interp.CNormal st1 /\
    Interp.exec (SrcRunMc.ext19mc w f props us) C19McSrc.mh_update st1 =
    Interp.Ok Interp.CNormal
      (TieMc.st_mh (SrcRunMc.self_val Nz burn Bs) nk B N (map OpsC19.lv_log (concat us))
         (TieMc.inj_idx (map (TieMcStep.step_nxt w props us lasts lastws evs n) (seq 0 B))) LR' v' (Syntax.VInt (Z.of_nat n))
         cs' cr' ac' fb' t1' evs') /\
    length LR' = B /\
    (forall j, (j < B)%nat -> TieMc.rel_lv (TieMcStep.step_nw w props us lastws evs n j) (nth j LR' OpsC19.LNaN)) /\
    length evs' = S (length evs).
Proof. exact TieMcStep.mh_step_tie. Qed.
Print Assumptions c19_source_mh_step_is_model.

(* [step_nxt] / [step_nw] ARE the body of Model.imh_chain *)
Theorem c19_source_mh_step_defs : forall w last lastw c ps u us,
  imh_chain w last lastw (c :: ps) (u :: us) =
  TieMc.mnxt w last lastw c u :: imh_chain w (TieMc.mnxt w last lastw c u) (TieMc.mnw w lastw c u) ps us.
Proof. exact TieMc.imh_chain_step. Qed.
Print Assumptions c19_source_mh_step_defs.

(* COMPOSED with c19_mh_accepts_all_when_equal - purely about the interpreted blocks: when proposal and target coincide (the
   ratio of every batch element is a positive constant), the stored ratio is that of the last sample and the uniforms lie in
   [0, 1), one iteration ACCEPTS THE PROPOSAL OF EVERY BATCH ELEMENT: last_sample becomes this step's proposal, and the stored
   ratio is again that of the last sample (so the hypothesis holds for the next iteration) *)
Theorem c19_source_mh_step_accepts_all_when_equal : forall (w f : nat -> nat -> Q) props us Nz burn Bs nk B N,
  length us = N -> Forall (fun r => length r = B) us -> Forall (Forall (fun u => (0 <= u)%Q /\ (u < 1)%Q)) us ->
  (forall j, (j < B)%nat -> exists c, (0 < c)%Q /\ forall i, (w j i == c)%Q) ->
  forall lasts LR, length lasts = B -> length LR = B ->
  (forall j, (j < B)%nat -> TieMc.rel_lv (Some (w j (nth j lasts 0%nat))) (nth j LR OpsC19.LNaN)) ->
  forall evs n, length (nth (length evs) props []) = B -> (n < N)%nat ->
  forall vv cs cr ac fb t1, TieMcStep.v_ok burn B n vv ->
  exists st1 LR' v' cs' cr' ac' fb' t1' evs',
    Interp.exec (SrcRunMc.ext19mc w f props us) C19McSrc.mh_accept
      (TieMc.st_mh (SrcRunMc.self_val Nz burn Bs) nk B N (map OpsC19.lv_log (concat us)) (TieMc.inj_idx lasts) LR vv
         (Syntax.VInt (Z.of_nat n)) cs cr ac fb t1 evs) = Interp.Ok Interp.CNormal st1 /\
    Interp.exec (SrcRunMc.ext19mc w f props us) C19McSrc.mh_update st1 =
    Interp.Ok Interp.CNormal
      (TieMc.st_mh (SrcRunMc.self_val Nz burn Bs) nk B N (map OpsC19.lv_log (concat us))
         (TieMc.inj_idx (nth (length evs) props [])) LR' v' (Syntax.VInt (Z.of_nat n)) cs' cr' ac' fb' t1' evs') /\
    (forall j, (j < B)%nat -> TieMc.rel_lv (Some (w j (nth j (nth (length evs) props []) 0%nat))) (nth j LR' OpsC19.LNaN)).
Proof. exact TieMcStep.mh_source_step_accepts_all. Qed.
Print Assumptions c19_source_mh_step_accepts_all_when_equal.

(* the four blocks glued as the `for` glues them (SrcRunMc.mh_run), on a chain with a rejected zero-density proposal *)
Example c19_source_mh_nonvacuous :
  SrcRunMc.src_imh_check (1 # 1000000) [[1; 2; 0]; [1; 1; 1]]%Q [[3; 5; 7]; [2; 4; 6]]%Q (Some [0; 1]%nat)
    [[1; 2]; [2; 0]; [0; 1]]%nat 1 [[1 # 4; 3 # 4]; [1 # 2; 0]; [3 # 4; 1 # 8]]%Q 3 1
    (Some [5; 3]%Q) = true /\
  imh_check (1 # 1000000) [[1; 2; 0]; [1; 1; 1]]%Q [[3; 5; 7]; [2; 4; 6]]%Q (Some [0; 1]%nat)
    [[1; 2]; [2; 0]; [0; 1]]%nat 1 [[1 # 4; 3 # 4]; [1 # 2; 0]; [3 # 4; 1 # 8]]%Q 3 1
    (Some [5; 3]%Q) = true.
Proof. vm_compute. split; reflexivity. Qed.
