(* C14, second tie - spect_seq_to_batch (PV.Gen.C14BSrc.spect_seq_to_batch, regenerated from
   /repo/src/pydrobert/torch/_dataloaders.py on every run) with has_alis = has_uttids = True: for every non-empty
   sequence of items whose feature rows have one width F (and reference rows one width W when W <> 1 - what makes the
   items tensors of one trailing shape), every sort / batch_first setting, every pattern of missing alignments /
   references, the interpreted source returns the encoding of Model.spect_collate: the stable descending sort
   ("$sorted" reverse=True = Model.sort_desc), zip( *seq), the all(..) tests, the size comprehensions, the three
   pad_sequence calls in either layout.  The other three has_alis / has_uttids combinations are executed only. *)
From Coq Require Import ZArith QArith List String Bool Arith Lia.
From PV Require C14.Spec C14.ProofsCollate.
From PV Require Import C14.Model MiniPy.Syntax MiniPy.Interp MiniPy.Lemmas MiniTorch.OpsC14B MiniTorch.LemmasC14B
  Gen.C14BSrc C14.SrcRunB C14.TieBCw C14.TieBSpect.
Import ListNotations.
Local Open Scope string_scope.
Local Open Scope list_scope.

#[local] Arguments Z.of_nat : simpl never.
#[local] Arguments subscript : simpl never.
#[local] Arguments tensor_of_ints : simpl never.
#[local] Arguments zip_vals : simpl never.
#[local] Arguments all_container_items : simpl never.
#[local] Arguments List.length : simpl never.
#[local] Arguments foreign : simpl never.
#[local] Arguments OpsC14B.pad_sequence : simpl never.
#[local] Arguments sort_keyed_desc : simpl never.

Definition s_feat (u : utt) : val := enc_mat (u_feat u).
Definition s_ali (u : utt) : val := enc_opt enc_row (u_ali u).
Definition s_ref W (u : utt) : val := enc_opt (enc_ref W) (u_ref u).
Definition s_id (u : utt) : val := zn (u_id u).

Lemma item4 W u : enc_spect_item true true W u = VTuple [s_feat u; s_ali u; s_ref W u; s_id u].
Proof. reflexivity. Qed.

Lemma sub4_0 a b c d st : foreign (VTuple [a]) = false -> subscript (VTuple [a; b; c; d]) (VInt 0) st = Ok a st.
Proof. intros H. unfold subscript, foreign_item. rewrite H. reflexivity. Qed.

Definition klen (v : val) : val :=
  match v with VTuple (VList l :: _) => VInt (Z.of_nat (List.length l)) | _ => VNone end.

Ltac fold_comp elt x :=
  match goal with
  | |- context [?F (map ?g ?sq) ?st0] =>
      is_fix F;
      let HF := fresh "HF" in
      assert (HF : forall l s, F l s = comp_loop (extB0 junk0) elt x [] (EConst (VBool true)) l s);
      [ let l := fresh "l" in let IH := fresh "IH" in let s := fresh "s" in
        induction l as [|? ? IH]; intros s; [reflexivity|]; cbn;
        match goal with |- bind ?X _ = bind ?X _ => destruct X as [? ?|? ?|?]; cbn [bind]; try reflexivity end;
        rewrite IH; reflexivity
      | rewrite HF; clear HF ]
  end.

Lemma foreign_list l : foreign (VList l) = false. Proof. reflexivity. Qed.
Lemma foreign_feat u : foreign (VTuple [s_feat u]) = false. Proof. reflexivity. Qed.

Lemma int_keys_map {A} (g : A -> Z) (l : list A) : int_keys (map (fun x => VInt (g x)) l) = Some (map g l).
Proof. induction l as [|x r IH]; [reflexivity|]. cbn [map int_keys]. rewrite IH. reflexivity. Qed.

Definition flen (u : utt) : nat := List.length (u_feat u).

Lemma foreign_alis_sp (sq : list utt) : foreign (VTuple (map s_ali sq)) = false.
Proof. destruct sq as [|[f [a|] r i] t]; reflexivity. Qed.
Lemma foreign_refs_sp W (sq : list utt) : foreign (VTuple (map (s_ref W) sq)) = false.
Proof. destruct sq as [|[f a [r|] i] t]; try reflexivity. unfold s_ref, enc_opt, enc_ref. cbn [map u_ref]. destruct (Nat.eqb W 1); reflexivity. Qed.
Lemma foreign_feats_sp (sq : list utt) : foreign (VTuple (map s_feat sq)) = false.
Proof. destruct sq as [|[f a r i] t]; reflexivity. Qed.


(* ---- pad_sequence instances ---------------------------------------------------------------------------------- *)
Section Pad2.
  Context {X : Type} (e : X -> val) (pad : X).
  Variable cells : bool.
  Let pk (l : list X) : val := pack cells (map e l).

  Lemma padded_map' pc T (ls : list (list X)) : (pc = e pad \/ T = 0%nat) ->
    map (fun l => l ++ repeat pc (T - List.length l)) (map (map e) ls) = map (map e) (map (pad_to T pad) ls).
  Proof.
    intros H. rewrite !map_map. apply map_ext. intros l. unfold pad_to. rewrite map_app, map_repeat, map_length.
    destruct H as [Hp|Hp]; rewrite Hp; reflexivity.
  Qed.

  Lemma pad_sequence_is_model' (ts : list val) (ls : list (list X)) pv pc bf t0 rest :
    ts = t0 :: rest -> (match t0 with VTuple _ => true | _ => false end) = cells ->
    all_items ts = Some (map (map e) ls) -> pad_cell pv (map (map e) ls) = Some pc ->
    (pc = e pad \/ maxlen ls = 0%nat) ->
    OpsC14B.pad_sequence ts pv bf = Some (VList (map pk (Model.pad_sequence bf pad ls))).
  Proof.
    intros Hts Hc Hall Hpc Hor. subst ts. unfold OpsC14B.pad_sequence. rewrite Hall, Hpc, Hc.
    rewrite (max_len_map e), (padded_map' pc) by exact Hor. unfold Model.pad_sequence. f_equal. f_equal.
    destruct bf.
    - rewrite !map_map. reflexivity.
    - unfold transpose_cells. rewrite !map_map. apply map_ext_in. intros t Ht. unfold pk. f_equal.
      rewrite !map_map. apply map_ext. intros l.
      destruct Hor as [Hp|H0]; [rewrite Hp; apply map_nth|]. rewrite H0 in Ht. destruct Ht.
  Qed.
End Pad2.

Lemma first_item_none (ls : list (list val)) : first_item ls = None -> max_len ls = 0%nat.
Proof.
  induction ls as [|l r IH]; [reflexivity|]. destruct l as [|x l']; [|discriminate]. cbn [first_item]. intros H.
  unfold max_len in *. cbn [fold_right]. rewrite (IH H). reflexivity.
Qed.

Lemma first_item_in (ls : list (list val)) x : first_item ls = Some x -> exists l, List.In l ls /\ List.In x l.
Proof.
  induction ls as [|l r IH]; [discriminate|]. destruct l as [|y l'].
  - cbn [first_item]. intros H. destruct (IH H) as [l [H1 H2]]. exists l. split; [right; exact H1|exact H2].
  - cbn [first_item]. intros H. injection H as <-. exists (y :: l'). split; left; reflexivity.
Qed.

Definition widths_ok (F : nat) (ls : list (list row)) : Prop :=
  forall l r, List.In l ls -> List.In r l -> List.length r = F.

Lemma pad_cell_rows F pv (ls : list (list row)) : widths_ok F ls ->
  exists pc, pad_cell (VInt pv) (map (map enc_row) ls) = Some pc /\
             (pc = enc_row (repeat pv F) \/ maxlen ls = 0%nat).
Proof.
  intros Hw. unfold pad_cell. destruct (first_item (map (map enc_row) ls)) as [x|] eqn:E.
  - destruct (first_item_in _ _ E) as [l [H1 H2]]. apply in_map_iff in H1. destruct H1 as [l0 [<- Hl0]].
    apply in_map_iff in H2. destruct H2 as [r [<- Hr]]. unfold enc_row at 1. rewrite cells_ints.
    eexists. split; [reflexivity|]. left. unfold enc_row. rewrite map_length, (Hw l0 r Hl0 Hr), map_repeat. reflexivity.
  - eexists. split; [reflexivity|]. right. rewrite <- (max_len_map enc_row). apply first_item_none. exact E.
Qed.

Lemma all_items_mats (ls : list (list row)) : all_items (map enc_mat ls) = Some (map (map enc_row) ls).
Proof. induction ls as [|l r IH]; [reflexivity|]. cbn [map all_items]. rewrite IH. reflexivity. Qed.

Lemma pad_feats F (sq : list utt) bf : sq <> [] -> widths_ok F (map u_feat sq) ->
  OpsC14B.pad_sequence (map s_feat sq) (VInt 0) bf
  = Some (enc_cube (Model.pad_sequence bf (repeat 0%Z F) (map u_feat sq))).
Proof.
  intros Hne Hw. destruct (pad_cell_rows F 0%Z _ Hw) as [pc [Hpc Hor]].
  destruct sq as [|u t]; [contradiction|].
  replace (map s_feat (u :: t)) with (map enc_mat (map u_feat (u :: t))) by (rewrite map_map; reflexivity).
  pose proof (all_items_mats (map u_feat (u :: t))) as Hall. cbn [map] in *.
  rewrite (pad_sequence_is_model' enc_row (repeat 0%Z F) false _ (u_feat u :: map u_feat t) (VInt 0) pc bf
             (enc_mat (u_feat u)) (map enc_mat (map u_feat t)) eq_refl eq_refl Hall Hpc Hor).
  reflexivity.
Qed.


Lemma pad_cell_cells pv (ls : list (list val)) : (forall l x, List.In l ls -> List.In x l -> exists z, x = VInt z) ->
  pad_cell pv ls = Some pv.
Proof.
  intros H. unfold pad_cell. destruct (first_item ls) as [x|] eqn:E; [|reflexivity].
  destruct (first_item_in _ _ E) as [l [H1 H2]]. destruct (H l x H1 H2) as [z ->]. reflexivity.
Qed.

Lemma all_items_rows (ls : list (list Z)) : all_items (map enc_row ls) = Some (map (map VInt) ls).
Proof. induction ls as [|l r IH]; [reflexivity|]. cbn [map all_items seq_items enc_row]. rewrite cells_ints, IH. reflexivity. Qed.

Lemma pad_vecs (ls : list (list Z)) bf : ls <> [] ->
  OpsC14B.pad_sequence (map enc_row ls) (VInt PADV) bf = Some (VList (map enc_row (Model.pad_sequence bf PADV ls))).
Proof.
  intros Hne. destruct ls as [|l t]; [contradiction|].
  pose proof (all_items_rows (l :: t)) as Hall.
  assert (Hpc : pad_cell (VInt PADV) (map (map VInt) (l :: t)) = Some (VInt PADV)).
  { apply pad_cell_cells. intros l0 x H1 H2. apply in_map_iff in H1. destruct H1 as [l1 [<- _]].
    apply in_map_iff in H2. destruct H2 as [z [<- _]]. eexists. reflexivity. }
  cbn [map] in Hall |- *.
  rewrite (pad_sequence_is_model' VInt PADV true _ (l :: t) (VInt PADV) (VInt PADV) bf
             (enc_row l) (map enc_row t) eq_refl eq_refl Hall Hpc (or_introl eq_refl)).
  reflexivity.
Qed.

Lemma cells_toks (m : list row) : forallb is_cell (map enc_tok m) = true.
Proof. induction m as [|x r IH]; [reflexivity|exact IH]. Qed.

Lemma all_items_toks (ls : list (list row)) :
  all_items (map (fun m => VTuple (map enc_tok m)) ls) = Some (map (map enc_tok) ls).
Proof. induction ls as [|l r IH]; [reflexivity|]. cbn [map all_items seq_items]. rewrite cells_toks, IH. reflexivity. Qed.

Lemma pad_toks (ls : list (list row)) bf : ls <> [] ->
  OpsC14B.pad_sequence (map (fun m => VTuple (map enc_tok m)) ls) (VInt PADV) bf
  = Some (VList (map (fun m => VTuple (map enc_tok m)) (Model.pad_sequence bf (repeat PADV 1) ls))).
Proof.
  intros Hne. destruct ls as [|l t]; [contradiction|].
  pose proof (all_items_toks (l :: t)) as Hall.
  assert (Hpc : pad_cell (VInt PADV) (map (map enc_tok) (l :: t)) = Some (VInt PADV)).
  { apply pad_cell_cells. intros l0 x H1 H2. apply in_map_iff in H1. destruct H1 as [l1 [<- _]].
    apply in_map_iff in H2. destruct H2 as [z [<- _]]. eexists. reflexivity. }
  cbn [map] in Hall |- *.
  rewrite (pad_sequence_is_model' enc_tok (repeat PADV 1) true _ (l :: t) (VInt PADV) (VInt PADV) bf
             (VTuple (map enc_tok l)) (map (fun m => VTuple (map enc_tok m)) t) eq_refl eq_refl Hall Hpc (or_introl eq_refl)).
  reflexivity.
Qed.

Lemma pad_mats W (ls : list (list row)) bf : ls <> [] -> widths_ok W ls ->
  OpsC14B.pad_sequence (map enc_mat ls) (VInt PADV) bf
  = Some (enc_cube (Model.pad_sequence bf (repeat PADV W) ls)).
Proof.
  intros Hne Hw. destruct (pad_cell_rows W PADV _ Hw) as [pc [Hpc Hor]].
  destruct ls as [|l t]; [contradiction|].
  pose proof (all_items_mats (l :: t)) as Hall. cbn [map] in *.
  rewrite (pad_sequence_is_model' enc_row (repeat PADV W) false _ (l :: t) (VInt PADV) pc bf
             (enc_mat l) (map enc_mat t) eq_refl eq_refl Hall Hpc Hor).
  reflexivity.
Qed.

Lemma all_some_vals {A} (e : A -> val) (ne : forall a, e a <> VNone) (l : list (option A)) :
  forallb truthy (map (fun v => VBool (negb (val_eqb v VNone))) (map (enc_opt e) l)) = forallb is_some l.
Proof.
  induction l as [|a r IH]; [reflexivity|]. cbn [map forallb]. rewrite IH. destruct a as [a|]; [|reflexivity].
  cbn [enc_opt is_some truthy]. destruct (e a) eqn:E; try reflexivity. exfalso. exact (ne a E).
Qed.

Lemma some_vals {A} (e : A -> val) (d : A) (l : list (option A)) : forallb is_some l = true ->
  map (enc_opt e) l = map e (map (oget d) l).
Proof.
  induction l as [|a r IH]; intros H; [reflexivity|]. cbn [forallb] in H. apply andb_true_iff in H. destruct H as [Ha Hr].
  destruct a; [|discriminate]. cbn [map enc_opt oget]. rewrite (IH Hr). reflexivity.
Qed.

Definition sp_sort : stmt := match spect_seq_to_batch with SSeq a _ => a | _ => SPass end.
Definition sp_rest : stmt := match spect_seq_to_batch with SSeq _ b => b | _ => SPass end.

Definition sp_vars (bf srt : bool) (W : nat) (sq : list utt) : list (string * val) :=
  [("seq", VList (map (enc_spect_item true true W) sq)); ("batch_first", VBool bf); ("sort", VBool srt);
   ("has_alis", VBool true); ("has_uttids", VBool true)] ++ globalsB.

Definition comps4 W (u : utt) : list val := [s_feat u; s_ali u; s_ref W u; s_id u].

Lemma all_items_sp W (sq : list utt) :
  all_container_items (map (enc_spect_item true true W) sq) = Some (map (comps4 W) sq).
Proof.
  induction sq as [|x r IH]; [reflexivity|]. cbn [map]. unfold all_container_items; fold all_container_items.
  rewrite IH. reflexivity.
Qed.

Lemma zip_sp W (sq : list utt) : sq <> [] ->
  zip_vals (map (comps4 W) sq) =
  [VTuple (map s_feat sq); VTuple (map s_ali sq); VTuple (map (s_ref W) sq); VTuple (map s_id sq)].
Proof.
  intros Hne. destruct sq as [|x r]; [contradiction|]. unfold zip_vals.
  set (ls := map (comps4 W) (x :: r)).
  assert (Hm : min_len ls = 4%nat).
  { unfold ls. cbn [map]. apply min_len_const; [reflexivity|].
    intros l Hl. apply in_map_iff in Hl. destruct Hl as [y [<- _]]. reflexivity. }
  rewrite Hm. unfold ls. cbn [seq map]. rewrite !map_map. reflexivity.
Qed.

Lemma sub4l_0 a b c d st : subscript (VList [a; b; c; d]) (VInt 0) st = Ok a st. Proof. reflexivity. Qed.
Lemma sub4l_1 a b c d st : subscript (VList [a; b; c; d]) (VInt 1) st = Ok b st. Proof. reflexivity. Qed.
Lemma sub4l_2 a b c d st : subscript (VList [a; b; c; d]) (VInt 2) st = Ok c st. Proof. reflexivity. Qed.
Lemma sub4l_3 a b c d st : subscript (VList [a; b; c; d]) (VInt 3) st = Ok d st. Proof. reflexivity. Qed.
Ltac ev1 := first [ rewrite sub4l_0 | rewrite sub4l_1 | rewrite sub4l_2 | rewrite sub4l_3 ].
Ltac ev := repeat (cbn; ev1); cbn.

Lemma foreign_map_rows (l : list (list Z)) : foreign (VTuple (map enc_row l)) = false.
Proof. destruct l; reflexivity. Qed.
Lemma foreign_map_refs W (l : list (list row)) : foreign (VTuple (map (enc_ref W) l)) = false.
Proof. destruct l; [reflexivity|]. cbn [map]. unfold enc_ref. destruct (Nat.eqb W 1); reflexivity. Qed.

Lemma pad_refs W (ls : list (list row)) bf : ls <> [] -> (W <> 1%nat -> widths_ok W ls) ->
  OpsC14B.pad_sequence (map (enc_ref W) ls) (VInt PADV) bf
  = Some (enc_refs W (Model.pad_sequence bf (repeat PADV W) ls)).
Proof.
  intros Hne Hw. unfold enc_refs. destruct (Nat.eqb_spec W 1) as [->|Hn].
  - change (enc_ref 1) with (fun m : list row => VTuple (map enc_tok m)). apply pad_toks. exact Hne.
  - replace (map (enc_ref W) ls) with (map enc_mat ls).
    + apply pad_mats; [exact Hne|exact (Hw Hn)].
    + apply map_ext. intros m. unfold enc_ref. destruct (Nat.eqb_spec W 1); [contradiction|reflexivity].
Qed.

Definition clen (v : val) : nat := match v with VList l | VTuple l => List.length l | _ => 0%nat end.

Ltac len2 := repeat match goal with |- context [List.length (?a :: ?b :: [])] => change (List.length (a :: b :: [])) with 2%nat end.

Lemma enc_row_not_none (a : list Z) : enc_row a <> VNone. Proof. discriminate. Qed.
Lemma enc_ref_not_none W (m : list row) : enc_ref W m <> VNone.
Proof. unfold enc_ref. destruct (Nat.eqb W 1); discriminate. Qed.

Theorem sp_rest_exec bf srt F W (sq : list utt) : sq <> [] ->
  widths_ok F (map u_feat sq) -> (W <> 1%nat -> widths_ok W (map (oget []) (map u_ref sq))) ->
  exists st', exec (extB0 junk0) sp_rest (mkState (sp_vars bf srt W sq) [])
              = Ok (CReturn (enc_sbatch true true W (spect_collate bf false F W sq))) st'.
Proof.
  intros Hne HwF HwW. unfold sp_rest, spect_seq_to_batch, sp_vars, globalsB.
  cbn. rewrite app_nil_r, all_items_sp. cbn. rewrite (zip_sp _ sq Hne). ev.
  assert (Hna : map s_ali sq <> []) by (destruct sq; [contradiction|discriminate]).
  assert (Hnr : map (s_ref W) sq <> []) by (destruct sq; [contradiction|discriminate]).
  assert (Hnf : map s_feat sq <> []) by (destruct sq; [contradiction|discriminate]).
  rewrite foreign_alis_sp. cbn.
  fold_comp (ECmp IsNot (EName "x") (EConst VNone)) "x".
  rewrite (comp_loop_map_ne _ _ _ (fun v => VBool (negb (val_eqb v VNone)))); [|exact Hna|].
  2:{ intros i st0 Hi. cbn. unfold set_var at 1. cbn [vars]. rewrite lookup_update_eq. cbn. destruct i; reflexivity. }
  cbn. rewrite foreign_refs_sp. cbn.
  fold_comp (ECmp IsNot (EName "x") (EConst VNone)) "x".
  rewrite (comp_loop_map_ne _ _ _ (fun v => VBool (negb (val_eqb v VNone)))); [|exact Hnr|].
  2:{ intros i st0 Hi. cbn. unfold set_var at 1. cbn [vars]. rewrite lookup_update_eq. cbn. destruct i; reflexivity. }
  cbn. rewrite foreign_feats_sp. cbn.
  fold_comp (EMeth (EName "x") "size" [EConst (VInt 0)] []) "x".
  rewrite (comp_loop_map_ne _ _ _ (fun v => VInt (Z.of_nat (match v with VList l => List.length l | _ => 0%nat end)))); [|exact Hnf|].
  2:{ intros i st0 Hi. apply in_map_iff in Hi. destruct Hi as [u [<- _]].
      cbn. unfold set_var at 1. cbn [vars]. rewrite lookup_update_eq. reflexivity. }
  cbn. rewrite tensor_of_ints_map. cbn. rewrite foreign_feats_sp. len2. cbn.
  rewrite (pad_feats F sq bf Hne HwF). cbn.
  replace (map s_ali sq) with (map (@enc_opt (list Z) enc_row) (map u_ali sq)) by (rewrite map_map; reflexivity).
  replace (map (s_ref W) sq) with (map (enc_opt (enc_ref W)) (map u_ref sq)) by (rewrite map_map; reflexivity).
  rewrite (@all_some_vals (list Z) enc_row enc_row_not_none (map u_ali sq)).
  rewrite (all_some_vals (enc_ref W) (enc_ref_not_none W) (map u_ref sq)).
  assert (Hfs : VTuple (map (fun v : val => VInt (Z.of_nat match v with VList l => List.length l | _ => 0%nat end))
                            (map s_feat sq)) = enc_sizes (map (@List.length row) (map u_feat sq))).
  { unfold enc_sizes. rewrite !map_map. f_equal. apply map_ext. intros u. unfold s_feat, enc_mat, zn.
    rewrite map_length. reflexivity. }
  rewrite Hfs.
  assert (Hid : VTuple (map s_id sq) = enc_ids (map u_id sq)) by (unfold enc_ids; rewrite map_map; reflexivity).
  assert (Hrs : VTuple (map (fun v : val => VInt (Z.of_nat (clen v))) (map (enc_ref W) (map (oget []) (map u_ref sq))))
                = enc_sizes (map (@List.length row) (map (oget []) (map u_ref sq)))).
  { unfold enc_sizes. rewrite !map_map. f_equal. apply map_ext. intros u. unfold enc_ref, clen, zn, enc_mat.
    destruct (Nat.eqb W 1); rewrite map_length; reflexivity. }
  assert (Hna' : map (oget []) (map u_ali sq) <> []) by (destruct sq; [contradiction|discriminate]).
  assert (Hnr' : map (oget []) (map u_ref sq) <> []) by (destruct sq; [contradiction|discriminate]).
  unfold spect_collate, enc_sbatch. cbn [b_feats b_alis b_refs b_fsz b_rsz b_ids app].
  destruct (forallb is_some (map u_ali sq)) eqn:Ha; destruct (forallb is_some (map u_ref sq)) eqn:Hr.
  - rewrite (@some_vals (list Z) enc_row [] _ Ha), (some_vals (enc_ref W) [] _ Hr).
    rewrite foreign_map_rows. len2. cbn. rewrite pad_vecs by exact Hna'. cbn.
    rewrite foreign_map_refs. cbn.
    fold_comp (ECall "len" [EName "x"] []) "x".
    rewrite (comp_loop_map_ne _ _ _ (fun v => VInt (Z.of_nat (clen v)))); [| |].
    2:{ destruct sq; [contradiction|discriminate]. }
    2:{ intros i st0 Hi. apply in_map_iff in Hi. destruct Hi as [m [<- _]].
        cbn. unfold set_var at 1. cbn [vars]. rewrite lookup_update_eq. cbn.
        unfold enc_ref. destruct (Nat.eqb W 1); reflexivity. }
    cbn. rewrite tensor_of_ints_map. cbn. rewrite foreign_map_refs. len2. cbn.
    rewrite (pad_refs W _ bf Hnr' HwW). cbn. rewrite Hid, Hrs. eexists. reflexivity.
  - rewrite (@some_vals (list Z) enc_row [] _ Ha).
    rewrite foreign_map_rows. len2. cbn. rewrite pad_vecs by exact Hna'. cbn.
    rewrite Hid. eexists. reflexivity.
  - rewrite (some_vals (enc_ref W) [] _ Hr). cbn.
    rewrite foreign_map_refs. cbn.
    fold_comp (ECall "len" [EName "x"] []) "x".
    rewrite (comp_loop_map_ne _ _ _ (fun v => VInt (Z.of_nat (clen v)))); [| |].
    2:{ destruct sq; [contradiction|discriminate]. }
    2:{ intros i st0 Hi. apply in_map_iff in Hi. destruct Hi as [m [<- _]].
        cbn. unfold set_var at 1. cbn [vars]. rewrite lookup_update_eq. cbn.
        unfold enc_ref. destruct (Nat.eqb W 1); reflexivity. }
    cbn. rewrite tensor_of_ints_map. cbn. rewrite foreign_map_refs. len2. cbn.
    rewrite (pad_refs W _ bf Hnr' HwW). cbn. rewrite Hid, Hrs. eexists. reflexivity.
  - cbn. rewrite Hid. eexists. reflexivity.
Qed.


Lemma sp_split : spect_seq_to_batch = SSeq sp_sort sp_rest. Proof. reflexivity. Qed.

Lemma sort_exec bf srt W (sq : list utt) : sq <> [] ->
  exec (extB0 junk0) sp_sort (mkState (spect_vars bf srt true true W sq) [])
  = Ok CNormal (mkState (sp_vars bf srt W (if srt then sort_desc flen sq else sq)) []).
Proof.
  intros Hne. unfold sp_sort, spect_seq_to_batch, spect_vars, sp_vars, globalsB.
  assert (Hn : map (enc_spect_item true true W) sq <> []) by (destruct sq; [contradiction|discriminate]).
  destruct srt; [|reflexivity].
  cbn. rewrite foreign_list. cbn.
  fold_comp (EMeth (ESub (EName "x") (EConst (VInt 0))) "size" [EConst (VInt 0)] []) "x".
  rewrite (comp_loop_map_ne _ _ _ klen); [|exact Hn|].
  2:{ intros i st0 Hi. apply in_map_iff in Hi. destruct Hi as [u [<- _]]. rewrite item4.
      cbn. unfold set_var at 1. cbn [vars]. rewrite lookup_update_eq. cbn.
      rewrite (sub4_0 _ _ _ _ _ (foreign_feat u)). reflexivity. }
  cbn.
  assert (Hk : map klen (map (enc_spect_item true true W) sq) = map (fun u => VInt (Z.of_nat (flen u))) sq).
  { rewrite map_map. apply map_ext. intros u. unfold klen, flen. rewrite item4. unfold s_feat, enc_mat.
    rewrite map_length. reflexivity. }
  rewrite Hk, (int_keys_map (fun u => Z.of_nat (flen u))). rewrite !map_length, Nat.eqb_refl.
  rewrite (sorted_desc_is_model flen (enc_spect_item true true W) sq).
  reflexivity.
Qed.

Lemma widths_perm F (a b : list (list row)) : (forall x, List.In x a -> List.In x b) -> widths_ok F b -> widths_ok F a.
Proof. intros H Hw l r Hl Hr. exact (Hw l r (H l Hl) Hr). Qed.

(* spect_seq_to_batch with has_alis = has_uttids = True: every sort / batch_first setting, every pattern of missing
   alignments / references, token-only (W = 1) and (R, W) references *)
Theorem spect_tie bf srt F W (sq : list utt) : sq <> [] ->
  widths_ok F (map u_feat sq) -> (W <> 1%nat -> widths_ok W (map (oget []) (map u_ref sq))) ->
  exists st', src_spect_collate bf srt true true W sq
              = Ok (enc_sbatch true true W (spect_collate bf srt F W sq)) st'.
Proof.
  intros Hne HwF HwW. unfold src_spect_collate, Interp.run. rewrite sp_split, exec_seq, (sort_exec bf srt W sq Hne).
  cbn [bind].
  set (sq' := if srt then sort_desc flen sq else sq).
  assert (Hin : forall u, List.In u sq' -> List.In u sq).
  { intros u Hu. unfold sq' in Hu. destruct srt; [|exact Hu].
    exact (Permutation.Permutation_in u (C14.ProofsCollate.sort_desc_perm flen sq) Hu). }
  assert (Hne' : sq' <> []).
  { unfold sq'. destruct srt; [|exact Hne]. intros E.
    pose proof (Permutation.Permutation_length (C14.ProofsCollate.sort_desc_perm flen sq)) as HL. rewrite E in HL.
    destruct sq as [|u0 t0]; [exact (Hne eq_refl)|discriminate HL]. }
  destruct (sp_rest_exec bf srt F W sq' Hne') as [st' H].
  - apply (widths_perm F _ (map u_feat sq)); [|exact HwF]. intros x Hx. apply in_map_iff in Hx.
    destruct Hx as [u [<- Hu]]. apply in_map. exact (Hin u Hu).
  - intros Hn. apply (widths_perm W _ (map (oget []) (map u_ref sq))); [|exact (HwW Hn)]. intros x Hx.
    rewrite map_map in *. apply in_map_iff in Hx. destruct Hx as [u [<- Hu]].
    apply (in_map (fun u0 => oget [] (u_ref u0))). exact (Hin u Hu).
  - rewrite H. exists st'. reflexivity.
Qed.


(* composed with c14_collate_lossless / c14_collate_presents_all: purely about the interpreted source - un-collating
   what it returns (cutting every padded entry back to its reported size) gives back the presented items - features,
   alignment, reference and id of each row together -, and the presented items are a permutation of the given ones:
   no utterance and no frame is lost or duplicated *)
Theorem source_spect_collate_lossless bf srt F W (sq : list utt) : sq <> [] ->
  widths_ok F (map u_feat sq) -> (W <> 1%nat -> widths_ok W (map (oget []) (map u_ref sq))) ->
  Forall C14.Spec.wf_utt sq ->
  exists st' b,
    src_spect_collate bf srt true true W sq = Ok (enc_sbatch true true W b) st' /\
    C14.Spec.uncollate_spect bf b = C14.Spec.mask_missing (C14.ProofsCollate.presented srt sq) /\
    Permutation.Permutation (C14.ProofsCollate.presented srt sq) sq.
Proof.
  intros Hne HwF HwW Hwf. destruct (spect_tie bf srt F W sq Hne HwF HwW) as [st' H].
  exists st', (spect_collate bf srt F W sq). split; [exact H|]. split.
  - apply C14.ProofsCollate.spect_collate_lossless. exact Hwf.
  - exact (proj1 (C14.ProofsCollate.presented_perm srt sq)).
Qed.
