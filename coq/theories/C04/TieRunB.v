(* C04, second tie, part 1: the MiniPy terms of PV.Gen.C04BSrc (regenerated from /repo on every run), interpreted with
   [SrcRunB.extB] (the callees `_to_width` / `update_log_probs_for_step` / `beam_search_advance` with SrcRun.ext04),
   ARE straight-line tensor programs over PV.MiniTorch.OpsC04 / OpsC04B - for EVERY tensor of the stated rank, every
   data, every language-model oracle: same results, RuntimeError at the same places, outside the modelled domain
   together.  Nothing here knows the model; part 2 (TieB.v) evaluates the tensor programs on the encoding of the
   model's search state.
     run_is_tw     BeamSearch._to_width (whole function)                      = tw_tensor
     run_is_ulp    BeamSearch.update_log_probs_for_step (whole function)      = its first two arguments
     mask_on_run / mask_off_run   the eos_mask / done_mask blocks of forward  = mask_on_tensor / mask_off_tensor
     rest_run      forward: `y_prev_ = ...` .. `prev_width = self.width`      = rest_tensor
     final_run     forward: epilogue                                          = final_tensor
     init_run      forward: prologue                                          = the initial variables
   Variables: the persistent ones form a concrete prefix of the variable list ([live]); everything else a block
   assigns lives in an ARBITRARY tail [rest] (so the lemmas chain over iterations whatever earlier ones left). *)
From Coq Require Import ZArith QArith List String Bool Arith Lia ZifyBool ZifyNat.
From PV Require Import MiniPy.Syntax MiniPy.Interp MiniPy.Lemmas MiniTorch.Ops MiniTorch.Value MiniTorch.Lemmas
  MiniTorch.OpsC04 MiniTorch.LemmasC04 MiniTorch.OpsC04B Gen.C04Src Gen.C04BSrc.
From PV Require Import C04.Model C04.SrcRun C04.TieRun C04.SrcRunB.
Import ListNotations.
Local Open Scope string_scope.

(* ---- results of tensor programs ------------------------------------------------------------------------------ *)
Inductive tres (A : Type) := TOk (a : A) | TRaise | TUndef.
Arguments TOk {A}. Arguments TRaise {A}. Arguments TUndef {A}.

Definition tb {A B} (o : option A) (k : A -> tres B) : tres B := match o with Some a => k a | None => TUndef end.
Definition tc {B} (c : cres) (k : vt -> tres B) : tres B :=
  match c with COk t => k t | CRaise => TRaise | CUndef => TUndef end.
Definition tr {B} (r : res) (k : vt -> vt -> vt -> vt -> tres B) : tres B :=
  match r with ROk y l p s => k y l p s | RRaise => TRaise | RUndef => TUndef end.
Definition tt {A B} (r : tres A) (k : A -> tres B) : tres B :=
  match r with TOk a => k a | TRaise => TRaise | TUndef => TUndef end.

Notation "'tdo' x <- o ; k" := (tb o (fun x => k)) (at level 200, x pattern, right associativity).
Notation "'tcat' x <- o ; k" := (tc o (fun x => k)) (at level 200, x name, right associativity).

(* a value-returning run and a tensor program agree *)
Definition simv {A} (P : val -> A -> Prop) (o : outcome val) (r : tres A) : Prop :=
  match o, r with
  | Ok v _, TOk a => P v a
  | Exc n _, TRaise => n = runtime_error
  | Stuck _, TUndef => True
  | _, _ => False
  end.

(* a block (falls through) and a tensor program agree *)
Definition simc {A} (P : state -> A -> Prop) (o : outcome ctl) (r : tres A) : Prop :=
  match o, r with
  | Ok CNormal st, TOk a => P st a
  | Exc n _, TRaise => n = runtime_error
  | Stuck _, TUndef => True
  | _, _ => False
  end.

Local Open Scope Z_scope.

(* ---- BeamSearch._to_width ---------------------------------------------------------------------------------- *)
Definition tw_tensor (w : Z) (y lpp lens : vt) : tres (vt * vt * vt) :=
  match vshape y with
  | [H; N; pw] =>
      if Z.of_nat pw <? w then
        tdo nf <- new_full lpp [Z.of_nat N; w - Z.of_nat pw] (VInf false);
        tcat lpp' <- cat lpp nf 1;
        tdo nz <- new_zeros y [Z.of_nat H; Z.of_nat N; w - Z.of_nat pw];
        tcat y' <- cat y nz 2;
        tdo nz2 <- new_zeros lens [Z.of_nat N; w - Z.of_nat pw];
        tcat lens' <- cat lens nz2 1;
        TOk (y', lpp', lens')
      else if w <? Z.of_nat pw then
        tdo (vals, src) <- topk lpp w 1;
        tdo u <- unsqueeze src 0;
        tdo e <- expand u [Z.of_nat H; Z.of_nat N; w];
        tdo y' <- gather y 2 e;
        tdo lens' <- gather lens 1 src;
        TOk (y', vals, lens')
      else TOk (y, lpp, lens)
  | _ => TUndef
  end.

Definition is3 (v : val) (a : vt * vt * vt) : Prop :=
  v = VTuple [encv (fst (fst a)); encv (snd (fst a)); encv (snd a)].

Local Close Scope Z_scope.

(* ---- values / statements (as in TieRun; the Arguments settings there are local to that file) ---------------- *)
Lemma cmp_gt_int : forall a b, cmp_eval Gt (VInt a) (VInt b) = Some (b <? a)%Z.
Proof.
  intros. cbn. unfold Qcompare. cbn. rewrite !Z.mul_1_r. unfold Z.ltb. rewrite (Z.compare_antisym a b).
  destruct (a ?= b)%Z; reflexivity.
Qed.
Lemma cmp_eq : forall a b, cmp_eval Eq a b = Some (val_eqb a b). Proof. reflexivity. Qed.
Lemma cmp_isnot_int : forall z, cmp_eval IsNot (VInt z) VNone = Some true. Proof. reflexivity. Qed.
Lemma cmp_is_int : forall z, cmp_eval Is (VInt z) VNone = Some false. Proof. reflexivity. Qed.

Lemma lookup_update_eq x v l : lookup x (update x v l) = Some v.
Proof.
  induction l as [|[y w] l IH]; cbn [update lookup]; [now rewrite String.eqb_refl|].
  destruct (String.eqb x y) eqn:E; cbn [lookup]; rewrite E; [reflexivity|exact IH].
Qed.
Lemma lookup_update_neq x y v l : String.eqb x y = false -> lookup x (update y v l) = lookup x l.
Proof.
  intros H. induction l as [|[z w] l IH]; cbn [update lookup]; [now rewrite H|].
  destruct (String.eqb y z) eqn:E; cbn [lookup].
  - apply String.eqb_eq in E. subst z. now rewrite H.
  - destruct (String.eqb x z); [reflexivity|exact IH].
Qed.


#[local] Arguments exec : simpl never.
#[local] Arguments ext04 : simpl never.
#[local] Arguments extB : simpl never.
#[local] Arguments encv : simpl never.
#[local] Arguments enc_shape : simpl never.
#[local] Arguments enc_states : simpl never.
#[local] Arguments enc_logits : simpl never.
#[local] Arguments self_val : simpl never.
#[local] Arguments torch_module : simpl never.
#[local] Arguments cmp_eval : simpl never.
#[local] Arguments foreign : simpl never.
#[local] Arguments extreme_of : simpl never.
#[local] Arguments val_eqb : simpl never.
#[local] Arguments method : simpl never.
#[local] Arguments call_fn : simpl never.
#[local] Arguments Z.of_nat !_.
#[local] Arguments Z.eqb !_ !_.
#[local] Arguments Z.ltb !_ !_.
#[local] Arguments Z.leb !_ !_.
#[local] Arguments Z.add !_ !_.
#[local] Arguments Z.sub !_ !_.
#[local] Arguments Z.mul !_ !_.
#[local] Arguments Z.min !_ !_.
#[local] Arguments Z.opp !_.
#[local] Arguments unsqueeze : simpl never.
#[local] Arguments flatten : simpl never.
#[local] Arguments add : simpl never.
#[local] Arguments add_scalar : simpl never.
#[local] Arguments topk : simpl never.
#[local] Arguments any : simpl never.
#[local] Arguments gather : simpl never.
#[local] Arguments expand : simpl never.
#[local] Arguments cat : simpl never.
#[local] Arguments new_full : simpl never.
#[local] Arguments new_zeros : simpl never.
#[local] Arguments full : simpl never.
#[local] Arguments all_int : simpl never.
#[local] Arguments size : simpl never.
#[local] Arguments dim : simpl never.
#[local] Arguments permute : simpl never.
#[local] Arguments squeeze : simpl never.
#[local] Arguments narrow_last : simpl never.
#[local] Arguments sub : simpl never.
#[local] Arguments sub_scalar : simpl never.
#[local] Arguments clamp : simpl never.
#[local] Arguments eq_scalar : simpl never.
#[local] Arguments gt_scalar : simpl never.
#[local] Arguments and_ : simpl never.
#[local] Arguments to_bool : simpl never.
#[local] Arguments to_int : simpl never.
#[local] Arguments masked_fill : simpl never.
#[local] Arguments where_ : simpl never.
#[local] Arguments all_rows : simpl never.
#[local] Arguments all : simpl never.
#[local] Arguments scalar : simpl never.
#[local] Arguments one_hot : simpl never.
#[local] Arguments arange3 : simpl never.
#[local] Arguments lg_reshape : simpl never.
#[local] Arguments lg_log_softmax : simpl never.
#[local] Arguments lm_calc : simpl never.
#[local] Arguments lm_extract : simpl never.
#[local] Arguments adv_tensor : simpl never.
#[local] Arguments ret_t _ !_ _ /.
#[local] Arguments ret_v _ !_ _ /.
#[local] Arguments ret_c _ !_ _ /.
#[local] Arguments ret_lg _ !_ _ /.

(* attributes of self *)
Section Self.
Variables (V width : nat) (eos : option Z) (fin_all : bool) (pad : Z).
Let self := self_val V width eos fin_all pad.
Variable ext : string -> list val -> list (string * val) -> state -> outcome val.
Lemma self_width st : attribute ext self "width" st = Ok (vnat width) st. Proof. reflexivity. Qed.
Lemma self_eos st : attribute ext self "eos" st = Ok (oz eos) st. Proof. reflexivity. Qed.
Lemma self_fin st : attribute ext self "finish_all_paths" st = Ok (VBool fin_all) st. Proof. reflexivity. Qed.
Lemma self_pad st : attribute ext self "pad_value" st = Ok (VInt pad) st. Proof. reflexivity. Qed.
Lemma self_lm_V st : bind (attribute ext self "lm" st) (fun ov st1 => attribute ext ov "vocab_size" st1) = Ok (vnat V) st.
Proof. reflexivity. Qed.
Lemma self_device st :
  bind (attribute ext self "device_buffer" st) (fun ov st1 => attribute ext ov "device" st1) = Ok device_token st.
Proof. reflexivity. Qed.
End Self.
Lemma torch_long ext st : attribute ext torch_module "long" st = Ok int_dtype_token st. Proof. reflexivity. Qed.
Lemma torch_bool ext st : attribute ext torch_module "bool" st = Ok bool_dtype_token st. Proof. reflexivity. Qed.

Lemma ext_new_zeros3 t a b c st :
  ext04 "$method.new_zeros" [encv t; VInt a; VInt b; VInt c] [] st = ret_t "new_zeros" (new_zeros t [a; b; c]) st.
Proof. intros; unfold ext04; cbn - [decv encv]; rewrite ?decv_encv; reflexivity. Qed.

Lemma val_eqb_int' : forall a b, val_eqb (VInt a) (VInt b) = (a =? b)%Z. Proof. reflexivity. Qed.

(* ---- symbolic run under ext04 (the callees) ------------------------------------------------------------------ *)
Ltac step04 :=
  match goal with
  | |- context [exec ext04 ?r ?st] => is_var r; subst r
  | |- context [exec ext04 (SAssign [TName _] _) _] => rewrite exec_assign1
  | |- context [exec ext04 (SIf ?c ?a ?b) ?st] =>
      rewrite (exec_if ext04 c a b st);
      let ra := fresh "thn" in let rb := fresh "els" in remember a as ra; remember b as rb
  | |- context [exec ext04 (SRaise _) _] => rewrite exec_raise
  | |- context [exec ext04 (SReturn _) _] => rewrite exec_return
  | |- context [exec ext04 SPass _] => rewrite exec_pass
  | |- context [exec ext04 (SSeq ?a ?b) ?st] =>
      rewrite (exec_seq ext04 a b st); let r := fresh "rest" in remember b as r
  end.

Ltac rw04 :=
  repeat match goal with
  | |- context [method (encv _) _ _] => rewrite method_encv
  | |- context [method (VBool _) _ _] => rewrite method_bool
  | |- context [attribute ext04 (encv _) _ _] => rewrite attribute_encv
  | |- context [attribute ext04 (self_val _ _ _ _ _) "width" _] => rewrite self_width
  | |- context [foreign (encv _)] => rewrite foreign_encv
  | |- context [foreign (VInt _)] => rewrite foreign_int
  | |- context [foreign VNone] => rewrite foreign_none
  | |- context [foreign (VTuple (enc_shape _))] => rewrite foreign_shape
  | |- context [foreign (VTuple (VInt _ :: _))] => rewrite foreign_cons_int
  | |- context [cmp_eval ?op ?a ?b] =>
      first [rewrite cmp_lt_int | rewrite cmp_gt_int | rewrite cmp_ge_int | rewrite cmp_ne | rewrite cmp_isnot_encv
            | rewrite cmp_isnot_none | rewrite cmp_is_encv | rewrite cmp_is_none]
  | |- context [binop_eval _ (encv _) _ _] => first [rewrite binop_add_tt | rewrite binop_add_ti | rewrite binop_mod_ti]
  | |- context [val_eqb ?a ?b] => first [rewrite val_eqb_int | rewrite val_eqb_shape2 | rewrite val_eqb_shape22]
  | |- context [ext04 "$method.new_zeros" [_; _; _; _] _ _] => rewrite ext_new_zeros3
  | |- context [ext04 ?f _ _ _] => ext_rw f
  | |- context [enc_shape [_; _; _]] => rewrite enc_shape3
  | |- context [Pos.to_nat 1] => rewrite p2n1
  | |- context [Pos.to_nat 2] => rewrite p2n2
  end.

Ltac rwh := repeat match goal with H : vshape _ = _ |- _ => rewrite H end.
Ltac go04 := repeat (progress (unfold set_var; cbn; unfold vnat, dim; rwh; rw04)).

Ltac dcondv := match goal with |- simv _ ?L ?R => match L with context [if ?c then _ else _] => match R with context [c] => destruct c eqn:? end end end.
Ltac doptv := match goal with |- simv _ ?L ?R => match L with
   | context [ret_v _ (option_map _ ?o) _] => destruct o eqn:?
   | context [ret_t _ ?o _] => destruct o eqn:?
   | context [ret_v _ ?o _] => destruct o eqn:?
   | context [ret_c _ ?o _] => destruct o eqn:?
   | context [topk ?a ?b ?c] => destruct (topk a b c) as [[? ?]|] eqn:?
   end end.
Ltac auto04 := first [ step04; go04 | dcondv; go04 | doptv; go04 ];
  try lazymatch goal with |- True => exact I | |- @eq string _ _ => reflexivity | |- @eq val _ _ => reflexivity
                        | |- is3 _ _ => reflexivity end.

Theorem run_is_tw : forall V width eos fin_all pad y lpp lens S N pw,
  vshape y = [S; N; pw] ->
  simv is3 (Interp.run ext04 tw_body
              [("self", self_val V width eos fin_all pad); ("y_prev", encv y); ("log_probs_prev", encv lpp);
               ("y_prev_lens", encv lens)])
           (tw_tensor (Z.of_nat width) y lpp lens).
Proof.
  intros V width eos fin_all pad y lpp lens S N pw Hy.
  unfold Interp.run, tw_body, tw_tensor. rewrite Hy.
  repeat auto04.
Qed.

(* ---- the call of a translated function ------------------------------------------------------------------------ *)
Lemma call_tw : forall V width eos fin_all pad y lpp lens a b c st, vshape y = [a; b; c] ->
  match tw_tensor (Z.of_nat width) y lpp lens with
  | TOk r => call_fn ext04 tw_body tw_body_params [self_val V width eos fin_all pad; encv y; encv lpp; encv lens] st
             = Ok (VTuple [encv (fst (fst r)); encv (snd (fst r)); encv (snd r)]) st
  | TRaise => call_fn ext04 tw_body tw_body_params [self_val V width eos fin_all pad; encv y; encv lpp; encv lens] st
              = Exc runtime_error st
  | TUndef => exists m, call_fn ext04 tw_body tw_body_params [self_val V width eos fin_all pad; encv y; encv lpp; encv lens] st
                        = Stuck m
  end.
Proof.
  intros V width eos fin_all pad y lpp lens a b c st Hy.
  pose proof (run_is_tw V width eos fin_all pad y lpp lens a b c Hy) as Hs.
  unfold call_fn. cbn [tw_body_params List.length Nat.eqb combine].
  destruct (tw_tensor (Z.of_nat width) y lpp lens) as [r| |];
    destruct (Interp.run ext04 tw_body _) as [v s1|n s1|m]; cbn [simv] in Hs; try contradiction.
  - unfold is3 in Hs. now rewrite Hs.
  - now rewrite Hs.
  - now exists m.
Qed.

Lemma call_adv : forall lpt w lpp y lens N Kp V a b c st, vshape lpt = [N; Kp; V] -> vshape y = [a; b; c] ->
  match adv_tensor lpt w lpp y (Some lens) with
  | ROk yn l p s => call_fn ext04 bsa_body bsa_body_params [encv lpt; VInt w; encv lpp; encv y; encv lens] st
                    = Ok (VTuple [encv yn; encv l; encv p; encv s]) st
  | RRaise => call_fn ext04 bsa_body bsa_body_params [encv lpt; VInt w; encv lpp; encv y; encv lens] st = Exc runtime_error st
  | RUndef => exists m, call_fn ext04 bsa_body bsa_body_params [encv lpt; VInt w; encv lpp; encv y; encv lens] st = Stuck m
  end.
Proof.
  intros lpt w lpp y lens N Kp V a b c st Hl Hy.
  pose proof (run_is_adv lpt w lpp y (Some lens) N Kp V a b c Hl Hy) as Hs.
  unfold call_fn. cbn [bsa_body_params List.length Nat.eqb combine]. unfold vars0 in Hs.
  destruct (adv_tensor lpt w lpp y (Some lens)) as [yn l p s| |];
    destruct (Interp.run ext04 bsa_body _) as [v s1|n s1|m]; cbn [sim] in Hs; try contradiction.
  - now rewrite Hs.
  - now rewrite Hs.
  - now exists m.
Qed.

Lemma call_ulp : forall self a b c d e st,
  call_fn ext04 ulp_body ulp_body_params [self; a; b; c; d; e] st = Ok (VTuple [a; b]) st.
Proof. reflexivity. Qed.

(* BeamSearch.update_log_probs_for_step (whole function): returns its first two tensor arguments *)
Theorem run_is_ulp : forall self a b c d e,
  Interp.run ext04 ulp_body (combine ulp_body_params [self; a; b; c; d; e])
  = Ok (VTuple [a; b]) (mkState (combine ulp_body_params [self; a; b; c; d; e]) []).
Proof. reflexivity. Qed.

(* ---- shapes of results ------------------------------------------------------------------------------------------ *)
Lemma tmap_opt_shape h x r : tmap_opt h x = Some r -> vshape r = vshape x.
Proof. unfold tmap_opt. destruct (map_opt h (vdata x)); [|discriminate]. now intros [= <-]. Qed.
Lemma clamp_shape x lo hi r : clamp x lo hi = Some r -> vshape r = vshape x.
Proof. apply tmap_opt_shape. Qed.
Lemma shape_eqb_eq a : forall b, shape_eqb a b = true -> a = b.
Proof.
  induction a as [|x a IH]; intros [|y b] H; cbn in H; try discriminate; [reflexivity|].
  apply andb_prop in H. destruct H as [H1 H2]. apply Nat.eqb_eq in H1. subst y. f_equal. now apply IH.
Qed.
Lemma masked_fill_shape x m v r : masked_fill x m v = Some r -> vshape r = vshape x.
Proof.
  unfold masked_fill. destruct (is_float v && all_float x)%bool; [|discriminate].
  destruct (zip3 _ x m) as [r'|]; [|discriminate]. destruct (shape_eqb (vshape r') (vshape x)) eqn:E; [|discriminate].
  intros [= <-]. now apply shape_eqb_eq.
Qed.
Lemma lg_reshape_shape x a b c r : lg_reshape x [Z.of_nat a; Z.of_nat b; Z.of_nat c] = Some r -> vshape r = [a; b; c].
Proof.
  unfold lg_reshape. cbn [map]. rewrite !nat_of_int.
  destruct ((prodn (vshape x) =? a * b * c)%nat && (last (vshape x) 0%nat =? c)%nat)%bool; [|discriminate]. now intros [= <-].
Qed.
Lemma lg_log_softmax_id x d r : lg_log_softmax x d = Some r -> r = x.
Proof.
  unfold lg_log_softmax. destruct (wrap_dim (OpsC04.dim x) d) as [k|]; [|discriminate].
  destruct (S k =? OpsC04.dim x)%nat; [|discriminate]. now intros [= <-].
Qed.

(* ---- what each call of the blocks reaches in extB ------------------------------------------------------------- *)
Lemma dec_states_enc l : dec_states (enc_states l) = Some l.
Proof.
  unfold dec_states, enc_states. rewrite String.eqb_refl.
  induction l as [|z l IH]; [reflexivity|]. cbn [map map_opt z_of]. now rewrite IH.
Qed.
Lemma dec_logits_enc t : dec_logits (enc_logits t) = Some t.
Proof.
  destruct t as [sh d]. unfold dec_logits, enc_logits, enc_shape. cbn [vshape vdata].
  rewrite String.eqb_refl. rewrite dec_nats_enc. reflexivity.
Qed.
Lemma decv_states l : decv (enc_states l) = None. Proof. reflexivity. Qed.
Lemma decv_logits t : decv (enc_logits t) = None. Proof. reflexivity. Qed.
Lemma val_eqb_encv_bool t : val_eqb (encv t) bool_dtype_token = false. Proof. reflexivity. Qed.

Section ExtB.
Variable calc : list Z -> Z -> nat -> list score * Z.
Notation ext := (extB calc).

Ltac xt := intros; unfold extB; cbn - [decv encv ext04 dec_states dec_logits enc_states enc_logits call_fn];
  rewrite ?decv_encv, ?decv_int, ?dec_states_enc, ?dec_logits_enc; try reflexivity.

(* fall-through to ext04 *)
Lemma xb_unsqueeze t d st : ext "$method.unsqueeze" [encv t; VInt d] [] st = ret_t "unsqueeze" (unsqueeze t d) st.
Proof. xt. apply ext_unsqueeze. Qed.
Lemma xb_gather t d i st : ext "$method.gather" [encv t; VInt d; encv i] [] st = ret_t "gather" (gather t d i) st.
Proof. xt. apply ext_gather. Qed.
Lemma xb_flatten1 t d st : ext "$method.flatten" [encv t; VInt d] [] st = ret_t "flatten" (flatten t d) st.
Proof. xt. apply ext_flatten. Qed.
Lemma xb_size t d st : ext "$method.size" [encv t; VInt d] [] st = ret_v "size" (option_map vnat (size t d)) st.
Proof. xt. apply ext_size. Qed.
Lemma xb_cat t u d st : ext "torch.cat" [VList [encv t; encv u]; VInt d] [] st = ret_c "cat" (cat t u d) st.
Proof. xt. apply ext_cat. Qed.
Lemma xb_add t u st : ext "operator" [VStr "add"; encv t; encv u] [] st = ret_t "add" (add t u) st.
Proof. xt. apply ext_add. Qed.
Lemma xb_any t st : ext "$method.any" [encv t] [] st = ret_v "any" (option_map VBool (any t)) st.
Proof. xt. apply ext_any. Qed.
Lemma xb_device t st : ext "$attr.device" [encv t] [] st = Ok device_token st.
Proof. xt. apply ext_device. Qed.
Lemma xb_float_inf st : ext "float" [VStr "inf"] [] st = Ok (VInf true) st. Proof. reflexivity. Qed.
(* new *)
Lemma xb_float_int z st : ext "float" [VInt z] [] st = Ok (VQ (inject_Z z)) st. Proof. reflexivity. Qed.
Lemma xb_log1 st : ext "math.log" [VInt 1] [] st = Ok (VQ 0) st. Proof. reflexivity. Qed.
Lemma xb_permute t a b c st : ext "$method.permute" [encv t; VInt a; VInt b; VInt c] [] st = ret_t "permute" (permute t [a; b; c]) st.
Proof. xt. Qed.
Lemma xb_squeeze t d st : ext "$method.squeeze" [encv t; VInt d] [] st = ret_t "squeeze" (squeeze t d) st.
Proof. xt. Qed.
Lemma xb_sub_int t c st : ext "operator" [VStr "sub"; encv t; VInt c] [] st = ret_t "sub scalar" (sub_scalar t (VInt c)) st.
Proof. xt. Qed.
Lemma xb_sub t u st : ext "operator" [VStr "sub"; encv t; encv u] [] st = ret_t "sub" (sub t u) st.
Proof. xt. Qed.
Lemma xb_and t u st : ext "operator" [VStr "and"; encv t; encv u] [] st = ret_t "and" (and_ t u) st.
Proof. xt. Qed.
Lemma xb_eq t c st : ext "compare" [VStr "eq"; encv t; VInt c] [] st = ret_t "eq" (eq_scalar t c) st.
Proof. xt. Qed.
Lemma xb_gt t c st : ext "compare" [VStr "gt"; encv t; VInt c] [] st = ret_t "gt" (gt_scalar t c) st.
Proof. xt. Qed.
Lemma xb_clamp_min t lo st : ext "$method.clamp" [encv t] [("min", VInt lo)] st = ret_t "clamp" (clamp t (Some lo) None) st.
Proof. xt. Qed.
Lemma xb_clamp t lo hi st : ext "$method.clamp" [encv t; VInt lo; VInt hi] [] st = ret_t "clamp" (clamp t (Some lo) (Some hi)) st.
Proof. xt. Qed.
Lemma xb_all_rows t st :
  ext "$method.all" [encv t; VInt 1] [("keepdim", VBool true)] st = ret_t "all(1, keepdim=True)" (all_rows t) st.
Proof. xt. Qed.
Lemma xb_all t st : ext "$method.all" [encv t] [] st = ret_v "all" (option_map VBool (all t)) st.
Proof. xt. Qed.
Lemma xb_narrow t k st : (0 <=? k)%Z = true ->
  ext "$getitem" [encv t; VTuple [VTuple [VStr "$ellipsis"]; VTuple [VStr "$slice"; VNone; VInt k; VNone]]] [] st
  = ret_t "x[..., :k]" (narrow_last t (Z.to_nat k)) st.
Proof. intros H. xt. now rewrite H. Qed.
Lemma xb_masked_fill t m v st : ext "$method.masked_fill" [encv t; encv m; v] [] st = ret_t "masked_fill" (masked_fill t m v) st.
Proof. xt. Qed.
Lemma xb_to_bool t st : ext "$method.to" [encv t; bool_dtype_token] [] st = ret_t "to(bool)" (to_bool t) st.
Proof. xt. Qed.
Lemma xb_to_int t y st : ext "$method.to" [encv t; encv y] [] st =
  if all_int y then ret_t "to(int tensor)" (to_int t) st else Stuck "to: other is not an integer tensor".
Proof. xt. Qed.
Lemma xb_flatten0 t st : ext "$method.flatten" [encv t] [] st = ret_t "flatten" (flatten t 0) st.
Proof. xt. Qed.
Lemma xb_one_hot t nc st : ext "torch.nn.functional.one_hot" [encv t; VInt nc] [] st = ret_t "one_hot" (one_hot t nc) st.
Proof. xt. Qed.
Lemma xb_where c a b st : ext "torch.where" [encv c; encv a; encv b] [] st = ret_t "where" (where_ c a b) st.
Proof. xt. Qed.
Lemma xb_tensor_int z st : ext "torch.tensor" [VInt z] [("device", device_token)] st = Ok (encv (scalar (VInt z))) st.
Proof. reflexivity. Qed.
Lemma xb_tensor_q q st : ext "torch.tensor" [VQ q] [("dtype", int_dtype_token); ("device", device_token)] st =
  if (Zpos (Qden q) =? 1)%Z then Ok (encv (scalar (VInt (Qnum q)))) st else Stuck "tensor: float data".
Proof. reflexivity. Qed.
Lemma xb_arange s e d st : ext "torch.arange" [VInt s; VInt e; VInt d] [("device", device_token)] st = ret_t "arange" (arange3 s e d) st.
Proof. reflexivity. Qed.
Lemma xb_full_bool a b z st : ext "torch.full" [VTuple [VInt a; VInt b]; VInt z] [("device", device_token); ("dtype", bool_dtype_token)] st
  = ret_t "full" (full [a; b] (VBool (negb (z =? 0)%Z))) st.
Proof. reflexivity. Qed.
Lemma xb_full_int a b c z st : ext "torch.full" [VTuple [VInt a; VInt b; VInt c]; VInt z] [("device", device_token); ("dtype", int_dtype_token)] st
  = ret_t "full" (full [a; b; c] (VInt z)) st.
Proof. reflexivity. Qed.
Lemma xb_full_q a b q st : ext "torch.full" [VTuple [VInt a; VInt b]; VQ q] [("device", device_token)] st
  = ret_t "full" (full [a; b] (VQ q)) st.
Proof. reflexivity. Qed.
Lemma xb_zeros a b st : ext "torch.zeros" [VTuple [VInt a; VInt b]] [("dtype", int_dtype_token); ("device", device_token)] st
  = ret_t "zeros" (full [a; b] (VInt 0)) st.
Proof. reflexivity. Qed.
Lemma xb_empty a b st : ext "torch.empty" [VTuple [VInt a; VInt b]] [("dtype", int_dtype_token); ("device", device_token)] st
  = ret_t "empty" (full [a; b] (VInt 0)) st.
Proof. reflexivity. Qed.
Lemma xb_truth z st : ext "$truth" [encv (scalar (VInt z))] [] st = Ok (VBool (negb (z =? 0)%Z)) st.
Proof. xt. Qed.
(* the language model *)
Lemma xb_calc h p t st : ext "self.lm.calc_idx_log_probs" [encv h; enc_states p; encv t] [] st =
  match lm_calc calc h p t with
  | Some (lg, nxt) => Ok (VTuple [enc_logits lg; enc_states nxt]) st
  | None => Stuck "MiniTorch(C04B): outside the modelled domain: calc_idx_log_probs"
  end.
Proof. xt. Qed.
Lemma xb_extract p i st : ext "self.lm.extract_by_src" [enc_states p; encv i] [] st =
  match lm_extract p i with
  | Some l => Ok (enc_states l) st
  | None => Stuck "MiniTorch(C04B): outside the modelled domain: extract_by_src"
  end.
Proof. xt. Qed.
Lemma xb_update_input p y st : ext "self.lm.update_input" [enc_states p; encv y] [] st =
  if shape_eqb (vshape y) [0%nat; List.length p] then Ok (enc_states p) st else Stuck "update_input: batch size".
Proof. xt. Qed.
Lemma xb_reshape t a b c st : ext "$method.reshape" [enc_logits t; VInt a; VInt b; VInt c] [] st = ret_lg "reshape" (lg_reshape t [a; b; c]) st.
Proof. xt. Qed.
Lemma xb_log_softmax t d st : ext "$method.log_softmax" [enc_logits t; VInt d] [] st = ret_t "log_softmax" (lg_log_softmax t d) st.
Proof. xt. Qed.
(* translated callees *)
Lemma xb_adv args st : ext "beam_search_advance" args [] st = call_fn ext04 bsa_body bsa_body_params args st.
Proof. reflexivity. Qed.
Lemma xb_ulp self args vars ev : lookup "self" vars = Some self ->
  ext "self.update_log_probs_for_step" args [] (mkState vars ev) = call_fn ext04 ulp_body ulp_body_params (self :: args) (mkState vars ev).
Proof. intros H. unfold extB. cbn - [call_fn]. now rewrite H. Qed.
Lemma xb_tw self args vars ev : lookup "self" vars = Some self ->
  ext "self._to_width" args [] (mkState vars ev) = call_fn ext04 tw_body tw_body_params (self :: args) (mkState vars ev).
Proof. intros H. unfold extB. cbn - [call_fn]. now rewrite H. Qed.

End ExtB.

(* ---- the persistent variables of forward() ------------------------------------------------------------------ *)
Definition live (isv bsv miv is0 : val) (V width : nat) (eos : option Z) (fin_all : bool) (pad : Z) (N pw : nat)
  (y : vt) (prev : list Z) (lpp lens pady : vt) (rest : list (string * val)) : list (string * val) :=
  ("torch", torch_module) :: ("self", self_val V width eos fin_all pad) :: ("initial_state_", isv) :: ("batch_size", bsv)
  :: ("max_iters", miv) :: ("initial_state", is0) :: ("device", device_token) :: ("N", vnat N) :: ("prev_width", vnat pw)
  :: ("y_prev", encv y) :: ("prev", enc_states prev) :: ("log_probs_prev", encv lpp) :: ("y_prev_lens", encv lens)
  :: ("pad_y", encv pady) :: rest.

Definition lm_val (V : nat) : val := VDict [(VStr "vocab_size", vnat V)].
Definition devbuf_val : val := VDict [(VStr "device", device_token)].
#[local] Arguments lm_val : simpl never.
#[local] Arguments devbuf_val : simpl never.
#[local] Arguments attribute : simpl never.
Lemma self_lm V width eos fin_all pad ext st : attribute ext (self_val V width eos fin_all pad) "lm" st = Ok (lm_val V) st.
Proof. reflexivity. Qed.
Lemma lm_vocab V ext st : attribute ext (lm_val V) "vocab_size" st = Ok (vnat V) st. Proof. reflexivity. Qed.
Lemma self_devbuf V width eos fin_all pad ext st : attribute ext (self_val V width eos fin_all pad) "device_buffer" st = Ok devbuf_val st.
Proof. reflexivity. Qed.
Lemma devbuf_device ext st : attribute ext devbuf_val "device" st = Ok device_token st. Proof. reflexivity. Qed.
Lemma attribute_encv' ext t a st : attribute ext (encv t) a st = ext ("$attr." ++ a) [encv t] [] st.
Proof. reflexivity. Qed.

Lemma binop_sub_ti : forall t c st, binop_eval Sub (encv t) (VInt c) st = Stuck "sub". Proof. reflexivity. Qed.
Lemma binop_sub_tt : forall t u st, binop_eval Sub (encv t) (encv u) st = Stuck "sub". Proof. reflexivity. Qed.
Lemma binop_and_tt : forall t u st, binop_eval BitAnd (encv t) (encv u) st = Stuck "and". Proof. reflexivity. Qed.
Lemma method_states : forall l m args, method (enc_states l) m args = None. Proof. reflexivity. Qed.
Lemma method_logits : forall t m args, method (enc_logits t) m args = None. Proof. reflexivity. Qed.
Lemma foreign_states : forall l, foreign (enc_states l) = true. Proof. reflexivity. Qed.
Lemma foreign_bool : forall b, foreign (VBool b) = false. Proof. reflexivity. Qed.
Lemma foreign_vq : forall q, foreign (VQ q) = false. Proof. reflexivity. Qed.
Lemma foreign_item_pair : forall a b k, foreign_item (VTuple [a; b]) k = false. Proof. intros a b [ ]; reflexivity. Qed.
Lemma foreign_item_encv3 : forall a b c k, foreign_item (VTuple [encv a; encv b; encv c]) k = false. Proof. intros a b c [ ]; reflexivity. Qed.
Lemma foreign_item_encv4 : forall a b c d k, foreign_item (VTuple [encv a; encv b; encv c; encv d]) k = false.
Proof. intros a b c d [ ]; reflexivity. Qed.
#[local] Arguments foreign_item : simpl never.
Lemma p2n3 : Pos.to_nat 3 = 3%nat. Proof. reflexivity. Qed.
Lemma subscript_encv_tuple : forall t l st, subscript (encv t) (VTuple l) st = Stuck "subscript". Proof. reflexivity. Qed.

Ltac stepB :=
  match goal with
  | |- context [exec (extB _) ?r ?st] => is_var r; subst r
  | |- context [exec (extB ?c) (SAssign [TName _] _) _] => rewrite exec_assign1
  | |- context [exec (extB ?c) (SIf ?cnd ?a ?b) ?st] =>
      rewrite (exec_if (extB c) cnd a b st);
      let ra := fresh "thn" in let rb := fresh "els" in remember a as ra; remember b as rb
  | |- context [exec (extB _) (SRaise _) _] => rewrite exec_raise
  | |- context [exec (extB _) (SReturn _) _] => rewrite exec_return
  | |- context [exec (extB _) SPass _] => rewrite exec_pass
  | |- context [exec (extB ?c) (SSeq ?a ?b) ?st] =>
      rewrite (exec_seq (extB c) a b st); let r := fresh "rest" in remember b as r
  end.

Ltac xb_rw f :=
  lazymatch f with
  | "$method.unsqueeze" => rewrite xb_unsqueeze
  | "$method.gather" => rewrite xb_gather
  | "$method.size" => rewrite xb_size
  | "torch.cat" => rewrite xb_cat
  | "$method.any" => rewrite xb_any
  | "$attr.device" => rewrite xb_device
  | "$method.permute" => rewrite xb_permute
  | "$method.squeeze" => rewrite xb_squeeze
  | "operator" => first [rewrite xb_sub_int | rewrite xb_sub | rewrite xb_and | rewrite xb_add]
  | "compare" => first [rewrite xb_eq | rewrite xb_gt]
  | "$method.clamp" => first [rewrite xb_clamp_min | rewrite xb_clamp]
  | "$method.all" => first [rewrite xb_all_rows | rewrite xb_all]
  | "$getitem" => rewrite xb_narrow by reflexivity
  | "$method.masked_fill" => rewrite xb_masked_fill
  | "$method.to" => first [rewrite xb_to_bool | rewrite xb_to_int]
  | "$method.flatten" => first [rewrite xb_flatten1 | rewrite xb_flatten0]
  | "float" => first [rewrite xb_float_inf | rewrite xb_float_int]
  | "math.log" => rewrite xb_log1
  | "torch.tensor" => first [rewrite xb_tensor_int | rewrite xb_tensor_q]
  | "torch.nn.functional.one_hot" => rewrite xb_one_hot
  | "torch.where" => rewrite xb_where
  | "torch.arange" => rewrite xb_arange
  | "torch.full" => first [rewrite xb_full_bool | rewrite xb_full_int | rewrite xb_full_q]
  | "torch.zeros" => rewrite xb_zeros
  | "torch.empty" => rewrite xb_empty
  | "$truth" => rewrite xb_truth
  | "self.lm.calc_idx_log_probs" => rewrite xb_calc
  | "self.lm.extract_by_src" => rewrite xb_extract
  | "self.lm.update_input" => rewrite xb_update_input
  | "$method.reshape" => rewrite xb_reshape
  | "$method.log_softmax" => rewrite xb_log_softmax
  | "beam_search_advance" => rewrite xb_adv
  | "self.update_log_probs_for_step" => erewrite xb_ulp by reflexivity; rewrite call_ulp
  | "self._to_width" => erewrite xb_tw by reflexivity
  end.

Ltac rwB :=
  repeat match goal with
  | |- context [lookup ?x (update ?x ?v ?l)] => rewrite (lookup_update_eq x v l)
  | |- context [lookup ?x (update ?y ?v ?l)] => rewrite (lookup_update_neq x y v l) by reflexivity
  | H : lookup ?x ?l = Some _ |- context [lookup ?x ?l] => rewrite H
  | H : ?x = Some _ |- context [oz ?x] => rewrite (f_equal oz H)
  | H : ?x = None |- context [oz ?x] => rewrite (f_equal oz H)
  | |- context [method (encv _) _ _] => rewrite method_encv
  | |- context [method (VBool _) _ _] => rewrite method_bool
  | |- context [method (enc_states _) _ _] => rewrite method_states
  | |- context [method (enc_logits _) _ _] => rewrite method_logits
  | |- context [attribute _ (encv _) _ _] => rewrite attribute_encv'
  | |- context [attribute _ (self_val _ _ _ _ _) "width" _] => rewrite self_width
  | |- context [attribute _ (self_val _ _ _ _ _) "eos" _] => rewrite self_eos
  | |- context [attribute _ (self_val _ _ _ _ _) "finish_all_paths" _] => rewrite self_fin
  | |- context [attribute _ (self_val _ _ _ _ _) "pad_value" _] => rewrite self_pad
  | |- context [attribute _ (self_val _ _ _ _ _) "lm" _] => rewrite self_lm
  | |- context [attribute _ (self_val _ _ _ _ _) "device_buffer" _] => rewrite self_devbuf
  | |- context [attribute _ (lm_val _) "vocab_size" _] => rewrite lm_vocab
  | |- context [attribute _ devbuf_val "device" _] => rewrite devbuf_device
  | |- context [attribute _ torch_module "long" _] => rewrite torch_long
  | |- context [attribute _ torch_module "bool" _] => rewrite torch_bool
  | |- context [foreign (encv _)] => rewrite foreign_encv
  | |- context [foreign (VInt _)] => rewrite foreign_int
  | |- context [foreign VNone] => rewrite foreign_none
  | |- context [foreign (VBool _)] => rewrite foreign_bool
  | |- context [foreign (VQ _)] => rewrite foreign_vq
  | |- context [foreign (enc_states _)] => rewrite foreign_states
  | |- context [subscript (encv _) (VTuple _) _] => rewrite subscript_encv_tuple
  | |- context [foreign_item (VTuple [_; _]) _] => rewrite foreign_item_pair
  | |- context [foreign_item (VTuple [encv _; encv _; encv _]) _] => rewrite foreign_item_encv3
  | |- context [foreign_item (VTuple [encv _; encv _; encv _; encv _]) _] => rewrite foreign_item_encv4
  | |- context [cmp_eval ?op ?a ?b] =>
      first [rewrite cmp_lt_int | rewrite cmp_gt_int | rewrite cmp_ge_int | rewrite cmp_eq | rewrite cmp_ne
            | rewrite cmp_isnot_encv | rewrite cmp_isnot_none | rewrite cmp_isnot_int | rewrite cmp_is_encv
            | rewrite cmp_is_none | rewrite cmp_is_int]
  | |- context [binop_eval _ (encv _) _ _] =>
      first [rewrite binop_add_tt | rewrite binop_add_ti | rewrite binop_sub_ti | rewrite binop_sub_tt | rewrite binop_and_tt]
  | |- context [val_eqb (VInt _) (VInt _)] => rewrite val_eqb_int
  | |- context [extB _ ?f _ _ _] => xb_rw f
  | |- context [Pos.to_nat 1] => rewrite p2n1
  | |- context [Pos.to_nat 2] => rewrite p2n2
  | |- context [Pos.to_nat 3] => rewrite p2n3
  end.

Ltac goB := repeat (progress (unfold set_var; cbn; unfold vnat; rwh; rwB)).

Ltac dcondc := match goal with |- simc _ ?L ?R => match L with context [if ?c then _ else _] => match R with context [c] => destruct c eqn:? end end end.
Ltac doptc := match goal with |- simc _ ?L ?R => match L with
   | context [ret_v _ (option_map _ ?o) _] => destruct o eqn:?
   | context [ret_t _ ?o _] => first [ match goal with H : o = _ |- _ => rewrite H end | destruct o eqn:? ]
   | context [ret_v _ ?o _] => destruct o eqn:?
   | context [ret_c _ ?o _] => destruct o eqn:?
   | context [ret_lg _ ?o _] => destruct o eqn:?
   | context [lm_calc ?c ?a ?b ?d] => destruct (lm_calc c a b d) as [[? ?]|] eqn:?
   | context [lm_extract ?a ?b] => destruct (lm_extract a b) eqn:?
   end end.
Ltac finB := try lazymatch goal with
  | |- True => exact I
  | |- @eq string _ _ => reflexivity
  | |- exists _, @eq state _ _ => eexists; reflexivity
  end.
Ltac autoB := first [ stepB; goB | dcondc; goB | doptc; goB ]; finB.


Ltac shapes := repeat match goal with
  | H : clamp ?x _ _ = Some ?r, Hx : vshape ?x = ?s |- _ =>
      lazymatch goal with _ : vshape r = _ |- _ => fail | _ => assert (vshape r = s) by (rewrite (clamp_shape _ _ _ _ H); exact Hx) end
  | H : masked_fill ?x _ _ = Some ?r, Hx : vshape ?x = ?s |- _ =>
      lazymatch goal with _ : vshape r = _ |- _ => fail | _ => assert (vshape r = s) by (rewrite (masked_fill_shape _ _ _ _ H); exact Hx) end
  | H : lg_reshape _ [Z.of_nat ?a; Z.of_nat ?b; Z.of_nat ?c] = Some ?r |- _ =>
      lazymatch goal with _ : vshape r = _ |- _ => fail | _ => assert (vshape r = [a; b; c]) by exact (lg_reshape_shape _ _ _ _ _ H) end
  | H : lg_log_softmax ?x _ = Some ?r |- _ => apply lg_log_softmax_id in H; subst r
  end.

Ltac dcall := match goal with |- simc _ ?L ?R => match L with
   | context [call_fn ext04 bsa_body bsa_body_params [encv ?lpt; VInt ?w; encv ?lpp; encv ?y; encv ?lens] ?st] =>
       let H := fresh "Hcall" in
       pose proof (call_adv lpt w lpp y lens _ _ _ _ _ _ st ltac:(eassumption) ltac:(eassumption)) as H;
       destruct (adv_tensor lpt w lpp y (Some lens)) as [? ? ? ?| |]; [rewrite H|rewrite H|destruct H as [? H]; rewrite H]; clear H
   | context [call_fn ext04 tw_body tw_body_params [self_val ?a ?b ?c ?d ?e; encv ?y; encv ?lpp; encv ?lens] ?st] =>
       let H := fresh "Hcall" in
       pose proof (call_tw a b c d e y lpp lens _ _ _ st ltac:(eassumption)) as H;
       destruct (tw_tensor (Z.of_nat b) y lpp lens) as [[[? ?] ?]| |]; [rewrite H|rewrite H|destruct H as [? H]; rewrite H]; clear H
   end end.

Ltac autoR := first [ stepB; goB | dcondc; goB | doptc; shapes; goB | dcall; goB ]; finB.


Section Blocks.
Variable calc : list Z -> Z -> nat -> list score * Z.
Variables (isv bsv miv is0 : val) (V width : nat) (eos : option Z) (fin_all : bool) (pad : Z) (N : nat).
Variable ev : list event.
Notation ext := (extB calc).
Notation lv := (live isv bsv miv is0 V width eos fin_all pad N).

(* ---- eos_mask / done_mask ------------------------------------------------------------------------------------ *)
Definition mask_on_tensor (e : Z) (y lens : vt) : tres (vt * vt) :=
  tdo p <- permute y [1; 2; 0]%Z;
  tdo l1 <- sub_scalar lens (VInt 1);
  tdo l2 <- clamp l1 (Some 0%Z) None;
  tdo l3 <- unsqueeze l2 2;
  tdo g <- gather p 2 l3;
  tdo sq <- squeeze g 2;
  tdo eqm <- eq_scalar sq e;
  tdo gtm <- gt_scalar lens 0;
  tdo m <- and_ eqm gtm;
  tdo d <- (if fin_all then all_rows m else narrow_last m 1);
  TOk (m, d).

Definition mask_off_tensor (pw : nat) : tres (vt * vt) :=
  tdo m <- full [Z.of_nat N; Z.of_nat pw] (VBool false);
  tdo d <- narrow_last m 1;
  TOk (m, d).

(* the block leaves the persistent variables as they are and binds eos_mask / done_mask *)
Definition masks_post (pw : nat) (y : vt) (prev : list Z) (lpp lens pady : vt) (tv : val) (st : state) (md : vt * vt) : Prop :=
  exists rest', st = mkState (lv pw y prev lpp lens pady rest') ev /\
    lookup "eos_mask" rest' = Some (encv (fst md)) /\ lookup "done_mask" rest' = Some (encv (snd md)) /\
    lookup "t" rest' = Some tv.

Ltac post := unfold masks_post, live; eexists; split; [reflexivity|]; cbn [fst snd]; repeat split;
  repeat first [ reflexivity | rewrite lookup_update_eq | rewrite lookup_update_neq by reflexivity | eassumption ].

Lemma mask_off_run : forall pw y prev lpp lens pady rest tv, lookup "t" rest = Some tv ->
  simc (masks_post pw y prev lpp lens pady tv)
       (exec ext fw_mask_off (mkState (lv pw y prev lpp lens pady rest) ev)) (mask_off_tensor pw).
Proof.
  intros pw y prev lpp lens pady rest tv Ht. unfold fw_mask_off, mask_off_tensor, live.
  repeat autoB. post.
Qed.

Lemma mask_on_run : forall e pw y prev lpp lens pady rest tv, eos = Some e -> lookup "t" rest = Some tv ->
  simc (masks_post pw y prev lpp lens pady tv)
       (exec ext fw_mask_on (mkState (lv pw y prev lpp lens pady rest) ev)) (mask_on_tensor e y lens).
Proof.
  intros e pw y prev lpp lens pady rest tv He Ht. unfold fw_mask_on, mask_on_tensor, masks_post, live.
  repeat autoB; post.
Qed.


(* ---- the rest of the loop body -------------------------------------------------------------------------------- *)
Local Open Scope Z_scope.

(* `if self.eos is not None: log_probs_t = ... masked_fill ...`: finished paths put all mass on eos *)
Definition realloc_tensor (mask lpt : vt) : tres vt :=
  match eos with
  | Some e =>
      tdo mu <- unsqueeze mask 2;
      tdo l1 <- masked_fill lpt mu (VInf false);
      tdo mu2 <- unsqueeze mask 2;
      tdo oh <- one_hot (scalar (VInt e)) (Z.of_nat V);
      tdo ohb <- to_bool oh;
      tdo m_ <- and_ mu2 ohb;
      tdo l2 <- masked_fill l1 m_ (VQ 0);
      TOk l2
  | None => TOk lpt
  end.

(* `if self.eos is not None and done_mask.any(): ...` (the freeze), then what the last four assignments store *)
Definition freeze_tensor (done y lpp lens pady yn ynl lpn : vt) : tres (vt * vt * vt) :=
  match eos with
  | Some _ =>
      tdo b <- any done;
      if (b : bool) then
        tt (tw_tensor (Z.of_nat width) y lpp lens) (fun r =>
          tcat y3 <- cat (fst (fst r)) pady 0;
          tdo du <- unsqueeze done 0;
          tdo yn' <- where_ du y3 yn;
          tdo lpn' <- where_ done (snd (fst r)) lpn;
          tdo ynl' <- where_ done (snd r) ynl;
          TOk (yn', ynl', lpn'))
      else TOk (yn, ynl, lpn)
  | None => TOk (yn, ynl, lpn)
  end.

Definition rest_tensor (pw : nat) (tv mask done y lpp lens pady : vt) (prev : list Z) : tres (vt * vt * vt * list Z) :=
  tdo y_ <- clamp y (Some 0) (Some (Z.of_nat V - 1));
  tdo h <- flatten y_ 1;
  tdo (lg, nxt) <- lm_calc calc h prev tv;
  tdo lg3 <- lg_reshape lg [Z.of_nat N; Z.of_nat pw; Z.of_nat V];
  tdo lpt <- lg_log_softmax lg3 (-1);
  tt (realloc_tensor mask lpt) (fun lpt' =>
  tr (adv_tensor lpt' (Z.of_nat width) lpp y_ (Some lens)) (fun yn ynl lpn src =>
  tdo sz <- size yn 0;
  tdo sz' <- size y_ 0;
  tt (if Z.of_nat sz =? Z.of_nat sz' then (tcat c <- cat yn pady 0; TOk c) else TOk yn) (fun yn1 =>
  tt (match eos with
      | Some _ => tdo g <- gather mask 1 src;
                  if all_int ynl then (tdo gi <- to_int g; tdo r <- sub ynl gi; TOk r) else TUndef
      | None => TOk ynl
      end) (fun ynl1 =>
  tdo ar <- arange3 0 (Z.of_nat pw * Z.of_nat N) (Z.of_nat pw);
  tdo aru <- unsqueeze ar 1;
  tdo src2 <- add aru src;
  tdo fl <- flatten src2 0;
  tdo prev' <- lm_extract nxt fl;
  tt (freeze_tensor done y lpp lens pady yn1 ynl1 lpn) (fun r =>
  TOk (fst (fst r), snd (fst r), snd r, prev')))))).

Local Close Scope Z_scope.

Definition rest_post (pady : vt) (st : state) (r : vt * vt * vt * list Z) : Prop :=
  exists rest', st = mkState (lv width (fst (fst (fst r))) (snd r) (snd (fst r)) (snd (fst (fst r))) pady rest') ev.

Lemma rest_run : forall pw tv mask done y lpp lens pady prev rest a b c,
  vshape y = [a; b; c] ->
  lookup "t" rest = Some (encv tv) -> lookup "eos_mask" rest = Some (encv mask) -> lookup "done_mask" rest = Some (encv done) ->
  simc (rest_post pady)
       (exec ext fw_rest (mkState (lv pw y prev lpp lens pady rest) ev)) (rest_tensor pw tv mask done y lpp lens pady prev).
Proof.
  intros pw tv mask done y lpp lens pady prev rest a b c Hy Ht Hm Hd.
  unfold fw_rest, rest_tensor, realloc_tensor, freeze_tensor, rest_post, live.
  destruct eos as [e|]; repeat autoR.
Qed.

End Blocks.
