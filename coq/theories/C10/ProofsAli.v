(* C10 - policy 'ali', part 3: the global index arithmetic acts block by block (one block per source), each block
   gives the documented slices, and the main theorem. *)
From Coq Require Import List ZArith Bool Arith Lia Sorted.
From PV Require Import C10.Model C10.Spec C10.Lists C10.ProofsFixed C10.ProofsAliOps C10.ProofsAliRows.
Import ListNotations.
Local Open Scope Z_scope.

Definition dX : Z * (Z * Z) := (0, (0, 0)).

(* block n consists of the segments of source n, labelled n *)
Definition blocks_wf (XB : list (list (Z * (Z * Z)))) (sg : nat -> list (Z * Z)) : Prop :=
  forall n, (n < length XB)%nat -> nth n XB [] = map (fun se => (Z.of_nat n, se)) (sg n).

Section Blocks.
  Variable XB : list (list (Z * (Z * Z))).
  Variable sg : nat -> list (Z * Z).
  Hypothesis Hwf : blocks_wf XB sg.

  Let X := concat XB.
  Let xf (j : nat) := nth j X dX.
  Let fc (j : nat) := fst (xf j).

  Lemma block_len : forall n, (n < length XB)%nat -> length (nth n XB []) = length (sg n).
  Proof. intros n Hn. rewrite (Hwf n Hn). apply map_length. Qed.

  Lemma block_at : forall n i, (n < length XB)%nat -> (i < length (sg n))%nat ->
    xf (base XB n + i) = (Z.of_nat n, nth i (sg n) (0, 0)).
  Proof.
    intros n i Hn Hi. unfold xf, X. rewrite nth_concat by (rewrite ?block_len; assumption).
    rewrite (Hwf n Hn). rewrite (nth_indep _ dX ((fun se => (Z.of_nat n, se)) (0, 0))) by (rewrite map_length; lia).
    apply map_nth.
  Qed.

  Lemma block_src : forall q n, (q < length X)%nat -> (n < length XB)%nat ->
    (fc q = Z.of_nat n <-> (base XB n <= q < base XB n + length (sg n))%nat).
  Proof.
    intros q n Hq Hn. destruct (locate _ XB q Hq) as (m & i & Hm & Hi & Eq).
    rewrite block_len in Hi by assumption. unfold fc. rewrite Eq, block_at by assumption. cbn [fst].
    pose proof (base_S _ XB m Hm) as Sm. pose proof (base_S _ XB n Hn) as Sn. rewrite block_len in Sm, Sn by assumption.
    split.
    - intros E. apply Nat2Z.inj in E. subst m. lia.
    - intros H. f_equal. destruct (Nat.lt_trichotomy m n) as [Hlt|[He|Hgt]]; [|assumption|].
      + pose proof (base_mono _ XB (S m) n ltac:(lia)). lia.
      + pose proof (base_mono _ XB (S n) m ltac:(lia)). lia.
  Qed.

  Lemma base_block_lt : forall n i, (n < length XB)%nat -> (i < length (sg n))%nat -> (base XB n + i < length X)%nat.
  Proof.
    intros n i Hn Hi. pose proof (base_S _ XB n Hn) as Sn. rewrite block_len in Sn by assumption.
    pose proof (base_le_all _ XB (S n)). unfold X. lia.
  Qed.

  Lemma dlf_block : forall n i k, (n < length XB)%nat -> (i < length (sg n))%nat ->
    dlf fc k (base XB n + i) = if (k <=? i)%nat then 1 else 0.
  Proof.
    intros n i k Hn Hi. unfold dlf.
    assert (Hj : fc (base XB n + i) = Z.of_nat n) by (unfold fc; now rewrite block_at).
    rewrite Hj. destruct (Nat.leb_spec k i) as [Hk|Hk].
    - destruct (Nat.leb_spec k (base XB n + i)); [|lia]. cbn [andb].
      replace (base XB n + i - k)%nat with (base XB n + (i - k))%nat by lia.
      unfold fc. rewrite block_at by (try assumption; lia). cbn [fst]. now rewrite Z.eqb_refl.
    - destruct (Nat.leb_spec k (base XB n + i)) as [Hk'|Hk']; [|reflexivity]. cbn [andb].
      destruct (Z.eqb_spec (Z.of_nat n) (fc (base XB n + i - k))) as [E|E]; [|reflexivity].
      symmetry in E. apply block_src in E; [lia| |assumption].
      pose proof (base_block_lt n i Hn Hi). lia.
  Qed.

  Lemma drf_block : forall n i k, (n < length XB)%nat -> (i < length (sg n))%nat ->
    drf fc (length X) k (base XB n + i) = if (i + k <? length (sg n))%nat then 1 else 0.
  Proof.
    intros n i k Hn Hi. unfold drf.
    assert (Hj : fc (base XB n + i) = Z.of_nat n) by (unfold fc; now rewrite block_at).
    rewrite Hj. destruct (Nat.ltb_spec (i + k) (length (sg n))) as [Hk|Hk].
    - pose proof (base_block_lt n (i + k) Hn Hk).
      destruct (Nat.ltb_spec (base XB n + i + k) (length X)); [|lia]. cbn [andb].
      replace (base XB n + i + k)%nat with (base XB n + (i + k))%nat by lia.
      unfold fc. rewrite block_at by assumption. cbn [fst]. now rewrite Z.eqb_refl.
    - destruct (Nat.ltb_spec (base XB n + i + k) (length X)) as [Hk'|Hk']; [|reflexivity]. cbn [andb].
      destruct (Z.eqb_spec (fc (base XB n + i + k)) (Z.of_nat n)) as [E|E]; [|reflexivity].
      apply block_src in E; [lia|assumption|assumption].
  Qed.

  (* a function of the global position, applied to all positions, block by block *)
  Lemma map_over_blocks : forall C (F : nat -> C),
    map F (seq 0 (length X))
    = flat_map (fun n => map (fun i => F (base XB n + i)%nat) (seq 0 (length (sg n)))) (seq 0 (length XB)).
  Proof.
    intros C F. unfold X. rewrite seq_concat, map_flat_map. apply flat_map_ext_in. intros n Hn. apply in_seq in Hn.
    rewrite map_map, block_len by lia. reflexivity.
  Qed.
End Blocks.

(* ---- sums of indicator functions ---- *)
Lemma sumk_count : forall (f : nat -> Z) (c : nat) fuel n0,
  (forall k, f k = if (k <=? c)%nat then 1 else 0) ->
  sumk f n0 fuel = Z.max 0 (Z.min (Z.of_nat n0 + Z.of_nat fuel - 1) (Z.of_nat c) - Z.of_nat n0 + 1).
Proof.
  intros f c fuel; induction fuel as [|fuel IH]; intros n0 Hf; cbn [sumk]; [lia|].
  rewrite (IH (S n0) Hf), Hf. destruct (Nat.leb_spec n0 c); lia.
Qed.

Lemma sumk_left : forall (f : nat -> Z) (i : nat) fuel,
  (forall k, f k = if (k <=? i)%nat then 1 else 0) -> sumk f 1 fuel = Z.of_nat (Nat.min fuel i).
Proof. intros f i fuel Hf. rewrite (sumk_count f i fuel 1 Hf). lia. Qed.

Lemma sumk_right : forall (g : nat -> Z) (i M : nat) fuel, (i < M)%nat ->
  (forall k, g k = if (i + k <? M)%nat then 1 else 0) -> sumk g 1 fuel = Z.of_nat (Nat.min fuel (M - 1 - i)).
Proof.
  intros g i M fuel Hi Hg. rewrite (sumk_count g (M - 1 - i) fuel 1); [lia|].
  intros k. rewrite Hg. destruct (Nat.ltb_spec (i + k) M), (Nat.leb_spec k (M - 1 - i)); lia.
Qed.

(* ---- the three shapes of the result, block by block ---- *)
Definition lobe_l (wt : wtype) (lobe : Z) : nat := if do_left wt then Z.to_nat lobe else 0%nat.
Definition lobe_r (wt : wtype) (lobe : Z) : nat := if do_right wt then Z.to_nat lobe else 0%nat.
Definition sg_s (sg : nat -> list (Z * Z)) (n i : nat) : Z := fst (nth i (sg n) (0, 0)).
Definition sg_e (sg : nat -> list (Z * Z)) (n i : nat) : Z := snd (nth i (sg n) (0, 0)).

(* what the model returns for one source, as a function of its segments *)
Definition block_out (sg : nat -> list (Z * Z)) (wt : wtype) (vo : bool) (lobe : Z) (n : nat) : list (Z * Z) :=
  let M := length (sg n) in
  let l := lobe_l wt lobe in
  let r := lobe_r wt lobe in
  if vo then map (fun i => (sg_s sg n i, sg_e sg n (i + (l + r))%nat)) (seq 0 (M - (l + r)))
  else map (fun i => (sg_s sg n (i - Nat.min l i)%nat, sg_e sg n (i + Nat.min r (M - 1 - i))%nat)) (seq 0 M).

Lemma offs_lr : forall wt lobe, 0 <= lobe ->
  Z.to_nat ((b2z (do_left wt) + b2z (do_right wt)) * lobe) = (lobe_l wt lobe + lobe_r wt lobe)%nat.
Proof. intros [] lobe H; unfold lobe_l, lobe_r; cbn [do_left do_right b2z]; lia. Qed.

Lemma filter_tail_false : forall (p : nat -> bool) a b, (forall j, (a <= j)%nat -> p j = false) -> filter p (seq a b) = [].
Proof.
  intros p a b H. rewrite (filter_ext_in _ _ (fun _ => false)); [induction (seq a b); cbn; auto|].
  intros j Hj. apply in_seq in Hj. apply H. lia.
Qed.

Theorem ali_lobes_blocks : forall XB sg wt vo lobe, blocks_wf XB sg -> 0 <= lobe ->
  ali_lobes false (map (fun x => fst (snd x)) (concat XB)) (map (fun x => snd (snd x)) (concat XB))
            (map fst (concat XB)) wt vo lobe
  = Some (labelled (block_out sg wt vo lobe) (length XB)).
Proof.
  intros XB sg wt vo lobe Hwf Hl.
  set (NN := length (concat XB)).
  set (xf := fun j : nat => nth j (concat XB) dX).
  set (fs := fun j => fst (snd (xf j))). set (fe := fun j => snd (snd (xf j))). set (fc := fun j => fst (xf j)).
  assert (EX : concat XB = map xf (seq 0 NN)) by apply list_as_map.
  assert (Es : map (fun x => fst (snd x)) (concat XB) = map fs (seq 0 NN)) by (rewrite EX at 1; now rewrite map_map).
  assert (Ee : map (fun x => snd (snd x)) (concat XB) = map fe (seq 0 NN)) by (rewrite EX at 1; now rewrite map_map).
  assert (Ec : map fst (concat XB) = map fc (seq 0 NN)) by (rewrite EX at 1; now rewrite map_map).
  rewrite Es, Ee, Ec. clear EX Es Ee Ec.
  assert (Hat : forall n i, (n < length XB)%nat -> (i < length (sg n))%nat ->
                            fs (base XB n + i)%nat = sg_s sg n i /\ fe (base XB n + i)%nat = sg_e sg n i
                            /\ fc (base XB n + i)%nat = Z.of_nat n).
  { intros n i Hn Hi. unfold fs, fe, fc, xf. rewrite (block_at XB sg Hwf n i Hn Hi). repeat split. }
  unfold labelled.
  destruct (Z.eqb_spec lobe 0) as [E0|E0].
  - (* lobe_size == 0: the segments themselves *)
    subst lobe. unfold ali_lobes. cbn [Z.eqb]. unfold stack3. rewrite !map_length, Nat.eqb_refl. cbn [andb].
    rewrite !combine_map_map. f_equal. unfold NN. rewrite (map_over_blocks XB sg Hwf).
    apply flat_map_ext_in. intros n Hn. apply in_seq in Hn. unfold block_out, lobe_l, lobe_r.
    replace (if do_left wt then Z.to_nat 0 else 0%nat) with 0%nat by (destruct wt; reflexivity).
    replace (if do_right wt then Z.to_nat 0 else 0%nat) with 0%nat by (destruct wt; reflexivity).
    destruct vo; rewrite map_map; [rewrite Nat.sub_0_r|]; apply map_ext_in; intros i Hi; apply in_seq in Hi;
      destruct (Hat n i ltac:(lia) ltac:(lia)) as (H1 & H2 & H3); rewrite H1, H2, H3;
      repeat f_equal; lia.
  - assert (Hl' : 0 < lobe) by lia. destruct vo.
    + (* valid_only *)
      rewrite ali_valid_fn by assumption. f_equal. rewrite (offs_lr wt lobe Hl).
      set (d := (lobe_l wt lobe + lobe_r wt lobe)%nat).
      (* the filter over the first NN - d positions is a filter over all positions *)
      assert (Hf : filter (fun j => fc j =? fc (j + d)%nat) (seq 0 (NN - d))
                   = filter (fun j => (j + d <? NN)%nat && (fc j =? fc (j + d)%nat)) (seq 0 NN)).
      { rewrite (seq_split (NN - d) NN) by lia.
        rewrite filter_app, (filter_tail_false _ (NN - d) (NN - (NN - d))).
        - rewrite app_nil_r. apply filter_ext_in. intros j Hj. apply in_seq in Hj.
          destruct (Nat.ltb_spec (j + d) NN); [reflexivity|lia].
        - intros j Hj. destruct (Nat.ltb_spec (j + d) NN); [lia|reflexivity]. }
      rewrite Hf. unfold NN at 2. rewrite seq_concat, filter_flat_map, map_flat_map.
      apply flat_map_ext_in. intros n Hn. apply in_seq in Hn.
      rewrite (block_len XB sg Hwf) by lia. rewrite filter_map_comm, map_map.
      rewrite (filter_ext_in _ _ (fun i => (i <? length (sg n) - d)%nat)).
      * rewrite (filter_seq_prefix _ (length (sg n) - d)) by (intros k; apply Nat.ltb_lt).
        replace (Nat.min (length (sg n)) (length (sg n) - d)) with (length (sg n) - d)%nat by lia.
        unfold block_out. fold d. rewrite map_map. apply map_ext_in. intros i Hi. apply in_seq in Hi.
        destruct (Hat n i ltac:(lia) ltac:(lia)) as (H1 & _ & H3).
        destruct (Hat n (i + d)%nat ltac:(lia) ltac:(lia)) as (_ & H2 & _).
        rewrite H1, H3. replace (base XB n + i + d)%nat with (base XB n + (i + d))%nat by lia. now rewrite H2.
      * intros i Hi. apply in_seq in Hi.
        destruct (Hat n i ltac:(lia) ltac:(lia)) as (_ & _ & H3). rewrite H3.
        assert (Hd : (if (base XB n + i + d <? NN)%nat && (fc (base XB n + i + d)%nat =? fc (base XB n + i)%nat) then 1 else 0)
                     = (if (i + d <? length (sg n))%nat then 1 else 0))
          by exact (drf_block XB sg Hwf n i d ltac:(lia) ltac:(lia)).
        rewrite H3 in Hd.
        rewrite (Z.eqb_sym (Z.of_nat n)).
        destruct ((base XB n + i + d <? NN)%nat && (fc (base XB n + i + d)%nat =? Z.of_nat n));
          destruct (Nat.ltb_spec (i + d) (length (sg n))); destruct (Nat.ltb_spec i (length (sg n) - d)); try lia; reflexivity.
    + (* not valid_only *)
      rewrite ali_nv_fn by assumption. f_equal. unfold NN at 2. rewrite (map_over_blocks XB sg Hwf).
      apply flat_map_ext_in. intros n Hn. apply in_seq in Hn.
      unfold block_out. rewrite map_map. apply map_ext_in. intros i Hi. apply in_seq in Hi.
      assert (Hcl : cl_of fc wt lobe (base XB n + i) = Z.of_nat (Nat.min (lobe_l wt lobe) i)).
      { unfold cl_of, lobe_l. destruct (do_left wt); [|lia].
        apply sumk_left. intros k. unfold fc, xf. apply (dlf_block XB sg Hwf); lia. }
      assert (Hcr : cr_of fc NN wt lobe (base XB n + i) = Z.of_nat (Nat.min (lobe_r wt lobe) (length (sg n) - 1 - i))).
      { unfold cr_of, lobe_r. destruct (do_right wt); [|lia].
        apply sumk_right; [lia|]. intros k. unfold fc, xf, NN. apply (drf_block XB sg Hwf); lia. }
      rewrite Hcl, Hcr.
      replace (Z.to_nat (Z.of_nat (base XB n + i) - Z.of_nat (Nat.min (lobe_l wt lobe) i)))
        with (base XB n + (i - Nat.min (lobe_l wt lobe) i))%nat by lia.
      replace (Z.to_nat (Z.of_nat (base XB n + i) + Z.of_nat (Nat.min (lobe_r wt lobe) (length (sg n) - 1 - i))))
        with (base XB n + (i + Nat.min (lobe_r wt lobe) (length (sg n) - 1 - i)))%nat by lia.
      destruct (Hat n i ltac:(lia) ltac:(lia)) as (_ & _ & H3).
      destruct (Hat n (i - Nat.min (lobe_l wt lobe) i)%nat ltac:(lia) ltac:(lia)) as (H1 & _ & _).
      destruct (Hat n (i + Nat.min (lobe_r wt lobe) (length (sg n) - 1 - i))%nat ltac:(lia) ltac:(lia)) as (_ & H2 & _).
      now rewrite H1, H2, H3.
Qed.
