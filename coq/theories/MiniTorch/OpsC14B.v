(* MiniTorch ops for the second C14 tie (units C14BSrc / C14BWinSrc: extract_window, get_windowed_utterance,
   context_window_seq_to_batch, spect_seq_to_batch, _get_bucket_batch_sampler_params).  Definitions only.

   SEQUENCE ENCODING of tensors (this unit only).  The batching code never computes with the cells of a tensor: it
   measures tensors along dimension 0, slices / indexes / concatenates / pads / flips them along dimension 0 and
   applies Python's `len`.  MiniPy's builtin `len` counts the components of a container value, so a tensor is encoded
   as the container of its slices along dimension 0 (then len(x) = x.size(0), x[i] / x[-1] are Interp's own indexing):
       a 1-D tensor            VTuple [c_0; ...; c_{n-1}]         cells c_i: any non-container value (VInt here)
       a tensor of rank k+1    VList  [t_0; ...; t_{n-1}]         t_i encodings of rank-k tensors
   The rank of a value is read off its constructors (VTuple = one row of cells, VList = a stack); an EMPTY stack has
   lost its trailing sizes (as the model's [list row] has): `.shape` of an empty matrix is outside the modelled domain.
   That the components of a stack all have the same shape is the invariant of the encoding and is not re-checked by
   the operations; dtypes, devices, strides (views) are not represented.  Every operation returns None outside the
   domain described in its comment (then the interpreter is Stuck).  The semantics below are trusted and are run
   against torch on every check (SrcRunB.src_check_* in harness/props/c14_tie.py). *)
From Coq Require Import ZArith List String Bool Arith.
From PV Require Import MiniPy.Syntax.
Import ListNotations.
Local Open Scope string_scope.
Local Open Scope list_scope.

Definition is_cell (v : val) : bool :=
  match v with VList _ | VTuple _ | VSet _ | VDict _ => false | _ => true end.

(* a tensor of this encoding (rank >= 1): a row of cells or a stack (components not inspected) *)
Definition is_tensor (v : val) : bool :=
  match v with VList _ => true | VTuple l => forallb is_cell l | _ => false end.

(* Tensor.size(dim): "Returns the size of the self tensor. If dim is specified, returns an int holding the size of that
   dimension."  dim = 0 only.  (len(x) of a tensor is x.size(0): Interp's builtin on this encoding.) *)
Definition size0 (t : val) : option Z :=
  match t with
  | VList l => Some (Z.of_nat (List.length l))
  | VTuple l => if forallb is_cell l then Some (Z.of_nat (List.length l)) else None
  | _ => None
  end.

(* Tensor.shape: "Returns the size of the self tensor. Alias for size."  2-D tensors with at least one row: (rows,
   cells of the first row). *)
Definition shape2 (t : val) : option (Z * Z) :=
  match t with
  | VList (VTuple r :: rest) =>
      if forallb is_cell r then Some (Z.of_nat (S (List.length rest)), Z.of_nat (List.length r)) else None
  | _ => None
  end.

(* Uninitialised storage: "torch.empty: Returns a tensor filled with uninitialized data. The shape of the tensor is
   defined by the variable argument size"; Tensor.new( *sizes) (legacy constructor): a new tensor of the given size and
   of self's type, its data uninitialised.  The contents are an ORACLE [junk] (row, column) -> cell: the tie theorems
   hold for every junk. *)
Definition junk_row (junk : nat -> nat -> val) (i f : nat) : val := VTuple (map (junk i) (seq 0 f)).
Definition new_mat (junk : nat -> nat -> val) (n f : nat) : val := VList (map (fun i => junk_row junk i f) (seq 0 n)).
Definition new_cube (junk : nat -> nat -> val) (n c f : nat) : val :=
  VList (map (fun i => VList (map (fun j => junk_row junk (i * c + j) f) (seq 0 c))) (seq 0 n)).

(* Python's slice a:b (no step) on a sequence of n items (language reference, slicings / slice.indices): a missing
   bound is 0 resp. n; a negative bound counts from the end (+ n, not below 0); a bound beyond n is n.  Basic tensor
   indexing `x[a:b]` uses the same rule along dimension 0. *)
Definition norm_bound (n : Z) (dflt : Z) (v : val) : option Z :=
  match v with
  | VNone => Some dflt
  | VInt i => Some (if (i <? 0)%Z then Z.max (i + n) 0 else Z.min i n)
  | _ => None
  end.

Definition slice_bounds (n : nat) (k : val) : option (nat * nat) :=
  match k with
  | VTuple [VStr s; a; b; VNone] =>
      if String.eqb s "$slice" then
        match norm_bound (Z.of_nat n) 0 a, norm_bound (Z.of_nat n) (Z.of_nat n) b with
        | Some lo, Some hi => Some (Z.to_nat lo, Z.to_nat hi)
        | _, _ => None
        end
      else None
  | _ => None
  end.

Definition cut {A} (l : list A) (lo hi : nat) : list A := firstn (hi - lo) (skipn lo l).

(* x[a:b] on a stack, a row of cells, or a plain Python tuple: the items lo .. hi-1, same container *)
Definition getitem_slice (x k : val) : option val :=
  match x with
  | VList l => match slice_bounds (List.length l) k with Some (lo, hi) => Some (VList (cut l lo hi)) | None => None end
  | VTuple l => match slice_bounds (List.length l) k with Some (lo, hi) => Some (VTuple (cut l lo hi)) | None => None end
  | _ => None
  end.

(* x[a:b] = v on a stack x (basic indexing assignment: v is copied into the slice, "broadcast" to its shape):
     v a stack           one component per position of the slice: the sizes must agree (torch raises otherwise)
     v one row of cells  written to every position of the slice (x a matrix)
   Only slices with lo <= hi. *)
Definition setitem_slice (x k v : val) : option val :=
  match x with
  | VList l =>
      match slice_bounds (List.length l) k with
      | Some (lo, hi) =>
          if Nat.leb lo hi then
            match v with
            | VList rows =>
                if Nat.eqb (List.length rows) (hi - lo) then Some (VList (firstn lo l ++ rows ++ skipn hi l)) else None
            | VTuple cells =>
                if forallb is_cell cells then Some (VList (firstn lo l ++ repeat v (hi - lo) ++ skipn hi l)) else None
            | _ => None
            end
          else None
      | None => None
      end
  | _ => None
  end.

(* torch.flip(input, dims): "Reverse the order of an n-D tensor along given axis in dims."  dims = [0]. *)
Definition flip0 (x : val) : option val :=
  match x with
  | VList l => Some (VList (rev l))
  | VTuple l => if forallb is_cell l then Some (VTuple (rev l)) else None
  | _ => None
  end.

(* torch.cat(tensors): "Concatenates the given sequence of seq tensors in the given dimension. All tensors must either
   have the same shape (except in the concatenating dimension) ..."  dimension 0, a non-empty sequence of tensors of
   one rank (all rows of cells, or all stacks). *)
Fixpoint cat_rows (ts : list val) : option (list val) :=
  match ts with
  | [] => Some []
  | VTuple l :: r => if forallb is_cell l then option_map (app l) (cat_rows r) else None
  | _ => None
  end.

Fixpoint cat_stacks (ts : list val) : option (list val) :=
  match ts with
  | [] => Some []
  | VList l :: r => option_map (app l) (cat_stacks r)
  | _ => None
  end.

Definition cat0 (ts : list val) : option val :=
  match ts with
  | [] => None
  | VTuple _ :: _ => option_map VTuple (cat_rows ts)
  | VList _ :: _ => option_map VList (cat_stacks ts)
  | _ => None
  end.

(* torch.tensor(data): "Constructs a tensor with no autograd history by copying data."  data: a Python list of ints. *)
Definition tensor_of_ints (data : val) : option val :=
  match data with
  | VList l => if forallb (fun v => match v with VInt _ => true | _ => false end) l then Some (VTuple l) else None
  | _ => None
  end.

(* torch.nn.utils.rnn.pad_sequence(sequences, batch_first, padding_value): "Pad a list of variable length Tensors
   with padding_value.  pad_sequence stacks a list of Tensors along a new dimension, and pads them to equal length. ...
   B x T x * if batch_first is True, T x B x * otherwise", "where T is the length of the longest sequence".
   sequences: a non-empty sequence of 1-D tensors, or of matrices (padded with rows of padding_value as wide as the
   first row found). *)
Definition seq_items (v : val) : option (list val) :=
  match v with VList l => Some l | VTuple l => if forallb is_cell l then Some l else None | _ => None end.

Fixpoint all_items (ts : list val) : option (list (list val)) :=
  match ts with
  | [] => Some []
  | t :: r => match seq_items t, all_items r with Some l, Some ls => Some (l :: ls) | _, _ => None end
  end.

Definition max_len (ls : list (list val)) : nat := fold_right (fun l m => Nat.max (List.length l) m) 0%nat ls.

(* the first component of the first non-empty sequence *)
Fixpoint first_item (ls : list (list val)) : option val :=
  match ls with [] => None | [] :: r => first_item r | (x :: _) :: _ => Some x end.

Definition pad_cell (pv : val) (ls : list (list val)) : option val :=
  match first_item ls with
  | None => Some pv                                   (* nothing to pad *)
  | Some (VTuple r) => if forallb is_cell r then Some (VTuple (repeat pv (List.length r))) else None
  | Some (VList _) => None                            (* sequences of rank 3 and more: not modelled *)
  | Some _ => Some pv                                 (* 1-D sequences: the cells are padded with the value itself *)
  end.

(* a batch entry / a time step: a row of cells when its components are cells, else a stack *)
Definition pack (like_cells : bool) (l : list val) : val := if like_cells then VTuple l else VList l.

Definition pad_sequence (ts : list val) (pv : val) (batch_first : bool) : option val :=
  match ts, all_items ts with
  | t0 :: _, Some ls =>
      match pad_cell pv ls with
      | Some pc =>
          let T := max_len ls in
          let cells := match t0 with VTuple _ => true | _ => false end in
          let padded := map (fun l => l ++ repeat pc (T - List.length l)) ls in
          Some (VList (if batch_first then map (pack cells) padded
                       else map (fun t => pack cells (map (fun r => nth t r pc) padded)) (seq 0 T)))
      | None => None
      end
  | _, _ => None
  end.
