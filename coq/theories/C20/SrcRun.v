(* C20 - the translated sources of `GlobalSoftAttention.forward`, `GlobalSoftAttention.check_input`,
   `DotProductSoftAttention.score` and `GeneralizedDotProductSoftAttention.score` (_attn.py) as
   executables: the environment [ext20], the encoding of the module object and of the model's
   tensors as MiniPy values, and the correspondence entry point [src_attend_check].  Definitions
   only; the lemmas are in Tie.v.

   PV.Gen.C20Src.{gsa_forward, gsa_check_input, dot_score, general_score} are regenerated from
   /repo/src/pydrobert/torch/_attn.py on every run by harness/py2coq/translate.py (the whole bodies;
   `__call__ = proxy(GlobalSoftAttention.forward)` and TorchScript compilation / tracing are NOT
   modelled: the tie is about the Python text of `forward` as eager CPython runs it).

   [ext20 expf cls] gives the calls of those bodies their meaning.  What arrives here (MiniPy.Interp):
     self.check_input(q, k, v, m)     the OTHER translated method, interpreted on fresh variables self, query, key,
                                      value, mask (+ the module global `torch`); the caller's state is untouched
     self.score(q, k)                 likewise; WHICH body runs is Python's dynamic dispatch on the class of self:
                                      the parameter [cls] (DotProductSoftAttention / GeneralizedDotProductSoftAttention)
     x.dim() x.unsqueeze(d) x.sum(d) x.masked_fill(m, -inf)        "$method.<name>", the tensor first
     x.shape, x.device                "$attr.<name>" (shape: a tuple of ints; device: an opaque token that is only
                                      ever passed back to torch.ones)
     a * b (tensors), a * c (float), tuple + tuple                 "operator" ["mul" | "add"; a; b]
     ~m                               "$invert"
     shape[:-1]                       "$getitem" [tuple; slice(None, -1, None)]
     float("inf")                     "float"
     torch.ones((1,), device=.., dtype=torch.bool), torch.nn.functional.softmax(e, d) (the exponential is the
     ORACLE [expf]), torch.nn.functional.linear(x, W, b), broadcast_shapes(s1, s2) (RuntimeError when the shapes
     are incompatible)                  - all with the meaning of PV.MiniTorch.OpsC20
   `self` is a [VDict] of its attributes (dim, query_size, key_size, and scale_factor or weight/bias);
   `torch.bool` is the attribute `bool` of the module object bound to the global name `torch`.
   dtypes and devices do not affect values in this model.  Everything else is Stuck. *)
From Coq Require Import ZArith QArith List String Bool.
From PV Require Import MiniPy.Syntax MiniPy.Interp MiniTorch.Ops MiniTorch.OpsC07 MiniTorch.OpsC20 Gen.C20Src.
From PV Require C20.Model.
Import ListNotations.
Local Open Scope string_scope.

Definition value_error : string := "ValueError".
Definition runtime_error : string := "RuntimeError".
Definition device_token : val := VStr "$device".
Definition bool_token : val := VStr "$torch.bool".

(* the module globals the bodies read: `torch` (only torch.bool is used as a value) *)
Definition globals20 : list (string * val) := [("torch", VDict [(VStr "bool", bool_token)])].

Definition no_kw (kw : list (string * val)) : bool := match kw with [] => true | _ => false end.

Definition oob (why : string) : outcome val := Stuck ("MiniTorch: outside the modelled domain: " ++ why).

Definition ret_q (why : string) (o : option (tn Q)) (st : state) : outcome val :=
  match o with Some t => Ok (enc_q t) st | None => oob why end.

(* the shape of a tensor value of any element type *)
Definition any_shape20 (v : val) : option (list nat) :=
  match dec_x v with
  | Some t => Some (shp t)
  | None => option_map shp (dec_b v)
  end.

Definition is_slice_to_minus1 (k : val) : bool :=
  val_eqb k (VTuple [VStr "$slice"; VNone; VInt (-1); VNone]).

Inductive score_class := DotCls | GeneralCls.

Section Ext.
  (* the exponential inside torch.nn.functional.softmax, as an oracle *)
  Variable expf : Q -> Q.

  (* everything but the calls of methods of self *)
  Definition ext20_ops (f : string) (args : list val) (kw : list (string * val)) (st : state) : outcome val :=
    if is f "torch.ones" then
      match args, kw with
      | [VTuple dims], [(n1, v1); (n2, v2)] =>
          if (is n1 "device" && val_eqb v1 device_token && is n2 "dtype" && val_eqb v2 bool_token)%bool
          then match dec_nats dims with
               | Some sh => Ok (enc_b (ones_bool sh)) st
               | None => Stuck "ones: size"
               end
          else Stuck "ones: keywords"
      | _, _ => Stuck "ones"
      end
    else if negb (no_kw kw) then Stuck ("ext20: keyword arguments of " ++ f)
    else if is f "$method.dim" then
      match args with
      | [t] => match any_shape20 t with Some s => Ok (VInt (Z.of_nat (List.length s))) st | None => Stuck "dim" end
      | _ => Stuck "dim"
      end
    else if is f "$attr.shape" then
      match args with
      | [t] => match any_shape20 t with Some s => Ok (shape_val s) st | None => Stuck "shape" end
      | _ => Stuck "shape"
      end
    else if is f "$attr.device" then
      match args with
      | [t] => match any_shape20 t with Some _ => Ok device_token st | None => Stuck "device" end
      | _ => Stuck "device"
      end
    else if is f "float" then
      match args with
      | [VStr s] => if is s "inf" then Ok (VInf true) st else Stuck "float"
      | _ => Stuck "float"
      end
    else if is f "$invert" then
      match args with
      | [m] => match dec_b m with Some x => Ok (enc_b (invert x)) st | None => Stuck "invert: not a boolean tensor" end
      | _ => Stuck "invert"
      end
    else if is f "$method.unsqueeze" then
      match args with
      | [t; VInt d] => match dec_q t with
                       | Some x => ret_q "unsqueeze" (unsqueeze x d) st
                       | None => Stuck "unsqueeze: not a finite float tensor"
                       end
      | _ => Stuck "unsqueeze"
      end
    else if is f "$method.sum" then
      match args with
      | [t; VInt d] => match dec_q t with
                       | Some x => ret_q "sum" (sum_dim x d) st
                       | None => Stuck "sum: not a finite float tensor"
                       end
      | _ => Stuck "sum"
      end
    else if is f "$method.masked_fill" then
      match args with
      | [t; m; VInf false] =>
          match dec_q t, dec_b m with
          | Some x, Some y => match masked_fill_ninf x y with
                              | Some r => Ok (enc_f r) st
                              | None => oob "masked_fill"
                              end
          | _, _ => Stuck "masked_fill"
          end
      | _ => Stuck "masked_fill"
      end
    else if is f "operator" then
      match args with
      | [VStr o; a; b] =>
          if is o "mul" then
            match dec_q a, dec_q b, b with
            | Some x, Some y, _ => ret_q "mul" (mul x y) st
            | Some x, None, VQ c => Ok (enc_q (mul_s x c)) st
            | _, _, _ => Stuck "mul"
            end
          else if is o "add" then
            match a, b with
            | VTuple x, VTuple y => Ok (VTuple (x ++ y)) st      (* tuple concatenation *)
            | _, _ => Stuck "add"
            end
          else Stuck ("operator " ++ o)
      | _ => Stuck "operator"
      end
    else if is f "$getitem" then
      match args with
      | [VTuple l; k] => if is_slice_to_minus1 k then Ok (VTuple (removelast l)) st      (* t[:-1] *)
                         else Stuck "getitem: index"
      | _ => Stuck "getitem"
      end
    else if is f "broadcast_shapes" then
      match args with
      | [VTuple a; VTuple b] =>
          match dec_nats a, dec_nats b with
          | Some x, Some y => match broadcast_shapes x y with
                              | Some s => Ok (shape_val s) st
                              | None => Exc runtime_error st
                              end
          | _, _ => Stuck "broadcast_shapes: not shapes"
          end
      | _ => Stuck "broadcast_shapes"
      end
    else if is f "torch.nn.functional.softmax" then
      match args with
      | [t; VInt d] => match dec_x t with
                       | Some x => ret_q "softmax" (softmax expf x d) st
                       | None => Stuck "softmax: not a float tensor"
                       end
      | _ => Stuck "softmax"
      end
    else if is f "torch.nn.functional.linear" then
      match args with
      | [x; w; b] =>
          match dec_q x, dec_q w, b with
          | Some tx, Some tw, VNone => ret_q "linear" (linear tx tw None) st
          | Some tx, Some tw, _ => match dec_q b with
                                   | Some tb => ret_q "linear" (linear tx tw (Some tb)) st
                                   | None => Stuck "linear: bias"
                                   end
          | _, _, _ => Stuck "linear"
          end
      | _ => Stuck "linear"
      end
    else Stuck ("ext20: " ++ f).

  (* the call of another Python function: fresh variables, the caller's state is untouched *)
  Definition call_body (body : stmt) (vars0 : list (string * val)) (st : state) : outcome val :=
    match Interp.run ext20_ops body vars0 with
    | Ok v _ => Ok v st
    | Exc n _ => Exc n st
    | Stuck w => Stuck w
    end.

  Variable cls : score_class.

  Definition score_body : stmt := match cls with DotCls => dot_score | GeneralCls => general_score end.

  Definition ext20 (f : string) (args : list val) (kw : list (string * val)) (st : state) : outcome val :=
    if is f "self.check_input" then
      match args, kw, lookup "self" (vars st) with
      | [q; k; v; m], [], Some self =>
          call_body gsa_check_input
                    (("self", self) :: ("query", q) :: ("key", k) :: ("value", v) :: ("mask", m) :: globals20) st
      | _, _, _ => Stuck "self.check_input: arguments"
      end
    else if is f "self.score" then
      match args, kw, lookup "self" (vars st) with
      | [q; k], [], Some self =>
          call_body score_body (("self", self) :: ("query", q) :: ("key", k) :: globals20) st
      | _, _, _ => Stuck "self.score: arguments"
      end
    else ext20_ops f args kw st.
End Ext.

(* ---- encodings ---------------------------------------------------------------------------------- *)
(* the module object: its attributes.  scale_factor is a Python float; weight is the (query_size x
   key_size) parameter, bias the (query_size) parameter or None *)
Definition rows_tensor (cols : nat) (W : list (list Q)) : tn Q := mkTn [List.length W; cols] (List.concat W).
Definition vec_tensor (b : list Q) : tn Q := mkTn [List.length b] b.

Definition self_dot (dim : Z) (qs ks : nat) (sc : Q) : val :=
  VDict [(VStr "dim", VInt dim); (VStr "query_size", VInt (Z.of_nat qs)); (VStr "key_size", VInt (Z.of_nat ks));
         (VStr "scale_factor", VQ sc)].

Definition self_general (dim : Z) (qs ks : nat) (W : list (list Q)) (b : option (list Q)) : val :=
  VDict [(VStr "dim", VInt dim); (VStr "query_size", VInt (Z.of_nat qs)); (VStr "key_size", VInt (Z.of_nat ks));
         (VStr "weight", enc_q (rows_tensor ks W));
         (VStr "bias", match b with None => VNone | Some bl => enc_q (vec_tensor bl) end)].

Definition mask_val (m : option (tn bool)) : val := match m with None => VNone | Some mt => enc_b mt end.

(* the arguments of forward(self, query, key, value, mask) + the module globals *)
Definition forward_vars (self : val) (q k v : tn Q) (m : option (tn bool)) : list (string * val) :=
  ("self", self) :: ("query", enc_q q) :: ("key", enc_q k) :: ("value", enc_q v) :: ("mask", mask_val m) :: globals20.

Definition run_forward (expf : Q -> Q) (cls : score_class) (self : val) (q k v : tn Q) (m : option (tn bool))
  : outcome val :=
  Interp.run (ext20 expf cls) gsa_forward (forward_vars self q k v m).

(* a model tensor (shape in r-coordinates + index function, e.g. [Model.qt s data]) as a flat tensor *)
Definition flat {X} (t : Model.tensor X) : tn X := mat t.

(* ---- executable entry point for the correspondence --------------------------------------------------
   outer None: the interpreter got stuck / returned something that is not a finite float tensor / the
   flavour is not translated (concat); Some None: the source raised; Some (Some t): the returned tensor *)
Definition src_attend (expf : Q -> Q) (fl : Model.flavour) (qs ks : nat) (dim : Z)
           (q k v : Model.tensor Q) (m : option (Model.tensor bool)) : option (option (tn Q)) :=
  let go := fun cls self =>
    match run_forward expf cls self (flat q) (flat k) (flat v) (option_map flat m) with
    | Ok r _ => option_map Some (dec_q r)
    | Exc _ _ => Some None
    | Stuck _ => None
    end in
  match fl with
  | Model.Dot sc => go DotCls (self_dot dim qs ks sc)
  | Model.General W b => go GeneralCls (self_general dim qs ks W b)
  | Model.Concat _ _ _ => None
  end.

(* same interface as Model.check_single (ttbl is unused: no tanh in the translated flavours).  The
   returned tensor is compared with the implementation's output exactly as the model's is: same shape,
   and the cells with at least one kept position within [tol] *)
Definition src_attend_check (etbl ttbl : list (Q * Q)) (fl : Model.flavour) (qs ks : nat) (dim : Z)
           (q k v : Model.tensor Q) (m : option (Model.tensor bool))
           (impl : option (Model.shape * list Q)) (tol : Q) : bool :=
  match src_attend (Model.lookup etbl) fl qs ks dim q k v m, impl with
  | Some None, None => true
  | Some (Some out), Some (ishape, idata) =>
      match Model.axis_pos dim (List.length (Model.tshape k)) with
      | Some p =>
          match Model.bshape (tl (Model.tshape (Model.unsq p q))) (tl (Model.tshape k)) with
          | Some es => Model.cmp_out tol (rd 0%Q out) (Model.defined_at m p es) ishape idata
          | None => false
          end
      | None => false
      end
  | _, _ => false
  end.
