(* C06 — build_trie_ok, part 8: the constructor succeeds on every well-formed table
   ([build_trie_total]), in particular _infer_max_direct_descendants' assertions hold: a node
   has at most V + shift children because siblings carry distinct labels. *)
From Coq Require Import List ZArith Bool Arith Lia ZifyBool ZifyNat Permutation Sorted.
From PV Require Import C06.Model C06.Spec C06.Proofs C06.BuildBase C06.BuildSort C06.BuildLevels
  C06.BuildDescent C06.BuildClosure C06.BuildTrie.
Import ListNotations.
Local Open Scope Z_scope.

Lemma NoDup_bounded_length (l : list Z) n : 0 <= n -> NoDup l -> (forall x, In x l -> 0 <= x < n) ->
  zlen l <= n.
Proof.
  intros Hn Hnd Hb. assert (H : (length l <= length (zrange n))%nat).
  { apply NoDup_incl_length; [exact Hnd|]. intros x Hx. apply zrange_in. apply Hb. exact Hx. }
  unfold zrange in H. rewrite map_length, seq_length in H. unfold zlen. lia.
Qed.

Lemma last_in_range (k : list Z) n : k <> [] -> Forall (fun x => 0 <= x < n) k -> 0 <= last k 0 < n.
Proof.
  intros Hne H. rewrite Forall_forall in H. apply H.
  destruct k as [|x k]; [congruence|]. clear. revert x. induction k as [|y k IH]; intros x; [left; reflexivity|].
  right. apply IH.
Qed.

(* ---------- a node has at most nuni children ---------------------------------------------------------- *)

Section GroupSize.
  Variables (nuni : Z) (n : nat) (prev : dict) (d : dict) (Lpos : Z).
  Hypothesis Hn0 : 0 <= nuni.
  Hypothesis Hprev : sorted_level n prev.
  Hypothesis Hwf : level_wf nuni n (map fst prev) d.
  Let lv := sort_rev d.
  Let ps := ppos (map fst prev) Lpos lv.

  Lemma group_size j : Lpos <= j < Lpos + zlen prev ->
    0 <= count_lt ps (j + 1) - count_lt ps j <= nuni.
  Proof.
    intros Hj. pose proof (count_lt_mono ps j (j + 1) ltac:(lia)) as Hm. split; [lia|].
    pose proof (ppos_nondecr nuni n prev d Lpos Hprev Hwf) as Hnd. fold lv in Hnd. fold ps in Hnd.
    pose proof (count_lt_bounds ps j) as Hb0. pose proof (count_lt_bounds ps (j + 1)) as Hb1.
    assert (Hpl : zlen ps = zlen lv) by (unfold zlen, ps; rewrite ppos_length; reflexivity).
    set (c0 := count_lt ps j) in *. set (c1 := count_lt ps (j + 1)) in *.
    set (ks := seq (Z.to_nat c0) (Z.to_nat (c1 - c0))).
    set (dflt := (@nil Z, (NaN, NaN))).
    set (tokf := fun k => last (fst (nth k lv dflt)) 0).
    assert (Hks : forall k, In k ks -> (k < length lv)%nat /\ nth k ps 0 = j).
    { intros k Hk. apply in_seq in Hk. assert (Hkl : (k < length lv)%nat) by (unfold zlen in *; lia).
      split; [exact Hkl|]. apply (group_range ps Hnd).
      - unfold ps. rewrite ppos_length. exact Hkl.
      - fold c0. fold c1. lia. }
    assert (Hent : forall k, In k ks -> In (nth k lv dflt) lv /\
              fst (nth k lv dflt) = removelast (fst (nth k lv dflt)) ++ [tokf k] /\
              exists i, j = Lpos + Z.of_nat i /\
                        nth_error (map fst prev) i = Some (removelast (fst (nth k lv dflt)))).
    { intros k Hk. destruct (Hks k Hk) as [Hkl Hg].
      assert (Hne : nth_error lv k = Some (nth k lv dflt)) by (apply nth_error_nth'; exact Hkl).
      pose proof (nth_error_In _ _ Hne) as Hin. split; [exact Hin|].
      destruct (sort_rev_parent _ _ _ _ _ Hwf Hin) as [_ Hlen]. split.
      - apply snoc_removelast_last. intros E. rewrite E in Hlen. cbn in Hlen. lia.
      - destruct (ppos_parent nuni n prev d Lpos Hwf k _ Hne) as (i & Hi & Hp).
        fold lv in Hi. fold ps in Hi. exists i. split; [lia|exact Hp]. }
    assert (Hlen : zlen (map tokf ks) = c1 - c0).
    { unfold zlen, ks. rewrite map_length, seq_length. lia. }
    rewrite <- Hlen. apply NoDup_bounded_length; [exact Hn0| |].
    - apply NoDup_map_inj_in; [apply seq_NoDup|]. intros k k' Hk Hk' Heq.
      destruct (Hent k Hk) as (_ & Ek & i & Hi & Hp). destruct (Hent k' Hk') as (_ & Ek' & i' & Hi' & Hp').
      assert (i' = i) by lia. subst i'. rewrite Hp in Hp'. injection Hp' as Hp'.
      assert (Hkeys : fst (nth k lv dflt) = fst (nth k' lv dflt)) by (rewrite Ek, Ek', Hp', Heq; reflexivity).
      pose proof (sorted_NoDup lv (sort_rev_sorted d (lw_nodup _ _ _ _ Hwf))) as Hn.
      rewrite (NoDup_nth _ (@nil Z)) in Hn. destruct (Hks k Hk) as [Hkl _]. destruct (Hks k' Hk') as [Hkl' _].
      apply Hn; rewrite ?map_length; try assumption.
      change (@nil Z) with (fst dflt). rewrite !map_nth. exact Hkeys.
    - intros x Hx. apply in_map_iff in Hx as (k & <- & Hk). destruct (Hent k Hk) as (Hin & Ek & _).
      unfold tokf. destruct (nth k lv dflt) as [rk v] eqn:Enth. cbn [fst] in *.
      apply sort_rev_in in Hin. pose proof (lw_tok _ _ _ _ Hwf _ Hin) as Ht. cbn [fst] in Ht.
      apply last_in_range.
      + intros E. rewrite E in Ek. destruct (removelast []); discriminate.
      + rewrite Forall_forall in *. intros y Hy. apply Ht. apply in_rev. rewrite rev_involutive. exact Hy.
  Qed.
End GroupSize.

(* ---------- _infer_max_direct_descendants returns ------------------------------------------------------- *)

Lemma zmax_list_bounds n : forall t x, Forall (fun y => 0 <= y <= n) (x :: t) -> 0 <= zmax_list t x <= n.
Proof.
  induction t as [|z t IH]; intros x H; cbn [zmax_list].
  - inversion H; subst. assumption.
  - inversion H as [|? ? Hx Ht]; subst. inversion Ht as [|? ? Hz Ht']; subst.
    specialize (IH x (Forall_cons _ Hx Ht')). lia.
Qed.

Lemma desc_span_max_some offs lo hi n : 0 <= lo -> lo + 1 < hi -> hi <= zlen offs ->
  (forall j, lo <= j -> j + 1 < hi -> 0 <= zget offs (j + 1) 0 + 1 - zget offs j 0 <= n) ->
  exists m, desc_span_max offs lo hi = Some m /\ 0 <= m <= n.
Proof.
  intros Hlo Hhi Hlen Hb. unfold desc_span_max.
  replace ((hi <=? lo + 1) || (zlen offs <? hi)) with false by lia.
  set (g := fun k => zget offs (k + 1) 0 + 1 - zget offs k 0).
  set (ks := map (fun k => lo + Z.of_nat k) (seq 0 (Z.to_nat (hi - 1 - lo)))).
  assert (Hall : Forall (fun y => 0 <= y <= n) (map g ks)).
  { rewrite Forall_forall. intros y Hy. apply in_map_iff in Hy as (k & <- & Hk). unfold ks in Hk.
    apply in_map_iff in Hk as (i & <- & Hi). apply in_seq in Hi. apply Hb; lia. }
  assert (Hne : map g ks <> []).
  { unfold ks. destruct (Z.to_nat (hi - 1 - lo)) as [|m] eqn:E; [lia|]. cbn [seq map]. discriminate. }
  destruct (map g ks) as [|x t]; [congruence|]. exists (zmax_list t x). split; [reflexivity|].
  apply zmax_list_bounds. exact Hall.
Qed.

Fixpoint lsum (ds : list dict) : Z := match ds with [] => 0 | d :: r => 1 + lsum r end.

Lemma maxdesc_loop_some b nuni U : 0 <= nuni -> forall ds n prev Lpos fuel S0,
  LevOK b U prev Lpos ds -> chain_wf nuni n prev ds -> sorted_level n prev -> 0 <= Lpos -> prev <> [] ->
  (ds <> [] -> Lpos + zlen prev < zlen (offsets b)) -> (ds = [] -> zlen (offsets b) <= Lpos) ->
  0 <= S0 <= nuni -> (length ds < fuel)%nat ->
  exists S1, maxdesc_loop fuel (offsets b) Lpos S0 = Some S1 /\ 0 <= S1 <= nuni.
Proof.
  intros Hn0. induction ds as [|d rest IH]; intros n prev Lpos fuel S0 HLev Hch Hprev HL Hpne Hin Hend HS Hf.
  - destruct fuel as [|f]; [cbn in Hf; lia|]. cbn [maxdesc_loop].
    specialize (Hend eq_refl). replace (zlen (offsets b) <=? Lpos) with true by lia. eauto.
  - destruct fuel as [|f]; [cbn in Hf; lia|]. cbn [maxdesc_loop length] in *.
    specialize (Hin ltac:(discriminate)).
    assert (Hp1 : 1 <= zlen prev) by (unfold zlen; destruct prev; [congruence|cbn [length]; lia]).
    replace (zlen (offsets b) <=? Lpos) with false by lia.
    cbn [LevOK] in HLev. destruct HLev as (Hoffs & _ & (_ & Hfit & Hlast) & HLev).
    destruct Hch as [Hwf Hch].
    set (lv := sort_rev d) in *. set (Lm := Lpos + zlen prev + 1) in *.
    assert (Hj : Lpos + zget (offsets b) Lpos 0 = Lm).
    { rewrite Hoffs by lia. rewrite count_lt_none; [lia|].
      pose proof (ppos_range nuni n prev d Lpos Hwf) as Hr. rewrite Forall_forall in *.
      intros p Hp. specialize (Hr p Hp). lia. }
    rewrite Hj.
    assert (Hlvne : lv <> []).
    { unfold lv. intros E. apply (f_equal (@length _)) in E. rewrite sort_rev_length in E.
      pose proof (lw_ne _ _ _ _ Hwf). destruct d; [congruence|discriminate]. }
    assert (HLmO : Lm <= zlen (offsets b)) by (unfold Lm; lia).
    destruct (desc_span_max_some (offsets b) Lpos Lm nuni HL ltac:(unfold Lm; lia) HLmO) as (m & Em & Hm).
    { intros j Hj1 Hj2. rewrite (Hoffs j), (Hoffs (j + 1)) by (unfold Lm in *; lia).
      pose proof (group_size nuni n prev d Lpos Hn0 Hprev Hwf j ltac:(unfold Lm in *; lia)). fold lv in H.
      lia. }
    rewrite Em.
    apply (IH (S n) lv Lm f (Z.max S0 m)); try assumption; try lia;
      try (apply (sort_rev_level nuni n (map fst prev) d Hwf)); try (unfold Lm; lia).
Qed.

Lemma tot_ge_length ds : Z.of_nat (length ds) + zlen (last ds []) <= tot ds.
Proof.
  induction ds as [|d r IH]; [cbn [length last tot]; unfold zlen; cbn [length]; lia|]. cbn [tot length]. destruct r as [|d' r'].
  - cbn [last tot length]. lia.
  - rewrite !last_cons. rewrite last_cons in IH. assert (0 <= zlen d) by (unfold zlen; lia).
    unfold dict in *. lia.
Qed.

Lemma infer_maxdesc_some b V s nuni U d rest prev1 :
  U = nuni + 1 -> nuni = V + shiftz V s -> zlen prev1 = nuni -> 1 <= nuni ->
  LevOK b U prev1 0 (d :: rest) -> chain_wf nuni 1 prev1 (d :: rest) -> sorted_level 1 prev1 ->
  nuni < zlen (offsets b) -> (length rest < length (offsets b))%nat ->
  exists S_, infer_maxdesc V s (offsets b) = Some S_.
Proof.
  intros HU Hnuni Hlen Hn1 HLev Hch Hs Hlt Hfuel. unfold infer_maxdesc.
  replace (zlen (offsets b) =? 0) with false by lia. rewrite <- Hnuni, <- HU.
  replace (negb ((0 <? U) && (U <=? zlen (offsets b)))) with false by lia.
  assert (Hp1 : prev1 <> []) by (intros E; rewrite E in Hlen; unfold zlen in Hlen; cbn in Hlen; lia).
  pose proof HLev as HLev0. pose proof Hch as Hch0.
  cbn [LevOK] in HLev. destruct HLev as (Hoffs & _ & (_ & Hfit & Hlast) & HLev). destruct Hch as [Hwf Hch].
  replace (0 + zlen prev1 + 1) with U in * by lia.
  destruct (desc_span_max_some (offsets b) 0 U nuni ltac:(lia) ltac:(lia) ltac:(lia)) as (S0 & E0 & HS0).
  { intros j Hj1 Hj2. rewrite (Hoffs j), (Hoffs (j + 1)) by lia.
    pose proof (group_size nuni 1 prev1 d 0 ltac:(lia) Hs Hwf j ltac:(lia)). lia. }
  rewrite E0. replace (S0 <? 0) with false by lia.
  assert (Hlvne : sort_rev d <> []).
  { intros E. apply (f_equal (@length _)) in E. rewrite sort_rev_length in E.
    pose proof (lw_ne _ _ _ _ Hwf). destruct d; [congruence|discriminate]. }
  destruct (maxdesc_loop_some b nuni U ltac:(lia) rest 2 (sort_rev d) U (S (length (offsets b))) S0 HLev Hch)
    as (S1 & E1 & HS1); try assumption; try lia.
  { apply (sort_rev_level nuni 1 (map fst prev1) d Hwf). }
  rewrite E1. replace (S1 <? U) with true by lia. eauto.
Qed.

(* ---------- the constructor succeeds --------------------------------------------------------------------- *)

Lemma opt_all_total {A B} (f : A -> option B) l : (forall x, In x l -> f x <> None) ->
  exists r, opt_all (map f l) = Some r.
Proof.
  induction l as [|a l IH]; intros H; [exists []; reflexivity|]. cbn [map opt_all].
  destruct (f a) as [y|] eqn:Ea; [|exfalso; apply (H a (or_introl eq_refl)); exact Ea].
  destruct IH as [r Er]; [intros x Hx; apply H; right; exact Hx|]. rewrite Er. eauto.
Qed.

Lemma nuni_pos' V s : 1 <= V -> 1 <= V + shiftz V s.
Proof. unfold shiftz. destruct (shiftb V s); lia. Qed.

Lemma uni_key' nuni uni higher : asc (in_range nuni) 1 (uni :: higher) ->
  forall e, In e uni -> exists x, fst e = [x] /\ 0 <= x < nuni.
Proof.
  intros Hasc e He. destruct Hasc as ([[_ Hk] _] & _). destruct (Hk e He) as [Hl Ht].
  destruct (fst e) as [|x [|y r]]; cbn [length] in Hl; try lia. exists x. split; [reflexivity|].
  inversion Ht; assumption.
Qed.

Lemma uvals_spec' nuni (uni : dict) uvals :
  opt_all (map (fun x => dget uni [x]) (zrange nuni)) = Some uvals ->
  length uvals = Z.to_nat nuni /\
  forall x, 0 <= x < nuni -> In ([x], nth (Z.to_nat x) uvals (NaN, NaN)) uni.
Proof.
  intros H. destruct (opt_all_some _ _ _ H) as [Hl Hn]. split.
  - rewrite Hl. unfold zrange. rewrite map_length, seq_length. reflexivity.
  - intros x Hx. destruct (Hn (Z.to_nat x) x) as (y & Hy & Hd).
    { unfold zrange. rewrite nth_error_map, (nth_error_nth' _ 0%nat) by (rewrite seq_length; lia).
      rewrite seq_nth by lia. cbn. f_equal. lia. }
    rewrite (nth_error_nth _ _ _ Hy). apply dget_some. exact Hd.
Qed.

Section TailTotal.
  Variables (V s : Z) (N : nat) (G U O I P : Z) (uni : dict) (higher : list dict).
  Let nuni := V + shiftz V s.
  Hypothesis HV : 1 <= V.
  Hypothesis HN : N = S (length higher).
  Hypothesis Hasc : asc (in_range nuni) 1 (uni :: higher).
  Hypothesis Hcomp : forall x, 0 <= x < nuni -> In [x] (map fst uni).
  Hypothesis HU : U = nuni + (if Nat.eqb N 1 then 0 else 1).
  Hypothesis HI : I = P - U.
  Hypothesis HP : zlen uni + tot higher = P.
  Hypothesis HO : O = P - G.
  Hypothesis HG : G = zlen (last (uni :: higher) []).
  Hypothesis Huni : zlen uni = nuni.

  (* N >= 2: the unigram values are found and the level loop runs to completion, leaving buffers
     that meet the intermediate specification *)
  Lemma tail_levels : higher <> [] ->
    exists uvals st',
      opt_all (map (fun x => dget uni [x]) (zrange nuni)) = Some uvals /\
      build_levels U higher (map (fun x => ([x], x)) (zrange nuni)) 0
        (mkB (repeat 0 (Z.to_nat O)) (repeat 0 (Z.to_nat I))
             (map fst uvals ++ repeat (Fin 0) (Z.to_nat (P - nuni)))
             (map snd uvals ++ repeat (Fin 0) (Z.to_nat (O - nuni))) [] nuni) = Some st' /\
      LevOK (bufs_of st') U (uni_level nuni uvals) 0 higher /\
      chain_wf nuni 1 (uni_level nuni uvals) higher /\
      zlen (b_offs st') = O /\ zlen (b_ids st') = I /\ zlen (b_lps st') = P /\ zlen (b_lbs st') = O /\
      U = nuni + 1 /\ G = zlen (last higher []) /\ G + 1 <= tot higher /\ 0 <= G.
  Proof.
    intros Hhne. pose proof (nuni_pos' V s HV) as Hn1. fold nuni in Hn1.
    destruct (opt_all_total (fun x => dget uni [x]) (zrange nuni)) as [uvals Euv].
    { intros x Hx. apply dget_in. apply Hcomp. apply zrange_in. exact Hx. }
    assert (HNe : Nat.eqb N 1 = false).
    { apply Nat.eqb_neq. rewrite HN. destruct higher; [congruence|cbn [length]; lia]. }
    rewrite HNe in HU.
    destruct (uvals_spec' nuni uni uvals Euv) as [Hulen Huv].
    set (prev1 := uni_level nuni uvals).
    assert (Hp1len : zlen prev1 = nuni) by (apply uni_level_length; lia).
    assert (HGh : G = zlen (last higher [])).
    { rewrite HG. destruct higher; [congruence|]. rewrite !last_cons. reflexivity. }
    assert (Htl : G + 1 <= tot higher) by (rewrite HGh; apply tot_last; exact Hhne).
    assert (HG0 : 0 <= G) by (rewrite HG; unfold zlen; lia).
    assert (Hch : chain_wf nuni 1 prev1 higher).
    { apply (asc_chain nuni higher 1 uni prev1 Hasc). intros k Hk.
      apply in_map_iff in Hk as (e & <- & He). destruct (uni_key' nuni uni higher Hasc e He) as (x & -> & Hx).
      apply uni_level_keys. exact Hx. }
    set (parents := map (fun x => ([x], x)) (zrange nuni)).
    set (st0 := mkB (repeat 0 (Z.to_nat O)) (repeat 0 (Z.to_nat I))
                    (map fst uvals ++ repeat (Fin 0) (Z.to_nat (P - nuni)))
                    (map snd uvals ++ repeat (Fin 0) (Z.to_nat (O - nuni))) [] nuni).
    destruct (build_levels_spec U nuni O I P HU HI higher 1 prev1 0 parents 0 st0)
      as (st' & Hb & HLev & Hlo & Hli & Hlp & Hlb & Fo & Fi & Fp & Fb); try assumption; try lia.
    { apply uni_level_sorted. }
    { intros E. rewrite E in Hp1len. unfold zlen in Hp1len. cbn in Hp1len. lia. }
    { rewrite Hp1len. unfold st0. constructor; cbn [b_alloc b_offs b_ids b_lps b_lbs]; unfold zlen.
      - lia.
      - rewrite repeat_length. lia.
      - rewrite repeat_length. lia.
      - rewrite app_length, map_length, repeat_length, Hulen. lia.
      - rewrite app_length, map_length, repeat_length, Hulen. lia.
      - intros q Hq. apply zget_repeat.
      - left. reflexivity. }
    { intros i k Hi. rewrite nth_error_map in Hi.
      assert (Hil : (i < Z.to_nat nuni)%nat).
      { assert (i < length prev1)%nat; [|unfold zlen in Hp1len; lia]. apply nth_error_Some.
        destruct (nth_error prev1 i); [discriminate|discriminate Hi]. }
      unfold prev1 in Hi. rewrite (uni_level_nth nuni uvals i Hil) in Hi. cbn in Hi. injection Hi as <-.
      unfold parents. rewrite dget_singletons; [f_equal; lia|]. apply zrange_in. lia. }
    exists uvals, st'. repeat split; try assumption; try lia.
  Qed.

  Lemma build_tail_unfold2 uvals st' : higher <> [] ->
    opt_all (map (fun x => dget uni [x]) (zrange nuni)) = Some uvals ->
    build_levels U higher (map (fun x => ([x], x)) (zrange nuni)) 0
      (mkB (repeat 0 (Z.to_nat O)) (repeat 0 (Z.to_nat I))
           (map fst uvals ++ repeat (Fin 0) (Z.to_nat (P - nuni)))
           (map snd uvals ++ repeat (Fin 0) (Z.to_nat (O - nuni))) [] nuni) = Some st' ->
    build_tail V s N G U O I P uni higher =
    match infer_maxdesc V s (b_offs st') with
    | None => None
    | Some S_ =>
        Some (mkBuilt (bufs_of st') N G S_
                (match b_offs st' with [] => 0%nat | _ => int_width (zmax_list (b_offs st') 0) end)
                (int_width U))
    end.
  Proof.
    intros Hhne Euv Hb.
    assert (HNe : Nat.eqb N 1 = false).
    { apply Nat.eqb_neq. rewrite HN. destruct higher; [congruence|cbn [length]; lia]. }
    unfold build_tail. rewrite HNe. cbv zeta. rewrite HNe in HU.
    replace (U - 1) with nuni by lia. rewrite Euv, Hb. reflexivity.
  Qed.

  Lemma build_tail_some : exists bt, build_tail V s N G U O I P uni higher = Some bt.
  Proof.
    pose proof (nuni_pos' V s HV) as Hn1. fold nuni in Hn1.
    destruct higher as [|d rest] eqn:Eh.
    - (* unigram model *)
      destruct (opt_all_total (fun x => dget uni [x]) (zrange nuni)) as [uvals Euv].
      { intros x Hx. apply dget_in. apply Hcomp. apply zrange_in. exact Hx. }
      assert (HNe : Nat.eqb N 1 = true) by (apply Nat.eqb_eq; rewrite HN; reflexivity).
      unfold build_tail. rewrite HNe. cbv zeta. replace (U - 0) with nuni by (rewrite HU, HNe; lia).
      rewrite Euv. cbn [build_levels b_offs].
      assert (HO0 : O = 0).
      { rewrite HO, HG, <- HP. cbn [tot last]. lia. }
      rewrite HO0. cbn [Z.to_nat repeat]. cbn [infer_maxdesc zlen length Z.of_nat Z.eqb]. eauto.
    - rewrite <- Eh in *. assert (Hhne : higher <> []) by (rewrite Eh; discriminate).
      destruct (tail_levels Hhne) as (uvals & st' & Euv & Hb & HLev & Hch & Hlo & Hli & Hlp & Hlb & HU' & HGh & Htl & HG0).
      rewrite (build_tail_unfold2 uvals st' Hhne Euv Hb).
      destruct (infer_maxdesc_some (bufs_of st') V s nuni U d rest (uni_level nuni uvals) HU' eq_refl
                  (uni_level_length nuni uvals ltac:(lia)) Hn1) as [S_ ES];
        try (rewrite <- Eh; assumption).
      { apply uni_level_sorted. }
      { cbn [bufs_of offsets]. lia. }
      { cbn [bufs_of offsets].
        assert (Hge : Z.of_nat (length higher) + G <= tot higher) by (rewrite HGh; apply tot_ge_length).
        assert (Hlh : length higher = S (length rest)) by (rewrite Eh; reflexivity).
        unfold zlen in Hlo. lia. }
      cbn [bufs_of offsets] in ES. rewrite ES. eauto.
  Qed.
End TailTotal.

(* build_trie on a well-formed table = its second half run on the closed, renamed chain *)
Lemma build_trie_reduce V s dicts : wf_dicts V s dicts = true ->
  exists G U O uni higher,
    build_trie V s dicts = build_tail V s (length dicts) G U O (O + G - U) (O + G) uni higher /\
    length dicts = S (length higher) /\
    asc (in_range (V + shiftz V s)) 1 (uni :: higher) /\
    (forall x, 0 <= x < V + shiftz V s -> In [x] (map fst uni)) /\
    U = V + shiftz V s + (if Nat.eqb (length dicts) 1 then 0 else 1) /\
    zlen uni + tot higher = O + G /\
    G = zlen (last (uni :: higher) []) /\
    zlen uni = V + shiftz V s /\
    (forall top lower, rev dicts = top :: lower -> closed V s top lower = uni :: higher).
Proof.
  intros Hwfb. destruct (wf_dicts_spec V s dicts Hwfb) as (HV & Hwf & (top & lower & Hrev & Htop) & Hk).
  rewrite build_trie_core, Hrev, Hk. cbn [negb].
  destruct top as [|e0 top']; [congruence|]. set (top := e0 :: top') in *.
  destruct (closed0_spec V s dicts top lower ltac:(lia) Hrev Hwf Htop)
    as (uni0 & higher0 & E0 & Hasc0 & Hf2 & Hcomp & Hukeys).
  pose proof (asc_ren V s ltac:(lia) _ _ Hasc0) as Hasc. cbn [map] in Hasc.
  assert (Huni0 : zlen uni0 = V + shiftz V s).
  { apply uni_count; try assumption; try lia. apply Hasc0. }
  assert (HN : length dicts = S (length higher0)) by (rewrite (Forall2_len _ _ _ Hf2); reflexivity).
  unfold build_core. rewrite E0. cbn [map].
  set (uni := map (ren_entry V s) uni0) in *.
  set (higher := map (fun d => map (ren_entry V s) d) higher0) in *.
  assert (Hcomp' : forall x, 0 <= x < V + shiftz V s -> In [x] (map fst uni)).
  { intros x Hx. unfold uni. rewrite map_map. cbn [ren_entry fst].
    assert (Hx0 : exists x0, In x0 (uni_toks V s) /\ ren V s x0 = x).
    { unfold uni_toks, ren, shiftz in *. destruct (shiftb V s) eqn:Es; unfold shiftb in Es; cbn [andb].
      - destruct (Z.eq_dec x V) as [->|Hne].
        + exists s. split; [apply in_or_app; right; left; reflexivity|]. replace (s =? s) with true by lia. reflexivity.
        + exists x. split; [apply in_or_app; left; apply zrange_in; lia|]. replace (x =? s) with false by lia. reflexivity.
      - exists x. split; [rewrite app_nil_r; apply zrange_in; lia|reflexivity]. }
    destruct Hx0 as (x0 & Hx0 & <-). specialize (Hcomp x0 Hx0).
    apply in_map_iff in Hcomp as (e & He & Hin). apply in_map_iff. exists e. split; [|exact Hin].
    rewrite He. reflexivity. }
  assert (Hzu : zlen uni = V + shiftz V s) by (unfold uni, zlen; rewrite map_length; exact Huni0).
  assert (Htot : zlen uni + tot higher =
                 fold_right (fun d acc => zlen d + acc) 0 (uni0 :: higher0) + (Z.of_nat (length dicts) - 1)).
  { unfold higher. rewrite tot_map. cbn [fold_right]. unfold zlen at 1. unfold uni. rewrite map_length.
    unfold zlen. lia. }
  assert (HG : zlen (last (uni0 :: higher0) []) = zlen (last (uni :: higher) [])).
  { change (uni :: higher) with (map (fun d => map (ren_entry V s) d) (uni0 :: higher0)).
    symmetry. apply (last_map_len (ren_entry V s) (uni0 :: higher0) []). }
  assert (HNh : length dicts = S (length higher)) by (unfold higher; rewrite map_length; exact HN).
  set (G := zlen (last (uni0 :: higher0) [])) in *.
  set (total := fold_right (fun d acc => zlen d + acc) 0 (uni0 :: higher0)) in *.
  set (U := V + shiftz V s + (if Nat.eqb (length dicts) 1 then 0 else 1)) in *.
  set (O := total - G + (Z.of_nat (length dicts) - 1)) in *.
  exists G, U, O, uni, higher. split; [reflexivity|]. split; [exact HNh|]. split; [exact Hasc|].
  split; [exact Hcomp'|]. split; [reflexivity|]. split; [unfold O; lia|]. split; [exact HG|]. split; [exact Hzu|].
  intros top2 lower2 Hrev2. injection Hrev2 as <- <-.
  unfold closed. rewrite E0. reflexivity.
Qed.

Theorem build_trie_total V s dicts : wf_dicts V s dicts = true -> exists bt, build_trie V s dicts = Some bt.
Proof.
  intros Hwfb. pose proof (wf_dicts_spec V s dicts Hwfb) as (HV & _).
  destruct (build_trie_reduce V s dicts Hwfb) as (G & U & O & uni & higher & E & HN & Hasc & Hcomp & HU & HP & HG & Huni & _).
  rewrite E.
  apply (build_tail_some V s (length dicts) G U O (O + G - U) (O + G) uni higher HV HN Hasc Hcomp);
    try reflexivity; try assumption; lia.
Qed.
