(* C15 — tie lemmas, part 2b: the learning-rate block followed by the three recording assignments. *)
From Coq Require Import ZArith QArith List String Bool Arith Lia ZifyBool ZifyNat ZifyComparison.
From PV Require Import C15.Model.
From PV Require Import MiniPy.Syntax MiniPy.Interp Gen.C15Src C15.SrcRun C15.TieLib C15.TieLoop.
Import ListNotations.
Local Open Scope string_scope.
Local Open Scope Z_scope.

#[local] Arguments Z.sub : simpl never.
#[local] Arguments Z.add : simpl never.
#[local] Arguments Z.mul : simpl never.
#[local] Arguments Z.max : simpl never.
#[local] Arguments Z.of_nat : simpl never.
#[local] Arguments Z.to_nat : simpl never.
#[local] Arguments Z.eqb : simpl never.
#[local] Arguments Z.leb : simpl never.
#[local] Arguments Z.ltb : simpl never.
#[local] Arguments Z.compare : simpl never.
#[local] Arguments Qred : simpl never.
#[local] Arguments Qmult : simpl never.
#[local] Arguments Qminus : simpl never.
#[local] Arguments Qplus : simpl never.
#[local] Arguments Qcompare : simpl never.
#[local] Arguments Qeq_bool : simpl never.
#[local] Arguments Qle_bool : simpl never.
#[local] Arguments enc_cache : simpl never.
#[local] Arguments enc_user : simpl never.

(* ... followed by info["epoch"] = epoch; info["val_met"] = val_met; info["train_met"] = train_met *)
Lemma rlr_rec_tie p c os dflt r u epoch va train cont x y lr : r_lr r = Some lr ->
  rlr_rec_expected p c os dflt r u epoch va train cont lr
    (exec ext15 (seq_app ufe_rlr ufe_record)
       (st_of (vars_es (enc_self p c) (enc_opt os dflt) (enc_row_u r u) epoch va train cont x y))).
Proof.
  intros Hlr. rewrite enc_opt_optv.
  unfold rlr_rec_expected, var_in, rlr_step, Qlt_b, below, nonzero, ufe_rlr, ufe_record, st_of, vars_es, vars_ctl,
    enc_row_u, enc_self, enc_params, set_rlr, set_rec, optv, vlog10.
  cbn [seq_app]. rewrite Hlr.
  rlr_script.
Qed.
