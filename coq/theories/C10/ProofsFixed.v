(* C10 - policy 'fixed': the arange formulas yield exactly the documented windows. *)
From Coq Require Import List ZArith Bool Arith Lia Sorted.
From PV Require Import C10.Model C10.Spec C10.Lists.
Import ListNotations.
Local Open Scope Z_scope.

(* number of k >= 0 with k * s < X *)
Lemma ceil_count : forall s X k, 0 < s -> (k < (X + s - 1) / s <-> k * s < X).
Proof.
  intros s X k Hs. split; intros H.
  - pose proof (Z.mul_div_le (X + s - 1) s Hs). nia.
  - assert (k + 1 <= (X + s - 1) / s) by (apply Z.div_le_lower_bound; nia). lia.
Qed.

Lemma ceil_count_nat : forall s X (k : nat), 0 < s ->
  ((k < Z.to_nat ((X + s - 1) / s))%nat <-> Z.of_nat k * s < X).
Proof. intros s X k Hs. rewrite <- (ceil_count s X (Z.of_nat k) Hs). lia. Qed.

(* windows in arithmetic progression *)
Definition lin_windows (s0 size m0 shift : Z) (n : nat) : list (Z * Z * Z) :=
  map (fun k => (s0 + Z.of_nat k * shift, s0 + Z.of_nat k * shift + size, m0 + Z.of_nat k * shift)) (seq 0 n).

Definition fx_m0 (wt : wtype) (vo : bool) (lobe : Z) : Z :=
  if vo then fx_size wt lobe - 1 else match wt with Symmetric => (lobe + 1) / 2 | _ => 0 end.

(* how many windows the code computes from T *)
Definition fx_count (v : variant) (T lobe : Z) (wt : wtype) (vo : bool) : nat :=
  let shift := lobe + 1 in
  match wt, vo with
  | Symmetric, true => Z.to_nat ((Z.max (T - (2 * lobe + 1) + 1) 0 - 0 + shift - 1) / shift)
  | Symmetric, false => Z.to_nat ((if d3 v then (T + shift / 2) / shift else (T - shift / 2 + shift - 1) / shift) - 0 + 1 - 1)
  | _, true => Z.to_nat ((Z.max (T - lobe) 0 - 0 + shift - 1) / shift)
  | Causal, false => Z.to_nat ((T - lobe - - lobe + shift - 1) / shift)
  | Future, false => Z.to_nat ((T - 0 + shift - 1) / shift)
  end.

Lemma half_sym : forall lobe, 0 <= lobe -> (1 + 2 * lobe) / 2 = lobe.
Proof. intros. replace (1 + 2 * lobe) with (lobe * 2 + 1) by lia. rewrite Z.div_add_l by lia. cbn. lia. Qed.
Lemma half_sym' : forall lobe, 0 <= lobe -> (2 * lobe + 1) / 2 = lobe.
Proof. intros. rewrite <- (half_sym lobe) at 2 by lia. f_equal. lia. Qed.

Lemma fixed_windows_lin : forall v T lobe wt vo, 0 <= lobe ->
  fixed_windows v T lobe wt vo
  = lin_windows (fx_off wt vo lobe) (fx_size wt lobe) (fx_m0 wt vo lobe) (lobe + 1) (fx_count v T lobe wt vo).
Proof.
  intros v T lobe wt vo Hl. unfold fixed_windows, lin_windows, fx_count, arange.
  pose proof (half_sym lobe Hl) as Hh. pose proof (half_sym' lobe Hl) as Hh'.
  destruct wt, vo; cbn [fx_off fx_size fx_m0]; rewrite ?Z.div_1_r, map_map; apply map_ext; intros k;
    rewrite ?Hh, ?Hh'; repeat (apply f_equal2; try lia).
Qed.

(* a monotone predicate filters a prefix *)
Lemma filter_seq_prefix : forall (p : nat -> bool) (c n : nat),
  (forall k, p k = true <-> (k < c)%nat) -> filter p (seq 0 n) = seq 0 (Nat.min n c).
Proof.
  intros p c n H. induction n as [|n IH]; [reflexivity|].
  rewrite seq_S, filter_app, IH. cbn [filter Nat.add].
  destruct (p n) eqn:Hp.
  - apply H in Hp. replace (Nat.min (S n) c) with (S n) by lia. replace (Nat.min n c) with n by lia.
    now rewrite seq_S.
  - assert (~ (n < c)%nat) by (rewrite <- H; congruence).
    replace (Nat.min (S n) c) with (Nat.min n c) by lia. apply app_nil_r.
Qed.

Lemma filter_lin : forall s0 size m0 shift n L, 0 < shift ->
  filter (fun w => L >? snd w) (lin_windows s0 size m0 shift n)
  = lin_windows s0 size m0 shift (Nat.min n (Z.to_nat ((L - m0 + shift - 1) / shift))).
Proof.
  intros s0 size m0 shift n L Hs. unfold lin_windows.
  rewrite <- (filter_seq_prefix (fun k => L >? m0 + Z.of_nat k * shift)).
  - induction (seq 0 n) as [|k l IH]; [reflexivity|]. cbn [map filter snd].
    destruct (L >? m0 + Z.of_nat k * shift); cbn [map]; now rewrite IH.
  - intros k. rewrite (ceil_count_nat shift (L - m0) k Hs), Z.gtb_ltb, Z.ltb_lt. lia.
Qed.

Lemma map_win_lin : forall wt vo lobe m0 n,
  map win_of (lin_windows (fx_off wt vo lobe) (fx_size wt lobe) m0 (lobe + 1) n)
  = map (fun k => fx_win wt vo lobe (Z.of_nat k)) (seq 0 n).
Proof. intros. unfold lin_windows. rewrite map_map. apply map_ext. intros k. reflexivity. Qed.

(* the code's count (repaired) is the number of windows the policy keeps for a sequence of length T *)
Lemma fx_count_keep : forall v T lobe wt vo (k : nat), d3 v = false -> 0 <= lobe -> 0 <= T ->
  ((k < fx_count v T lobe wt vo)%nat <-> fx_keep wt vo lobe T (Z.of_nat k)).
Proof.
  intros v T lobe wt vo k Hv Hl HT. unfold fx_count, fx_keep, fx_win, fx_mid, inside. rewrite Hv.
  pose proof (half_sym lobe Hl) as Hh.
  assert (Hs : 0 < lobe + 1) by lia.
  destruct wt, vo; cbn [fx_off fx_size fst snd]; rewrite ?Hh.
  - rewrite (ceil_count_nat (lobe + 1) _ k Hs). nia.
  - replace ((T - (lobe + 1) / 2 + (lobe + 1) - 1) / (lobe + 1) - 0 + 1 - 1)
      with ((T - (lobe + 1) / 2 + (lobe + 1) - 1) / (lobe + 1)) by lia.
    rewrite (ceil_count_nat (lobe + 1) _ k Hs). lia.
  - rewrite (ceil_count_nat (lobe + 1) _ k Hs). nia.
  - rewrite (ceil_count_nat (lobe + 1) _ k Hs). lia.
  - rewrite (ceil_count_nat (lobe + 1) _ k Hs). nia.
  - rewrite (ceil_count_nat (lobe + 1) _ k Hs). lia.
Qed.

(* the in_lens mask keeps the windows the policy keeps for a sequence of length L *)
Lemma fx_mask_keep : forall lobe wt vo L (k : nat), 0 <= lobe ->
  ((k < Z.to_nat ((L - fx_m0 wt vo lobe + (lobe + 1) - 1) / (lobe + 1)))%nat
   <-> (if vo then snd (fx_win wt vo lobe (Z.of_nat k)) <= L else fx_mid wt lobe (fx_win wt vo lobe (Z.of_nat k)) < L)).
Proof.
  intros lobe wt vo L k Hl. assert (Hs : 0 < lobe + 1) by lia.
  rewrite (ceil_count_nat (lobe + 1) _ k Hs). unfold fx_m0, fx_win, fx_mid.
  pose proof (half_sym lobe Hl) as Hh.
  destruct wt, vo; cbn [fx_off fx_size fst snd]; rewrite ?Hh; lia.
Qed.

Lemma fx_valid_start : forall wt lobe (k : nat), 0 <= lobe -> 0 <= fst (fx_win wt true lobe (Z.of_nat k)).
Proof. intros. unfold fx_win, fx_off. cbn [fst]. nia. Qed.

Lemma fx_keep_mono : forall wt vo lobe L L' k, L <= L' -> fx_keep wt vo lobe L k -> fx_keep wt vo lobe L' k.
Proof. intros wt vo lobe L L' k H. unfold fx_keep, inside. destruct vo; lia. Qed.

(* one sequence *)
Lemma fixed_seq_model : forall v T lobe wt vo (L : option Z),
  d3 v = false -> 0 <= lobe -> 0 <= T -> match L with Some l => 0 <= l <= T | None => True end ->
  fixed_seq_spec wt vo lobe (match L with Some l => l | None => T end)
    (map win_of (match L with
                 | Some l => filter (fun w => l >? snd w) (fixed_windows v T lobe wt vo)
                 | None => fixed_windows v T lobe wt vo
                 end)).
Proof.
  intros v T lobe wt vo L Hv Hl HT HL. rewrite (fixed_windows_lin v T lobe wt vo Hl).
  destruct L as [l|].
  - rewrite filter_lin by lia. rewrite map_win_lin.
    eexists. split; [reflexivity|]. intros k.
    rewrite Nat.min_glb_lt_iff, (fx_count_keep v T lobe wt vo k Hv Hl HT), (fx_mask_keep lobe wt vo l k Hl).
    unfold fx_keep, inside. pose proof (fx_valid_start wt lobe k Hl).
    destruct vo.
    + split; [intros [[H1 H2] H3]; split; assumption|intros [H1 H2]; repeat split; try assumption; lia].
    + split; [intros [H1 H2]; assumption|intros H1; split; [lia|assumption]].
  - rewrite map_win_lin. eexists. split; [reflexivity|]. intros k.
    apply (fx_count_keep v T lobe wt vo k Hv Hl HT).
Qed.

Definition lens_ok (N : nat) (T : Z) (in_lens : option (list Z)) : Prop :=
  match in_lens with
  | Some ls => length ls = N /\ Forall (fun l => 0 <= l <= T) ls
  | None => True
  end.
Definition len_of (T : Z) (in_lens : option (list Z)) (n : nat) : Z :=
  match in_lens with Some ls => nth n ls 0 | None => T end.

Theorem fixed_windows_spec : forall v N T in_lens wt vo lobe,
  d3 v = false -> 0 <= lobe -> 0 <= T -> lens_ok N T in_lens ->
  exists out, slice_fixed v N T in_lens wt vo lobe = Some out
              /\ fixed_spec N (len_of T in_lens) wt vo lobe out.
Proof.
  intros v N T in_lens wt vo lobe Hv Hl HT Hok. unfold slice_fixed.
  destruct in_lens as [ls|]; cbn [lens_ok len_of] in *.
  - destruct Hok as [Hlen Hall]. rewrite Hlen, Nat.eqb_refl. eexists. split; [reflexivity|].
    exists (fun n => map win_of (filter (fun w => nth n ls 0 >? snd w) (fixed_windows v T lobe wt vo))).
    split.
    + unfold labelled. apply flat_map_ext_in. intros n _. now rewrite map_map.
    + intros n Hn. apply (fixed_seq_model v T lobe wt vo (Some (nth n ls 0)) Hv Hl HT).
      rewrite Forall_forall in Hall. apply Hall, nth_In. lia.
  - eexists. split; [reflexivity|].
    exists (fun _ => map win_of (fixed_windows v T lobe wt vo)). split.
    + unfold labelled. apply flat_map_ext_in. intros n _. now rewrite map_map.
    + intros n _. apply (fixed_seq_model v T lobe wt vo None Hv Hl HT I).
Qed.

(* ---- the spec determines its output ---- *)
Lemma fixed_seq_spec_unique : forall wt vo lobe L o1 o2,
  fixed_seq_spec wt vo lobe L o1 -> fixed_seq_spec wt vo lobe L o2 -> o1 = o2.
Proof.
  intros wt vo lobe L o1 o2 (K1 & E1 & H1) (K2 & E2 & H2).
  assert (K1 = K2).
  { destruct (Nat.lt_trichotomy K1 K2) as [H|[H|H]]; [|assumption|].
    - apply H2, H1 in H. lia.
    - apply H1, H2 in H. lia. }
  subst. reflexivity.
Qed.

Theorem fixed_spec_unique : forall N len wt vo lobe o1 o2,
  fixed_spec N len wt vo lobe o1 -> fixed_spec N len wt vo lobe o2 -> o1 = o2.
Proof.
  intros N len wt vo lobe o1 o2 (p1 & E1 & H1) (p2 & E2 & H2). subst.
  apply labelled_ext. intros n Hn. eapply fixed_seq_spec_unique; [apply H1|apply H2]; assumption.
Qed.

(* ---- valid_only windows lie inside their sequence ---- *)
Theorem fixed_valid_inside : forall N len wt lobe out,
  fixed_spec N len wt true lobe out ->
  forall w n, In (w, Z.of_nat n) out -> (n < N)%nat /\ inside (len n) w.
Proof.
  intros N len wt lobe out (per & E & H) w n Hin. subst out. unfold labelled in Hin.
  apply in_flat_map in Hin as (m & Hm & Hin). apply in_seq in Hm.
  apply in_map_iff in Hin as (w' & Heq & Hin). inversion Heq; subst w'.
  apply Nat2Z.inj in H2. subst m. split; [lia|].
  destruct (H n ltac:(lia)) as (K & EK & HK). rewrite EK in Hin.
  apply in_map_iff in Hin as (k & Hk & Hin). apply in_seq in Hin. subst w.
  apply (HK k). lia.
Qed.

(* ---- D3: as coded, with in_lens omitted, a window with its middle at T is returned ---- *)
Theorem fixed_d3_refuted :
  exists out, slice_fixed as_coded 1 1 None Symmetric false 1 = Some out
              /\ ~ fixed_spec 1 (len_of 1 None) Symmetric false 1 out.
Proof.
  exists [((0, 3), 0)]. split; [reflexivity|]. intros Hspec.
  destruct (fixed_windows_spec repaired 1 1 None Symmetric false 1 eq_refl ltac:(lia) ltac:(lia) I) as (o & Ho & Hs).
  vm_compute in Ho. inversion Ho; subst o.
  pose proof (fixed_spec_unique _ _ _ _ _ _ _ Hspec Hs). discriminate.
Qed.

(* ... but only with in_lens omitted: the mask removes the extra window *)
Lemma fx_count_d3_ge : forall v T lobe wt vo, 0 <= lobe -> 0 <= T ->
  (fx_count repaired T lobe wt vo <= fx_count v T lobe wt vo)%nat.
Proof.
  intros v T lobe wt vo Hl HT. unfold fx_count. destruct wt, vo; try lia.
  cbn [d3 repaired]. destruct (d3 v); [|lia].
  assert ((T - (lobe + 1) / 2 + (lobe + 1) - 1) / (lobe + 1) <= (T + (lobe + 1) / 2) / (lobe + 1)).
  { apply Z.div_le_mono; [lia|]. pose proof (Z.mul_div_le (lobe + 1) 2 ltac:(lia)).
    pose proof (Z.mod_pos_bound (lobe + 1) 2 ltac:(lia)). pose proof (Z.div_mod (lobe + 1) 2 ltac:(lia)). lia. }
  lia.
Qed.

Theorem fixed_given_lens_agree : forall v N T ls wt vo lobe,
  0 <= lobe -> 0 <= T -> lens_ok N T (Some ls) ->
  slice_fixed v N T (Some ls) wt vo lobe = slice_fixed repaired N T (Some ls) wt vo lobe.
Proof.
  intros v N T ls wt vo lobe Hl HT [Hlen Hall]. unfold slice_fixed. rewrite Hlen, Nat.eqb_refl. f_equal.
  apply flat_map_ext_in. intros n Hn. apply in_seq in Hn. f_equal.
  rewrite !fixed_windows_lin, !filter_lin by lia. f_equal.
  pose proof (fx_count_d3_ge v T lobe wt vo Hl HT).
  assert (Hc : (Z.to_nat ((nth n ls 0%Z - fx_m0 wt vo lobe + (lobe + 1) - 1) / (lobe + 1)) <= fx_count repaired T lobe wt vo)%nat).
  { rewrite Forall_forall in Hall. assert (HL : 0 <= nth n ls 0 <= T) by (apply Hall, nth_In; lia).
    destruct (Nat.le_gt_cases (Z.to_nat ((nth n ls 0%Z - fx_m0 wt vo lobe + (lobe + 1) - 1) / (lobe + 1))%Z)
                              (fx_count repaired T lobe wt vo)) as [H'|H']; [assumption|exfalso].
    set (c := Z.to_nat _) in H'. assert (Hk : (fx_count repaired T lobe wt vo < c)%nat) by lia.
    subst c. apply (fx_mask_keep lobe wt vo (nth n ls 0) _ Hl) in Hk.
    assert (Hk' : fx_keep wt vo lobe T (Z.of_nat (fx_count repaired T lobe wt vo))).
    { unfold fx_keep, inside. pose proof (fx_valid_start wt lobe (fx_count repaired T lobe wt vo) Hl).
      destruct vo; [split; [assumption|lia]|lia]. }
    apply (fx_count_keep repaired T lobe wt vo _ eq_refl Hl HT) in Hk'. lia. }
  lia.
Qed.
