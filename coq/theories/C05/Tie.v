(* C05 — tie, part 2: the tensor program [TieRun.adv_tensor] (= the interpreted source of
   `ctc_prefix_search_advance`, TieRun.run_is_adv) evaluated on the tensors that encode a frame and a beam of the
   model (ONE batch element, N = 1) computes exactly the tensors that encode Model.advance's result - for every
   vocabulary size >= 1, width >= 1, frame, well-formed beam (ProofsModel.wf) and every answer [choice] of the
   topk oracle that has Kout entries, all of them candidate indices (in particular the model's stable selection).
   Block by block, in the order the blocks execute:
     A candidates      invalid_prev .. nb_nonext_probs_cand          [cands_model]
     B to_match                                                      [to_match_model]
     C merge           ext_is_exact .. tot_probs_cand                [merge_model]
     D choose          topk .. y_next_last                           [choose_model]
     E prefix matrix   next_prefix_is_prefix .. next_is_prefix       [prefix_model]
     F padding         `if K < width:` .. return                     [pad_model] *)
From Coq Require Import ZArith QArith Qcanon List String Bool Arith Lia ZifyBool ZifyNat.
From PV Require Import MiniPy.Syntax MiniPy.Interp MiniTorch.Ops MiniTorch.OpsC05 MiniTorch.LemmasC05 Gen.C05Src.
From PV Require Import C05.Model C05.ProofsModel C05.ProofsSearch C05.ProofsTopk C05.SrcRun C05.TieRun.
Import ListNotations.
Local Open Scope nat_scope.

#[local] Ltac Zify.zify_post_hook ::= Z.to_euclidean_division_equations.

Tactic Notation "bstep" uconstr(L) := rewrite L; cbn [bo].

Section Adv.
Variable sel : nat -> list mass -> nat -> list nat.
Variables (V width : nat) (fr : frame) (bm : beam) (choice : list nat).
Hypothesis Hsel : sel 0 (map (cand V fr bm) (seq 0 (ncand V bm))) (Kout V bm width) = choice.
Hypothesis Vpos : 1 <= V.
Hypothesis Wpos : 1 <= width.
Hypothesis W : wf bm.
Hypothesis Clen : List.length choice = Kout V bm width.
Hypothesis Crange : forall i, List.In i choice -> i < ncand V bm.

Let K' := Kp bm.
Let S := b_t bm.
Let K := Kout V bm width.

Lemma Kp_pos : 1 <= K'. Proof. apply (wf_pos bm W). Qed.

(* ---- the argument tensors, tabulated ---------------------------------------------------------------- *)
Lemma enc_ext_T : enc_ext V fr bm = T3 1 K' V (fun _ k v => Fin (extp fr k v)). Proof. reflexivity. Qed.
Lemma enc_nonext_T : enc_nonext V fr = T2 1 V (fun _ v => Fin (nth v (f_nonext fr) 0%Qc)). Proof. reflexivity. Qed.
Lemma enc_blank_T : enc_blank fr = T1 1 (fun _ => Fin (f_blank fr)). Proof. reflexivity. Qed.
Lemma enc_nb_T : enc_nb bm = T2 1 K' (fun _ k => nth k (b_nb bm) NegInf). Proof. reflexivity. Qed.
Lemma enc_bb_T : enc_bb bm = T2 1 K' (fun _ k => nth k (b_b bm) NegInf). Proof. reflexivity. Qed.
Lemma enc_y_T : enc_y bm = T3 S 1 K' (fun s _ k => Z.of_nat (ycell bm k s)). Proof. reflexivity. Qed.
Lemma enc_last_T : enc_last bm = T2 1 K' (fun _ k => Z.of_nat (nth k (b_last bm) 0)). Proof. reflexivity. Qed.
Lemma enc_lens_T : enc_lens bm = T2 1 K' (fun _ k => Z.of_nat (lens bm k)). Proof. reflexivity. Qed.
Lemma enc_isp_T : enc_isp bm = T3 1 K' K' (fun _ k k' => isp bm k k'). Proof. reflexivity. Qed.

(* ---- A. candidates -------------------------------------------------------------------------------------- *)
Definition t_invalid : tn bool := T2 1 K' (fun _ k => invalid bm k).
Definition t_last : tn Z := T2 1 K' (fun _ k => Z.of_nat (lastc V bm k)).
Definition t_nbext : tn mass := T3 1 K' V (fun _ k v => Fin (nb_ext V fr bm k v)).
Definition t_bnon : tn mass := T2 1 K' (fun _ k => Fin (b_nonext fr bm k)).
Definition t_nbnon : tn mass := T2 1 K' (fun _ k => Fin (nb_nonext0 V fr bm k)).

Lemma masked_nb k :
  (if invalid bm k then F0 else nth k (b_nb bm) NegInf) = Fin (nbq bm k).
Proof.
  unfold nbq, invalid, F0. destruct (nth k (b_nb bm) NegInf), (nth k (b_b bm) NegInf); reflexivity.
Qed.
Lemma masked_b k :
  (if invalid bm k then F0 else nth k (b_b bm) NegInf) = Fin (bq bm k).
Proof.
  unfold bq, invalid, F0. destruct (nth k (b_nb bm) NegInf), (nth k (b_b bm) NegInf); reflexivity.
Qed.

Lemma lastc_lt k : lastc V bm k < V. Proof. unfold lastc, clampV. lia. Qed.

Lemma clamp_nat x : Z.min (Z.max (Z.of_nat x) 0) (Z.of_nat V - 1) = Z.of_nat (clampV V x).
Proof. unfold clampV. lia. Qed.

Lemma is_fin_Fin q : is_fin (Fin q) = true. Proof. reflexivity. Qed.

Lemma cands_model :
  adv_cands 1 K' V (enc_ext V fr bm) (enc_nonext V fr) (enc_blank fr) (enc_nb bm) (enc_bb bm) (enc_last bm)
  = Some (mkCands t_invalid t_last t_nbext t_bnon t_nbnon).
Proof.
  unfold adv_cands. rewrite enc_ext_T, enc_nonext_T, enc_blank_T, enc_nb_T, enc_bb_T, enc_last_T.
  unfold fadd at 1. bstep zipb_T2_same. unfold feq_neginf. rewrite tmap_T2. fold t_invalid.
  change (T2 1 K' (fun _ k => is_neginf (madd (nth k (b_nb bm) NegInf) (nth k (b_b bm) NegInf)))) with t_invalid.
  unfold t_invalid at 1 2. bstep masked_fill_T2_same. bstep masked_fill_T2_same.
  rewrite (T2_ext 1 K' _ (fun _ k => Fin (nbq bm k))) by (intros; apply masked_nb).
  rewrite (T2_ext 1 K' (fun _ j => if invalid bm j then F0 else nth j (b_b bm) NegInf) (fun _ k => Fin (bq bm k)))
    by (intros; apply masked_b).
  unfold fadd at 1. bstep zipb_T2_same.
  unfold iclamp. rewrite tmap_T2.
  rewrite (T2_ext 1 K' _ (fun _ k => Z.of_nat (lastc V bm k))) by (intros; apply clamp_nat).
  bstep unsqueeze_T2_2. change (Z.of_nat 1) with 1%Z.
  replace [1%Z; Z.of_nat K'; Z.of_nat V] with [Z.of_nat 1; Z.of_nat K'; Z.of_nat V] by reflexivity.
  bstep expand_T3_last. bstep unsqueeze_T2_2.
  rewrite scatter_value_T3_2 by (intros; pose proof (lastc_lt j); lia). cbn [bo].
  bstep unsqueeze_T2_2. unfold fadd at 1. bstep zipb_T3_last1.
  unfold fmul at 1. rewrite !forallb_T3 by (intros; try destruct (_ =? _); reflexivity). cbn [andb].
  bstep zipb_T3_same.
  rewrite (T3_ext 1 K' V _ (fun _ k v => Fin (nb_ext V fr bm k v))).
  2:{ intros i k v _ _ _. unfold nb_ext, F0. rewrite Nat2Z.id. destruct (v =? lastc V bm k); reflexivity. }
  bstep unsqueeze_T1_1.
  unfold fmul at 1. rewrite !forallb_T2 by (intros; reflexivity). cbn [andb].
  bstep zipb_T2_col.
  rewrite gather_T2_1; [|lia|intros; pose proof (lastc_lt j); lia]. cbn [bo].
  unfold fmul at 1. rewrite !forallb_T2 by (intros; reflexivity). cbn [andb].
  bstep zipb_T2_same.
  unfold t_last, t_nbext, t_bnon, t_nbnon. do 2 f_equal. apply T2_ext. intros i k _ _. unfold nb_nonext0.
  now rewrite Nat2Z.id.
Qed.

(* ---- B. to_match ------------------------------------------------------------------------------------------ *)
Definition t_tm : tn Z := T3 1 K' K' (fun _ k k' => Z.of_nat (to_match V bm k k')).

Lemma to_match_model : adv_to_match 1 K' V S (enc_y bm) (enc_lens bm) = Some t_tm.
Proof.
  unfold adv_to_match. rewrite enc_y_T, enc_lens_T. destruct (Nat.eqb_spec S 0) as [HS|HS].
  - replace (negb (Z.of_nat S =? 0)%Z) with false by lia. rewrite full_T3. f_equal. apply T3_ext.
    intros i k k' _ _ _. unfold to_match. fold S. rewrite HS. reflexivity.
  - replace (negb (Z.of_nat S =? 0)%Z) with true by lia. unfold iclamp. rewrite tmap_T2.
    bstep unsqueeze_T2_2. bstep expand_T3_last. bstep transpose_T3_01.
    rewrite gather_T3_0; [|lia|lia|intros; lia]. cbn [bo]. bstep transpose_T3_01. rewrite tmap_T3.
    f_equal. apply T3_ext. intros i k k' _ _ _. rewrite clamp_nat. unfold to_match. fold S.
    replace (S =? 0) with false by (symmetry; apply Nat.eqb_neq; exact HS). do 3 f_equal. lia.
Qed.

(* ---- C. the merge of an extension into an identical existing prefix; the candidate vector ---------------- *)
Definition t_nbext_c : tn mass := T3 1 K' V (fun _ k v => nb_ext_c V fr bm k v).
Definition t_nbnon_c : tn mass := T2 1 K' (fun _ k => nb_nonext_c V fr bm k).
Definition t_cand : tn mass := T2 1 (ncand V bm) (fun _ => cand V fr bm).

Lemma to_match_lt k k' : to_match V bm k k' < V.
Proof. unfold to_match, clampV. destruct (b_t bm =? 0); lia. Qed.

Lemma existsb_ext_in {A} (f g : A -> bool) l : (forall x, List.In x l -> f x = g x) -> existsb f l = existsb g l.
Proof.
  induction l as [|x l IH]; intros H; [reflexivity|]. cbn [existsb]. rewrite H by (now left).
  rewrite IH; [reflexivity|]. intros y Hy. apply H. now right.
Qed.

Lemma merge_model :
  adv_merge 1 K' V (mkCands t_invalid t_last t_nbext t_bnon t_nbnon) t_tm (enc_lens bm) (enc_isp bm)
  = Some (mkMerged t_nbext_c t_nbnon_c t_cand).
Proof.
  unfold adv_merge. cbn [c_invalid c_last c_nbext c_bnon c_nbnon]. rewrite enc_lens_T, enc_isp_T.
  unfold iadd_s. rewrite tmap_T2. bstep unsqueeze_T2_2. bstep unsqueeze_T2_1.
  unfold ieq at 1. bstep zipb_T3_outer. unfold band at 1. bstep zipb_T3_same.
  rewrite (T3_ext 1 K' K' _ (fun _ k k' => ext_is_exact bm k k')).
  2:{ intros i k k' _ _ _. unfold ext_is_exact. f_equal. destruct (Nat.eqb_spec (lens bm k + 1) (lens bm k')); lia. }
  unfold t_nbext at 1, t_tm at 1.
  rewrite gather_T3_2; [|lia|lia|intros i k k' _ _ _; pose proof (to_match_lt k k'); lia]. cbn [bo].
  unfold bnot. rewrite tmap_T3. bstep masked_fill_T3_same. bstep fsum_T3_1.
  unfold t_nbnon at 1. unfold fadd at 1. bstep zipb_T2_same.
  rewrite (T2_ext 1 K' _ (fun _ k' => Fin (nb_nonext1 V fr bm k'))).
  2:{ intros i k' _ _. unfold nb_nonext1, Model.merged. fold K'.
      rewrite (map_ext _ (fun k => Fin (if ext_is_exact bm k k' then nb_ext V fr bm k (to_match V bm k k') else 0%Qc))).
      - rewrite fold_madd_fin. reflexivity.
      - intros k. rewrite Nat2Z.id. unfold F0. destruct (ext_is_exact bm k k'); reflexivity. }
  unfold t_tm at 1.
  rewrite one_hot_T3; [|exact Vpos|intros i k k' _ _ _; pose proof (to_match_lt k k'); lia]. cbn [bo].
  unfold to_bool. rewrite tmap_T4. bstep unsqueeze_T3_3. unfold band at 1. bstep zipb_T4_last1. bstep bany_T4_2.
  rewrite (T3_ext 1 K' V _ (fun _ k v => has_match V bm k v)).
  2:{ intros i k v _ _ _. unfold has_match. fold K'. apply existsb_ext_in. intros k' _. rewrite Nat2Z.id. f_equal.
      rewrite (Nat.eqb_sym (to_match V bm k k') v). destruct (v =? to_match V bm k k'); reflexivity. }
  unfold t_nbext at 1. bstep masked_fill_T3_same. unfold t_invalid at 1. bstep unsqueeze_T2_2.
  bstep masked_fill_T3_last1.
  rewrite (T3_ext 1 K' V _ (fun _ k v => nb_ext_c V fr bm k v)).
  2:{ intros i k v _ _ _. unfold nb_ext_c. destruct (invalid bm k), (has_match V bm k v); reflexivity. }
  unfold t_invalid at 1. bstep masked_fill_T2_same.
  change (T2 1 K' (fun _ j => if invalid bm j then NegInf else Fin (nb_nonext1 V fr bm j))) with t_nbnon_c.
  change (T3 1 K' V (fun _ k v => nb_ext_c V fr bm k v)) with t_nbext_c.
  unfold t_nbext_c at 1. change 1%Z with (Z.of_nat 1). rewrite view_merge_T3 by lia. cbn [bo].
  unfold t_nbnon_c at 1, t_bnon at 1. unfold fadd at 1. bstep zipb_T2_same. bstep cat2_T2_1.
  do 3 f_equal. unfold t_cand, ncand. fold K'. replace (K' * (V + 1)) with (K' * V + K') by lia.
  apply T2_ext. intros i r _ _. unfold cand. fold K'. destruct (r <? K' * V); reflexivity.
Qed.

(* ---- D. topk and the chosen slots ------------------------------------------------------------------------ *)
Let ix (j : nat) : nat := ch choice j.

Definition t_isnon : tn bool := T2 1 K (fun _ j => c_nonext V bm (ix j)).
Definition t_src : tn Z := T2 1 K (fun _ j => Z.of_nat (c_src V bm (ix j))).
Definition t_ext : tn Z := T2 1 K (fun _ j => Z.of_nat (c_ext V (ix j))).
Definition t_ynext : tn Z := T3 (S + 1) 1 K (fun s _ j => Z.of_nat (nth s (c_col V bm (ix j)) 0)).
Definition t_ylens : tn Z := T2 1 K (fun _ j => Z.of_nat (c_len V bm (ix j))).
Definition t_nbnext : tn mass := T2 1 K (fun _ j => c_nb V fr bm (ix j)).
Definition t_bnext : tn mass := T2 1 K (fun _ j => c_b V fr bm (ix j)).
Definition t_ylast : tn Z := T2 1 K (fun _ j => Z.of_nat (Model.c_last V bm (ix j))).

Lemma ix_lt j : j < K -> ix j < ncand V bm.
Proof. intros H. apply (ch_range V width bm choice Clen Crange j H). Qed.
Lemma src_lt j : j < K -> c_src V bm (ix j) < K'.
Proof. intros H. apply (src_range V width bm choice Vpos Wpos Clen). now apply ix_lt. Qed.
Lemma K_le_ncand : K <= ncand V bm. Proof. unfold K, Kout. lia. Qed.
Lemma KV_pos : 1 <= K' * V. Proof. pose proof Kp_pos. nia. Qed.
Lemma lens_le k : lens bm k <= S. Proof. apply (wf_len bm W). Qed.
Lemma col_len k : k < K' -> List.length (nth k (b_y bm) []) = S. Proof. apply (wf_col bm W). Qed.

Lemma znon x : (Z.of_nat K' * Z.of_nat V <=? Z.of_nat x)%Z = c_nonext V bm x.
Proof. unfold c_nonext. fold K'. destruct (Nat.leb_spec (K' * V) x); lia. Qed.

Lemma zsrc x : (if c_nonext V bm x then (Z.of_nat x - Z.of_nat K' * Z.of_nat V)%Z else Z.quot (Z.of_nat x) (Z.of_nat V))
               = Z.of_nat (c_src V bm x).
Proof.
  unfold c_src. pose proof (znon x) as E. destruct (c_nonext V bm x).
  - fold K'. lia.
  - rewrite Z.quot_div_nonneg by lia. now rewrite Nat2Z.inj_div.
Qed.

Lemma zext x : (Z.of_nat x mod Z.of_nat V)%Z = Z.of_nat (c_ext V x).
Proof. unfold c_ext. now rewrite Nat2Z.inj_mod. Qed.

Lemma col_nth j s : j < K -> s < S + 1 ->
  (if s =? lens bm (c_src V bm (ix j)) then Z.of_nat (c_ext V (ix j))
   else if s <? S then Z.of_nat (ycell bm (c_src V bm (ix j)) s) else 0%Z)
  = Z.of_nat (nth s (c_col V bm (ix j)) 0).
Proof.
  intros Hj Hs. unfold c_col. pose proof (src_lt j Hj) as Hk. pose proof (col_len _ Hk) as Hc.
  pose proof (lens_le (c_src V bm (ix j))) as Hl.
  destruct (Nat.eqb_spec s (lens bm (c_src V bm (ix j)))) as [->|Hne].
  - rewrite nth_upd_eq; [reflexivity|]. rewrite app_length, Hc. cbn [List.length]. lia.
  - rewrite nth_upd_neq by lia. destruct (Nat.ltb_spec s S).
    + rewrite app_nth1 by lia. reflexivity.
    + rewrite app_nth2 by lia. rewrite Hc. replace (s - S) with 0 by lia. reflexivity.
Qed.

Lemma choose_model :
  adv_choose sel 1 K' V S (Z.of_nat K) (mkCands t_invalid t_last t_nbext t_bnon t_nbnon)
    (mkMerged t_nbext_c t_nbnon_c t_cand) (enc_y bm) (enc_lens bm)
  = Some (mkChosen t_isnon t_src t_ext t_ynext t_ylens t_nbnext t_bnext t_ylast).
Proof.
  unfold adv_choose. cbn [c_invalid c_last c_nbext c_bnon c_nbnon m_nbext m_nbnon m_cand].
  rewrite enc_y_T, enc_lens_T. pose proof K_le_ncand as HK. pose proof KV_pos as HKV.
  unfold t_cand at 1. rewrite topk_T2; [|exact HK|].
  2:{ intros i Hi. replace i with 0 by lia. fold K in Hsel. rewrite Hsel. split; [exact Clen|exact Crange]. }
  cbn [bo].
  rewrite (T2_ext 1 K (fun i j => Z.of_nat (nth j (sel i (map (cand V fr bm) (seq 0 (ncand V bm))) K) 0))
                      (fun _ j => Z.of_nat (ix j))).
  2:{ intros i j Hi _. replace i with 0 by lia. fold K in Hsel. now rewrite Hsel. }
  unfold ige_s, isub_s, itrunc_div_s, irem_s.
  replace (Z.of_nat V =? 0)%Z with false by lia. cbn [bo]. rewrite !tmap_T2.
  rewrite (T2_ext 1 K (fun _ j => (Z.of_nat K' * Z.of_nat V <=? Z.of_nat (ix j))%Z) (fun _ j => c_nonext V bm (ix j)))
    by (intros; apply znon).
  bstep where_T2.
  rewrite (T2_ext 1 K _ (fun _ j => Z.of_nat (c_src V bm (ix j)))) by (intros; apply zsrc).
  rewrite (T2_ext 1 K (fun _ j => (Z.of_nat (ix j) mod Z.of_nat V)%Z) (fun _ j => Z.of_nat (c_ext V (ix j))))
    by (intros; apply zext).
  rewrite gather_T2_1; [|lia|intros i j _ Hj; pose proof (src_lt j Hj); lia]. cbn [bo].
  bstep unsqueeze_T2_0. change 1%Z with (Z.of_nat 1). bstep expand_T3_first.
  rewrite gather_T3_2; [|lia|lia|intros s i j _ _ Hj; pose proof (src_lt j Hj); lia]. cbn [bo].
  bstep full_T3. bstep cat2_T3_0. bstep unsqueeze_T2_0. bstep unsqueeze_T2_0.
  rewrite scatter_src_T3_0.
  2:{ intros i j _ Hj. rewrite Nat2Z.id. pose proof (lens_le (c_src V bm (ix j))). lia. }
  cbn [bo].
  rewrite (T3_ext (S + 1) 1 K _ (fun s _ j => Z.of_nat (nth s (c_col V bm (ix j)) 0))).
  2:{ intros s i j Hs _ Hj. rewrite !Nat2Z.id. rewrite <- (col_nth j s Hj Hs).
      destruct (s =? lens bm (c_src V bm (ix j))); [reflexivity|]. destruct (s <? S); reflexivity. }
  unfold bnot. rewrite !tmap_T2. unfold iadd_b at 1. bstep zipb_T2_same.
  unfold t_nbext_c at 1. rewrite view_merge_T3 by lia. cbn [bo].
  unfold iclamp. rewrite tmap_T2.
  rewrite gather_T2_1; [|lia|intros i j _ Hj; lia]. cbn [bo].
  unfold t_nbnon_c at 1.
  rewrite gather_T2_1; [|lia|intros i j _ Hj; pose proof (src_lt j Hj); lia]. cbn [bo].
  bstep where_T2.
  unfold t_bnon at 1.
  rewrite gather_T2_1; [|lia|intros i j _ Hj; pose proof (src_lt j Hj); lia]. cbn [bo].
  bstep masked_fill_T2_same.
  unfold t_last at 1.
  rewrite gather_T2_1; [|lia|intros i j _ Hj; pose proof (src_lt j Hj); lia]. cbn [bo].
  unfold imul_b at 1. bstep zipb_T2_same. unfold imul_b at 1. bstep zipb_T2_same.
  unfold iadd at 1. bstep zipb_T2_same.
  unfold t_isnon, t_src, t_ext, t_ynext, t_ylens, t_nbnext, t_bnext, t_ylast. do 2 f_equal.
  - apply T2_ext. intros i j _ Hj. rewrite Nat2Z.id. unfold c_len. destruct (c_nonext V bm (ix j)); cbn [negb b2z]; lia.
  - apply T2_ext. intros i j _ Hj. rewrite !Nat2Z.id. unfold c_nb. destruct (c_nonext V bm (ix j)); [reflexivity|].
    fold K'. match goal with |- context [Z.to_nat ?z] => replace (Z.to_nat z) with (Nat.min (ix j) (K' * V - 1)) by lia end.
    reflexivity.
  - apply T2_ext. intros i j _ Hj. rewrite Nat2Z.id. unfold c_b, F0. destruct (c_nonext V bm (ix j)); reflexivity.
  - apply T2_ext. intros i j _ Hj. rewrite Nat2Z.id. unfold Model.c_last. destruct (c_nonext V bm (ix j)); cbn [negb b2z]; lia.
Qed.

(* ---- E. the prefix-relation matrix ------------------------------------------------------------------------ *)
Definition t_nip : tn bool := T3 1 K K (fun _ j j' => c_isp V bm (ix j) (ix j')).

Lemma len_le j : c_len V bm (ix j) <= S + 1.
Proof. pose proof (c_len_le V width bm choice Vpos Wpos W Clen (ix j)). fold S in H. lia. Qed.

Lemma prefix_model :
  adv_prefix 1 K' (Z.of_nat K) (mkChosen t_isnon t_src t_ext t_ynext t_ylens t_nbnext t_bnext t_ylast) (enc_isp bm)
  = Some t_nip.
Proof.
  unfold adv_prefix. cbn [h_isnon h_src h_ext h_y h_lens h_nb h_b h_last]. rewrite enc_isp_T.
  change 1%Z with (Z.of_nat 1).
  unfold t_src at 1. bstep unsqueeze_T2_2. bstep expand_T3_last.
  rewrite gather_T3_1; [|lia|lia|intros i j k' _ Hj _; pose proof (src_lt j Hj); lia]. cbn [bo].
  unfold t_src at 1. bstep unsqueeze_T2_1. bstep expand_T3_mid.
  rewrite gather_T3_2; [|lia|lia|intros i j j' _ _ Hj; pose proof (src_lt j' Hj); lia]. cbn [bo].
  unfold t_ylens at 1. bstep unsqueeze_T2_2. unfold t_ylens at 1. bstep unsqueeze_T2_1.
  unfold ile at 1. bstep zipb_T3_outer.
  unfold isub_s, iclamp. unfold t_ylens at 1. rewrite !tmap_T2. bstep unsqueeze_T2_2. bstep expand_T3_last.
  bstep transpose_T3_01. unfold t_ynext at 1.
  rewrite gather_T3_0; [|lia|lia|intros j i j' _ _ _; pose proof (len_le j); lia]. cbn [bo].
  bstep transpose_T3_01. unfold t_ext at 1. bstep unsqueeze_T2_2. unfold ieq at 1. bstep zipb_T3_last1.
  unfold band at 1. bstep zipb_T3_same. unfold t_isnon at 1. bstep unsqueeze_T2_2. unfold t_isnon at 1.
  bstep unsqueeze_T2_2. unfold bnot. rewrite tmap_T3. unfold band at 1. bstep zipb_T3_last1_l.
  unfold bor at 1. bstep zipb_T3_last1_l. unfold band at 1. rewrite zipb_T3_same. f_equal. apply T3_ext.
  intros i j j' _ Hj Hj'. rewrite !Nat2Z.id. unfold c_isp. f_equal; [f_equal|].
  - pose proof (len_le j). pose proof (len_le j'). destruct (Nat.leb_spec (c_len V bm (ix j)) (c_len V bm (ix j'))); lia.
  - f_equal. f_equal.
    replace (Z.to_nat (Z.max (Z.of_nat (c_len V bm (ix j)) - Z.of_nat 1) 0)) with (c_len V bm (ix j) - 1) by lia.
    match goal with |- (Z.of_nat ?a =? Z.of_nat ?b)%Z = _ => destruct (Nat.eqb_spec a b); lia end.
Qed.

(* ---- F. filling to `width` with invalid slots; the returned tensors -------------------------------------- *)
Let nx : beam := fst (advance V fr bm width choice).
Let osrc : list nat := fst (snd (advance V fr bm width choice)).
Let onon : list bool := snd (snd (advance V fr bm width choice)).

Definition o_model : outs :=
  mkOuts (T3 (S + 1) 1 width (fun s _ j => Z.of_nat (ycell nx j s)))
         (T2 1 width (fun _ j => Z.of_nat (nth j (b_last nx) 0)))
         (T2 1 width (fun _ j => Z.of_nat (lens nx j)))
         (T2 1 width (fun _ j => nth j (b_nb nx) NegInf))
         (T2 1 width (fun _ j => nth j (b_b nx) NegInf))
         (T3 1 width width (fun _ j j' => isp nx j j'))
         (T2 1 width (fun _ j => Z.of_nat (nth j osrc 0)))
         (T2 1 width (fun _ j => nth j onon false)).

Lemma K_le_width : K <= width. Proof. unfold K, Kout. lia. Qed.

Lemma nx_ycell j s : j < width ->
  Z.of_nat (ycell nx j s) = if j <? K then Z.of_nat (nth s (c_col V bm (ix j)) 0) else 0%Z.
Proof.
  intros Hj. unfold ycell. change (nth j (b_y nx) []) with (col nx j). destruct (Nat.ltb_spec j K) as [H|H].
  - unfold nx. now rewrite (nx_col V width fr bm choice Clen j H).
  - unfold nx. rewrite (nx_col_fill V width fr bm choice Vpos Wpos Clen j H Hj).
    rewrite nth_repeat_if. destruct (s <? Datatypes.S (b_t bm)); reflexivity.
Qed.

Lemma nx_src j : nth j osrc 0 = if j <? K then c_src V bm (ix j) else 0.
Proof. unfold osrc, advance. cbn [fst snd]. rewrite (nth_map_app_repeat _ _ _ _ _ 0), Clen. reflexivity. Qed.
Lemma nx_non j : nth j onon false = if j <? K then c_nonext V bm (ix j) else false.
Proof. unfold onon, advance. cbn [fst snd]. rewrite (nth_map_app_repeat _ _ _ _ _ 0), Clen. reflexivity. Qed.

Lemma o_model_eq :
  o_model =
  mkOuts (T3 (S + 1) 1 width (fun s _ j => if j <? K then Z.of_nat (nth s (c_col V bm (ix j)) 0) else 0%Z))
         (T2 1 width (fun _ j => if j <? K then Z.of_nat (Model.c_last V bm (ix j)) else 0%Z))
         (T2 1 width (fun _ j => if j <? K then Z.of_nat (c_len V bm (ix j)) else 0%Z))
         (T2 1 width (fun _ j => if j <? K then c_nb V fr bm (ix j) else NegInf))
         (T2 1 width (fun _ j => if j <? K then c_b V fr bm (ix j) else NegInf))
         (T3 1 width width (fun _ j j' => if j <? K then (if j' <? K then c_isp V bm (ix j) (ix j') else false) else false))
         (T2 1 width (fun _ j => if j <? K then Z.of_nat (c_src V bm (ix j)) else 0%Z))
         (T2 1 width (fun _ j => if j <? K then c_nonext V bm (ix j) else false)).
Proof.
  unfold o_model. f_equal.
  - apply T3_ext. intros s i j _ _ Hj. now apply nx_ycell.
  - apply T2_ext. intros i j _ _. unfold nx. rewrite (nx_last V width fr bm choice Clen j). fold K. fold (ix j).
    destruct (j <? K); reflexivity.
  - apply T2_ext. intros i j _ _. unfold nx. rewrite (nx_lens V width fr bm choice Clen j). fold K. fold (ix j).
    destruct (j <? K); reflexivity.
  - apply T2_ext. intros i j _ _. unfold nx. now rewrite (nx_nb V width fr bm choice Clen j).
  - apply T2_ext. intros i j _ _. unfold nx. now rewrite (nx_b V width fr bm choice Clen j).
  - apply T3_ext. intros i j j' _ _ _. unfold nx. rewrite (nx_isp V width fr bm choice Clen j j'). fold K. fold (ix j). fold (ix j').
    destruct (j <? K), (j' <? K); reflexivity.
  - apply T2_ext. intros i j _ _. rewrite nx_src. destruct (j <? K); reflexivity.
  - apply T2_ext. intros i j _ _. apply nx_non.
Qed.

Lemma pad_model :
  adv_pad 1 S (Z.of_nat width) (Z.of_nat K) (mkChosen t_isnon t_src t_ext t_ynext t_ylens t_nbnext t_bnext t_ylast) t_nip
  = Some o_model.
Proof.
  rewrite o_model_eq. unfold adv_pad. cbn [h_isnon h_src h_ext h_y h_lens h_nb h_b h_last].
  pose proof K_le_width as HK. destruct (Nat.ltb_spec K width) as [Hlt|Hge].
  - replace (Z.of_nat K <? Z.of_nat width)%Z with true by lia.
    replace (Z.of_nat width - Z.of_nat K)%Z with (Z.of_nat (width - K)) by lia.
    replace (Z.of_nat S + 1)%Z with (Z.of_nat (S + 1)) by lia. change 1%Z with (Z.of_nat 1).
    assert (EK : K + (width - K) = width) by lia.
    bstep full_T3. unfold t_ynext at 1. bstep cat2_T3_2. rewrite EK.
    bstep full_T2. unfold t_ylast at 1. bstep cat2_T2_1. unfold t_ylens at 1. bstep cat2_T2_1. rewrite EK.
    bstep full_T2. unfold t_nbnext at 1. bstep cat2_T2_1. unfold t_bnext at 1. bstep cat2_T2_1. rewrite EK.
    bstep full_T2. unfold t_isnon at 1. bstep cat2_T2_1. rewrite EK.
    bstep unsqueeze_T2_1. bstep expand_T3_mid. unfold t_nip at 1. bstep cat2_T3_2. rewrite EK.
    bstep unsqueeze_T2_2. bstep expand_T3_last. bstep cat2_T3_1. rewrite EK.
    unfold t_src at 1. bstep cat2_T2_1. rewrite EK. reflexivity.
  - replace (Z.of_nat K <? Z.of_nat width)%Z with false by lia. assert (E : K = width) by lia.
    unfold t_isnon, t_src, t_ext, t_ynext, t_ylens, t_nbnext, t_bnext, t_ylast, t_nip. rewrite <- E. do 2 f_equal.
    + apply T3_ext. intros s i j _ _ Hj. now replace (j <? K) with true by (symmetry; apply Nat.ltb_lt; exact Hj).
    + apply T2_ext. intros i j _ Hj. now replace (j <? K) with true by (symmetry; apply Nat.ltb_lt; exact Hj).
    + apply T2_ext. intros i j _ Hj. now replace (j <? K) with true by (symmetry; apply Nat.ltb_lt; exact Hj).
    + apply T2_ext. intros i j _ Hj. now replace (j <? K) with true by (symmetry; apply Nat.ltb_lt; exact Hj).
    + apply T2_ext. intros i j _ Hj. now replace (j <? K) with true by (symmetry; apply Nat.ltb_lt; exact Hj).
    + apply T3_ext. intros i j j' _ Hj Hj'. replace (j <? K) with true by (symmetry; apply Nat.ltb_lt; exact Hj).
      now replace (j' <? K) with true by (symmetry; apply Nat.ltb_lt; exact Hj').
    + apply T2_ext. intros i j _ Hj. now replace (j <? K) with true by (symmetry; apply Nat.ltb_lt; exact Hj).
    + apply T2_ext. intros i j _ Hj. now replace (j <? K) with true by (symmetry; apply Nat.ltb_lt; exact Hj).
Qed.

(* ---- the tensor program on the encoded frame and beam = the encoded Model.advance ------------------------ *)
Lemma Kz : Z.min (Z.of_nat width) (Z.of_nat K' * (Z.of_nat V + 1)) = Z.of_nat K.
Proof. unfold K, Kout, ncand. fold K'. lia. Qed.

Lemma adv_tensor_model :
  adv_tensor sel 1 K' V S (enc_ext V fr bm) (enc_nonext V fr) (enc_blank fr) (Z.of_nat width)
    (enc_nb bm) (enc_bb bm) (enc_y bm) (enc_last bm) (enc_lens bm) (enc_isp bm) = Some o_model.
Proof.
  unfold adv_tensor. rewrite Kz. bstep cands_model. bstep to_match_model. bstep merge_model. bstep choose_model.
  bstep prefix_model. apply pad_model.
Qed.

Lemma enc_o_model : enc_outs o_model = enc_out (advance V fr bm width choice).
Proof.
  unfold enc_out. assert (E : advance V fr bm width choice = (nx, (osrc, onon))).
  { unfold nx, osrc, onon. destruct (advance V fr bm width choice) as [a [b c]]. reflexivity. }
  rewrite E. cbv beta iota.
  assert (EW : List.length (b_nb nx) = width) by (apply (nx_Kp V width fr bm choice Vpos Wpos Clen)).
  unfold enc_y, enc_last, enc_lens, enc_nb, enc_bb, enc_isp. rewrite EW.
  replace (b_t nx) with (S + 1) by (unfold nx; rewrite (nx_t V width fr bm choice); unfold S; lia).
  reflexivity.
Qed.
End Adv.

(* ---- the tie ------------------------------------------------------------------------------------------------ *)
(* For EVERY topk oracle [sel], vocabulary size >= 1, width >= 1, frame, well-formed beam: if the oracle answers
   [choice] on the candidate row, and [choice] has Kout entries, all of them candidate indices, then interpreting the
   translated source computes the tensors that encode Model.advance under that choice - all seven returned
   tensors, every cell (also the undefined ones: 0, as in the model). *)
Theorem advance_tie_sel : forall sel V width fr bm choice,
  sel 0 (map (cand V fr bm) (seq 0 (ncand V bm))) (Kout V bm width) = choice ->
  1 <= V -> 1 <= width -> wf bm -> List.length choice = Kout V bm width ->
  (forall i, List.In i choice -> i < ncand V bm) ->
  exists st, Interp.run (ext05 sel) cpsa_body (advance_vars V width fr bm)
             = Interp.Ok (enc_out (advance V fr bm width choice)) st.
Proof.
  intros sel V width fr bm choice Hsel Vpos Wpos W Clen Crange. unfold advance_vars.
  pose proof (run_is_adv sel (enc_ext V fr bm) (enc_nonext V fr) (enc_blank fr) (Z.of_nat width) (enc_nb bm) (enc_bb bm)
                (enc_y bm) (enc_last bm) (enc_lens bm) (enc_isp bm) 1 (Kp bm) V (b_t bm)
                eq_refl eq_refl eq_refl eq_refl eq_refl eq_refl eq_refl eq_refl eq_refl) as Hsim.
  assert (Hw : (1 <= Z.of_nat width)%Z) by lia. specialize (Hsim Hw).
  rewrite (adv_tensor_model sel V width fr bm choice Hsel Vpos Wpos W Clen Crange) in Hsim.
  unfold vars0 in Hsim. unfold sim in Hsim.
  destruct (Interp.run (ext05 sel) cpsa_body _) as [v st|nm st|w]; try contradiction.
  exists st. rewrite Hsim. now rewrite (enc_o_model V width fr bm choice Vpos Wpos Clen).
Qed.

(* the oracle answers a given list (the harness: the answer it observed from torch) *)
Theorem advance_tie : forall V width fr bm choice,
  1 <= V -> 1 <= width -> wf bm -> List.length choice = Kout V bm width ->
  (forall i, List.In i choice -> i < ncand V bm) ->
  exists st, run_advance V width fr bm choice = Interp.Ok (enc_out (advance V fr bm width choice)) st.
Proof. intros. unfold run_advance. now apply advance_tie_sel. Qed.

(* the oracle is the model's stable selection (as in the C04 tie): no hypothesis on the choice is left *)
Definition stable_choice (V width : nat) (fr : frame) (bm : beam) : list nat :=
  topk_stable (fun i => nth i (map (cand V fr bm) (seq 0 (ncand V bm))) NegInf) (ncand V bm) (Kout V bm width).

Theorem advance_tie_stable : forall V width fr bm,
  1 <= V -> 1 <= width -> wf bm ->
  exists st, run_advance_stable V width fr bm
             = Interp.Ok (enc_out (advance V fr bm width (stable_choice V width fr bm))) st.
Proof.
  intros V width fr bm Vpos Wpos W. unfold run_advance_stable.
  pose proof (auto_step_ok V fr bm width Wpos (wf_pos bm W)) as Hok. cbv zeta in Hok. fold (stable_choice V width fr bm) in Hok.
  destruct (topk_ok_facts _ _ _ _ _ Hok) as [Hl Hr _ _ _].
  apply advance_tie_sel; try assumption.
  unfold sel_stable, stable_choice. now rewrite map_length, seq_length.
Qed.
