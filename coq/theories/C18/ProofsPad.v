(* C18 — the model's edge padding (lists, as torch.nn.functional.pad builds them) is the
   position-wise extension [ext] of the specification. *)
From Coq Require Import List ZArith QArith Bool Arith Lia ZifyBool ZifyNat.
From PV Require Import C18.Model C18.Spec.
Import ListNotations.
Ltac Zify.zify_post_hook ::= Z.to_euclidean_division_equations.

Lemma nth_skipn_Q : forall (l : list Q) n k, nth k (skipn n l) 0%Q = nth (n + k) l 0%Q.
Proof.
  induction l as [|a l IH]; intros n k.
  - rewrite skipn_nil. destruct k, (n + 0)%nat; destruct n; reflexivity.
  - destruct n; [reflexivity|]. cbn [skipn Nat.add nth]. apply IH.
Qed.

Lemma nth_firstn_Q : forall (l : list Q) n k, (k < n)%nat -> nth k (firstn n l) 0%Q = nth k l 0%Q.
Proof.
  induction l as [|a l IH]; intros n k H.
  - rewrite firstn_nil. reflexivity.
  - destruct n; [lia|]. destruct k; [reflexivity|]. cbn [firstn nth]. apply IH. lia.
Qed.

Lemma nth_repeat_Q : forall (v : Q) n k, (k < n)%nat -> nth k (repeat v n) 0%Q = v.
Proof. induction n; intros k H; [lia|]. destruct k; [reflexivity|]. cbn. apply IHn. lia. Qed.

Lemma last_nth_Q : forall (l : list Q), last l 0%Q = nth (length l - 1) l 0%Q.
Proof.
  induction l as [|a l IH]; [reflexivity|].
  destruct l as [|b l]; [reflexivity|].
  change (last (a :: b :: l) 0%Q) with (last (b :: l) 0%Q). rewrite IH.
  cbn [length]. replace (S (S (length l)) - 1)%nat with (S (length l)) by lia.
  cbn [nth]. replace (S (length l) - 1)%nat with (length l) by lia. reflexivity.
Qed.

Lemma hd_nth_Q : forall (l : list Q), hd 0%Q l = nth 0 l 0%Q.
Proof. destruct l; reflexivity. Qed.

Lemma nthZ_nat : forall x (k : nat), nthZ x (Z.of_nat k) = nth k x 0%Q.
Proof.
  intros x k. unfold nthZ. destruct (Z.ltb_spec (Z.of_nat k) 0); [lia|]. now rewrite Nat2Z.id.
Qed.

Lemma nthZ_eq : forall x (z : Z) (k : nat), z = Z.of_nat k -> nthZ x z = nth k x 0%Q.
Proof. intros x z k ->. apply nthZ_nat. Qed.

Lemma mod_neg_shift : forall a T : Z, (- T <= a < 0)%Z -> (a mod T = a + T)%Z.
Proof. intros a T H. symmetry. apply (Z.mod_unique a T (-1) (a + T)); lia. Qed.

Lemma mod_pos_shift : forall a T : Z, (T <= a < 2 * T)%Z -> (a mod T = a - T)%Z.
Proof. intros a T H. symmetry. apply (Z.mod_unique a T 1 (a - T)); lia. Qed.

Lemma length_pad : forall m v p x, pad_ok m p (length x) = true ->
  length (pad m v p x) = (length x + 2 * p)%nat.
Proof.
  intros m v p x H. unfold pad. destruct m; cbn [pad_ok] in H;
    rewrite ?app_length, ?rev_length, ?firstn_length, ?skipn_length, ?repeat_length; try lia.
Qed.

(* three-way split of a position of  left ++ x ++ right  with |left| = |right| = p *)
Lemma nth_app3 : forall (a x b : list Q) j,
  nth j (a ++ x ++ b) 0%Q =
  if (j <? length a)%nat then nth j a 0%Q
  else if (j <? length a + length x)%nat then nth (j - length a) x 0%Q
  else nth (j - length a - length x) b 0%Q.
Proof.
  intros a x b j. destruct (Nat.ltb_spec j (length a)).
  - now rewrite app_nth1.
  - rewrite app_nth2 by lia. destruct (Nat.ltb_spec j (length a + length x)).
    + rewrite app_nth1 by lia. reflexivity.
    + rewrite app_nth2 by lia. reflexivity.
Qed.

Lemma pad_spec : forall m v p x j,
  (1 <= length x)%nat -> pad_ok m p (length x) = true -> (j < length x + 2 * p)%nat ->
  nth j (pad m v p x) 0%Q = ext m v x (Z.of_nat j - Z.of_nat p).
Proof.
  intros m v p x j HT Hok Hj. set (T := length x) in *.
  unfold pad. fold T. destruct m; cbn [pad_ok] in Hok; rewrite nth_app3;
    rewrite ?rev_length, ?firstn_length, ?skipn_length, ?repeat_length; fold T; unfold ext; fold T.
  - (* Replicate *)
    destruct (Nat.ltb_spec j p); [|destruct (Nat.ltb_spec j (p + T))].
    + rewrite nth_repeat_Q by lia. rewrite hd_nth_Q. symmetry. apply nthZ_eq. lia.
    + symmetry. apply nthZ_eq. lia.
    + rewrite nth_repeat_Q by lia. rewrite last_nth_Q. fold T. symmetry. apply nthZ_eq. lia.
  - (* Constant *)
    destruct (Nat.ltb_spec j p); [|destruct (Nat.ltb_spec j (p + T))].
    + rewrite nth_repeat_Q by lia.
      destruct ((0 <=? Z.of_nat j - Z.of_nat p)%Z && (Z.of_nat j - Z.of_nat p <? Z.of_nat T)%Z) eqn:E; [lia|reflexivity].
    + destruct ((0 <=? Z.of_nat j - Z.of_nat p)%Z && (Z.of_nat j - Z.of_nat p <? Z.of_nat T)%Z) eqn:E; [|lia].
      symmetry. apply nthZ_eq. lia.
    + rewrite nth_repeat_Q by lia.
      destruct ((0 <=? Z.of_nat j - Z.of_nat p)%Z && (Z.of_nat j - Z.of_nat p <? Z.of_nat T)%Z) eqn:E; [lia|reflexivity].
  - (* Reflect *)
    assert (Hp : (p < T)%nat) by lia.
    replace (Nat.min p (T - 1)) with p by lia.
    destruct (Nat.ltb_spec j p); [|destruct (Nat.ltb_spec j (p + T))].
    + rewrite rev_nth by (rewrite firstn_length, skipn_length; fold T; lia).
      rewrite firstn_length, skipn_length. fold T. replace (Nat.min p (T - 1)) with p by lia.
      rewrite nth_firstn_Q by lia. rewrite nth_skipn_Q.
      destruct (Z.ltb_spec (Z.of_nat j - Z.of_nat p) 0); [|lia].
      symmetry. apply nthZ_eq. lia.
    + destruct (Z.ltb_spec (Z.of_nat j - Z.of_nat p) 0); [lia|].
      destruct (Z.leb_spec (Z.of_nat T) (Z.of_nat j - Z.of_nat p)); [lia|].
      symmetry. apply nthZ_eq. lia.
    + rewrite rev_nth by (rewrite firstn_length, skipn_length; fold T; lia).
      rewrite firstn_length, skipn_length. fold T.
      replace (Nat.min p (T - (T - 1 - p))) with p by lia.
      rewrite nth_firstn_Q by lia. rewrite nth_skipn_Q.
      destruct (Z.ltb_spec (Z.of_nat j - Z.of_nat p) 0); [lia|].
      destruct (Z.leb_spec (Z.of_nat T) (Z.of_nat j - Z.of_nat p)); [|lia].
      symmetry. apply nthZ_eq. lia.
  - (* Circular *)
    assert (Hp : (p <= T)%nat) by lia.
    replace (T - (T - p))%nat with p by lia.
    destruct (Nat.ltb_spec j p); [|destruct (Nat.ltb_spec j (p + T))].
    + rewrite nth_skipn_Q. symmetry. apply nthZ_eq. rewrite mod_neg_shift; lia.
    + symmetry. apply nthZ_eq. rewrite Z.mod_small; lia.
    + rewrite nth_firstn_Q by lia. symmetry. apply nthZ_eq. rewrite mod_pos_shift; lia.
Qed.
