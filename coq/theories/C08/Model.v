(* C08 - SpecAugment (src/pydrobert/torch/_img.py: spec_augment_draw_parameters,
   spec_augment_apply_parameters, spec_augment, warp_1d_grid, polyharmonic_spline of
   order 1, and torch's grid_sample(bilinear, border, align_corners=False)).

   Executable model of what the code does.  No proofs in this file.

   Numbers.  Everything is an exact rational.  The draw code is float32 tensor code mixed
   with Python double scalars, so the draw model is parametrised by an [arith]: the two
   rounding functions applied after every float32 / float64 operation, in the order the
   code performs them.  [exact] (no rounding) is the model over Q the main theorems are
   about; [ieee] (round to nearest even with 24 / 53 significant bits, unbounded
   exponent) is what the correspondence compares bit for bit with torch.  The uniform
   variates torch.rand would return are data ([uv]).

   Oracles (not modelled beyond their exact-arithmetic meaning): torch.linalg.solve
   inside polyharmonic_spline (the order-1 spline through the three knots is modelled by
   its exact solution [lin3], see Proofs.order1_spline_is_lin3) and the float32
   evaluation of grid_sample ([bilinear] is its exact-arithmetic formula). *)
From Coq Require Import List ZArith QArith Qround Qabs Bool.
Import ListNotations.
Local Open Scope Q_scope.

(* ------------------------------------------------------------------------------ *)
(* small helpers                                                                   *)
(* ------------------------------------------------------------------------------ *)
Definition qmin (x y : Q) : Q := if Qle_bool x y then x else y.
Definition qmax (x y : Q) : Q := if Qle_bool x y then y else x.
Definition qlt_bool (x y : Q) : bool := negb (Qle_bool y x).
(* Tensor.long(): truncation towards zero *)
Definition qtrunc (x : Q) : Z := if Qle_bool 0 x then Qfloor x else (- Qfloor (- x))%Z.
Definition z2q (z : Z) : Q := inject_Z z.

Definition pow2 (e : Z) : Q :=
  match e with
  | Z0 => 1
  | Zpos p => inject_Z (Z.pow_pos 2 p)
  | Zneg p => 1 # (Pos.pow 2 p)
  end.

(* floor (log2 x) for x > 0 *)
Definition qlog2 (x : Q) : Z :=
  let e := (Z.log2 (Qnum x) - Z.log2 (Zpos (Qden x)))%Z in
  if Qle_bool (pow2 e) x then e else (e - 1)%Z.

(* nearest integer, ties to even *)
Definition rne (x : Q) : Z :=
  let f := Qfloor x in
  match Qcompare (x - inject_Z f) (1 # 2) with
  | Lt => f
  | Gt => (f + 1)%Z
  | Eq => if Z.even f then f else (f + 1)%Z
  end.

(* round a positive rational to [p] significant bits *)
Definition rn_pos (p : Z) (x : Q) : Q :=
  let k := (qlog2 x - p + 1)%Z in inject_Z (rne (x / pow2 k)) * pow2 k.

(* IEEE round-to-nearest-even with [p] significant bits (no overflow / subnormals) *)
Definition rn (p : Z) (x : Q) : Q :=
  match Qcompare x 0 with
  | Eq => 0
  | Gt => Qred (rn_pos p x)
  | Lt => Qred (- rn_pos p (- x))
  end.

Record arith := mkArith { r32 : Q -> Q; r64 : Q -> Q }.
Definition exact : arith := mkArith (fun x => x) (fun x => x).
Definition ieee : arith := mkArith (rn 24) (rn 53).

(* torch.finfo(dtype).eps of the feature tensor *)
Inductive dtype := F16 | F32 | F64.
Definition eps_of (d : dtype) : Q :=
  match d with
  | F16 => 1 # (Pos.pow 2 10)
  | F32 => 1 # (Pos.pow 2 23)
  | F64 => 1 # (Pos.pow 2 52)
  end.

(* ------------------------------------------------------------------------------ *)
(* spec_augment_draw_parameters, one batch element                                 *)
(* ------------------------------------------------------------------------------ *)
Record cfg := mkCfg
  { c_Wt : Q;    (* max_time_warp *)
    c_Wf : Q;    (* max_freq_warp *)
    c_Mt : Z;    (* max_time_mask *)
    c_Mf : Z;    (* max_freq_mask *)
    c_pt : Q;    (* max_time_mask_proportion *)
    c_nt : nat;  (* num_time_mask *)
    c_npt : Q;   (* num_time_mask_proportion *)
    c_nf : nat   (* num_freq_mask *) }.

(* the uniform variates of one batch element, in the roles the code uses them *)
Record uv := mkUV
  { u_w0 : Q; u_w : Q; u_v0 : Q; u_v : Q;
    u_t : list Q; u_t0 : list Q; u_f : list Q; u_f0 : list Q }.

(* drawn parameters of one batch element; None = the code returns torch.empty(0);
   masks are (start, width) pairs, one per mask column *)
Record params := mkParams
  { p_tw : option (Q * Q);           (* (w_0, w) *)
    p_fw : option (Q * Q);           (* (v_0, v) *)
    p_tm : option (list (Z * Z));    (* (t_0, t) *)
    p_fm : option (list (Z * Z)) }.  (* (f_0, f) *)

Section Draw.
  Variable a : arith.
  Variable eps : Q.

  (* omeps = 1 - eps is a Python double; it meets float32 tensors, so it is cast *)
  Definition omeps : Q := r32 a (r64 a (1 - eps)).
  (* lengths.float() *)
  Definition lenq (len : Z) : Q := r32 a (z2q len).

  (* W = (lengths / 2 - eps).clamp(0, max_time_warp) *)
  Definition tw_W (Wmax : Q) (len : Z) : Q :=
    qmin (qmax (r32 a (r32 a (lenq len / 2) - r32 a eps)) 0) (r32 a Wmax).
  (* w_0 = rand * (lengths - 2 * W) + W *)
  Definition tw_w0 (W : Q) (len : Z) (u : Q) : Q :=
    r32 a (r32 a (u * r32 a (lenq len - r32 a (2 * W))) + W).
  (* w = rand * (2 * W) - W *)
  Definition tw_w (W : Q) (u : Q) : Q := r32 a (r32 a (u * r32 a (2 * W)) - W).

  (* V = min(max(F / 2 - eps, 0), max_freq_warp): Python doubles *)
  Definition fw_V (Wmax : Q) (F : Z) : Q :=
    qmin (qmax (r64 a (r64 a (z2q F / 2) - eps)) 0) Wmax.
  (* v_0 = rand * (F - 2 * V) + V: float32 tensor times / plus double scalars *)
  Definition fw_v0 (V : Q) (F : Z) (u : Q) : Q :=
    r32 a (r32 a (u * r32 a (r64 a (z2q F - r64 a (2 * V)))) + r32 a V).
  Definition fw_v (V : Q) (u : Q) : Q :=
    r32 a (r32 a (u * r32 a (r64 a (2 * V))) - r32 a V).

  (* torch.clamp(lengths * proportion, max=limit).floor() *)
  Definition cap (len : Z) (p : Q) (M : Z) : Z :=
    Qfloor (qmin (r32 a (lenq len * r32 a p)) (r32 a (z2q M))).

  (* (rand * (max_ + omeps)).long().masked_fill(nums_ <= arange, 0) at column m *)
  Definition tm_t (max_ nums : Z) (m : nat) (u : Q) : Z :=
    if (nums <=? Z.of_nat m)%Z then 0%Z
    else qtrunc (r32 a (u * r32 a (z2q max_ + omeps))).
  (* (rand * (lengths - t + omeps)).long() *)
  Definition tm_t0 (len t : Z) (u : Q) : Z :=
    qtrunc (r32 a (u * r32 a (r32 a (lenq len - z2q t) + omeps))).

  Definition time_masks (c : cfg) (len : Z) (us us0 : list Q) : list (Z * Z) :=
    let max_ := cap len (c_pt c) (c_Mt c) in
    let nums := cap len (c_npt c) (Z.of_nat (c_nt c)) in
    map (fun m => let t := tm_t max_ nums m (nth m us 0) in
                  (tm_t0 len t (nth m us0 0), t))
        (seq 0 (c_nt c)).

  (* max_ = min(max_freq_mask, F); f = (rand * (max_ + omeps)).long(): the sum is a
     Python double here *)
  Definition fm_f (fmax : Z) (u : Q) : Z :=
    qtrunc (r32 a (u * r32 a (r64 a (z2q fmax + r64 a (1 - eps))))).
  (* f_0 = (rand * (F - f + omeps)).long() *)
  Definition fm_f0 (F f : Z) (u : Q) : Z :=
    qtrunc (r32 a (u * r32 a (r32 a (z2q (F - f)) + omeps))).

  Definition freq_masks (c : cfg) (F : Z) (us us0 : list Q) : list (Z * Z) :=
    let fmax := Z.min (c_Mf c) F in
    map (fun m => let f := fm_f fmax (nth m us 0) in (fm_f0 F f (nth m us0 0), f))
        (seq 0 (c_nf c)).

  Definition nonzero (x : Q) : bool := negb (Qeq_bool x 0).

  Definition draw (c : cfg) (F len : Z) (u : uv) : params :=
    mkParams
      (if nonzero (c_Wt c)
       then let W := tw_W (c_Wt c) len in Some (tw_w0 W len (u_w0 u), tw_w W (u_w u))
       else None)
      (if nonzero (c_Wf c)
       then let V := fw_V (c_Wf c) F in Some (fw_v0 V F (u_v0 u), fw_v V (u_v u))
       else None)
      (if negb (c_Mt c =? 0)%Z && nonzero (c_pt c) && negb (Nat.eqb (c_nt c) 0)
          && nonzero (c_npt c)
       then Some (time_masks c len (u_t u) (u_t0 u)) else None)
      (if negb (c_Mf c =? 0)%Z && negb (Nat.eqb (c_nf c) 0)
       then Some (freq_masks c F (u_f u) (u_f0 u)) else None).
End Draw.

(* ------------------------------------------------------------------------------ *)
(* spec_augment_apply_parameters: the masking part (any cell type)                 *)
(* ------------------------------------------------------------------------------ *)
(* (idx >= start) & (idx < start + width) *)
Definition in_band (x : Z) (b : Z * Z) : bool :=
  (fst b <=? x)%Z && (x <? fst b + snd b)%Z.
(* .any() over the mask columns *)
Definition masked (bands : list (Z * Z)) (x : Z) : bool := existsb (in_band x) bands.

Fixpoint mapi_from {A B} (i : Z) (f : Z -> A -> B) (l : list A) : list B :=
  match l with
  | [] => []
  | x :: t => f i x :: mapi_from (i + 1)%Z f t
  end.

(* new_feats.masked_fill(mask, 0.0) with mask[t][f] given by [m] *)
Definition fill {A} (zero : A) (m : Z -> Z -> bool) (img : list (list A)) : list (list A) :=
  mapi_from 0%Z (fun t row => mapi_from 0%Z (fun f x => if m t f then zero else x) row) img.

(* tm / fm = None when the corresponding parameter pair is None or has no element *)
Definition apply_masks {A} (zero : A) (tm fm : option (list (Z * Z)))
  (img : list (list A)) : list (list A) :=
  match tm with
  | Some tb =>
      match fm with
      | Some fb => fill zero (fun t f => masked tb t || masked fb f) img
      | None => fill zero (fun t _ => masked tb t) img
      end
  | None =>
      match fm with
      | Some fb => fill zero (fun _ f => masked fb f) img
      | None => img
      end
  end.

(* ------------------------------------------------------------------------------ *)
(* warp_1d_grid with interpolation_order = 1, exact arithmetic                     *)
(* ------------------------------------------------------------------------------ *)
(* (2 * p + 1) / T - 1: pixel position -> grid_sample coordinate *)
Definition coord (T : Z) (p : Q) : Q := (2 * p + 1) / z2q T - 1.
(* ((g + 1) * T - 1) / 2: grid_sample coordinate -> pixel position *)
Definition unnorm (T : Z) (g : Q) : Q := ((g + 1) * z2q T - 1) / 2.

Record knots := mkKnots { k_lo : Q; k_dst : Q; k_src : Q; k_up : Q }.

(* src = min(src, len - 1).clamp_min(0); dst = min(src + flow, len - 1).clamp_min(0);
   both mapped to coordinates; lowers = 1/T - 1 - eps, uppers = (2 len - 1)/T - 1 + eps.
   The spline is trained on points (lowers, dst, uppers) with values (lowers, src, uppers). *)
Definition warp_knots (eps : Q) (T : Z) (src flow len : Q) : knots :=
  let s := qmax (qmin src (len - 1)) 0 in
  let d := qmax (qmin (s + flow) (len - 1)) 0 in
  mkKnots (1 / z2q T - 1 - eps) (coord T d) (coord T s) ((2 * len - 1) / z2q T - 1 + eps).

(* the order-1 polyharmonic spline through (lo,lo) (dst,src) (up,up): piecewise linear
   between the knots, the identity outside them *)
Definition lin3 (k : knots) (x : Q) : Q :=
  if qlt_bool x (k_lo k) || qlt_bool (k_up k) x then x
  else if Qle_bool x (k_dst k)
       then k_lo k + (k_src k - k_lo k) * (x - k_lo k) / (k_dst k - k_lo k)
       else k_src k + (k_up k - k_src k) * (x - k_dst k) / (k_up k - k_dst k).

(* What polyharmonic_spline(order = 1) returns for three 1-D knots c0 c1 c2 with values
   f0 f1 f2, PROVIDED linalg_solve hands back an exact solution (w, v) of its system
   [[A B] [B^T 0]] [w; v] = [f; 0], A_ij = |c_i - c_j|, B = [c 1]  (_solve_interpolation,
   full_matrix=True, phi(r) = r), the query being phi(|x - c|) w + [x 1] v
   (_apply_interpolation).  Proofs.order1_spline_is_lin3 shows this is [lin3]. *)
Definition spline1_eval (c0 c1 c2 w0 w1 w2 v1 v0 x : Q) : Q :=
  Qabs (x - c0) * w0 + Qabs (x - c1) * w1 + Qabs (x - c2) * w2 + (x * v1 + v0).
Definition spline1_solution (c0 c1 c2 f0 f1 f2 w0 w1 w2 v1 v0 : Q) : Prop :=
  spline1_eval c0 c1 c2 w0 w1 w2 v1 v0 c0 == f0
  /\ spline1_eval c0 c1 c2 w0 w1 w2 v1 v0 c1 == f1
  /\ spline1_eval c0 c1 c2 w0 w1 w2 v1 v0 c2 == f2
  /\ c0 * w0 + c1 * w1 + c2 * w2 == 0
  /\ w0 + w1 + w2 == 0.

Definition zseq (n : Z) : list Z := map Z.of_nat (seq 0 (Z.to_nat n)).

(* t = (2 * arange(T) + 1) / T - 1; grid = spline(t) *)
Definition warp_grid (eps : Q) (T : Z) (src flow len : Q) : list Q :=
  let k := warp_knots eps T src flow len in
  map (fun i => lin3 k (coord T (z2q i))) (zseq T).

(* the grid used for a dimension that is not warped *)
Definition id_grid (T : Z) : list Q := map (fun i => coord T (z2q i)) (zseq T).

(* ------------------------------------------------------------------------------ *)
(* grid_sample(mode="bilinear", padding_mode="border", align_corners=False)        *)
(* ------------------------------------------------------------------------------ *)
Definition clip (size : Z) (x : Q) : Q := qmin (z2q (size - 1)) (qmax x 0).

Definition zlen {A} (l : list A) : Z := Z.of_nat (length l).

(* a pixel of the image, 0 outside (the kernel skips out-of-bounds corners) *)
Definition cell (img : list (list Q)) (y x : Z) : Q :=
  if (0 <=? y)%Z && (y <? zlen img)%Z
  then let row := nth (Z.to_nat y) img [] in
       if (0 <=? x)%Z && (x <? zlen row)%Z then nth (Z.to_nat x) row 0 else 0
  else 0.

(* one output pixel: gx indexes the last (frequency) dimension, gy the time dimension;
   H x W is the image's shape *)
Definition bilinear (img : list (list Q)) (H W : Z) (gx gy : Q) : Q :=
  let ix := clip W (unnorm W gx) in
  let iy := clip H (unnorm H gy) in
  let x0 := Qfloor ix in let y0 := Qfloor iy in
  let x1 := (x0 + 1)%Z in let y1 := (y0 + 1)%Z in
  let nw := (z2q x1 - ix) * (z2q y1 - iy) in
  let ne := (ix - z2q x0) * (z2q y1 - iy) in
  let sw := (z2q x1 - ix) * (iy - z2q y0) in
  let se := (ix - z2q x0) * (iy - z2q y0) in
  cell img y0 x0 * nw + cell img y0 x1 * ne + cell img y1 x0 * sw + cell img y1 x1 * se.

Definition width (img : list (list Q)) : Z := zlen (nth 0 img []).

(* grid[t][f] = (freq_grid[f], time_grid[t]) *)
Definition resample (img : list (list Q)) (tgrid fgrid : list Q) : list (list Q) :=
  map (fun gy => map (fun gx => bilinear img (zlen img) (width img) gx gy) fgrid) tgrid.

(* the whole of spec_augment_apply_parameters on one batch element, given the grids the
   two warp_1d_grid calls returned (None = that warp is not requested) *)
Definition apply_with_grids (tg fg : option (list Q)) (tm fm : option (list (Z * Z)))
  (img : list (list Q)) : list (list Q) :=
  let warped :=
    match tg, fg with
    | None, None => img
    | _, _ =>
        resample img
          (match tg with Some g => g | None => id_grid (zlen img) end)
          (match fg with Some g => g | None => id_grid (width img) end)
    end in
  apply_masks 0 tm fm warped.

(* ... and with interpolation_order = 1 in exact arithmetic.  [eps32] is float32's eps
   (warp_1d_grid casts everything to float32 whatever the features' dtype). *)
Definition eps32 : Q := 1 # (Pos.pow 2 23).

Definition apply_lin (len : Z) (p : params) (img : list (list Q)) : list (list Q) :=
  apply_with_grids
    (match p_tw p with
     | Some (w0, w) => Some (warp_grid eps32 (zlen img) w0 w (z2q len))
     | None => None end)
    (match p_fw p with
     | Some (v0, v) => Some (warp_grid eps32 (width img) v0 v (z2q (width img)))
     | None => None end)
    (p_tm p) (p_fm p) img.

(* spec_augment / SpecAugment.forward on one batch element *)
Definition spec_augment (training : bool) (a : arith) (eps : Q) (c : cfg) (len : Z)
  (u : uv) (img : list (list Q)) : list (list Q) :=
  if training then apply_lin len (draw a eps c (width img) len u) img else img.

(* ------------------------------------------------------------------------------ *)
(* correspondence entry points                                                     *)
(* ------------------------------------------------------------------------------ *)
Definition opt_eqb {A} (eqb : A -> A -> bool) (x y : option A) : bool :=
  match x, y with
  | None, None => true
  | Some p, Some q => eqb p q
  | _, _ => false
  end.
Fixpoint list_eqb {A} (eqb : A -> A -> bool) (x y : list A) : bool :=
  match x, y with
  | [], [] => true
  | p :: x', q :: y' => eqb p q && list_eqb eqb x' y'
  | _, _ => false
  end.
Definition qq_eqb (x y : Q * Q) : bool := Qeq_bool (fst x) (fst y) && Qeq_bool (snd x) (snd y).
Definition zz_eqb (x y : Z * Z) : bool := (fst x =? fst y)%Z && (snd x =? snd y)%Z.

Definition params_eqb (x y : params) : bool :=
  opt_eqb qq_eqb (p_tw x) (p_tw y) && opt_eqb qq_eqb (p_fw x) (p_fw y)
  && opt_eqb (list_eqb zz_eqb) (p_tm x) (p_tm y)
  && opt_eqb (list_eqb zz_eqb) (p_fm x) (p_fm y).

(* draws: bit-for-bit against torch (floats passed as the rationals they are) *)
Definition check_draw (d : dtype) (c : cfg) (F len : Z) (u : uv) (impl : params) : bool :=
  params_eqb (draw ieee (eps_of d) c F len u) impl.

(* masking without warp: cells are the float32 bit patterns, zero is +0.0 = pattern 0 *)
Definition check_mask (tm fm : option (list (Z * Z))) (img impl : list (list Z)) : bool :=
  list_eqb (list_eqb Z.eqb) (apply_masks 0%Z tm fm img) impl.

Definition close (tol x y : Q) : bool := Qle_bool (Qabs (x - y)) tol.

(* warp_1d_grid(order 1) against the exact piecewise-linear grid, in pixel units *)
Definition check_grid (tol : Q) (T : Z) (src flow len : Q) (impl : list Q) : bool :=
  list_eqb (fun x y => close tol (unnorm T x) (unnorm T y))
           (warp_grid eps32 T src flow len) impl.

(* resampling + masking against torch, given the grids torch's warp_1d_grid returned *)
Definition check_apply (tol : Q) (tg fg : option (list Q)) (tm fm : option (list (Z * Z)))
  (img impl : list (list Q)) : bool :=
  list_eqb (list_eqb (close tol)) (apply_with_grids tg fg tm fm img) impl.
