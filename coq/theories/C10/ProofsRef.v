(* C10 - policy 'ref': the mask filters exactly the documented segments. *)
From Coq Require Import List ZArith Bool Arith Lia Sorted.
From PV Require Import C10.Model C10.Spec C10.Lists.
Import ListNotations.
Local Open Scope Z_scope.

Lemma ref_window_win : forall wt lobe x, ref_window wt lobe x = ref_win wt lobe x.
Proof. intros [] lobe x; reflexivity. Qed.

Lemma ref_keep_iff : forall wt vo lobe L OL t x,
  ref_keep wt vo lobe L OL t x = true <-> ref_kept wt vo lobe L OL t x.
Proof.
  intros wt vo lobe L OL t x. unfold ref_keep, ref_kept, inside, ref_win.
  destruct wt, vo; cbn [do_left do_right fst snd]; rewrite !andb_true_iff;
    repeat match goal with
           | |- context [(?a >? ?b) = true] => rewrite (Z.gtb_ltb a b), (Z.ltb_lt b a)
           | |- context [(?a >=? ?b) = true] => rewrite (Z.geb_leb a b), (Z.leb_le b a)
           | |- context [(?a <? ?b) = true] => rewrite (Z.ltb_lt a b)
           | |- context [(?a <=? ?b) = true] => rewrite (Z.leb_le a b)
           end; intuition lia.
Qed.

Definition ref_len (T : nat) (in_lens : option (list Z)) (n : nat) : Z :=
  match in_lens with Some ls => nth n ls 0 | None => Z.of_nat T end.
Definition ref_other (T : nat) (rows : list (list (Z * Z * Z))) (in_lens other_lens : option (list Z)) (n : nat) : Z :=
  match other_lens with
  | Some os => nth n os 0
  | None => ref_default_other (nth n rows []) (ref_len T in_lens n)
  end.

Lemma ref_default_ok : forall v T row L, d2 v = false -> Z.max (L - 1) 0 < Z.of_nat T ->
  ref_other_default v T row L = Some (ref_default_other row L).
Proof.
  intros v T row L Hv H. unfold ref_other_default, ref_default_other. rewrite Hv.
  destruct (Z.max (L - 1) 0 <? Z.of_nat T) eqn:E; [|apply Z.ltb_ge in E; lia].
  destruct (L =? 0) eqn:E0; [reflexivity|]. do 3 f_equal.
  destruct (Z.le_gt_cases L 0); [|lia]. rewrite !Z2Nat.inj_neg || idtac; lia.
Qed.

Lemma ref_rows_ok : forall v T wt vo lobe in_lens other_lens rows0 rows s,
  d2 v = false ->
  (other_lens = None -> forall i, (i < length rows)%nat -> Z.max (ref_len T in_lens (s + i) - 1) 0 < Z.of_nat T) ->
  (forall i, (i < length rows)%nat -> nth i rows [] = nth (s + i) rows0 []) ->
  ref_rows v T wt vo lobe in_lens other_lens s rows
  = Some (flat_map (fun nr => ref_row wt vo lobe (ref_len T in_lens (fst nr)) (ref_other T rows0 in_lens other_lens (fst nr))
                                      (fst nr) (snd nr)) (enum_from s rows)).
Proof.
  intros v T wt vo lobe in_lens other_lens rows0 rows; induction rows as [|row rest IH]; intros s Hv Hd Hr; [reflexivity|].
  cbn [ref_rows]. rewrite enum_from_cons. cbn [flat_map fst snd].
  fold (ref_len T in_lens s).
  assert (Ho : match other_lens with Some os => Some (nth s os 0) | None => ref_other_default v T row (ref_len T in_lens s) end
               = Some (ref_other T rows0 in_lens other_lens s)).
  { unfold ref_other. destruct other_lens as [os|]; [reflexivity|].
    rewrite ref_default_ok; [|assumption|]. 
    - specialize (Hr 0%nat ltac:(cbn; lia)). cbn [nth] in Hr. rewrite Nat.add_0_r in Hr. now rewrite Hr.
    - specialize (Hd eq_refl 0%nat ltac:(cbn; lia)). now rewrite Nat.add_0_r in Hd. }
  rewrite Ho, (IH (S s)); [reflexivity|assumption| |].
  - intros E i Hi. specialize (Hd E (S i) ltac:(cbn; lia)). now replace (S s + i)%nat with (s + S i)%nat by lia.
  - intros i Hi. specialize (Hr (S i) ltac:(cbn; lia)). cbn [nth] in Hr. now replace (S s + i)%nat with (s + S i)%nat by lia.
Qed.

Definition ref_lens_ok (T : nat) (rows : list (list (Z * Z * Z))) (in_lens other_lens : option (list Z)) : Prop :=
  match other_lens with
  | Some os => length os = length rows
  | None => forall n, (n < length rows)%nat -> Z.max (ref_len T in_lens n - 1) 0 < Z.of_nat T
  end.

Theorem ref_windows_spec : forall v T rows in_lens other_lens wt vo lobe,
  d2 v = false -> ref_lens_ok T rows in_lens other_lens ->
  exists out, slice_ref v T rows in_lens other_lens wt vo lobe = Some out
              /\ ref_spec rows (ref_len T in_lens) (ref_other T rows in_lens other_lens) wt vo lobe out.
Proof.
  intros v T rows in_lens other_lens wt vo lobe Hv Hok. unfold slice_ref. rewrite Hv.
  assert (H1 : match other_lens with Some os => negb (Nat.eqb (length os) (length rows)) | None => false end = false).
  { destruct other_lens as [os|]; [|reflexivity]. cbn in Hok. now rewrite Hok, Nat.eqb_refl. }
  rewrite H1.
  assert (H2 : match other_lens, rows with None, [] => false | _, _ => false end = false)
    by (destruct other_lens, rows; reflexivity).
  rewrite H2.
  rewrite (ref_rows_ok v T wt vo lobe in_lens other_lens rows rows 0 Hv).
  - eexists. split; [reflexivity|].
    exists (fun n => map (fun tx => ref_win wt lobe (snd tx))
                         (filter (fun tx => ref_keep wt vo lobe (ref_len T in_lens n) (ref_other T rows in_lens other_lens n)
                                                     (fst tx) (snd tx)) (enumerate (nth n rows [])))).
    split.
    + rewrite (flat_map_enum_seq _ _ _ [] rows 0). unfold labelled. apply flat_map_ext_in. intros n _.
      cbn [fst snd]. rewrite Nat.sub_0_r. unfold ref_row. rewrite map_map. apply map_ext. intros tx.
      now rewrite ref_window_win.
    + intros n Hn. unfold ref_seq_spec. apply selects_filter. intros; apply ref_keep_iff.
  - intros E i Hi. subst other_lens. cbn in Hok. cbn [Nat.add]. now apply Hok.
  - intros i Hi. reflexivity.
Qed.

Theorem ref_spec_unique : forall rows len other wt vo lobe o1 o2,
  ref_spec rows len other wt vo lobe o1 -> ref_spec rows len other wt vo lobe o2 -> o1 = o2.
Proof.
  intros rows len other wt vo lobe o1 o2 (p1 & E1 & H1) (p2 & E2 & H2). subst.
  apply labelled_ext. intros n Hn. eapply selects_unique; [apply H1|apply H2]; assumption.
Qed.

Theorem ref_valid_inside : forall rows len other wt lobe out,
  ref_spec rows len other wt true lobe out ->
  forall w n, In (w, Z.of_nat n) out -> (n < length rows)%nat /\ inside (other n) w /\ fst w < snd w.
Proof.
  intros rows len other wt lobe out (per & E & H) w n Hin. subst out.
  apply in_labelled in Hin as [Hn Hin]. split; [assumption|].
  destruct (H n Hn) as (idx & _ & Hm & Eo). rewrite Eo in Hin.
  apply in_map_iff in Hin as (t & Hw & Ht). apply Hm in Ht as [_ Hk]. subst w.
  unfold ref_kept in Hk. tauto.
Qed.

(* D2: with other_lens omitted the code raises although the policy prescribes windows *)
Theorem ref_d2_refuted :
  slice_spect_data as_coded 2 (InRef [[(7, 0, 2); (8, 2, 5)]]) None None Symmetric true 0 = None
  /\ ref_spec [[(7, 0, 2); (8, 2, 5)]] (ref_len 2 None) (ref_other 2 [[(7, 0, 2); (8, 2, 5)]] None None)
              Symmetric true 0 [((0, 2), 0); ((2, 5), 0)].
Proof.
  split; [reflexivity|].
  destruct (ref_windows_spec repaired 2 [[(7, 0, 2); (8, 2, 5)]] None None Symmetric true 0 eq_refl) as (o & Ho & Hs).
  - intros n Hn. cbn in *. lia.
  - vm_compute in Ho. inversion Ho; subst o. exact Hs.
Qed.

(* whenever other_lens is omitted the code as written raises *)
Theorem ref_d2_always_raises : forall v T rows in_lens wt vo lobe,
  d2 v = true -> slice_ref v T rows in_lens None wt vo lobe = None.
Proof.
  intros v T rows in_lens wt vo lobe Hv. unfold slice_ref. destruct rows as [|row rest]; [now rewrite Hv|].
  cbn [ref_rows]. unfold ref_other_default. rewrite Hv. reflexivity.
Qed.
