(* C15 — tie lemmas, part 1 (cache, get_last_epoch, continue_training, head, early stopping): interpreting the regenerated source terms (PV.Gen.C15Src) computes exactly what
   Model.v computes, for every input.  See SrcRun.v for the environment and the encodings. *)
From Coq Require Import ZArith QArith List String Bool Arith Lia ZifyBool ZifyNat ZifyComparison.
From PV Require Import C15.Model.
From PV Require Import MiniPy.Syntax MiniPy.Interp Gen.C15Src C15.SrcRun.
Import ListNotations.
Local Open Scope string_scope.
Local Open Scope Z_scope.

#[local] Arguments Z.sub : simpl never.
#[local] Arguments Z.add : simpl never.
#[local] Arguments Z.mul : simpl never.
#[local] Arguments Z.max : simpl never.
#[local] Arguments Z.of_nat : simpl never.
#[local] Arguments Z.to_nat : simpl never.
#[local] Arguments Z.eqb : simpl never.
#[local] Arguments Z.leb : simpl never.
#[local] Arguments Z.ltb : simpl never.
#[local] Arguments Z.compare : simpl never.
#[local] Arguments Qred : simpl never.
#[local] Arguments Qmult : simpl never.
#[local] Arguments Qminus : simpl never.
#[local] Arguments Qplus : simpl never.
#[local] Arguments Qcompare : simpl never.
#[local] Arguments Qeq_bool : simpl never.
#[local] Arguments Qle_bool : simpl never.
#[local] Arguments enc_cache : simpl never.
#[local] Arguments enc_user : simpl never.

(* decide every test the symbolic run meets, one at a time *)
Ltac split_tests :=
  repeat (cbn;
    match goal with
    | |- context [match (?a ?= ?b)%Q with _ => _ end] => destruct (a ?= b)%Q eqn:?
    | |- context [if ?b then _ else _] =>
        lazymatch b with
        | context [if _ then _ else _] => fail
        | context [match _ with _ => _ end] => fail
        | _ => destruct b eqn:?
        end
    end).

(* ---- the cache as a dict ---------------------------------------------------------------------- *)
Lemma dict_get_cache_from c : forall i e,
  dict_get (enc_cache_from i c) (VInt e)
  = if e <? i then None else option_map enc_row (nth_error c (Z.to_nat (e - i))).
Proof.
  induction c as [|r t IH]; intros i e; cbn [enc_cache_from dict_get].
  - destruct (e <? i); [reflexivity|]. destruct (Z.to_nat (e - i)); reflexivity.
  - change (val_eqb (VInt e) (VInt i)) with (e =? i).
    destruct (e =? i) eqn:E.
    + replace (e <? i) with false by lia. replace (Z.to_nat (e - i)) with O by lia. reflexivity.
    + rewrite IH. destruct (e <? i) eqn:E1.
      * replace (e <? i + 1) with true by lia. reflexivity.
      * replace (e <? i + 1) with false by lia.
        replace (Z.to_nat (e - i)) with (S (Z.to_nat (e - (i + 1)))) by lia. reflexivity.
Qed.

Lemma dict_get_cache c e : dict_get (enc_cache c) (VInt e) = option_map enc_row (hget c e).
Proof.
  unfold enc_cache, hget. rewrite dict_get_cache_from. rewrite Z.sub_0_r. destruct (e <? 0); reflexivity.
Qed.

Lemma max_keys t : forall i,
  q_extreme true (VInt (i - 1)) (map fst (enc_cache_from i t)) = Some (VInt (i - 1 + Z.of_nat (List.length t))).
Proof.
  induction t as [|r t IH]; intros i; cbn [enc_cache_from map fst q_extreme List.length].
  - f_equal. f_equal. lia.
  - cbn [cmp_eval as_q q_cmp]. unfold Qcompare; cbn [Qnum Qden inject_Z].
    replace (i * 1 ?= (i - 1) * 1) with Datatypes.Gt by lia.
    replace (VInt i) with (VInt (i + 1 - 1)) by (f_equal; lia). rewrite IH. f_equal. f_equal. lia.
Qed.

(* get_last_epoch = max(self.cache_hist) *)
Lemma last_epoch_tie ext p c : c <> [] ->
  Interp.run ext tsc_get_last_epoch [("self", enc_self p c)]
  = Ok (VInt (last_epoch c)) (mkState [("self", enc_self p c)] []).
Proof.
  intros Hc. destruct c as [|r t]; [contradiction|].
  unfold Interp.run, tsc_get_last_epoch, enc_self. cbn.
  unfold enc_cache. cbn [enc_cache_from map fst].
  change (0 + 1) with 1. change (VInt 0) with (VInt (1 - 1)) at 1. rewrite (max_keys t 1). cbn.
  unfold last_epoch. cbn [List.length]. f_equal. f_equal. lia.
Qed.

(* old_lr - new_lr > rlr_epsilon, as the model writes it *)
Lemma gt_cmp a e :
  match (Qred a ?= e)%Q with Datatypes.Gt => true | _ => false end = negb (Qle_bool a e).
Proof.
  rewrite (Qred_correct a).
  destruct (Qle_bool a e) eqn:E.
  - apply Qle_bool_iff in E. destruct (a ?= e)%Q eqn:E1; try reflexivity. exfalso. apply (proj1 (Qle_alt a e) E). exact E1.
  - destruct (a ?= e)%Q eqn:E1; try reflexivity.
    + assert (H : (a <= e)%Q) by (apply Qle_alt; rewrite E1; discriminate).
      apply Qle_bool_iff in H. congruence.
    + assert (H : (a <= e)%Q) by (apply Qle_alt; rewrite E1; discriminate).
      apply Qle_bool_iff in H. congruence.
Qed.

(* comparisons of integers as the interpreter makes them (through Q), as the model writes them *)
Lemma q_lt a b :
  match (inject_Z a ?= inject_Z b)%Q with Datatypes.Lt => true | _ => false end = (a <? b).
Proof. unfold Qcompare; cbn [Qnum Qden inject_Z]. destruct (a * 1 ?= b * 1) eqn:E; lia. Qed.

Lemma q_gt a b :
  match (inject_Z a ?= inject_Z b)%Q with Datatypes.Gt => true | _ => false end = (b <? a).
Proof. unfold Qcompare; cbn [Qnum Qden inject_Z]. destruct (a * 1 ?= b * 1) eqn:E; lia. Qed.

(* max(x, 0) *)
Lemma vmax x :
  (if match (inject_Z 0 ?= inject_Z x)%Q with Datatypes.Gt => true | _ => false end then VInt 0 else VInt x)
  = VInt (Z.max x 0).
Proof. rewrite q_gt. destruct (x <? 0) eqn:E; f_equal; lia. Qed.

(* the same, also looking rows up in the cache *)
Ltac run_tests :=
  repeat (cbn;
    first
    [ progress rewrite dict_get_cache
    | match goal with
      | |- context [match (Qred ?a ?= ?e)%Q with _ => _ end] => rewrite (gt_cmp a e)
      | |- context [if match (inject_Z 0 ?= inject_Z ?x)%Q with
                       | Datatypes.Eq => false | Datatypes.Lt => false | Datatypes.Gt => true end
                    then VInt 0 else VInt ?x] => rewrite (vmax x)
      | |- context [match (inject_Z ?a ?= inject_Z ?b)%Q with
                    | Datatypes.Eq => false | Datatypes.Lt => true | Datatypes.Gt => false end] =>
          rewrite (q_lt a b)
      | |- context [match (inject_Z ?a ?= inject_Z ?b)%Q with
                    | Datatypes.Eq => false | Datatypes.Lt => false | Datatypes.Gt => true end] =>
          rewrite (q_gt a b)
      end
    | match goal with
      | H : hget ?c ?e = _ |- context [hget ?c ?e] => rewrite H
      | |- context [match hget ?c ?e with _ => _ end] => destruct (hget c e) eqn:?
      | |- context [option_map _ (hget ?c ?e)] => destruct (hget c e) eqn:?
      | |- context [binop_eval _ (vmet (r_val ?x))] => destruct (r_val x) eqn:?
      | |- context [match (?a ?= ?b)%Q with _ => _ end] => destruct (a ?= b)%Q eqn:?
      | |- context [if ?b then _ else _] =>
          lazymatch b with
          | context [if _ then _ else _] => fail
          | context [match _ with _ => _ end] => fail
          | _ => destruct b eqn:?
          end
      end ]).

(* epoch = get_last_epoch() + 1; cont; info = dict(self.get_info(epoch - 1, None)) *)
Lemma head_tie p c optim train va : c <> [] -> num_ok p ->
  head_expected p c (Interp.run ext15 ufe_head (vars_entry (enc_self p c) optim train va)).
Proof.
  intros Hc Hn. unfold head_expected, var_in, Interp.run, ufe_head, ufe_epoch, ufe_cont, ufe_info, vars_entry.
  cbn -[tsc_get_last_epoch Interp.run enc_self].
  rewrite (last_epoch_tie ext_none p c Hc).
  unfold enc_self, enc_params, num_ok in *. cbn.
  destruct (p_num p) as [n|]; cbn.
  - destruct (n =? 0) eqn:En; [exfalso; apply Hn; f_equal; lia|].
    run_tests. all: cbn; try reflexivity.
    all: unfold Qcompare in *; cbn [Qnum Qden inject_Z] in *.
    all: (split; [reflexivity | split; [f_equal; f_equal; lia | reflexivity]]).
  - run_tests. all: cbn; try reflexivity. all: repeat split; reflexivity.
Qed.

Lemma hget_last c : c <> [] -> exists r, hget c (last_epoch c) = Some r.
Proof.
  intros Hc. unfold hget, last_epoch. destruct c as [|r0 t]; [contradiction|].
  replace (Z.of_nat (List.length (r0 :: t)) - 1 <? 0) with false by (cbn [List.length]; lia).
  destruct (nth_error (r0 :: t) (Z.to_nat (Z.of_nat (List.length (r0 :: t)) - 1))) eqn:E; [eauto|].
  apply nth_error_None in E. cbn [List.length] in E. lia.
Qed.

(* continue_training() *)
Lemma continue_tie p st : cache st <> [] -> num_ok p ->
  src_continue p st = Some (Model.continue_training p st).
Proof.
  intros Hc Hn. unfold src_continue, Model.continue_training, Interp.run, tsc_continue_training.
  destruct (hget_last _ Hc) as [r Hr].
  cbn -[tsc_get_last_epoch Interp.run enc_self].
  rewrite (last_epoch_tie ext_none p _ Hc).
  unfold enc_self, enc_params, num_ok, nonzero in *. cbn.
  destruct (p_num p) as [n|]; cbn.
  - destruct (n =? 0) eqn:En; [exfalso; apply Hn; f_equal; lia|].
    run_tests. all: cbn; try reflexivity. 
    all: unfold Qcompare in *; cbn [Qnum Qden inject_Z] in *. 
    all: try (f_equal; lia).
  - run_tests. all: cbn; try reflexivity; try congruence; try (exfalso; lia).
Qed.

(* ---- the control part of update_for_epoch ------------------------------------------------------------ *)
(* if info["lr"] is None: info["lr"] = optimizer.defaults["lr"] *)
Lemma lr_default_tie p c os dflt prev u epoch va train cont :
  exec ext15 ufe_lr_default
    (st_of (vars_ctl (enc_self p c) (enc_opt os dflt) (enc_row_u prev u) epoch va train cont))
  = Ok CNormal
      (st_of (vars_ctl (enc_self p c) (enc_opt os dflt)
                (enc_row_u (set_lr prev (match r_lr prev with Some l => l | None => dflt end)) u)
                epoch va train cont)).
Proof.
  unfold ufe_lr_default, st_of, vars_ctl, enc_row_u, enc_opt, set_lr. cbn.
  destruct (r_lr prev) as [l|]; cbn; reflexivity.
Qed.

(* es_epoch = ...; es_info = self.get_info(es_epoch); the early-stopping countdown statement *)
Lemma es_tie p c os dflt r u epoch va train cont :
  es_expected p c os dflt r u epoch va train cont
    (exec ext15 ufe_es (st_of (vars_ctl (enc_self p c) (enc_opt os dflt) (enc_row_u r u) epoch va train cont))).
Proof.
  unfold es_expected, es_step, below, nonzero, ufe_es, st_of, vars_es, vars_ctl, enc_row_u, enc_self, enc_params, set_es, vrow.
  run_tests. all: unfold set_var; cbn; try reflexivity; try (eexists; reflexivity).
  all: unfold Qcompare in *; cbn [Qnum Qden inject_Z] in *; try (exfalso; lia).
Qed.

(* if self.params.early_stopping_threshold and not info["es_patience_cd"]: cont = False *)
Lemma es_cont_tie p c os dflt r u epoch va train cont x y :
  exec ext15 ufe_es_cont
    (st_of (vars_es (enc_self p c) (enc_opt os dflt) (enc_row_u r u) epoch va train cont x y))
  = Ok CNormal
      (st_of (vars_es (enc_self p c) (enc_opt os dflt) (enc_row_u r u) epoch va train
                (es_cont p (r_espcd r) cont) x y)).
Proof.
  unfold es_cont, nonzero, ufe_es_cont, st_of, vars_es, vars_ctl, enc_row_u, enc_self, enc_params.
  run_tests. all: unfold set_var; cbn; try reflexivity; try (exfalso; lia).
Qed.

