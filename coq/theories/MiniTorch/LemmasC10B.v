(* MiniTorch, unit C10BSrc — the algebra of OpsC10B.v (and some more of OpsC10.v) needed by the second C10 tie
   (no new definitions of meaning): operations on TABULATED tensors (LemmasC10.C1/C2/C3 ...) are tabulated, and the
   list-level operations (mask rows, nonzero, 1-D slices, integer indexing) are the list functions one expects. *)
From Coq Require Import List ZArith Bool Arith Lia ZifyBool.
From PV Require Import MiniTorch.Ops MiniTorch.OpsC10 MiniTorch.LemmasC10 MiniTorch.OpsC10B.
Import ListNotations.

Definition B1 (k : nat) (b : nat -> bool) : itens := C1 k (fun l => CBool (b l)).

(* ---- arange ---- *)
Lemma arange3_I1 : forall a b s, (0 < s)%Z -> (a <= b)%Z ->
  arange3 a b s = Some (I1 (Z.to_nat ((b - a + s - 1) / s)) (fun i => (a + Z.of_nat i * s)%Z)).
Proof.
  intros a b s Hs Hab. unfold arange3.
  replace ((s <=? 0)%Z || (b <? a)%Z) with false by (symmetry; apply orb_false_iff; split; lia).
  reflexivity.
Qed.

(* ---- element-wise operations with a Python number / between tensors of the same shape ---- *)
Lemma bcast_C1_scalar : forall f k fa z c,
  (forall l, (l < k)%nat -> f (fa l) (CInt z) = Some (c l)) ->
  bcast f (C1 k fa) (scalar_int z) = Some (C1 k c).
Proof.
  intros f k fa z c H.
  rewrite (bcast_tab f (C1 k fa) (scalar_int z) 1 1 k 1 1 1 (fun _ _ => fa) (fun _ _ _ => CInt z) 1 1 k (fun _ _ => c)
             eq_refl (data_C1 _ _) eq_refl eq_refl (bdim_same 1) (bdim_same 1) (bdim_1_r k)).
  - cbn [C1 ndim ishape length Nat.max Nat.sub skipn]. unfold C1. now rewrite D3_1, D2_1.
  - intros i j l Hi Hj Hl. rewrite (bidx_same k l) by assumption. now apply H.
Qed.

Lemma bcast_C2_scalar : forall f m k fa z c,
  (forall j l, (j < m)%nat -> (l < k)%nat -> f (fa j l) (CInt z) = Some (c j l)) ->
  bcast f (C2 m k fa) (scalar_int z) = Some (C2 m k c).
Proof.
  intros f m k fa z c H.
  rewrite (bcast_tab f (C2 m k fa) (scalar_int z) 1 m k 1 1 1 (fun _ => fa) (fun _ _ _ => CInt z) 1 m k (fun _ => c)
             eq_refl (data_C2 _ _ _) eq_refl eq_refl (bdim_same 1) (bdim_1_r m) (bdim_1_r k)).
  - cbn [C2 ndim ishape length Nat.max Nat.sub skipn]. unfold C2. now rewrite D3_1.
  - intros i j l Hi Hj Hl. rewrite (bidx_same m j), (bidx_same k l) by assumption. now apply H.
Qed.

Lemma bcast_C2_C2 : forall f m k fa fb c,
  (forall j l, (j < m)%nat -> (l < k)%nat -> f (fa j l) (fb j l) = Some (c j l)) ->
  bcast f (C2 m k fa) (C2 m k fb) = Some (C2 m k c).
Proof.
  intros f m k fa fb c H.
  rewrite (bcast_tab f (C2 m k fa) (C2 m k fb) 1 m k 1 m k (fun _ => fa) (fun _ => fb) 1 m k (fun _ => c)
             eq_refl (data_C2 _ _ _) eq_refl (data_C2 _ _ _) (bdim_same 1) (bdim_same m) (bdim_same k)).
  - cbn [C2 ndim ishape length Nat.max Nat.sub skipn]. unfold C2. now rewrite D3_1.
  - intros i j l Hi Hj Hl. rewrite (bidx_same m j), (bidx_same k l) by assumption. now apply H.
Qed.

(* (m, 1) op (m, k) and (m, k) op (m, 1) *)
Lemma bcast_C2col_C2 : forall f m k fa fb c,
  (forall j l, (j < m)%nat -> (l < k)%nat -> f (fa j 0%nat) (fb j l) = Some (c j l)) ->
  bcast f (C2 m 1 fa) (C2 m k fb) = Some (C2 m k c).
Proof.
  intros f m k fa fb c H.
  rewrite (bcast_tab f (C2 m 1 fa) (C2 m k fb) 1 m 1 1 m k (fun _ => fa) (fun _ => fb) 1 m k (fun _ => c)
             eq_refl (data_C2 _ _ _) eq_refl (data_C2 _ _ _) (bdim_same 1) (bdim_same m) (bdim_1_l k)).
  - cbn [C2 ndim ishape length Nat.max Nat.sub skipn]. unfold C2. now rewrite D3_1.
  - intros i j l Hi Hj Hl. cbn [bidx Nat.eqb]. rewrite (bidx_same m j), (bidx_same k l) by assumption. now apply H.
Qed.

Lemma bcast_C2_C2col : forall f m k fa fb c,
  (forall j l, (j < m)%nat -> (l < k)%nat -> f (fa j l) (fb j 0%nat) = Some (c j l)) ->
  bcast f (C2 m k fa) (C2 m 1 fb) = Some (C2 m k c).
Proof.
  intros f m k fa fb c H.
  rewrite (bcast_tab f (C2 m k fa) (C2 m 1 fb) 1 m k 1 m 1 (fun _ => fa) (fun _ => fb) 1 m k (fun _ => c)
             eq_refl (data_C2 _ _ _) eq_refl (data_C2 _ _ _) (bdim_same 1) (bdim_same m) (bdim_1_r k)).
  - cbn [C2 ndim ishape length Nat.max Nat.sub skipn]. unfold C2. now rewrite D3_1.
  - intros i j l Hi Hj Hl. cbn [bidx Nat.eqb]. rewrite (bidx_same m j), (bidx_same k l) by assumption. now apply H.
Qed.

(* (m, 1) op (k)  ->  (m, k) *)
Lemma bcast_C2col_C1 : forall f m k fa fb c,
  (forall j l, (j < m)%nat -> (l < k)%nat -> f (fa j 0%nat) (fb l) = Some (c j l)) ->
  bcast f (C2 m 1 fa) (C1 k fb) = Some (C2 m k c).
Proof.
  intros f m k fa fb c H.
  rewrite (bcast_tab f (C2 m 1 fa) (C1 k fb) 1 m 1 1 1 k (fun _ => fa) (fun _ _ => fb) 1 m k (fun _ => c)
             eq_refl (data_C2 _ _ _) eq_refl (data_C1 _ _) (bdim_same 1) (bdim_1_r m) (bdim_1_l k)).
  - cbn [C2 C1 ndim ishape length Nat.max Nat.sub skipn]. unfold C2. now rewrite D3_1.
  - intros i j l Hi Hj Hl. cbn [bidx Nat.eqb]. rewrite (bidx_same m j), (bidx_same k l) by assumption. now apply H.
Qed.

Lemma bcast_C1_C1 : forall f k fa fb c,
  (forall l, (l < k)%nat -> f (fa l) (fb l) = Some (c l)) ->
  bcast f (C1 k fa) (C1 k fb) = Some (C1 k c).
Proof.
  intros f k fa fb c H.
  rewrite (bcast_tab f (C1 k fa) (C1 k fb) 1 1 k 1 1 k (fun _ _ => fa) (fun _ _ => fb) 1 1 k (fun _ _ => c)
             eq_refl (data_C1 _ _) eq_refl (data_C1 _ _) (bdim_same 1) (bdim_same 1) (bdim_same k)).
  - cbn [C1 ndim ishape length Nat.max Nat.sub skipn]. unfold C1. now rewrite D3_1, D2_1.
  - intros i j l Hi Hj Hl. rewrite (bidx_same k l) by assumption. now apply H.
Qed.

(* ---- expand with -1 / to more dimensions ---- *)
Lemma expand_to_C1_rows : forall k f N,
  expand_to (C1 k f) [Z.of_nat N; (-1)%Z] = Some (C2 N k (fun _ j => f j)).
Proof.
  intros k f N. unfold expand_to. cbn [C1 ndim ishape idata length Nat.leb Nat.sub repeat app resolve_sizes Nat.pred].
  replace (Z.of_nat N =? -1)%Z with false by lia. replace (Z.of_nat N <? 0)%Z with false by lia.
  cbn [Z.eqb Pos.eqb option_map]. rewrite Nat2Z.id.
  unfold expand. cbn [ishape idata expandable norm3].
  replace (((1 =? N) || (1 =? 1)) && (((k =? k) || (k =? 1)) && true))%nat with true
    by (rewrite (Nat.eqb_refl k), (Nat.eqb_refl 1), orb_true_r; reflexivity).
  unfold C2. f_equal. f_equal. rewrite <- (D3_1 N k (fun _ _ j => f j)). apply D3_ext. intros i j l Hi Hj Hl.
  cbn [bidx Nat.eqb]. rewrite <- (D2_1 k (fun _ => f)), <- (D3_1 1 k (fun _ _ => f)).
  replace i with 0%nat by lia. cbn [bidx Nat.eqb].
  unfold bidx. destruct (k =? 1)%nat eqn:E.
  - apply Nat.eqb_eq in E. subst k. replace l with 0%nat by lia. apply get3_D3; lia.
  - apply get3_D3; lia.
Qed.

Lemma get3_D3_bidx_k : forall n m k f i j l, (i < n)%nat -> (j < m)%nat -> (l < k)%nat ->
  get3 m k (D3 n m k f) i j (bidx k l) = f i j l.
Proof.
  intros. unfold bidx. destruct (k =? 1)%nat eqn:E.
  - apply Nat.eqb_eq in E. subst k. replace l with 0%nat by lia. apply get3_D3; lia.
  - now apply get3_D3.
Qed.

Lemma expand_to_C2col : forall n k f,
  expand_to (C2 n 1 f) [Z.of_nat n; Z.of_nat k] = Some (C2 n k (fun i _ => f i 0%nat)).
Proof.
  intros n k f. unfold expand_to. cbn [C2 ndim ishape idata length Nat.leb Nat.sub repeat app resolve_sizes Nat.pred].
  replace (Z.of_nat n =? -1)%Z with false by lia. replace (Z.of_nat n <? 0)%Z with false by lia.
  replace (Z.of_nat k =? -1)%Z with false by lia. replace (Z.of_nat k <? 0)%Z with false by lia.
  cbn [option_map]. rewrite !Nat2Z.id.
  unfold expand. cbn [ishape idata expandable norm3].
  replace (((n =? n) || (n =? 1)) && (((1 =? k) || (1 =? 1)) && true))%nat with true
    by (rewrite (Nat.eqb_refl n), (Nat.eqb_refl 1), orb_true_r; reflexivity).
  unfold C2. f_equal. f_equal. rewrite <- (D3_1 n k (fun _ i _ => f i 0%nat)). apply D3_ext. intros i j l Hi Hj Hl.
  rewrite <- (D3_1 n 1 (fun _ => f)).
  replace i with 0%nat by lia. cbn [bidx Nat.eqb].
  unfold bidx. destruct (n =? 1)%nat eqn:E.
  - apply Nat.eqb_eq in E. subst n. replace j with 0%nat by lia. apply get3_D3; lia.
  - apply get3_D3; lia.
Qed.

(* ---- view / flatten ---- *)
Lemma view_C1_col : forall n f, view (C1 n f) [n; 1%nat] = Some (C2 n 1 (fun i _ => f i)).
Proof.
  intros. unfold view, C1, C2. cbn [ishape idata numel fold_right].
  replace (n * 1 =? n * (1 * 1))%nat with true by (symmetry; apply Nat.eqb_eq; lia).
  now rewrite D2_col.
Qed.

Lemma flatten_3_01 : forall n m k d, flatten (mkIT [n; m; k] d) 0 1 = Some (mkIT [numel [n; m]; k] d).
Proof. reflexivity. Qed.

Lemma flatten_2_all : forall n m d, flatten (mkIT [n; m] d) 0 (-1) = Some (mkIT [numel [n; m]] d).
Proof. reflexivity. Qed.

(* ---- stack along a new last dimension ---- *)
Lemma interleave_app : forall a1 b1 a2 b2, length a1 = length b1 ->
  interleave (a1 ++ a2) (b1 ++ b2) = interleave a1 b1 ++ interleave a2 b2.
Proof.
  induction a1 as [|x a1 IH]; intros b1 a2 b2 H; destruct b1 as [|y b1]; cbn in H; try discriminate; [reflexivity|].
  cbn [app interleave]. rewrite IH by lia. reflexivity.
Qed.

Lemma interleave_map : forall {A} (f g : A -> cell) l, interleave (map f l) (map g l) = flat_map (fun x => [f x; g x]) l.
Proof. induction l as [|x l IH]; cbn; [reflexivity|now rewrite IH]. Qed.

Definition pair_cell {A} (f g : A) (l : nat) : A := match l with O => f | S _ => g end.

Lemma interleave_D2 : forall m k f g,
  interleave (D2 m k f) (D2 m k g) = D3 m k 2 (fun j l => pair_cell (f j l) (g j l)).
Proof.
  intros. unfold D2, D3. induction (seq 0 m) as [|j s IH]; [reflexivity|]. cbn [flat_map].
  rewrite interleave_app by now rewrite !length_D1. rewrite IH. f_equal.
  unfold D1, D2. rewrite interleave_map. apply flat_map_ext_in'. intros l _. unfold D1. reflexivity.
Qed.

Lemma stack2_C2 : forall m k f g,
  stack2_last (C2 m k f) (C2 m k g) 2 = Some (C3 m k 2 (fun j l => pair_cell (f j l) (g j l))).
Proof.
  intros. unfold stack2_last. cbn [C2 ishape idata ndim length shape_eqb]. rewrite !Nat.eqb_refl. cbn [andb Z.eqb Z.of_nat Pos.of_succ_nat Pos.succ Pos.eqb app].
  unfold C3. now rewrite interleave_D2.
Qed.

Lemma stack2_V1 : forall a b, length a = length b ->
  stack2_last (V1 a) (V1 b) 1 = Some (mkIT [length a; 2%nat] (interleave a b)).
Proof.
  intros a b H. unfold stack2_last, V1. cbn [ishape idata ndim length shape_eqb]. rewrite H, Nat.eqb_refl. reflexivity.
Qed.

(* ---- boolean mask over the first dimension ---- *)
Lemma select_rows_app : forall {A} (r1 r2 : list (list A)) m1 m2 o1 o2,
  select_rows r1 m1 = Some o1 -> select_rows r2 m2 = Some o2 -> select_rows (r1 ++ r2) (m1 ++ m2) = Some (o1 ++ o2).
Proof.
  induction r1 as [|x r1 IH]; intros r2 m1 m2 o1 o2 H1 H2; destruct m1 as [|c m1]; cbn in H1; try discriminate.
  - inversion H1; subst. exact H2.
  - destruct c as [z|bb|]; try discriminate. cbn [app select_rows].
    destruct (select_rows r1 m1) as [r|] eqn:E; [|discriminate]. rewrite (IH r2 m1 m2 r o2 E H2).
    cbn in H1 |- *. inversion H1; subst. destruct bb; reflexivity.
Qed.

Lemma select_rows_flat_map : forall {A X} (F : X -> list (list A)) (M : X -> list cell) c l,
  (forall x, In x l -> select_rows (F x) (M x) = Some (c x)) ->
  select_rows (flat_map F l) (flat_map M l) = Some (flat_map c l).
Proof.
  induction l as [|x l IH]; intros H; [reflexivity|]. cbn [flat_map].
  apply select_rows_app; [apply H; now left|apply IH; intros; apply H; now right].
Qed.

Lemma select_rows_map : forall {A X} (F : X -> list A) (b : X -> bool) l,
  select_rows (map F l) (map (fun x => CBool (b x)) l) = Some (map F (filter b l)).
Proof.
  induction l as [|x l IH]; [reflexivity|]. cbn [map select_rows filter]. rewrite IH. cbn [option_map]. now destruct (b x).
Qed.

(* the (i, j) kept by a mask, row-major *)
Definition kept2 (n m : nat) (b : nat -> nat -> bool) : list (nat * nat) :=
  flat_map (fun i => map (pair i) (filter (b i) (seq 0 m))) (seq 0 n).

Lemma mask_rows_D3 : forall n m rest f b,
  mask_rows (mkIT (numel [n; m] :: rest) (D3 n m (numel rest) f)) (mkIT [numel [n; m]] (D2 n m (fun i j => CBool (b i j))))
  = Some (mkIT (length (kept2 n m b) :: rest) (flat_map (fun p => D1 (numel rest) (f (fst p) (snd p))) (kept2 n m b))).
Proof.
  intros. unfold mask_rows. cbn [ishape idata]. rewrite Nat.eqb_refl, chunks_D3.
  unfold D2 at 1 2.
  rewrite (select_rows_flat_map _ _ (fun i => map (fun j => D1 (numel rest) (f i j)) (filter (b i) (seq 0 m)))).
  - f_equal. f_equal.
    + f_equal. unfold kept2.
      clear. induction (seq 0 n) as [|i s IH]; [reflexivity|]. cbn [flat_map]. rewrite !app_length, !map_length, IH. reflexivity.
    + unfold kept2. rewrite concat_flat_map', flat_map_flat_map. apply flat_map_ext_in'. intros i _.
      rewrite concat_map_flat, flat_map_map'. reflexivity.
  - intros i _. unfold D1 at 1 2. apply select_rows_map.
Qed.

Lemma mask_rows_D2 : forall n m g b,
  mask_rows (mkIT [numel [n; m]] (D2 n m g)) (mkIT [numel [n; m]] (D2 n m (fun i j => CBool (b i j))))
  = Some (V1 (map (fun p => g (fst p) (snd p)) (kept2 n m b))).
Proof.
  intros. replace (D2 n m g) with (D3 n m 1 (fun i j _ => g i j)) by (rewrite D3_col; reflexivity).
  pose proof (mask_rows_D3 n m [] (fun i j _ => g i j) b) as H. change (numel []) with 1%nat in H. rewrite H.
  unfold V1. rewrite map_length. do 2 apply f_equal.
  unfold D1. cbn [seq map]. apply (flat_map_single (fun p => g (fst p) (snd p))).
Qed.
