(* C06 — build_trie_ok, part 4: the child search of the lookup on buffers that meet [LevOK].
   One extension step from the cell of a level-n entry finds exactly the level-(n+1) entry
   whose reversed key is one token longer (or fails), hence a whole descent from a unigram
   cell ends in the cell of the entry with that reversed key, if it is listed. *)
From Coq Require Import List ZArith Bool Arith Lia ZifyBool ZifyNat Permutation Sorted.
From PV Require Import C06.Model C06.Spec C06.Proofs C06.BuildBase C06.BuildSort C06.BuildLevels.
Import ListNotations.
Local Open Scope Z_scope.

Lemma cands_in b sh j pos :
  0 <= zget (offsets b) (j + 1) 0 + 1 - zget (offsets b) j 0 <= Z.of_nat (maxdesc sh) ->
  (In pos (cands b sh j) <->
   zget (offsets b) j 0 + j <= pos < zget (offsets b) (j + 1) 0 + j + 1).
Proof.
  intros Hs. unfold cands. rewrite filter_In, in_map_iff. split.
  - intros [(k & <- & Hk) Hlt]. apply in_seq in Hk. lia.
  - intros Hp. split; [|lia]. exists (Z.to_nat (pos - (zget (offsets b) j 0 + j))).
    split; [lia|]. apply in_seq. lia.
Qed.

Lemma cands_nodup b sh j : NoDup (cands b sh j).
Proof.
  unfold cands. apply NoDup_filter. apply FinFun.Injective_map_NoDup; [|apply seq_NoDup].
  intros x y H. lia.
Qed.

Lemma ext_false_fold b sh rest d : fold_left (ext b sh) rest (d, false) = (d, false).
Proof. induction rest as [|t r IH]; [reflexivity|]. cbn [fold_left]. rewrite ext_false. apply IH. Qed.

(* ---------- one extension step ------------------------------------------------------------------------- *)

Section Step.
  Variables (b : bufs) (sh : shape) (nuni : Z) (n : nat) (prev d : dict) (Lpos : Z).
  Let U := usize sh.
  Let lv := sort_rev d.
  Let Lm := Lpos + zlen prev + 1.
  Let ps := ppos (map fst prev) Lpos lv.
  Hypothesis Hprev : sorted_level n prev.
  Hypothesis Hwf : level_wf nuni n (map fst prev) d.
  Hypothesis Hpsz : psize b sh = zlen (logps b).
  Hypothesis Hoffs : forall j, Lpos <= j <= Lpos + zlen prev ->
    zget (offsets b) j 0 = Lm + count_lt ps j - j.
  Hypothesis Hids : forall k e, nth_error lv k = Some e ->
    zget (ids b) (Lm + Z.of_nat k - U) 0 = last (fst e) 0.
  Hypothesis Hfit : Lm + zlen lv <= zlen (logps b).
  Hypothesis Hspan : forall j, Lpos <= j < Lpos + zlen prev ->
    zget (offsets b) (j + 1) 0 + 1 - zget (offsets b) j 0 <= Z.of_nat (maxdesc sh).

  Let Hnd : nondecr ps := ppos_nondecr nuni n prev d Lpos Hprev Hwf.

  Lemma prev_keys_nodup : NoDup (map fst prev).
  Proof. apply sorted_NoDup. apply Hprev. Qed.

  Lemma lv_keys_nodup : NoDup (map fst lv).
  Proof. apply sorted_NoDup. apply sort_rev_sorted. apply (lw_nodup _ _ _ _ Hwf). Qed.

  (* the candidate cells of the entry at index i of the parent level *)
  Lemma cands_level i : (i < length prev)%nat -> forall pos,
    In pos (cands b sh (Lpos + Z.of_nat i)) <->
    Lm + count_lt ps (Lpos + Z.of_nat i) <= pos < Lm + count_lt ps (Lpos + Z.of_nat i + 1).
  Proof.
    intros Hi pos. set (j := Lpos + Z.of_nat i).
    assert (Hj : Lpos <= j < Lpos + zlen prev) by (unfold zlen, j; lia).
    pose proof (Hspan j Hj) as Hs. pose proof (count_lt_mono ps j (j + 1) ltac:(lia)) as Hm.
    rewrite cands_in.
    - rewrite (Hoffs j), (Hoffs (j + 1)) by lia. lia.
    - rewrite (Hoffs j), (Hoffs (j + 1)) in * by lia. lia.
  Qed.

  (* what a candidate cell holds *)
  Lemma cand_entry i ep pos : nth_error prev i = Some ep ->
    In pos (cands b sh (Lpos + Z.of_nat i)) ->
    exists k e, pos = Lm + Z.of_nat k /\ nth_error lv k = Some e /\
                fst e = fst ep ++ [idat b sh pos].
  Proof.
    intros Hi Hin.
    assert (Hil : (i < length prev)%nat) by (apply nth_error_Some; rewrite Hi; discriminate).
    apply (cands_level i Hil) in Hin.
    pose proof (count_lt_bounds ps (Lpos + Z.of_nat i)) as Hb0.
    pose proof (count_lt_bounds ps (Lpos + Z.of_nat i + 1)) as Hb1.
    assert (Hlen : zlen ps = zlen lv) by (unfold zlen, ps; rewrite ppos_length; reflexivity).
    set (k := Z.to_nat (pos - Lm)).
    assert (Hk : (k < length lv)%nat) by (unfold zlen in *; lia).
    destruct (nth_error lv k) as [e|] eqn:Ek; [|apply nth_error_None in Ek; lia].
    exists k, e. split; [lia|]. split; [exact Ek|].
    assert (Hgr : nth k ps 0 = Lpos + Z.of_nat i).
    { apply (group_range ps Hnd); [unfold ps; rewrite ppos_length; exact Hk|lia]. }
    destruct (ppos_parent nuni n prev d Lpos Hwf k e Ek) as (i' & Hi' & Hpar).
    fold lv in Hi'. fold ps in Hi'.
    assert (i' = i) by lia. subst i'.
    rewrite nth_error_map, Hi in Hpar. cbn in Hpar. injection Hpar as Hpar.
    destruct (sort_rev_parent _ _ _ _ e Hwf (nth_error_In _ _ Ek)) as [_ Hle].
    assert (Hne : fst e <> []) by (intros E; rewrite E in Hle; cbn in Hle; lia).
    rewrite (snoc_removelast_last _ Hne) at 1. rewrite <- Hpar. f_equal. f_equal.
    unfold idat. fold U. rewrite Hpsz. rewrite Z.min_l by (unfold zlen in *; lia).
    replace pos with (Lm + Z.of_nat k) by lia. symmetry. apply Hids. exact Ek.
  Qed.

  Lemma cands_ids_nodup i ep : nth_error prev i = Some ep ->
    NoDup (map (idat b sh) (cands b sh (Lpos + Z.of_nat i))).
  Proof.
    intros Hi. apply NoDup_map_inj_in; [apply cands_nodup|].
    intros x y Hx Hy Heq.
    destruct (cand_entry i ep x Hi Hx) as (k & e & -> & Ek & Ee).
    destruct (cand_entry i ep y Hi Hy) as (k' & e' & -> & Ek' & Ee').
    assert (k = k'); [|subst; reflexivity].
    pose proof lv_keys_nodup as Hn. rewrite (NoDup_nth_error) in Hn. apply Hn.
    - rewrite map_length. apply nth_error_Some. rewrite Ek. discriminate.
    - rewrite !nth_error_map, Ek, Ek'. cbn. f_equal. rewrite Ee, Ee', Heq. reflexivity.
  Qed.

  (* the listed child is found ... *)
  Lemma ext_level_found i ep tok k e : nth_error prev i = Some ep -> nth_error lv k = Some e ->
    fst e = fst ep ++ [tok] -> ext b sh (Lpos + Z.of_nat i, true) tok = (Lm + Z.of_nat k, true).
  Proof.
    intros Hi Hk He.
    assert (Hil : (i < length prev)%nat) by (apply nth_error_Some; rewrite Hi; discriminate).
    assert (Hkl : (k < length lv)%nat) by (apply nth_error_Some; rewrite Hk; discriminate).
    assert (Hin : In (Lm + Z.of_nat k) (cands b sh (Lpos + Z.of_nat i))).
    { apply (cands_level i Hil).
      assert (Hg : count_lt ps (Lpos + Z.of_nat i) <= Z.of_nat k < count_lt ps (Lpos + Z.of_nat i + 1)); [|lia].
      apply (group_range ps Hnd).
      - unfold ps. rewrite ppos_length. exact Hkl.
      - unfold ps. rewrite (ppos_nth _ _ _ _ _ Hk). f_equal. f_equal.
        apply (kindex_unique _ prev_keys_nodup). rewrite nth_error_map, Hi. cbn. f_equal.
        rewrite He. symmetry. apply removelast_last. }
    destruct (cand_entry i ep _ Hi Hin) as (k' & e' & Hpos & Ek' & Ee').
    assert (k' = k) by lia. subst k'. rewrite Hk in Ek'. injection Ek' as <-.
    assert (Htok : idat b sh (Lm + Z.of_nat k) = tok).
    { rewrite He in Ee'. apply app_inv_head in Ee'. congruence. }
    rewrite <- Htok. apply ext_in; [apply (cands_ids_nodup i ep Hi)|exact Hin].
  Qed.

  (* ... and nothing else is *)
  Lemma ext_level_none i ep tok : nth_error prev i = Some ep ->
    (forall e, In e lv -> fst e <> fst ep ++ [tok]) ->
    snd (ext b sh (Lpos + Z.of_nat i, true) tok) = false.
  Proof.
    intros Hi Hno. destruct (ext b sh (Lpos + Z.of_nat i, true) tok) as [p f] eqn:E. cbn [snd].
    destruct f; [|reflexivity]. exfalso.
    destruct (ext_found b sh _ tok p (cands_ids_nodup i ep Hi) E) as [Hin Hid].
    destruct (cand_entry i ep p Hi Hin) as (k & e & _ & Ek & Ee).
    apply (Hno e (nth_error_In _ _ Ek)). rewrite Ee, Hid. reflexivity.
  Qed.
End Step.

(* ---------- a whole descent ------------------------------------------------------------------------------ *)

(* the m-th level below prev, and the cell of its first entry *)
Fixpoint level_at (prev : dict) (Lpos : Z) (ds : list dict) (m : nat) {struct m} : dict * Z :=
  match m with
  | O => (prev, Lpos)
  | S m' => match ds with
            | d :: rest => level_at (sort_rev d) (Lpos + zlen prev + 1) rest m'
            | [] => ([], 0)
            end
  end.

(* max_direct_descendants bounds the number of children of every node *)
Fixpoint SpanOK (b : bufs) (S_ : Z) (prev : dict) (Lpos : Z) (ds : list dict) : Prop :=
  match ds with
  | [] => True
  | d :: rest =>
      (forall j, Lpos <= j < Lpos + zlen prev ->
                 zget (offsets b) (j + 1) 0 + 1 - zget (offsets b) j 0 <= S_) /\
      SpanOK b S_ (sort_rev d) (Lpos + zlen prev + 1) rest
  end.

(* every entry of a deeper level extends an entry of each level above it *)
Lemma ancestor_closed nuni : forall m ds n prev Lpos e,
  chain_wf nuni n prev ds -> sorted_level n prev -> (m <= length ds)%nat ->
  In e (fst (level_at prev Lpos ds m)) ->
  exists e0, In e0 prev /\ fst e0 = firstn n (fst e).
Proof.
  induction m as [|m IH]; intros ds n prev Lpos e Hch Hprev Hm Hin.
  - cbn [level_at fst] in Hin. exists e. split; [assumption|].
    rewrite firstn_all2; [reflexivity|]. rewrite (proj2 Hprev e Hin). lia.
  - destruct ds as [|d rest]; cbn [length] in Hm; [lia|]. cbn [level_at] in Hin.
    destruct Hch as [Hwf Hch].
    destruct (IH rest (S n) (sort_rev d) _ e Hch (sort_rev_level _ _ _ _ Hwf) ltac:(lia) Hin)
      as (e1 & Hin1 & He1).
    destruct (sort_rev_parent _ _ _ _ e1 Hwf Hin1) as [Hpar Hlen].
    apply in_map_iff in Hpar as (e0 & He0 & Hin0). exists e0. split; [assumption|].
    rewrite He0, removelast_firstn_len, Hlen, He1. cbn [pred].
    rewrite firstn_firstn. f_equal. lia.
Qed.

Section Descent.
  Variables (b : bufs) (sh : shape) (nuni : Z).
  Hypothesis Hpsz : psize b sh = zlen (logps b).

  Lemma descend_levels : forall rest ds n prev Lpos i ep,
    LevOK b (usize sh) prev Lpos ds -> chain_wf nuni n prev ds -> sorted_level n prev ->
    SpanOK b (Z.of_nat (maxdesc sh)) prev Lpos ds ->
    (length rest <= length ds)%nat -> nth_error prev i = Some ep ->
    let st := fold_left (ext b sh) rest (Lpos + Z.of_nat i, true) in
    let lf := level_at prev Lpos ds (length rest) in
    (forall k e, nth_error (fst lf) k = Some e -> fst e = fst ep ++ rest ->
                 st = (snd lf + Z.of_nat k, true)) /\
    ((forall e, In e (fst lf) -> fst e <> fst ep ++ rest) -> snd st = false).
  Proof.
    induction rest as [|tok rest IH]; intros ds n prev Lpos i ep HLev Hch Hprev Hspan Hlen Hi.
    - cbn [fold_left length level_at fst snd]. split.
      + intros k e Hk He. rewrite app_nil_r in He. f_equal. f_equal. f_equal.
        pose proof (sorted_NoDup prev (proj1 Hprev)) as Hn. rewrite NoDup_nth_error in Hn.
        apply Hn.
        * rewrite map_length. apply nth_error_Some. rewrite Hi. discriminate.
        * rewrite !nth_error_map, Hi, Hk. cbn. f_equal. symmetry. exact He.
      + intros Hno. exfalso. apply (Hno ep (nth_error_In _ _ Hi)). rewrite app_nil_r. reflexivity.
    - destruct ds as [|d dsr]; cbn [length] in Hlen; [lia|].
      cbn [LevOK] in HLev. destruct HLev as (Hoffs & Hent & (Hfit & _ & _) & HLev).
      destruct Hch as [Hwf Hch]. destruct Hspan as [Hsp Hspan].
      cbn [fold_left length level_at]. cbv zeta.
      set (lv := sort_rev d) in *. set (Lm := Lpos + zlen prev + 1) in *.
      assert (Hids : forall k e, nth_error lv k = Some e ->
                zget (ids b) (Lm + Z.of_nat k - usize sh) 0 = last (fst e) 0).
      { intros k e Hk. apply (Hent k e Hk). }
      destruct (dget lv (fst ep ++ [tok])) as [v|] eqn:Eg.
      + (* the child is listed *)
        apply dget_some in Eg. apply In_nth_error in Eg as [k1 Hk1].
        rewrite (ext_level_found b sh nuni n prev d Lpos Hprev Hwf Hpsz Hoffs Hids Hfit Hsp
                   i ep tok k1 _ Hi Hk1 eq_refl).
        fold lv. fold Lm.
        destruct (IH dsr (S n) lv Lm k1 (fst ep ++ [tok], v) HLev Hch
                    (sort_rev_level _ _ _ _ Hwf) Hspan ltac:(lia) Hk1) as [H1 H2].
        cbn [fst] in H1, H2. rewrite <- app_assoc in H1, H2. cbn [app] in H1, H2.
        split; assumption.
      + (* it is not: the search fails, and no deeper entry can extend the key *)
        assert (Hno : forall e, In e lv -> fst e <> fst ep ++ [tok]).
        { intros e He Heq. apply (dget_in lv (fst ep ++ [tok])); [|exact Eg].
          rewrite <- Heq. apply in_map. exact He. }
        pose proof (ext_level_none b sh nuni n prev d Lpos Hprev Hwf Hpsz Hoffs Hids Hfit Hsp
                      i ep tok Hi Hno) as Hf.
        destruct (ext b sh (Lpos + Z.of_nat i, true) tok) as [p f]. cbn [snd] in Hf. subst f.
        rewrite ext_false_fold. fold lv. fold Lm. split; [|reflexivity].
        intros k e Hk He. exfalso.
        destruct (ancestor_closed nuni (length rest) dsr (S n) lv Lm e Hch
                    (sort_rev_level _ _ _ _ Hwf) ltac:(lia) (nth_error_In _ _ Hk)) as (e0 & Hin0 & He0).
        apply (Hno e0 Hin0). rewrite He0, He.
        assert (Hl : length (fst ep) = n) by (apply (proj2 Hprev), (nth_error_In _ _ Hi)).
        replace (fst ep ++ tok :: rest) with ((fst ep ++ [tok]) ++ rest) by (rewrite <- app_assoc; reflexivity).
        rewrite firstn_app. rewrite firstn_all2 by (rewrite app_length; cbn [length]; lia).
        rewrite app_length. cbn [length]. replace (S n - (length (fst ep) + 1))%nat with 0%nat by lia.
        cbn [firstn]. rewrite app_nil_r. reflexivity.
  Qed.

  (* what the cells of a level hold *)
  Lemma level_values : forall m ds prev Lpos k e,
    LevOK b (usize sh) prev Lpos ds -> (1 <= m <= length ds)%nat ->
    nth_error (fst (level_at prev Lpos ds m)) k = Some e ->
    zget (logps b) (snd (level_at prev Lpos ds m) + Z.of_nat k) NaN = fst (snd e) /\
    ((m < length ds)%nat ->
       zget (logbs b) (snd (level_at prev Lpos ds m) + Z.of_nat k) NaN = snd (snd e) /\
       snd (level_at prev Lpos ds m) + Z.of_nat k < zlen (offsets b)).
  Proof.
    induction m as [|m IH]; intros ds prev Lpos k e HLev Hm Hk; [lia|].
    destruct ds as [|d rest]; cbn [length] in Hm; [lia|].
    cbn [LevOK] in HLev. destruct HLev as (_ & Hent & (_ & Hfit & _) & HLev). cbn [level_at] in *.
    destruct m as [|m].
    - cbn [level_at fst snd] in *. destruct (Hent k e Hk) as (_ & Hp & Hb). split; [exact Hp|].
      intros Hlt. assert (Hr : rest <> []) by (intros ->; cbn in Hlt; lia).
      split; [apply Hb; exact Hr|].
      specialize (Hfit Hr).
      assert (Z.of_nat k < zlen (sort_rev d)).
      { unfold zlen. assert (k < length (sort_rev d))%nat; [|lia]. apply nth_error_Some. rewrite Hk. discriminate. }
      lia.
    - destruct (IH rest (sort_rev d) _ k e HLev ltac:(cbn [length]; lia) Hk) as [Hp Hb].
      split; [exact Hp|]. intros Hlt. apply Hb. cbn [length] in Hlt. lia.
  Qed.
End Descent.
