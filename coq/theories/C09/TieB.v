(* C09, second tie — tie between the Python text of `pad_masked_sequence` / `chunk_by_slices` (src/pydrobert/torch/_pad.py)
   and PV.C09.Model, checked by the kernel.  PV.Gen.C09BSrc.masked_body / chunk_body are the MiniPy terms that
   harness/py2coq/translate.py regenerates from /repo on every run; PV.MiniPy.Interp is their semantics; the torch calls
   mean what PV.MiniTorch.OpsC09 / OpsC09B say (through SrcRunB.ext09b).  The theorems are stated on the model's own
   inputs: x = rows of cells of F payload values (F >= 1, ANY values), masks / slices / lens as lists.
   TieBMasked.v / TieBChunk.v: symbolic runs on tabulated tensors;  TieBModel.v / TieBChunkModel.v: the resulting list
   functions are the model's.  If the source is edited so that this stops being true, these files stop compiling and the
   C09 check reports the broken obligation. *)
From Coq Require Import ZArith List Bool Arith Lia ZifyBool ZifyNat.
From Coq Require String.
From PV Require Import MiniPy.Syntax MiniPy.Interp MiniTorch.Ops MiniTorch.OpsC09 MiniTorch.LemmasC09 MiniTorch.OpsC09B
  MiniTorch.LemmasC09B Gen.C09BSrc.
From PV Require Import C09.SrcRun C09.SrcRunB C09.TieSrc C09.TieGpb C09.TieModel C09.Tie C09.TieBSrc C09.TieBMasked C09.TieBModel
  C09.TieBChunk.
From PV Require Import C09.Model C09.Spec C09.Proofs C09.ProofsTop.
Import ListNotations.
Local Open Scope nat_scope.

(* ---- well-shaped masks, tabulated ------------------------------------------------------------------------------ *)
Definition wf_mask (C : nat) (m : list (list bool)) : Prop := Forall (fun r => List.length r = C) m.
Definition mfun (m : list (list bool)) (i j : nat) : bool := nth j (nth i m []) false.

Lemma wf_mask_row C m i : wf_mask C m -> i < List.length m -> nth i m [] = tab1 C (mfun m i).
Proof.
  intros H Hi. unfold wf_mask in H. rewrite Forall_forall in H.
  assert (HC : List.length (nth i m []) = C) by (apply H; now apply nth_In).
  rewrite (tab1_of_list (nth i m []) false) at 1. now rewrite HC.
Qed.

Lemma mask_tensor_tab C m : wf_mask C m -> mask_tensor C m = mkTn [List.length m; C] (tab2 (List.length m) C (mfun m)).
Proof.
  intros H. unfold mask_tensor. f_equal. rewrite (tab1_of_list m []) at 1. unfold tab2. rewrite flat_map_concat_map.
  unfold tab1 at 1. f_equal. apply map_ext_in. intros i Hi. apply in_seq in Hi. apply wf_mask_row; [assumption|lia].
Qed.

Lemma wf_x_rows W F out : wf_x W F out <-> Forall (fun row => List.length row = W /\ cellsF F row) out.
Proof. reflexivity. Qed.

Lemma rows_tensor_tab W F out : wf_x W F out -> rows_tensor W F out = mkTn [List.length out; W; F] (tab3 (List.length out) W F (xfun out)).
Proof. intros H. exact (x_tensor_tab W F out H). Qed.

Lemma vec_of_tab (lens : list nat) n (f : nat -> Z) : map Z.of_nat lens = tab1 n f -> vec_tensor lens = mkTn [n] (tab1 n f).
Proof.
  intros H. unfold vec_tensor. rewrite H. f_equal. f_equal. rewrite <- (map_length Z.of_nat), H. apply tab1_length.
Qed.

(* ---- pad_masked_sequence, batch_first = True ----------------------------------------------------------------------- *)
Lemma combine_tab T F x mask :
  wf_x T F x -> wf_mask T mask -> List.length mask = List.length x ->
  combine x mask = rowsMk (List.length x) T F (xfun x) (mfun mask).
Proof.
  intros Hx Hm Hl. unfold rowsMk, rowsG.
  apply (nth_ext _ _ ([], []) ([], [])).
  - rewrite combine_length, map_length, seq_length. lia.
  - intros i Hi. rewrite combine_length in Hi. rewrite combine_nth by lia.
    rewrite (nth_indep _ _ (mkM T F (xfun x) (mfun mask) 0)) by (rewrite map_length, seq_length; lia).
    rewrite map_nth, seq_nth by lia. cbn [Nat.add]. unfold mkM, mcell. f_equal.
    + apply (wf_row T F x i Hx). lia.
    + apply wf_mask_row; [assumption|lia].
Qed.

Definition masked_out (C F : nat) (r : res (list (list (list val)) * list nat)) (st : state) : outcome val :=
  match r with
  | Ok (out, lens) => Interp.Ok (VTuple [enc_p (rows_tensor C F out); enc_i (vec_tensor lens)]) st
  | e => Interp.Exc (exc_of e) st
  end.

Theorem masked_tie_bf N T F value x mask d :
  0 < F -> wf_x T F x -> wf_mask T mask -> List.length mask = List.length x ->
  exists st,
    run_masked (x_tensor T F x) (mask_tensor T mask) true value
    = masked_out T F (pad_masked_sequence N T d (repeat value F) true x mask) st.
Proof.
  intros HF Hx Hm Hl. unfold run_masked, pad_masked_sequence.
  rewrite (x_tensor_tab T F x Hx), (mask_tensor_tab T mask Hm), Hl, (combine_tab T F x mask Hx Hm Hl).
  set (n := List.length x) in *. unfold xT.
  destruct (masked_run_bf n T F (xfun x) (mfun mask) value) as [st E]. exists st. rewrite E.
  pose proof (src_masked_model n T F (xfun x) (mfun mask) value HF) as G.
  destruct (pad_masked_rows T (repeat value F) (rowsMk n T F (xfun x) (mfun mask))) as [[out lens]| | |];
    cbn [masked_rel] in G; [|contradiction|rewrite G; reflexivity|contradiction].
  destruct G as (-> & (Hlen & Hwf) & Hlens). cbn [masked_out]. unfold rows_tensor. rewrite Hlen.
  now rewrite (vec_of_tab lens n _ Hlens).
Qed.

(* ---- batch_first = False: x is T rows of N cells, the model transposes in and out -------------------------------- *)
Lemma transpose_tab {B} N T (d : B) (x : list (list B)) (f : nat -> nat -> B) :
  List.length x = T -> (forall i j, i < N -> j < T -> nth i (nth j x []) d = f i j) ->
  transpose N d x = tab1 N (fun i => tab1 T (f i)).
Proof.
  intros HL H. unfold transpose, tab1 at 1. apply map_ext_in. intros i Hi. apply in_seq in Hi.
  rewrite (tab1_of_list x []) at 1. rewrite map_tab1, HL. apply tab1_ext. intros j Hj. apply H; lia.
Qed.

Lemma xfun_cell T F x i j : wf_x T F x -> i < List.length x -> j < T -> nth j (nth i x []) [] = tab1 F (xfun x i j).
Proof. intros Hx Hi Hj. rewrite (wf_row T F x i Hx Hi). now rewrite nth_tab1. Qed.

Lemma combine_tab1 {A B} n (f : nat -> A) (g : nat -> B) : combine (tab1 n f) (tab1 n g) = tab1 n (fun i => (f i, g i)).
Proof. unfold tab1. induction (seq 0 n) as [|a l IH]; [reflexivity|]. cbn [map combine]. now rewrite IH. Qed.

Lemma combine_transpose_tab N T F x mask d :
  wf_x N F x -> wf_mask N mask -> List.length x = T -> List.length mask = T ->
  combine (transpose N d x) (transpose N false mask)
  = rowsMk N T F (fun i j l => xfun x j i l) (fun i j => mfun mask j i).
Proof.
  intros Hx Hm HLx HLm.
  rewrite (transpose_tab N T d x (fun i j => tab1 F (xfun x j i)) HLx).
  2:{ intros i j Hi Hj. rewrite (nth_indep _ d []).
      - apply (xfun_cell N F x j i Hx); lia.
      - rewrite (wf_row N F x j Hx) by lia. now rewrite tab1_length. }
  rewrite (transpose_tab N T false mask (fun i j => mfun mask j i) HLm) by reflexivity.
  rewrite combine_tab1. reflexivity.
Qed.

Lemma wf_x_length_cell W F out i j : wf_x W F out -> i < List.length out -> j < W -> List.length (nth j (nth i out []) []) = F.
Proof. intros H Hi Hj. rewrite (xfun_cell W F out i j H Hi Hj). apply tab1_length. Qed.

(* the model's output, transposed back, as the source lays it out *)
Lemma transpose_out_tensor N T F (d : list val) out :
  wf_x T F out -> List.length out = N ->
  rows_tensor N F (transpose T d out) = mkTn [T; N; F] (tab3 T N F (fun j i k => xfun out i j k)).
Proof.
  intros Hw HL.
  assert (HT : transpose T d out = tab1 T (fun j => tab1 N (fun i => tab1 F (xfun out i j)))).
  { unfold transpose, tab1 at 1. apply map_ext_in. intros j Hj. apply in_seq in Hj.
    rewrite (tab1_of_list out []) at 1. rewrite map_tab1, HL. apply tab1_ext. intros i Hi.
    rewrite (nth_indep _ d []).
    - apply (xfun_cell T F out i j Hw); lia.
    - rewrite (wf_row T F out i Hw) by lia. now rewrite tab1_length. }
  unfold rows_tensor. rewrite HT, tab1_length. f_equal.
  unfold tab3, tab2. rewrite map_tab1, flat_map_concat_map. unfold tab1. f_equal. apply map_ext. intros j.
  now rewrite flat_map_concat_map.
Qed.

Theorem masked_tie_nbf N T F value x mask d :
  0 < F -> wf_x N F x -> wf_mask N mask -> List.length x = T -> List.length mask = T ->
  exists st,
    run_masked (x_tensor N F x) (mask_tensor N mask) false value
    = masked_out N F (pad_masked_sequence N T d (repeat value F) false x mask) st.
Proof.
  intros HF Hx Hm HLx HLm. unfold run_masked, pad_masked_sequence.
  rewrite (x_tensor_tab N F x Hx), (mask_tensor_tab N mask Hm), HLx, HLm, (combine_transpose_tab N T F x mask d Hx Hm HLx HLm).
  unfold xT.
  destruct (masked_run_nbf N T F (xfun x) (mfun mask) value) as [st E]. exists st. rewrite E.
  pose proof (src_masked_model N T F (fun i j l => xfun x j i l) (fun i j => mfun mask j i) value HF) as G.
  destruct (pad_masked_rows T (repeat value F) (rowsMk N T F (fun i j l => xfun x j i l) (fun i j => mfun mask j i)))
    as [[out lens]| | |]; cbn [masked_rel] in G; [|contradiction|rewrite G; reflexivity|contradiction].
  destruct G as (-> & (Hlen & Hwf) & Hlens). cbn [masked_out].
  rewrite (transpose_out_tensor N T F d out Hwf Hlen), (vec_of_tab lens N _ Hlens).
  pose proof (rows_tensor_tab T F out Hwf) as ER. unfold rows_tensor in ER. injection ER as ER. rewrite ER, Hlen.
  do 5 f_equal. apply tab3_ext. intros j i k Hj Hi Hk. now rewrite at3_tab3.
Qed.

(* ---- composed with the model theorem (ProofsTop.pad_masked_sequence_correct): statements purely about the
   interpreted source.  For every batch, the interpreted `pad_masked_sequence` returns the tensor whose row n is the
   cells of x[n] selected by mask[n], in order, followed by the fill cell up to T, and the vector of the counts. ---- *)
Theorem source_masked_rows_bf T F value x mask :
  0 < F -> wf_x T F x -> wf_mask T mask -> List.length mask = List.length x ->
  exists out lens st,
    run_masked (x_tensor T F x) (mask_tensor T mask) true value
    = Interp.Ok (VTuple [enc_p (rows_tensor T F out); enc_i (vec_tensor lens)]) st
    /\ List.length out = List.length x /\ List.length lens = List.length x
    /\ forall n, n < List.length x ->
         (nth n out [], nth n lens 0) = compact1 (repeat value F) (nth n x []) (nth n mask []).
Proof.
  intros HF Hx Hm Hl. set (N := List.length x).
  destruct (pad_masked_sequence_correct N T [] (repeat value F) true x mask) as (o & lens & E & Ho & Hlens & Hrows).
  - reflexivity.
  - exact Hl.
  - intros n Hn. cbn [bf_view]. unfold wf_x in Hx. unfold wf_mask in Hm. rewrite Forall_forall in Hx, Hm. split.
    + apply Hx. apply nth_In. exact Hn.
    + apply Hm. apply nth_In. fold N in Hl. lia.
  - destruct (masked_tie_bf N T F value x mask [] HF Hx Hm Hl) as [st Er]. rewrite E in Er. cbn [masked_out] in Er.
    exists o, lens, st. split; [exact Er|]. split; [exact Ho|]. split; [exact Hlens|]. exact Hrows.
Qed.

(* batch_first = False: x is (T, N, F), mask (T, N); row n of the (N, T) VIEW o is the compaction of column n, and the
   returned tensor is o transposed back *)
Theorem source_masked_rows_nbf N T F value x mask :
  0 < F -> wf_x N F x -> wf_mask N mask -> List.length x = T -> List.length mask = T ->
  exists o lens st,
    run_masked (x_tensor N F x) (mask_tensor N mask) false value
    = Interp.Ok (VTuple [enc_p (rows_tensor N F (transpose T [] o)); enc_i (vec_tensor lens)]) st
    /\ List.length o = N /\ List.length lens = N
    /\ forall n, n < N ->
         (nth n o [], nth n lens 0)
         = compact1 (repeat value F) (nth n (transpose N [] x) []) (nth n (transpose N false mask) []).
Proof.
  intros HF Hx Hm HLx HLm.
  destruct (pad_masked_sequence_correct N T [] (repeat value F) false x mask) as (o & lens & E & Ho & Hlens & Hrows).
  - cbn [bf_view]. unfold transpose. now rewrite map_length, seq_length.
  - cbn [bf_view]. unfold transpose. now rewrite map_length, seq_length.
  - intros n Hn. cbn [bf_view]. unfold transpose.
    rewrite (nth_indep _ [] (map (fun row => nth 0 row []) x)) by (rewrite map_length, seq_length; exact Hn).
    rewrite (nth_indep (map _ (seq 0 N)) [] (map (fun row => nth 0 row false) mask)) by (rewrite map_length, seq_length; exact Hn).
    rewrite (map_nth (fun i => map (fun row => nth i row []) x)), (map_nth (fun i => map (fun row => nth i row false) mask)).
    now rewrite !map_length.
  - destruct (masked_tie_nbf N T F value x mask [] HF Hx Hm HLx HLm) as [st Er]. rewrite E in Er. cbn [masked_out] in Er.
    exists o, lens, st. split; [exact Er|]. split; [exact Ho|]. split; [exact Hlens|]. exact Hrows.
Qed.

(* ---- the executable form the harness evaluates (SrcRunB.src_masked) ------------------------------------------------ *)
Lemma masked_out_wf N T F value x mask d out lens :
  0 < F -> wf_x T F x -> wf_mask T mask -> List.length mask = List.length x ->
  pad_masked_sequence N T d (repeat value F) true x mask = Ok (out, lens) ->
  wf_x T F out /\ List.length lens = List.length x.
Proof.
  intros HF Hx Hm Hl. unfold pad_masked_sequence. rewrite (combine_tab T F x mask Hx Hm Hl). intros E.
  pose proof (src_masked_model (List.length x) T F (xfun x) (mfun mask) value HF) as G. rewrite E in G.
  destruct G as (_ & (Hlen & Hwf) & Hlens). split; [exact Hwf|].
  rewrite <- (map_length Z.of_nat), Hlens. apply tab1_length.
Qed.

Theorem src_masked_tie_bf N T F value x mask d :
  0 < F -> wf_x T F x -> wf_mask T mask -> List.length mask = List.length x ->
  src_masked T F value true x mask
  = Some (match pad_masked_sequence N T d (repeat value F) true x mask with
          | Ok (out, lens) => Ok (out, map Z.of_nat lens)
          | ErrValue => ErrValue | ErrRuntime => ErrRuntime | ErrNotImpl => ErrNotImpl
          end).
Proof.
  intros HF Hx Hm Hl. unfold src_masked.
  destruct (masked_tie_bf N T F value x mask d HF Hx Hm Hl) as [st ->].
  destruct (pad_masked_sequence N T d (repeat value F) true x mask) as [[out lens]| | |] eqn:E; try reflexivity.
  destruct (masked_out_wf N T F value x mask d out lens HF Hx Hm Hl E) as [Hw _].
  cbn [masked_out read_pair]. rewrite dec_any_enc_p, dec_any_enc_i. rewrite (cells_of_rows T F out Hw). reflexivity.
Qed.

(* ---- the two tie theorems with everything spelled out (the statements Properties.v quotes) ----------------------- *)
Theorem masked_tie_bf_explicit N T F value x mask d :
  0 < F -> wf_x T F x -> wf_mask T mask -> List.length mask = List.length x ->
  exists st,
    Interp.run ext09b masked_body
      (masked_vars (enc_p (x_tensor T F x)) (enc_b (mask_tensor T mask)) true value)
    = match pad_masked_sequence N T d (repeat value F) true x mask with
      | Ok (out, lens) => Interp.Ok (VTuple [enc_p (rows_tensor T F out); enc_i (vec_tensor lens)]) st
      | e => Interp.Exc (exc_of e) st
      end.
Proof.
  intros HF Hx Hm Hl. destruct (masked_tie_bf N T F value x mask d HF Hx Hm Hl) as [st E]. exists st.
  unfold run_masked in E. rewrite E. destruct (pad_masked_sequence N T d (repeat value F) true x mask) as [[? ?]| | |]; reflexivity.
Qed.

Theorem masked_tie_nbf_explicit N T F value x mask d :
  0 < F -> wf_x N F x -> wf_mask N mask -> List.length x = T -> List.length mask = T ->
  exists st,
    Interp.run ext09b masked_body
      (masked_vars (enc_p (x_tensor N F x)) (enc_b (mask_tensor N mask)) false value)
    = match pad_masked_sequence N T d (repeat value F) false x mask with
      | Ok (out, lens) => Interp.Ok (VTuple [enc_p (rows_tensor N F out); enc_i (vec_tensor lens)]) st
      | e => Interp.Exc (exc_of e) st
      end.
Proof.
  intros HF Hx Hm HLx HLm. destruct (masked_tie_nbf N T F value x mask d HF Hx Hm HLx HLm) as [st E]. exists st.
  unfold run_masked in E. rewrite E. destruct (pad_masked_sequence N T d (repeat value F) false x mask) as [[? ?]| | |]; reflexivity.
Qed.

(* ---- chunk_by_slices: the two early exits, on the model's own inputs (the main path is NOT proved) ------------------ *)
(* empty batch: the interpreted source returns the (0, T, F) tensor and the empty length vector, whatever slices, lens,
   mode and value are - and so does the model *)
Theorem chunk_tie_empty T F value md slices lens (d fill : list val) :
  exists st,
    Interp.run ext09b chunk_body
      (chunk_vars (enc_p (x_tensor T F [])) (enc_i (slices_tensor slices)) (lens_val lens) (mode_val md) value)
    = Interp.Ok (VTuple [enc_p (rows_tensor T F []); enc_i (vec_tensor [])]) st
    /\ chunk_by_slices T d fill md [] slices lens = Ok ([], []).
Proof.
  destruct (chunk_run_empty T F (slices_tensor slices) (lens_val lens) md value) as [st E]. exists st. split; [exact E|].
  destruct lens; reflexivity.
Qed.

(* a non-empty batch with a lens vector of the wrong length: RuntimeError, as in the model *)
Theorem chunk_tie_bad_lens T F value md x slices l (d fill : list val) :
  wf_x T F x -> x <> [] -> List.length l <> List.length x ->
  exists st,
    Interp.run ext09b chunk_body
      (chunk_vars (enc_p (x_tensor T F x)) (enc_i (slices_tensor slices)) (lens_val (Some l)) (mode_val md) value)
    = Interp.Exc runtime_error st
    /\ chunk_by_slices T d fill md x slices (Some l) = ErrRuntime.
Proof.
  intros Hx Hne Hl.
  assert (HN : List.length x <> 0) by (destruct x; [congruence|discriminate]).
  cbn [lens_val]. rewrite (x_tensor_tab T F x Hx), vec_tensor_tab.
  destruct (chunk_run_bad_lens (List.length x) (List.length l) T F (xfun x) (nfun l) (slices_tensor slices) md value HN Hl)
    as [st E]. exists st. split; [exact E|].
  unfold chunk_by_slices. destruct (Nat.eqb_spec (List.length x) 0) as [H0|_]; [congruence|].
  destruct (Nat.eqb_spec (List.length l) (List.length x)) as [H1|_]; [congruence|reflexivity].
Qed.
