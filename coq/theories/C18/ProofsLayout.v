(* C18 — feat_deltas on N-dimensional tensors: the transposes / flatten / view / movedim of the
   code lay the per-line deltas out along the requested dimension, by stacking or by
   concatenation, for every (dim, time_dim, concatenate). *)
From Coq Require Import List ZArith QArith Qabs Bool Arith Lia.
From PV Require Import C18.Model C18.Spec C18.QLemmas C18.Tensor C18.ProofsPad C18.ProofsDeltas.
Import ListNotations.
Local Open Scope nat_scope.

(* ------------------------------------------------------------------------------ *)
(* lists of naturals                                                              *)
(* ------------------------------------------------------------------------------ *)
Lemma nth_app_if : forall (a b : list nat) k,
  nth k (a ++ b) 0 = if k <? length a then nth k a 0 else nth (k - length a) b 0.
Proof.
  intros a b k. destruct (Nat.ltb_spec k (length a)); [now rewrite app_nth1|now rewrite app_nth2].
Qed.

Lemma last_nth_nat : forall (l : list nat), last l 0 = nth (length l - 1) l 0.
Proof.
  induction l as [|a l IH]; [reflexivity|].
  destruct l as [|b l]; [reflexivity|].
  change (last (a :: b :: l) 0) with (last (b :: l) 0). rewrite IH.
  cbn [length]. replace (S (S (length l)) - 1) with (S (length l)) by lia.
  cbn [nth]. replace (S (length l) - 1) with (length l) by lia. reflexivity.
Qed.

Lemma removelast_last : forall (l : list nat), l <> [] -> l = removelast l ++ [nth (length l - 1) l 0].
Proof. intros l H. rewrite <- last_nth_nat. now apply app_removelast_last. Qed.

Lemma tau_l : forall i j, tau i j i = j.
Proof. intros. unfold tau. now rewrite Nat.eqb_refl. Qed.

Lemma tau_r : forall i j, tau i j j = i.
Proof. intros. unfold tau. destruct (Nat.eqb_spec j i); [now subst|]. now rewrite Nat.eqb_refl. Qed.

Lemma tau_other : forall i j k, k <> i -> k <> j -> tau i j k = k.
Proof.
  intros i j k H1 H2. unfold tau.
  destruct (Nat.eqb_spec k i); [contradiction|]. destruct (Nat.eqb_spec k j); [contradiction|reflexivity].
Qed.

Lemma swapl_app_left : forall l r i j, i < length l -> j < length l ->
  swapl (l ++ r) i j = swapl l i j ++ r.
Proof.
  intros l r i j Hi Hj. apply nth_ext_nat.
  - now rewrite length_swapl, !app_length, length_swapl.
  - intros k Hk. rewrite length_swapl, app_length in Hk.
    rewrite nth_swapl by (rewrite app_length; lia).
    rewrite !nth_app_if, length_swapl.
    destruct (Nat.ltb_spec k (length l)) as [H|H].
    + pose proof (tau_lt i j k (length l) Hi Hj H) as Ht.
      destruct (Nat.ltb_spec (tau i j k) (length l)); [|lia].
      now rewrite nth_swapl.
    + rewrite tau_other by lia. destruct (Nat.ltb_spec k (length l)); [lia|reflexivity].
Qed.

Lemma swapl_adjacent : forall l1 a b l2,
  swapl (l1 ++ [a; b] ++ l2) (length l1) (S (length l1)) = l1 ++ [b; a] ++ l2.
Proof.
  intros l1 a b l2. set (p := length l1). apply nth_ext_nat.
  - now rewrite length_swapl, !app_length.
  - intros k Hk. rewrite length_swapl in Hk.
    rewrite nth_swapl by assumption. rewrite !app_length in Hk. cbn [length] in Hk. fold p in Hk.
    rewrite !nth_app_if. fold p.
    destruct (Nat.lt_total k p) as [H|[H|H]].
    + rewrite tau_other by lia. destruct (Nat.ltb_spec k p); [reflexivity|lia].
    + subst k. rewrite tau_l.
      destruct (Nat.ltb_spec (S p) p); [lia|]. destruct (Nat.ltb_spec p p); [lia|].
      replace (S p - p) with 1 by lia. rewrite Nat.sub_diag. reflexivity.
    + destruct (Nat.eq_dec k (S p)) as [E|E].
      * subst k. rewrite tau_r.
        destruct (Nat.ltb_spec (S p) p); [lia|]. destruct (Nat.ltb_spec p p); [lia|].
        replace (S p - p) with 1 by lia. rewrite Nat.sub_diag. reflexivity.
      * rewrite tau_other by lia. destruct (Nat.ltb_spec k p); [lia|].
        replace (k - p) with (S (S (k - p - 2))) by lia. reflexivity.
Qed.

(* exchanging position i with the last one *)
Lemma swapl_with_last : forall l i, i < length l ->
  swapl l i (length l - 1) = removelast (swapl l i (length l - 1)) ++ [nth i l 0].
Proof.
  intros l i Hi. set (s := swapl l i (length l - 1)).
  assert (Hs : s <> []) by (intros E; apply (f_equal (@length nat)) in E; unfold s in E; rewrite length_swapl in E; cbn in E; lia).
  rewrite (removelast_last s Hs) at 1. f_equal. f_equal.
  unfold s. rewrite length_swapl, nth_swapl by lia. now rewrite tau_r.
Qed.

Lemma firstn_app_exact : forall {A} (a b : list A), firstn (length a) (a ++ b) = a.
Proof. intros. rewrite firstn_app, Nat.sub_diag, firstn_all. cbn. apply app_nil_r. Qed.

Lemma skipn_app_exact : forall {A} (a b : list A), skipn (length a) (a ++ b) = b.
Proof. intros. rewrite skipn_app, Nat.sub_diag, skipn_all. reflexivity. Qed.

Lemma valid_app_split : forall sh1 sh2 idx, valid (sh1 ++ sh2) idx ->
  exists a b, idx = a ++ b /\ valid sh1 a /\ valid sh2 b /\ length a = length sh1.
Proof.
  intros sh1 sh2 idx H. destruct (valid_app_inv _ _ _ H) as [a [b [E [Ha Hb]]]].
  exists a, b. repeat split; try assumption. now apply valid_length.
Qed.

Lemma app_inj_len : forall {A} (a a' b b' : list A), length a = length a' ->
  a ++ b = a' ++ b' -> a = a' /\ b = b'.
Proof.
  induction a as [|x a IH]; intros [|y a'] b b' HL E; cbn in HL; try discriminate.
  - auto.
  - cbn [app] in E. inversion E; subst. destruct (IH a' b b' ltac:(lia) H1) as [-> ->]. auto.
Qed.

Lemma valid_app_inv_len : forall sh1 sh2 a b, length a = length sh1 ->
  valid (sh1 ++ sh2) (a ++ b) -> valid sh1 a /\ valid sh2 b.
Proof.
  intros sh1 sh2 a b HL H. destruct (valid_app_inv _ _ _ H) as [a' [b' [E [Ha Hb]]]].
  assert (length a' = length sh1) by now apply valid_length.
  assert (a = a' /\ b = b') as [-> ->].
  { apply app_inj_len; [lia|assumption]. }
  auto.
Qed.

Lemma length_set_nth : forall l k v, k < length l -> length (set_nth l k v) = length l.
Proof.
  intros l k v H. unfold set_nth. rewrite !app_length, firstn_length, skipn_length. cbn [length]. lia.
Qed.

Lemma nth_set_nth : forall l k v j, k < length l ->
  nth j (set_nth l k v) 0 = if j =? k then v else nth j l 0.
Proof.
  intros l k v j H. unfold set_nth.
  rewrite nth_app_if, firstn_length. replace (Nat.min k (length l)) with k by lia.
  destruct (Nat.ltb_spec j k) as [H1|H1].
  - destruct (Nat.eqb_spec j k); [lia|].
    rewrite <- (firstn_skipn k l) at 2. rewrite app_nth1; [reflexivity|]. rewrite firstn_length. lia.
  - destruct (Nat.eqb_spec j k) as [E|E].
    + subst. now rewrite Nat.sub_diag.
    + replace (j - k) with (S (j - k - 1)) by lia. cbn [app nth].
      rewrite <- (firstn_skipn (S k) l) at 2. rewrite app_nth2; rewrite firstn_length; [|lia].
      f_equal. lia.
Qed.

Lemma concat_flat_map_id : forall {A} (ll : list (list A)), concat ll = flat_map (fun r => r) ll.
Proof. intros. rewrite flat_map_concat_map, map_id. reflexivity. Qed.

Lemma nth_chunk : forall T n (l : list Q) t, (t < T) -> nth t (chunk T n l) 0%Q = nth (n * T + t) l 0%Q.
Proof. intros. unfold chunk. rewrite nth_firstn_Q by assumption. now rewrite nth_skipn_Q. Qed.

Lemma length_chunk : forall T n (l : list Q), (S n) * T <= length l -> length (chunk T n l) = T.
Proof. intros. unfold chunk. rewrite firstn_length, skipn_length. nia. Qed.

(* ------------------------------------------------------------------------------ *)
(* the first half of feat_deltas: per-line deltas in the (.., order, time) layout,  *)
(* then back to (original shape, order)                                             *)
(* ------------------------------------------------------------------------------ *)
(* the tensor feat_deltas holds after its second pair of transposes, as a closed term *)
Definition dl_y2 (x : tensor) (td o w : nat) (m : padmode) (v : Q) : tensor :=
  let D := length (shape x) in
  let x1 := transpose x td (D - 1) in
  let T := last (shape x1) 0 in
  let pre := removelast (shape x1) in
  let lines := map (fun n => chunk T n (data x1)) (seq 0 (prodn pre)) in
  let y := mkT (pre ++ [S o; T]) (concat (map (fun l => concat (delta_line m v o w l)) lines)) in
  transpose (transpose y (D - 1) D) td (D - 1).

Section Pipeline.
  Variables (x : tensor) (td o w : nat) (m : padmode) (v : Q).
  Let sh := shape x.
  Let D := length sh.
  Let x1 := transpose x td (D - 1).
  Let T := last (shape x1) 0.
  Hypothesis Htd : td < D.
  Hypothesis HT : 1 <= T.
  Hypothesis Hok : pad_ok m (w * o) T = true.

  Let pre := removelast (shape x1).

  Lemma T_eq : T = nth td sh 0.
  Proof.
    clear HT Hok.
    unfold T, x1. rewrite shape_transpose, last_nth_nat, length_swapl. fold sh. fold D.
    rewrite nth_swapl by (fold D; lia). now rewrite tau_r.
  Qed.
  Let lines := map (fun n => chunk T n (data x1)) (seq 0 (prodn pre)).
  Let y := mkT (pre ++ [S o; T]) (concat (map (fun l => concat (delta_line m v o w l)) lines)).
  Let y1 := transpose y (D - 1) D.
  Let y2 := transpose y1 td (D - 1).

  Lemma shape_x1 : shape x1 = pre ++ [T].
  Proof.
    rewrite T_eq. unfold pre, x1. rewrite shape_transpose. fold sh. unfold D.
    rewrite (swapl_with_last sh td Htd) at 1. reflexivity.
  Qed.

  Lemma length_pre : length pre = D - 1.
  Proof.
    pose proof shape_x1 as H. apply (f_equal (@length nat)) in H.
    unfold x1 in H. rewrite shape_transpose, length_swapl, app_length in H. cbn [length] in H.
    fold sh in H. fold D in H. lia.
  Qed.

  Lemma swapl_sh : swapl sh td (D - 1) = pre ++ [T].
  Proof. rewrite <- shape_x1. reflexivity. Qed.

  Lemma length_data_x1 : length (data x1) = prodn pre * T.
  Proof.
    unfold x1. rewrite data_transpose, map_length, length_indices. fold sh.
    rewrite swapl_sh, prodn_app. cbn. lia.
  Qed.

  Lemma get_x1 : forall ipre t, valid pre ipre -> t < T ->
    get x1 (ipre ++ [t]) = get x (swapl (ipre ++ [t]) td (D - 1)).
  Proof.
    intros ipre t Hv Ht. unfold x1. apply get_transpose; fold sh; fold D; try lia.
    rewrite swapl_sh. apply valid_app; [assumption|]. now apply valid1.
  Qed.

  Lemma nth_line : forall ipre t, valid pre ipre -> t < T ->
    nth t (chunk T (ravel pre ipre) (data x1)) 0%Q = get x1 (ipre ++ [t]).
  Proof.
    intros ipre t Hv Ht. rewrite nth_chunk by assumption. unfold get. rewrite shape_x1.
    rewrite ravel_app by now apply valid_length. cbn [ravel prodn fold_right]. f_equal. lia.
  Qed.

  Lemma length_line : forall n, n < prodn pre -> length (chunk T n (data x1)) = T.
  Proof. intros n Hn. apply length_chunk. rewrite length_data_x1. nia. Qed.

  Lemma rows_of_delta_line : forall l r, length l = T -> In r (delta_line m v o w l) -> length r = T.
  Proof.
    intros l r Hl Hin. apply (In_nth _ _ []) in Hin. destruct Hin as [u [Hu <-]].
    rewrite length_delta_line in Hu. rewrite length_delta_line_nth; [assumption|lia|now rewrite Hl].
  Qed.

  Lemma get_y : forall ipre u t, valid pre ipre -> u <= o -> t < T ->
    get y (ipre ++ [u; t]) =
    nth t (nth u (delta_line m v o w (chunk T (ravel pre ipre) (data x1))) []) 0%Q.
  Proof.
    intros ipre u t Hv Hu Ht. unfold get, y. cbn [shape data].
    rewrite ravel_app by now apply valid_length.
    pose proof (ravel_lt _ _ Hv) as Hn.
    replace (ravel [S o; T] [u; t]) with (u * T + t) by (cbn; lia).
    replace (prodn [S o; T]) with (S o * T) by (cbn; lia).
    rewrite <- flat_map_concat_map.
    rewrite (nth_flat_map_const _ lines (S o * T) (ravel pre ipre) (u * T + t) [] 0%Q).
    - unfold lines. rewrite nth_map_seq by assumption.
      rewrite concat_flat_map_id.
      rewrite (nth_flat_map_const _ _ T u t [] 0%Q); [reflexivity| | |assumption].
      + intros r Hr. apply (rows_of_delta_line (chunk T (ravel pre ipre) (data x1))); [|assumption].
        now apply length_line.
      + rewrite length_delta_line. lia.
    - intros l Hl. unfold lines in Hl. apply in_map_iff in Hl. destruct Hl as [n [<- Hn']].
      apply in_seq in Hn'. rewrite concat_flat_map_id.
      rewrite (length_flat_map_const _ _ T).
      + now rewrite length_delta_line.
      + intros r Hr. apply (rows_of_delta_line (chunk T n (data x1))); [|assumption].
        apply length_line. lia.
    - unfold lines. now rewrite map_length, seq_length.
    - nia.
  Qed.

  Lemma shape_y1 : shape y1 = pre ++ [T; S o].
  Proof.
    unfold y1. rewrite shape_transpose. unfold y. cbn [shape].
    rewrite <- length_pre at 1. replace D with (S (length pre)) by (rewrite length_pre; lia).
    change (pre ++ [S o; T]) with (pre ++ [S o; T] ++ []).
    rewrite swapl_adjacent. reflexivity.
  Qed.

  Lemma get_y1 : forall ipre u t, valid pre ipre -> u <= o -> t < T ->
    get y1 (ipre ++ [t; u]) = get y (ipre ++ [u; t]).
  Proof.
    intros ipre u t Hv Hu Ht. unfold y1.
    rewrite get_transpose.
    - f_equal. rewrite <- length_pre. replace D with (S (length pre)) by (rewrite length_pre; lia).
      rewrite <- (valid_length _ _ Hv).
      change (ipre ++ [t; u]) with (ipre ++ [t; u] ++ []). rewrite swapl_adjacent. reflexivity.
    - unfold y. cbn [shape]. rewrite app_length, length_pre. cbn [length]. lia.
    - unfold y. cbn [shape]. rewrite app_length, length_pre. cbn [length]. lia.
    - change (swapl (shape y) (D - 1) D) with (shape y1). rewrite shape_y1.
      apply valid_app; [assumption|]. apply valid2; lia.
  Qed.

  Lemma shape_y2 : shape y2 = sh ++ [S o].
  Proof.
    unfold y2. rewrite shape_transpose, shape_y1.
    change (pre ++ [T; S o]) with (pre ++ [T] ++ [S o]). rewrite app_assoc.
    rewrite swapl_app_left by (rewrite app_length, length_pre; cbn [length]; lia).
    rewrite <- swapl_sh. rewrite swapl_invol by (fold D; lia). reflexivity.
  Qed.

  (* position td of a source index goes last, like the shape *)
  Lemma swapl_isrc : forall isrc, valid sh isrc ->
    let ipre := removelast (swapl isrc td (D - 1)) in
    swapl isrc td (D - 1) = ipre ++ [nth td isrc 0] /\ valid pre ipre.
  Proof.
    intros isrc Hv ipre. pose proof (valid_length _ _ Hv) as HL. fold D in HL.
    assert (E : swapl isrc td (D - 1) = ipre ++ [nth td isrc 0]).
    { unfold ipre. rewrite <- HL. apply swapl_with_last. lia. }
    pose proof T_eq as HTeq.
    split; [exact E|].
    assert (Hv' : valid (swapl sh td (D - 1)) (swapl isrc td (D - 1))) by (apply valid_swapl; fold D; lia || assumption).
    rewrite swapl_sh, E in Hv'.
    apply valid_app_inv_len in Hv'; [tauto|].
    apply (f_equal (@length nat)) in E. rewrite length_swapl, app_length in E. cbn [length] in E.
    rewrite length_pre. lia.
  Qed.

  Lemma swapl_back : forall isrc t', valid sh isrc ->
    swapl (removelast (swapl isrc td (D - 1)) ++ [t']) td (D - 1) = set_nth isrc td t'.
  Proof.
    intros isrc t' Hv. pose proof (valid_length _ _ Hv) as HL. fold D in HL.
    destruct (swapl_isrc isrc Hv) as [E Hvp]. set (ipre := removelast (swapl isrc td (D - 1))) in *.
    assert (Lp : length ipre = D - 1) by (rewrite (valid_length _ _ Hvp); apply length_pre).
    apply nth_ext_nat.
    - rewrite length_swapl, app_length, length_set_nth by lia. cbn [length]. lia.
    - intros k Hk. rewrite length_swapl, app_length in Hk. cbn [length] in Hk.
      rewrite nth_swapl by (rewrite app_length; cbn [length]; lia).
      rewrite nth_set_nth by lia.
      assert (Hipre : forall j, j < D - 1 -> nth j ipre 0 = nth (tau td (D - 1) j) isrc 0).
      { intros j Hj. rewrite <- nth_swapl by lia. rewrite E. rewrite app_nth1 by lia. reflexivity. }
      destruct (Nat.eqb_spec k td) as [Ek|Ek].
      + subst k. rewrite tau_l. rewrite app_nth2 by lia. rewrite Lp, Nat.sub_diag. reflexivity.
      + destruct (Nat.eq_dec k (D - 1)) as [Ek'|Ek'].
        * subst k. rewrite tau_r. rewrite app_nth1 by lia. rewrite Hipre by lia. now rewrite tau_l.
        * rewrite tau_other by assumption. rewrite app_nth1 by lia. rewrite Hipre by lia.
          now rewrite tau_other.
  Qed.

  (* the line of the code = the line of the specification *)
  Lemma line_eq : forall isrc, valid sh isrc ->
    let ipre := removelast (swapl isrc td (D - 1)) in
    chunk T (ravel pre ipre) (data x1) = line x td isrc.
  Proof.
    intros isrc Hv ipre. destruct (swapl_isrc isrc Hv) as [E Hvp]. fold ipre in E, Hvp.
    apply (nth_ext _ _ 0%Q 0%Q).
    - rewrite length_line by now apply ravel_lt. unfold line. fold sh. rewrite <- T_eq. now rewrite map_length, seq_length.
    - intros t Ht. rewrite length_line in Ht by now apply ravel_lt.
      rewrite nth_line, get_x1 by assumption.
      unfold line. fold sh. rewrite <- T_eq. rewrite nth_map_seq by assumption.
      unfold ipre. now rewrite swapl_back.
  Qed.

  (* normal form of the first half: y2 has shape (original shape, order) and holds, at a
     source position and an order u, the u-th delta of the time line through that position *)
  Lemma y2_is : dl_y2 x td o w m v = y2.
  Proof. reflexivity. Qed.

  Lemma get_y2 : forall isrc u, valid sh isrc -> u <= o ->
    get y2 (isrc ++ [u]) =
    nth (nth td isrc 0) (nth u (delta_line m v o w (line x td isrc)) []) 0%Q.
  Proof.
    intros isrc u Hv Hu. pose proof (valid_length _ _ Hv) as HL. fold D in HL.
    destruct (swapl_isrc isrc Hv) as [E Hvp]. set (ipre := removelast (swapl isrc td (D - 1))) in *.
    assert (Ht : nth td isrc 0 < T) by (rewrite T_eq; apply valid_nth; [assumption|fold D; lia]).
    unfold y2. rewrite get_transpose.
    - rewrite swapl_app_left by lia. rewrite E. rewrite <- app_assoc. cbn [app].
      rewrite get_y1, get_y by assumption. unfold ipre. rewrite (line_eq isrc Hv). reflexivity.
    - rewrite shape_y1, app_length, length_pre. cbn [length]. lia.
    - rewrite shape_y1, app_length, length_pre. cbn [length]. lia.
    - change (swapl (shape y1) td (D - 1)) with (shape y2). rewrite shape_y2.
      apply valid_app; [assumption|]. apply valid1. lia.
  Qed.
End Pipeline.

Lemma dl_y2_spec : forall x td o w m v,
  td < length (shape x) -> 1 <= nth td (shape x) 0 -> pad_ok m (w * o) (nth td (shape x) 0) = true ->
  shape (dl_y2 x td o w m v) = shape x ++ [S o] /\
  forall isrc u, valid (shape x) isrc -> u <= o ->
    get (dl_y2 x td o w m v) (isrc ++ [u]) =
    nth (nth td isrc 0) (nth u (delta_line m v o w (line x td isrc)) []) 0%Q.
Proof.
  intros x td o w m v Htd HT Hok.
  rewrite <- (T_eq x td Htd) in HT, Hok.
  split.
  - exact (shape_y2 x td o w m v Htd HT).
  - intros isrc u Hv Hu. exact (get_y2 x td o w m v Htd HT Hok isrc u Hv Hu).
Qed.

(* ------------------------------------------------------------------------------ *)
(* movedim(-1, dim): a chain of adjacent transpositions                            *)
(* ------------------------------------------------------------------------------ *)
Lemma split_last : forall (l : list nat) k, length l = S k -> exists l' e, l = l' ++ [e] /\ length l' = k.
Proof.
  intros l k H. destruct (exists_last (l := l)) as [l' [e E]]; [intros ->; discriminate|].
  exists l', e. split; [assumption|]. subst. rewrite app_length in H. cbn in H. lia.
Qed.

Lemma valid1_inv : forall e l, valid [e] l -> exists i, l = [i] /\ i < e.
Proof.
  intros e l H. inversion H as [|i e' t t' Hi Ht]; subst. inversion Ht; subst. exists i. auto.
Qed.

Lemma move_left_spec : forall k z A Bk Sz C,
  length Bk = k -> shape z = A ++ Bk ++ [Sz] ++ C ->
  shape (move_left k (length A + k) z) = A ++ [Sz] ++ Bk ++ C /\
  forall a b u c, valid A a -> valid Bk b -> u < Sz -> valid C c ->
    get (move_left k (length A + k) z) (a ++ [u] ++ b ++ c) = get z (a ++ b ++ [u] ++ c).
Proof.
  induction k as [|k IH]; intros z A Bk Sz C HL Hsh.
  - destruct Bk; [|discriminate]. cbn [move_left app] in *. split; [assumption|].
    intros a b u c Ha Hb Hu Hc. inversion Hb. reflexivity.
  - destruct (split_last Bk k HL) as [Bk' [e [-> HL']]].
    cbn [move_left]. replace (length A + S k - 1) with (length A + k) by lia.
    set (z' := transpose z (length A + k) (length A + S k)).
    assert (Hsh0 : shape z = (A ++ Bk') ++ [e; Sz] ++ C) by (rewrite Hsh, <- !app_assoc; reflexivity).
    assert (HLz : length (shape z) = length A + k + 2 + length C).
    { rewrite Hsh0, !app_length. cbn [length]. lia. }
    assert (Hsh' : shape z' = A ++ Bk' ++ [Sz] ++ ([e] ++ C)).
    { unfold z'. rewrite shape_transpose, Hsh0.
      replace (length A + k) with (length (A ++ Bk')) by (rewrite app_length; lia).
      replace (length A + S k) with (S (length (A ++ Bk'))) by (rewrite app_length; lia).
      rewrite swapl_adjacent, <- !app_assoc. reflexivity. }
    destruct (IH z' A Bk' Sz ([e] ++ C) HL' Hsh') as [IHs IHg]. split.
    + rewrite IHs, <- !app_assoc. reflexivity.
    + intros a b u c Ha Hb Hu Hc.
      destruct (valid_app_split _ _ _ Hb) as [b' [ie [-> [Hb' [Hie Lb']]]]].
      destruct (valid1_inv _ _ Hie) as [ie0 [-> Hie0]].
      replace (a ++ [u] ++ (b' ++ [ie0]) ++ c) with (a ++ [u] ++ b' ++ ([ie0] ++ c))
        by (rewrite <- !app_assoc; reflexivity).
      rewrite IHg; try assumption; [|apply valid_app; [now apply valid1|assumption]].
      unfold z'. rewrite get_transpose; try lia.
      * f_equal.
        replace (a ++ b' ++ [u] ++ [ie0] ++ c) with ((a ++ b') ++ [u; ie0] ++ c)
          by (rewrite <- !app_assoc; reflexivity).
        replace (length A + k) with (length (a ++ b'))
          by (rewrite app_length, (valid_length _ _ Ha), (valid_length _ _ Hb'); lia).
        replace (length A + S k) with (S (length (a ++ b')))
          by (rewrite app_length, (valid_length _ _ Ha), (valid_length _ _ Hb'); lia).
        rewrite swapl_adjacent, <- !app_assoc. reflexivity.
      * change (swapl (shape z) (length A + k) (length A + S k)) with (shape z').
        rewrite Hsh'. repeat apply valid_app; try assumption; now apply valid1.
Qed.

Lemma movedim_last_spec : forall z sh So dm,
  shape z = sh ++ [So] -> dm <= length sh ->
  shape (movedim_last z dm) = firstn dm sh ++ [So] ++ skipn dm sh /\
  forall a b u, valid (firstn dm sh) a -> valid (skipn dm sh) b -> u < So ->
    get (movedim_last z dm) (a ++ [u] ++ b) = get z (a ++ b ++ [u]).
Proof.
  intros z sh So dm Hsh Hdm. unfold movedim_last. rewrite Hsh, app_length. cbn [length].
  replace (length sh + 1 - 1 - dm) with (length sh - dm) by lia.
  replace (length sh + 1 - 1) with (length (firstn dm sh) + (length sh - dm))
    by (rewrite firstn_length; lia).
  destruct (move_left_spec (length sh - dm) z (firstn dm sh) (skipn dm sh) So []) as [Hs Hg].
  - rewrite skipn_length. reflexivity.
  - rewrite Hsh. rewrite <- (firstn_skipn dm sh) at 1. rewrite <- !app_assoc. reflexivity.
  - split.
    + rewrite Hs, app_nil_r. reflexivity.
    + intros a b u Ha Hb Hu.
      specialize (Hg a b u [] Ha Hb Hu ltac:(constructor)). rewrite !app_nil_r in Hg. exact Hg.
Qed.

(* ------------------------------------------------------------------------------ *)
(* flatten(dim, dim + 1)                                                          *)
(* ------------------------------------------------------------------------------ *)
Lemma get_merged : forall z A P X B a q b,
  shape z = A ++ [P; X] ++ B -> length a = length A -> 0 < X ->
  get (mkT (A ++ [P * X] ++ B) (data z)) (a ++ [q] ++ b) = get z (a ++ [q / X; q mod X] ++ b).
Proof.
  intros z A P X B a q b Hsh La HX. unfold get. cbn [shape data]. rewrite Hsh. f_equal.
  rewrite (ravel_app A a ([P * X] ++ B) ([q] ++ b) La).
  rewrite (ravel_app A a ([P; X] ++ B) ([q / X; q mod X] ++ b) La).
  cbn [app ravel]. rewrite !prodn_cons.
  pose proof (Nat.div_mod q X ltac:(lia)) as E.
  set (d := q / X) in *. set (r := q mod X) in *. rewrite E. ring.
Qed.

(* ------------------------------------------------------------------------------ *)
(* feat_deltas                                                                    *)
(* ------------------------------------------------------------------------------ *)
Lemma feat_deltas_ok : forall x dim time_dim (conc : bool) order width m v out,
  feat_deltas x dim time_dim conc order width m v = Ok out ->
  exists td dm,
    (0 <= order)%Z /\ (1 <= width)%Z /\
    norm_dim (length (shape x)) time_dim = Some td /\
    norm_dim (if conc then length (shape x) else S (length (shape x))) dim = Some dm /\
    1 <= nth td (shape x) 0 /\
    pad_ok m (Z.to_nat width * Z.to_nat order) (nth td (shape x) 0) = true /\
    out = (let y3 := movedim_last (dl_y2 x td (Z.to_nat order) (Z.to_nat width) m v) dm in
           if conc then mkT (merge_dims (shape y3) dm) (data y3) else y3).
Proof.
  intros x dim time_dim conc order width m v out H. unfold feat_deltas in H.
  destruct (Z.ltb_spec order 0) as [Ho|Ho]; [discriminate|].
  destruct (Z.ltb_spec width 1) as [Hw|Hw]; [discriminate|].
  destruct (norm_dim (length (shape x)) time_dim) as [td|] eqn:Etd; [|discriminate].
  destruct (norm_dim (if conc then length (shape x) else S (length (shape x))) dim) as [dm|] eqn:Edm; [|discriminate].
  pose proof (norm_dim_lt _ _ _ Etd) as Htd.
  cbv zeta in H. rewrite (T_eq x td Htd) in H.
  destruct (negb match m with Constant => true | _ => Qeq_bool v 0 end); [discriminate|].
  destruct (Nat.eqb_spec (nth td (shape x) 0) 0) as [HT|HT]; [discriminate|].
  destruct (pad_ok m (Z.to_nat width * Z.to_nat order) (nth td (shape x) 0)) eqn:Hok; [|discriminate].
  cbn [negb] in H. inversion H as [Hout]. clear H.
  exists td, dm. repeat split; try assumption; try lia.
  unfold dl_y2. cbv zeta. rewrite (T_eq x td Htd). reflexivity.
Qed.

Lemma split_at : forall (l : list nat) k, k < length l ->
  l = firstn k l ++ [nth k l 0] ++ skipn (S k) l.
Proof.
  intros l k H. rewrite <- (firstn_skipn k l) at 1. f_equal.
  rewrite <- (firstn_skipn k l) at 2.
  assert (L : length (firstn k l) = k) by (rewrite firstn_length; lia).
  rewrite app_nth2 by lia. rewrite L, Nat.sub_diag.
  destruct (skipn k l) as [|h t] eqn:E.
  - apply (f_equal (@length nat)) in E. rewrite skipn_length in E. cbn in E. lia.
  - cbn [nth app]. f_equal.
    replace (S k) with (k + 1) by lia. rewrite <- (firstn_skipn k l) at 1.
    rewrite <- L at 1. rewrite skipn_app_plus, E. reflexivity.
Qed.

Lemma nth_mid : forall (a : list nat) u b, nth (length a) (a ++ u :: b) 0 = u.
Proof. intros. rewrite app_nth2 by lia. now rewrite Nat.sub_diag. Qed.

Lemma skipn_mid : forall (a : list nat) u b, skipn (S (length a)) (a ++ u :: b) = b.
Proof. intros. replace (S (length a)) with (length a + 1) by lia. now rewrite skipn_app_plus. Qed.

Lemma feat_deltas_layout : forall x dim time_dim (conc : bool) order width m v out,
  feat_deltas x dim time_dim conc order width m v = Ok out ->
  exists td dm,
    norm_dim (length (shape x)) time_dim = Some td /\
    norm_dim (if conc then length (shape x) else S (length (shape x))) dim = Some dm /\
    shape out = delta_shape (shape x) dm conc (Z.to_nat order) /\
    forall idx, valid (shape out) idx ->
      (get out idx == delta_at x td dm conc (Z.to_nat width) m v idx)%Q.
Proof.
  intros x dim time_dim conc order width m v out H.
  destruct (feat_deltas_ok _ _ _ _ _ _ _ _ _ H) as [td [dm [Ho [Hw [Etd [Edm [HT [Hok Hout]]]]]]]].
  exists td, dm. split; [assumption|]. split; [assumption|].
  set (o := Z.to_nat order) in *. set (w := Z.to_nat width) in *. set (sh := shape x) in *.
  pose proof (norm_dim_lt _ _ _ Etd) as Htd. pose proof (norm_dim_lt _ _ _ Edm) as Hdm.
  destruct (dl_y2_spec x td o w m v Htd HT Hok) as [Hs2 Hg2]. fold sh in Hs2, Hg2.
  set (y2 := dl_y2 x td o w m v) in *.
  assert (Hdm' : dm <= length sh) by (destruct conc; lia).
  destruct (movedim_last_spec y2 sh (S o) dm Hs2 Hdm') as [Hs3 Hg3].
  set (y3 := movedim_last y2 dm) in *. cbv zeta in Hout.
  assert (LA : length (firstn dm sh) = dm) by (rewrite firstn_length; lia).
  (* the value at a source position and an order *)
  assert (Hval : forall isrc u, valid sh isrc -> u <= o ->
            (get y2 (isrc ++ [u]) == regress w u (ext m v (line x td isrc)) (Z.of_nat (nth td isrc 0%nat)))%Q).
  { intros isrc u Hv Hu. rewrite Hg2 by assumption.
    apply delta_line_eq_regression.
    - unfold line. rewrite map_length, seq_length. exact HT.
    - unfold line. rewrite map_length, seq_length. exact Hok.
    - exact Hu.
    - unfold line. rewrite map_length, seq_length. apply valid_nth; assumption. }
  destruct conc.
  - (* concatenation *)
    assert (Hsplit := split_at sh dm Hdm).
    set (A := firstn dm sh) in *. set (X := nth dm sh 0) in *. set (B := skipn (S dm) sh) in *.
    assert (Hskip : skipn dm sh = X :: B).
    { rewrite Hsplit at 1. rewrite <- LA at 1. rewrite skipn_app_exact. reflexivity. }
    rewrite Hskip in Hs3, Hg3.
    assert (Hmerge : merge_dims (shape y3) dm = A ++ [S o * X] ++ B).
    { unfold merge_dims. rewrite Hs3. rewrite <- LA at 1 2 3 4.
      rewrite firstn_app_exact. cbn [app]. rewrite nth_mid.
      replace (S (length A)) with (length (A ++ [S o])) by (rewrite app_length; cbn; lia).
      replace (A ++ S o :: X :: B) with ((A ++ [S o]) ++ X :: B) by (rewrite <- app_assoc; reflexivity).
      rewrite nth_mid.
      replace (length A + 2) with (S (length (A ++ [S o]))) by (rewrite app_length; cbn; lia).
      rewrite skipn_mid. reflexivity. }
    subst out. cbn [shape]. rewrite Hmerge. split.
    + unfold delta_shape, set_nth. reflexivity.
    + intros idx Hv.
      destruct (valid_app_split _ _ _ Hv) as [a [rest [-> [Ha [Hrest La]]]]].
      destruct (valid_app_split _ _ _ Hrest) as [qq [b [-> [Hq [Hb _]]]]].
      destruct (valid1_inv _ _ Hq) as [q [-> Hq']].
      assert (HX : 0 < X) by (destruct X; [lia|lia]).
      rewrite (get_merged y3 A (S o) X B a q b) by (assumption || (rewrite Hs3; reflexivity)).
      assert (Hu : q / X < S o) by (apply Nat.div_lt_upper_bound; lia).
      assert (Hr : q mod X < X) by (apply Nat.mod_upper_bound; lia).
      change (a ++ [q / X; q mod X] ++ b) with (a ++ [q / X] ++ (q mod X :: b)).
      rewrite Hg3; [|assumption|constructor; assumption|assumption].
      rewrite app_assoc.
      assert (Hsrc : valid sh (a ++ q mod X :: b)).
      { rewrite Hsplit. apply valid_app; [assumption|]. constructor; assumption. }
      rewrite Hval by (assumption || lia).
      unfold delta_at, delta_src. fold sh. fold X.
      assert (Edm' : dm = length a) by (rewrite La; symmetry; exact LA).
      rewrite Edm'. cbn [app]. rewrite nth_mid. unfold set_nth. rewrite firstn_app_exact, skipn_mid.
      reflexivity.
  - (* stacking *)
    subst out. split; [exact Hs3|].
    intros idx Hv. rewrite Hs3 in Hv.
    destruct (valid_app_split _ _ _ Hv) as [a [rest [-> [Ha [Hrest La]]]]].
    destruct (valid_app_split _ _ _ Hrest) as [uu [b [-> [Hu [Hb _]]]]].
    destruct (valid1_inv _ _ Hu) as [u [-> Hu']].
    rewrite Hg3 by assumption. rewrite app_assoc.
    assert (Hsrc : valid sh (a ++ b)).
    { rewrite <- (firstn_skipn dm sh). now apply valid_app. }
    rewrite Hval by (assumption || lia).
    unfold delta_at, delta_src, remove_nth.
    assert (Edm' : dm = length a) by (rewrite La; symmetry; exact LA).
    rewrite Edm'. cbn [app]. rewrite nth_mid, firstn_app_exact, skipn_mid.
    reflexivity.
Qed.

(* feat_deltas is defined exactly when its arguments are legal (and then the theorem above
   applies); every failure is a RuntimeError *)
Lemma feat_deltas_defined : forall x dim time_dim (conc : bool) order width m v td dm,
  (0 <= order)%Z -> (1 <= width)%Z ->
  norm_dim (length (shape x)) time_dim = Some td ->
  norm_dim (if conc then length (shape x) else S (length (shape x))) dim = Some dm ->
  (m = Constant \/ Qeq_bool v 0 = true) ->
  1 <= nth td (shape x) 0 ->
  pad_ok m (Z.to_nat width * Z.to_nat order) (nth td (shape x) 0) = true ->
  exists out, feat_deltas x dim time_dim conc order width m v = Ok out.
Proof.
  intros x dim time_dim conc order width m v td dm Ho Hw Etd Edm Hv HT Hok.
  unfold feat_deltas.
  destruct (Z.ltb_spec order 0); [lia|]. destruct (Z.ltb_spec width 1); [lia|].
  rewrite Etd, Edm. cbv zeta. rewrite (T_eq x td (norm_dim_lt _ _ _ Etd)).
  replace (match m with Constant => true | _ => Qeq_bool v 0 end) with true
    by (destruct Hv as [-> | ->]; [reflexivity|now destruct m]).
  destruct (Nat.eqb_spec (nth td (shape x) 0) 0); [lia|]. rewrite Hok. cbn [negb].
  eexists. reflexivity.
Qed.

Lemma feat_deltas_errors : forall x dim time_dim conc order width m v e,
  feat_deltas x dim time_dim conc order width m v = Err e -> e = ERuntime.
Proof.
  intros x dim time_dim conc order width m v e H. unfold feat_deltas in H.
  repeat match type of H with
         | (if ?c then _ else _) = _ => destruct c
         | match ?c with Some _ => _ | None => _ end = _ => destruct c
         end; cbv zeta in H;
  repeat match type of H with
         | (if ?c then _ else _) = _ => destruct c
         end; try discriminate; now inversion H.
Qed.
