(* C01 — lemmas tying Model.v (what _string_matching does) to Spec.v (weighted Levenshtein).
   Central, reusable statements: [del_fold_is_sweep], [row_invariant] / [all_rows_nth]
   (the cost table is lev on prefixes), [pair_ed_correct], [pair_prefix_correct]. *)
From Coq Require Import List ZArith QArith Bool Arith Lia.
From PV Require Import C01.Obs C01.Spec C01.Model C01.LevFacts.
Import ListNotations.
Local Open Scope Z_scope.

(* ======================================================================================
   list helpers
   ====================================================================================== *)
Lemma nth_map_lt {A B} (f : A -> B) (l : list A) (i : nat) (d : A) (d' : B) :
  (i < length l)%nat -> nth i (map f l) d' = f (nth i l d).
Proof.
  revert i; induction l as [|x l IH]; intros i Hi; cbn [length] in Hi; [lia|].
  destruct i as [|i]; [reflexivity|]. cbn [map nth]. apply IH. lia.
Qed.

Lemma nth_map_seq {B} (f : nat -> B) (s n i : nat) (d : B) :
  (i < n)%nat -> nth i (map f (seq s n)) d = f (s + i)%nat.
Proof.
  intros Hi. rewrite (nth_map_lt f (seq s n) i 0%nat) by (rewrite seq_length; exact Hi).
  rewrite seq_nth by exact Hi. reflexivity.
Qed.

Lemma map_nth_seq {A} (l : list A) (d : A) : map (fun j => nth j l d) (seq 0 (length l)) = l.
Proof.
  induction l as [|x l IH]; [reflexivity|].
  cbn [length seq map nth]. f_equal. rewrite <- seq_shift, map_map. exact IH.
Qed.

Lemma map2_length {A B C} (f : A -> B -> C) l1 l2 :
  length (map2 f l1 l2) = Nat.min (length l1) (length l2).
Proof.
  revert l2; induction l1 as [|x l1 IH]; intros [|y l2]; cbn [map2 length]; try reflexivity.
  rewrite IH. reflexivity.
Qed.

Lemma nth_map2 {A B C} (f : A -> B -> C) l1 l2 i d1 d2 d :
  (i < length l1)%nat -> (i < length l2)%nat ->
  nth i (map2 f l1 l2) d = f (nth i l1 d1) (nth i l2 d2).
Proof.
  revert l2 i; induction l1 as [|x l1 IH]; intros [|y l2] i H1 H2; cbn [length] in *; try lia.
  destruct i as [|i]; [reflexivity|]. cbn [map2 nth]. apply IH; lia.
Qed.

Lemma map2_map_seq {A B C} (f : A -> B -> C) (g : nat -> A) (g' : nat -> B) s n :
  map2 f (map g (seq s n)) (map g' (seq s n)) = map (fun k => f (g k) (g' k)) (seq s n).
Proof.
  revert s; induction n as [|n IH]; intros s; [reflexivity|].
  cbn [seq map map2]. f_equal. apply IH.
Qed.

Lemma hd_nth0 {A} (l : list A) d : hd d l = nth 0 l d.
Proof. destruct l; reflexivity. Qed.

Lemma nth_tl {A} (l : list A) i d : nth i (tl l) d = nth (S i) l d.
Proof. destruct l as [|x l]; [destruct i; reflexivity|reflexivity]. Qed.

Lemma length_tl {A} (l : list A) : length (tl l) = (length l - 1)%nat.
Proof. destruct l; cbn [tl length]; lia. Qed.

Lemma length_removelast {A} (l : list A) : length (removelast l) = (length l - 1)%nat.
Proof.
  induction l as [|x l IH]; [reflexivity|].
  destruct l as [|y l]; [reflexivity|].
  change (removelast (x :: y :: l)) with (x :: removelast (y :: l)).
  cbn [length] in *. lia.
Qed.

Lemma nth_removelast {A} (l : list A) i d :
  (i < length l - 1)%nat -> nth i (removelast l) d = nth i l d.
Proof.
  revert i; induction l as [|x l IH]; intros i Hi; [cbn in Hi; lia|].
  destruct l as [|y l]; [cbn in Hi; lia|].
  change (removelast (x :: y :: l)) with (x :: removelast (y :: l)).
  destruct i as [|i]; [reflexivity|]. cbn [nth]. apply IH. cbn [length] in *. lia.
Qed.

Lemma last_nth {A} (l : list A) d : last l d = nth (length l - 1) l d.
Proof.
  induction l as [|x l IH]; [reflexivity|].
  destruct l as [|y l]; [reflexivity|].
  change (last (x :: y :: l) d) with (last (y :: l) d). rewrite IH.
  cbn [length]. replace (S (S (length l)) - 1)%nat with (S (S (length l) - 1)) by lia.
  reflexivity.
Qed.

Lemma firstn_snoc_nth {A} (l : list A) i d :
  (i < length l)%nat -> firstn (S i) l = firstn i l ++ [nth i l d].
Proof.
  revert i; induction l as [|x l IH]; intros i Hi; [cbn in Hi; lia|].
  destruct i as [|i]; [reflexivity|].
  cbn [firstn nth app]. f_equal. apply IH. cbn [length] in Hi. lia.
Qed.

(* ======================================================================================
   the deletion fold through the triangular matrix is the sequential sweep
       for i = 1..: v[i] = min(v[i], v[i-1] + d)
   ====================================================================================== *)
Fixpoint sweep_at (cd : Z) (v : list Z) (i : nat) : Z :=
  match i with
  | O => nth 0 v 0
  | S k => Z.min (nth (S k) v 0) (sweep_at cd v k + cd)
  end.

Definition sweep (cd : Z) (v : list Z) : list Z := map (sweep_at cd v) (seq 0 (length v)).

Lemma omin_assoc a b c : omin a (omin b c) = omin (omin a b) c.
Proof. destruct a, b, c; cbn [omin]; try reflexivity. rewrite Z.min_assoc. reflexivity. Qed.

Lemma omin_list_app l1 l2 : omin_list (l1 ++ l2) = omin (omin_list l1) (omin_list l2).
Proof.
  induction l1 as [|a l1 IH]; [reflexivity|].
  unfold omin_list in *. cbn [app fold_right]. rewrite IH. apply omin_assoc.
Qed.

Lemma omin_list_none {A} (l : list A) : omin_list (map (fun _ => None) l) = None.
Proof. induction l as [|a l IH]; [reflexivity|]. unfold omin_list in *. cbn [map fold_right]. rewrite IH. reflexivity. Qed.

Lemma tri_prefix (cd : Z) (v : list Z) (i k : nat) : (k <= i)%nat ->
  omin_list (map (fun j => Some (Z.of_nat i * cd - Z.of_nat j * cd + nth j v 0)) (seq 0 (S k)))
  = Some (sweep_at cd v k + (Z.of_nat i - Z.of_nat k) * cd).
Proof.
  induction k as [|k IH]; intros Hk.
  - cbn [seq map omin_list fold_right omin sweep_at]. f_equal. lia.
  - rewrite seq_S, map_app, omin_list_app, IH by lia.
    cbn [Nat.add map omin_list fold_right omin sweep_at]. f_equal.
    rewrite Nat2Z.inj_succ.
    replace ((Z.of_nat i - Z.of_nat k) * cd) with (Z.of_nat i * cd - Z.of_nat k * cd) by ring.
    replace ((Z.of_nat i - Z.succ (Z.of_nat k)) * cd)
      with (Z.of_nat i * cd - Z.of_nat k * cd - cd) by ring.
    replace (Z.succ (Z.of_nat k) * cd) with (Z.of_nat k * cd + cd) by ring.
    lia.
Qed.

Lemma del_fold_length cd v : length (del_fold cd v) = length v.
Proof. unfold del_fold. rewrite map_length, seq_length. reflexivity. Qed.

Lemma del_fold_nth cd v i : (i < length v)%nat -> nth i (del_fold cd v) 0 = sweep_at cd v i.
Proof.
  intros Hi. unfold del_fold. rewrite nth_map_seq by exact Hi. cbn [Nat.add].
  replace (length v) with (S i + (length v - S i))%nat at 1 by lia.
  rewrite seq_app, map_app, omin_list_app.
  rewrite (map_ext_in _ (fun _ => None) (seq (0 + S i) (length v - S i))).
  2:{ intros j Hj. apply in_seq in Hj. unfold del_entry.
      destruct (j <=? i)%nat eqn:E; [apply Nat.leb_le in E; lia|reflexivity]. }
  rewrite omin_list_none.
  rewrite (map_ext_in _ (fun j => Some (Z.of_nat i * cd - Z.of_nat j * cd + nth j v 0)) (seq 0 (S i))).
  2:{ intros j Hj. apply in_seq in Hj. unfold del_entry.
      destruct (j <=? i)%nat eqn:E; [reflexivity|apply Nat.leb_gt in E; lia]. }
  rewrite tri_prefix by lia. cbn [omin]. lia.
Qed.

Theorem del_fold_is_sweep cd v : del_fold cd v = sweep cd v.
Proof.
  apply (nth_ext _ _ 0 0).
  - unfold sweep. rewrite del_fold_length, map_length, seq_length. reflexivity.
  - intros i Hi. rewrite del_fold_length in Hi. rewrite del_fold_nth by exact Hi.
    unfold sweep. rewrite nth_map_seq by exact Hi. reflexivity.
Qed.

(* ======================================================================================
   lengths from eos: the code's arithmetic cuts the column where the spec says
   ====================================================================================== *)
Lemma first_eos_le e l : (first_eos e l <= length l)%nat.
Proof. induction l as [|x l IH]; cbn [first_eos length]; [lia|]. destruct (x =? e); lia. Qed.

Lemma firstn_first_eos e l : firstn (first_eos e l) l = before_eos e l.
Proof.
  induction l as [|x l IH]; [reflexivity|]. cbn [first_eos before_eos].
  destruct (x =? e); [reflexivity|]. cbn [firstn]. rewrite IH. reflexivity.
Qed.

Lemma has_eos_first e l : has_eos e l = (first_eos e l <? length l)%nat.
Proof.
  induction l as [|x l IH]; [reflexivity|]. unfold has_eos in *. cbn [existsb first_eos length].
  rewrite (Z.eqb_sym e x). destruct (x =? e); [reflexivity|]. cbn [orb]. rewrite IH. reflexivity.
Qed.

Lemma firstn_first_eos_S e l : (first_eos e l < length l)%nat ->
  firstn (first_eos e l + 1) l = before_eos e l ++ [e].
Proof.
  induction l as [|x l IH]; cbn [first_eos before_eos length]; [lia|].
  destruct (x =? e) eqn:E; intros H.
  - apply Z.eqb_eq in E. subst x. reflexivity.
  - cbn [Nat.add firstn app]. f_equal. apply IH. lia.
Qed.

Lemma eff_len_le eos incl l : (eff_len eos incl l <= length l)%nat.
Proof.
  unfold eff_len. destruct eos as [e|]; [|lia].
  pose proof (first_eos_le e l). destruct incl; [|lia].
  destruct (Nat.eqb (first_eos e l) (length l)) eqn:E; [lia|]. apply Nat.eqb_neq in E. lia.
Qed.

Lemma firstn_eff_len eos incl l : firstn (eff_len eos incl l) l = denote eos incl l.
Proof.
  unfold eff_len, denote. destruct eos as [e|]; [|apply firstn_all].
  rewrite has_eos_first. pose proof (first_eos_le e l) as Hle.
  destruct incl; cbn [andb]; [|apply firstn_first_eos].
  destruct (Nat.eqb (first_eos e l) (length l)) eqn:E.
  - apply Nat.eqb_eq in E. replace (first_eos e l <? length l)%nat with false
      by (symmetry; apply Nat.ltb_ge; lia).
    replace (first_eos e l + 1 - 1)%nat with (first_eos e l) by lia. apply firstn_first_eos.
  - apply Nat.eqb_neq in E. replace (first_eos e l <? length l)%nat with true
      by (symmetry; apply Nat.ltb_lt; lia).
    apply firstn_first_eos_S. lia.
Qed.

Lemma length_denote eos incl l : length (denote eos incl l) = eff_len eos incl l.
Proof. rewrite <- firstn_eff_len, firstn_length. pose proof (eff_len_le eos incl l). lia. Qed.

(* ======================================================================================
   the row invariant: row_j[i] = lev (firstn i r) (firstn j h)
   ====================================================================================== *)
Section Rows.
  Variables ci cd cs : Z.
  Variables r h : list Z.
  Notation lev := (lev ci cd cs).

  (* column j of the Levenshtein table: reference prefixes against hypothesis prefix j *)
  Definition lrow (j : nat) : list Z :=
    map (fun i => lev (firstn i r) (firstn j h)) (seq 0 (S (length r))).

  Lemma lrow_length j : length (lrow j) = S (length r).
  Proof. unfold lrow. rewrite map_length, seq_length. reflexivity. Qed.

  Lemma lrow_nth j i : (i <= length r)%nat -> nth i (lrow j) 0 = lev (firstn i r) (firstn j h).
  Proof. intros Hi. unfold lrow. rewrite nth_map_seq by lia. reflexivity. Qed.

  Lemma row0_lrow : row0 cd r = lrow 0.
  Proof.
    unfold row0, lrow. apply map_ext_in. intros i Hi. apply in_seq in Hi.
    cbn [firstn]. rewrite lev_nil_r, firstn_length, Nat.min_l by lia. reflexivity.
  Qed.

  (* the row before the deletion fold: insertion and substitution candidates *)
  Definition cand_row (tok m : Z) (last : list Z) : list Z :=
    let neq_mask := map (fun a => if a =? tok then 0 else 1) r in
    let row := map (fun x => x + ci * m) last in
    let sub_row := map2 (fun x m => x + cs * m) (removelast last) neq_mask in
    hd 0 row :: map2 Z.min (tl row) sub_row.

  Lemma step_row_unfold hlen excl idx last :
    step_row ci cd cs r h hlen excl idx last =
    if (idx - (if excl then 0 else 1) <? hlen)%nat
    then del_fold cd (cand_row (nth (idx - 1) h 0) (if (idx <=? hlen)%nat then 1 else 0) last)
    else last.
  Proof. reflexivity. Qed.

  Lemma cand_row_length tok m last : length last = S (length r) ->
    length (cand_row tok m last) = S (length r).
  Proof.
    intros HL. unfold cand_row. cbn [length].
    rewrite !map2_length, length_tl, length_removelast, !map_length, HL. lia.
  Qed.

  Lemma cand_row_0 tok m last : length last = S (length r) ->
    nth 0 (cand_row tok m last) 0 = nth 0 last 0 + ci * m.
  Proof.
    intros HL. unfold cand_row. cbn [nth]. rewrite hd_nth0.
    rewrite (nth_map_lt _ last 0%nat 0) by lia. reflexivity.
  Qed.

  Lemma cand_row_S tok m last i : length last = S (length r) -> (i < length r)%nat ->
    nth (S i) (cand_row tok m last) 0 =
    Z.min (nth (S i) last 0 + ci * m)
          (nth i last 0 + cs * (if nth i r 0 =? tok then 0 else 1)).
  Proof.
    intros HL Hi. unfold cand_row. cbn [nth].
    rewrite (nth_map2 Z.min _ _ i 0 0 0).
    2:{ rewrite length_tl, map_length, HL. lia. }
    2:{ rewrite map2_length, length_removelast, map_length, HL. lia. }
    rewrite nth_tl, (nth_map_lt _ last (S i) 0) by lia.
    rewrite (nth_map2 _ _ _ i 0 0 0).
    2:{ rewrite length_removelast, HL. lia. }
    2:{ rewrite map_length. exact Hi. }
    rewrite nth_removelast by lia.
    rewrite (nth_map_lt _ r i 0) by exact Hi. reflexivity.
  Qed.

  (* one live step of the loop turns column j into column j+1 *)
  Lemma sweep_cand_lrow j : (S j <= length h)%nat -> forall i, (i <= length r)%nat ->
    sweep_at cd (cand_row (nth j h 0) 1 (lrow j)) i = lev (firstn i r) (firstn (S j) h).
  Proof.
    intros Hj. induction i as [|i IH]; intros Hi.
    - cbn [sweep_at]. rewrite cand_row_0 by apply lrow_length.
      rewrite lrow_nth by lia. change (firstn 0 r) with (@nil Z). rewrite !lev_nil_l, !firstn_length, !Nat.min_l by lia.
      rewrite Nat2Z.inj_succ. ring.
    - cbn [sweep_at]. rewrite IH by lia.
      rewrite cand_row_S by (try apply lrow_length; lia).
      rewrite !lrow_nth by lia.
      rewrite (firstn_snoc_nth r i 0), (firstn_snoc_nth h j 0) by lia.
      rewrite lev_snoc. unfold sub_cost.
      destruct (nth i r 0 =? nth j h 0); lia.
  Qed.

  Lemma step_lrow j : (S j <= length h)%nat ->
    del_fold cd (cand_row (nth j h 0) 1 (lrow j)) = lrow (S j).
  Proof.
    intros Hj. apply (nth_ext _ _ 0 0).
    - rewrite del_fold_length, cand_row_length, lrow_length by apply lrow_length. reflexivity.
    - intros i Hi. rewrite del_fold_length, cand_row_length in Hi by apply lrow_length.
      rewrite del_fold_nth by (rewrite cand_row_length by apply lrow_length; exact Hi).
      rewrite sweep_cand_lrow by lia. rewrite lrow_nth by lia. reflexivity.
  Qed.

  (* ---- the loop, with freezing -------------------------------------------------------- *)
  Variables (hlen : nat) (excl : bool).

  (* the last hyp_idx for which not_done holds *)
  Definition frozen : nat := if excl then pred hlen else hlen.

  Lemma step_row_live idx : (hlen <= length h)%nat -> (1 <= idx)%nat -> (idx <= frozen)%nat ->
    step_row ci cd cs r h hlen excl idx (lrow (idx - 1)) = lrow idx.
  Proof.
    intros Hh H1 Hf. rewrite step_row_unfold. unfold frozen in Hf.
    replace (idx - (if excl then 0 else 1) <? hlen)%nat with true
      by (symmetry; apply Nat.ltb_lt; destruct excl; lia).
    replace (idx <=? hlen)%nat with true by (symmetry; apply Nat.leb_le; destruct excl; lia).
    replace idx with (S (idx - 1)) at 3 by lia.
    apply step_lrow. destruct excl; lia.
  Qed.

  Lemma step_row_frozen idx last : (frozen < idx)%nat ->
    step_row ci cd cs r h hlen excl idx last = last.
  Proof.
    intros Hf. rewrite step_row_unfold. unfold frozen in Hf.
    replace (idx - (if excl then 0 else 1) <? hlen)%nat with false
      by (symmetry; apply Nat.ltb_ge; destruct excl; lia).
    reflexivity.
  Qed.

  Lemma rows_loop_length fuel : forall idx last,
    length (rows_loop ci cd cs r h hlen excl fuel idx last) = fuel.
  Proof. induction fuel as [|f IH]; intros; cbn [rows_loop length]; [reflexivity|]. rewrite IH. reflexivity. Qed.

  Lemma rows_loop_nth : (hlen <= length h)%nat -> forall fuel idx last k,
    (1 <= idx)%nat -> last = lrow (Nat.min (idx - 1) frozen) -> (k < fuel)%nat ->
    nth k (rows_loop ci cd cs r h hlen excl fuel idx last) [] = lrow (Nat.min (idx + k) frozen).
  Proof.
    intros Hh. induction fuel as [|f IH]; intros idx last k H1 HL Hk; [lia|].
    cbn [rows_loop].
    assert (Hstep : step_row ci cd cs r h hlen excl idx last = lrow (Nat.min idx frozen)).
    { subst last. destruct (le_lt_dec idx frozen) as [Hle|Hgt].
      - rewrite !Nat.min_l by lia. apply step_row_live; assumption.
      - rewrite step_row_frozen by exact Hgt. rewrite !Nat.min_r by lia. reflexivity. }
    destruct k as [|k]; cbn [nth].
    - rewrite Hstep. f_equal. lia.
    - rewrite (IH (S idx) _ k); [f_equal; lia|lia| |lia].
      rewrite Hstep. f_equal. lia.
  Qed.

  Lemma all_rows_length steps : length (all_rows ci cd cs r h hlen excl steps) = S steps.
  Proof. unfold all_rows. cbn [length]. rewrite rows_loop_length. reflexivity. Qed.

  Lemma all_rows_nth steps k : (hlen <= length h)%nat -> (k <= steps)%nat ->
    nth k (all_rows ci cd cs r h hlen excl steps) [] = lrow (Nat.min k frozen).
  Proof.
    intros Hh Hk. unfold all_rows. destruct k as [|k]; cbn [nth].
    - rewrite row0_lrow. reflexivity.
    - rewrite (rows_loop_nth Hh steps 1 (row0 cd r) k); [reflexivity|lia| |lia].
      rewrite row0_lrow. reflexivity.
  Qed.

  (* headline form: entry i of the row after hyp_idx = j, while the pair is still live *)
  Theorem row_invariant steps j i :
    (hlen <= length h)%nat -> (j <= steps)%nat -> (j <= frozen)%nat -> (i <= length r)%nat ->
    nth i (nth j (all_rows ci cd cs r h hlen excl steps) []) 0
    = lev (firstn i r) (firstn j h).
  Proof.
    intros Hh Hj Hf Hi. rewrite all_rows_nth, Nat.min_l, lrow_nth by assumption. reflexivity.
  Qed.

  (* ... and once it is finished the row no longer moves *)
  Theorem rows_freeze steps j :
    (hlen <= length h)%nat -> (j <= steps)%nat -> (frozen <= j)%nat ->
    nth j (all_rows ci cd cs r h hlen excl steps) [] = lrow frozen.
  Proof. intros Hh Hj Hf. rewrite all_rows_nth, Nat.min_r by assumption. reflexivity. Qed.
End Rows.

(* ======================================================================================
   one pair: what the code returns is what the spec demands
   ====================================================================================== *)
(* the uniform-cost shortcut (rescale to unit costs, multiply back) is harmless *)
Lemma eff_costs_lev i d s m a b c r h :
  eff_costs i d s = (m, (a, b, c)) -> lev a b c r h * m = lev i d s r h.
Proof.
  unfold eff_costs. destruct ((i =? d) && (d =? s) && (0 <? s)) eqn:E; intros H; inversion H; subst.
  - apply andb_true_iff in E as [E E3]. apply andb_true_iff in E as [E1 E2].
    apply Z.eqb_eq in E1, E2. apply Z.ltb_lt in E3. subst.
    rewrite (lev_scale s) by lia. ring.
  - ring.
Qed.

Lemma normalise_spec norm ci cd cs (r' h' : list Z) :
  normalise norm (length r') (lev ci cd cs r' h') (0 <? length h')%nat
  = spec_value norm ci cd cs r' h'.
Proof.
  unfold normalise, spec_value. destruct norm; [|reflexivity].
  destruct (length r'); reflexivity.
Qed.

Theorem pair_ed_correct c r h :
  pair_ed c r h
  = spec_pair_ed (c_eos c) (c_incl c) (c_norm c) (c_ins c) (c_del c) (c_sub c) r h.
Proof.
  unfold pair_ed, spec_pair_ed.
  destruct (eff_costs (c_ins c) (c_del c) (c_sub c)) as [mult [[ci cd] cs]] eqn:EC.
  pose proof (eff_len_le (c_eos c) (c_incl c) r) as Hr.
  pose proof (eff_len_le (c_eos c) (c_incl c) h) as Hh.
  rewrite last_nth, all_rows_length.
  replace (S (length h) - 1)%nat with (length h) by lia.
  rewrite all_rows_nth by lia. unfold frozen. rewrite Nat.min_r by lia.
  rewrite lrow_nth by lia.
  rewrite (eff_costs_lev _ _ _ _ _ _ _ _ _ EC).
  rewrite !firstn_eff_len, <- !length_denote. apply normalise_spec.
Qed.

Lemma firstn_firstn_le {A} (l : list A) k n : (k <= n)%nat -> firstn k (firstn n l) = firstn k l.
Proof. intros H. rewrite firstn_firstn, Nat.min_l by exact H. reflexivity. Qed.

Theorem pair_prefix_correct c r h :
  pair_prefix c r h
  = spec_pair_prefix (c_eos c) (c_incl c) (c_norm c) (c_ins c) (c_del c) (c_sub c)
      (c_excl c) (c_pad c) (length h + (if c_excl c then 0 else 1)) r h.
Proof.
  unfold pair_prefix, spec_pair_prefix.
  destruct (eff_costs (c_ins c) (c_del c) (c_sub c)) as [mult [[ci cd] cs]] eqn:EC.
  set (rl := eff_len (c_eos c) (c_incl c) r).
  set (hl := eff_len (c_eos c) (c_incl c) h).
  set (out_len := (length h + (if c_excl c then 0 else 1))%nat).
  assert (Hr : (rl <= length r)%nat) by apply eff_len_le.
  assert (Hh : (hl <= length h)%nat) by apply eff_len_le.
  set (rows := all_rows ci cd cs r h hl (c_excl c) (out_len - 1)).
  set (ers := Z.of_nat rl * cd :: map (fun row => nth rl row 0) (tl rows)).
  assert (Hers_len : length ers = S (out_len - 1)).
  { unfold ers. cbn [length]. rewrite map_length, length_tl. unfold rows.
    rewrite all_rows_length. lia. }
  assert (Hers : forall k, (k < out_len)%nat ->
            nth k ers 0 = lev ci cd cs (firstn rl r) (firstn (Nat.min k (frozen hl (c_excl c))) h)).
  { intros k Hk. unfold ers. destruct k as [|k]; cbn [nth].
    - rewrite Nat.min_0_l. cbn [firstn]. rewrite lev_nil_r, firstn_length, Nat.min_l by lia.
      reflexivity.
    - rewrite (nth_map_lt _ _ _ []).
      2:{ rewrite length_tl. unfold rows. rewrite all_rows_length. lia. }
      rewrite nth_tl. unfold rows. rewrite all_rows_nth by lia. apply lrow_nth. exact Hr. }
  apply (nth_ext _ _ (Lit 0) (Lit 0)).
  - rewrite map2_length, seq_length, Hers_len, map_length, seq_length. lia.
  - intros k Hk. rewrite map2_length, seq_length, Hers_len in Hk.
    assert (Hk' : (k < out_len)%nat) by lia.
    rewrite (nth_map2 _ _ _ k 0%nat 0 (Lit 0)) by (rewrite ?seq_length, ?Hers_len; lia).
    rewrite seq_nth by exact Hk'. rewrite nth_map_seq by exact Hk'. cbn [Nat.add].
    rewrite length_denote. fold hl.
    destruct (hl + (if c_excl c then 0 else 1) <=? k)%nat eqn:E.
    + apply Nat.leb_le in E.
      replace (k <? hl + (if c_excl c then 0 else 1))%nat with false
        by (symmetry; apply Nat.ltb_ge; exact E).
      reflexivity.
    + apply Nat.leb_gt in E.
      replace (k <? hl + (if c_excl c then 0 else 1))%nat with true
        by (symmetry; apply Nat.ltb_lt; exact E).
      rewrite Hers by exact Hk'.
      rewrite Nat.min_l by (unfold frozen; destruct (c_excl c); lia).
      rewrite (eff_costs_lev _ _ _ _ _ _ _ _ _ EC).
      assert (Hkh : (k <= hl)%nat) by (destruct (c_excl c); lia).
      unfold rl, hl. rewrite <- !firstn_eff_len. fold rl. fold hl.
      rewrite (firstn_firstn_le h k hl) by exact Hkh.
      replace (0 <? k)%nat with (0 <? length (firstn k h))%nat
        by (rewrite firstn_length, Nat.min_l by lia; reflexivity).
      replace rl with (length (firstn rl r)) at 1 by (rewrite firstn_length; lia).
      apply normalise_spec.
Qed.

(* ---- garbage after the first eos --------------------------------------------------- *)
Lemma before_eos_app e body g : ~ In e body -> before_eos e (body ++ e :: g) = body.
Proof.
  induction body as [|x body IH]; intros Hn; cbn [app before_eos].
  - rewrite Z.eqb_refl. reflexivity.
  - destruct (x =? e) eqn:E.
    + apply Z.eqb_eq in E. exfalso. apply Hn. left. exact E.
    + f_equal. apply IH. intros Hin. apply Hn. right. exact Hin.
Qed.

Lemma has_eos_app e body g : has_eos e (body ++ e :: g) = true.
Proof.
  unfold has_eos. apply existsb_exists. exists e. split; [|apply Z.eqb_refl].
  apply in_or_app. right. left. reflexivity.
Qed.

Lemma denote_garbage e incl body g : ~ In e body ->
  denote (Some e) incl (body ++ e :: g) = body ++ (if incl then [e] else []).
Proof.
  intros Hn. unfold denote. rewrite has_eos_app, before_eos_app by exact Hn.
  destruct incl; cbn [andb]; [reflexivity|]. rewrite app_nil_r. reflexivity.
Qed.

Theorem pair_ed_post_eos c r r' h h' :
  denote (c_eos c) (c_incl c) r = denote (c_eos c) (c_incl c) r' ->
  denote (c_eos c) (c_incl c) h = denote (c_eos c) (c_incl c) h' ->
  pair_ed c r h = pair_ed c r' h'.
Proof. intros Hr Hh. rewrite !pair_ed_correct. unfold spec_pair_ed. rewrite Hr, Hh. reflexivity. Qed.

Theorem pair_prefix_post_eos c r r' h h' :
  denote (c_eos c) (c_incl c) r = denote (c_eos c) (c_incl c) r' ->
  denote (c_eos c) (c_incl c) h = denote (c_eos c) (c_incl c) h' ->
  length h = length h' ->
  pair_prefix c r h = pair_prefix c r' h'.
Proof.
  intros Hr Hh HL. rewrite !pair_prefix_correct. unfold spec_pair_prefix.
  rewrite Hr, Hh, HL. reflexivity.
Qed.

(* ======================================================================================
   the batch, both layouts
   ====================================================================================== *)
Definition rect (W : nat) (m : list (list Z)) : Prop := forall row, In row m -> length row = W.

(* sequence n of a tensor in the given layout *)
Definition seq_of (bf : bool) (n : nat) (m : list (list Z)) : list Z :=
  if bf then nth n m [] else col 0 n m.

(* a batch-first tensor is a list of N rows of equal width; a time-major one is any list
   of rows (missing entries read as 0; never happens for a real tensor) *)
Definition wf_tensor (bf : bool) (N : nat) (m : list (list Z)) : Prop :=
  if bf then length m = N /\ exists W, rect W m else True.

Lemma col_transpose n W m : (n < length m)%nat -> rect W m ->
  col 0 n (transpose 0 W m) = nth n m [].
Proof.
  intros Hn HW. unfold transpose, col. rewrite map_map.
  rewrite (map_ext _ (fun k => nth k (nth n m []) 0)).
  2:{ intros k. apply (nth_map_lt (fun row => nth k row 0) m n []). exact Hn. }
  rewrite <- (HW (nth n m [])) by (apply nth_In; exact Hn). apply map_nth_seq.
Qed.

Lemma sequences_nth bf N m n : (n < N)%nat -> wf_tensor bf N m ->
  nth n (sequences bf N m) [] = seq_of bf n m.
Proof.
  intros Hn Hwf. unfold sequences, seq_of. rewrite nth_map_seq by exact Hn. cbn [Nat.add].
  destruct bf; [|reflexivity]. destruct Hwf as [HL [W HW]].
  assert (length (hd [] m) = W) as ->.
  { destruct m as [|row m]; [cbn in HL; lia|]. apply HW. left. reflexivity. }
  apply col_transpose; [lia|exact HW].
Qed.

Lemma sequences_length bf N m : length (sequences bf N m) = N.
Proof. unfold sequences. rewrite map_length, seq_length. reflexivity. Qed.

Theorem edit_distance_nth c N ref hyp n :
  (n < N)%nat -> wf_tensor (c_bf c) N ref -> wf_tensor (c_bf c) N hyp ->
  nth n (edit_distance c N ref hyp) (Lit 0)
  = pair_ed c (seq_of (c_bf c) n ref) (seq_of (c_bf c) n hyp).
Proof.
  intros Hn Hr Hh. unfold edit_distance.
  rewrite (nth_map2 _ _ _ n [] [] (Lit 0)) by (rewrite sequences_length; exact Hn).
  rewrite !sequences_nth by assumption. reflexivity.
Qed.

Lemma edit_distance_length c N ref hyp : length (edit_distance c N ref hyp) = N.
Proof. unfold edit_distance. rewrite map2_length, !sequences_length. lia. Qed.

(* width of the hypothesis tensor along time *)
Definition time_len (bf : bool) (m : list (list Z)) : nat :=
  if bf then length (hd [] m) else length m.

Lemma seq_of_length bf N m n : (n < N)%nat -> wf_tensor bf N m ->
  length (seq_of bf n m) = time_len bf m.
Proof.
  intros Hn Hwf. unfold seq_of, time_len, col. destruct bf; [|apply map_length].
  destruct Hwf as [HL [W HW]].
  rewrite (HW (nth n m [])) by (apply nth_In; lia).
  destruct m as [|row m]; [cbn in HL; lia|]. symmetry. apply HW. left. reflexivity.
Qed.

(* entry (k, n) of the returned table — (n, k) when batch_first *)
Definition entry (bf : bool) (k n : nat) (out : list (list val)) : val :=
  if bf then nth k (nth n out []) (Lit 0) else nth n (nth k out []) (Lit 0).

Theorem prefix_edit_distances_nth c N ref hyp n k :
  (n < N)%nat -> wf_tensor (c_bf c) N ref -> wf_tensor (c_bf c) N hyp ->
  (k < time_len (c_bf c) hyp + (if c_excl c then 0 else 1))%nat ->
  entry (c_bf c) k n (prefix_edit_distances c N ref hyp)
  = nth k (pair_prefix c (seq_of (c_bf c) n ref) (seq_of (c_bf c) n hyp)) (Lit 0).
Proof.
  intros Hn Hr Hh Hk. unfold prefix_edit_distances.
  set (hyps := sequences (c_bf c) N hyp).
  set (per_pair := map2 (pair_prefix c) (sequences (c_bf c) N ref) hyps).
  assert (Hhd : length (hd [] hyps) = time_len (c_bf c) hyp).
  { rewrite hd_nth0. unfold hyps. rewrite sequences_nth by (assumption || lia).
    apply (seq_of_length _ N); [lia|assumption]. }
  rewrite Hhd. set (out_len := (time_len (c_bf c) hyp + (if c_excl c then 0 else 1))%nat) in *.
  assert (Hpp : nth n per_pair []
                = pair_prefix c (seq_of (c_bf c) n ref) (seq_of (c_bf c) n hyp)).
  { unfold per_pair, hyps.
    rewrite (nth_map2 _ _ _ n [] [] []) by (rewrite sequences_length; exact Hn).
    rewrite !sequences_nth by assumption. reflexivity. }
  assert (Hlen : length per_pair = N).
  { unfold per_pair, hyps. rewrite map2_length, !sequences_length. lia. }
  assert (Htm : nth n (nth k (transpose (Lit 0) out_len per_pair) []) (Lit 0)
                = nth k (nth n per_pair []) (Lit 0)).
  { unfold transpose. rewrite nth_map_seq by exact Hk. cbn [Nat.add]. unfold col.
    rewrite (nth_map_lt _ per_pair n []) by lia. reflexivity. }
  unfold entry. destruct (c_bf c).
  - unfold transpose at 1. rewrite nth_map_seq by exact Hn. cbn [Nat.add]. unfold col at 1.
    rewrite (nth_map_lt _ _ k []).
    2:{ unfold transpose. rewrite map_length, seq_length. exact Hk. }
    rewrite Htm, Hpp. reflexivity.
  - rewrite Htm, Hpp. reflexivity.
Qed.

(* ======================================================================================
   headline statements (quoted by Properties.v)
   ====================================================================================== *)
Section Headline.
  Variable c : cfg.
  Variables (N : nat) (ref hyp : list (list Z)).
  Let bf := c_bf c.
  (* the sequences pair n of the batch denotes *)
  Let R n := denote (c_eos c) (c_incl c) (seq_of bf n ref).
  Let H n := denote (c_eos c) (c_incl c) (seq_of bf n hyp).
  Let out_len := (time_len bf hyp + (if c_excl c then 0 else 1))%nat.

  Theorem edit_distance_spec n :
    (n < N)%nat -> wf_tensor bf N ref -> wf_tensor bf N hyp ->
    nth n (edit_distance c N ref hyp) (Lit 0)
    = spec_value (c_norm c) (c_ins c) (c_del c) (c_sub c) (R n) (H n).
  Proof.
    intros Hn Hr Hh. rewrite edit_distance_nth by assumption. apply pair_ed_correct.
  Qed.

  Theorem edit_distance_correct n :
    (n < N)%nat -> wf_tensor bf N ref -> wf_tensor bf N hyp -> c_norm c = false ->
    exists v, nth n (edit_distance c N ref hyp) (Lit 0) = Cost v
              /\ v = lev (c_ins c) (c_del c) (c_sub c) (R n) (H n)
              /\ min_edit_cost (c_ins c) (c_del c) (c_sub c) (R n) (H n) v.
  Proof.
    intros Hn Hr Hh Hnorm. eexists. split; [|split; [reflexivity|apply lev_is_min_edit_cost]].
    rewrite edit_distance_spec by assumption. unfold spec_value. rewrite Hnorm. reflexivity.
  Qed.

  Theorem edit_distance_norm n :
    (n < N)%nat -> wf_tensor bf N ref -> wf_tensor bf N hyp -> c_norm c = true ->
    nth n (edit_distance c N ref hyp) (Lit 0)
    = match length (R n) with
      | O => Lit (if (0 <? length (H n))%nat then 1 else 0)
      | S _ => Ratio (lev (c_ins c) (c_del c) (c_sub c) (R n) (H n)) (length (R n))
      end.
  Proof.
    intros Hn Hr Hh Hnorm. rewrite edit_distance_spec by assumption.
    unfold spec_value. rewrite Hnorm. reflexivity.
  Qed.

  Theorem prefix_edit_distances_correct n k :
    (n < N)%nat -> wf_tensor bf N ref -> wf_tensor bf N hyp -> (k < out_len)%nat ->
    entry bf k n (prefix_edit_distances c N ref hyp)
    = if (k <? length (H n) + (if c_excl c then 0 else 1))%nat
      then spec_value (c_norm c) (c_ins c) (c_del c) (c_sub c) (R n) (firstn k (H n))
      else Lit (c_pad c).
  Proof.
    intros Hn Hr Hh Hk. subst bf. rewrite prefix_edit_distances_nth by assumption.
    rewrite pair_prefix_correct. unfold spec_pair_prefix.
    rewrite (seq_of_length _ N) by assumption.
    rewrite nth_map_seq by exact Hk. reflexivity.
  Qed.

  (* the un-normalised reading, spelled out *)
  Corollary prefix_edit_distances_cost n k :
    (n < N)%nat -> wf_tensor bf N ref -> wf_tensor bf N hyp -> (k < out_len)%nat ->
    c_norm c = false -> (k < length (H n) + (if c_excl c then 0 else 1))%nat ->
    entry bf k n (prefix_edit_distances c N ref hyp)
    = Cost (lev (c_ins c) (c_del c) (c_sub c) (R n) (firstn k (H n)))
    /\ min_edit_cost (c_ins c) (c_del c) (c_sub c) (R n) (firstn k (H n))
         (lev (c_ins c) (c_del c) (c_sub c) (R n) (firstn k (H n))).
  Proof.
    intros Hn Hr Hh Hk Hnorm Hlive. split; [|apply lev_is_min_edit_cost].
    rewrite prefix_edit_distances_correct by assumption.
    replace (k <? _)%nat with true by (symmetry; apply Nat.ltb_lt; exact Hlive).
    unfold spec_value. rewrite Hnorm. reflexivity.
  Qed.

  Corollary prefix_edit_distances_padding n k :
    (n < N)%nat -> wf_tensor bf N ref -> wf_tensor bf N hyp -> (k < out_len)%nat ->
    (length (H n) + (if c_excl c then 0 else 1) <= k)%nat ->
    entry bf k n (prefix_edit_distances c N ref hyp) = Lit (c_pad c).
  Proof.
    intros Hn Hr Hh Hk Hpad. rewrite prefix_edit_distances_correct by assumption.
    replace (k <? _)%nat with false by (symmetry; apply Nat.ltb_ge; exact Hpad). reflexivity.
  Qed.
End Headline.

(* a pair's result is a function of that pair alone: same two sequences, same result,
   whatever the batch around them and wherever they sit in it *)
Theorem batch_pointwise c N ref hyp n N' ref' hyp' n' :
  (n < N)%nat -> wf_tensor (c_bf c) N ref -> wf_tensor (c_bf c) N hyp ->
  (n' < N')%nat -> wf_tensor (c_bf c) N' ref' -> wf_tensor (c_bf c) N' hyp' ->
  denote (c_eos c) (c_incl c) (seq_of (c_bf c) n ref)
    = denote (c_eos c) (c_incl c) (seq_of (c_bf c) n' ref') ->
  denote (c_eos c) (c_incl c) (seq_of (c_bf c) n hyp)
    = denote (c_eos c) (c_incl c) (seq_of (c_bf c) n' hyp') ->
  nth n (edit_distance c N ref hyp) (Lit 0) = nth n' (edit_distance c N' ref' hyp') (Lit 0).
Proof.
  intros Hn Hr Hh Hn' Hr' Hh' ER EH.
  rewrite (edit_distance_spec c N ref hyp n), (edit_distance_spec c N' ref' hyp' n') by assumption.
  rewrite ER, EH. reflexivity.
Qed.

Theorem batch_pointwise_prefix c N ref hyp n N' ref' hyp' n' k :
  (n < N)%nat -> wf_tensor (c_bf c) N ref -> wf_tensor (c_bf c) N hyp ->
  (n' < N')%nat -> wf_tensor (c_bf c) N' ref' -> wf_tensor (c_bf c) N' hyp' ->
  (k < time_len (c_bf c) hyp + (if c_excl c then 0 else 1))%nat ->
  (k < time_len (c_bf c) hyp' + (if c_excl c then 0 else 1))%nat ->
  denote (c_eos c) (c_incl c) (seq_of (c_bf c) n ref)
    = denote (c_eos c) (c_incl c) (seq_of (c_bf c) n' ref') ->
  denote (c_eos c) (c_incl c) (seq_of (c_bf c) n hyp)
    = denote (c_eos c) (c_incl c) (seq_of (c_bf c) n' hyp') ->
  entry (c_bf c) k n (prefix_edit_distances c N ref hyp)
  = entry (c_bf c) k n' (prefix_edit_distances c N' ref' hyp').
Proof.
  intros Hn Hr Hh Hn' Hr' Hh' Hk Hk' ER EH.
  rewrite (prefix_edit_distances_correct c N ref hyp n k) by assumption.
  rewrite (prefix_edit_distances_correct c N' ref' hyp' n' k) by assumption.
  rewrite ER, EH. reflexivity.
Qed.
