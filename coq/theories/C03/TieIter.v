(* C03 - the `for hyp_idx` loop of the mask path: iteration of TieLoop.body_run3 over range(1, H + (0 if exclude_last else 1)),
   for any loop body with the property of body_run3 (sm3_loop's, and the one inside sm3_body). *)
From Coq Require Import ZArith QArith List String Bool Arith Lia ZifyBool ZifyNat.
From PV Require Import MiniPy.Syntax MiniPy.Interp MiniPy.Lemmas MiniTorch.Ops MiniTorch.Lemmas MiniTorch.OpsC07 MiniTorch.LemmasC07
  MiniTorch.OpsC01 MiniTorch.LemmasC01 MiniTorch.OpsC03 MiniTorch.LemmasC03.
From PV Require Import Gen.C03Src C01.SrcRun C01.TieLib C01.TieMath C03.SrcRun C03.TieLib C03.TieMath C03.TieLoop.
From PV Require C01.Model C01.Proofs C01.TieLoop C03.Model.
Import ListNotations.
Local Open Scope string_scope.

#[local] Arguments enc_b : simpl never.
#[local] Arguments enc_i : simpl never.
#[local] Arguments enc_x : simpl never.
#[local] Arguments tab2 : simpl never.
#[local] Arguments qz : simpl never.
#[local] Arguments Z.add : simpl never.
#[local] Arguments Z.sub : simpl never.
#[local] Arguments Z.of_nat : simpl never.
#[local] Arguments ext01 : simpl never.
#[local] Arguments ext03 : simpl never.
#[local] Arguments seq : simpl never.
#[local] Arguments zrange : simpl never.

Notation colf := C01.TieLoop.colf.

Lemma Forall2_map_seq {A} (P : A -> A -> Prop) (f g : nat -> A) a m :
  (forall j, (j < m)%nat -> P (f (a + j)%nat) (g (a + j)%nat)) -> Forall2 P (map f (seq a m)) (map g (seq a m)).
Proof.
  revert a. induction m as [|m IH]; intros a Hfg; [constructor|].
  rewrite <- cons_seq. cbn [map]. constructor.
  - specialize (Hfg 0%nat ltac:(lia)). now rewrite Nat.add_0_r in Hfg.
  - apply IH. intros j Hj. specialize (Hfg (S j) ltac:(lia)). now replace (S a + j)%nat with (a + S j)%nat by lia.
Qed.


Section Iter.
  Variables (s : positive) (ci cd cs : Z) (R N H : nat) (rf hf : nat -> nat -> Z) (rl hl : nat -> nat) (excl : bool).

  Notation pre := (body_pre3 s ci cd cs R N H rf hf rl hl excl).
  Notation mrow_col := (mrow_col ci cd cs R H rf hf rl hl excl).
  Notation mbits_col := (mbits_col ci cd cs R H rf hf rl hl excl).

  (* ---- the loop: range(1, H + (0 if exclude_last else 1)) ------------------------------------------------------ *)
  Definition iter_col3 (m a : nat) (lf : nat -> nat -> option Z) (n : nat) : list (option Z) :=
    iter_mrow ci cd cs (colf R rf n) (colf H hf n) (rl n) (hl n) excl m (S a) (colo (S R) lf n).

  (* the mask rows appended by m iterations starting after hyp_idx = a *)
  Definition loop_masks3 (m a : nat) (lf : nat -> nat -> option Z) : list (nat -> nat -> bool) :=
    map (fun j i n =>
           nth i (nth j (C03.Model.masks_loop ci cd cs (colf R rf n) (colf H hf n) (rl n) (hl n) excl m (S a)
                           (colo (S R) lf n)) []) false) (seq 0 m).

  Lemma mrow_col_length k lf n : (1 <= k <= H)%nat -> List.length (mrow_col k lf n) = S R.
  Proof.
    intros Hk. unfold TieLoop.mrow_col, C01.TieLoop.colf, colo.
    exact (mrow_length ci cd cs R H (fun j => rf j n) (fun t => hf t n) (fun i => lf i n) (rl n) (hl n) k excl Hk).
  Qed.

  Lemma colo_mrow_col k lf n : (1 <= k <= H)%nat -> colo (S R) (fun i n0 => nth i (mrow_col k lf n0) None) n = mrow_col k lf n.
  Proof.
    intros Hk. unfold colo. transitivity (map (fun i => nth i (mrow_col k lf n) None) (seq 0 (List.length (mrow_col k lf n)))).
    - now rewrite mrow_col_length.
    - apply C01.Proofs.map_nth_seq.
  Qed.

  (* any body with the property of [body_run3], iterated *)
  Section AnyBody.
    Variable bd : stmt.
    Hypothesis Hbd : forall st k lf ms, (1 <= k <= H)%nat -> pre lf ms st ->
      runs_to (pre (fun i n => nth i (mrow_col k lf n) None) (ms ++ [fun i n => nth i (mbits_col k lf n) false]))
              (exec ext03 bd (set_var "hyp_idx" (VInt (Z.of_nat k)) st)).

    Lemma loop_run_gen3 : forall m a lf ms st, (a + m <= H)%nat -> pre lf ms st ->
      runs_to (pre (fun i n => nth i (iter_col3 m a lf n) None) (ms ++ loop_masks3 m a lf))
              (for_loop ext03 "hyp_idx" bd (map (fun i => VInt (1 + Z.of_nat i)) (seq a m)) st).
    Proof.
      induction m as [|m IH]; intros a lf ms st Ham P.
      - apply runs_to_ok. eapply body_pre3_ext; [| |exact P].
        + intros i n Hi Hn. cbv beta. unfold iter_col3, iter_mrow, colo. rewrite C01.Proofs.nth_map_seq by exact Hi. reflexivity.
        + unfold loop_masks3. cbn [seq map]. rewrite app_nil_r. apply ms_eq_refl.
      - rewrite <- cons_seq. cbn [map for_loop].
        replace (1 + Z.of_nat a)%Z with (Z.of_nat (S a)) by lia.
        destruct (Hbd st (S a) lf ms ltac:(lia) P) as [st1 [He P1]]. rewrite He. cbn [bind].
        destruct (IH (S a) _ _ st1 ltac:(lia) P1) as [st2 [He2 P2]]. exists st2. split; [exact He2|].
        eapply body_pre3_ext; [| |exact P2].
        + intros i n Hi Hn. cbv beta. f_equal. unfold iter_col3. rewrite colo_mrow_col by lia. reflexivity.
        + rewrite <- app_assoc. apply ms_eq_app; [apply ms_eq_refl|].
          unfold loop_masks3. rewrite <- (cons_seq m 0). cbn [map app]. constructor.
          * intros i n Hi Hn. reflexivity.
          * rewrite <- seq_shift, map_map. apply (Forall2_map_seq _ _ _ 0 m). intros j Hj i n Hi Hn. cbn [Nat.add].
            rewrite colo_mrow_col by lia. reflexivity.
    Qed.

    Definition loop_steps : nat := (H + (if excl then 0 else 1) - 1)%nat.

    Lemma zrange_steps : zrange 1 (Z.of_nat H + (if excl then 0 else 1)) = map (fun i => VInt (1 + Z.of_nat i)) (seq 0 loop_steps).
    Proof.
      unfold zrange, loop_steps.
      replace (Z.to_nat (Z.of_nat H + (if excl then 0 else 1) - 1)) with (H + (if excl then 0 else 1) - 1)%nat
        by (destruct excl; lia).
      reflexivity.
    Qed.

    Theorem loop_tie_gen3 : forall st lf ms, pre lf ms st -> lookup "max_hyp_steps" (vars st) = Some (VInt (Z.of_nat H)) ->
      runs_to (pre (fun i n => nth i (iter_col3 loop_steps 0 lf n) None) (ms ++ loop_masks3 loop_steps 0 lf))
              (exec ext03 (SFor "hyp_idx" loop_iter3 bd) st).
    Proof.
      intros st lf ms P Hmax. rewrite exec_for.
      assert (Hexcl : lookup "exclude_last" (vars st) = Some (VBool excl)) by apply P.
      assert (Hit : eval ext03 loop_iter3 st = Ok (VList (zrange 1 (Z.of_nat H + (if excl then 0 else 1)))) st).
      { unfold loop_iter3, sm3_loop. cbv iota. repeat (progress (ev3; rewrite ?if_ok_int)). reflexivity. }
      rewrite Hit. cbn [bind iter_items container_items]. rewrite zrange_steps.
      apply loop_run_gen3; [unfold loop_steps; destruct excl; lia|exact P].
    Qed.
  End AnyBody.

  Theorem loop_tie3 : forall st lf ms, pre lf ms st -> lookup "max_hyp_steps" (vars st) = Some (VInt (Z.of_nat H)) ->
    runs_to (pre (fun i n => nth i (iter_col3 loop_steps 0 lf n) None) (ms ++ loop_masks3 loop_steps 0 lf))
            (exec ext03 sm3_loop st).
  Proof. rewrite sm3_loop_eq. exact (loop_tie_gen3 loop_body3 (body_run3 s ci cd cs R N H rf hf rl hl excl)). Qed.
End Iter.
