#!/usr/bin/env python3
"""Developer tool: re-run a property's check against a KEPT seeded change (seeded/<id>/patch.diff) in a scratch
worktree and refresh the check_* fields of its meta.json.  If the earlier record said MISSED and the check now
catches it, the earlier result is kept under "history" (text given with --history).

usage: recheck_seed.py <seed_id> [--history "first verification run MISSED ...; what was added"] [--tier quick]
"""
import argparse
import json
import os
import subprocess
from pathlib import Path

V = Path(__file__).resolve().parent.parent


def main():
    ap = argparse.ArgumentParser()
    ap.add_argument("seed_id")
    ap.add_argument("--history", default="")
    ap.add_argument("--tier", default="quick")
    a = ap.parse_args()
    d = V / "seeded" / a.seed_id
    meta = json.loads((d / "meta.json").read_text())
    prop = meta["property"]
    wt = Path(f"/tmp/vrs-{os.getpid()}")
    subprocess.run(f"git -C /repo worktree add -q --detach {wt} HEAD", shell=True, check=True)
    try:
        subprocess.run(f"git -C {wt} apply {d / 'patch.diff'}", shell=True, check=True)
        coq = Path(f"/tmp/vrscoq-{os.getpid()}")
        subprocess.run(f"cp -a {V / 'coq'} {coq}; rm -f {coq}/.build.lock", shell=True, check=True)
        env = dict(os.environ, VERIF_REPO=str(wt), VERIF_COQ=str(coq), OMP_NUM_THREADS="1", MKL_NUM_THREADS="1")
        env.pop("PYTHONPATH", None)
        r = subprocess.run(f"cd {V} && /venv/bin/python harness/vcheck.py {prop} --tier {a.tier}", shell=True,
                           capture_output=True, text=True, env=env)
    finally:
        subprocess.run(f"git -C /repo worktree remove --force {wt}; rm -rf /tmp/vrscoq-{os.getpid()}", shell=True)
    lines = [l for l in r.stdout.splitlines() if l.startswith(("VIOLATION", "KNOWN-FINDING", "["))]
    was_caught = meta.get("caught")
    meta["check_exit"] = r.returncode
    meta["check_lines"] = lines[:8]
    meta["caught"] = r.returncode == 1 and any(l.startswith("VIOLATION") for l in lines)
    meta["caught_with_concrete_input"] = any(
        l.startswith("VIOLATION") and "no-failing-input-found" not in l for l in lines)
    if a.history and not meta.get("history"):
        meta["history"] = a.history
    elif not was_caught and meta["caught"] and not meta.get("history"):
        meta["history"] = "first verification run MISSED this change; caught after the check was strengthened"
    meta.setdefault("ran", []).append(f"re-check: vcheck.py {prop} --tier {a.tier} with VERIF_REPO=scratch worktree")
    (d / "meta.json").write_text(json.dumps(meta, indent=1) + "\n")
    print(a.seed_id, "caught" if meta["caught"] else "MISSED",
          "concrete" if meta["caught_with_concrete_input"] else "", lines[-1:] )


if __name__ == "__main__":
    main()
