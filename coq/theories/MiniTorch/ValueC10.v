(* MiniTorch, unit C10Src — integer / boolean tensors (OpsC10.itens) as MiniPy values.  DEFINITIONS ONLY.

       VTuple [VStr "$itensor"; VList [VInt s_0; ...]; VList [c_0; ...]]      (shape; row-major data)
       c_i  =  VInt z (integer element) | VBool b (boolean element) | VNone (never written: new_empty)

   The tag starts with "$": MiniPy.Interp.foreign recognises the value as a library object, so the rich
   comparisons on it reach the unit's [ext] as "compare"; it is not a [VDict], so `t.m(...)` reaches
   [ext] as "$method.m", `t.a` as "$attr.a", `t & u` / `t + u` as "operator", `t[k]` / `t[k] = v` as
   "$getitem" / "$setitem" (the key is not a [VInt]). *)
From Coq Require Import List ZArith Bool String.
From PV Require Import MiniPy.Syntax MiniPy.Interp MiniTorch.Value MiniTorch.OpsC10.
Import ListNotations.
Local Open Scope string_scope.

Definition itensor_tag : string := "$itensor".

Definition enc_cell (c : cell) : val :=
  match c with CInt z => VInt z | CBool b => VBool b | CUndef => VNone end.

Definition enc_shape (s : list nat) : list val := map (fun n => VInt (Z.of_nat n)) s.

Definition enc10 (t : itens) : val :=
  VTuple [VStr itensor_tag; VList (enc_shape (ishape t)); VList (map enc_cell (idata t))].

Fixpoint dec_cells (l : list val) : option (list cell) :=
  match l with
  | [] => Some []
  | VInt z :: r => option_map (cons (CInt z)) (dec_cells r)
  | VBool b :: r => option_map (cons (CBool b)) (dec_cells r)
  | VNone :: r => option_map (cons CUndef) (dec_cells r)
  | _ => None
  end.

Definition dec10 (v : val) : option itens :=
  match v with
  | VTuple [VStr tag; VList sh; VList d] =>
      if String.eqb tag itensor_tag then
        match dec_nats sh, dec_cells d with
        | Some s, Some c => Some (mkIT s c)
        | _, _ => None
        end
      else None
  | _ => None
  end.

(* a tensor operand of an element-wise operation: a tensor, or a Python int (0-dimensional) *)
Definition operand (v : val) : option itens :=
  match v with VInt z => Some (scalar_int z) | _ => dec10 v end.

(* a size argument: a tuple / list of non-negative Python ints *)
Definition dec_sizes (v : val) : option (list nat) :=
  match v with VTuple l | VList l => dec_nats l | _ => None end.

Definition ret10 (why : string) (o : option itens) (st : state) : outcome val :=
  match o with
  | Some t => Ok (enc10 t) st
  | None => Stuck ("MiniTorch(C10): outside the modelled domain: " ++ why)
  end.

Definition on1 (why : string) (v : val) (k : itens -> option itens) (st : state) : outcome val :=
  match dec10 v with Some t => ret10 why (k t) st | None => Stuck ("MiniTorch(C10): not a tensor: " ++ why) end.

Definition on2 (why : string) (v w : val) (k : itens -> itens -> option itens) (st : state) : outcome val :=
  match operand v, operand w with
  | Some t, Some u => ret10 why (k t u) st
  | _, _ => Stuck ("MiniTorch(C10): not a tensor: " ++ why)
  end.

(* ---- subscript keys --------------------------------------------------------------------------
   `...` is VTuple [VStr "$ellipsis"], a:b is VTuple [VStr "$slice"; a; b; None] (Interp.builtin) *)
Definition is_ellipsis (v : val) : bool :=
  match v with VTuple [VStr s] => String.eqb s "$ellipsis" | _ => false end.

Definition dec_bound (v : val) : option (option Z) :=
  match v with VNone => Some None | VInt z => Some (Some z) | _ => None end.

Inductive index := IxInt (c : Z) | IxSlice (a b : option Z).

(* x[..., c]  and  x[..., a:b]  (no step) *)
Definition dec_index (k : val) : option index :=
  match k with
  | VTuple [e; VInt c] => if is_ellipsis e then Some (IxInt c) else None
  | VTuple [e; VTuple [VStr s; a; b; VNone]] =>
      if (is_ellipsis e && String.eqb s "$slice")%bool then
        match dec_bound a, dec_bound b with
        | Some x, Some y => Some (IxSlice x y)
        | _, _ => None
        end
      else None
  | _ => None
  end.
