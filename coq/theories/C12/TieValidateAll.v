(* C12 — tie (part 3g) of the blocks of `_info_and_validate`: the whole pass of the glue over a directory = Model.run_pass / Model.validate, and the files afterwards.  See TieVTac.v for the method. *)
From Coq Require Import ZArith QArith List String Bool Arith Lia ZifyBool.
From PV Require Import MiniPy.Syntax MiniPy.Interp MiniPy.Lemmas MiniTorch.OpsC12 MiniTorch.LemmasC12 MiniTorch.LemmasC12V Gen.C12ValSrc.
From PV Require Import C12.SrcRun C12.SrcRunV C12.TieLib C12.TieLibV C12.TieVTac C12.TieVAli C12.TieVRef C12.TieVRef2 C12.TieVFeat C12.TieValidate.
From PV Require C12.Model.
Import ListNotations.
Local Open Scope string_scope.


(* ---- distinct utterances have distinct files ---- *)
Lemma uid_pt_eqb : forall i j, String.eqb (uid i ++ ".pt") (uid j ++ ".pt") = Nat.eqb i j.
Proof.
  induction i as [|i IH]; destruct j as [|j]; try reflexivity.
  cbn [uid String.append String.eqb Nat.eqb]. rewrite IH. reflexivity.
Qed.

Definition is_sub (s : string) : Prop := s = "feat" \/ s = "ali" \/ s = "ref".

Lemma path_neq : forall s1 s2 i j, is_sub s1 -> is_sub s2 -> i <> j -> String.eqb (path_of s1 (uid i)) (path_of s2 (uid j)) = false.
Proof.
  intros s1 s2 i j H1 H2 Hij.
  assert (E : String.eqb (uid i ++ ".pt") (uid j ++ ".pt") = false) by (rewrite uid_pt_eqb; now apply Nat.eqb_neq).
  destruct H1 as [H1|[H1|H1]], H2 as [H2|[H2|H2]]; subst s1 s2; unfold path_of; cbn [String.append String.eqb Ascii.eqb Bool.eqb andb]; try reflexivity; exact E.
Qed.

(* ---- events of other utterances do not interfere ---- *)
Definition ev_at (j : nat) (ev : event) : Prop := exists t sub, ev = sv t sub j /\ is_sub sub.

Definition foreign_to (i : nat) (E : list event) : Prop := Forall (fun ev => exists j, j <> i /\ ev_at j ev) E.

Definition save_step (p : string) (acc : option tens) (ev : event) : option tens :=
  match ev with
  | (name, [t; VStr q]) =>
      if (String.eqb name "torch.save" && String.eqb q p)%bool
      then match dec12 t with Some x => Some x | None => acc end
      else acc
  | _ => acc
  end.

Lemma save_step_acc : forall p acc ev, save_step p acc ev = match save_step p None ev with Some x => Some x | None => acc end.
Proof.
  intros p acc [name args]. unfold save_step.
  destruct args as [|t [|q [|x args]]]; try (now destruct acc). 
  - destruct q; try (now destruct acc).
    destruct (String.eqb name "torch.save" && String.eqb s p)%bool; [|now destruct acc]. destruct (dec12 t); [reflexivity|now destruct acc].
  - destruct q; now destruct acc.
Qed.

Lemma last_save_fold : forall E p, last_save E p = fold_left (save_step p) E None.
Proof. reflexivity. Qed.

Lemma fold_save_acc : forall p B acc, fold_left (save_step p) B acc = match fold_left (save_step p) B None with Some t => Some t | None => acc end.
Proof.
  intros p B. induction B as [|ev B IH]; intros acc; [reflexivity|]. cbn [fold_left].
  rewrite IH, (IH (save_step p None ev)), (save_step_acc p acc ev).
  destruct (fold_left (save_step p) B None); [reflexivity|]. reflexivity.
Qed.

Lemma last_save_app : forall A B p, last_save (A ++ B) p = match last_save B p with Some t => Some t | None => last_save A p end.
Proof. intros. rewrite !last_save_fold, fold_left_app. apply fold_save_acc. Qed.

Lemma last_save_foreign : forall i E sub, is_sub sub -> foreign_to i E -> last_save E (path_of sub (uid i)) = None.
Proof.
  intros i E sub Hs H. induction H as [|ev E Hev _ IH]; [reflexivity|].
  change (ev :: E) with ([ev] ++ E)%list. rewrite last_save_app, IH.
  destruct Hev as (j & Hj & t & sub' & -> & Hs'). rewrite last_save_cons1, (path_neq sub' sub j i Hs' Hs Hj). reflexivity.
Qed.

Lemma post_utt_foreign_r : forall i u A B, foreign_to i B -> post_utt (A ++ B) i u = post_utt A i u.
Proof.
  intros i u A B H. unfold post_utt. rewrite !last_save_app.
  rewrite (last_save_foreign i B "feat"), (last_save_foreign i B "ali"), (last_save_foreign i B "ref"); unfold is_sub; auto.
Qed.

Lemma post_utt_foreign_l : forall i u A B, foreign_to i A -> post_utt (A ++ B) i u = post_utt B i u.
Proof.
  intros i u A B H. unfold post_utt. rewrite !last_save_app.
  rewrite (last_save_foreign i A "feat"), (last_save_foreign i A "ali"), (last_save_foreign i A "ref"); unfold is_sub; auto.
  destruct (last_save B (path_of "feat" (uid i))), (last_save B (path_of "ali" (uid i))), (last_save B (path_of "ref" (uid i))); reflexivity.
Qed.

(* events of utterances k, k+1, ..., k+n-1 *)
Definition in_range (k n : nat) (E : list event) : Prop := Forall (fun ev => exists j, (k <= j < k + n)%nat /\ ev_at j ev) E.

Lemma local_in_range : forall i E, local_to i E -> in_range i 1 E.
Proof.
  intros i E H. induction H as [|ev E Hev _ IH]; constructor; [|exact IH].
  destruct Hev as (t & sub & -> & Hs). exists i. split; [lia|]. exists t, sub. split; [reflexivity|exact Hs].
Qed.

Lemma in_range_weaken : forall k n k' n' E, (k' <= k)%nat -> (k + n <= k' + n')%nat -> in_range k n E -> in_range k' n' E.
Proof.
  intros k n k' n' E H1 H2 H. induction H as [|ev E Hev _ IH]; constructor; [|exact IH].
  destruct Hev as (j & Hj & He). exists j. split; [lia|exact He].
Qed.

Lemma in_range_foreign : forall k n i E, ((i < k)%nat \/ (k + n <= i)%nat) -> in_range k n E -> foreign_to i E.
Proof.
  intros k n i E Hi H. induction H as [|ev E Hev _ IH]; constructor; [|exact IH].
  destruct Hev as (j & Hj & He). exists j. split; [lia|exact He].
Qed.

Lemma post_from_foreign_l : forall rest k A B, in_range 0 k A -> post_from (A ++ B) k rest = post_from B k rest.
Proof.
  induction rest as [|u rest IH]; intros k A B H; [reflexivity|]. cbn [post_from]. f_equal.
  - apply post_utt_foreign_l. apply (in_range_foreign 0 k k A); [right; lia|exact H].
  - apply IH. apply (in_range_weaken 0 k 0 (S k)); [lia|lia|exact H].
Qed.

Lemma post_from_foreign_all : forall rest k E, in_range 0 k E -> post_from E k rest = rest.
Proof.
  induction rest as [|u rest IH]; intros k E H; [reflexivity|]. cbn [post_from]. f_equal.
  - rewrite <- (app_nil_r E). rewrite post_utt_foreign_l; [apply post_nil|].
    apply (in_range_foreign 0 k k E); [right; lia|exact H].
  - apply IH. apply (in_range_weaken 0 k 0 (S k)); [lia|lia|exact H].
Qed.

Lemma nth_uid : forall n i, (i < n)%nat -> nth_error (map uid (seq 0 n)) i = Some (uid i).
Proof.
  intros n i H. rewrite (nth_error_nth' (map uid (seq 0 n)) (uid 0)) by (rewrite map_length, seq_length; exact H).
  rewrite map_nth, List.seq_nth by exact H. reflexivity.
Qed.

Section Pass.
  Variables (c : Model.cfg) (d : Model.dir) (fx : option Z).
  Local Notation ext := (ext12 (env_ds c d)).
  Local Notation ids := (map uid (seq 0 (List.length d))).
  Hypothesis Hsup : Model.c_suppress_alis c = false.
  Hypothesis Hshape : Forall (utt_shape_ok c) d.

  Lemma pass_tie : forall rest k vst acc evs st,
    (forall j u, nth_error rest j = Some u -> nth_error d (k + j) = Some u) ->
    good_state ids fx vst evs st ->
    match Model.run_pass false true c fx vst acc rest with
    | (rest', inl e) =>
        exists st' E, pass_src ext (seq k (List.length rest)) st = Exc (name_of_exn e) st'
                      /\ events st' = (evs ++ E)%list /\ in_range k (List.length rest) E /\ post_from E k rest = rest'
    | (rest', inr _) =>
        exists st' E, pass_src ext (seq k (List.length rest)) st = Ok CNormal st'
                      /\ events st' = (evs ++ E)%list /\ in_range k (List.length rest) E /\ post_from E k rest = rest'
    end.
  Proof.
    induction rest as [|u rest IH]; intros k vst acc evs st Hd Hst.
    - cbn [Model.run_pass List.length seq pass_src post_from]. exists st, []. rewrite app_nil_r.
      destruct Hst as (idx & fn & t1 & feat & ali & ref & wb & prefix & dir_ & prefix_ & msg & t2 & T & F & Tp & idx2 & r & tok & start & end_ & ->).
      split; [reflexivity|]. split; [reflexivity|]. split; [constructor|reflexivity].
    - cbn [Model.run_pass List.length seq pass_src].
      assert (Hu : nth_error d k = Some u) by (rewrite <- (Nat.add_0_r k); apply Hd; reflexivity).
      assert (Hk : (k < List.length d)%nat) by (apply nth_error_Some; congruence).
      assert (Hus : utt_shape_ok c u) by (rewrite Forall_forall in Hshape; apply Hshape; eapply nth_error_In; eauto).
      pose proof (step_tie c d ids fx k u vst acc evs st Hu (nth_uid _ _ Hk) Hsup Hus Hst) as ST. unfold outcome_ok in ST.
      destruct (Model.step_utt false true c fx vst acc u) as [u' [e|[vst' acc']]].
      + destruct ST as (st' & E & S1 & S2 & S3 & S4). exists st', E. rewrite S1. cbn [bind].
        split; [reflexivity|]. split; [exact S2|].
        split; [apply (in_range_weaken k 1); [lia|lia|now apply local_in_range]|].
        cbn [post_from]. rewrite S4. f_equal. apply post_from_foreign_all.
        apply (in_range_weaken k 1); [lia|lia|now apply local_in_range].
      + destruct ST as (st' & E1 & S1 & S2 & S3 & S4). rewrite S1. cbn [bind].
        specialize (IH (S k) vst' acc' (evs ++ E1)%list st').
        assert (Hd' : forall j u0, nth_error rest j = Some u0 -> nth_error d (S k + j) = Some u0).
        { intros j u0 H. replace (S k + j)%nat with (k + S j)%nat by lia. apply Hd. exact H. }
        specialize (IH Hd' S2).
        destruct (Model.run_pass false true c fx vst' acc' rest) as [rest' [e|acc'']].
        * destruct IH as (st'' & E2 & I1 & I2 & I3 & I4). exists st'', (E1 ++ E2)%list.
          split; [exact I1|]. split; [now rewrite app_assoc|].
          split; [apply Forall_app; split; [apply (in_range_weaken k 1); [lia|lia|now apply local_in_range]|apply (in_range_weaken (S k) (List.length rest)); [lia|lia|exact I3]]|].
          cbn [post_from]. f_equal.
          -- rewrite post_utt_foreign_r; [exact S4|]. apply (in_range_foreign (S k) (List.length rest)); [left; lia|exact I3].
          -- rewrite post_from_foreign_l; [exact I4|]. apply (in_range_weaken k 1); [lia|lia|now apply local_in_range].
        * destruct IH as (st'' & E2 & I1 & I2 & I3 & I4). exists st'', (E1 ++ E2)%list.
          split; [exact I1|]. split; [now rewrite app_assoc|].
          split; [apply Forall_app; split; [apply (in_range_weaken k 1); [lia|lia|now apply local_in_range]|apply (in_range_weaken (S k) (List.length rest)); [lia|lia|exact I3]]|].
          cbn [post_from]. f_equal.
          -- rewrite post_utt_foreign_r; [exact S4|]. apply (in_range_foreign (S k) (List.length rest)); [left; lia|exact I3].
          -- rewrite post_from_foreign_l; [exact I4|]. apply (in_range_weaken k 1); [lia|lia|now apply local_in_range].
  Qed.
End Pass.

Lemma good_init : forall ids fx, good_state ids fx Model.st0 [] (mkState (init_vars ids fx) []).
Proof. intros. unfold good_state. do 20 eexists. reflexivity. Qed.

Lemma exn_roundtrip : forall e, exn_of_name (name_of_exn e) = e.
Proof. now destruct e. Qed.

(* ---- validate_spect_data_set through the glue = Model.validate: the same exception / return and the same files afterwards,
        for every directory, every fix argument, every sos/eos/tokens_only configuration ---- *)
Theorem src_validate_tie : forall c fa d,
  Model.c_suppress_alis c = false -> Forall (utt_shape_ok c) d ->
  src_validate c fa d = Some (Model.validate c fa d).
Proof.
  intros c fa d Hsup Hshape. unfold src_validate, run_pass_src, Model.validate.
  pose proof (pass_tie c d (Model.norm_fix fa) Hsup Hshape d 0 Model.st0 Model.acc0 []
                (mkState (init_vars (map uid (seq 0 (List.length d))) (Model.norm_fix fa)) [])
                (fun j u H => H) (good_init _ _)) as P.
  destruct (Model.run_pass false true c (Model.norm_fix fa) Model.st0 Model.acc0 d) as [d' [e|acc]];
  destruct P as (st' & E & P1 & P2 & P3 & P4); rewrite P1, P2; cbn [app]; rewrite P4; [now rewrite exn_roundtrip|reflexivity].
Qed.

Theorem src_check_validate_tie : forall c fa pre post out,
  Model.c_suppress_alis c = false -> Forall (utt_shape_ok c) pre ->
  src_check_validate c fa pre post out
  = [true; (let '(d', r) := Model.validate c fa pre in (Model.dir_beq d' post && Model.opt_beq Model.exn_beq r out)%bool)].
Proof.
  intros c fa pre post out Hsup Hshape. unfold src_check_validate. rewrite (src_validate_tie c fa pre Hsup Hshape).
  now destruct (Model.validate c fa pre).
Qed.

(* ---- the shape conditions, stated on what is STORED ---- *)
Lemma sym_row_length : forall dt w s, List.length (Model.sym_row dt w s) = w.
Proof. intros dt [|w] s; cbn; [reflexivity|now rewrite repeat_length]. Qed.

Lemma load_shape_ok : forall c r lr, ref_shape_ok2 r -> Model.load_ref c r = inr lr -> ref_shape_ok2 lr.
Proof.
  intros [sos eos tk sa] [cu dt data] lr Hok. unfold Model.load_ref, Model.load_rdata, ref_shape_ok2 in *.
  cbn [Model.r_data Model.r_dtype Model.r_cuda Model.c_tokens_only Model.c_sos Model.c_eos] in *.
  destruct data as [l|rows|w rows|nd].
  - destruct tk, sos, eos; cbn; intros H; inversion H; exact I.
  - destruct tk, sos, eos; cbn; intros H; inversion H; exact I.
  - destruct Hok as [HF Hw]. destruct w as [|w].
    + destruct tk, sos, eos; cbn; intros H; inversion H; subst; cbn; split; assumption.
    + assert (Hs : forall s, List.length (Model.sym_row dt (S w) s) = S w) by (intros; apply sym_row_length).
      assert (Hr : forall z, List.length (z :: repeat (Model.minus1 dt) w) = S w) by (intros; cbn; now rewrite repeat_length).
      destruct tk, sos, eos; cbn [Model.drop_segments Model.add_sos Model.add_eos]; intros H; inversion H; subst;
        cbn [Model.r_data]; try exact I.
      all: split; [|assumption].
      * constructor; [apply Hr|]. apply Forall_app. split; [assumption|]. constructor; [apply Hr|constructor].
      * constructor; [apply Hr|assumption].
      * apply Forall_app. split; [assumption|]. constructor; [apply Hr|constructor].
      * assumption.
  - destruct tk, sos, eos; cbn; intros H; inversion H; subst; cbn; assumption.
Qed.

Definition utt_stored_ok (u : Model.utt) : Prop :=
  (forall a, Model.u_ali u = Some a -> ali_shape_ok a) /\ (forall r, Model.u_ref u = Some r -> ref_shape_ok2 r).

Lemma stored_ok_shape : forall c d, Forall utt_stored_ok d -> Forall (utt_shape_ok c) d.
Proof.
  intros c d H. induction H as [|u d [Ha Hr] _ IH]; constructor; [|exact IH].
  split; [exact Ha|]. intros r lr Hu Hl. eapply load_shape_ok; eauto.
Qed.

Theorem src_validate_is_model : forall c fa d,
  Model.c_suppress_alis c = false -> Forall utt_stored_ok d ->
  src_validate c fa d = Some (Model.validate c fa d).
Proof. intros c fa d Hs Hd. apply src_validate_tie; [exact Hs|now apply stored_ok_shape]. Qed.
