(* C17 - lemmas at the level of whole directories: alignment round trip, sub-setting, pooled moments. *)
From Coq Require Import List ZArith Bool Arith Lia Permutation.
From PV Require Import C11.Model C17.Model C17.Spec C17.ProofsSel C17.ProofsRle C17.ProofsPool.
Import ListNotations.
Local Open Scope Z_scope.

(* ---------- what a run of total, name-disjoint writes leaves behind ---------------------------------- *)

Lemma puts_names {A} (ws : list (str * A)) : forall d, NoDup (map fst d) ->
  NoDup (map fst (puts ws d)) /\
  forall m, In m (map fst (puts ws d)) <-> In m (map fst d) \/ In m (map fst ws).
Proof.
  induction ws as [|[n v] t IH]; intros d N; cbn [puts fold_left map fst snd].
  - split; [exact N|]. intros m. split; [auto|intros [H|[]]; exact H].
  - fold (puts t (dir_put n v d)). destruct (IH (dir_put n v d) (dir_put_nodup n v d N)) as [H1 H2].
    split; [exact H1|]. intros m. rewrite H2. rewrite dir_put_names.
    destruct (existsb (str_eqb n) (map fst d)) eqn:E.
    + apply existsb_str_in in E. split; [intros [H|H]; [left; exact H|right; right; exact H]|].
      intros [H|[H|H]]; [left; exact H|subst; left; exact E|right; exact H].
    + rewrite in_app_iff. cbn [In]. tauto.
Qed.

Lemma effects_total {I A} (w : I -> out (str * A)) (name : I -> str) (val : I -> A) items :
  (forall x, In x items -> w x = Done (name x, val x)) -> NoDup (map name items) ->
  exists d1, run_effects (eff w) items [] = Done d1 /\ NoDup (listdir d1)
             /\ (forall m, In m (listdir d1) <-> In m (map name items))
             /\ (forall x, In x items -> dir_get d1 (name x) = Some (val x)).
Proof.
  intros Hw N. rewrite run_effects_puts.
  rewrite (map_out_ext_in w (fun x => Done (name x, val x)) items Hw), map_out_total.
  set (ws := map (fun x => (name x, val x)) items).
  assert (Ews : map fst ws = map name items) by (unfold ws; rewrite map_map; reflexivity).
  exists (puts ws []). split; [reflexivity|].
  destruct (puts_names ws [] (NoDup_nil _)) as [H1 H2]. split; [exact H1|]. split.
  - intros m. unfold listdir. rewrite H2, Ews. cbn [map In]. tauto.
  - intros x Hx. apply (proj1 (puts_get ws [] (eq_ind_r (fun l => NoDup l) N Ews) (name x))).
    unfold ws. apply in_map_iff. exists x. split; [reflexivity|exact Hx].
Qed.

Lemma listdir_get {A} (d : gdir A) n : In n (listdir d) -> exists v, dir_get d n = Some v.
Proof.
  intros H. destruct (dir_get d n) as [v|] eqn:E; [eauto|].
  exfalso. unfold listdir in H. apply in_map_iff in H. destruct H as [[m v] [Em Hi]]. cbn [fst] in Em. subst m.
  clear -E Hi. unfold dir_get in E. induction d as [|[k w] t IH]; [contradiction|].
  cbn [assoc] in E. destruct (str_eqb n k) eqn:Ek; [discriminate|].
  destruct Hi as [Hi|Hi]; [inversion Hi; subst; rewrite str_eqb_refl in Ek; discriminate|auto].
Qed.

(* ---------- alignments -> token segments -> alignments, whole directories, any schedules ------------- *)

Definition ali_w (src : dir) (n : str) : out (str * tensor) :=
  match dir_get src n with
  | None => Fail EOS
  | Some t => match ref_of_ali t with Done r => Done (n, r) | Fail e => Fail e end
  end.

Definition ref_w (feats : option dir) (src : dir) (n : str) : out (str * tensor) :=
  match dir_get src n with
  | None => Fail EOS
  | Some t => match ali_of_ref_feat feats n t with Done a => Done (n, a) | Fail e => Fail e end
  end.

Lemma ali_to_ref_dir_eff pre suf workers order src dst :
  ali_to_ref_dir pre suf workers order src dst =
  run_effects (eff (ali_w src)) (pool_items workers order (filter (selected pre suf) (listdir src))) dst.
Proof.
  unfold ali_to_ref_dir. generalize (pool_items workers order (filter (selected pre suf) (listdir src))).
  intros items. revert dst. induction items as [|n t IH]; intros dst; cbn [run_effects]; [reflexivity|].
  unfold eff at 1, ali_w at 1. destruct (dir_get src n) as [x|]; [|reflexivity].
  destruct (ref_of_ali x) as [r|e]; [|reflexivity]. cbn [fst snd]. apply IH.
Qed.

Lemma ref_to_ali_dir_eff pre suf feats workers order src dst :
  ref_to_ali_dir pre suf feats workers order src dst =
  run_effects (eff (ref_w feats src)) (pool_items workers order (filter (selected pre suf) (listdir src))) dst.
Proof.
  unfold ref_to_ali_dir. generalize (pool_items workers order (filter (selected pre suf) (listdir src))).
  intros items. revert dst. induction items as [|n t IH]; intros dst; cbn [run_effects]; [reflexivity|].
  unfold eff at 1, ref_w at 1. destruct (dir_get src n) as [x|]; [|reflexivity].
  destruct (ali_of_ref_feat feats n x) as [r|e]; [|reflexivity]. cbn [fst snd]. apply IH.
Qed.

Lemma segs_len3 runs : forall s, Forall (fun r => length r = 3%nat) (segs s runs).
Proof. induction runs as [|[v c] t IH]; intros s; cbn [segs]; constructor; [reflexivity|apply IH]. Qed.

(* one file: decode (encode v) = v for a non-empty alignment *)
Lemma ali_of_ref_of_ali v : v <> [] -> ali_of_ref None (Mat 3 (segs 0 (rle v))) = Done (Vec v).
Proof.
  intros Hv. destruct (ref_of_ali_valid v) as (P & _ & E).
  rewrite <- E at 2. apply ali_of_ref_accepts_iff; [apply segs_len3|]. split.
  - intros H. rewrite H in E. cbn in E. congruence.
  - exists (Z.of_nat (length v)). split; [exact P|exact I].
Qed.

Lemma filter_perm_nodup {A} (f : A -> bool) l l' : Permutation l l' -> Permutation (filter f l) (filter f l').
Proof.
  induction 1 as [|x l l' P IH|x y l|l l' l'' P1 IH1 P2 IH2]; cbn [filter].
  - constructor.
  - destruct (f x); [constructor|]; exact IH.
  - destruct (f x), (f y); try reflexivity. constructor.
  - eapply Permutation_trans; eassumption.
Qed.

Lemma NoDup_filter' {A} (f : A -> bool) l : NoDup l -> NoDup (filter f l).
Proof.
  induction 1 as [|x l Hn N IH]; cbn [filter]; [constructor|].
  destruct (f x); [|exact IH]. constructor; [|exact IH]. intros H. apply filter_In in H. tauto.
Qed.

Lemma ali_dir_roundtrip pre suf w1 o1 (src : dir) :
  NoDup (listdir src) ->
  (forall n t, In (n, t) src -> selected pre suf n = true -> exists v, t = Vec v /\ v <> []) ->
  Permutation o1 (seq 0 (length (filter (selected pre suf) (listdir src)))) ->
  exists r, ali_to_ref_dir pre suf w1 o1 src [] = Done r /\
    forall w2 o2, Permutation o2 (seq 0 (length (filter (selected pre suf) (listdir r)))) ->
    exists a, ref_to_ali_dir pre suf None w2 o2 r [] = Done a
              /\ forall n, dir_get a n = if selected pre suf n then dir_get src n else None.
Proof.
  intros N Hsrc P1.
  set (sel1 := filter (selected pre suf) (listdir src)) in *.
  set (items1 := pool_items w1 o1 sel1).
  assert (Pi1 : Permutation items1 sel1) by (apply pool_items_perm; exact P1).
  assert (N1 : NoDup items1).
  { eapply Permutation_NoDup; [apply Permutation_sym; exact Pi1|apply NoDup_filter'; exact N]. }
  assert (In1 : forall x, In x items1 -> exists v, dir_get src x = Some (Vec v) /\ v <> [] /\ selected pre suf x = true).
  { intros x Hx. apply (Permutation_in _ Pi1) in Hx. unfold sel1 in Hx. apply filter_In in Hx. destruct Hx as [Hl Hs].
    destruct (listdir_get src x Hl) as [t Ht]. destruct (Hsrc x t (dir_get_in _ _ _ Ht) Hs) as [v [-> Hv]].
    exists v. repeat split; assumption. }
  set (val1 := fun x => match dir_get src x with Some (Vec v) => Mat 3 (segs 0 (rle v)) | _ => Vec [] end).
  destruct (effects_total (ali_w src) (fun x => x) val1 items1) as (r & Hr & Nr & Lr & Gr).
  { intros x Hx. destruct (In1 x Hx) as [v [Hv _]]. unfold ali_w, val1. rewrite Hv. reflexivity. }
  { rewrite map_id. exact N1. }
  rewrite map_id in Lr.
  exists r. split; [rewrite ali_to_ref_dir_eff; exact Hr|].
  intros w2 o2 P2.
  set (sel2 := filter (selected pre suf) (listdir r)) in *.
  set (items2 := pool_items w2 o2 sel2).
  assert (Pi2 : Permutation items2 sel2) by (apply pool_items_perm; exact P2).
  assert (N2 : NoDup items2).
  { eapply Permutation_NoDup; [apply Permutation_sym; exact Pi2|apply NoDup_filter'; exact Nr]. }
  assert (In2 : forall x, In x items2 <-> In x items1).
  { intros x. split.
    - intros Hx. apply (Permutation_in _ Pi2) in Hx. unfold sel2 in Hx. apply filter_In in Hx. apply Lr. tauto.
    - intros Hx. apply (Permutation_in _ (Permutation_sym Pi2)). unfold sel2. apply filter_In. split; [apply Lr; exact Hx|].
      destruct (In1 x Hx) as [v [_ [_ Hs]]]. exact Hs. }
  set (val2 := fun x => match dir_get src x with Some t => t | None => Vec [] end).
  destruct (effects_total (ref_w None r) (fun x => x) val2 items2) as (a & Ha & Na & La & Ga).
  { intros x Hx. apply In2 in Hx. destruct (In1 x Hx) as [v [Hv [Hne _]]].
    unfold ref_w, val2, ali_of_ref_feat. rewrite (Gr x Hx). unfold val1. rewrite Hv.
    rewrite (ali_of_ref_of_ali v Hne). reflexivity. }
  { rewrite map_id. exact N2. }
  rewrite map_id in La.
  exists a. split; [rewrite ref_to_ali_dir_eff; exact Ha|].
  intros n. destruct (selected pre suf n) eqn:Es.
  - destruct (in_names_dec n (listdir src)) as [Hl|Hl].
    + assert (H1 : In n items1).
      { apply (Permutation_in _ (Permutation_sym Pi1)). unfold sel1. apply filter_In. split; assumption. }
      rewrite (Ga n (proj2 (In2 n) H1)). unfold val2. destruct (In1 n H1) as [v [Hv _]]. rewrite Hv. reflexivity.
    + rewrite (dir_get_none src n Hl). apply dir_get_none. fold (listdir a). intros Hi. apply La, In2 in Hi.
      apply (Permutation_in _ Pi1) in Hi. unfold sel1 in Hi. apply filter_In in Hi. tauto.
  - apply dir_get_none. fold (listdir a). intros Hi. apply La, In2 in Hi. destruct (In1 n Hi) as [_ [_ [_ Hs]]]. congruence.
Qed.

(* ---------- sub-setting -------------------------------------------------------------------------------- *)

Section SubsetFacts.
  Context {A : Type}.

  Lemma copy_fold_get (src : gdir A) names : forall d0 n,
    dir_get (fold_left (fun d b => copy_into src b d) names d0) n =
    if existsb (str_eqb n) names
    then match dir_get src n with Some x => Some x | None => dir_get d0 n end
    else dir_get d0 n.
  Proof.
    induction names as [|b t IH]; intros d0 n; cbn [fold_left existsb]; [reflexivity|].
    rewrite IH. unfold copy_into.
    destruct (str_eqb n b) eqn:E; cbn [orb].
    - apply str_eqb_iff in E. subst b.
      destruct (dir_get src n) as [x|] eqn:Ex.
      + rewrite dir_get_put_same. destruct (existsb (str_eqb n) t); reflexivity.
      + destruct (existsb (str_eqb n) t); reflexivity.
    - assert (Hne : b <> n) by (intros ->; rewrite str_eqb_refl in E; discriminate).
      destruct (dir_get src b) as [x|]; [rewrite (dir_get_put_other b n x d0 Hne)|]; reflexivity.
  Qed.

  Lemma copy_work_feat (src : sds A) names : forall d0,
    s_feat (fold_left (fun d b => copy_work src b d) names d0) =
    fold_left (fun d b => copy_into (s_feat src) b d) names (s_feat d0).
  Proof. induction names as [|b t IH]; intros d0; cbn [fold_left]; [reflexivity|]. rewrite IH. reflexivity. Qed.

  Lemma copy_work_ali (src : sds A) sa names : s_ali src = Some sa -> forall d0 da, s_ali d0 = Some da ->
    s_ali (fold_left (fun d b => copy_work src b d) names d0) =
    Some (fold_left (fun d b => copy_into sa b d) names da).
  Proof.
    intros Hs. induction names as [|b t IH]; intros d0 da Hd; cbn [fold_left]; [exact Hd|].
    apply IH. unfold copy_work. cbn [s_ali]. rewrite Hs, Hd. reflexivity.
  Qed.

  Lemma copy_work_ref (src : sds A) sa names : s_ref src = Some sa -> forall d0 da, s_ref d0 = Some da ->
    s_ref (fold_left (fun d b => copy_work src b d) names d0) =
    Some (fold_left (fun d b => copy_into sa b d) names da).
  Proof.
    intros Hs. induction names as [|b t IH]; intros d0 da Hd; cbn [fold_left]; [exact Hd|].
    apply IH. unfold copy_work. cbn [s_ref]. rewrite Hs, Hd. reflexivity.
  Qed.

  Lemma copy_work_ali_none (src : sds A) names : s_ali src = None -> forall d0, s_ali d0 = None ->
    s_ali (fold_left (fun d b => copy_work src b d) names d0) = None.
  Proof.
    intros Hs. induction names as [|b t IH]; intros d0 H0; cbn [fold_left]; [exact H0|]. apply IH.
    unfold copy_work, copy_opt. cbn [s_ali]. rewrite Hs. exact H0.
  Qed.

  Lemma copy_work_ref_none (src : sds A) names : s_ref src = None -> forall d0, s_ref d0 = None ->
    s_ref (fold_left (fun d b => copy_work src b d) names d0) = None.
  Proof.
    intros Hs. induction names as [|b t IH]; intros d0 H0; cbn [fold_left]; [exact H0|]. apply IH.
    unfold copy_work, copy_opt. cbn [s_ref]. rewrite Hs. exact H0.
  Qed.

  Lemma existsb_perm (n : str) l l' : Permutation l l' -> existsb (str_eqb n) l = existsb (str_eqb n) l'.
  Proof.
    intros P. destruct (existsb (str_eqb n) l) eqn:E.
    - symmetry. apply existsb_str_in. apply (Permutation_in _ P). apply existsb_str_in. exact E.
    - destruct (existsb (str_eqb n) l') eqn:E'; [|reflexivity].
      apply existsb_str_in in E'. apply (Permutation_in _ (Permutation_sym P)), existsb_str_in in E'. congruence.
  Qed.

  (* into an empty destination: exactly the requested files, each identical to its source *)
  Lemma subset_is_filter (size0 : A -> Z) c pre suf workers order (src : sds A) :
    let names := map (fname pre suf) (choose size0 c pre suf (s_feat src)) in
    Permutation order (seq 0 (length names)) ->
    let dst := subset size0 c pre suf workers order src
                 (mkSds [] (option_map (fun _ => []) (s_ali src)) (option_map (fun _ => []) (s_ref src))) in
    is_filter_of names (s_feat src) (s_feat dst)
    /\ (forall sa, s_ali src = Some sa -> exists da, s_ali dst = Some da /\ is_filter_of names sa da)
    /\ (forall sr, s_ref src = Some sr -> exists dr, s_ref dst = Some dr /\ is_filter_of names sr dr)
    /\ (s_ali src = None -> s_ali dst = None) /\ (s_ref src = None -> s_ref dst = None).
  Proof.
    intros names P dst. unfold dst, subset. fold names.
    pose proof (pool_items_perm workers order names P) as Pp.
    set (items := pool_items workers order names) in *.
    assert (F : forall (s : gdir A) n, dir_get (fold_left (fun d b => copy_into s b d) items []) n
                                      = if existsb (str_eqb n) names then dir_get s n else None).
    { intros s n. rewrite copy_fold_get. rewrite (existsb_perm n items names Pp).
      destruct (existsb (str_eqb n) names); [destruct (dir_get s n)|]; reflexivity. }
    split; [|split; [|split; [|split]]].
    - intros n. rewrite copy_work_feat. cbn [s_feat]. apply F.
    - intros sa Hs. eexists. split.
      + apply (copy_work_ali src sa items Hs). cbn [s_ali]. rewrite Hs. reflexivity.
      + intros n. apply F.
    - intros sr Hs. eexists. split.
      + apply (copy_work_ref src sr items Hs). cbn [s_ref]. rewrite Hs. reflexivity.
      + intros n. apply F.
    - intros Hs. apply copy_work_ali_none; [exact Hs|]. cbn [s_ali]. rewrite Hs. reflexivity.
    - intros Hs. apply copy_work_ref_none; [exact Hs|]. cbn [s_ref]. rewrite Hs. reflexivity.
  Qed.
End SubsetFacts.

(* ---------- pooled length moments ------------------------------------------------------------------------ *)

Definition ali_lens (excl : option (list Z)) (t : tensor) : list Z :=
  match t with
  | Vec v => map snd (filter (fun vc : Z * Z => negb (excluded excl (fst vc))) (rle v))
  | Mat _ _ => []
  end.

Definition dir_lens (excl : option (list Z)) (d : dir) (n : str) : list Z :=
  match dir_get d n with Some t => ali_lens excl t | None => [] end.

Lemma ali_moments_lens excl t : ali_moments excl t = mom_of (ali_lens excl t).
Proof. destruct t; reflexivity. Qed.

(* the printed figures come from the moments of all segment lengths of all selected files together,
   whatever the number of workers, the chunk size and the completion order *)
Lemma ali_dir_moments_pooled pre suf excl workers order (d : dir) :
  Permutation order (seq 0 (length (filter (selected pre suf) (listdir d)))) ->
  ali_dir_moments pre suf excl workers order d
  = Done (mom_of (concat (map (dir_lens excl d) (filter (selected pre suf) (listdir d))))).
Proof.
  intros P. unfold ali_dir_moments, run_values.
  set (sel := filter (selected pre suf) (listdir d)) in *.
  pose proof (pool_items_perm workers order sel P) as Pp. set (items := pool_items workers order sel) in *.
  rewrite (map_out_ext_in _ (fun n => Done (mom_of (dir_lens excl d n))) items).
  - rewrite map_out_total, fold_mom, mom_add_0_l.
    rewrite (mom_sum_perm _ _ (Permutation_map (fun n => mom_of (dir_lens excl d n)) Pp)).
    rewrite <- (map_map (dir_lens excl d) mom_of). rewrite mom_sum_concat. reflexivity.
  - intros n Hn. apply (Permutation_in _ Pp) in Hn. unfold sel in Hn. apply filter_In in Hn.
    destruct (listdir_get d n (proj1 Hn)) as [t Ht]. unfold dir_lens. rewrite Ht, ali_moments_lens. reflexivity.
Qed.

Lemma ali_dir_moments_schedule pre suf excl workers order (d : dir) :
  Permutation order (seq 0 (length (filter (selected pre suf) (listdir d)))) ->
  ali_dir_moments pre suf excl workers order d = ali_dir_moments pre suf excl 0 [] d.
Proof.
  intros P. rewrite (ali_dir_moments_pooled _ _ _ workers order d P).
  unfold ali_dir_moments at 1. cbn [pool_items]. unfold run_values.
  set (sel := filter (selected pre suf) (listdir d)).
  rewrite (map_out_ext_in _ (fun n => Done (mom_of (dir_lens excl d n))) sel).
  - rewrite map_out_total, fold_mom, mom_add_0_l.
    rewrite <- (map_map (dir_lens excl d) mom_of). rewrite mom_sum_concat. reflexivity.
  - intros n Hn. unfold sel in Hn. apply filter_In in Hn.
    destruct (listdir_get d n (proj1 Hn)) as [t Ht]. unfold dir_lens. rewrite Ht, ali_moments_lens. reflexivity.
Qed.

Lemma rle_empty_refuted : exists t, ref_of_ali (Vec []) = Done t /\ ali_of_ref None t = Fail EValue.
Proof. exists (Mat 3 []). split; reflexivity. Qed.

Lemma ali_commands_are_writes pre suf feats workers order src dst :
  ali_to_ref_dir pre suf workers order src dst =
    run_effects (eff (ali_w src)) (pool_items workers order (filter (selected pre suf) (listdir src))) dst
  /\ ref_to_ali_dir pre suf feats workers order src dst =
    run_effects (eff (ref_w feats src)) (pool_items workers order (filter (selected pre suf) (listdir src))) dst.
Proof. split; [apply ali_to_ref_dir_eff|apply ref_to_ali_dir_eff]. Qed.
