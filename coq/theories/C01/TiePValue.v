(* C01, prefix tie - one entry of Model.pair_prefix as the float the interpreted source leaves in the returned table:
   row 0 = ref_lens * del_cost, row j = the row after j steps gathered at ref_lens ([ers_at]), then mult, the normalisation
   with the empty-reference convention, the padding value past the hypothesis length.  No interpreter here. *)
From Coq Require Import ZArith QArith List Bool Arith Lia ZifyBool ZifyNat.
From PV Require Import MiniTorch.Ops MiniTorch.Lemmas MiniTorch.OpsC07 MiniTorch.LemmasC07 MiniTorch.OpsC01 MiniTorch.LemmasC01.
From PV Require Import C01.TieMath C01.TieWhole C01.TiePMath.
From PV Require C01.Obs C01.Model C01.Proofs.
Import ListNotations.
Local Open Scope Z_scope.

(* the body of Model.pair_prefix once the effective costs are named *)
Definition pp_core (c : Model.cfg) (mult ci cd cs : Z) (r h : list Z) : list Obs.val :=
  let rl := Model.eff_len (Model.c_eos c) (Model.c_incl c) r in
  let hl := Model.eff_len (Model.c_eos c) (Model.c_incl c) h in
  let out_len := (length h + (if Model.c_excl c then 0 else 1))%nat in
  let rows := Model.all_rows ci cd cs r h hl (Model.c_excl c) (out_len - 1) in
  let ers := (Z.of_nat rl * cd) :: map (fun row => nth rl row 0) (tl rows) in
  Model.map2 (fun k e =>
          if (hl + (if Model.c_excl c then 0 else 1) <=? k)%nat then Obs.Lit (Model.c_pad c)
          else Model.normalise (Model.c_norm c) rl (e * mult) (0 <? k)%nat)
       (seq 0 out_len) ers.

Lemma pair_prefix_core : forall c r h,
  Model.pair_prefix c r h =
  let '(m, (a, b, d)) := Model.eff_costs (Model.c_ins c) (Model.c_del c) (Model.c_sub c) in pp_core c m a b d r h.
Proof.
  intros. unfold Model.pair_prefix. destruct (Model.eff_costs _ _ _) as [m [[a b] d]]. reflexivity.
Qed.

(* prefix_ers[j][n] before mult: ref_lens * del_cost for j = 0, else the row after j steps at ref_lens *)
Definition ers_at (ci cd cs : Z) (r h : list Z) (rl hl : nat) (excl : bool) (j : nat) : Z :=
  match j with
  | O => Z.of_nat rl * cd
  | S _ => nth rl (iter_rows_x ci cd cs r h hl excl j 1 (Model.row0 cd r)) 0
  end.

Lemma pp_core_nth : forall c m ci cd cs r h j,
  (j < length h + (if Model.c_excl c then 0 else 1))%nat ->
  let rl := Model.eff_len (Model.c_eos c) (Model.c_incl c) r in
  let hl := Model.eff_len (Model.c_eos c) (Model.c_incl c) h in
  nth j (pp_core c m ci cd cs r h) (Obs.Lit 0) =
  if (hl + (if Model.c_excl c then 0 else 1) <=? j)%nat then Obs.Lit (Model.c_pad c)
  else Model.normalise (Model.c_norm c) rl (ers_at ci cd cs r h rl hl (Model.c_excl c) j * m) (0 <? j)%nat.
Proof.
  intros c m ci cd cs r h j Hj rl hl. unfold pp_core. fold rl. fold hl.
  set (out_len := (length h + (if Model.c_excl c then 0 else 1))%nat) in *.
  set (rows := Model.all_rows ci cd cs r h hl (Model.c_excl c) (out_len - 1)).
  set (ers := Z.of_nat rl * cd :: map (fun row => nth rl row 0) (tl rows)).
  assert (Hrows : length rows = S (out_len - 1)) by (unfold rows; apply Proofs.all_rows_length).
  assert (Hers_len : length ers = S (out_len - 1)).
  { unfold ers. cbn [length]. rewrite map_length, Proofs.length_tl, Hrows. lia. }
  rewrite (Proofs.nth_map2 _ _ _ j 0%nat 0 (Obs.Lit 0)) by (rewrite ?seq_length, ?Hers_len; lia).
  rewrite seq_nth by exact Hj. cbn [Nat.add].
  replace (nth j ers 0) with (ers_at ci cd cs r h rl hl (Model.c_excl c) j); [reflexivity|].
  unfold ers_at, ers. destruct j as [|j]; [reflexivity|]. cbn [nth].
  rewrite (Proofs.nth_map_lt _ _ _ []) by (rewrite Proofs.length_tl, Hrows; lia).
  rewrite Proofs.nth_tl. unfold rows. rewrite all_rows_nth_x by lia. reflexivity.
Qed.

Lemma prefix_value : forall (s : positive) (c : Model.cfg) (R H : nat) (r h : list Z) (j : nat),
  length r = R -> length h = H -> (j < H + (if Model.c_excl c then 0 else 1))%nat ->
  let rlen := Model.eff_len (Model.c_eos c) (Model.c_incl c) r in
  let hlen := Model.eff_len (Model.c_eos c) (Model.c_incl c) h in
  (if (Z.of_nat j >=? Z.of_nat hlen + (if Model.c_excl c then 0 else 1))%Z then z2f (Model.c_pad c)
   else
     let x := fmul (zf (eff_scale s c) (ers_at (eff_ci c) (eff_cd c) (eff_cs c) r h rlen hlen (Model.c_excl c) j))
                   (Fq (eff_mult s c)) in
     if Model.c_norm c
     then (if (Z.of_nat rlen =? 0)%Z then b2f (Z.of_nat j >? 0)%Z else fdiv x (z2f (Z.of_nat rlen)))
     else x)
  = val_fx s (nth j (Model.pair_prefix c r h) (Obs.Lit 0)).
Proof.
  intros s c R H r h j Lr Lh Hj rlen hlen.
  rewrite pair_prefix_core. unfold Model.eff_costs, eff_scale, eff_ci, eff_cd, eff_cs, eff_mult, uniformb.
  replace (Z.of_nat j >=? Z.of_nat hlen + (if Model.c_excl c then 0 else 1))%Z
    with (hlen + (if Model.c_excl c then 0 else 1) <=? j)%nat by (destruct (Model.c_excl c); lia).
  destruct ((Model.c_ins c =? Model.c_del c) && (Model.c_del c =? Model.c_sub c) && (0 <? Model.c_sub c))%Z.
  - rewrite pp_core_nth by (rewrite Lh; exact Hj). fold rlen. fold hlen.
    destruct (hlen + (if Model.c_excl c then 0 else 1) <=? j)%nat; [reflexivity|].
    set (v := ers_at 1 1 1 r h rlen hlen (Model.c_excl c) j). unfold Model.normalise.
    assert (Ex : fmul (zf 1 v) (Fq (qz s (Model.c_ins c))) = zf s (v * Model.c_ins c)).
    { unfold fmul, zf. now rewrite qz_mul_1_s. }
    cbv zeta. rewrite Ex. destruct (Model.c_norm c); [|reflexivity].
    replace (Z.of_nat rlen =? 0)%Z with (Nat.eqb rlen 0) by lia. destruct (Nat.eqb rlen 0) eqn:E0; cbn [val_fx].
    + replace (Z.of_nat j >? 0)%Z with (0 <? j)%nat by lia. destruct (0 <? j)%nat; reflexivity.
    + unfold fdiv, zf, z2f. replace (Qeq_bool (inject_Z (Z.of_nat rlen)) 0) with false; [reflexivity|].
      symmetry. apply not_true_is_false. intros E. apply Qeq_bool_iff in E. unfold Qeq in E. cbn in E. lia.
  - rewrite pp_core_nth by (rewrite Lh; exact Hj). fold rlen. fold hlen.
    destruct (hlen + (if Model.c_excl c then 0 else 1) <=? j)%nat; [reflexivity|].
    set (v := ers_at (Model.c_ins c) (Model.c_del c) (Model.c_sub c) r h rlen hlen (Model.c_excl c) j). unfold Model.normalise.
    assert (Ex : fmul (zf s v) (Fq 1) = zf s (v * 1)).
    { unfold fmul, zf. rewrite qz_mul_s_1. now rewrite Z.mul_1_r. }
    cbv zeta. rewrite Ex. destruct (Model.c_norm c); [|reflexivity].
    replace (Z.of_nat rlen =? 0)%Z with (Nat.eqb rlen 0) by lia. destruct (Nat.eqb rlen 0) eqn:E0; cbn [val_fx].
    + replace (Z.of_nat j >? 0)%Z with (0 <? j)%nat by lia. destruct (0 <? j)%nat; reflexivity.
    + unfold fdiv, zf, z2f. replace (Qeq_bool (inject_Z (Z.of_nat rlen)) 0) with false; [reflexivity|].
      symmetry. apply not_true_is_false. intros E. apply Qeq_bool_iff in E. unfold Qeq in E. cbn in E. lia.
Qed.
