(* C15 — lemmas, part 3: for ANY print/read rounding of the rate, a restart changes nothing but
   learning-rate fields (the exact extent of known finding K4) *)
From Coq Require Import List ZArith QArith Bool Lia.
From PV Require Import C15.Model C15.Spec C15.Proofs C15.Restart.
Import ListNotations.
Local Open Scope Z_scope.

Definition strip_row (r : row) : row :=
  mkRow (r_epoch r) (r_esres r) (r_espcd r) (r_rlrres r) (r_rlrpcd r) None (r_train r) (r_val r) (r_user r).
Definition strip_crow (c : crow) : crow :=
  mkCrow (c_epoch c) (c_esres c) (c_espcd c) (c_rlrres c) (c_rlrpcd c) 0%Q (c_train c) (c_val c) (c_user c).
Definition strip_obs (o : obs) : obs :=
  match o with OOk c ct _ info => OOk c ct 0%Q (strip_row info) | OErr e => OErr e end.

Definition SEq (a b : state) : Prop :=
  map strip_row (cache a) = map strip_row (cache b) /\
  map strip_crow (csv a) = map strip_crow (csv b) /\
  map fst (ckpt a) = map fst (ckpt b).

Definition WS (rd : Q -> Q) (p : params) (decl : list (nat * ukind)) (st : state) : Prop :=
  exists rs, parse_rows rd decl (csv st) = Some rs /\
             map strip_row (cache st) = map strip_row (row0 p :: rs) /\
             (rs <> [] -> In (last_epoch (cache st)) (map fst (ckpt st))).

Lemma last_epoch_map : forall c1 c2, map strip_row c1 = map strip_row c2 -> last_epoch c1 = last_epoch c2.
Proof.
  intros c1 c2 H. unfold last_epoch. apply (f_equal (@List.length row)) in H. rewrite !map_length in H. lia.
Qed.

Lemma hget_map : forall c1 c2 i, map strip_row c1 = map strip_row c2 ->
  option_map strip_row (hget c1 i) = option_map strip_row (hget c2 i).
Proof.
  intros c1 c2 i H. unfold hget. destruct (i <? 0); [reflexivity|].
  rewrite <- !nth_error_map, H. reflexivity.
Qed.

Lemma lookup_in : forall k l, In k (map fst l) -> exists q, lookup k l = Some q.
Proof.
  induction l as [|[k' v] t IH]; intros H; [destruct H|]. cbn in *.
  destruct (Z.eqb_spec k k'); [eauto|]. destruct H as [H|H]; [congruence|auto].
Qed.

Lemma strip_fields : forall a b, strip_row a = strip_row b ->
  r_epoch a = r_epoch b /\ r_esres a = r_esres b /\ r_espcd a = r_espcd b /\ r_rlrres a = r_rlrres b /\
  r_rlrpcd a = r_rlrpcd b /\ r_train a = r_train b /\ r_val a = r_val b /\ r_user a = r_user b.
Proof. intros a b H. unfold strip_row in H. inversion H. repeat split; auto. Qed.

Lemma hget_val : forall c1 c2 i, map strip_row c1 = map strip_row c2 ->
  match hget c1 i, hget c2 i with
  | Some a, Some b => strip_row a = strip_row b
  | None, None => True
  | _, _ => False
  end.
Proof.
  intros c1 c2 i H. pose proof (hget_map c1 c2 i H) as E.
  destruct (hget c1 i), (hget c2 i); unfold option_map in E; try congruence; auto.
Qed.

Lemma es_step_strip : forall p c1 c2 a b e v,
  map strip_row c1 = map strip_row c2 -> strip_row a = strip_row b ->
  es_step p c1 a e v = es_step p c2 b e v.
Proof.
  intros p c1 c2 a b e v Hc Hab. destruct (strip_fields _ _ Hab) as (_ & E1 & E2 & _).
  unfold es_step. rewrite E1, E2.
  pose proof (hget_val c1 c2 (e - es_pat p + r_espcd b - 1) Hc) as Hv.
  destruct (hget c1 _) as [x|], (hget c2 _) as [y|]; try contradiction; [|reflexivity].
  destruct (strip_fields _ _ Hv) as (_ & _ & _ & _ & _ & _ & Ev & _). rewrite Ev. reflexivity.
Qed.

Definition cds (x : option (Z * Z * Q * Q)) : option (Z * Z) :=
  match x with Some (a, b, _, _) => Some (a, b) | None => None end.

Lemma rlr_step_strip : forall p c1 c2 a b e v l1 o1 l2 o2,
  map strip_row c1 = map strip_row c2 -> strip_row a = strip_row b ->
  cds (rlr_step p c1 a e v l1 o1) = cds (rlr_step p c2 b e v l2 o2).
Proof.
  intros p c1 c2 a b e v l1 o1 l2 o2 Hc Hab. destruct (strip_fields _ _ Hab) as (_ & _ & _ & E1 & E2 & _).
  unfold rlr_step. rewrite E1, E2.
  pose proof (hget_val c1 c2 (e - rlr_pat p + r_rlrpcd b - 1) Hc) as Hv.
  destruct (nonzero (r_rlrres b)); [reflexivity|].
  destruct (hget c1 _) as [x|], (hget c2 _) as [y|]; try contradiction; [|reflexivity].
  destruct (strip_fields _ _ Hv) as (_ & _ & _ & _ & _ & _ & Ev & _). rewrite Ev.
  destruct (below (r_val y) v (rlr_thr p)); [|reflexivity].
  destruct (nonzero (r_rlrpcd b - 1)); [reflexivity|].
  destruct (Qlt_b _ _), (Qlt_b _ _); reflexivity.
Qed.

Lemma ct_strip : forall p a b, map strip_row (cache a) = map strip_row (cache b) ->
  continue_training p a = continue_training p b.
Proof.
  intros p a b H. unfold continue_training. rewrite (last_epoch_map _ _ H).
  pose proof (hget_val (cache a) (cache b) (last_epoch (cache b)) H) as Hv.
  destruct (hget (cache a) _) as [x|], (hget (cache b) _) as [y|]; try contradiction; [|reflexivity].
  destruct (strip_fields _ _ Hv) as (_ & _ & E & _). rewrite E. reflexivity.
Qed.

Lemma last_row_strip : forall p a b, map strip_row (cache a) = map strip_row (cache b) ->
  strip_row (match hget (cache a) (last_epoch (cache a)) with Some r => r | None => row0 p end)
  = strip_row (match hget (cache b) (last_epoch (cache b)) with Some r => r | None => row0 p end).
Proof.
  intros p a b H. rewrite (last_epoch_map _ _ H).
  pose proof (hget_val (cache a) (cache b) (last_epoch (cache b)) H) as Hv.
  destruct (hget (cache a) _), (hget (cache b) _); try contradiction; auto.
Qed.

(* update_for_epoch on two states that agree up to rates: same exception, or same return value and
   again agreement up to rates *)
Lemma update_strip : forall rnd p decl dflt a b tr v kw,
  SEq a b ->
  match update rnd p decl dflt a tr v kw, update rnd p decl dflt b tr v kw with
  | inl e1, inl e2 => e1 = e2
  | inr (c1, a'), inr (c2, b') => c1 = c2 /\ SEq a' b'
  | _, _ => False
  end.
Proof.
  intros rnd p decl dflt a b tr v kw (Hc & Hf & Hk).
  unfold update. rewrite (last_epoch_map _ _ Hc).
  pose proof (hget_val (cache a) (cache b) (last_epoch (cache b) + 1 - 1) Hc) as Hv.
  destruct (hget (cache a) _) as [x|], (hget (cache b) _) as [y|]; try contradiction; [|reflexivity].
  destruct (check_kwargs decl kw); [reflexivity|].
  destruct (collect decl kw) as [u|]; [|reflexivity].
  rewrite (es_step_strip p _ _ x y _ v Hc Hv).
  destruct (es_step p (cache b) y (last_epoch (cache b) + 1) v) as [[esres espcd]|]; [|reflexivity].
  pose proof (rlr_step_strip p _ _ x y (last_epoch (cache b) + 1) v
                (match r_lr x with Some l => l | None => dflt end) (opt a)
                (match r_lr y with Some l => l | None => dflt end) (opt b) Hc Hv) as Hr.
  destruct (rlr_step p (cache a) x _ v _ (opt a)) as [[[[r1 q1] l1] o1]|],
           (rlr_step p (cache b) y _ v _ (opt b)) as [[[[r2 q2] l2] o2]|]; cbn in Hr; try discriminate; [|reflexivity].
  injection Hr as -> ->. split; [reflexivity|].
  unfold SEq. cbn [cache csv ckpt]. rewrite !map_app, Hc, Hf. cbn [map fst]. rewrite Hk. auto.
Qed.

Lemma restart_ws : forall rd p decl dflt st, WS rd p decl st ->
  exists st', restart rd p decl dflt st = inr st' /\ SEq st' st /\ WS rd p decl st'.
Proof.
  intros rd p decl dflt st (rs & Hp & Hc & Hk). unfold restart. rewrite Hp.
  assert (Hle : last_epoch (row0 p :: rs) = last_epoch (cache st)) by (symmetry; apply last_epoch_map; exact Hc).
  destruct rs as [|r rs'].
  - cbn [last_epoch List.length]. change (Z.of_nat 1 - 1 =? 0) with true. cbv iota.
    eexists. split; [reflexivity|]. split.
    + unfold SEq. cbn [cache csv ckpt]. auto.
    + exists []. cbn [cache csv ckpt]. repeat split; auto. congruence.
  - assert (Hne : last_epoch (row0 p :: r :: rs') =? 0 = false).
    { apply Z.eqb_neq. unfold last_epoch. cbn [List.length]. lia. }
    rewrite Hne. destruct (lookup_in (last_epoch (row0 p :: r :: rs')) (ckpt st)) as (q & Hq).
    { rewrite Hle. apply Hk. discriminate. }
    rewrite Hq. eexists. split; [reflexivity|]. split.
    + unfold SEq. cbn [cache csv ckpt]. auto.
    + exists (r :: rs'). cbn [cache csv ckpt]. repeat split; auto. intros _. rewrite Hle. apply Hk. discriminate.
Qed.

Lemma update_ws : forall rnd rd p decl dflt st tr v kw c st',
  NoDup (map fst decl) -> WS rd p decl st -> update rnd p decl dflt st tr v kw = inr (c, st') -> WS rd p decl st'.
Proof.
  intros rnd rd p decl dflt st tr v kw c st' Hnd (rs & Hp & Hc & _) Hu.
  destruct (update_inv _ _ _ _ _ _ _ _ _ _ Hu) as (esres & espcd & rres & rpcd & l & u & Hst & Hck & Hcol).
  cbn zeta in Hst. set (e := last_epoch (cache st) + 1) in *.
  destruct (parse_cells_print decl kw Hck decl u (fun n k H => declared_in decl n k Hnd H) Hcol) as (Hpc & _).
  exists (rs ++ [mkRow e esres espcd rres rpcd (Some (rd (rnd l))) (Some tr) (Some v) u]).
  rewrite Hst. cbn [cache csv ckpt]. split; [|split].
  - apply parse_rows_snoc; auto. unfold parse_row. cbn [c_user c_epoch c_esres c_espcd c_rlrres c_rlrpcd c_lr c_train c_val].
    rewrite Hpc. reflexivity.
  - rewrite map_app, Hc. cbn [map]. rewrite map_app. reflexivity.
  - intros _. rewrite last_epoch_snoc. fold e. cbn [map fst]. left. reflexivity.
Qed.

Lemma restart_only_rate_differs_from : forall rnd rd p decl dflt steps a b,
  NoDup (map fst decl) -> SEq a b -> WS rd p decl a -> WS rd p decl b ->
  map strip_obs (fst (run rnd rd p decl dflt a steps))
  = map strip_obs (fst (run rnd rd p decl dflt b (clear_restarts steps))) /\
  SEq (snd (run rnd rd p decl dflt a steps)) (snd (run rnd rd p decl dflt b (clear_restarts steps))).
Proof.
  intros rnd rd p decl dflt steps. induction steps as [|s t IH]; intros a b Hnd Hab Ha Hb; [cbn; auto|].
  cbn [clear_restarts map run s_restart s_train s_val s_kw]. fold (clear_restarts t).
  assert (H1 : exists a1, (if s_restart s then restart rd p decl dflt a else inr a) = inr a1 /\ SEq a1 b /\ WS rd p decl a1).
  { destruct (s_restart s); [|eauto].
    destruct (restart_ws rd p decl dflt a Ha) as (a1 & R1 & R2 & R3). exists a1. split; [exact R1|]. split; [|exact R3].
    destruct R2 as (X & Y & Z), Hab as (X' & Y' & Z'). unfold SEq. repeat split; congruence. }
  destruct H1 as (a1 & -> & Hab1 & Ha1).
  pose proof (update_strip rnd p decl dflt a1 b (s_train s) (s_val s) (s_kw s) Hab1) as Hu.
  destruct (update rnd p decl dflt a1 (s_train s) (s_val s) (s_kw s)) as [e1|[c1 a2]] eqn:U1,
           (update rnd p decl dflt b (s_train s) (s_val s) (s_kw s)) as [e2|[c2 b2]] eqn:U2; try contradiction.
  - subst e2. destruct (IH a1 b Hnd Hab1 Ha1 Hb) as [I1 I2].
    destruct (run rnd rd p decl dflt a1 t), (run rnd rd p decl dflt b (clear_restarts t)). cbn [fst snd map] in *.
    rewrite I1. auto.
  - destruct Hu as [-> Hab2].
    pose proof (update_ws _ _ _ _ _ _ _ _ _ _ _ Hnd Ha1 U1) as Ha2.
    pose proof (update_ws _ _ _ _ _ _ _ _ _ _ _ Hnd Hb U2) as Hb2.
    destruct (IH a2 b2 Hnd Hab2 Ha2 Hb2) as [I1 I2].
    destruct (run rnd rd p decl dflt a2 t), (run rnd rd p decl dflt b2 (clear_restarts t)). cbn [fst snd map] in *.
    rewrite I1. split; [|exact I2]. cbn [strip_obs]. destruct Hab2 as (X & _).
    rewrite (ct_strip p a2 b2 X), (last_row_strip p a2 b2 X). reflexivity.
Qed.

Lemma WS_init : forall rd p decl dflt, WS rd p decl (init_state p dflt).
Proof. intros. exists []. cbn. repeat split; auto; congruence. Qed.

Lemma restart_only_rate_differs : forall rnd rd p decl dflt steps,
  NoDup (map fst decl) ->
  let a := run rnd rd p decl dflt (init_state p dflt) steps in
  let b := run rnd rd p decl dflt (init_state p dflt) (clear_restarts steps) in
  map strip_obs (fst a) = map strip_obs (fst b) /\
  map strip_row (cache (snd a)) = map strip_row (cache (snd b)) /\
  map strip_crow (csv (snd a)) = map strip_crow (csv (snd b)).
Proof.
  intros rnd rd p decl dflt steps Hnd a b.
  destruct (restart_only_rate_differs_from rnd rd p decl dflt steps (init_state p dflt) (init_state p dflt) Hnd)
    as (H1 & H2 & H3 & _); auto using WS_init.
  unfold SEq. auto.
Qed.
