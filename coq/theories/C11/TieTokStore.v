(* C11 source tie - transcript_to_token: the token id ([id_tie]: token2id / unk resolution = the model's) and the stores into
   the long tensor ([store_tie]: tok[i] = id_ / tok[i, 0..2] = id_, start, end through MiniTorch.OpsC11.set1 / set2; a str id
   raises TypeError).  Same technique as TieTokTry: concrete prefix of persistent variables, arbitrary tail. *)
From Coq Require Import ZArith QArith Qround List String Ascii Bool Lia.
From PV Require C11.Spec.
From PV Require Import C11.Model MiniPy.Syntax MiniPy.Interp MiniPy.Lemmas MiniTorch.OpsC11 Gen.C11Src C11.SrcRun C11.TieBase
  C11.TieTokTry.
Import ListNotations.
Local Open Scope string_scope.

#[local] Arguments Z.of_nat : simpl never.
#[local] Arguments qtrunc : simpl never.
#[local] Arguments dec_lt : simpl never.
#[local] Arguments set1 : simpl never.
#[local] Arguments set2 : simpl never.

Definition tk_id : stmt :=
  match tk_body with SSeq _ (SSeq _ (SSeq _ (SSeq _ (SSeq i _)))) => i | _ => SPass end.
Definition tk_store : stmt :=
  match tk_body with SSeq _ (SSeq _ (SSeq _ (SSeq _ (SSeq _ s)))) => s | _ => SPass end.

(* ---- token ids ----------------------------------------------------------------------------------------------------------- *)
Lemma val_eqb_enc_tk a b : val_eqb (enc_tk a) (enc_tk b) = tk_eqb a b.
Proof.
  destruct a as [x|x], b as [y|y]; cbn [enc_tk tk_eqb]; try reflexivity.
  all: try (unfold enc_str; destruct x; reflexivity).
  apply val_eqb_enc_str.
Qed.

Lemma t2i_get t (l : list (tk * Z)) :
  dict_get (map (fun kv => (enc_tk (fst kv), VInt (snd kv))) l) (enc_tk t) = option_map VInt (assoc tk_eqb t l).
Proof. exact (al_get tk_eqb enc_tk VInt val_eqb_enc_tk t l). Qed.

(* the model's id of a token, [unk'] being the resolved out-of-vocabulary id *)
Definition id_of (t2i : option (list (tk * Z))) (unk' : option tk) (t : tk) : tk :=
  match t2i with
  | None => t
  | Some d => match assoc tk_eqb t d with
              | Some i => TInt i
              | None => match unk' with None => t | Some u => u end
              end
  end.

Lemma id_tie TR t2i FS unk' skip SZ TOK t rest evs :
  lookup "token" rest = Some (enc_tk t) ->
  exists rest',
    exec ext11 tk_id (mkState (kbase TR (enc_t2i t2i) FS (enc_unk unk') skip SZ TOK ++ rest) evs)
    = Ok CNormal (mkState (kbase TR (enc_t2i t2i) FS (enc_unk unk') skip SZ TOK ++ rest') evs) /\
    lookup "id_" rest' = Some (enc_tk (id_of t2i unk' t)) /\
    lookup "i" rest' = lookup "i" rest /\ lookup "start" rest' = lookup "start" rest /\
    lookup "end" rest' = lookup "end" rest.
Proof.
  intros Ht. unfold tk_id, tk_body, src_to_token, kbase, id_of.
  destruct t2i as [d|]; unfold enc_t2i.
  - destruct unk' as [u|]; unfold enc_unk.
    + destruct u as [x|x]; cbn [enc_tk]; unfold enc_str.
      all: norm_with ltac:(rewrite ?Ht, ?t2i_get).
      all: destruct (assoc tk_eqb t d); eexists; (split; [reflexivity|]); repeat split; lk; reflexivity.
    + norm_with ltac:(rewrite ?Ht, ?t2i_get).
      destruct (assoc tk_eqb t d); eexists; (split; [reflexivity|]); repeat split; lk; reflexivity.
  - norm_with ltac:(rewrite ?Ht). eexists; (split; [reflexivity|]); repeat split; lk; reflexivity.
Qed.

(* ---- the tensor ------------------------------------------------------------------------------------------------------------ *)
Lemma all_some_cells l : all_some (map dec_cell (map enc_cell l)) = Some l.
Proof.
  induction l as [|c l IH]; [reflexivity|]. cbn [map all_some].
  destruct c as [z|]; cbn [enc_cell dec_cell]; rewrite IH; reflexivity.
Qed.

Lemma dec_enc_T1 l : dec_lt (enc_lt (T1 l)) = Some (T1 l).
Proof. unfold dec_lt, enc_lt. rewrite all_some_cells. reflexivity. Qed.

Lemma all_some_rows rows :
  all_some (map dec_row (map (fun r => VTuple (map enc_cell r)) rows)) = Some rows.
Proof.
  induction rows as [|r rows IH]; [reflexivity|]. cbn [map all_some dec_row].
  rewrite all_some_cells, IH. reflexivity.
Qed.

Lemma dec_enc_T2 r rows : dec_lt (enc_lt (T2 (r :: rows))) = Some (T2 (r :: rows)).
Proof.
  unfold dec_lt, enc_lt. cbn [map all_some dec_cell dec_row].
  rewrite all_some_cells, all_some_rows. reflexivity.
Qed.

Lemma pos_of_mid {A} (done : list A) c todo :
  pos_of (Z.of_nat (List.length done)) (List.length (done ++ c :: todo)) = Some (List.length done).
Proof.
  unfold pos_of. rewrite app_length. cbn [List.length].
  destruct (Z.ltb_spec (Z.of_nat (List.length done)) 0); [lia|].
  destruct (Z.leb_spec 0 (Z.of_nat (List.length done))); [|lia].
  destruct (Z.ltb_spec (Z.of_nat (List.length done)) (Z.of_nat (List.length done + S (List.length todo)))); [|lia].
  cbn [andb]. rewrite Nat2Z.id. reflexivity.
Qed.

Lemma set_nth_mid {A} (done : list A) c todo x : set_nth (done ++ c :: todo) (List.length done) x = (done ++ x :: todo)%list.
Proof. induction done as [|d done IH]; [reflexivity|]. cbn [app List.length set_nth]. rewrite IH. reflexivity. Qed.

Lemma nth_mid {A} (done : list A) c todo dflt : nth (List.length done) (done ++ c :: todo) dflt = c.
Proof. induction done as [|d done IH]; [reflexivity|]. exact IH. Qed.

Lemma set1_mid done c todo v :
  set1 (T1 (done ++ c :: todo)) (Z.of_nat (List.length done)) v = Some (T1 (done ++ Some v :: todo)).
Proof. unfold set1. rewrite pos_of_mid, set_nth_mid. reflexivity. Qed.

Lemma set2_mid0 done (c0 c1 c2 : cell) todo v :
  set2 (T2 (done ++ [c0; c1; c2] :: todo)) (Z.of_nat (List.length done)) 0 v
  = Some (T2 (done ++ [Some v; c1; c2] :: todo)).
Proof.
  unfold set2. rewrite pos_of_mid, nth_mid. change (pos_of 0 (List.length [c0; c1; c2])) with (Some 0%nat).
  cbv iota beta. rewrite set_nth_mid. reflexivity.
Qed.
Lemma set2_mid1 done (c0 c1 c2 : cell) todo v :
  set2 (T2 (done ++ [c0; c1; c2] :: todo)) (Z.of_nat (List.length done)) 1 v
  = Some (T2 (done ++ [c0; Some v; c2] :: todo)).
Proof.
  unfold set2. rewrite pos_of_mid, nth_mid. change (pos_of 1 (List.length [c0; c1; c2])) with (Some 1%nat).
  cbv iota beta. rewrite set_nth_mid. reflexivity.
Qed.
Lemma set2_mid2 done (c0 c1 c2 : cell) todo v :
  set2 (T2 (done ++ [c0; c1; c2] :: todo)) (Z.of_nat (List.length done)) 2 v
  = Some (T2 (done ++ [c0; c1; Some v] :: todo)).
Proof.
  unfold set2. rewrite pos_of_mid, nth_mid. change (pos_of 2 (List.length [c0; c1; c2])) with (Some 2%nat).
  cbv iota beta. rewrite set_nth_mid. reflexivity.
Qed.

(* a tensor with at least one row decodes to itself *)
Lemma dec_enc_T2_mid done r todo : dec_lt (enc_lt (T2 (done ++ r :: todo))) = Some (T2 (done ++ r :: todo)).
Proof. destruct done as [|d done]; apply dec_enc_T2. Qed.

Lemma dec_T1' l : dec_lt (VTuple (map enc_cell l)) = Some (T1 l).
Proof. exact (dec_enc_T1 l). Qed.
Lemma dec_T2' done r todo :
  dec_lt (VTuple (map (fun r0 : list cell => VTuple (map enc_cell r0)) (done ++ r :: todo)))
  = Some (T2 (done ++ r :: todo)).
Proof. exact (dec_enc_T2_mid done r todo). Qed.

(* ---- the stores ------------------------------------------------------------------------------------------------------------- *)
Lemma app_cons_mid {A} (done : list A) x todo : (done ++ x :: todo = (done ++ [x]) ++ todo)%list.
Proof. rewrite <- app_assoc. reflexivity. Qed.

Lemma store_tie_skip TR T2I FS UNK SZ done c todo rest evs idt :
  lookup "i" rest = Some (VInt (Z.of_nat (List.length done))) -> lookup "id_" rest = Some (enc_tk idt) ->
  let st := mkState (kbase TR T2I FS UNK true SZ (enc_lt (T1 (done ++ c :: todo))) ++ rest) evs in
  match idt with
  | TInt z => exec ext11 tk_store st
              = Ok CNormal (mkState (kbase TR T2I FS UNK true SZ (enc_lt (T1 (done ++ Some z :: todo))) ++ rest) evs)
  | TStr _ => exists st', exec ext11 tk_store st = Exc "TypeError" st'
  end.
Proof.
  intros Hi Hid. cbv zeta. unfold tk_store, tk_body, src_to_token, kbase.
  destruct idt as [z|s]; cbn [enc_tk] in Hid.
  - norm_with ltac:(rewrite ?Hi, ?Hid, ?dec_T1', ?set1_mid). reflexivity.
  - unfold enc_str in Hid. norm_with ltac:(rewrite ?Hi, ?Hid, ?dec_T1'). eexists. reflexivity.
Qed.

Lemma store_tie_full TR T2I FS UNK SZ done c0 c1 c2 todo rest evs idt sv ev sf ef :
  lookup "i" rest = Some (VInt (Z.of_nat (List.length done))) -> lookup "id_" rest = Some (enc_tk idt) ->
  lookup "start" rest = Some sv -> lookup "end" rest = Some ev -> to_long sv = Some sf -> to_long ev = Some ef ->
  let st := mkState (kbase TR T2I FS UNK false SZ (enc_lt (T2 (done ++ [c0; c1; c2] :: todo))) ++ rest) evs in
  match idt with
  | TInt z => exec ext11 tk_store st
              = Ok CNormal (mkState (kbase TR T2I FS UNK false SZ
                                       (enc_lt (T2 (done ++ [Some z; Some sf; Some ef] :: todo))) ++ rest) evs)
  | TStr _ => exists st', exec ext11 tk_store st = Exc "TypeError" st'
  end.
Proof.
  intros Hi Hid Hs He Hsf Hef. cbv zeta. unfold tk_store, tk_body, src_to_token, kbase.
  destruct idt as [z|s]; cbn [enc_tk] in Hid.
  - norm_with ltac:(rewrite ?Hi, ?Hid, ?Hs, ?He, ?Hsf, ?Hef, ?dec_T2', ?set2_mid0, ?set2_mid1, ?set2_mid2).
    reflexivity.
  - unfold enc_str in Hid.
    norm_with ltac:(rewrite ?Hi, ?Hid, ?Hs, ?He, ?Hsf, ?Hef, ?dec_T2'). eexists. reflexivity.
Qed.
