(* C01 - the blocks of `_string_matching` around the loop, for the plain edit-distance configuration: row 0 and
   del_mat (sm_row0), the loop with the gather at ref_lens (sm_main), `mult` and the normalisation (sm_fin), and the
   preamble with the length inference (sm_pre).  Each lemma: from a description of the state ([known st l]: the
   listed variables hold the listed values) the interpreted block runs to a state described by the next list. *)
From Coq Require Import ZArith QArith List String Bool Arith Lia ZifyBool ZifyNat.
From PV Require Import MiniPy.Syntax MiniPy.Interp MiniPy.Lemmas MiniTorch.Ops MiniTorch.Lemmas MiniTorch.OpsC07 MiniTorch.LemmasC07
  MiniTorch.OpsC01 MiniTorch.LemmasC01.
From PV Require Import Gen.C01Src C01.SrcRun C01.TieLib C01.TieMath C01.TieLoop.
From PV Require C01.Model C01.Proofs.
Import ListNotations.
Local Open Scope string_scope.

#[local] Arguments dec01 : simpl never.
#[local] Arguments enc_b : simpl never.
#[local] Arguments enc_i : simpl never.
#[local] Arguments enc_x : simpl never.
#[local] Arguments tab2 : simpl never.
#[local] Arguments tab3 : simpl never.
#[local] Arguments qz : simpl never.
#[local] Arguments Z.add : simpl never.
#[local] Arguments Z.sub : simpl never.
#[local] Arguments Z.of_nat : simpl never.
#[local] Arguments select0 : simpl never.
#[local] Arguments slice0 : simpl never.
#[local] Arguments set_slice0 : simpl never.
#[local] Arguments broadcast : simpl never.
#[local] Arguments where_f : simpl never.
#[local] Arguments min_dim : simpl never.
#[local] Arguments gather0 : simpl never.
#[local] Arguments unsqueeze : simpl never.
#[local] Arguments squeeze_dim : simpl never.
#[local] Arguments expand2 : simpl never.
#[local] Arguments triu_f : simpl never.
#[local] Arguments transpose2 : simpl never.
#[local] Arguments arange_f : simpl never.
#[local] Arguments full : simpl never.
#[local] Arguments fadd : simpl never.
#[local] Arguments fsub : simpl never.
#[local] Arguments fmul : simpl never.
#[local] Arguments fdiv : simpl never.
#[local] Arguments fmin : simpl never.
#[local] Arguments b2f : simpl never.
#[local] Arguments z2f : simpl never.

#[local] Arguments ext01 : simpl never.
#[local] Arguments zf : simpl never.
#[local] Arguments ofx : simpl never.
#[local] Arguments argmin_3 : simpl never.
#[local] Arguments seq : simpl never.
#[local] Arguments fmin_list : simpl never.
#[local] Arguments zrange : simpl never.

(* the listed variables hold the listed values *)
Fixpoint known (st : state) (l : list (string * val)) : Prop :=
  match l with
  | [] => True
  | (x, v) :: r => lookup x (vars st) = Some v /\ known st r
  end.

Ltac open_known H := cbn [known app] in H; repeat match type of H with _ /\ _ => let L := fresh "K" in destruct H as [L H] end; clear H.
Ltac close_known := cbn [known app]; repeat split; try assumption.

Definition returns (v : val) (o : outcome ctl) : Prop := exists st', o = Ok (CReturn v) st'.

Lemma runs_to_seq : forall (P Q : state -> Prop) a b st,
  runs_to P (exec ext01 a st) -> (forall st1, P st1 -> runs_to Q (exec ext01 b st1)) ->
  runs_to Q (exec ext01 (SSeq a b) st).
Proof. intros P Q a b st [st1 [He P1]] Hb. cbn [exec]. rewrite He. cbn [bind]. now apply Hb. Qed.

Definition torch_module : val := VDict [(VStr "long", long_token); (VStr "float", float_token); (VStr "bool", bool_token)].

Definition lens_tensor (N : nat) (l : nat -> nat) : val := enc_i (mkTn [N] (map (fun n => Z.of_nat (l n)) (seq 0 N))).

(* after the preamble: flags of the plain configuration, time-major tensors, sizes, effective costs over the
   denominator s, mult, the lengths *)
Definition stageA (s : positive) (ci cd cs : Z) (mult : Q) (R N H : nat) (rf hf : nat -> nat -> Z) (rl hl : nat -> nat)
  (nm w : bool) : list (string * val) :=
  [("exclude_last", VBool false); ("return_mistakes", VBool false); ("return_mask", VBool false);
   ("return_prf_dsts", VBool false); ("norm", VBool nm); ("warn", VBool w);
   ("ref", enc_i (mkTn [R; N] (tab2 R N rf))); ("hyp", enc_i (mkTn [H; N] (tab2 H N hf)));
   ("max_ref_steps", VInt (Z.of_nat R)); ("batch_size", VInt (Z.of_nat N)); ("max_hyp_steps", VInt (Z.of_nat H));
   ("device", device_token); ("torch", torch_module);
   ("ins_cost", VQ (qz s ci)); ("del_cost", VQ (qz s cd)); ("sub_cost", VQ (qz s cs)); ("mult", VQ mult);
   ("ref_lens", lens_tensor N rl); ("hyp_lens", lens_tensor N hl)].

Definition stageB (s : positive) (cd : Z) (R N : nat) : list (string * val) :=
  [("del_mat", enc_x (mkTn [S R; S R; 1%nat] (tab2 (S R) (S R) (fun i j => ofx s (C01.Model.del_entry cd i j)))));
   ("row", enc_x (mkTn [S R; N] (tab2 (S R) N (fun i _ => zf s (Z.of_nat i * cd)))))].

Section Blocks.
  Variables (s : positive) (ci cd cs : Z) (mult : Q) (R N H : nat) (rf hf : nat -> nat -> Z) (rl hl : nat -> nat) (nm w : bool).
  Notation A := (stageA s ci cd cs mult R N H rf hf rl hl nm w).

  Lemma row0_run : forall st, known st A -> runs_to (fun st' => known st' (A ++ stageB s cd R N)) (exec ext01 sm_row0 st).
  Proof.
    intros st K. unfold stageA in K. open_known K. unfold sm_row0.
    assign_open. evn. Show.
  Abort.
End Blocks.
