(* MiniTorch, unit C02Src — the algebra of OpsC02.v needed by the C02 tie (no new definitions of meaning):
   the comparison of floats that are integers over a common denominator, and the assignment of one row
   of a tabulated matrix. *)
From Coq Require Import List ZArith QArith Bool Arith Lia ZifyBool ZifyNat.
From PV Require Import MiniPy.Syntax MiniTorch.Ops MiniTorch.Lemmas MiniTorch.OpsC07 MiniTorch.LemmasC07 MiniTorch.OpsC01
  MiniTorch.LemmasC01 MiniTorch.OpsC02.
Import ListNotations.
Local Open Scope nat_scope.

Lemma fge_qz : forall s a b, fge (Fq (qz s a)) (Fq (qz s b)) = (b <=? a)%Z.
Proof. intros. unfold fge. apply qz_le. Qed.

(* rows a.. and rows ..a of a tabulated matrix, glued *)
Lemma tab2_app : forall {X} a b I (f : nat -> nat -> X),
  tab2 (a + b) I f = tab2 a I f ++ tab2 b I (fun i j => f (a + i) j).
Proof.
  intros X a b I f. rewrite <- (firstn_skipn (a * I) (tab2 (a + b) I f)).
  now rewrite firstn_tab2, skipn_tab2.
Qed.

(* x[t] = v on (A x B), v a vector of B entries *)
Lemma set_select0_mat : forall {X} A B (f : nat -> nat -> X) (g : nat -> X) (t : nat), t < A ->
  set_select0 (mkTn [A; B] (tab2 A B f)) (Z.of_nat t) (mkTn [B] (map g (seq 0 B))) =
  Some (Some (mkTn [A; B] (tab2 A B (fun i j => if i =? t then g j else f i j)))).
Proof.
  intros X A B f g t Ht. unfold set_select0. cbn [shp dat numel].
  replace (Z.of_nat t <? 0)%Z with false by lia.
  replace ((0 <=? Z.of_nat t) && (Z.of_nat t <? Z.of_nat A))%Z with true by lia.
  rewrite Nat2Z.id. cbn [nats_eqb]. rewrite Nat.eqb_refl, length_row, Nat.eqb_refl. cbn [andb].
  do 3 f_equal.
  replace A with (t + S (A - S t)) by lia.
  rewrite firstn_tab2.
  replace (S t * B) with ((t + 1) * B) by lia.
  replace (t + S (A - S t)) with ((t + 1) + (A - S t)) at 1 by lia.
  rewrite skipn_tab2.
  rewrite (tab2_app t (S (A - S t)) B), tab2_S. f_equal; [|f_equal].
  - apply tab2_ext. intros i j Hi Hj. replace (i =? t) with false by lia. reflexivity.
  - apply map_ext. intros j. replace (t + 0 =? t) with true by lia. reflexivity.
  - apply tab2_ext. intros i j Hi Hj. replace (t + S i =? t) with false by lia. f_equal. lia.
Qed.

(* torch.where on three (A x B) tensors *)
Lemma where_same2 : forall A B c g h,
  where_f (mkTn [A; B] (tab2 A B c)) (mkTn [A; B] (tab2 A B g)) (mkTn [A; B] (tab2 A B h)) =
  Some (mkTn [A; B] (tab2 A B (fun i j => if c i j then g i j else h i j))).
Proof. intros. unfold where_f. rewrite !broadcast_same2. reflexivity. Qed.
