(* C06 — build_trie_ok, part 6: putting the layers together.
   [build_trie_ok]: for every well-formed list of dictionaries the buffers returned by the
   model of _build_trie represent the caller's table ([TrieOK], with the start symbol renamed
   when it is out of vocabulary) under the constants the model returns. *)
From Coq Require Import List ZArith Bool Arith Lia ZifyBool ZifyNat Permutation Sorted.
From PV Require Import C06.Model C06.Spec C06.Proofs C06.BuildBase C06.BuildSort C06.BuildLevels
  C06.BuildDescent C06.BuildClosure.
Import ListNotations.
Local Open Scope Z_scope.

(* ---------- build_trie after its checks and closure, as a function of the closed dictionaries ---------- *)

Definition build_tail (V s : Z) (N : nat) (G U O I P : Z) (uni : dict) (higher : list dict)
  : option built :=
  let one_mod_N := if Nat.eqb N 1 then 0 else 1 in
  let nuni := U - one_mod_N in
  match opt_all (map (fun x => dget uni [x]) (zrange nuni)) with
  | None => None
  | Some uvals =>
      let zeros := fun n => repeat 0 (Z.to_nat n) in
      let fzeros := fun n => repeat (Fin 0) (Z.to_nat n) in
      let lps0 := map fst uvals ++ fzeros (P - nuni) in
      let lbs0 := if Nat.eqb N 1 then fzeros O else map snd uvals ++ fzeros (O - nuni) in
      let parents := map (fun x => ([x], x)) (zrange (U - 1)) in
      match build_levels U higher parents 0 (mkB (zeros O) (zeros I) lps0 lbs0 [] nuni) with
      | None => None
      | Some st =>
          let offs := b_offs st in
          let bf := mkBufs offs (b_ids st) (b_lps st) (b_lbs st) in
          match infer_maxdesc V s offs with
          | None => None
          | Some S_ =>
              Some (mkBuilt bf N G S_
                      (match offs with [] => 0%nat | _ => int_width (zmax_list offs 0) end)
                      (int_width U))
          end
      end
  end.

Definition build_core (V s : Z) (N : nat) (cl0 : list dict) : option built :=
  let total := fold_right (fun d acc => zlen d + acc) 0 cl0 in
  let G := zlen (last cl0 []) in
  let U := V + shiftz V s + (if Nat.eqb N 1 then 0 else 1) in
  let O := total - G + (Z.of_nat N - 1) in
  match map (fun d => map (ren_entry V s) d) cl0 with
  | [] => None
  | uni :: higher => build_tail V s N G U O (O + G - U) (O + G) uni higher
  end.

Lemma build_trie_core V s dicts :
  build_trie V s dicts =
  match rev dicts with
  | [] => None
  | top :: lower =>
      if match top with [] => true | _ => false end then None else
      if negb (forallb (fun p => keys_okb V s (fst p) (snd p)) (combine (seq 1 (length dicts)) dicts))
      then None
      else build_core V s (length dicts) (closed0 V s top lower)
  end.
Proof. unfold build_trie. destruct (rev dicts) as [|top lower]; reflexivity. Qed.

(* ---------- from the closed chain to well-formed levels ----------------------------------------------------- *)

Lemma asc_chain nuni : forall ds n pd prev,
  asc (in_range nuni) n (pd :: ds) -> (forall k, In k (map fst pd) -> In (rev k) (map fst prev)) ->
  chain_wf nuni n prev ds.
Proof.
  induction ds as [|d rest IH]; intros n pd prev Hasc Hk; [exact I|].
  cbn [asc] in Hasc. destruct Hasc as (_ & Hsub & ([[Hnd Hkeys] Hne] & Hadj & Hrest)).
  cbn [chain_wf]. split.
  - constructor; [exact Hnd| | | |exact Hne].
    + intros e He. apply (Hkeys e He).
    + intros e He. apply (Hkeys e He).
    + intros e He. apply Hk. apply Hsub. exact He.
  - apply (IH (S n) d).
    + cbn [asc]. split; [split; [split|]; assumption|]. split; assumption.
    + intros k Hin. apply in_map_iff in Hin as ([k' v] & <- & Hin). cbn [fst].
      change (rev k') with (fst (rev k', v)). apply in_map. apply sort_rev_in. rewrite rev_involutive. exact Hin.
Qed.

(* ---------- the unigram level --------------------------------------------------------------------------------- *)

Definition uni_level (nuni : Z) (uvals : list (val * val)) : dict :=
  map (fun x => ([x], nth (Z.to_nat x) uvals (NaN, NaN))) (zrange nuni).

Lemma uni_level_length nuni uvals : 0 <= nuni -> zlen (uni_level nuni uvals) = nuni.
Proof. intros H. unfold zlen, uni_level, zrange. rewrite !map_length, seq_length. lia. Qed.

Lemma uni_level_nth nuni uvals i : (i < Z.to_nat nuni)%nat ->
  nth_error (uni_level nuni uvals) i = Some ([Z.of_nat i], nth i uvals (NaN, NaN)).
Proof.
  intros H. unfold uni_level, zrange. rewrite map_map, nth_error_map.
  rewrite (nth_error_nth' _ 0%nat) by (rewrite seq_length; exact H). rewrite seq_nth by exact H.
  cbn. rewrite Nat2Z.id. reflexivity.
Qed.

Lemma uni_level_sorted nuni uvals : sorted_level 1 (uni_level nuni uvals).
Proof.
  split.
  - unfold uni_level, zrange. rewrite map_map. generalize 0%nat as a. generalize (Z.to_nat nuni) as m.
    induction m as [|m IH]; intros a; cbn [seq map]; constructor; [apply IH|].
    rewrite Forall_forall. intros e He. apply in_map_iff in He as (k & <- & Hk). apply in_seq in Hk.
    unfold klt. cbn [fst lex_ltb]. lia.
  - intros e He. unfold uni_level in He. apply in_map_iff in He as (x & <- & _). reflexivity.
Qed.

Lemma uni_level_keys nuni uvals x : 0 <= x < nuni -> In [x] (map fst (uni_level nuni uvals)).
Proof.
  intros H. unfold uni_level. rewrite map_map. cbn [fst]. apply in_map_iff. exists x. split; [reflexivity|].
  unfold zrange. apply in_map_iff. exists (Z.to_nat x). split; [lia|apply in_seq; lia].
Qed.

Lemma opt_all_some {A B} (f : A -> option B) : forall l r, opt_all (map f l) = Some r ->
  length r = length l /\ forall i x, nth_error l i = Some x -> exists y, nth_error r i = Some y /\ f x = Some y.
Proof.
  induction l as [|a l IH]; intros r H; cbn [map opt_all] in H.
  - injection H as <-. split; [reflexivity|]. intros [|i] x Hx; discriminate.
  - destruct (f a) as [y|] eqn:Ea; [|discriminate]. destruct (opt_all (map f l)) as [r'|] eqn:Er; [|discriminate].
    injection H as <-. destruct (IH r' eq_refl) as [Hl Hn]. split; [cbn [length]; lia|].
    intros [|i] x Hx; cbn [nth_error] in *.
    + injection Hx as <-. eauto.
    + apply Hn. exact Hx.
Qed.

Lemma dget_singletons l x : In x l -> dget (map (fun x => ([x], x)) l) [x] = Some x.
Proof.
  induction l as [|y l IH]; intros H; [destruct H|]. cbn [map dget fst snd list_eqb].
  destruct (Z.eqb_spec y x) as [->|Hne]; cbn [andb]; [reflexivity|].
  apply IH. destruct H as [H|H]; [congruence|exact H].
Qed.

(* ---------- max_direct_descendants bounds every node's number of children ---------------------------------- *)

Lemma zmax_list_ge : forall t x y, In y (x :: t) -> y <= zmax_list t x.
Proof.
  induction t as [|z t IH]; intros x y H; cbn [zmax_list].
  - destruct H as [->|[]]. lia.
  - destruct H as [->|[->|H]].
    + pose proof (IH y y (or_introl eq_refl)). lia.
    + lia.
    + pose proof (IH x y (or_intror H)). lia.
Qed.

Lemma desc_span_max_le offs lo hi m : desc_span_max offs lo hi = Some m ->
  forall j, lo <= j -> j + 1 < hi -> zget offs (j + 1) 0 + 1 - zget offs j 0 <= m.
Proof.
  unfold desc_span_max. destruct ((hi <=? lo + 1) || (zlen offs <? hi)); [discriminate|].
  set (g := fun k => zget offs (k + 1) 0 + 1 - zget offs k 0).
  set (ks := map (fun k => lo + Z.of_nat k) (seq 0 (Z.to_nat (hi - 1 - lo)))).
  intros H j Hlo Hhi.
  assert (Hin : In (g j) (map g ks)).
  { apply in_map. unfold ks. apply in_map_iff. exists (Z.to_nat (j - lo)). split; [lia|apply in_seq; lia]. }
  destruct (map g ks) as [|x t]; [discriminate|]. injection H as <-.
  apply zmax_list_ge. exact Hin.
Qed.

Lemma SpanOK_mono b S_ S' : S_ <= S' -> forall ds prev Lpos, SpanOK b S_ prev Lpos ds -> SpanOK b S' prev Lpos ds.
Proof.
  intros Hle. induction ds as [|d rest IH]; intros prev Lpos H; [exact I|].
  destruct H as [H1 H2]. split; [|apply IH; exact H2]. intros j Hj. specialize (H1 j Hj). lia.
Qed.

Lemma maxdesc_loop_mono : forall fuel offs i S0 S_, maxdesc_loop fuel offs i S0 = Some S_ -> S0 <= S_.
Proof.
  induction fuel as [|f IH]; intros offs i S0 S_ H; cbn [maxdesc_loop] in H; [discriminate|].
  destruct (zlen offs <=? i); [injection H as <-; lia|].
  destruct (desc_span_max offs i (i + zget offs i 0)) as [m|]; [|discriminate].
  apply IH in H. lia.
Qed.

Lemma maxdesc_loop_span b nuni U : forall ds n prev Lpos fuel S0 S_,
  LevOK b U prev Lpos ds -> chain_wf nuni n prev ds -> sorted_level n prev ->
  (ds <> [] -> Lpos + zlen prev < zlen (offsets b)) -> (ds = [] -> zlen (offsets b) <= Lpos) ->
  maxdesc_loop fuel (offsets b) Lpos S0 = Some S_ -> SpanOK b S_ prev Lpos ds.
Proof.
  induction ds as [|d rest IH]; intros n prev Lpos fuel S0 S_ HLev Hch Hprev Hin Hend H; [exact I|].
  destruct fuel as [|f]; cbn [maxdesc_loop] in H; [discriminate|].
  specialize (Hin ltac:(discriminate)). assert (0 <= zlen prev) by (unfold zlen; lia).
  replace (zlen (offsets b) <=? Lpos) with false in H by lia.
  cbn [LevOK] in HLev. destruct HLev as (Hoffs & _ & (_ & Hfit & Hlast) & HLev).
  destruct Hch as [Hwf Hch].
  set (lv := sort_rev d) in *. set (Lm := Lpos + zlen prev + 1) in *.
  assert (Hj : Lpos + zget (offsets b) Lpos 0 = Lm).
  { rewrite Hoffs by lia. rewrite count_lt_none; [lia|].
    pose proof (ppos_range nuni n prev d Lpos Hwf) as Hr. rewrite Forall_forall in *.
    intros p Hp. specialize (Hr p Hp). lia. }
  rewrite Hj in H. destruct (desc_span_max (offsets b) Lpos Lm) as [m|] eqn:Em; [|discriminate].
  cbn [SpanOK]. fold lv. fold Lm. split.
  - intros j Hjr. pose proof (desc_span_max_le _ _ _ _ Em j ltac:(lia) ltac:(unfold Lm; lia)) as Hle.
    apply maxdesc_loop_mono in H. lia.
  - apply (IH (S n) lv Lm f (Z.max S0 m) S_); try assumption.
    apply (sort_rev_level nuni n (map fst prev) d Hwf).
Qed.

(* ---------- the table side ------------------------------------------------------------------------------------- *)

Lemma mapwin_ren sh w : mapwin sh w = map (ren (vocab sh) (sos sh)) w.
Proof.
  unfold mapwin, ren. destruct (shiftb (vocab sh) (sos sh)); cbn [andb]; [reflexivity|].
  symmetry. apply map_id.
Qed.

Lemma tfind_in t : forall e, In e t -> tfind t (fst e) <> None.
Proof.
  induction t as [|h t IH]; intros e He; [destruct He|]. cbn [tfind].
  destruct (list_eqb (fst h) (fst e)) eqn:E; [discriminate|].
  destruct He as [->|He]; [rewrite list_eqb_refl in E; discriminate|]. apply IH. exact He.
Qed.

Lemma Forall2_nth_error_r {A B} (R : A -> B -> Prop) l1 l2 : Forall2 R l1 l2 ->
  forall i y, nth_error l2 i = Some y -> exists x, nth_error l1 i = Some x /\ R x y.
Proof.
  induction 1 as [|x y l1 l2 Hxy H IH]; intros i b Hi; [destruct i; discriminate|].
  destruct i as [|i]; cbn [nth_error] in *.
  - injection Hi as <-. eauto.
  - apply IH. exact Hi.
Qed.

(* level m+1 of the stored table = the caller's order-(m+1) entries (renamed) plus (-inf, 0) entries *)
Lemma closed_values sh dicts cl0 m c0 :
  dicts_wf (vocab sh) (sos sh) dicts -> Forall2 ext_of dicts cl0 -> nth_error cl0 m = Some c0 ->
  let t := tmap sh (concat dicts) in
  (forall k v, length k = S m -> tfind t k = Some v -> In (k, v) (map (ren_entry (vocab sh) (sos sh)) c0)) /\
  (forall k v, In (k, v) (map (ren_entry (vocab sh) (sos sh)) c0) -> tfind t k = None -> v = (NInf, Fin 0)).
Proof.
  intros Hwf Hf2 Hm t.
  destruct (Forall2_nth_error_r _ _ _ Hf2 m c0 Hm) as (d & Hd & (extra & Ec & Hn)).
  split.
  - intros k v Hlen Hf. destruct (tfind_some _ _ _ Hf) as (e & Hin & Hk & Hv).
    unfold t, tmap in Hin. apply in_map_iff in Hin as (e0 & <- & Hin0). cbn [fst snd] in Hk, Hv.
    apply in_concat in Hin0 as (d' & Hd' & He0). apply In_nth_error in Hd' as [j Hj].
    destruct (Hwf j d' Hj) as [_ Hkeys]. destruct (Hkeys e0 He0) as [Hl _].
    assert (j = m). { rewrite <- Hk, mapwin_length in Hlen. lia. } subst j.
    pose proof (eq_trans (eq_sym Hj) Hd) as Hdd. injection Hdd as ->.
    apply in_map_iff. exists e0. split.
    + unfold ren_entry. rewrite <- mapwin_ren, Hk, Hv. reflexivity.
    + rewrite Ec. apply in_or_app. left. exact He0.
  - intros k v Hin Hf. apply in_map_iff in Hin as (e0 & E & Hin0). unfold ren_entry in E.
    injection E as Ek Ev. rewrite Ec in Hin0. apply in_app_or in Hin0 as [Hin0|Hin0].
    + exfalso. assert (Hint : In (mapwin sh (fst e0), snd e0) t).
      { unfold t, tmap. apply in_map_iff. exists e0. split; [reflexivity|].
        apply in_concat. exists d. split; [eapply nth_error_In; exact Hd|exact Hin0]. }
      apply tfind_in in Hint. cbn [fst] in Hint. rewrite mapwin_ren, Ek in Hint. contradiction.
    + rewrite Forall_forall in Hn. rewrite <- Ev. apply (Hn e0 Hin0).
Qed.

(* ---------- the completed unigram dictionary has exactly V + shift entries -------------------------------- *)

Lemma zrange_NoDup n : NoDup (zrange n).
Proof. unfold zrange. apply FinFun.Injective_map_NoDup; [|apply seq_NoDup]. intros a c H. lia. Qed.

Lemma zrange_in n x : In x (zrange n) <-> 0 <= x < n.
Proof.
  unfold zrange. rewrite in_map_iff. split.
  - intros (k & <- & Hk). apply in_seq in Hk. lia.
  - intros H. exists (Z.to_nat x). split; [lia|apply in_seq; lia].
Qed.

Lemma uni_toks_NoDup V s : NoDup (uni_toks V s).
Proof.
  unfold uni_toks. destruct (shiftb V s) eqn:Es; [|rewrite app_nil_r; apply zrange_NoDup].
  apply NoDup_snoc; [apply zrange_NoDup|]. rewrite zrange_in. unfold shiftb in Es. lia.
Qed.

Lemma uni_toks_length V s : 0 <= V -> zlen (uni_toks V s) = V + shiftz V s.
Proof.
  intros HV. unfold zlen, uni_toks, shiftz, zrange. rewrite app_length, map_length, seq_length.
  destruct (shiftb V s); cbn [length]; lia.
Qed.

Lemma uni_toks_in V s x : 0 <= V -> In x (uni_toks V s) -> 0 <= ren V s x < V + shiftz V s.
Proof.
  intros HV H. apply ren_range; [exact HV|]. unfold uni_toks in H. apply in_app_or in H as [H|H].
  - left. apply zrange_in. exact H.
  - destruct (shiftb V s); [|destruct H]. destruct H as [<-|[]]. right. reflexivity.
Qed.

Lemma uni_count V s (uni : dict) : 0 <= V -> NoDup (map fst uni) ->
  (forall x, In x (uni_toks V s) -> In [x] (map fst uni)) ->
  (forall e, In e uni -> exists x, fst e = [x] /\ In x (uni_toks V s)) ->
  zlen uni = V + shiftz V s.
Proof.
  intros HV Hnd Hc Hk. rewrite <- uni_toks_length by exact HV. unfold zlen. f_equal.
  rewrite <- (map_length fst uni), <- (map_length (fun x => [x]) (uni_toks V s)).
  apply Permutation_length. apply NoDup_Permutation; [exact Hnd| |].
  - apply FinFun.Injective_map_NoDup; [|apply uni_toks_NoDup]. intros a c E. congruence.
  - intros k. split.
    + intros Hin. apply in_map_iff in Hin as (e & <- & He). destruct (Hk e He) as (x & -> & Hx).
      apply in_map_iff. exists x. auto.
    + intros Hin. apply in_map_iff in Hin as (x & <- & Hx). apply Hc. exact Hx.
Qed.

Lemma tot_map (f : list Z * (val * val) -> list Z * (val * val)) (l : list dict) :
  tot (map (fun d => map f d) l) = fold_right (fun d acc => zlen d + acc) 0 l + zlen l.
Proof.
  unfold zlen. induction l as [|d l IH]; cbn [map tot fold_right length]; [reflexivity|].
  rewrite IH. unfold zlen. rewrite map_length. lia.
Qed.

Lemma level_at_nth : forall m ds prev Lpos, (m < length ds)%nat ->
  fst (level_at prev Lpos ds (S m)) = sort_rev (nth m ds []).
Proof.
  induction m as [|m IH]; intros ds prev Lpos Hm; destruct ds as [|d rest]; cbn [length] in Hm; try lia.
  - reflexivity.
  - cbn [level_at nth]. apply IH. lia.
Qed.

Lemma infer_maxdesc_span b V s nuni U S_ d rest prev1 :
  U = nuni + 1 -> nuni = V + shiftz V s -> zlen prev1 = nuni -> 1 <= nuni ->
  LevOK b U prev1 0 (d :: rest) -> chain_wf nuni 1 prev1 (d :: rest) -> sorted_level 1 prev1 ->
  nuni < zlen (offsets b) ->
  infer_maxdesc V s (offsets b) = Some S_ -> 0 <= S_ /\ SpanOK b S_ prev1 0 (d :: rest).
Proof.
  intros HU Hnuni Hlen Hn1 HLev Hch Hs Hlt H. unfold infer_maxdesc in H.
  replace (zlen (offsets b) =? 0) with false in H by lia.
  rewrite <- Hnuni, <- HU in H.
  destruct (negb ((0 <? U) && (U <=? zlen (offsets b)))); [discriminate|].
  destruct (desc_span_max (offsets b) 0 U) as [S0|] eqn:E0; [|discriminate].
  destruct (S0 <? 0) eqn:Eneg; [discriminate|].
  destruct (maxdesc_loop (S (length (offsets b))) (offsets b) U S0) as [S1|] eqn:El; [|discriminate].
  destruct (S1 <? U); [|discriminate]. injection H as <-.
  pose proof (maxdesc_loop_mono _ _ _ _ _ El) as Hmono. split; [lia|].
  cbn [SpanOK]. split.
  - intros j Hj. pose proof (desc_span_max_le _ _ _ _ E0 j ltac:(lia) ltac:(lia)). lia.
  - cbn [LevOK] in HLev. destruct HLev as (_ & _ & (_ & Hfit & Hlast) & HLev). destruct Hch as [Hwf Hch].
    replace (0 + zlen prev1 + 1) with U in * by lia.
    apply (maxdesc_loop_span b nuni U rest 2 (sort_rev d) U (S (length (offsets b))) S0 S1 HLev Hch); try assumption.
    apply (sort_rev_level nuni 1 (map fst prev1) d Hwf).
Qed.

Section Tail.
  Variables (V s : Z) (N : nat) (G U O I P : Z) (uni : dict) (higher : list dict) (t : tab).
  Let nuni := V + shiftz V s.
  Hypothesis HV : 1 <= V.
  Hypothesis HN : N = S (length higher).
  Hypothesis Hasc : asc (in_range nuni) 1 (uni :: higher).
  Hypothesis Hcomp : forall x, 0 <= x < nuni -> In [x] (map fst uni).
  Hypothesis Hvals : forall m dm, nth_error (uni :: higher) m = Some dm ->
    (forall k v, length k = S m -> tfind t k = Some v -> In (k, v) dm) /\
    (forall k v, In (k, v) dm -> tfind t k = None -> v = (NInf, Fin 0)).

  Lemma nuni_pos : 1 <= nuni.
  Proof. unfold nuni, shiftz. destruct (shiftb V s); lia. Qed.

  Lemma uni_nodup : NoDup (map fst uni).
  Proof. apply Hasc. Qed.

  Lemma uni_key e : In e uni -> exists x, fst e = [x] /\ 0 <= x < nuni.
  Proof.
    intros He. destruct Hasc as ([[_ Hk] _] & _). destruct (Hk e He) as [Hl Ht].
    destruct (fst e) as [|x [|y r]]; cbn [length] in Hl; try lia. exists x. split; [reflexivity|].
    inversion Ht; assumption.
  Qed.

  (* values of the unigram cells *)
  Lemma uvals_spec uvals : opt_all (map (fun x => dget uni [x]) (zrange nuni)) = Some uvals ->
    length uvals = Z.to_nat nuni /\
    forall x, 0 <= x < nuni -> In ([x], nth (Z.to_nat x) uvals (NaN, NaN)) uni.
  Proof.
    intros H. destruct (opt_all_some _ _ _ H) as [Hl Hn]. split.
    - rewrite Hl. unfold zrange. rewrite map_length, seq_length. reflexivity.
    - intros x Hx. destruct (Hn (Z.to_nat x) x) as (y & Hy & Hd).
      { unfold zrange. rewrite nth_error_map, (nth_error_nth' _ 0%nat) by (rewrite seq_length; lia).
        rewrite seq_nth by lia. cbn. f_equal. lia. }
      rewrite (nth_error_nth _ _ _ Hy). apply dget_some. exact Hd.
  Qed.

  Hypothesis HU : U = nuni + (if Nat.eqb N 1 then 0 else 1).
  Hypothesis HI : I = P - U.
  Hypothesis HP : zlen uni + tot higher = P.
  Hypothesis HO : O = P - G.
  Hypothesis HG : G = zlen (last (uni :: higher) []).
  Hypothesis Huni : zlen uni = nuni.

  Lemma build_tail_ok2 bt : higher <> [] -> build_tail V s N G U O I P uni higher = Some bt ->
    TrieOK (bt_bufs bt) (mkShape V s (bt_order bt) (bt_gnodes bt) (Z.to_nat (bt_maxdesc bt))) t.
  Proof.
    intros Hhne H. pose proof nuni_pos as Hn1.
    assert (HNe : Nat.eqb N 1 = false) by (apply Nat.eqb_neq; destruct higher; [congruence|cbn [length] in HN; lia]).
    rewrite HNe in HU. unfold build_tail in H. rewrite HNe in H. cbv zeta in H.
    replace (U - 1) with nuni in H by lia.
    destruct (opt_all (map (fun x => dget uni [x]) (zrange nuni))) as [uvals|] eqn:Euv; [|discriminate].
    destruct (uvals_spec uvals Euv) as [Hulen Huv].
    set (prev1 := uni_level nuni uvals).
    assert (Hp1len : zlen prev1 = nuni) by (apply uni_level_length; lia).
    assert (HGh : G = zlen (last higher [])).
    { rewrite HG. destruct higher; [congruence|]. rewrite !last_cons. reflexivity. }
    assert (Htl : G + 1 <= tot higher) by (rewrite HGh; apply tot_last; exact Hhne).
    assert (HG0 : 0 <= G) by (rewrite HG; unfold zlen; lia).
    assert (Hch : chain_wf nuni 1 prev1 higher).
    { apply (asc_chain nuni higher 1 uni prev1 Hasc). intros k Hk.
      apply in_map_iff in Hk as (e & <- & He). destruct (uni_key e He) as (x & -> & Hx).
      apply uni_level_keys. exact Hx. }
    set (parents := map (fun x => ([x], x)) (zrange nuni)) in H.
    set (st0 := mkB _ _ _ _ _ _) in H.
    destruct (build_levels_spec U nuni O I P HU HI higher 1 prev1 0 parents 0 st0)
      as (st' & Hb & HLev & Hlo & Hli & Hlp & Hlb & Fo & Fi & Fp & Fb); try assumption; try lia.
    { apply uni_level_sorted. }
    { intros E. rewrite E in Hp1len. unfold zlen in Hp1len. cbn in Hp1len. lia. }
    { rewrite Hp1len. unfold st0. constructor; cbn [b_alloc b_offs b_ids b_lps b_lbs]; unfold zlen.
      - lia.
      - rewrite repeat_length. lia.
      - rewrite repeat_length. lia.
      - rewrite app_length, map_length, repeat_length, Hulen. lia.
      - rewrite app_length, map_length, repeat_length, Hulen. lia.
      - intros q Hq. apply zget_repeat.
      - left. reflexivity. }
    { intros i k Hi. rewrite nth_error_map in Hi.
      assert (Hil : (i < Z.to_nat nuni)%nat).
      { assert (i < length prev1)%nat; [|unfold zlen in Hp1len; lia]. apply nth_error_Some.
        destruct (nth_error prev1 i); [discriminate|discriminate Hi]. }
      unfold prev1 in Hi. rewrite (uni_level_nth nuni uvals i Hil) in Hi. cbn in Hi. injection Hi as <-.
      unfold parents. rewrite dget_singletons; [f_equal; lia|]. apply zrange_in. lia. }
    rewrite Hb in H. destruct (infer_maxdesc V s (b_offs st')) as [S_|] eqn:Einf; [|discriminate].
    injection H as <-. cbn [bt_bufs bt_order bt_gnodes bt_maxdesc].
    change (mkBufs (b_offs st') (b_ids st') (b_lps st') (b_lbs st')) with (bufs_of st').
    set (b := bufs_of st'). set (sh := mkShape V s N G (Z.to_nat S_)).
    assert (Husz : usize sh = U).
    { unfold usize, sh. cbn [vocab sos order]. rewrite HNe. fold nuni. lia. }
    assert (Hpsz : psize b sh = zlen (logps b)).
    { unfold psize, osize, b, sh. cbn [bufs_of offsets logps gnodes]. lia. }
    destruct higher as [|d rest] eqn:Eh; [congruence|]. rewrite <- Eh in *.
    destruct (infer_maxdesc_span b V s nuni U S_ d rest prev1 HU eq_refl Hp1len Hn1) as [HS0 Hspan];
      try (rewrite <- Eh; assumption).
    { apply uni_level_sorted. }
    { unfold b. cbn [bufs_of offsets]. lia. }
    { exact Einf. }
    rewrite <- Eh in Hspan.
    assert (HLev' : LevOK b (usize sh) prev1 0 higher) by (rewrite Husz; exact HLev).
    assert (Hspan' : SpanOK b (Z.of_nat (maxdesc sh)) prev1 0 higher).
    { unfold sh. cbn [maxdesc]. rewrite Z2Nat.id by lia. exact Hspan. }
    (* the cells of the unigram level *)
    assert (Hlps1 : forall x, 0 <= x < nuni ->
              zget (logps b) x NaN = fst (nth (Z.to_nat x) uvals (NaN, NaN)) /\
              zget (logbs b) x NaN = snd (nth (Z.to_nat x) uvals (NaN, NaN))).
    { intros x Hx. unfold b. cbn [bufs_of logps logbs]. rewrite Fp, Fb by lia. unfold st0. cbn [b_lps b_lbs].
      rewrite !zget_app_l by (unfold zlen; rewrite map_length, Hulen; lia).
      rewrite !zget_nth by lia. split.
      - change NaN with (fst (NaN, NaN)) at 1. apply map_nth.
      - change NaN with (snd (NaN, NaN)) at 1. apply map_nth. }
    (* TrieOK *)
    split; [|split; [|split]].
    - unfold lens_ok. rewrite Hpsz. unfold osize, b. cbn [bufs_of offsets ids logps logbs].
      rewrite Husz. lia.
    - unfold sh. cbn [order]. lia.
    - unfold nroots, sh, b. cbn [vocab sos bufs_of logps]. fold nuni. lia.
    - intros x rest0 Hx Hlen. unfold nroots, sh in Hx. cbn [vocab sos] in Hx. fold nuni in Hx. fold sh in Hx.
      assert (Hord : order sh = S (length higher)) by (unfold sh; cbn [order]; exact HN).
      rewrite Hord in Hlen.
      set (i := Z.to_nat x).
      assert (Hi : nth_error prev1 i = Some ([x], nth i uvals (NaN, NaN))).
      { unfold prev1. rewrite (uni_level_nth nuni uvals i) by (unfold i; lia). unfold i. rewrite Z2Nat.id by lia.
        reflexivity. }
      destruct (descend_levels b sh nuni Hpsz rest0 higher 1 prev1 0 i _ HLev' Hch (uni_level_sorted nuni uvals)
                  Hspan' ltac:(lia) Hi) as [Hfound Hnone].
      cbv zeta in Hfound, Hnone. cbn [fst] in Hfound, Hnone.
      replace (0 + Z.of_nat i) with x in * by (unfold i; lia).
      unfold node_ok. rewrite node_at_fold. rewrite Hord.
      set (lf := level_at prev1 0 higher (length rest0)) in *.
      (* which entries the level of this node holds *)
      assert (Hlf : forall v, In (x :: rest0, v) (fst lf) <->
                In (rev (x :: rest0), v) (nth (length rest0) (uni :: higher) [])).
      { intros v. unfold lf. destruct rest0 as [|tok r0].
        - cbn [length level_at fst nth rev app]. split.
          + intros Hin. unfold prev1, uni_level in Hin. apply in_map_iff in Hin as (x' & E & Hx').
            injection E as <- <-. apply Huv. apply zrange_in. exact Hx'.
          + intros Hin. pose proof (Huv x Hx) as Hin'.
            rewrite (nodup_fst_unique uni [x] _ _ uni_nodup Hin Hin').
            unfold prev1, uni_level. apply in_map_iff. exists x. split; [reflexivity|apply zrange_in; exact Hx].
        - cbn [length]. rewrite level_at_nth by (cbn [length] in Hlen; lia).
          change (nth (S (length r0)) (uni :: higher) []) with (nth (length r0) higher []).
          apply sort_rev_in. }
      assert (Hnth : nth_error (uni :: higher) (length rest0) = Some (nth (length rest0) (uni :: higher) [])).
      { apply nth_error_nth'. cbn [length]. lia. }
      destruct (Hvals _ _ Hnth) as [Hv1 Hv2].
      assert (Hvalues : forall k e, nth_error (fst lf) k = Some e -> fst e = x :: rest0 ->
                zget (logps b) (snd lf + Z.of_nat k) NaN = fst (snd e) /\
                ((length rest0 < S (length higher) - 1)%nat ->
                 zget (logbs b) (snd lf + Z.of_nat k) NaN = snd (snd e) /\ snd lf + Z.of_nat k < osize b)).
      { intros k e Hk He. destruct rest0 as [|tok r0].
        - unfold lf in *. cbn [length level_at fst snd] in *.
          pose proof (sorted_NoDup prev1 (proj1 (uni_level_sorted nuni uvals))) as Hn.
          rewrite NoDup_nth_error in Hn.
          assert (k = i).
          { apply Hn; [rewrite map_length; apply nth_error_Some; rewrite Hk; discriminate|].
            rewrite !nth_error_map, Hk, Hi. cbn. f_equal. exact He. }
          subst k. rewrite Hi in Hk. injection Hk as <-. cbn [fst snd].
          replace (0 + Z.of_nat i) with x by (unfold i; lia). destruct (Hlps1 x Hx) as [Hp Hb'].
          split; [exact Hp|]. intros _. split; [exact Hb'|]. unfold osize, b. cbn [bufs_of offsets]. lia.
        - destruct (level_values b sh (length (tok :: r0)) higher prev1 0 k e HLev' ltac:(cbn [length] in *; lia) Hk)
            as [Hp Hb']. fold lf in Hp, Hb'. split; [exact Hp|]. intros Hin. apply Hb'. lia. }
      destruct (tfind t (rev (x :: rest0))) as [[p bo]|] eqn:Ef.
      + (* listed: the descent ends in its cell *)
        assert (Hin : In (x :: rest0, (p, bo)) (fst lf)).
        { apply Hlf. apply Hv1; [rewrite rev_length; reflexivity|exact Ef]. }
        apply In_nth_error in Hin as [k Hk].
        specialize (Hfound k _ Hk eq_refl). rewrite Hfound. cbn [fst snd].
        exists (snd lf + Z.of_nat k). split; [reflexivity|].
        destruct (Hvalues k _ Hk eq_refl) as [Hp Hb']. cbn [fst snd] in Hp, Hb'. split; [exact Hp|exact Hb'].
      + (* not listed: any cell reached holds (-inf, 0) *)
        intros j Hj.
        destruct (dget (fst lf) (x :: rest0)) as [v|] eqn:Eg.
        * apply dget_some in Eg. pose proof (proj1 (Hlf v) Eg) as Hcl.
          rewrite (Hv2 _ _ Hcl Ef) in *.
          apply In_nth_error in Eg as [k Hk]. specialize (Hfound k _ Hk eq_refl). rewrite Hfound in Hj.
          cbn [fst snd] in Hj. injection Hj as <-.
          destruct (Hvalues k _ Hk eq_refl) as [Hp Hb']. cbn [fst snd] in Hp, Hb'. split; [exact Hp|exact Hb'].
        * exfalso. rewrite Hnone in Hj; [discriminate|].
          intros e He Heq. apply (dget_in (fst lf) (x :: rest0)); [|exact Eg].
          change ([x] ++ rest0) with (x :: rest0) in Heq. rewrite <- Heq. apply in_map. exact He.
  Qed.

  Lemma build_tail_ok1 bt : higher = [] -> build_tail V s N G U O I P uni higher = Some bt ->
    TrieOK (bt_bufs bt) (mkShape V s (bt_order bt) (bt_gnodes bt) (Z.to_nat (bt_maxdesc bt))) t.
  Proof.
    intros Eh H. pose proof nuni_pos as Hn1.
    assert (HNe : Nat.eqb N 1 = true) by (apply Nat.eqb_eq; rewrite HN, Eh; reflexivity).
    assert (HU' : U = nuni) by (rewrite HU, HNe; lia).
    assert (HPn : P = nuni) by (rewrite <- HP, Eh; cbn [tot]; lia).
    assert (HGn : G = nuni) by (rewrite HG, Eh; cbn [last]; exact Huni).
    assert (HO0 : O = 0) by lia. assert (HI0 : I = 0) by lia.
    rewrite Eh in H. unfold build_tail in H. rewrite HNe in H. cbv zeta in H.
    replace (U - 0) with nuni in H by lia.
    rewrite HO0, HI0 in H.
    destruct (opt_all (map (fun x => dget uni [x]) (zrange nuni))) as [uvals|] eqn:Euv; [|discriminate].
    destruct (uvals_spec uvals Euv) as [Hulen Huv].
    cbn [build_levels Z.to_nat repeat b_offs b_ids b_lps b_lbs] in H.
    cbn in H. injection H as <-. cbn [bt_bufs bt_order bt_gnodes bt_maxdesc].
    set (b := mkBufs _ _ _ _). set (sh := mkShape V s N G (Z.to_nat 0)).
    assert (Hlps : forall x, 0 <= x < nuni -> zget (logps b) x NaN = fst (nth (Z.to_nat x) uvals (NaN, NaN))).
    { intros x Hx. unfold b. cbn [logps]. rewrite zget_app_l by (unfold zlen; rewrite map_length, Hulen; lia).
      rewrite zget_nth by lia. change NaN with (fst (NaN, NaN)) at 1. apply map_nth. }
    split; [|split; [|split]].
    - unfold lens_ok, psize, osize, usize, b, sh, zlen. cbn [offsets ids logps logbs vocab sos order gnodes length].
      rewrite HNe. fold nuni. rewrite app_length, map_length, repeat_length, Hulen. lia.
    - unfold sh. cbn [order]. lia.
    - unfold nroots, sh, b, zlen. cbn [vocab sos logps]. fold nuni.
      rewrite app_length, map_length, repeat_length, Hulen. lia.
    - intros x rest0 Hx Hlen. unfold nroots, sh in Hx. cbn [vocab sos] in Hx. fold nuni in Hx.
      unfold sh in Hlen. cbn [order] in Hlen. assert (rest0 = []) by (destruct rest0; [reflexivity|cbn [length] in Hlen; lia]).
      subst rest0. unfold node_ok, node_at. cbn [fold_left fst snd rev app length].
      destruct (Hvals 0%nat uni eq_refl) as [Hv1 Hv2]. pose proof (Huv x Hx) as Hin.
      assert (HN1 : N = 1%nat) by (apply Nat.eqb_eq; exact HNe).
      destruct (tfind t [x]) as [[p bo]|] eqn:Ef.
      + exists x. split; [reflexivity|]. split; [|unfold sh; cbn [order]; lia].
        rewrite Hlps by exact Hx. pose proof (Hv1 [x] _ eq_refl Ef) as Hin'.
        rewrite (nodup_fst_unique uni [x] _ _ uni_nodup Hin Hin'). reflexivity.
      + intros j [= <-]. split; [|unfold sh; cbn [order]; lia].
        rewrite Hlps by exact Hx. rewrite (Hv2 _ _ Hin Ef). reflexivity.
  Qed.
End Tail.

(* ---------- the theorem ----------------------------------------------------------------------------------------- *)

Fixpoint nodupk (l : list (list Z)) : bool :=
  match l with [] => true | k :: t => negb (existsb (list_eqb k) t) && nodupk t end.

Lemma nodupk_NoDup l : nodupk l = true -> NoDup l.
Proof.
  induction l as [|k t IH]; cbn [nodupk]; intros H; [constructor|].
  apply andb_true_iff in H as [H1 H2]. constructor; [|apply IH; exact H2].
  intros Hin. apply negb_true_iff in H1. assert (existsb (list_eqb k) t = true); [|congruence].
  apply existsb_exists. exists k. split; [exact Hin|apply list_eqb_refl].
Qed.

(* what the Python code requires of prob_dicts (it raises ValueError otherwise), plus the fact
   that a Python dict lists no key twice:
   vocab_size >= 1; at least one dictionary; the highest-order one is not empty; every key of
   the i-th dictionary is a sequence of i tokens, each in range(vocab_size) or equal to sos *)
Definition wf_dicts (V s : Z) (dicts : list dict) : bool :=
  (1 <=? V)
  && negb (match dicts with [] => true | _ => false end)
  && negb (match last dicts [] with [] => true | _ => false end)
  && forallb (fun p => keys_okb V s (fst p) (snd p)) (combine (seq 1 (length dicts)) dicts)
  && forallb (fun d => nodupk (map fst d)) dicts.

Lemma in_combine_seq {A} : forall (l : list A) a i d, nth_error l i = Some d ->
  In ((a + i)%nat, d) (combine (seq a (length l)) l).
Proof.
  induction l as [|x l IH]; intros a i d Hi; [destruct i; discriminate|].
  cbn [length seq combine]. destruct i as [|i]; cbn [nth_error] in Hi.
  - injection Hi as <-. left. f_equal. lia.
  - right. replace (a + S i)%nat with (S a + i)%nat by lia. apply IH. exact Hi.
Qed.

Lemma wf_dicts_spec V s dicts : wf_dicts V s dicts = true ->
  1 <= V /\ dicts_wf V s dicts /\
  (exists top lower, rev dicts = top :: lower /\ top <> []) /\
  forallb (fun p => keys_okb V s (fst p) (snd p)) (combine (seq 1 (length dicts)) dicts) = true.
Proof.
  unfold wf_dicts. intros H.
  apply andb_true_iff in H as [H Hnd]. apply andb_true_iff in H as [H Hk].
  apply andb_true_iff in H as [H Hlast]. apply andb_true_iff in H as [HV Hne].
  split; [lia|]. split; [|split; [|exact Hk]].
  - intros i d Hi. split.
    + apply nodupk_NoDup. rewrite forallb_forall in Hnd. apply Hnd. eapply nth_error_In. exact Hi.
    + intros e He. rewrite forallb_forall in Hk.
      specialize (Hk _ (in_combine_seq dicts 1 i d Hi)). cbn [fst snd] in Hk.
      unfold keys_okb in Hk. rewrite forallb_forall in Hk. specialize (Hk e He).
      apply andb_true_iff in Hk as [Hl Ht]. split; [apply Nat.eqb_eq in Hl; lia|].
      apply toks_okb_ok. exact Ht.
  - destruct (rev dicts) as [|top lower] eqn:Er.
    + apply (f_equal (@rev dict)) in Er. rewrite rev_involutive in Er. rewrite Er in Hne. discriminate.
    + exists top, lower. split; [reflexivity|].
      assert (Hd : dicts = rev lower ++ [top]) by (rewrite <- (rev_involutive dicts), Er; reflexivity).
      rewrite Hd, last_last in Hlast. destruct top; [discriminate|discriminate].
Qed.

Lemma nth_error_map_some {A B} (g : A -> B) l m y : nth_error (map g l) m = Some y ->
  exists x, nth_error l m = Some x /\ y = g x.
Proof.
  rewrite nth_error_map. destruct (nth_error l m); cbn [option_map]; [|discriminate].
  intros [= <-]. eauto.
Qed.

Lemma last_map_len (f : list Z * (val * val) -> list Z * (val * val)) : forall (l : list dict) d0,
  zlen (last (map (fun d => map f d) l) (map f d0)) = zlen (last l d0).
Proof.
  induction l as [|x r IH]; intros d0; cbn [map].
  - cbn [last]. unfold zlen. rewrite map_length. reflexivity.
  - rewrite !last_cons. apply IH.
Qed.

Definition built_shape (V s : Z) (bt : built) : shape :=
  mkShape V s (bt_order bt) (bt_gnodes bt) (Z.to_nat (bt_maxdesc bt)).

(* the table the caller wrote: all dictionaries together *)
Definition table_of (dicts : list dict) : tab := concat dicts.

Theorem build_trie_ok V s dicts bt :
  wf_dicts V s dicts = true -> build_trie V s dicts = Some bt ->
  TrieOK (bt_bufs bt) (built_shape V s bt) (tmap (built_shape V s bt) (table_of dicts)).
Proof.
  intros Hwfb H. destruct (wf_dicts_spec V s dicts Hwfb) as (HV & Hwf & (top & lower & Hrev & Htop) & Hk).
  rewrite build_trie_core, Hrev, Hk in H. cbn [negb] in H.
  destruct top as [|e0 top']; [congruence|]. set (top := e0 :: top') in *.
  destruct (closed0_spec V s dicts top lower ltac:(lia) Hrev Hwf Htop)
    as (uni0 & higher0 & E0 & Hasc0 & Hf2 & Hcomp & Hukeys).
  pose proof (asc_ren V s ltac:(lia) _ _ Hasc0) as Hasc. cbn [map] in Hasc.
  assert (Huni0 : zlen uni0 = V + shiftz V s).
  { apply uni_count; try assumption; try lia. apply Hasc0. }
  assert (HN : length dicts = S (length higher0)) by (rewrite (Forall2_len _ _ _ Hf2); reflexivity).
  unfold build_core in H. rewrite E0 in H. cbn [map] in H.
  set (uni := map (ren_entry V s) uni0) in *.
  set (higher := map (fun d => map (ren_entry V s) d) higher0) in *.
  set (sh := built_shape V s bt).
  assert (Hgoal : forall t, t = tmap sh (table_of dicts) ->
            TrieOK (bt_bufs bt) (mkShape V s (bt_order bt) (bt_gnodes bt) (Z.to_nat (bt_maxdesc bt))) t).
  2:{ apply Hgoal. reflexivity. }
  intros t Et.
  assert (Hvals : forall m dm, nth_error (uni :: higher) m = Some dm ->
            (forall k v, length k = S m -> tfind t k = Some v -> In (k, v) dm) /\
            (forall k v, In (k, v) dm -> tfind t k = None -> v = (NInf, Fin 0))).
  { intros m dm Hm.
    assert (Hm0 : exists c0, nth_error (uni0 :: higher0) m = Some c0 /\ dm = map (ren_entry V s) c0).
    { apply (nth_error_map_some (fun d => map (ren_entry V s) d) (uni0 :: higher0) m dm Hm). }
    destruct Hm0 as (c0 & Hc0 & ->). subst t.
    apply (closed_values sh dicts (uni0 :: higher0) m c0 Hwf Hf2 Hc0). }
  assert (Hcomp' : forall x, 0 <= x < V + shiftz V s -> In [x] (map fst uni)).
  { intros x Hx. unfold uni. rewrite map_map. cbn [ren_entry fst].
    assert (Hx0 : exists x0, In x0 (uni_toks V s) /\ ren V s x0 = x).
    { unfold uni_toks, ren, shiftz in *. destruct (shiftb V s) eqn:Es; unfold shiftb in Es; cbn [andb].
      - destruct (Z.eq_dec x V) as [->|Hne].
        + exists s. split; [apply in_or_app; right; left; reflexivity|]. replace (s =? s) with true by lia. reflexivity.
        + exists x. split; [apply in_or_app; left; apply zrange_in; lia|]. replace (x =? s) with false by lia. reflexivity.
      - exists x. split; [rewrite app_nil_r; apply zrange_in; lia|reflexivity]. }
    destruct Hx0 as (x0 & Hx0 & <-). specialize (Hcomp x0 Hx0).
    apply in_map_iff in Hcomp as (e & He & Hin). apply in_map_iff. exists e. split; [|exact Hin].
    rewrite He. reflexivity. }
  assert (Hzu : zlen uni = V + shiftz V s) by (unfold uni, zlen; rewrite map_length; exact Huni0).
  assert (Htot : zlen uni + tot higher =
                 fold_right (fun d acc => zlen d + acc) 0 (uni0 :: higher0) + (Z.of_nat (length dicts) - 1)).
  { unfold higher. rewrite tot_map. cbn [fold_right]. unfold zlen at 1. unfold uni. rewrite map_length.
    unfold zlen. lia. }
  assert (HG : zlen (last (uni0 :: higher0) []) = zlen (last (uni :: higher) [])).
  { change (uni :: higher) with (map (fun d => map (ren_entry V s) d) (uni0 :: higher0)).
    symmetry. apply (last_map_len (ren_entry V s) (uni0 :: higher0) []). }
  assert (HNh : length dicts = S (length higher)) by (unfold higher; rewrite map_length; exact HN).
  set (G := zlen (last (uni0 :: higher0) [])) in *.
  set (total := fold_right (fun d acc => zlen d + acc) 0 (uni0 :: higher0)) in *.
  set (U := V + shiftz V s + (if Nat.eqb (length dicts) 1 then 0 else 1)) in *.
  set (O := total - G + (Z.of_nat (length dicts) - 1)) in *.
  destruct higher0 as [|d0 r0] eqn:Eh0.
  - apply (build_tail_ok1 V s (length dicts) G U O (O + G - U) (O + G) uni higher t HV HNh Hasc Hcomp' Hvals);
      try reflexivity; try assumption; try (unfold O; lia).
  - apply (build_tail_ok2 V s (length dicts) G U O (O + G - U) (O + G) uni higher t HV HNh Hasc Hcomp' Hvals);
      try reflexivity; try assumption; try (unfold O; lia).
    unfold higher. discriminate.
Qed.
