(* C02 - `_lens_from_eos(tok, eos, 0)` on a (T x B) tensor: the body PV.Gen.C02Src.er_lens (translated in THIS unit),
   interpreted by C07.SrcRun.call_body with the C07 environment (that is what ext02 does with the call), returns for
   every column the index of its first eos, or T when there is none - PV.C01.Model.first_eos.  The lemmas on the
   torch calls of ext07_ops, [istep] and the per-column arithmetic [lens_col] are those of C07.Tie / C01.TieLens,
   re-proved here so that the C02 tie depends on no file that holds lemmas about another unit's translated term. *)
From Coq Require Import ZArith QArith List String Bool Arith Lia ZifyBool ZifyNat.
From PV Require Import MiniPy.Syntax MiniPy.Interp MiniTorch.Ops MiniTorch.OpsC07 MiniTorch.LemmasC07
  MiniTorch.OpsC01 MiniTorch.LemmasC01.
From PV Require Import Gen.C02Src C07.SrcRun.
From PV Require C07.Model C07.Spec C07.ProofsSlp C01.Model MiniTorch.Lemmas.
Import ListNotations.
Local Open Scope string_scope.

#[local] Arguments dec_any : simpl never.
#[local] Arguments enc_b : simpl never.
#[local] Arguments enc_i : simpl never.
#[local] Arguments enc_f : simpl never.
#[local] Arguments tab2 : simpl never.
#[local] Arguments tab3 : simpl never.

Section ExtLemmas.
  Variable lsm : tn xq -> tn xq.
  Notation ext := (ext07_ops lsm).
  Lemma ext_shape_i x st :
    ext "$attr.shape" [enc_i x] [] st = Ok (VTuple (map (fun n => VInt (Z.of_nat n)) (shp x))) st.
  Proof. unfold ext07_ops. cbn. now rewrite dec_any_enc_i. Qed.
  Lemma ext_eq_i x c st : ext "$method.eq" [enc_i x; VInt c] [] st = Ok (enc_b (eq_s x c)) st.
  Proof. unfold ext07_ops. cbn. now rewrite dec_any_enc_i. Qed.
  Lemma ext_eq_b x c st : ext "$method.eq" [enc_b x; VInt c] [] st = Ok (enc_b (eq_sb x c)) st.
  Proof. unfold ext07_ops. cbn. now rewrite dec_any_enc_b. Qed.
  Lemma ext_and x y st : ext "operator" [VStr "and"; enc_b x; enc_b y] [] st = ret_any "and" (option_map TB (band x y)) st.
  Proof. unfold ext07_ops. cbn. now rewrite !dec_any_enc_b. Qed.
  Lemma ext_cumsum x d st :
    ext "torch.cumsum" [enc_b x; VInt d] [("dtype", long_token)] st = ret_any "cumsum" (option_map TI (cumsum_bool x d)) st.
  Proof. unfold ext07_ops. cbn. now rewrite dec_any_enc_b. Qed.
  Lemma ext_max x d st :
    ext "$method.max" [enc_b x; VInt d] [] st =
    match max_bool x d with
    | Some (Some (v, i)) => Ok (VTuple [enc_b v; enc_i i]) st
    | Some None => Exc index_error st
    | None => oob "max"
    end.
  Proof. unfold ext07_ops. cbn. now rewrite dec_any_enc_b. Qed.
  Lemma ext_mfill_i x m c st :
    ext "$method.masked_fill" [enc_i x; enc_b m; VInt c] [] st = ret_any "masked_fill" (option_map TI (masked_fill x m c)) st.
  Proof. unfold ext07_ops. cbn. now rewrite dec_any_enc_i, dec_any_enc_b. Qed.
End ExtLemmas.

Lemma method_enc_i t m args : method (enc_i t) m args = None.  Proof. reflexivity. Qed.
Lemma method_enc_b t m args : method (enc_b t) m args = None.  Proof. reflexivity. Qed.
Lemma attribute_enc_i ext t a st : attribute ext (enc_i t) a st = ext ("$attr." ++ a) [enc_i t] [] st.  Proof. reflexivity. Qed.
Lemma binop_and_enc t u st : binop_eval BitAnd (enc_b t) (enc_b u) st = Stuck "and".  Proof. reflexivity. Qed.
Lemma foreign_enc_i t : foreign (enc_i t) = true.  Proof. reflexivity. Qed.

#[local] Arguments ext07_ops : simpl never.
#[local] Arguments cumsum_bool : simpl never.
#[local] Arguments max_bool : simpl never.
#[local] Arguments seq : simpl never.

Ltac istep :=
  cbn;
  change (Pos.to_nat 1) with 1%nat; change (Pos.to_nat 2) with 2%nat; change (Pos.to_nat 3) with 3%nat; cbn;
  rewrite ?method_enc_i, ?method_enc_b, ?attribute_enc_i, ?binop_and_enc, ?foreign_enc_i;
  cbn.

(* ---- one column: the MiniTorch computation is the first eos --------------------------------------------------- *)
Lemma first_true_same l : OpsC07.first_true l = C07.Model.first_true l.
Proof. induction l as [|b l IH]; [reflexivity|]. cbn. now rewrite IH. Qed.

Lemma run_sum_length l : forall acc, List.length (run_sum acc l) = List.length l.
Proof. induction l as [|x l IH]; intros acc; cbn; [reflexivity|now rewrite IH]. Qed.

Lemma hit_model e col : forall acc,
  zipw (fun r (m : bool) => (r =? 1)%Z && m) (run_sum (Z.of_nat acc) (map b2z (map (fun k => (k =? e)%Z) col)))
       (map (fun k => (k =? e)%Z) col)
  = C07.Model.map2 andb (map (Nat.eqb 1) (C07.Model.cumsum_from acc (map C07.Model.b2n (map (Z.eqb e) col)))) (map (Z.eqb e) col).
Proof.
  induction col as [|k col IH]; intros acc; [reflexivity|].
  cbn [map run_sum zipw C07.Model.cumsum_from C07.Model.map2]. rewrite (Z.eqb_sym e k). f_equal.
  - destruct (k =? e)%Z; cbn [b2z C07.Model.b2n]; [|now rewrite !andb_false_r]. rewrite !andb_true_r.
    destruct (Nat.eqb_spec 1 (acc + 1)); lia.
  - replace (Z.of_nat acc + b2z (k =? e)%Z)%Z with (Z.of_nat (acc + C07.Model.b2n (k =? e)%Z))
      by (destruct (k =? e)%Z; cbn [b2z C07.Model.b2n]; lia).
    apply IH.
Qed.

Lemma lens_col e T (c : nat -> Z) :
  let hit := map (fun t => (nth t (run_sum 0 (map b2z (map (fun s => (c s =? e)%Z) (seq 0 T)))) 0 =? 1)%Z && (c t =? e)%Z) (seq 0 T) in
  (if (b2z match OpsC07.first_true hit with Some _ => true | None => false end =? 0)%Z then Z.of_nat T
   else match OpsC07.first_true hit with Some j => Z.of_nat j | None => 0%Z end)
  = Z.of_nat (C07.Model.lens_from_eos e (map c (seq 0 T))).
Proof.
  intros hit.
  assert (E : hit = C07.Model.map2 andb (map (Nat.eqb 1) (C07.Model.cumsum (map C07.Model.b2n (map (Z.eqb e) (map c (seq 0 T))))))
                               (map (Z.eqb e) (map c (seq 0 T)))).
  { unfold C07.Model.cumsum. rewrite <- (hit_model e (map c (seq 0 T)) 0). unfold hit. rewrite !map_map.
    rewrite <- (map_nth_zipw _ _ _ T 0%Z false) by (rewrite ?run_sum_length, !map_length, seq_length; reflexivity).
    apply map_ext_seq. intros t Ht. rewrite (MiniTorch.Lemmas.nth_map_seq (fun x => (c x =? e)%Z)) by assumption. reflexivity. }
  rewrite first_true_same, E. unfold C07.Model.lens_from_eos, C07.Model.max_first_bool.
  destruct (C07.Model.first_true _) as [j|]; cbn; [reflexivity|]. now rewrite !map_length, seq_length.
Qed.

Lemma first_eos_same : forall e l, C07.Model.lens_from_eos e l = C01.Model.first_eos e l.
Proof.
  intros e l. rewrite C07.ProofsSlp.lens_from_eos_spec. induction l as [|x t IH]; [reflexivity|].
  cbn [C07.Spec.first_eos C01.Model.first_eos List.length].
  destruct (x =? e)%Z; [reflexivity|]. rewrite <- IH. destruct (C07.Spec.first_eos e t); reflexivity.
Qed.

Ltac norm2 :=
  unfold eq_s, lt_s, ge_s, cmp_scalar, eq_sb, add_s, bor, band, masked_fill, zip_same; cbn [shp dat];
  rewrite ?nats_eqb_refl, ?map_tab2, ?zipw_tab2, ?map_map, ?zipw_map;
  cbn [option_map ret_any enc_any].

(* ---- the translated body of this unit ------------------------------------------------------------------------- *)
Lemma lens_run_2 : forall lsm T B h e, T <> 0%nat ->
  exists st, Interp.run (ext07_ops lsm) er_lens
               (("tok", enc_i (mkTn [T; B] (tab2 T B h))) :: ("eos", VInt e) :: ("dim", VInt 0) :: globals07) =
    Ok (enc_i (mkTn [B] (map (fun b => Z.of_nat (C01.Model.first_eos e (map (fun t => h t b) (seq 0 T)))) (seq 0 B)))) st.
Proof.
  intros lsm T B h e HT. unfold Interp.run, er_lens, globals07.
  istep. rewrite ext_eq_i. norm2. istep.
  rewrite ext_cumsum, cumsum_bool_2. norm2. istep.
  rewrite ext_eq_i. norm2. istep. rewrite ext_and. norm2. istep.
  rewrite ext_max, max_bool_2 by assumption. istep.
  rewrite ext_eq_b. norm2. istep. rewrite ext_shape_i. istep.
  rewrite ext_mfill_i. norm2. istep.
  eexists. do 3 f_equal. apply map_ext_seq. intros b Hb.
  rewrite <- first_eos_same. apply (lens_col e T (fun t => h t b)).
Qed.

Lemma lens_run_2_empty : forall lsm B h e,
  exists st, Interp.run (ext07_ops lsm) er_lens
               (("tok", enc_i (mkTn [0%nat; B] (tab2 0 B h))) :: ("eos", VInt e) :: ("dim", VInt 0) :: globals07) =
    Exc index_error st.
Proof.
  intros lsm B h e. unfold Interp.run, er_lens, globals07.
  istep. rewrite ext_eq_i. norm2. istep.
  rewrite ext_cumsum, cumsum_bool_2. norm2. istep.
  rewrite ext_eq_i. norm2. istep. rewrite ext_and. norm2. istep.
  rewrite ext_max, max_bool_2_empty. istep. eexists. reflexivity.
Qed.
